import CprocVerif.Model.Linkage

/-!
# What C11 says about the declarations of one identifier in a translation unit

Written from the text of C11 (6.2.2 linkage, 6.7p3, 6.7.1p3/p7, 6.7.4p7, 6.7.9p5, 6.9p3/p5, 6.9.2),
independently of how `decl.c` keeps its books: every declaration of the history is annotated with
the linkage 6.2.2 gives it (`annot`), and every judgement is a condition on *all* earlier
declarations (same-scope ones, the ones with linkage, the file-scope ones), not on a mutable
per-identifier record.  Only the vocabulary (`Form`, `Link`, `Sym`, `SymTab`) is shared with the
model.

Lists named `A`, `older` hold the history *newest first* (so "the nearest visible prior
declaration" is a prefix lookup); the public entry points take the history in source order.

Reading choices (each validated against `gcc -std=c11 -pedantic-errors` + `nm` by `checks/c09.py`):
* a file-scope object declaration without initialiser and without `extern` is a tentative
  definition also when it says `_Thread_local` (gcc, clang and C23 read 6.9.2p2 this way);
* a block-scope function declaration without storage class is "as if `extern`" (6.2.2p5);
* assembler labels are an extension: they must sit on the first declaration with linkage, which
  must be a file-scope one; later declarations repeat it or omit it; anything else (and labels
  on objects without linkage) is classed `unspecified` and nothing is claimed.
-/
namespace CprocVerif.Link
open CprocVerif.Linkage (Form Scope Kind SC Label Link SymName Sym Ref SymTab)

/-- A declaration together with its C11 linkage. -/
structure Decl where
  form : Form
  link : Link
deriving DecidableEq, Repr, Inhabited

/-- 6.2.2p3–p6, given the linkage of the prior declaration that is visible (if any). -/
def c11Link (f : Form) (prior : Option Link) : Link :=
  if f.scope = .file ∧ f.sc = .static then .intern                       -- p3
  else if f.sc = .extern ∨ (f.kind = .func ∧ f.sc = .none) then          -- p4, p5 (functions)
    match prior with
    | some .intern => .intern
    | some .extern => .extern
    | _ => .extern
  else if f.scope = .file then .extern                                    -- p5 (objects)
  else .none                                                              -- p6

def Decl.atFile (d : Decl) : Bool := d.form.scope = .file
def Decl.linked (d : Decl) : Bool := d.link ≠ .none

/-- Linkage of the nearest prior declaration visible where `f` is declared: at file scope the
latest file-scope declaration; inside a function body the declaration just before (it is in the
same or an enclosing block, or — when `f` opens the body — the latest file-scope one). -/
def visLink (f : Form) (A : List Decl) : Option Link :=
  if f.scope = .file then (A.find? Decl.atFile).map (·.link) else A.head?.map (·.link)

/-- Every declaration with its linkage (newest first in, newest first out). -/
def annot : List Form → List Decl
  | [] => []
  | f :: older => ⟨f, c11Link f (visLink f (annot older))⟩ :: annot older

/-- Earlier declarations in the innermost open block. -/
def blockMates : List Decl → List Decl
  | [] => []
  | d :: A => match d.form.scope with
    | .file => []
    | .nested => [d]
    | .block => d :: blockMates A

/-- Earlier declarations in the scope where a form with scope tag `sc` is declared. -/
def mates (sc : Scope) (A : List Decl) : List Decl :=
  match sc with
  | .file => A.filter Decl.atFile
  | .nested => []
  | .block => blockMates A

/-- Earlier declarations with internal or external linkage (they all denote one entity, or the
behaviour is undefined). -/
def linkedDecls (A : List Decl) : List Decl := A.filter Decl.linked

/-- An external definition was seen: file scope, with initialiser / body. -/
def hasDefinition (A : List Decl) : Bool := A.any (fun d => d.atFile && d.form.hasDef)

/-- The label the entity got at its first declaration with linkage. -/
def entityLabel (A : List Decl) : Option Label := (linkedDecls A).getLast?.bind (·.form.asm)

inductive Clause
  | syntaxNestedDefinition | syntaxLabelOnDefinition
  | c6_7_1p7_blockFunctionStorage | c6_7_1p3_blockThreadLocal
  | c6_7p3_sameScopeKind | c6_7p3_noLinkageRedeclared | c6_7_9p5_blockExternInit
  | c6_7_1p3_threadMismatchSameScope | c6_7_1p3_threadMismatchFileScope
  | c6_7_1p3_threadMismatchUnseenBlockExtern
  | c6_9p3_internalRedefined
  | c6_2_7p2_kindAcrossScopes | c6_2_2p7_internalAndExternal | c6_9p5_externalRedefined
  | c6_7_4p7_inlineNeverDefined
  | asmLabel
deriving DecidableEq, Repr, Inhabited

inductive Verdict
  | ok
  /-- a constraint (or syntax rule) is violated: a diagnostic is required -/
  | violates (c : Clause)
  /-- undefined behaviour: C11 imposes nothing -/
  | undefined (c : Clause)
  /-- outside what the assembler-label extension documents -/
  | unspecified (c : Clause)
deriving DecidableEq, Repr, Inhabited

/-- Is declaration `f` acceptable after the (accepted) declarations `A`? -/
def judge (f : Form) (A : List Decl) : Verdict :=
  let l := c11Link f (visLink f A)
  let M := mates f.scope A
  let L := linkedDecls A
  -- constraints and syntax
  if f.kind = .func ∧ f.hasDef ∧ f.scope ≠ .file then .violates .syntaxNestedDefinition
  else if f.kind = .func ∧ f.hasDef ∧ f.asm.isSome then .violates .syntaxLabelOnDefinition
  else if f.kind = .func ∧ f.scope ≠ .file ∧ f.sc = .static then .violates .c6_7_1p7_blockFunctionStorage
  else if f.kind = .obj ∧ f.scope ≠ .file ∧ f.flag ∧ f.sc = .none then .violates .c6_7_1p3_blockThreadLocal
  else if M.any (fun d => d.form.kind ≠ f.kind) then .violates .c6_7p3_sameScopeKind
  else if (l = .none ∧ ¬ M.isEmpty) ∨ M.any (fun d => d.link = .none) then .violates .c6_7p3_noLinkageRedeclared
  else if l ≠ .none ∧ f.scope ≠ .file ∧ f.kind = .obj ∧ f.hasDef then .violates .c6_7_9p5_blockExternInit
  else if f.kind = .obj ∧ M.any (fun d => d.form.kind = .obj ∧ d.form.flag ≠ f.flag) then
    .violates .c6_7_1p3_threadMismatchSameScope
  -- undefined behaviour
  else if l ≠ .none ∧ L.any (fun d => d.form.kind ≠ f.kind) then .undefined .c6_2_7p2_kindAcrossScopes
  else if l ≠ .none ∧ L.any (fun d => d.link ≠ l) then .undefined .c6_2_2p7_internalAndExternal
  else if f.kind = .obj ∧ l ≠ .none ∧
      (A.filter Decl.atFile).any (fun d => d.form.kind = .obj ∧ d.form.flag ≠ f.flag) then
    .violates .c6_7_1p3_threadMismatchFileScope
  -- … or with a block-scope `extern` declaration that is not visible here
  else if f.kind = .obj ∧ l ≠ .none ∧ L.any (fun d => d.form.kind = .obj ∧ d.form.flag ≠ f.flag) then
    .violates .c6_7_1p3_threadMismatchUnseenBlockExtern
  else if f.scope = .file ∧ f.hasDef ∧ hasDefinition A then
    (if l = .intern then .violates .c6_9p3_internalRedefined else .undefined .c6_9p5_externalRedefined)
  -- assembler labels (extension)
  else if f.asm.isSome ∧ l = .none then .unspecified .asmLabel
  else if f.asm.isSome ∧ L.isEmpty ∧ f.scope ≠ .file then .unspecified .asmLabel
  else if f.asm.isSome ∧ ¬ L.isEmpty ∧ entityLabel A ≠ f.asm then .unspecified .asmLabel
  else .ok

/-- End of the translation unit (6.7.4p7: an inline function with external linkage shall be
defined in the same unit). -/
def judgeEnd (A : List Decl) : Verdict :=
  if A.any (fun d => d.form.kind = .func ∧ d.link = .extern ∧ d.form.flag) ∧ ¬ hasDefinition A then
    .undefined .c6_7_4p7_inlineNeverDefined
  else .ok

/-- Verdict on the declarations alone: the first declaration that is not acceptable decides. -/
def verdictRev : List Form → Verdict
  | [] => .ok
  | f :: older => match verdictRev older with
    | .ok => judge f (annot older)
    | v => v

/-- The whole history (source order). -/
def classify (h : List Form) : Verdict :=
  match verdictRev h.reverse with
  | .ok => judgeEnd (annot h.reverse)
  | v => v

def ok (h : List Form) : Prop := classify h = .ok
def violates (h : List Form) : Prop := ∃ c, classify h = .violates c

instance (h : List Form) : Decidable (ok h) := inferInstanceAs (Decidable (_ = _))

/-! ## Definitions, exports, undefined references -/

/-- a block-scope `static` object: no linkage, static or thread storage duration -/
def Decl.blockStatic (d : Decl) : Bool := d.link = .none ∧ d.form.kind = .obj ∧ d.form.sc = .static

def countBlockStatics (A : List Decl) : Nat := (A.filter Decl.blockStatic).length

/-- Block-scope statics in source order; the k-th gets the unique name `loc k`; each is defined
where it is declared. -/
def localsRev : List Decl → List Sym
  | [] => []
  | d :: A =>
    localsRev A ++
      (if d.blockStatic then
        [{ name := .loc (countBlockStatics A + 1), isFunc := false, exported := false,
           thread := d.form.flag, zero := ¬ d.form.hasDef }]
       else [])

def entityName (A : List Decl) : SymName :=
  match entityLabel A with
  | some lab => .asm lab
  | none => .plain

/-- The external definition(s) of the entity with linkage (at most one). -/
def mainSyms (A : List Decl) : List Sym :=
  let L := linkedDecls A
  let F := A.filter Decl.atFile
  match L.head? with
  | none => []
  | some d0 =>
    let exported : Bool := d0.link = .extern
    match d0.form.kind with
    | .obj =>
      let thread := L.any (fun d => d.form.kind = .obj ∧ d.form.flag)
      if F.any (·.form.hasDef) then
        [{ name := entityName A, isFunc := false, exported := exported, thread := thread, zero := false }]
      -- 6.9.2: tentative definitions and no definition ⇒ exactly one zero-initialised definition
      else if F.any (fun d => d.form.kind = .obj ∧ ¬ d.form.hasDef ∧ d.form.sc ≠ .extern) then
        [{ name := entityName A, isFunc := false, exported := exported, thread := thread, zero := true }]
      else []
    | .func =>
      -- 6.7.4p7: all file-scope declarations `inline` without `extern` ⇒ inline definition only
      let inlineDefinition : Bool := d0.link = .extern ∧
        F.all (fun d => d.form.kind = .func → d.form.flag ∧ d.form.sc ≠ .extern)
      if F.any (·.form.hasDef) ∧ ¬ inlineDefinition then
        [{ name := entityName A, isFunc := true, exported := exported, thread := false, zero := false }]
      else []

def symbolsRev (A : List Decl) : SymTab :=
  let L := linkedDecls A
  { main := mainSyms A,
    locals := localsRev A,
    undef := if ¬ L.isEmpty ∧ (mainSyms A).isEmpty then
               [{ name := entityName A, thread := L.any (fun d => d.form.kind = .obj ∧ d.form.flag) }]
             else [] }

/-- The symbol table C11 prescribes for an `ok` history. -/
def symbols (h : List Form) : SymTab := symbolsRev (annot h.reverse)

/-- 6.2.2 linkage of each declaration, in source order. -/
def linkages (h : List Form) : List Link := (annot h.reverse).reverse.map (·.link)

/-! ## Named input classes (known deviations of `decl.c`; hypotheses of the `_partial` theorems) -/

def pureInline (f : Form) : Bool := f.flag ∧ f.sc ≠ .extern

/-- `inline int f(void){…}` (an inline definition so far) followed by a file-scope declaration of
`f` that is `extern` or not `inline` (DESIGN §7 #14, fid `inline-then-extern-not-emitted`). -/
def inlineThenExternRev : List Form → Bool
  | [] => false
  | f :: older =>
    (f.kind = .func ∧ f.scope = .file ∧ ¬ pureInline f ∧
      older.any (fun g => g.scope = .file ∧ g.hasDef) ∧
      (older.filter (fun g => g.scope = .file)).all (fun g => g.kind = .func → pureInline g))
    || inlineThenExternRev older

def inlineThenExtern (h : List Form) : Bool := inlineThenExternRev h.reverse

/-- A thread-local file-scope object first declared without initialiser (and without `extern`),
then with one (fid `thread-local-tentative-then-init`). -/
def threadTentativeThenInitRev : List Form → Bool
  | [] => false
  | f :: older =>
    (f.kind = .obj ∧ f.scope = .file ∧ f.flag ∧ f.hasDef ∧
      older.any (fun g => g.kind = .obj ∧ g.scope = .file ∧ g.flag ∧ ¬ g.hasDef ∧ g.sc ≠ .extern))
    || threadTentativeThenInitRev older

def threadTentativeThenInit (h : List Form) : Bool := threadTentativeThenInitRev h.reverse

/-! ## Text for the driver -/

def showClause (c : Clause) : String := (reprStr c).replace "CprocVerif.Link.Clause." ""

/-- kind and linkage of the entity with linkage, for the driver: `o:extern`, `f:intern`, `-` -/
def showEntity (h : List Form) : String :=
  match (linkedDecls (annot h.reverse)).head? with
  | none => "-"
  | some d => (match d.form.kind with | .obj => "o" | .func => "f") ++ ":" ++
      (match d.link with | .none => "none" | .intern => "intern" | .extern => "extern")

def render (h : List Form) (showTab : SymTab → String) : String :=
  (match classify h with
   | .ok => "ok " ++ showTab (symbols h)
   | .violates c => "violates " ++ showClause c
   | .undefined c => "undefined-behaviour " ++ showClause c
   | .unspecified c => "unspecified " ++ showClause c)
  ++ " ent=" ++ showEntity h
  ++ " dev=" ++ (if inlineThenExtern h then "I" else "") ++ (if threadTentativeThenInit h then "T" else "")

end CprocVerif.Link

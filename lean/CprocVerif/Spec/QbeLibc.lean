/-
  A mini C library for running whole programs under the IL semantics of `Spec/Qbe.lean`.

  * All library state lives in the interpreter's memory, in data objects of a generated
    "environment module" (`envModule`): the program break, `errno`, the `FILE` objects behind
    `stdin/stdout/stderr`, the table of (read-only) input files, `argv`, the `<ctype.h>` tables of
    the C locale.  The external functions themselves (`libcExt`) are therefore stateless functions
    of (arguments, memory), as `Qbe.Ext` requires.
  * The heap: `malloc` appends a fresh allocation above all data objects (addresses are never
    reused), filled with 0xAA; `free` shrinks the allocation to size 0, so any later access is
    reported as `oob` (use after free) and a second `free` traps.
  * Output is not stored in memory: every write to `stdout`/`stderr` appends one trace entry
    `"o…"`/`"e…"` whose remaining characters are the bytes written (one character per byte,
    Latin-1); `freopen(path, "w", stream)` appends a trace entry `"F…"` with the path.
  * `printf` family: flags `-+ #0`, width, precision (also `*`), lengths `hh h l ll z j t L`,
    conversions `d i u x X o c s p e E f F g G %`.  Floating conversions are exact (big `Nat`
    arithmetic, round-half-even), as in glibc.  `strtod/strtof` are correctly rounded (decimal and
    hexadecimal, `inf`, `nan`); `strtoull` handles bases 0 and 2…36 and `ERANGE`.
  * va_list-taking functions receive the interpreter's va_list: the first 8 bytes of the object
    point to consecutive 8-byte argument slots.
-/
import CprocVerif.Spec.Qbe
import CprocVerif.Spec.QbeParse

namespace CprocVerif.Qbe.Libc
open CprocVerif.Qbe

/-! ## Addresses of the library's own objects -/

structure Ctx where
  state : Nat        -- $__libc_state: +0 brk, +8 errno, +16 heap start
  files : Nat        -- $__libc_files: {path, data, size}*, terminated by a zero entry
  ctypeB : Nat       -- $__libc_ctype_b_ptr
  ctypeLower : Nat   -- $__libc_tolower_ptr
  ctypeUpper : Nat   -- $__libc_toupper_ptr
  deriving Inhabited

def ENOENT : UInt64 := 2
def ENOMEM : UInt64 := 12
def EACCES : UInt64 := 13
def EINVAL : UInt64 := 22
def ERANGE : UInt64 := 34
def eofW : UInt64 := 0xffffffff
def noUnget : UInt64 := 0xffffffffffffffff

/-! ## Memory helpers -/

def ok (ret : RVal) (mem : Mem) (out : List String := []) : Except OpErr ExtResult :=
  .ok ⟨ret, mem, out⟩

def rW (x : UInt64) : RVal := ⟨.w, x &&& mask32⟩
def rL (x : UInt64) : RVal := ⟨.l, x⟩

def argBits (v : RVal) : Except OpErr UInt64 :=
  match v.kind with
  | .u => .error (.mismatch "use of undefined call result")
  | _ => .ok v.bits

def setErrno (c : Ctx) (mem : Mem) (e : UInt64) : Except OpErr Mem := mem.store (c.state + 8) 4 e

/-- Index of the global allocation whose base is exactly `addr`. -/
def findBase (m : Mem) (addr : Nat) : Option Nat :=
  let i := bsearch (fun i => (m.globals[i]?.map (·.base)).getD 0 > addr) 64 0 m.globals.size
  if i = 0 then none else
  match m.globals[i - 1]? with
  | some a => if a.base = addr then some (i - 1) else none
  | none => none

def getAlloc (m : Mem) (r : Region) (i : Nat) : Option Alloc :=
  match r with
  | .stack => m.stack[i]?
  | .global => m.globals[i]?

/-- The bytes of the NUL-terminated string at `addr` (without the NUL); at most `limit` bytes are
    examined when a limit is given (then the NUL is optional). -/
def cstr (m : Mem) (addr : Nat) (limit : Option Nat := none) : Except OpErr ByteArray :=
  if limit == some 0 then .ok ByteArray.empty else
  match m.find addr 1 with
  | none => .error (oobMsg "string read" addr 1)
  | some (r, i) =>
    match getAlloc m r i with
    | none => .error (oobMsg "string read" addr 1)
    | some al =>
      let off := addr - al.base
      let avail := al.size - off
      let lim := match limit with | some l => min l avail | none => avail
      match strlenIn al.bytes off lim 0 with
      | some n => .ok (al.bytes.extract off (off + n))
      | none =>
        match limit with
        | some l => if l ≤ avail then .ok (al.bytes.extract off (off + l))
                    else .error (oobMsg "string read (unterminated)" addr l)
        | none => .error (oobMsg "string read (unterminated)" addr avail)

def fillBytes (n : Nat) (v : UInt8) : ByteArray := ByteArray.mk (Array.replicate n v)

def maxHeapObj : Nat := 0x10000000

/-- Fresh heap allocation (`init` gives the contents, otherwise 0xAA fill).  Returns address 0
    when the request is unreasonably large. -/
def heapAlloc (c : Ctx) (mem : Mem) (size : Nat) (init : Option ByteArray := none) :
    Except OpErr (Nat × Mem) := do
  if size > maxHeapObj then
    let mem ← setErrno c mem ENOMEM
    return (0, mem)
  let brk ← mem.load c.state 8
  let base := alignUp brk.toNat 16
  let n := max size 1
  let bytes := match init with
    | some b => if b.size ≥ n then b.extract 0 n else b ++ fillBytes (n - b.size) 0xAA
    | none => fillBytes n 0xAA
  let mem : Mem := { mem with globals := mem.globals.push ⟨base, n, bytes⟩ }
  let mem ← mem.store c.state 8 (base + n + redZone).toUInt64
  return (base, mem)

/-- `free`: the allocation keeps its place (addresses stay sorted) but has size 0 afterwards. -/
def heapFree (c : Ctx) (mem : Mem) (addr : Nat) : Except OpErr (ByteArray × Mem) := do
  let hs ← mem.load (c.state + 16) 8
  if addr < hs.toNat then throw (.trap "free of a pointer that is not from malloc")
  match findBase mem addr with
  | none => throw (.trap "free of a pointer that is not from malloc (or interior pointer)")
  | some i =>
    match mem.globals[i]? with
    | none => throw (.trap "free: internal")
    | some a =>
      if a.size = 0 then throw (.trap "double free") else
      let ⟨g, st, sp⟩ := mem
      return (a.bytes, ⟨g.set! i ⟨a.base, 0, ByteArray.empty⟩, st, sp⟩)

def latin1 (tag : Char) (b : ByteArray) : String :=
  b.foldl (fun s x => s.push (Char.ofNat x.toNat)) (String.singleton tag)

/-! ## Streams

`FILE` = 48 bytes: +0 kind (0 closed, 1 memory input, 2 stdout, 3 stderr), +8 data, +16 size,
+24 position, +32 pushed-back byte (or `noUnget`), +40 flags (1 eof, 2 error). -/

def fileInit (kind data size : UInt64) : ByteArray :=
  [kind, data, size, 0, noUnget, 0].foldl (fun b v => pushLE b v 8) ByteArray.empty

def streamWrite (mem : Mem) (f : Nat) (bytes : ByteArray) : Except OpErr (Bool × Mem × List String) := do
  let kind ← mem.load f 8
  if kind == 2 then return (true, mem, if bytes.size = 0 then [] else [latin1 'o' bytes])
  else if kind == 3 then return (true, mem, if bytes.size = 0 then [] else [latin1 'e' bytes])
  else
    let fl ← mem.load (f + 40) 8
    let mem ← mem.store (f + 40) 8 (fl ||| 2)
    return (false, mem, [])

def streamGetc (mem : Mem) (f : Nat) : Except OpErr (UInt64 × Mem) := do
  let kind ← mem.load f 8
  if kind != 1 then
    let fl ← mem.load (f + 40) 8
    let mem ← mem.store (f + 40) 8 (fl ||| 2)
    return (eofW, mem)
  let ug ← mem.load (f + 32) 8
  if ug != noUnget then
    let mem ← mem.store (f + 32) 8 noUnget
    return (ug &&& 0xff, mem)
  let size ← mem.load (f + 16) 8
  let pos ← mem.load (f + 24) 8
  if pos < size then
    let data ← mem.load (f + 8) 8
    let ch ← mem.load (data + pos).toNat 1
    let mem ← mem.store (f + 24) 8 (pos + 1)
    return (ch, mem)
  else
    let fl ← mem.load (f + 40) 8
    let mem ← mem.store (f + 40) 8 (fl ||| 1)
    return (eofW, mem)

/-- Look a path up in the table of input files: (data address, size). -/
def lookupFile (mem : Mem) (table : Nat) (path : ByteArray) : (fuel : Nat) → Nat →
    Except OpErr (Option (UInt64 × UInt64))
  | 0, _ => .ok none
  | f+1, i => do
    let e := table + 24 * i
    let p ← mem.load e 8
    if p == 0 then return none
    let name ← cstr mem p.toNat
    if name == path then
      let d ← mem.load (e + 8) 8
      let s ← mem.load (e + 16) 8
      return some (d, s)
    lookupFile mem table path f (i + 1)

/-! ## Numbers to text -/

def digitChar (d : Nat) (upper : Bool) : UInt8 :=
  if d < 10 then (48 + d).toUInt8 else if upper then (55 + d).toUInt8 else (87 + d).toUInt8

def natDigits (base : Nat) (upper : Bool) : (fuel : Nat) → Nat → List UInt8 → List UInt8
  | 0, _, acc => acc
  | f+1, n, acc =>
    let acc := digitChar (n % base) upper :: acc
    if n < base then acc else natDigits base upper f (n / base) acc

/-- Digits of `n` in `base` (at least one digit). -/
def natStr (n : Nat) (base : Nat := 10) (upper : Bool := false) : ByteArray :=
  ByteArray.mk (natDigits (max base 2) upper (n.log2 + 2) n []).toArray

def bytesOf (s : String) : ByteArray := s.toUTF8

def rep (n : Nat) (c : UInt8) : ByteArray := fillBytes n c

/-- Round-half-even quotient. -/
def roundDiv (num den : Nat) : Nat :=
  let q := num / den
  let r := num % den
  if 2 * r > den ∨ (2 * r = den ∧ q % 2 = 1) then q + 1 else q

/-- A finite non-zero double as `m * 2^e` (m > 0). -/
def decodeDouble (bits : UInt64) : Nat × Int :=
  let frac := (bits &&& 0xfffffffffffff).toNat
  let ex := ((bits >>> 52) &&& 0x7ff).toNat
  if ex = 0 then (frac, -1074) else (frac + 2 ^ 52, (ex : Int) - 1075)

/-- The value as a fraction num/den. -/
def doubleRat (bits : UInt64) : Nat × Nat :=
  let (m, e) := decodeDouble bits
  if e ≥ 0 then (m * 2 ^ e.toNat, 1) else (m, 2 ^ (-e).toNat)

def pow10 (n : Nat) : Nat := 10 ^ n

/-- `p` significant decimal digits of num/den (> 0), correctly rounded: (digits as a number with
    exactly `p` digits, decimal exponent `x` of the first digit). -/
def sigDigits (num den p : Nat) : Nat × Int :=
  -- estimate x = floor(log10(num/den)) from bit lengths, then correct
  let est : Int := ((num.log2 : Int) - (den.log2 : Int)) * 30103 / 100000
  let ge (x : Int) : Bool :=   -- num/den ≥ 10^x
    if x ≥ 0 then num ≥ den * pow10 x.toNat else num * pow10 (-x).toNat ≥ den
  let x := if ge (est + 1) then est + 1 else if ge est then est else
           if ge (est - 1) then est - 1 else est - 2
  let sh : Int := (p : Int) - 1 - x        -- scale by 10^sh
  let n := if sh ≥ 0 then roundDiv (num * pow10 sh.toNat) den else roundDiv num (den * pow10 (-sh).toNat)
  if n ≥ pow10 p then (n / 10, x + 1) else (n, x)

def padLeft (b : ByteArray) (n : Nat) (c : UInt8) : ByteArray :=
  if b.size ≥ n then b else rep (n - b.size) c ++ b

def stripZeros (digits : List UInt8) : List UInt8 :=
  (digits.reverse.dropWhile (· == 48)).reverse

def expSuffix (x : Int) (upper : Bool) : ByteArray :=
  let e : UInt8 := if upper then 69 else 101
  let sgn : UInt8 := if x < 0 then 45 else 43
  (ByteArray.empty.push e).push sgn ++ padLeft (natStr x.natAbs) 2 48

/-- `%e` body (no sign) for a positive finite value. -/
def fmtE (num den prec : Nat) (alt upper strip : Bool) : ByteArray :=
  let (n, x) := sigDigits num den (prec + 1)
  let ds := (padLeft (natStr n) (prec + 1) 48).toList
  let frac := if strip then stripZeros (ds.drop 1) else ds.drop 1
  let head := ByteArray.mk (ds.take 1).toArray
  let body := if frac.isEmpty then (if alt then head.push 46 else head)
              else head.push 46 ++ ByteArray.mk frac.toArray
  body ++ expSuffix x upper

/-- `%f` body (no sign) for a non-negative finite value. -/
def fmtF (num den prec : Nat) (alt strip : Bool) : ByteArray :=
  let n := roundDiv (num * pow10 prec) den
  let ds := (padLeft (natStr n) (prec + 1) 48).toList
  let ip := ds.take (ds.length - prec)
  let frac := ds.drop (ds.length - prec)
  let frac := if strip then stripZeros frac else frac
  let head := ByteArray.mk ip.toArray
  if frac.isEmpty then (if alt then head.push 46 else head)
  else head.push 46 ++ ByteArray.mk frac.toArray

/-- `%g` body (no sign) for a positive finite value. -/
def fmtG (num den prec : Nat) (alt upper : Bool) : ByteArray :=
  let p := if prec = 0 then 1 else prec
  let (n, x) := sigDigits num den p
  if x < -4 ∨ x ≥ (p : Int) then
    -- exponential style with the digits already computed
    let ds := (padLeft (natStr n) p 48).toList
    let frac := if alt then ds.drop 1 else stripZeros (ds.drop 1)
    let head := ByteArray.mk (ds.take 1).toArray
    let body := if frac.isEmpty then (if alt then head.push 46 else head)
                else head.push 46 ++ ByteArray.mk frac.toArray
    body ++ expSuffix x upper
  else
    -- fixed style: the same p digits with the point after x+1 digits
    let ds := (padLeft (natStr n) p 48).toList
    if x ≥ 0 then
      let ip := ds.take (x.toNat + 1)
      let frac := if alt then ds.drop (x.toNat + 1) else stripZeros (ds.drop (x.toNat + 1))
      let head := ByteArray.mk ip.toArray
      if frac.isEmpty then (if alt then head.push 46 else head)
      else head.push 46 ++ ByteArray.mk frac.toArray
    else
      let lead := List.replicate ((-x).toNat - 1) (48 : UInt8)
      let frac := lead ++ ds
      let frac := if alt then frac else stripZeros frac
      (bytesOf "0.") ++ ByteArray.mk frac.toArray

/-! ## printf -/

structure Conv where
  left : Bool := false
  zero : Bool := false
  plus : Bool := false
  space : Bool := false
  alt : Bool := false
  width : Nat := 0
  prec : Option Nat := none
  /-- 0 none, 1 hh, 2 h, 3 l/ll/z/j/t (64 bit), 4 L -/
  len : Nat := 0

def Conv.pad (c : Conv) (sign : ByteArray) (body : ByteArray) (numeric : Bool) : ByteArray :=
  let total := sign.size + body.size
  if total ≥ c.width then sign ++ body
  else if c.left then sign ++ body ++ rep (c.width - total) 32
  else if c.zero && numeric then sign ++ rep (c.width - total) 48 ++ body
  else rep (c.width - total) 32 ++ sign ++ body

def signedVal (c : Conv) (v : UInt64) : Int :=
  match c.len with
  | 1 => (v.toUInt8.toInt8).toInt
  | 2 => (v.toUInt16.toInt16).toInt
  | 3 => v.toInt64.toInt
  | _ => (v.toUInt32.toInt32).toInt

def unsignedVal (c : Conv) (v : UInt64) : Nat :=
  match c.len with
  | 1 => v.toUInt8.toNat
  | 2 => v.toUInt16.toNat
  | 3 => v.toNat
  | _ => v.toUInt32.toNat

def fmtInt (c : Conv) (neg : Bool) (mag : Nat) (base : Nat) (upper : Bool) (isSigned : Bool) :
    ByteArray :=
  let digits := if mag = 0 ∧ c.prec == some 0 then ByteArray.empty else natStr mag base upper
  let digits := match c.prec with
    | some p => padLeft digits p 48
    | none => digits
  let digits := if c.alt ∧ base = 8 ∧ (digits.size = 0 ∨ digits.get! 0 != 48) then
      (ByteArray.empty.push 48) ++ digits else digits
  let sign := if neg then bytesOf "-" else if isSigned ∧ c.plus then bytesOf "+"
    else if isSigned ∧ c.space then bytesOf " "
    else if c.alt ∧ base = 16 ∧ mag ≠ 0 then (if upper then bytesOf "0X" else bytesOf "0x")
    else ByteArray.empty
  let c' := if c.prec.isSome then { c with zero := false } else c
  c'.pad sign digits true

def fmtFloat (c : Conv) (bits : UInt64) (conv : UInt8) : ByteArray :=
  let upper := conv == 69 || conv == 70 || conv == 71
  let neg := bits >>> 63 == 1
  let ex := (bits >>> 52) &&& 0x7ff
  let frac := bits &&& 0xfffffffffffff
  let sign := if neg then bytesOf "-" else if c.plus then bytesOf "+" else if c.space then bytesOf " "
              else ByteArray.empty
  if ex == 0x7ff then
    let txt := if frac == 0 then (if upper then "INF" else "inf") else (if upper then "NAN" else "nan")
    { c with zero := false }.pad sign (bytesOf txt) false
  else
    let prec := c.prec.getD 6
    let lower := if conv ≥ 97 then conv else conv + 32
    let body :=
      if (bits &&& 0x7fffffffffffffff) == 0 then
        -- zero
        if lower == 101 then
          (if prec = 0 then (if c.alt then bytesOf "0." else bytesOf "0")
           else bytesOf "0." ++ rep prec 48) ++ expSuffix 0 upper
        else if lower == 102 then
          (if prec = 0 then (if c.alt then bytesOf "0." else bytesOf "0") else bytesOf "0." ++ rep prec 48)
        else (if c.alt then bytesOf "0." ++ rep ((if prec = 0 then 1 else prec) - 1) 48 else bytesOf "0")
      else
        let (num, den) := doubleRat (bits &&& 0x7fffffffffffffff)
        if lower == 101 then fmtE num den prec c.alt upper false
        else if lower == 102 then fmtF num den prec c.alt false
        else fmtG num den prec c.alt upper
    c.pad sign body true

/-- Where the arguments of a formatted output call come from. -/
structure ArgSrc where
  get : Nat → Except OpErr UInt64

def listArgs (args : List RVal) : ArgSrc :=
  ⟨fun i => match args[i]? with
    | some v => argBits v
    | none => .error (.trap "printf: not enough arguments")⟩

/-- `ap` is the address of the va_list object. -/
def vaArgs (mem : Mem) (ap : Nat) : Except OpErr ArgSrc := do
  let base ← mem.load ap 8
  return ⟨fun i => mem.load (base.toNat + 8 * i) 8⟩

def readNum (b : ByteArray) (i : Nat) : Nat × Nat :=
  let r := readDigits b b.size i 0 0
  (r.1, r.2.2)

/-- Expand the format `fmt`. -/
def format (mem : Mem) (fmt : ByteArray) (src : ArgSrc) : (fuel i ai : Nat) → ByteArray →
    Except OpErr ByteArray
  | 0, _, _, acc => .ok acc
  | f+1, i, ai, acc =>
    if i ≥ fmt.size then .ok acc else
    let ch := fmt.get! i
    if ch != 37 then
      let j := scanWhile fmt (· != 37) fmt.size i
      format mem fmt src f j ai (acc ++ fmt.extract i j)
    else do
      -- flags
      let j := scanWhile fmt (fun x => x == 45 || x == 48 || x == 43 || x == 32 || x == 35) fmt.size (i + 1)
      let flags := fmt.extract (i + 1) j
      let has (x : UInt8) : Bool := flags.toList.contains x
      let c : Conv := { left := has 45, zero := has 48, plus := has 43, space := has 32, alt := has 35 }
      -- width
      let (c, j, ai) ← (do
        if j < fmt.size && fmt.get! j == 42 then
          let w ← src.get ai
          let wi := (w.toUInt32.toInt32).toInt
          if wi < 0 then pure ({ c with left := true, width := wi.natAbs }, j + 1, ai + 1)
          else pure ({ c with width := wi.toNat }, j + 1, ai + 1)
        else
          let (w, j') := readNum fmt j
          pure ({ c with width := w }, j', ai) : Except OpErr (Conv × Nat × Nat))
      -- precision
      let (c, j, ai) ← (do
        if j < fmt.size && fmt.get! j == 46 then
          if j + 1 < fmt.size && fmt.get! (j + 1) == 42 then
            let p ← src.get ai
            let pi := (p.toUInt32.toInt32).toInt
            pure ({ c with prec := if pi < 0 then none else some pi.toNat }, j + 2, ai + 1)
          else
            let (p, j') := readNum fmt (j + 1)
            pure ({ c with prec := some p }, j', ai)
        else pure (c, j, ai) : Except OpErr (Conv × Nat × Nat))
      -- length
      let k := scanWhile fmt (fun x => x == 104 || x == 108 || x == 122 || x == 106 || x == 116 || x == 76)
        fmt.size j
      let lm := fmt.extract j k
      let c := { c with len :=
        if lm == bytesOf "hh" then 1 else if lm == bytesOf "h" then 2
        else if lm == bytesOf "L" then 4 else if lm.size = 0 then 0 else 3 }
      if k ≥ fmt.size then throw (.trap "printf: incomplete conversion") else
      let cv := fmt.get! k
      if cv == 37 then format mem fmt src f (k + 1) ai (acc.push 37)
      else if cv == 100 || cv == 105 then
        let v ← src.get ai
        let x := signedVal c v
        format mem fmt src f (k + 1) (ai + 1) (acc ++ fmtInt c (x < 0) x.natAbs 10 false true)
      else if cv == 117 || cv == 120 || cv == 88 || cv == 111 then
        let v ← src.get ai
        let base := if cv == 117 then 10 else if cv == 111 then 8 else 16
        format mem fmt src f (k + 1) (ai + 1) (acc ++ fmtInt c false (unsignedVal c v) base (cv == 88) false)
      else if cv == 99 then
        let v ← src.get ai
        format mem fmt src f (k + 1) (ai + 1)
          (acc ++ { c with zero := false }.pad ByteArray.empty (ByteArray.empty.push v.toUInt8) false)
      else if cv == 115 then
        let v ← src.get ai
        let s ← if v == 0 then pure (bytesOf "(null)") else cstr mem v.toNat c.prec
        format mem fmt src f (k + 1) (ai + 1) (acc ++ { c with zero := false }.pad ByteArray.empty s false)
      else if cv == 112 then
        let v ← src.get ai
        let body := if v == 0 then bytesOf "(nil)" else bytesOf "0x" ++ natStr v.toNat 16
        format mem fmt src f (k + 1) (ai + 1) (acc ++ { c with zero := false }.pad ByteArray.empty body false)
      else if cv == 101 || cv == 69 || cv == 102 || cv == 70 || cv == 103 || cv == 71 then
        if c.len == 4 then throw (.unsupported "printf: long double") else
        let v ← src.get ai
        format mem fmt src f (k + 1) (ai + 1) (acc ++ fmtFloat c v cv)
      else throw (.unsupported ("printf: conversion %" ++ String.singleton (Char.ofNat cv.toNat)))

def formatAll (mem : Mem) (fmtAddr : Nat) (src : ArgSrc) : Except OpErr ByteArray := do
  let fmt ← cstr mem fmtAddr
  format mem fmt src (fmt.size + 1) 0 0 ByteArray.empty

/-! ## Text to numbers -/

def isSpace (c : UInt8) : Bool := c == 32 || (9 ≤ c && c ≤ 13)

def lower (c : UInt8) : UInt8 := if 65 ≤ c && c ≤ 90 then c + 32 else c
def upperC (c : UInt8) : UInt8 := if 97 ≤ c && c ≤ 122 then c - 32 else c

def digitVal (c : UInt8) : Nat :=
  if 48 ≤ c && c ≤ 57 then c.toNat - 48
  else if 97 ≤ c && c ≤ 122 then c.toNat - 87
  else if 65 ≤ c && c ≤ 90 then c.toNat - 55
  else 99

/-- Read digits of `base` from `i`: (value, count, next index). -/
def readBase (b : ByteArray) (base : Nat) : (fuel i : Nat) → (acc cnt : Nat) → Nat × Nat × Nat
  | 0, i, acc, cnt => (acc, cnt, i)
  | f+1, i, acc, cnt =>
    if i < b.size && digitVal (b.get! i) < base then
      readBase b base f (i + 1) (acc * base + digitVal (b.get! i)) (cnt + 1)
    else (acc, cnt, i)

/-- `strtoull` on the bytes of the string: (value, end offset, overflow). -/
def parseULL (b : ByteArray) (base : Nat) : UInt64 × Nat × Bool :=
  let i := scanWhile b isSpace b.size 0
  let neg := i < b.size && b.get! i == 45
  let i := if i < b.size && (b.get! i == 45 || b.get! i == 43) then i + 1 else i
  let isX := i + 1 < b.size && b.get! i == 48 && lower (b.get! (i + 1)) == 120
  let hexOk := isX && i + 2 < b.size && digitVal (b.get! (i + 2)) < 16
  let (base, i) :=
    if base = 0 then
      if hexOk then (16, i + 2)
      else if i < b.size && b.get! i == 48 then (8, i)
      else (10, i)
    else if base = 16 && hexOk then (16, i + 2)
    else (base, i)
  let (v, n, j) := readBase b base b.size i 0 0
  if n = 0 then (0, 0, false)
  else if v ≥ 2 ^ 64 then (0xffffffffffffffff, j, true)
  else (if neg then (0 - v.toUInt64) else v.toUInt64, j, false)

def startsWithCI (b : ByteArray) (i : Nat) (s : String) : Bool :=
  let t := s.toUTF8
  i + t.size ≤ b.size && (List.range t.size).all fun k => lower (b.get! (i + k)) == t.get! k

inductive FloatRes where
  | finite (neg : Bool) (num den : Nat)
  | inf (neg : Bool)
  | nan (neg : Bool)

/-- Parse a floating constant as `strtod` does: (value, end offset); end offset 0 = no conversion. -/
def parseFloat (b : ByteArray) : FloatRes × Nat :=
  let i := scanWhile b isSpace b.size 0
  let neg := i < b.size && b.get! i == 45
  let i := if i < b.size && (b.get! i == 45 || b.get! i == 43) then i + 1 else i
  if startsWithCI b i "infinity" then (.inf neg, i + 8)
  else if startsWithCI b i "inf" then (.inf neg, i + 3)
  else if startsWithCI b i "nan" then
    -- optional (n-char-sequence)
    let j := i + 3
    if j < b.size && b.get! j == 40 then
      let k := scanWhile b (fun c => isNameChar c && c != 46 && c != 36) b.size (j + 1)
      if k < b.size && b.get! k == 41 then (.nan neg, k + 1) else (.nan neg, j)
    else (.nan neg, j)
  else if i + 1 < b.size && b.get! i == 48 && lower (b.get! (i + 1)) == 120 &&
      ((i + 2 < b.size && digitVal (b.get! (i + 2)) < 16) ||
       (i + 3 < b.size && b.get! (i + 2) == 46 && digitVal (b.get! (i + 3)) < 16)) then
    -- hexadecimal
    let (ip, n1, j) := readBase b 16 b.size (i + 2) 0 0
    let (fp, n2, j) := if j < b.size && b.get! j == 46 then readBase b 16 b.size (j + 1) 0 0 else (0, 0, j)
    let mant := ip * 16 ^ n2 + fp
    let _ := n1
    let (ex, j) : Int × Nat :=
      if j < b.size && lower (b.get! j) == 112 then
        let eneg := j + 1 < b.size && b.get! (j + 1) == 45
        let k := if j + 1 < b.size && (b.get! (j + 1) == 45 || b.get! (j + 1) == 43) then j + 2 else j + 1
        let (ev, n3, k') := readBase b 10 b.size k 0 0
        if n3 = 0 then (0, j) else ((if eneg then -(ev : Int) else ev), k')
      else (0, j)
    let e2 : Int := ex - 4 * n2
    let e2 := if e2 > 20000 then 20000 else if e2 < -20000 then -20000 else e2
    if e2 ≥ 0 then (.finite neg (mant * 2 ^ e2.toNat) 1, j) else (.finite neg mant (2 ^ (-e2).toNat), j)
  else
    let (ip, n1, j) := readBase b 10 b.size i 0 0
    let (fp, n2, j) :=
      if j < b.size && b.get! j == 46 then
        let r := readBase b 10 b.size (j + 1) 0 0
        if n1 = 0 && r.2.1 = 0 then (0, 0, j) else r
      else (0, 0, j)
    if n1 + n2 = 0 then (.finite false 0 1, 0) else
    let mant := ip * 10 ^ n2 + fp
    let (ex, j) : Int × Nat :=
      if j < b.size && lower (b.get! j) == 101 then
        let eneg := j + 1 < b.size && b.get! (j + 1) == 45
        let k := if j + 1 < b.size && (b.get! (j + 1) == 45 || b.get! (j + 1) == 43) then j + 2 else j + 1
        let (ev, n3, k') := readBase b 10 b.size k 0 0
        if n3 = 0 then (0, j) else ((if eneg then -(ev : Int) else ev), k')
      else (0, j)
    let e10 : Int := ex - n2
    let e10 := if e10 > 5000 then 5000 else if e10 < -5000 then -5000 else e10
    if e10 ≥ 0 then (.finite neg (mant * 10 ^ e10.toNat) 1, j) else (.finite neg mant (10 ^ (-e10).toNat), j)

/-- Bits of the parse result in the format with `p` significand bits and `ebits` exponent bits,
    and whether the result is out of range (overflow to infinity or underflow to zero/denormal). -/
def floatBits (r : FloatRes) (p ebits : Nat) : Nat × Bool :=
  let signBit (neg : Bool) := if neg then 2 ^ (p - 1 + ebits) else 0
  let infBits := (2 ^ ebits - 1) * 2 ^ (p - 1)
  match r with
  | .inf neg => (signBit neg + infBits, false)
  | .nan neg => (signBit neg + infBits + 2 ^ (p - 2), false)
  | .finite neg num den =>
    if num = 0 then (signBit neg, false) else
    let bits := ratToBits num den p ebits
    (signBit neg + bits, bits ≥ infBits || bits < 2 ^ (p - 1))

/-! ## The `<ctype.h>` tables of the C locale -/

def ctypeBits (c : Nat) : Nat :=
  let up := 65 ≤ c ∧ c ≤ 90
  let lo := 97 ≤ c ∧ c ≤ 122
  let dg := 48 ≤ c ∧ c ≤ 57
  let xd := dg ∨ (65 ≤ c ∧ c ≤ 70) ∨ (97 ≤ c ∧ c ≤ 102)
  let sp := c = 32 ∨ (9 ≤ c ∧ c ≤ 13)
  let pr := 32 ≤ c ∧ c ≤ 126
  let gr := 33 ≤ c ∧ c ≤ 126
  let bl := c = 32 ∨ c = 9
  let cn := c < 32 ∨ c = 127
  let al := up ∨ lo
  let an := al ∨ dg
  let pu := gr ∧ ¬ an
  (if up then 0x100 else 0) + (if lo then 0x200 else 0) + (if al then 0x400 else 0) +
  (if dg then 0x800 else 0) + (if xd then 0x1000 else 0) + (if sp then 0x2000 else 0) +
  (if pr then 0x4000 else 0) + (if gr then 0x8000 else 0) + (if bl then 0x1 else 0) +
  (if cn then 0x2 else 0) + (if pu then 0x4 else 0) + (if an then 0x8 else 0)

/-- Entry for index `i - 128`, `i` in `[0, 384)`. -/
def ctypeEntry (i : Nat) : Nat := if i < 128 then 0 else if i - 128 < 128 then ctypeBits (i - 128) else 0

def caseEntry (toLower : Bool) (i : Nat) : Nat :=
  if i < 128 then i + 128 else
  let c := i - 128
  if toLower then (if 65 ≤ c ∧ c ≤ 90 then c + 32 else c) else (if 97 ≤ c ∧ c ≤ 122 then c - 32 else c)

/-! ## The environment module -/

def dataOf (name : String) (align : Nat) (items : List DataItem) : Def :=
  .data { name, «export» := true, thread := false, align := some align, items }

def strItem (b : ByteArray) : DataItem := .vals .b [.str b, .int 0]

/-- Data objects for the library state, standard streams, `<ctype.h>` tables, the input files
    (`path ↦ contents`), the contents of standard input and `argv`. -/
def envModule (files : List (String × ByteArray)) (stdin : ByteArray) (argv : List String) : Module :=
  let l (n : Nat) : DataVal := .int n.toUInt64
  let fileObj (name : String) (kind : Nat) (data : Option String) (size : Nat) : Def :=
    dataOf name 8 [.vals .l [l kind, (match data with | some d => .sym d 0 | none => l 0), l size, l 0,
      .int noUnget, l 0]]
  let fileDefs := (List.range files.length).zip files |>.flatMap fun (k, (path, content)) =>
    [dataOf s!"__libc_file_path_{k}" 1 [strItem path.toUTF8],
     dataOf s!"__libc_file_data_{k}" 16 [.vals .b [.str content, .int 0]]]
  let fileTable := dataOf "__libc_files" 8
    (((List.range files.length).zip files |>.map fun (k, (_, content)) =>
      DataItem.vals .l [.sym s!"__libc_file_path_{k}" 0, .sym s!"__libc_file_data_{k}" 0, l content.size])
     ++ [.zero 24])
  let argDefs := (List.range argv.length).zip argv |>.map fun (k, a) =>
    dataOf s!"__libc_arg_{k}" 1 [strItem a.toUTF8]
  let argvDef := dataOf "__libc_argv" 8
    (((List.range argv.length).map fun k => DataItem.vals .l [.sym s!"__libc_arg_{k}" 0]) ++ [.zero 8])
  ⟨#[ dataOf "__libc_state" 16 [.zero 64],
      dataOf "__libc_ctype_b" 16 [.vals .h ((List.range 384).map fun i => l (ctypeEntry i))],
      dataOf "__libc_ctype_b_ptr" 8 [.vals .l [.sym "__libc_ctype_b" 256]],
      dataOf "__libc_tolower" 16 [.vals .w ((List.range 384).map fun i => l (caseEntry true i))],
      dataOf "__libc_tolower_ptr" 8 [.vals .l [.sym "__libc_tolower" 512]],
      dataOf "__libc_toupper" 16 [.vals .w ((List.range 384).map fun i => l (caseEntry false i))],
      dataOf "__libc_toupper_ptr" 8 [.vals .l [.sym "__libc_toupper" 512]],
      dataOf "__libc_stdin_data" 16 [.vals .b [.str stdin, .int 0]],
      fileObj "__libc_stdin_FILE" 1 (some "__libc_stdin_data") stdin.size,
      fileObj "__libc_stdout_FILE" 2 none 0,
      fileObj "__libc_stderr_FILE" 3 none 0,
      dataOf "stdin" 8 [.vals .l [.sym "__libc_stdin_FILE" 0]],
      dataOf "stdout" 8 [.vals .l [.sym "__libc_stdout_FILE" 0]],
      dataOf "stderr" 8 [.vals .l [.sym "__libc_stderr_FILE" 0]] ]
    ++ fileDefs.toArray ++ #[fileTable] ++ argDefs.toArray ++ #[argvDef]⟩

/-- Find the library objects in a prepared program. -/
def findCtx (p : Prog) : Except String Ctx := do
  let addr (n : String) : Except String Nat :=
    match p.symAddr[n]? with
    | some a => .ok a
    | none => .error ("the environment module is not linked in (no $" ++ n ++ ")")
  pure { state := ← addr "__libc_state", files := ← addr "__libc_files",
         ctypeB := ← addr "__libc_ctype_b_ptr", ctypeLower := ← addr "__libc_tolower_ptr",
         ctypeUpper := ← addr "__libc_toupper_ptr" }

/-- Initial memory with the program break set above all data objects. -/
def heapInit (p : Prog) (c : Ctx) : Mem :=
  let top := p.initMem.globals.foldl (fun t a => max t (a.base + a.size)) globalBase
  let hs := alignUp (top + 4096) 4096
  match (do let m ← p.initMem.store c.state 8 hs.toUInt64
            m.store (c.state + 16) 8 hs.toUInt64 : Except OpErr Mem) with
  | .ok m => m
  | .error _ => p.initMem

/-- The program with its heap initialised (functions, types and symbols unchanged). -/
def withHeap (p : Prog) (c : Ctx) : Prog := { p with initMem := heapInit p c }

def prepare (p : Prog) : Except String (Prog × Ctx) :=
  match findCtx p with
  | .ok c => .ok (withHeap p c, c)
  | .error e => .error e

/-! ## The external functions -/

def strerrorText (e : UInt64) : String :=
  match e.toNat with
  | 0 => "Success" | 1 => "Operation not permitted" | 2 => "No such file or directory"
  | 4 => "Interrupted system call" | 5 => "Input/output error" | 9 => "Bad file descriptor"
  | 12 => "Cannot allocate memory" | 13 => "Permission denied" | 17 => "File exists"
  | 20 => "Not a directory" | 21 => "Is a directory" | 22 => "Invalid argument"
  | 24 => "Too many open files" | 28 => "No space left on device"
  | 34 => "Numerical result out of range" | 36 => "File name too long"
  | n => "Unknown error " ++ toString n

abbrev Fn := Ctx → List RVal → Mem → Except OpErr ExtResult

def a0 (args : List RVal) (i : Nat) : Except OpErr UInt64 :=
  match args[i]? with
  | some v => argBits v
  | none => .error (.mismatch "too few arguments to a library function")

def writeTo (mem : Mem) (f : Nat) (bytes : ByteArray) (okRet failRet : RVal) : Except OpErr ExtResult := do
  let (good, mem, out) ← streamWrite mem f bytes
  ok (if good then okRet else failRet) mem out

def findIndex (b : ByteArray) (p : UInt8 → Bool) : Option Nat :=
  let j := scanWhile b (fun x => !p x) b.size 0
  if j < b.size then some j else none

def findLast (b : ByteArray) (x : UInt8) : Option Nat :=
  (List.range b.size).foldl (fun r i => if b.get! i == x then some i else r) none

def cmpStr (a b : ByteArray) : (fuel i : Nat) → UInt64
  | 0, _ => 0
  | f+1, i =>
    let x : UInt8 := if i < a.size then a.get! i else 0
    let y : UInt8 := if i < b.size then b.get! i else 0
    if x != y then (if x < y then 0xffffffff else 1)
    else if x == 0 then 0 else cmpStr a b f (i + 1)

def stdStream (mem : Mem) (p : Prog) (name : String) : Except OpErr Nat := do
  match p.symAddr[name]? with
  | none => throw (.unsupported ("no $" ++ name))
  | some a =>
    let f ← mem.load a 8
    pure f.toNat

def fn (name : String) (f : Fn) : String × Fn := (name, f)

def fnTable (p : Prog) : List (String × Fn) :=
  let ctypeFn (mask : Nat) : Fn := fun _ args mem => do
    let x ← a0 args 0
    let ch := (x.toUInt32.toInt32).toInt
    let r := if 0 ≤ ch ∧ ch < 128 then ctypeBits ch.toNat &&& mask else 0
    ok (rW r.toUInt64) mem
  let printTo (stream : Mem → Except OpErr Nat) (fmtIdx : Nat) (va : Bool) : Fn := fun _ args mem => do
    let f ← stream mem
    let fmt ← a0 args fmtIdx
    let src ← if va then (do let ap ← a0 args (fmtIdx + 1); vaArgs mem ap.toNat)
              else pure (listArgs (args.drop (fmtIdx + 1)))
    let bytes ← formatAll mem fmt.toNat src
    writeTo mem f bytes (rW bytes.size.toUInt64) (rW eofW)
  let sprint (va bounded : Bool) : Fn := fun _ args mem => do
    let buf ← a0 args 0
    let (n, fi) ← if bounded then (do let n ← a0 args 1; pure (some n.toNat, 2)) else pure (none, 1)
    let fmt ← a0 args fi
    let src ← if va then (do let ap ← a0 args (fi + 1); vaArgs mem ap.toNat)
              else pure (listArgs (args.drop (fi + 1)))
    let bytes ← formatAll mem fmt.toNat src
    let mem ← match n with
      | some 0 => pure mem
      | some n => mem.writeBytes buf.toNat ((bytes.extract 0 (min bytes.size (n - 1))).push 0)
      | none => mem.writeBytes buf.toNat (bytes.push 0)
    ok (rW bytes.size.toUInt64) mem
  let streamArg (i : Nat) : List RVal → Mem → Except OpErr Nat := fun args _ => do
    let f ← a0 args i
    pure f.toNat
  let getcFn : Fn := fun _ args mem => do
    let f ← a0 args 0
    let (ch, mem) ← streamGetc mem f.toNat
    ok (rW ch) mem
  let putcFn (ci si : Nat) : Fn := fun _ args mem => do
    let ch ← a0 args ci
    let f ← a0 args si
    writeTo mem f.toNat (ByteArray.empty.push ch.toUInt8) (rW (ch &&& 0xff)) (rW eofW)
  let strtodFn (single : Bool) : Fn := fun c args mem => do
    let s ← a0 args 0
    let endp ← a0 args 1
    let b ← cstr mem s.toNat
    let (r, e) := parseFloat b
    let (bits, range) := if single then floatBits r 24 8 else floatBits r 53 11
    let mem ← if endp != 0 then mem.store endp.toNat 8 (s + e.toUInt64) else pure mem
    let mem ← if range then setErrno c mem ERANGE else pure mem
    ok (if single then ⟨.s, bits.toUInt64⟩ else ⟨.d, bits.toUInt64⟩) mem
  [ fn "malloc" (fun c args mem => do
      let n ← a0 args 0
      let (a, mem) ← heapAlloc c mem n.toNat
      ok (rL a.toUInt64) mem),
    fn "calloc" (fun c args mem => do
      let n ← a0 args 0
      let s ← a0 args 1
      let total := n.toNat * s.toNat
      if total > maxHeapObj then
        let mem ← setErrno c mem ENOMEM
        ok (rL 0) mem
      else
        let (a, mem) ← heapAlloc c mem total (some (fillBytes (max total 1) 0))
        ok (rL a.toUInt64) mem),
    fn "realloc" (fun c args mem => do
      let p ← a0 args 0
      let n ← a0 args 1
      if p == 0 then
        let (a, mem) ← heapAlloc c mem n.toNat
        ok (rL a.toUInt64) mem
      else if n.toNat > maxHeapObj then
        let mem ← setErrno c mem ENOMEM
        ok (rL 0) mem
      else
        let (old, mem) ← heapFree c mem p.toNat
        let (a, mem) ← heapAlloc c mem n.toNat (some old)
        ok (rL a.toUInt64) mem),
    fn "free" (fun c args mem => do
      let p ← a0 args 0
      if p == 0 then ok dummy mem else
      let (_, mem) ← heapFree c mem p.toNat
      ok dummy mem),
    fn "memcpy" (fun _ args mem => do
      let d ← a0 args 0; let s ← a0 args 1; let n ← a0 args 2
      let b ← mem.readBytes s.toNat n.toNat
      let mem ← mem.writeBytes d.toNat b
      ok (rL d) mem),
    fn "memmove" (fun _ args mem => do
      let d ← a0 args 0; let s ← a0 args 1; let n ← a0 args 2
      let b ← mem.readBytes s.toNat n.toNat
      let mem ← mem.writeBytes d.toNat b
      ok (rL d) mem),
    fn "memset" (fun _ args mem => do
      let d ← a0 args 0; let v ← a0 args 1; let n ← a0 args 2
      if n.toNat > maxHeapObj then throw (oobMsg "memset" d.toNat n.toNat)
      let mem ← mem.writeBytes d.toNat (fillBytes n.toNat v.toUInt8)
      ok (rL d) mem),
    fn "memcmp" (fun _ args mem => do
      let a ← a0 args 0; let b ← a0 args 1; let n ← a0 args 2
      let x ← mem.readBytes a.toNat n.toNat
      let y ← mem.readBytes b.toNat n.toNat
      ok (rW (cmpBytes x y x.size 0)) mem),
    fn "strlen" (fun _ args mem => do
      let s ← a0 args 0
      let b ← cstr mem s.toNat
      ok (rL b.size.toUInt64) mem),
    fn "strcmp" (fun _ args mem => do
      let a ← a0 args 0; let b ← a0 args 1
      let x ← cstr mem a.toNat
      let y ← cstr mem b.toNat
      ok (rW (cmpStr x y (max x.size y.size + 1) 0)) mem),
    fn "strncmp" (fun _ args mem => do
      let a ← a0 args 0; let b ← a0 args 1; let n ← a0 args 2
      let x ← cstr mem a.toNat (some n.toNat)
      let y ← cstr mem b.toNat (some n.toNat)
      ok (rW (cmpStr x y (max x.size y.size + 1) 0)) mem),
    fn "strchr" (fun _ args mem => do
      let s ← a0 args 0; let ch ← a0 args 1
      let b ← cstr mem s.toNat
      let x := ch.toUInt8
      if x == 0 then ok (rL (s + b.size.toUInt64)) mem else
      match findIndex b (· == x) with
      | some i => ok (rL (s + i.toUInt64)) mem
      | none => ok (rL 0) mem),
    fn "strrchr" (fun _ args mem => do
      let s ← a0 args 0; let ch ← a0 args 1
      let b ← cstr mem s.toNat
      let x := ch.toUInt8
      if x == 0 then ok (rL (s + b.size.toUInt64)) mem else
      match findLast b x with
      | some i => ok (rL (s + i.toUInt64)) mem
      | none => ok (rL 0) mem),
    fn "strpbrk" (fun _ args mem => do
      let s ← a0 args 0; let acc ← a0 args 1
      let b ← cstr mem s.toNat
      let set ← cstr mem acc.toNat
      match findIndex b (fun x => set.toList.contains x) with
      | some i => ok (rL (s + i.toUInt64)) mem
      | none => ok (rL 0) mem),
    fn "strcpy" (fun _ args mem => do
      let d ← a0 args 0; let s ← a0 args 1
      let b ← cstr mem s.toNat
      let mem ← mem.writeBytes d.toNat (b.push 0)
      ok (rL d) mem),
    fn "strdup" (fun c args mem => do
      let s ← a0 args 0
      let b ← cstr mem s.toNat
      let (a, mem) ← heapAlloc c mem (b.size + 1) (some (b.push 0))
      ok (rL a.toUInt64) mem),
    fn "isalnum" (ctypeFn 0x8), fn "isalpha" (ctypeFn 0x400), fn "isdigit" (ctypeFn 0x800),
    fn "isxdigit" (ctypeFn 0x1000), fn "isprint" (ctypeFn 0x4000), fn "isspace" (ctypeFn 0x2000),
    fn "isupper" (ctypeFn 0x100), fn "islower" (ctypeFn 0x200), fn "ispunct" (ctypeFn 0x4),
    fn "isgraph" (ctypeFn 0x8000), fn "iscntrl" (ctypeFn 0x2), fn "isblank" (ctypeFn 0x1),
    fn "tolower" (fun _ args mem => do
      let x ← a0 args 0
      ok (rW (if 65 ≤ x &&& mask32 && x &&& mask32 ≤ 90 then x + 32 else x)) mem),
    fn "toupper" (fun _ args mem => do
      let x ← a0 args 0
      ok (rW (if 97 ≤ x &&& mask32 && x &&& mask32 ≤ 122 then x - 32 else x)) mem),
    fn "__ctype_b_loc" (fun c _ mem => ok (rL c.ctypeB.toUInt64) mem),
    fn "__ctype_tolower_loc" (fun c _ mem => ok (rL c.ctypeLower.toUInt64) mem),
    fn "__ctype_toupper_loc" (fun c _ mem => ok (rL c.ctypeUpper.toUInt64) mem),
    fn "__errno_location" (fun c _ mem => ok (rL (c.state + 8).toUInt64) mem),
    fn "strtoull" (fun c args mem => do
      let s ← a0 args 0; let endp ← a0 args 1; let base ← a0 args 2
      let b ← cstr mem s.toNat
      let bn := (base &&& mask32).toNat
      if bn = 1 ∨ bn > 36 then
        let mem ← setErrno c mem EINVAL
        ok (rL 0) mem
      else
        let (v, e, ovf) := parseULL b bn
        let mem ← if endp != 0 then mem.store endp.toNat 8 (s + e.toUInt64) else pure mem
        let mem ← if ovf then setErrno c mem ERANGE else pure mem
        ok (rL v) mem),
    fn "strtoul" (fun c args mem => do
      let s ← a0 args 0; let endp ← a0 args 1; let base ← a0 args 2
      let b ← cstr mem s.toNat
      let (v, e, ovf) := parseULL b (base &&& mask32).toNat
      let mem ← if endp != 0 then mem.store endp.toNat 8 (s + e.toUInt64) else pure mem
      let mem ← if ovf then setErrno c mem ERANGE else pure mem
      ok (rL v) mem),
    fn "strtod" (strtodFn false), fn "strtof" (strtodFn true),
    fn "fopen" (fun c args mem => do
      let path ← a0 args 0; let mode ← a0 args 1
      let pb ← cstr mem path.toNat
      let mb ← cstr mem mode.toNat
      if mb.size = 0 ∨ mb.get! 0 != 114 then
        let mem ← setErrno c mem EACCES
        ok (rL 0) mem
      else
        match ← lookupFile mem c.files pb 100000 0 with
        | none =>
          let mem ← setErrno c mem ENOENT
          ok (rL 0) mem
        | some (d, s) =>
          let (a, mem) ← heapAlloc c mem 48 (some (fileInit 1 d s))
          ok (rL a.toUInt64) mem),
    fn "freopen" (fun c args mem => do
      let path ← a0 args 0; let mode ← a0 args 1; let f ← a0 args 2
      let pb ← cstr mem path.toNat
      let mb ← cstr mem mode.toNat
      if mb.size > 0 ∧ mb.get! 0 == 119 then
        ok (rL f) mem [latin1 'F' pb]
      else
        match ← lookupFile mem c.files pb 100000 0 with
        | none =>
          let mem ← setErrno c mem ENOENT
          ok (rL 0) mem
        | some (d, s) =>
          let mem ← mem.writeBytes f.toNat (fileInit 1 d s)
          ok (rL f) mem),
    fn "fclose" (fun _ args mem => do
      let f ← a0 args 0
      let kind ← mem.load f.toNat 8
      if kind == 0 then throw (.trap "fclose of a closed stream")
      let mem ← if kind == 1 then mem.store f.toNat 8 0 else pure mem
      ok (rW 0) mem),
    fn "fflush" (fun _ _ mem => ok (rW 0) mem),
    fn "ferror" (fun _ args mem => do
      let f ← a0 args 0
      let fl ← mem.load (f.toNat + 40) 8
      ok (rW ((fl >>> 1) &&& 1)) mem),
    fn "feof" (fun _ args mem => do
      let f ← a0 args 0
      let fl ← mem.load (f.toNat + 40) 8
      ok (rW (fl &&& 1)) mem),
    fn "getc" (getcFn), fn "fgetc" (getcFn), fn "_IO_getc" (getcFn),
    fn "getchar" (fun _ _ mem => do
      let f ← stdStream mem p "stdin"
      let (ch, mem) ← streamGetc mem f
      ok (rW ch) mem),
    fn "ungetc" (fun _ args mem => do
      let ch ← a0 args 0; let f ← a0 args 1
      if ch &&& mask32 == eofW then ok (rW eofW) mem else
      let mem ← mem.store (f.toNat + 32) 8 (ch &&& 0xff)
      let fl ← mem.load (f.toNat + 40) 8
      let mem ← mem.store (f.toNat + 40) 8 (fl &&& 2)
      ok (rW (ch &&& 0xff)) mem),
    fn "putc" (putcFn 0 1), fn "fputc" (putcFn 0 1), fn "_IO_putc" (putcFn 0 1),
    fn "putchar" (fun _ args mem => do
      let ch ← a0 args 0
      let f ← stdStream mem p "stdout"
      writeTo mem f (ByteArray.empty.push ch.toUInt8) (rW (ch &&& 0xff)) (rW eofW)),
    fn "fputs" (fun _ args mem => do
      let s ← a0 args 0; let f ← a0 args 1
      let b ← cstr mem s.toNat
      writeTo mem f.toNat b (rW 1) (rW eofW)),
    fn "puts" (fun _ args mem => do
      let s ← a0 args 0
      let b ← cstr mem s.toNat
      let f ← stdStream mem p "stdout"
      writeTo mem f (b.push 10) (rW 1) (rW eofW)),
    fn "fwrite" (fun _ args mem => do
      let ptr ← a0 args 0; let sz ← a0 args 1; let n ← a0 args 2; let f ← a0 args 3
      let b ← mem.readBytes ptr.toNat (sz.toNat * n.toNat)
      writeTo mem f.toNat b (rL n) (rL 0)),
    fn "printf" (printTo (fun mem => stdStream mem p "stdout") 0 false),
    fn "vprintf" (printTo (fun mem => stdStream mem p "stdout") 0 true),
    fn "fprintf" (fun c args mem => printTo (streamArg 0 args) 1 false c args mem),
    fn "vfprintf" (fun c args mem => printTo (streamArg 0 args) 1 true c args mem),
    fn "snprintf" (sprint false true), fn "vsnprintf" (sprint true true),
    fn "sprintf" (sprint false false), fn "vsprintf" (sprint true false),
    fn "perror" (fun c args mem => do
      let s ← a0 args 0
      let e ← mem.load (c.state + 8) 4
      let pre ← if s == 0 then pure ByteArray.empty else cstr mem s.toNat
      let msg := (if pre.size = 0 then pre else pre ++ bytesOf ": ") ++ bytesOf (strerrorText e) ++ bytesOf "\n"
      let f ← stdStream mem p "stderr"
      writeTo mem f msg dummy dummy),
    fn "strerror" (fun c args mem => do
      let e ← a0 args 0
      let (a, mem) ← heapAlloc c mem 64 (some ((bytesOf (strerrorText (e &&& mask32))).push 0))
      ok (rL a.toUInt64) mem),
    fn "exit" (fun _ args _ => do
      let x ← a0 args 0
      throw (.exit x.toUInt32)),
    fn "_Exit" (fun _ args _ => do
      let x ← a0 args 0
      throw (.exit x.toUInt32)),
    fn "abort" (fun _ _ _ => throw (.trap "abort")),
    fn "__assert_fail" (fun _ args mem => do
      let e ← a0 args 0; let file ← a0 args 1; let line ← a0 args 2; let fn ← a0 args 3
      let eb ← cstr mem e.toNat
      let fb ← cstr mem file.toNat
      let nb ← if fn == 0 then pure ByteArray.empty else cstr mem fn.toNat
      throw (.trap ("abort: assertion failed: " ++ (latin1 ' ' fb).drop 1 ++ ":" ++
        toString (line &&& mask32).toNat ++ ": " ++ (latin1 ' ' nb).drop 1 ++ ": Assertion `" ++
        (latin1 ' ' eb).drop 1 ++ "' failed."))) ]

/-- The library as an external-function table for the prepared program `p`. -/
def libcExt (p : Prog) (c : Ctx) : Ext :=
  let table : Std.HashMap String Fn := Std.HashMap.ofList (fnTable p)
  fun name args mem =>
    match table[name]? with
    | some f => some (f c args mem)
    | none => none

def libcNames (p : Prog) : List String := (fnTable p).map (·.1)

/-! ## Running with a step count -/

/-- Like `Qbe.run`, but also returns the number of steps taken. -/
def runCount (p : Prog) (ext : Ext) : (fuel : Nat) → State → Nat → Outcome × Nat
  | 0, s, n => (⟨s.trace, .fuel⟩, n)
  | f+1, s, n =>
    match step p ext s with
    | .next s' => runCount p ext f s' (n + 1)
    | .done e t => (⟨t, e⟩, n)

theorem runCount_eq_run (p : Prog) (ext : Ext) (fuel : Nat) (s : State) (n : Nat) :
    (runCount p ext fuel s n).1 = run p ext fuel s := by
  induction fuel generalizing s n with
  | zero => rfl
  | succ f ih =>
    simp only [runCount, run]
    cases h : step p ext s with
    | next s' => exact ih _ _
    | done e t => rfl

/-- Run function `name` (what the driver does): outcome and number of steps. -/
def runMain (p : Prog) (ext : Ext) (name : String) (args : List (Ty × RVal)) (fuel : Nat) :
    Outcome × Nat :=
  match initState p name args with
  | .error e => (⟨#[], e⟩, 0)
  | .ok s => runCount p ext fuel s 0

theorem runMain_eq_runFunc (p : Prog) (ext : Ext) (name : String) (args : List (Ty × RVal))
    (fuel : Nat) : (runMain p ext name args fuel).1 = runFunc p ext name args fuel := by
  unfold runMain runFunc
  cases initState p name args with
  | error e => rfl
  | ok s => exact runCount_eq_run p ext fuel s 0

/-- The state after exactly `n` steps (if the run lasts that long). -/
def stateAfter (p : Prog) (ext : Ext) : Nat → State → Option State
  | 0, s => some s
  | n+1, s =>
    match step p ext s with
    | .next s' => stateAfter p ext n s'
    | .done _ _ => none

/-- Where a state is: function, block label, instruction index and text. -/
def describe (s : State) : String :=
  match s.frames with
  | [] => "(no frame)"
  | fr :: rest =>
    let here (fr : Frame) : String :=
      match fr.fi.f.blocks[fr.bi]? with
      | none => "$" ++ fr.fi.f.name ++ " (past the last block)"
      | some b => "$" ++ fr.fi.f.name ++ " @" ++ b.label ++ " +" ++ toString fr.ii
    let insTxt : String :=
      match fr.curIns with
      | some (.op res o _) => " [" ++ (match res with | some r => "%" ++ r.1 ++ " = " | none => "") ++ o.name ++ "]"
      | some (.call _ (.glob n _) _ _) => " [call $" ++ n ++ "]"
      | some (.call _ _ _ _) => " [indirect call]"
      | none => " [jump]"
    here fr ++ insTxt ++ (rest.take 6).foldl (fun s f => s ++ " < " ++ here f) ""

end CprocVerif.Qbe.Libc

/-!
# Presumed source locations (C11 6.10.4, gcc line markers) — declarative

Written from the standard's wording, not from scan.c: no state machine, no character-at-a-time
counters.  A source text is a list of bytes; a *line directive* (`#line n ["file"]` or the
preprocessor-output form `# n "file" flags…`) is given by three facts about it:

* `endOff` — the offset of the byte that follows the new-line character ending the directive;
* `line`   — the value of its digit sequence;
* `file`   — its s-char-sequence, when it has one.

6.10.4p3: the directive "causes the implementation to behave as if the following sequence of
source lines begins with a source line that has a line number as specified by the digit
sequence"; p4: with a string literal it "sets … the presumed name of the source file".  5.1.1.2
phase 1–3: a line number counts *physical* source lines — every new-line character counts,
whether it is preceded by a backslash (a line splice) or lies inside a comment.

Hence: the presumed line of the byte at offset `o` is the line number of the last line directive
that ends at or before `o`, plus the number of new-line characters between the end of that
directive and `o`; without such a directive it is 1 plus the number of new-line characters
before `o`.  The presumed file is the name given by the last directive at or before `o` that
names one, else the name the file was opened under.  The column of `o` is its 1-based distance
from the start of its physical line.
-/

namespace CprocVerif.Spec.Presumed

abbrev NL : UInt8 := 10

structure LineDir where
  /-- offset of the first byte after the new-line that ends the directive's line -/
  endOff : Nat
  /-- value of the digit sequence -/
  line : Nat
  /-- the s-char-sequence of the directive, if it has one -/
  file : Option (List UInt8)
  deriving DecidableEq, Repr, Inhabited

/-- number of new-line characters among the bytes at offsets `a ≤ · < b` -/
def newlines (text : List UInt8) (a b : Nat) : Nat := ((text.drop a).take (b - a)).count NL

/-- the directives whose line ends at or before offset `o`, in text order -/
def inEffect (dirs : List LineDir) (o : Nat) : List LineDir := dirs.filter (·.endOff ≤ o)

/-- presumed line number of the byte at offset `o` (`o = text.length`: of the end of the text) -/
def presumedLine (text : List UInt8) (dirs : List LineDir) (o : Nat) : Nat :=
  match (inEffect dirs o).getLast? with
  | none => 1 + newlines text 0 o
  | some d => d.line + newlines text d.endOff o

/-- presumed file name at offset `o`; `file0` is the name the file was opened under -/
def presumedFile (file0 : List UInt8) (dirs : List LineDir) (o : Nat) : List UInt8 :=
  (((inEffect dirs o).filterMap (·.file)).getLast?).getD file0

/-- number of bytes between the start of the physical line of offset `o` and `o` -/
def sinceLineStart (text : List UInt8) (o : Nat) : Nat :=
  ((text.take o).reverse.takeWhile (· ≠ NL)).length

/-- 1-based column of the byte at offset `o` in its physical line (a line starts after every
new-line character, spliced or not) -/
def column (text : List UInt8) (o : Nat) : Nat := sinceLineStart text o + 1

/-- 6.10.4: the digit sequence is read as a *decimal* integer (a leading 0 does not make it octal) -/
def decimalValue (ds : List UInt8) : Nat := ds.foldl (fun acc d => 10 * acc + (d.toNat - 48)) 0

end CprocVerif.Spec.Presumed

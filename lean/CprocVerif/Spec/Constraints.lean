import CprocVerif.Spec.Conv

/-!
# C11 *Constraints* paragraphs, as predicates on operands (for property C10)

Each definition transcribes the "Constraints" paragraph of one clause of C11 6.5 on the operand
descriptions of `Model/Types.lean` — *only* what must hold for the expression to be valid, not the
type of the result (that is `Spec/Conv.lean`, property C05).  Nothing here looks at how `expr.c`
organises its tests.

Conventions: operands are already converted by 6.3.2.1 (arrays and function designators have
decayed to pointers; `decayedFrom` remembers the designator); "real type" = arithmetic type (cproc
has no complex types); `isIntegerT` is "integer type" in the sense of 6.2.5p17 (an enumerated
type is one).
-/

namespace CprocVerif.Spec.Constraints
open CprocVerif.Types CprocVerif.Spec

/-- pointer to an object type (6.2.5p1: object types are the non-function types; an incomplete
type is an object type in C11) -/
def ptrToObject (t : Ty) : Bool :=
  match t with
  | .ptr _ b => !b.isFunc
  | _ => false

/-- both operands point to (qualified or unqualified versions of) compatible types: the qualifiers
of the pointed-to types are disregarded -/
def ptrsToCompatible (l r : Ty) : Bool :=
  match l, r with
  | .ptr _ lb, .ptr _ rb => compatible lb rb
  | _, _ => false

def isVoidPtrAny (t : Ty) : Bool :=
  match t with
  | .ptr _ .void => true
  | _ => false

/-- the Constraints paragraph of the binary operators -/
def binop (op : BinOp) (l r : Operand) : Bool :=
  match op with
  -- 6.5.5p2: "Each of the operands shall have arithmetic type. The operands of the % operator shall
  -- have integer type."
  | .mul | .div => l.ty.isArith && r.ty.isArith
  | .mod => isIntegerT l.ty && isIntegerT r.ty
  -- 6.5.6p2: both arithmetic, or one a pointer to a complete object type and the other integer
  | .add =>
    (l.ty.isArith && r.ty.isArith) ||
    (ptrToCompleteObject l.ty && isIntegerT r.ty) || (ptrToCompleteObject r.ty && isIntegerT l.ty)
  -- 6.5.6p3: both arithmetic; both pointers to compatible complete object types; or the left a
  -- pointer to a complete object type and the right integer
  | .sub =>
    (l.ty.isArith && r.ty.isArith) ||
    (ptrToCompleteObject l.ty && ptrToCompleteObject r.ty && ptrsToCompatible l.ty r.ty) ||
    (ptrToCompleteObject l.ty && isIntegerT r.ty)
  -- 6.5.7p2, 6.5.10p2, 6.5.11p2, 6.5.12p2: "Each of the operands shall have integer type."
  | .shl | .shr | .band | .xor | .bor => isIntegerT l.ty && isIntegerT r.ty
  -- 6.5.8p2: both real, or both pointers to compatible object types
  | .less | .greater | .leq | .geq =>
    (l.ty.isArith && r.ty.isArith) ||
    (ptrToObject l.ty && ptrToObject r.ty && ptrsToCompatible l.ty r.ty)
  -- 6.5.9p2: both arithmetic; both pointers to compatible types; one a pointer to an object type
  -- and the other a pointer to void; one a pointer and the other a null pointer constant
  | .eql | .neq =>
    (l.ty.isArith && r.ty.isArith) ||
    ptrsToCompatible l.ty r.ty ||
    (ptrToObject l.ty && isVoidPtrAny r.ty) || (isVoidPtrAny l.ty && ptrToObject r.ty) ||
    (l.ty.isPtr && r.nullconst) || (l.nullconst && r.ty.isPtr)
  -- 6.5.13p2, 6.5.14p2: "Each of the operands shall have scalar type."
  | .land | .lor => l.ty.isScalar && r.ty.isScalar

/-- does the operand designate a bit-field (6.5.3.2p1, 6.5.3.4p1)? -/
def designatesBitfield (e : Operand) : Bool := e.decayedFrom.isNone && e.width.isSome

/-- the type of the designator the operand was (before 6.3.2.1 conversion) -/
def designatorType (e : Operand) : Ty :=
  match e.decayedFrom with
  | some p => p.1
  | none => e.ty

/-- the Constraints paragraph of the unary operators -/
def unop (op : UnOp) (e : Operand) : Bool :=
  match op with
  -- 6.5.3.2p1: "a function designator, the result of a [] or unary * operator, or an lvalue that
  -- designates an object that is not a bit-field" (`register` is not modelled)
  | .addr => (e.decayedFrom.isSome || e.lvalue || (designatorType e).isFunc) && !designatesBitfield e
  -- 6.5.3.2p2: "The operand of the unary * operator shall have pointer type."
  | .deref => e.ty.isPtr
  -- 6.5.3.3p1: arithmetic for + and -, integer for ~, scalar for !
  | .plus | .minus => e.ty.isArith
  | .bnot => isIntegerT e.ty
  | .lnot => e.ty.isScalar
  -- 6.5.3.4p1: not a function type, not an incomplete type, not a bit-field
  | .sizeofE | .alignofE =>
    !(designatorType e).isFunc && !(designatorType e).incomplete && !designatesBitfield e
  -- 6.5.2.4p1, 6.5.3.1p1: real or pointer type, modifiable lvalue (6.3.2.1p1: not const-qualified);
  -- by reference to 6.5.6p2 a pointer operand points to a complete object type
  | .preinc | .predec | .postinc | .postdec =>
    e.lvalue && !e.qual.c && (e.ty.isArith || ptrToCompleteObject e.ty)

/-- 6.5.4p2: "Unless the type name specifies a void type, the type name shall specify atomic,
qualified, or unqualified scalar type, and the operand shall have scalar type." -/
def castScalar (t : Ty) (e : Operand) : Bool := t == .void || (t.isScalar && e.ty.isScalar)

/-- 6.5.4p4: "A pointer type shall not be converted to any floating type. A floating type shall
not be converted to any pointer type." -/
def castNoPtrFloat (t : Ty) (e : Operand) : Bool :=
  !(t.isPtr && isFloatingT e.ty) && !(isFloatingT t && e.ty.isPtr)

/-- 6.5.3.4p1 for `sizeof (type-name)` / `_Alignof (type-name)` -/
def sizeofTypeName (t : Ty) : Bool := !t.isFunc && !t.incomplete

/-- 6.5.16p2: "An assignment operator shall have a modifiable lvalue as its left operand."  The
part visible at `assignexpr`: an lvalue.  (Not const-qualified: enforced where the store is
emitted, `qbe.c:funcstore`.) -/
def assignLvalue (l : Operand) : Bool := l.lvalue

/-- 6.5.16.1p1, the cases with a pointer on the left: both pointers to compatible types, or one a
pointer to an object type and the other a pointer to void — and the type pointed to by the left
has all the qualifiers of the type pointed to by the right; or the right operand is a null pointer
constant -/
def assignToPointer (t : Ty) (e : Operand) : Bool :=
  match t with
  | .ptr tq tb =>
    e.nullconst ||
    (match e.ty with
     | .ptr eq eb =>
       eq.subset tq &&
       (compatible tb eb || (tb == .void && !eb.isFunc) || (eb == .void && !tb.isFunc))
     | _ => false)
  | _ => false

/-- 6.5.16.1p1 (simple assignment; by 6.7.9p11, 6.5.2.2p2/p7 and 6.8.6.4p3 also initialisation of a
scalar, argument passing and `return`): arithmetic ← arithmetic; structure or union ← compatible
type; the pointer cases of `assignToPointer`; `_Bool` ← pointer; C23: `nullptr_t` ← null pointer
constant, `_Bool` ← `nullptr_t` -/
def simpleAssign (t : Ty) (e : Operand) : Bool :=
  (t.isArith && e.ty.isArith) ||
  (t.isStructUnion && compatible t e.ty) ||
  assignToPointer t e ||
  (t == .arith (.basic .bool) && (e.ty.isPtr || e.ty == .nullptr)) ||
  (t == .nullptr && e.nullconst)

/-- 6.5.2.2p1-2: the called expression is a pointer to function; "the number of arguments shall
agree with the number of parameters" (at least as many for a prototype ending in an ellipsis) -/
def call (f : Operand) (nargs : Nat) : Bool :=
  match f.ty with
  | .ptr _ (.func _ _ params vararg) =>
    if vararg then decide (params.length ≤ nargs) else decide (nargs = params.length)
  | _ => false

/-- 6.5.2.3p1-2: `.` needs a structure or union, `->` a pointer to one -/
def member (arrow : Bool) (e : Operand) : Bool :=
  if arrow then (match e.ty with | .ptr _ b => b.isStructUnion | _ => false) else e.ty.isStructUnion

/-- 6.5.2.1p1: "One of the expressions shall have type pointer to complete object type, the other
expression shall have integer type" -/
def subscript (a i : Operand) : Bool :=
  (ptrToCompleteObject a.ty && isIntegerT i.ty) || (ptrToCompleteObject i.ty && isIntegerT a.ty)

/-- 6.5.15p2: "The first operand shall have scalar type." -/
def condFirst (c : Operand) : Bool := c.ty.isScalar

/-- 6.5.15p3 -/
def condArms (l r : Operand) : Bool :=
  (l.ty.isArith && r.ty.isArith) ||
  (l.ty.isStructUnion && l.ty == r.ty) ||
  (l.ty == .void && r.ty == .void) ||
  ptrsToCompatible l.ty r.ty ||
  (l.ty.isPtr && r.nullconst) || (l.nullconst && r.ty.isPtr) ||
  (ptrToObject l.ty && isVoidPtrAny r.ty) || (isVoidPtrAny l.ty && ptrToObject r.ty)

/-- 6.5.1.1p2: the controlling expression is compatible with at most one association, and with
exactly one if there is no `default` -/
def generic (want : Ty) (assocs : List (Ty × Qual)) (hasDefault : Bool) : Prop :=
  let n := (assocs.filter (fun p => compatible p.1 want && p.2 == Qual.none)).length
  n ≤ 1 ∧ (hasDefault = false → n = 1)

end CprocVerif.Spec.Constraints

/-
  Linking several QBE IL modules into one (for running whole programs under `Spec/Qbe.lean`).

  cproc emits `static` objects/functions without `export`; such symbols are local to their module.
  `linkModules` renames every non-exported symbol `$x` defined in module number `i` to `$x/i`.
  Aggregate types are per module in the text (`:bitfield.1` in one unit, `:bitfield.2` in another
  for the same C type) but a linker compares nothing but layouts, so types are identified
  *structurally*: every type definition is renamed to a canonical name determined by its
  alignment and members (with nested types canonicalised first); later definitions with the same
  structure are dropped.  The definitions are then concatenated.  A `$x` that a module does not define locally refers to the
  exported definition of some other module (or to an external function).  Two exported
  definitions of the same symbol are a link error.
-/
import CprocVerif.Spec.Qbe

namespace CprocVerif.Qbe

/-- Names of the non-exported data and function definitions of a module. -/
def Module.localSyms (m : Module) : Std.HashSet String :=
  m.defs.foldl (fun s d => match d with
    | .data d => if d.export then s else s.insert d.name
    | .func f => if f.export then s else s.insert f.name
    | .type _ => s) {}

def Module.exportedSyms (m : Module) : List String :=
  m.defs.toList.filterMap fun d => match d with
    | .data d => if d.export then some d.name else none
    | .func f => if f.export then some f.name else none
    | .type _ => none

structure Renamer where
  loc : Std.HashSet String
  suffix : String
  /-- type name in this module ↦ canonical (global) type name -/
  tys : Std.HashMap String String := {}

def Renamer.tyName (r : Renamer) (n : String) : String := (r.tys[n]?).getD (n ++ r.suffix)

def Renamer.sym (r : Renamer) (n : String) : String :=
  if r.loc.contains n then n ++ r.suffix else n

def Renamer.ty (r : Renamer) : Ty → Ty
  | .agg n => .agg (r.tyName n)
  | t => t

def Renamer.val (r : Renamer) : Val → Val
  | .glob n t => .glob (r.sym n) t
  | v => v

def Renamer.ins (r : Renamer) : Ins → Ins
  | .op res o args => .op res o (args.map r.val)
  | .call res callee args va =>
    .call (res.map fun x => (x.1, r.ty x.2)) (r.val callee) (args.map fun a => (r.ty a.1, r.val a.2)) va

def Renamer.jump (r : Renamer) : Jump → Jump
  | .jnz v a b => .jnz (r.val v) a b
  | .ret (some v) => .ret (some (r.val v))
  | j => j

def Renamer.block (r : Renamer) (b : Block) : Block :=
  { label := b.label
    phis := b.phis.map fun p => { p with srcs := p.srcs.map fun s => (s.1, r.val s.2) }
    ins := b.ins.map r.ins
    term := b.term.map r.jump }

def Renamer.func (r : Renamer) (f : Func) : Func :=
  { f with
    name := r.sym f.name
    ret := f.ret.map r.ty
    params := f.params.map fun p => (r.ty p.1, p.2)
    blocks := f.blocks.map r.block }

def Renamer.field (r : Renamer) (f : FieldTy × Nat) : FieldTy × Nat :=
  match f.1 with
  | .agg n => (.agg (r.tyName n), f.2)
  | _ => f

def Renamer.typeBody (r : Renamer) : TypeBody → TypeBody
  | .struct fs => .struct (fs.map r.field)
  | .union alts => .union (alts.map fun fs => fs.map r.field)
  | .opaque n => .opaque n

def fieldKey (f : FieldTy × Nat) : String :=
  (match f.1 with
   | .b => "b" | .h => "h" | .w => "w" | .l => "l" | .s => "s" | .d => "d"
   | .agg n => ":" ++ n) ++ "*" ++ toString f.2

/-- A string that determines the layout of a (canonicalised) type body. -/
def typeKey (align : Option Nat) (b : TypeBody) : String :=
  "a" ++ toString (align.getD 0) ++
  match b with
  | .struct fs => "{" ++ ",".intercalate (fs.map fieldKey) ++ "}"
  | .union alts => "{" ++ "".intercalate (alts.map fun fs => "{" ++ ",".intercalate (fs.map fieldKey) ++ "}") ++ "}"
  | .opaque n => "[" ++ toString n ++ "]"

def Renamer.dataDef (r : Renamer) (d : DataDef) : DataDef :=
  { d with
    name := r.sym d.name
    items := d.items.map fun it => match it with
      | .zero n => .zero n
      | .vals t vs => .vals t (vs.map fun v => match v with
          | .sym n a => .sym (r.sym n) a
          | v => v) }

def firstDup : List String → Std.HashSet String → Option String
  | [], _ => none
  | x :: xs, s => if s.contains x then some x else firstDup xs (s.insert x)

structure LinkAcc where
  /-- layout key ↦ canonical type name -/
  canon : Std.HashMap String String := {}
  defs : Array Def := #[]

/-- Add the definitions of module number `i`. -/
def linkOne (acc : LinkAcc) (i : Nat) (m : Module) : LinkAcc :=
  let r0 : Renamer := { loc := m.localSyms, suffix := "/" ++ toString i }
  let (acc, _) := m.defs.foldl (fun (st : LinkAcc × Renamer) d =>
    let (acc, r) := st
    match d with
    | .type t =>
      let body := r.typeBody t.body
      let key := typeKey t.align body
      match acc.canon[key]? with
      | some cn => (acc, { r with tys := r.tys.insert t.name cn })
      | none =>
        let cn := t.name ++ "/T" ++ toString acc.canon.size
        ({ canon := acc.canon.insert key cn, defs := acc.defs.push (.type ⟨cn, t.align, body⟩) },
         { r with tys := r.tys.insert t.name cn })
    | .data dd => ({ acc with defs := acc.defs.push (.data (r.dataDef dd)) }, r)
    | .func f => ({ acc with defs := acc.defs.push (.func (r.func f)) }, r)) (acc, r0)
  acc

/-- Link modules (module `i` of the list gets suffix `/i` on its local names). -/
def linkModules (ms : List Module) : Except String Module :=
  match firstDup (ms.flatMap Module.exportedSyms) {} with
  | some x => .error ("link: symbol $" ++ x ++ " is exported by two definitions")
  | none =>
    let acc := ((List.range ms.length).zip ms).foldl (fun acc (im : Nat × Module) => linkOne acc im.1 im.2) {}
    .ok ⟨acc.defs⟩

/-- Symbols referenced by the linked module that no definition provides (the externals). -/
def Module.undefinedSyms (m : Module) : List String :=
  let defined : Std.HashSet String := m.defs.foldl (fun s d => match d with
    | .data d => s.insert d.name
    | .func f => s.insert f.name
    | .type _ => s) {}
  let (_, out) := m.codeSyms.foldl (fun (acc : Std.HashSet String × Array String) n =>
    if defined.contains n || acc.1.contains n then acc else (acc.1.insert n, acc.2.push n))
    ({}, #[])
  out.toList

end CprocVerif.Qbe

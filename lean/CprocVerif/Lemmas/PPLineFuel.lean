import CprocVerif.Lemmas.PPLinePP

/-! C11 helper lemmas, part 7: the fuel of the preprocessor model's loops is never exhausted
(every iteration consumes a token, every token but `TEOF` consumes a character). -/

namespace CprocVerif.PPLine
open CprocVerif.Scan CprocVerif.Gen.TokenKinds

/-- not the model's own "out of fuel" -/
def NF (e : PErr) : Prop := e.kind ≠ .fuel ∧ e.kind ≠ .scan .fuel

/-- result shape shared by the lemmas below: a diagnostic is a real one; otherwise `okP` -/
def NFRes {α : Type} (okP : α → Prop) : Except PErr α → Prop
  | .error e => NF e
  | .ok a => okP a

theorem errTok_nf (p : PS) (t : PTok) (k : PErrKind) (h1 : k ≠ .fuel) (h2 : k ≠ .scan .fuel) :
    NF (errTok p t k) := ⟨h1, h2⟩

/-- progress of one `scan` -/
def Prog (p : PS) (r : PTok × PS) : Prop :=
  r.2.s.len < p.s.len ∨ (r.1.kind = .TEOF ∧ r.2.s.len = 0)

theorem Prog.le {p : PS} {r : PTok × PS} (h : Prog p r) : r.2.s.len ≤ p.s.len := by
  rcases h with h | h <;> omega

theorem scanP_nf (p : PS) : NFRes (Prog p) (scanP p) := by
  unfold scanP
  rcases scan_cases p.s with ⟨e, he, hk⟩ | ⟨t, s', he, hp⟩
  · rw [he]
    refine ⟨by simp, ?_⟩
    intro h
    simp only [PErrKind.scan.injEq] at h
    exact hk h
  · rw [he]
    exact hp

theorem skipNumbers_nf : ∀ (n : Nat) (t : PTok) (p : PS),
    (p.s.len + 2 ≤ n ∨ (t.kind = .TEOF ∧ 1 ≤ n)) →
    NFRes (fun r : PTok × PS => r.2.s.len ≤ p.s.len) (skipNumbers n t p) := by
  intro n
  induction n with
  | zero => intro t p h; rcases h with h | h <;> omega
  | succ n ih =>
    intro t p h
    unfold skipNumbers
    split
    · rename_i hk
      have h1 : p.s.len + 2 ≤ n + 1 := by
        rcases h with h | h
        · exact h
        · rw [hk] at h; cases h.1
      have hs := scanP_nf p
      cases hsp : scanP p with
      | error e => rw [hsp] at hs; exact hs
      | ok r =>
        obtain ⟨t', p'⟩ := r
        rw [hsp] at hs
        have hp : Prog p (t', p') := hs
        have := ih t' p' (by
          rcases hp with hp | hp
          · left; simp only [] at hp; omega
          · right; exact ⟨hp.1, by omega⟩)
        simp only []
        cases hsk : skipNumbers n t' p' with
        | error e => rw [hsk] at this; exact this
        | ok r2 =>
          rw [hsk] at this
          have h2 : r2.2.s.len ≤ p'.s.len := this
          have := hp.le
          show r2.2.s.len ≤ p.s.len
          simp only [] at this
          omega
    · exact Nat.le_refl _

theorem lineDirEnd_nf (n : Nat) (f : Option (List UInt8)) (file1 : List UInt8) (t2 : PTok) (p2 : PS) :
    NFRes (fun p' : PS => p'.s.len ≤ p2.s.len) (lineDirEnd n f file1 t2 p2) := by
  unfold lineDirEnd
  have := skipNumbers_nf (p2.s.inp.length + 2) t2 p2 (Or.inl (Nat.le_refl _))
  cases hsk : skipNumbers (p2.s.inp.length + 2) t2 p2 with
  | error e => rw [hsk] at this; exact this
  | ok r =>
    obtain ⟨t, p3⟩ := r
    rw [hsk] at this
    simp only []
    split
    · exact errTok_nf _ _ _ (by simp) (by simp)
    · exact this

theorem lineDir_nf (num : PTok) (p : PS) :
    NFRes (fun p' : PS => p'.s.len ≤ p.s.len) (lineDir num p) := by
  unfold lineDir
  simp only []
  have hs := scanP_nf p
  cases hsp : scanP p with
  | error e => rw [hsp] at hs; exact hs
  | ok r =>
    obtain ⟨t1, p1⟩ := r
    rw [hsp] at hs
    have h1 := (hs : Prog p (t1, p1)).le
    simp only [] at h1 ⊢
    split
    · have hs2 := scanP_nf p1
      cases hsp2 : scanP p1 with
      | error e => rw [hsp2] at hs2; exact hs2
      | ok r2 =>
        obtain ⟨t2, p2⟩ := r2
        rw [hsp2] at hs2
        have h2 := (hs2 : Prog p1 (t2, p2)).le
        simp only [] at h2 ⊢
        have := lineDirEnd_nf (lineValue (num.lit.getD [])) (some (fileOf (t1.lit.getD []))) t1.file t2 p2
        cases hl : lineDirEnd (lineValue (num.lit.getD [])) (some (fileOf (t1.lit.getD []))) t1.file t2 p2 with
        | error e => rw [hl] at this; exact this
        | ok p' =>
          rw [hl] at this
          have h3 : p'.s.len ≤ p2.s.len := this
          show p'.s.len ≤ p.s.len
          omega
    · have := lineDirEnd_nf (lineValue (num.lit.getD [])) none t1.file t1 p1
      cases hl : lineDirEnd (lineValue (num.lit.getD [])) none t1.file t1 p1 with
      | error e => rw [hl] at this; exact this
      | ok p' =>
        rw [hl] at this
        have h3 : p'.s.len ≤ p1.s.len := this
        show p'.s.len ≤ p.s.len
        omega

theorem pragmaLoop_nf : ∀ (n : Nat) (t : PTok) (p : PS),
    (p.s.len + 2 ≤ n ∨ (t.kind = .TEOF ∧ 1 ≤ n)) →
    NFRes (fun r : PTok × PS => r.2.s.len ≤ p.s.len) (pragmaLoop n t p) := by
  intro n
  induction n with
  | zero => intro t p h; rcases h with h | h <;> omega
  | succ n ih =>
    intro t p h
    unfold pragmaLoop
    split
    · exact Nat.le_refl _
    · rename_i hk
      have h1 : p.s.len + 2 ≤ n + 1 := by
        rcases h with h | h
        · exact h
        · exact absurd (Or.inr h.1) hk
      have hs := scanP_nf p
      cases hsp : scanP p with
      | error e => rw [hsp] at hs; exact hs
      | ok r =>
        obtain ⟨t', p'⟩ := r
        rw [hsp] at hs
        have hp : Prog p (t', p') := hs
        simp only []
        split
        · exact errTok_nf _ _ _ (by simp) (by simp)
        · have := ih t' ({ p' with newline := decide (t'.kind = .TNEWLINE) } : PS) (by
            rcases hp with hp | hp
            · left; simp only [] at hp; show p'.s.len + 2 ≤ n; omega
            · right; exact ⟨hp.1, by omega⟩)
          cases hpl : pragmaLoop n t' ({ p' with newline := decide (t'.kind = .TNEWLINE) } : PS) with
          | error e => rw [hpl] at this; exact this
          | ok r2 =>
            rw [hpl] at this
            have h2 : r2.2.s.len ≤ p'.s.len := this
            have := hp.le
            show r2.2.s.len ≤ p.s.len
            simp only [] at this
            omega

theorem directive_nf (p : PS) : NFRes (fun p' : PS => p'.s.len ≤ p.s.len) (directive p) := by
  unfold directive
  have hs := scanP_nf p
  cases hsp : scanP p with
  | error e => rw [hsp] at hs; exact hs
  | ok r =>
    obtain ⟨t, p1⟩ := r
    rw [hsp] at hs
    have h1 := (hs : Prog p (t, p1)).le
    simp only [] at h1 ⊢
    have lift : ∀ (x : Except PErr PS), NFRes (fun p' : PS => p'.s.len ≤ p1.s.len) x →
        NFRes (fun p' : PS => p'.s.len ≤ p.s.len) x := by
      intro x hx
      cases x with
      | error e => exact hx
      | ok p' => have h3 : p'.s.len ≤ p1.s.len := hx; show p'.s.len ≤ p.s.len; omega
    split
    · exact h1
    · split
      · exact lift _ (lineDir_nf t p1)
      · split
        · exact errTok_nf _ _ _ (by simp) (by simp)
        · split
          · exact errTok_nf _ _ _ (by simp) (by simp)
          · split
            · exact errTok_nf _ _ _ (by simp) (by simp)
            · split
              · have hs2 := scanP_nf p1
                cases hsp2 : scanP p1 with
                | error e => rw [hsp2] at hs2; exact hs2
                | ok r2 =>
                  obtain ⟨t2, p2⟩ := r2
                  rw [hsp2] at hs2
                  have h2 := (hs2 : Prog p1 (t2, p2)).le
                  simp only [] at h2 ⊢
                  split
                  · exact errTok_nf _ _ _ (by simp) (by simp)
                  · have := lineDir_nf t2 p2
                    cases hl : lineDir t2 p2 with
                    | error e => rw [hl] at this; exact this
                    | ok p' =>
                      rw [hl] at this
                      have h3 : p'.s.len ≤ p2.s.len := this
                      show p'.s.len ≤ p.s.len
                      omega
              · split
                · have := pragmaLoop_nf (p1.s.inp.length + 2) t p1 (Or.inl (Nat.le_refl _))
                  cases hpl : pragmaLoop (p1.s.inp.length + 2) t p1 with
                  | error e => rw [hpl] at this; exact this
                  | ok r2 =>
                    obtain ⟨t2, p2⟩ := r2
                    rw [hpl] at this
                    have h3 : p2.s.len ≤ p1.s.len := this
                    simp only []
                    split
                    · exact errTok_nf _ _ _ (by simp) (by simp)
                    · show p2.s.len ≤ p.s.len; omega
                · exact errTok_nf _ _ _ (by simp) (by simp)

theorem nextinto_nf : ∀ (n : Nat) (p : PS), p.s.len + 1 ≤ n → NFRes (Prog p) (nextinto n p) := by
  intro n
  induction n with
  | zero => intro p h; omega
  | succ n ih =>
    intro p h
    unfold nextinto
    have hs := scanP_nf p
    cases hsp : scanP p with
    | error e => rw [hsp] at hs; exact hs
    | ok r =>
      obtain ⟨t, p1⟩ := r
      rw [hsp] at hs
      have hp : Prog p (t, p1) := hs
      simp only []
      split
      · rename_i hh
        have hlt : p1.s.len < p.s.len := by
          rcases hp with hp | hp
          · exact hp
          · simp only [] at hp; rw [hh.2] at hp; cases hp.1
        have hd := directive_nf p1
        cases hdp : directive p1 with
        | error e => rw [hdp] at hd; exact hd
        | ok p2 =>
          rw [hdp] at hd
          have h2 : p2.s.len ≤ p1.s.len := hd
          simp only []
          have := ih p2 (by omega)
          cases hn : nextinto n p2 with
          | error e => rw [hn] at this; exact this
          | ok r2 =>
            rw [hn] at this
            have hp2 : Prog p2 r2 := this
            rcases hp2 with hp2 | hp2
            · left; show r2.2.s.len < p.s.len; omega
            · right; exact hp2
      · exact hp

theorem next_nf (nl : Bool) : ∀ (n : Nat) (p : PS), p.s.len + 1 ≤ n → NFRes (Prog p) (next nl n p) := by
  intro n
  induction n with
  | zero => intro p h; omega
  | succ n ih =>
    intro p h
    unfold next
    have hn := nextinto_nf (p.s.inp.length + 2) p (by show p.s.inp.length + 1 ≤ _; omega)
    cases hnp : nextinto (p.s.inp.length + 2) p with
    | error e => rw [hnp] at hn; exact hn
    | ok r =>
      obtain ⟨t, p1⟩ := r
      rw [hnp] at hn
      have hp : Prog p (t, p1) := hn
      simp only []
      split
      · rename_i hh
        have hlt : p1.s.len < p.s.len := by
          rcases hp with hp | hp
          · exact hp
          · simp only [] at hp; rw [hh.1] at hp; cases hp.1
        have := ih p1 (by omega)
        cases hn2 : next nl n p1 with
        | error e => rw [hn2] at this; exact this
        | ok r2 =>
          rw [hn2] at this
          have hp2 : Prog p1 r2 := this
          rcases hp2 with hp2 | hp2
          · left; show r2.2.s.len < p.s.len; omega
          · right; exact hp2
      · rcases hp with hp | hp
        · left; exact hp
        · right; exact ⟨(toKeyword_kind_eof t).mpr hp.1, hp.2⟩

theorem runLoop_nf (nl : Bool) : ∀ (n : Nat) (p : PS), p.s.len + 1 ≤ n →
    (∀ e, (runLoop nl n p).err = some e → NF e) ∧
    ((runLoop nl n p).err = none → ∃ ts t, (runLoop nl n p).toks = ts ++ [t] ∧ t.kind = .TEOF ∧
      ∀ x ∈ ts, x.kind ≠ .TEOF) := by
  intro n
  induction n with
  | zero => intro p h; omega
  | succ n ih =>
    intro p h
    unfold runLoop
    have hn := next_nf nl (p.s.inp.length + 2) p (by show p.s.inp.length + 1 ≤ _; omega)
    cases hnp : next nl (p.s.inp.length + 2) p with
    | error e =>
      rw [hnp] at hn
      refine ⟨?_, by simp⟩
      intro e' he'
      simp only [Option.some.injEq] at he'
      subst he'
      exact hn
    | ok r =>
      obtain ⟨t, p1⟩ := r
      rw [hnp] at hn
      have hp : Prog p (t, p1) := hn
      simp only []
      split
      · rename_i hk
        exact ⟨by simp, fun _ => ⟨[], t, rfl, hk, by simp⟩⟩
      · rename_i hk
        have hlt : p1.s.len < p.s.len := by
          rcases hp with hp | hp
          · exact hp
          · exact absurd hp.1 hk
        obtain ⟨i1, i2⟩ := ih p1 (by omega)
        refine ⟨i1, ?_⟩
        intro hnone
        obtain ⟨ts, tl, e1, e2, e3⟩ := i2 hnone
        refine ⟨t :: ts, tl, by simp only []; rw [e1]; rfl, e2, ?_⟩
        intro x hx
        rcases List.mem_cons.mp hx with e | e
        · rw [e]; exact hk
        · exact e3 x e

end CprocVerif.PPLine

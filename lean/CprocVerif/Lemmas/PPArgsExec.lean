import CprocVerif.Lemmas.PPArgs
import CprocVerif.Lemmas.PPFuel

/-! # `expandfunc` inside `exec` runs the pure loop `collect`

For an invocation whose tokens come straight from the scanner (empty context stack), contain no
new-line, `#`, end of file or scanner diagnostic, and no macro name, the loops of `expandfunc` as
executed by `exec` accept/reject exactly as `collect` does, consume exactly the tokens up to the
`)` that `collect` stops at, and store for each parameter: the (painted) tokens of its argument
if it is used plainly, the `stringize` string of its argument if it is used with `#`. -/

namespace CprocVerif.PP
open CprocVerif.Gen.TokenKinds

/-- a token of a plain invocation -/
def PlainTok (ms : List Macro) (t : Tok) : Prop :=
  t.kind ≠ .TNEWLINE ∧ t.kind ≠ .THASH ∧ t.kind ≠ .TNONE ∧ t.kind ≠ .TEOF ∧
  (t.kind = .TIDENT → macroget ms (t.lit.getD []) = none)

instance (ms : List Macro) (t : Tok) : Decidable (PlainTok ms t) := by unfold PlainTok; infer_instance

/-- what `expand` leaves of an identifier that names no macro -/
def paint (t : Tok) : Tok := if t.kind = .TIDENT then { t with hide := true } else t

theorem expand_plain (n : Nat) (t : Tok) (st : St) (ht : PlainTok st.macros t) :
    exec (n + 1) (.expand t) st = .ok { st with rb := false, rt := paint t } := by
  show expandBody (exec n) t st = _
  unfold expandBody paint
  by_cases hk : t.kind = .TIDENT
  · simp only [hk, ne_eq, not_true_eq_false, ↓reduceIte, ht.2.2.2.2 hk]
  · simp only [hk, ne_eq, not_false_eq_true, ↓reduceIte]

theorem ctxnext_empty (n : Nat) (st : St) (hctx : st.ctx = []) :
    exec (n + 1) .ctxnext st = .ok { st with rb := false } := by
  show ctxnextBody (exec n) st = _
  unfold ctxnextBody ctxnextStep
  simp only [hctx, popDone]

/-- `argnext` when the scanner delivers a plain token -/
theorem argnext_plain (n : Nat) (st : St) (hctx : st.ctx = []) (t : Tok) (r : List Tok)
    (hraw : st.raw = t :: r) (ht : PlainTok st.macros t) :
    exec (n + 4) (.argLoop false) st = .ok { st with raw := r, newline := false, rt := t, rb := false } := by
  show argLoopBody (exec (n + 3)) false st = _
  unfold argLoopBody
  have h1 : exec (n + 3) .rawnext st = .ok { st with raw := r, newline := false, rt := t, rb := false } := by
    show rawnextBody (exec (n + 2)) st = _
    unfold rawnextBody
    rw [ctxnext_empty (n + 1) st hctx]
    simp only [Bool.false_eq_true, ↓reduceIte]
    show nextintoBody (exec (n + 1)) { st with rb := false } = _
    unfold nextintoBody scanTok
    simp only [hraw, ht.2.2.1, ↓reduceIte, ht.2.1, and_false, ht.1, decide_false]
  rw [h1]
  have hnl : (t.kind = Kind.TNEWLINE) = False := by simp [ht.1]
  have : ¬ (r.length + 1 < r.length + 1) := by omega
  simp only [hnl, ↓reduceIte, hraw, List.length_cons, Bool.false_eq_true, this]

/-- `argnext` at the end of the input -/
theorem argnext_eof (n : Nat) (st : St) (hctx : st.ctx = []) (hraw : st.raw = []) :
    exec (n + 4) (.argLoop false) st = .ok { st with newline := false, rt := eofTok, rb := false } := by
  show argLoopBody (exec (n + 3)) false st = _
  unfold argLoopBody
  have h1 : exec (n + 3) .rawnext st = .ok { st with newline := false, rt := eofTok, rb := false } := by
    show rawnextBody (exec (n + 2)) st = _
    unfold rawnextBody
    rw [ctxnext_empty (n + 1) st hctx]
    simp only [Bool.false_eq_true, ↓reduceIte]
    show nextintoBody (exec (n + 1)) { st with rb := false } = _
    unfold nextintoBody scanTok
    simp [hraw, eofTok]
  rw [h1]
  simp [eofTok, hraw]


/-! ## the four ways through one iteration of the inner loop, at invocation level -/

section shapes
variable (rec : Call → St → Res) (e : EF) (st : St)

/-- the argument record stored when the argument for the current parameter ends -/
def curArg (e : EF) : Arg :=
  ⟨e.cur.reverse, if (e.m.params.getD e.i default).fstr then strTok (e.str ++ [c! '"']) else default⟩

def breakCond (e : EF) : Prop :=
  e.paren = 0 ∧ (e.t.kind = .TRPAREN ∨ (e.t.kind = .TCOMMA ∧ (e.m.params.getD e.i default).fvar = false))

instance (e : EF) : Decidable (breakCond e) := by unfold breakCond; infer_instance

theorem efLoop_finish (hne : e.t.kind ≠ .TEOF) (hl : st.depth ≤ e.depth) (hc : breakCond e)
    (hf : e.t.kind = .TRPAREN ∨ e.i + 1 = e.m.params.length) :
    efLoopBody rec e st = efFinish { e with depth := st.depth, done := curArg e :: e.done } st := by
  unfold efLoopBody breakCond curArg at *
  simp only [hne, ↓reduceIte, hl, decide_true, true_and, hc, and_self, hf]

theorem efLoop_nextarg (hne : e.t.kind ≠ .TEOF) (hl : st.depth ≤ e.depth) (hc : breakCond e)
    (hf : ¬ (e.t.kind = .TRPAREN ∨ e.i + 1 = e.m.params.length)) (st1 : St)
    (ha : rec (.argLoop false) st = .ok st1) :
    efLoopBody rec e st =
      efStart rec { e with depth := st.depth, done := curArg e :: e.done, i := e.i + 1, t := st1.rt } st1 := by
  unfold efLoopBody breakCond curArg at *
  simp only [hne, ↓reduceIte, hl, decide_true, true_and, hc, and_self, hf, ha]

def nextParen (e : EF) : Nat :=
  if e.t.kind = .TLPAREN then e.paren + 1 else if e.t.kind = .TRPAREN then e.paren - 1 else e.paren

def nextStr (e : EF) : List UInt8 :=
  if (e.m.params.getD e.i default).fstr then stringize e.str e.t else e.str

theorem efLoop_store (hne : e.t.kind ≠ .TEOF) (hl : st.depth ≤ e.depth) (hc : ¬ breakCond e)
    (hp : (e.m.params.getD e.i default).ftok = true) (sx st2 : St)
    (hx : rec (.expand e.t) st = .ok sx) (hrb : sx.rb = false)
    (ha : rec (.argLoop false) sx = .ok st2) :
    efLoopBody rec e st =
      rec (.efLoop { e with depth := st.depth, paren := nextParen e, str := nextStr e, cur := sx.rt :: e.cur,
                            t := st2.rt }) st2 := by
  unfold efLoopBody breakCond nextParen nextStr at *
  simp only [hne, ↓reduceIte, hl, decide_true, true_and, hc, hp, hx, hrb, Bool.false_eq_true, false_and, ha]

theorem efLoop_skip (hne : e.t.kind ≠ .TEOF) (hl : st.depth ≤ e.depth) (hc : ¬ breakCond e)
    (hp : (e.m.params.getD e.i default).ftok = false) (st2 : St)
    (ha : rec (.argLoop false) st = .ok st2) :
    efLoopBody rec e st =
      rec (.efLoop { e with depth := st.depth, paren := nextParen e, str := nextStr e, t := st2.rt }) st2 := by
  unfold efLoopBody breakCond nextParen nextStr at *
  simp only [hne, ↓reduceIte, hl, decide_true, true_and, hc, hp, Bool.false_eq_true, ha]

end shapes


/-! ## the refinement -/

/-- what `expandfunc` stores for parameter `p` given the tokens `a` of its argument -/
def mkArg (p : Param) (a : List Tok) : Arg :=
  ⟨if p.ftok then a.map paint else [], if p.fstr then strTok (stringizeAll a) else default⟩

/-- the locals of `expandfunc` hold what `collect`'s accumulators (`CUR`, `DONE`, last first) say -/
structure Refines (ps : List Param) (e : EF) (CUR : List Tok) (DONE : List (List Tok)) : Prop where
  params : e.m.params = ps
  cur : e.cur = if (ps.getD e.i default).ftok then CUR.map paint else []
  str : e.str = if (ps.getD e.i default).fstr then CUR.reverse.foldl stringize [c! '"'] else [c! '"']
  done : e.done = (List.zipWith mkArg ps DONE.reverse).reverse
  ndone : DONE.length = e.i

theorem zipWith_snoc (ps : List Param) (D : List (List Tok)) (a : List Tok) (h : D.length < ps.length) :
    List.zipWith mkArg ps (D ++ [a]) = List.zipWith mkArg ps D ++ [mkArg (ps.getD D.length default) a] := by
  induction ps generalizing D with
  | nil => simp at h
  | cons p r ih =>
    cases D with
    | nil => cases r <;> simp [List.zipWith]
    | cons d ds =>
      simp only [List.cons_append, List.zipWith_cons_cons, List.length_cons, List.getD_cons_succ]
      rw [ih ds (by simpa using h)]

theorem lift {k : Nat} {c : Call} {st : St} {r : Res} (h : exec k c st = r) (hr : r ≠ .error .fuel) (n : Nat)
    (hn : k ≤ n) : exec n c st = r := by
  obtain ⟨d, rfl⟩ := Nat.exists_eq_add_of_le hn
  rw [exec_mono k d c st (by rw [h]; exact hr), h]

theorem curArg_eq {ps : List Param} {e : EF} {CUR : List Tok} {DONE : List (List Tok)} (hr : Refines ps e CUR DONE) :
    curArg e = mkArg (ps.getD e.i default) CUR.reverse := by
  unfold curArg mkArg
  rw [hr.params, hr.cur, hr.str]
  congr 1
  · split <;> simp [List.map_reverse]
  · split
    · simp [stringizeAll]
    · rfl


/-- where the loop stands in the token list `L` that `collect` still has to read: the current token
is the head of `L` and the scanner holds the tail; at the end of `L` the current token is `TEOF` -/
def Cursor (e : EF) (st : St) (L : List Tok) : Prop :=
  (L = [] ∧ e.t = eofTok ∧ st.raw = []) ∨ (∃ t r, L = t :: r ∧ e.t = t ∧ st.raw = r)

/-- the fields argument collection never touches -/
def Same3 (a b : St) : Prop := a.events = b.events ∧ a.ppnl = b.ppnl ∧ a.prag = b.prag

theorem Same3.trans {a b c : St} (h1 : Same3 a b) (h2 : Same3 b c) : Same3 a c :=
  ⟨h1.1.trans h2.1, h1.2.1.trans h2.2.1, h1.2.2.trans h2.2.2⟩

/-- the outcome of `exec` on the inner loop, against the outcome of `collect` -/
def Agrees (ps : List Param) (name : Name) (st : St) (c : Call) (r : Except Err (List (List Tok) × List Tok)) : Prop :=
  match r with
  | .error err => ∃ n, exec n c st = .error err
  | .ok (args, rest) => ∃ n st', exec n c st = .ok st' ∧ st'.raw = rest ∧ st'.ctx = [] ∧
      st'.macros = setArgs st.macros name (List.zipWith mkArg ps args) ∧ st'.depth = st.depth ∧ Same3 st' st

theorem cursor_step {st : St} {r : List Tok} (n : Nat) (hctx : st.ctx = []) (hraw : st.raw = r)
    (hpl : ∀ t r', r = t :: r' → PlainTok st.macros t) :
    ∃ st1, exec (n + 4) (.argLoop false) st = .ok st1 ∧ st1.ctx = [] ∧ st1.macros = st.macros ∧
      st1.depth = st.depth ∧ Same3 st1 st ∧
      ((r = [] ∧ st1.rt = eofTok ∧ st1.raw = []) ∨ (∃ t r', r = t :: r' ∧ st1.rt = t ∧ st1.raw = r')) := by
  cases r with
  | nil =>
    exact ⟨_, argnext_eof n st hctx hraw, hctx, rfl, rfl, ⟨rfl, rfl, rfl⟩, .inl ⟨rfl, rfl, hraw⟩⟩
  | cons t r' =>
    exact ⟨_, argnext_plain n st hctx t r' hraw (hpl t r' rfl), hctx, rfl, rfl, ⟨rfl, rfl, rfl⟩,
      .inr ⟨t, r', rfl, rfl, rfl⟩⟩

theorem collect_ne_fuel (ps : List Param) : ∀ (L : List Tok) (i paren : Nat) (cur : List Tok) (done : List (List Tok)),
    collect ps i paren cur done L ≠ .error .fuel := by
  intro L
  induction L with
  | nil => intro i paren cur done h; simp [collect] at h
  | cons t r ih =>
    intro i paren cur done
    unfold collect
    split
    · split
      · split
        · intro h; cases h
        · split
          · intro h; cases h
          · intro h; cases h
      · exact ih _ _ _ _
    · exact ih _ _ _ _

/-- one iteration: if from some fuel on `exec (k+1) c st` is `exec k c2 st2`, and `st2` differs from `st`
only in what the loop consumed, agreement carries over -/
theorem agrees_step {ps : List Param} {name : Name} {st st2 : St} {c c2 : Call}
    {R : Except Err (List (List Tok) × List Tok)} (hR : R ≠ .error .fuel)
    (hstep : ∀ k, 4 ≤ k → exec (k + 1) c st = exec k c2 st2)
    (hm : st2.macros = st.macros) (hd : st2.depth = st.depth) (he : Same3 st2 st)
    (h : Agrees ps name st2 c2 R) : Agrees ps name st c R := by
  unfold Agrees at *
  cases R with
  | error err =>
    obtain ⟨n0, hn0⟩ := h
    have herr : (Except.error err : Res) ≠ .error .fuel := by
      intro hh; apply hR; cases hh; rfl
    refine ⟨max n0 4 + 1, ?_⟩
    rw [hstep _ (Nat.le_max_right ..)]
    exact lift hn0 herr _ (Nat.le_max_left ..)
  | ok x =>
    obtain ⟨args, rest⟩ := x
    obtain ⟨n0, st', hn0, h1, h2, h3, h4, h5⟩ := h
    refine ⟨max n0 4 + 1, st', ?_, h1, h2, by rw [h3, hm], by rw [h4, hd], h5.trans he⟩
    rw [hstep _ (Nat.le_max_right ..)]
    exact lift hn0 (by intro hh; cases hh) _ (Nat.le_max_left ..)

/-- the tokens `collect` looks at are plain: all of them when it rejects, those up to the closing
parenthesis when it accepts -/
def PlainFor (ms : List Macro) (L : List Tok) (res : Except Err (List (List Tok) × List Tok)) : Prop :=
  match res with
  | .ok (_, rest) => ∀ x ∈ L.take (L.length - rest.length), PlainTok ms x
  | .error _ => ∀ x ∈ L, PlainTok ms x

theorem plainFor_of_all {ms : List Macro} {L : List Tok} (h : ∀ x ∈ L, PlainTok ms x)
    (res : Except Err (List (List Tok) × List Tok)) : PlainFor ms L res := by
  unfold PlainFor
  cases res with
  | error e => exact h
  | ok x => intro y hy; exact h y (List.mem_of_mem_take hy)

theorem collect_rest_lt (ps : List Param) : ∀ (L : List Tok) (i paren : Nat) (cur : List Tok) (done args : List (List Tok))
    (rest : List Tok), collect ps i paren cur done L = .ok (args, rest) → rest.length < L.length := by
  intro L
  induction L with
  | nil => intro i paren cur done args rest h; simp [collect] at h
  | cons t r ih =>
    intro i paren cur done args rest h
    unfold collect at h
    split at h
    · split at h
      · split at h
        · cases h
        · split at h
          · cases h
          · cases h; simp
      · have := ih _ _ _ _ _ _ h; simp; omega
    · have := ih _ _ _ _ _ _ h; simp; omega

theorem plainFor_head {ms : List Macro} {ps : List Param} {t : Tok} {r : List Tok} {i paren : Nat} {cur : List Tok}
    {done : List (List Tok)} (h : PlainFor ms (t :: r) (collect ps i paren cur done (t :: r))) : PlainTok ms t := by
  unfold PlainFor at h
  cases hres : collect ps i paren cur done (t :: r) with
  | error e => rw [hres] at h; exact h t (List.mem_cons_self ..)
  | ok x =>
    obtain ⟨a, rest⟩ := x
    rw [hres] at h
    have := collect_rest_lt ps _ _ _ _ _ _ _ hres
    simp only [List.length_cons] at this
    apply h
    rw [show (t :: r).length - rest.length = (r.length - rest.length) + 1 by simp; omega]
    exact List.mem_cons_self ..

theorem plainFor_step {ms : List Macro} {ps : List Param} {t : Tok} {r : List Tok} {i paren i' paren' : Nat}
    {cur cur' : List Tok} {done done' : List (List Tok)}
    (heq : collect ps i paren cur done (t :: r) = collect ps i' paren' cur' done' r)
    (h : PlainFor ms (t :: r) (collect ps i paren cur done (t :: r))) :
    PlainFor ms r (collect ps i' paren' cur' done' r) ∧ (∀ t' r', r = t' :: r' → PlainTok ms t') := by
  rw [heq] at h
  unfold PlainFor at h ⊢
  cases hres : collect ps i' paren' cur' done' r with
  | error e =>
    rw [hres] at h
    exact ⟨fun x hx => h x (List.mem_cons_of_mem _ hx), fun t' r' hr => h t' (by rw [hr]; simp)⟩
  | ok x =>
    obtain ⟨a, rest⟩ := x
    rw [hres] at h
    have hlt := collect_rest_lt ps _ _ _ _ _ _ _ hres
    have hk : (t :: r).length - rest.length = (r.length - rest.length) + 1 := by simp; omega
    simp only at h ⊢
    rw [hk, List.take_succ_cons] at h
    refine ⟨fun x hx => h x (List.mem_cons_of_mem _ hx), ?_⟩
    intro t' r' hr
    apply h
    apply List.mem_cons_of_mem
    subst hr
    rw [show (t' :: r').length - rest.length = (r'.length - rest.length) + 1 by simp at hlt ⊢; omega]
    exact List.mem_cons_self ..

theorem efLoop_collect (ps : List Param) (name : Name) : ∀ (L : List Tok) (e : EF) (st : St) (CUR : List Tok)
    (DONE : List (List Tok)), Refines ps e CUR DONE → e.m.name = name → st.ctx = [] → st.depth ≤ e.depth →
    e.i < ps.length → PlainFor st.macros L (collect ps e.i e.paren CUR DONE L) → Cursor e st L →
    Agrees ps name st (.efLoop e) (collect ps e.i e.paren CUR DONE L) := by
  intro L
  induction L with
  | nil =>
    intro e st CUR DONE hr hname hctx hl hi hpl hcur
    rcases hcur with ⟨_, het, _⟩ | ⟨t, r, h, _⟩
    · simp only [collect, Agrees]
      refine ⟨1, ?_⟩
      show efLoopBody (exec 0) e st = _
      unfold efLoopBody
      simp [het, eofTok]
    · cases h
  | cons t r ih =>
    intro e st CUR DONE hr hname hctx hl hi hpl hcur
    rcases hcur with ⟨h, _, _⟩ | ⟨t', r', h, het, hraw⟩
    · cases h
    · cases h
      have hpt : PlainTok st.macros t := plainFor_head hpl
      have hne : e.t.kind ≠ .TEOF := by rw [het]; exact hpt.2.2.2.1
      have hparams := hr.params
      have hnf := collect_ne_fuel ps (t :: r) e.i e.paren CUR DONE
      by_cases hc : breakCond e
      · -- the argument for the current parameter ends here
        have hc' : e.paren = 0 ∧ (t.kind = .TRPAREN ∨ (t.kind = .TCOMMA ∧ (ps.getD e.i default).fvar = false)) := by
          unfold breakCond at hc; rw [het, hparams] at hc; exact hc
        by_cases hf : e.t.kind = .TRPAREN ∨ e.i + 1 = e.m.params.length
        · have hf' : t.kind = .TRPAREN ∨ e.i + 1 = ps.length := by rw [het, hparams] at hf; exact hf
          have hbody : exec 1 (.efLoop e) st = efFinish { e with depth := st.depth, done := curArg e :: e.done } st :=
            efLoop_finish (exec 0) e st hne hl hc hf
          unfold collect
          simp only [hc', and_self, ↓reduceIte, hf']
          unfold efFinish at hbody
          simp only [hparams, het] at hbody
          by_cases h1 : e.i + 1 < ps.length
          · simp only [h1, ↓reduceIte] at hbody ⊢
            exact ⟨1, hbody⟩
          · simp only [h1, ↓reduceIte] at hbody ⊢
            by_cases h2 : t.kind ≠ .TRPAREN
            · simp only [h2, ne_eq, not_false_eq_true, ↓reduceIte] at hbody ⊢
              exact ⟨1, hbody⟩
            · simp only [h2, ↓reduceIte] at hbody ⊢
              refine ⟨1, _, hbody, hraw, hctx, ?_, rfl, ⟨rfl, rfl, rfl⟩⟩
              simp only [hname, List.reverse_cons]
              rw [zipWith_snoc ps DONE.reverse CUR.reverse (by simp [hr.ndone, hi]), hr.done, curArg_eq hr]
              simp [hr.ndone]
        · have hf' : ¬ (t.kind = .TRPAREN ∨ e.i + 1 = ps.length) := by rw [het, hparams] at hf; exact hf
          have hi2 : e.i + 1 < ps.length := by
            have : e.i + 1 ≠ ps.length := fun hh => hf' (.inr hh)
            omega
          have heq : collect ps e.i e.paren CUR DONE (t :: r) = collect ps (e.i + 1) 0 [] (CUR.reverse :: DONE) r := by
            rw [collect]; simp only [hc', and_self, ↓reduceIte, hf']
          obtain ⟨hpfr, hplr⟩ := plainFor_step heq hpl
          rw [heq]
          -- the state after the `argnext` that follows the comma
          obtain ⟨st1, _, hc1, hm1, hd1, he1, hcur1⟩ := cursor_step 0 hctx hraw hplr
          let e3 : EF := { e with depth := st.depth, done := curArg e :: e.done, i := e.i + 1, t := st1.rt,
                                  cur := [], str := [c! '"'] }
          have hstep : ∀ k, 4 ≤ k → exec (k + 1) (.efLoop e) st = exec k (.efLoop e3) st1 := by
            intro k hk
            obtain ⟨d, rfl⟩ := Nat.exists_eq_add_of_le hk
            obtain ⟨st1', ha, _, _, _, _, hcur1'⟩ := cursor_step d hctx hraw hplr
            have hsame : st1' = st1 := by
              have h1 := lift ha (by intro hh; cases hh) (4 + d) (by omega)
              rename_i hst1 _ _ _ _
              have h2 := lift hst1 (by intro hh; cases hh) (4 + d) (by omega)
              rw [h1] at h2; cases h2; rfl
            subst hsame
            show efLoopBody (exec (4 + d)) e st = _
            rw [efLoop_nextarg (exec (4 + d)) e st hne hl hc hf st1' (by rw [Nat.add_comm]; exact ha)]
            unfold efStart
            simp only [hparams, hi2, ↓reduceIte]
            rfl
          apply agrees_step (by exact collect_ne_fuel ps r _ _ _ _) hstep hm1 hd1 he1
          have hr3 : Refines ps e3 [] (CUR.reverse :: DONE) := by
            refine ⟨hparams, by simp [e3], by simp [e3], ?_, by simp [e3, hr.ndone]⟩
            show curArg e :: e.done = _
            rw [List.reverse_cons, zipWith_snoc ps DONE.reverse CUR.reverse (by simp [hr.ndone, hi]),
              List.reverse_append, hr.done, curArg_eq hr]
            simp [hr.ndone]
          have := ih e3 st1 [] (CUR.reverse :: DONE) hr3 hname hc1 (by show st1.depth ≤ st.depth; omega)
            hi2 (by show PlainFor st1.macros r (collect ps (e.i + 1) e.paren [] (CUR.reverse :: DONE) r)
                    rw [hm1, hc'.1]; exact hpfr) hcur1
          simpa [e3, hc'.1] using this
      · -- the token belongs to the argument
        have hc' : ¬ (e.paren = 0 ∧ (t.kind = .TRPAREN ∨ (t.kind = .TCOMMA ∧ (ps.getD e.i default).fvar = false))) := by
          unfold breakCond at hc; rw [het, hparams] at hc; exact hc
        have heq : collect ps e.i e.paren CUR DONE (t :: r) = collect ps e.i
            (if t.kind = .TLPAREN then e.paren + 1 else if t.kind = .TRPAREN then e.paren - 1 else e.paren) (t :: CUR) DONE r := by
          rw [collect]; simp only [hc', ↓reduceIte]
        obtain ⟨hpfr, hplr⟩ := plainFor_step heq hpl
        rw [heq]
        have hparen : nextParen e = (if t.kind = .TLPAREN then e.paren + 1 else if t.kind = .TRPAREN then e.paren - 1 else e.paren) := by
          unfold nextParen; rw [het]
        have hstr : nextStr e = if (ps.getD e.i default).fstr then (t :: CUR).reverse.foldl stringize [c! '"'] else [c! '"'] := by
          unfold nextStr
          rw [hparams, hr.str, het]
          split <;> simp [List.foldl_append]
        by_cases hp : (e.m.params.getD e.i default).ftok = true
        · -- stored (after `expand` has declined it)
          have hp' : (ps.getD e.i default).ftok = true := by rw [← hparams]; exact hp
          let sx : St := { st with rb := false, rt := paint t }
          have hplx : ∀ t' r', r = t' :: r' → PlainTok sx.macros t' := hplr
          obtain ⟨st2, hst2, hc2, hm2, hd2, he2, hcur2⟩ := cursor_step 0 (st := sx) hctx hraw hplx
          let e4 : EF := { e with depth := st.depth, paren := nextParen e, str := nextStr e, cur := paint t :: e.cur,
                                  t := st2.rt }
          have hstep : ∀ k, 4 ≤ k → exec (k + 1) (.efLoop e) st = exec k (.efLoop e4) st2 := by
            intro k hk
            obtain ⟨d, rfl⟩ := Nat.exists_eq_add_of_le hk
            obtain ⟨st2', ha, _, _, _, _, _⟩ := cursor_step d (st := sx) hctx hraw hplx
            have hsame : st2' = st2 := by
              have h1 := lift ha (by intro hh; cases hh) (4 + d) (by omega)
              have h2 := lift hst2 (by intro hh; cases hh) (4 + d) (by omega)
              rw [h1] at h2; cases h2; rfl
            subst hsame
            show efLoopBody (exec (4 + d)) e st = _
            have hx : exec (4 + d) (.expand e.t) st = .ok sx := by
              rw [het, show 4 + d = (3 + d) + 1 by omega]; exact expand_plain (3 + d) t st hpt
            rw [efLoop_store (exec (4 + d)) e st hne hl hc hp sx st2' hx rfl (by rw [Nat.add_comm]; exact ha)]
          apply agrees_step (collect_ne_fuel ps r _ _ _ _) hstep hm2 hd2 he2
          have hr4 : Refines ps e4 (t :: CUR) DONE := by
            refine ⟨hparams, ?_, ?_, hr.done, hr.ndone⟩
            · show paint t :: e.cur = if (ps.getD e.i default).ftok = true then List.map paint (t :: CUR) else []
              rw [hr.cur, if_pos hp', if_pos hp']; rfl
            · show nextStr e = if (ps.getD e.i default).fstr = true then List.foldl stringize [c! '"'] (t :: CUR).reverse else [c! '"']
              exact hstr
          have := ih e4 st2 (t :: CUR) DONE hr4 hname hc2 (by show st2.depth ≤ st.depth; rw [hd2]; exact Nat.le_refl _)
            hi (by show PlainFor st2.macros r (collect ps e.i (nextParen e) (t :: CUR) DONE r)
                   rw [hm2, hparen]; exact hpfr) hcur2
          simpa [e4, hparen] using this
        · -- not stored (the parameter is not used plainly)
          have hp0 : (e.m.params.getD e.i default).ftok = false := by
            cases h : (e.m.params.getD e.i default).ftok <;> simp_all
          have hp' : (ps.getD e.i default).ftok = false := by rw [← hparams]; exact hp0
          obtain ⟨st2, hst2, hc2, hm2, hd2, he2, hcur2⟩ := cursor_step 0 hctx hraw hplr
          let e4 : EF := { e with depth := st.depth, paren := nextParen e, str := nextStr e, t := st2.rt }
          have hstep : ∀ k, 4 ≤ k → exec (k + 1) (.efLoop e) st = exec k (.efLoop e4) st2 := by
            intro k hk
            obtain ⟨d, rfl⟩ := Nat.exists_eq_add_of_le hk
            obtain ⟨st2', ha, _, _, _, _, _⟩ := cursor_step d hctx hraw hplr
            have hsame : st2' = st2 := by
              have h1 := lift ha (by intro hh; cases hh) (4 + d) (by omega)
              have h2 := lift hst2 (by intro hh; cases hh) (4 + d) (by omega)
              rw [h1] at h2; cases h2; rfl
            subst hsame
            show efLoopBody (exec (4 + d)) e st = _
            rw [efLoop_skip (exec (4 + d)) e st hne hl hc hp0 st2' (by rw [Nat.add_comm]; exact ha)]
          apply agrees_step (collect_ne_fuel ps r _ _ _ _) hstep hm2 hd2 he2
          have hr4 : Refines ps e4 (t :: CUR) DONE := by
            refine ⟨hparams, ?_, ?_, hr.done, hr.ndone⟩
            · show e.cur = if (ps.getD e.i default).ftok = true then List.map paint (t :: CUR) else []
              have hnt : ¬ ((ps.getD e.i default).ftok = true) := by rw [hp']; decide
              rw [hr.cur, if_neg hnt, if_neg hnt]
            · show nextStr e = if (ps.getD e.i default).fstr = true then List.foldl stringize [c! '"'] (t :: CUR).reverse else [c! '"']
              exact hstr
          have := ih e4 st2 (t :: CUR) DONE hr4 hname hc2 (by show st2.depth ≤ st.depth; rw [hd2]; exact Nat.le_refl _)
            hi (by show PlainFor st2.macros r (collect ps e.i (nextParen e) (t :: CUR) DONE r)
                   rw [hm2, hparen]; exact hpfr) hcur2
          simpa [e4, hparen] using this


/-- **`expandfunc` runs `collect`** on a plain invocation of a macro with at least one parameter:
same verdict, same tokens consumed, and the stored arguments are `mkArg` of what `collect` cut out. -/
theorem expandfunc_collect (m : Macro) (st : St) (hctx : st.ctx = [])
    (hpl : PlainFor st.macros st.raw (collect m.params 0 0 [] [] st.raw)) (hne : 0 < m.params.length) :
    Agrees m.params m.name st (.expandfunc m) (collect m.params 0 0 [] [] st.raw) := by
  have hhead : ∀ t r', st.raw = t :: r' → PlainTok st.macros t := by
    intro t r' hr; rw [hr] at hpl; exact plainFor_head hpl
  obtain ⟨st1, hst1, hc1, hm1, hd1, he1, hcur1⟩ := cursor_step 0 hctx rfl hhead
  let e0 : EF := { m := m, i := 0, depth := st.depth, paren := 0, t := st1.rt, done := [], cur := [], str := [c! '"'] }
  have hstep : ∀ k, 4 ≤ k → exec (k + 1) (.expandfunc m) st = exec k (.efLoop e0) st1 := by
    intro k hk
    obtain ⟨d, rfl⟩ := Nat.exists_eq_add_of_le hk
    obtain ⟨st1', ha, _, _, _, _, _⟩ := cursor_step d hctx rfl hhead
    have hsame : st1' = st1 := by
      have h1 := lift ha (by intro hh; cases hh) (4 + d) (by omega)
      have h2 := lift hst1 (by intro hh; cases hh) (4 + d) (by omega)
      rw [h1] at h2; cases h2; rfl
    subst hsame
    show expandfuncBody (exec (4 + d)) m st = _
    unfold expandfuncBody
    rw [show exec (4 + d) (.argLoop false) st = .ok st1' by rw [Nat.add_comm]; exact ha]
    simp only
    unfold efStart
    simp only [hne, ↓reduceIte]
    rfl
  apply agrees_step (collect_ne_fuel _ _ _ _ _ _) hstep hm1 hd1 he1
  have hr0 : Refines m.params e0 [] [] := by
    refine ⟨rfl, ?_, ?_, ?_, rfl⟩
    · show ([] : List Tok) = _; split <;> rfl
    · show [c! '"'] = _; split <;> rfl
    · show ([] : List Arg) = _; simp
  have hcur : Cursor e0 st1 st.raw := by
    rcases hcur1 with ⟨h1, h2, h3⟩ | ⟨t, r', h1, h2, h3⟩
    · exact .inl ⟨h1, h2, h3⟩
    · exact .inr ⟨t, r', h1, h2, h3⟩
  exact efLoop_collect m.params m.name st.raw e0 st1 [] [] hr0 rfl hc1 (by show st1.depth ≤ st.depth; omega) hne
    (by show PlainFor st1.macros st.raw (collect m.params 0 0 [] [] st.raw); rw [hm1]; exact hpl) hcur

end CprocVerif.PP

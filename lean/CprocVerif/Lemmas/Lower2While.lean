/-
  C01, fragment 𝔽₂ — `while` (stmt.c `case TWHILE`): `while_cond`, controlling expression, `funcjnz` to
  `while_body`/`while_join`, the body with `break` → `while_join`, `continue` → `while_cond`, `jmp` back.
-/
import CprocVerif.Lemmas.Lower2If

set_option linter.unusedSimpArgs false

namespace CprocVerif.LowerMach2
open CprocVerif.Qbe CprocVerif.Lower CprocVerif.Lower2 CprocVerif.CSem CprocVerif.CSem2 CprocVerif.CInt
open CprocVerif.LowerArith CprocVerif.LowerMach CprocVerif.LowerMem

theorem addBlocks_zero (c : SCtx) : c.addBlocks 0 = c := rfl

section
variable (T : Stat) {s : Store} {out : CSem2.Outcome} {lp : Bool × Bool} {brk cont : String} {c : SCtx}
  {nd nd' : Nat} {pre post : List Item} {env : Env} {M : Mem}

theorem sim_while (n : Nat) (hc : ∀ m, m ≤ n → CallOK T m) (ih : ∀ m, m ≤ n → SimStmt T m) (e : Expr3)
    (b : Stmt)
    (hex : exec T.S.cs T.P (n + 1) s (.while_ e b) = some out) (hfr : frag T.P T.cnts T.W (.while_ e b) = true)
    (hwt : Stmt.wt T.vtys T.ret lp.1 lp.2 nd (.while_ e b) = some nd') (hp : Pos T c nd pre)
    (hext : Ext T (funcstmt T.S.cs brk cont (.while_ e b) c).ctx)
    (hits : T.S.its = pre ++ (funcstmt T.S.cs brk cont (.while_ e b) c).items ++ post)
    (inv : SInv T.M0 T.S.cs T.cnts T.W T.σ T.vtys s env M) :
    Post T lp brk cont (T.at env M pre) (pre ++ (funcstmt T.S.cs brk cont (.while_ e b) c).items)
      (funcstmt T.S.cs brk cont (.while_ e b) c).ctx out := by
  simp only [frag, Bool.and_eq_true] at hfr
  have hfe : efrag T e := by simp only [efrag, Bool.and_eq_true]; exact hfr.1
  have hfr := hfr.2
  simp only [Stmt.wt] at hwt
  split at hwt
  · rename_i hwe
    have hwe := hwe.1
    obtain ⟨hnb, hcb⟩ := wt_noDead _ _ b _ _ _ _ hwt
    have hj1 : ((c.addBlocks 3).atLabel (lblName "while_cond" (c.blockid + 1))).jump = none := rfl
    have hj2 : (((c.addBlocks 3).atLabel (lblName "while_cond" (c.blockid + 1))).upd
      (exprOut3 T.S.cs ((c.addBlocks 3).atLabel (lblName "while_cond" (c.blockid + 1))) e).ctx).jump = none := rfl
    simp only [funcstmt, lowerE3_eq T.S.cs hj1, lowerJnz_eq T.S.cs hj2] at hext hits ⊢
    have ge := exprOut3_good T.S.cs ((c.addBlocks 3).atLabel (lblName "while_cond" (c.blockid + 1))) e
    generalize hoe : exprOut3 T.S.cs ((c.addBlocks 3).atLabel (lblName "while_cond" (c.blockid + 1))) e = oe
      at *
    have sj := jnzArg_straight T.S.cs (((c.addBlocks 3).atLabel (lblName "while_cond" (c.blockid + 1))).upd
      oe.ctx).ctx e.ty oe.val
    change Straight _ (jnzOut T.S.cs (((c.addBlocks 3).atLabel (lblName "while_cond" (c.blockid + 1))).upd
      oe.ctx) e.ty oe.val) at sj
    generalize hoj : jnzOut T.S.cs (((c.addBlocks 3).atLabel (lblName "while_cond" (c.blockid + 1))).upd
      oe.ctx) e.ty oe.val = oj at *
    have gb := funcstmt_good T.S.cs b (lblName "while_join" (c.blockid + 3)) (lblName "while_cond" (c.blockid + 1))
      (((((c.addBlocks 3).atLabel (lblName "while_cond" (c.blockid + 1))).upd oe.ctx).upd oj.ctx).atLabel
        (lblName "while_body" (c.blockid + 2))) rfl hnb
    generalize hob : funcstmt T.S.cs (lblName "while_join" (c.blockid + 3)) (lblName "while_cond" (c.blockid + 1))
      b (((((c.addBlocks 3).atLabel (lblName "while_cond" (c.blockid + 1))).upd oe.ctx).upd oj.ctx).atLabel
        (lblName "while_body" (c.blockid + 2))) = ob at *
    have hextb : Ext T ob.ctx := hext.congr rfl rfl
    have hextc : Ext T ((((c.addBlocks 3).atLabel (lblName "while_cond" (c.blockid + 1))).upd oe.ctx).upd
      oj.ctx) := (hextb.first gb).congr rfl rfl
    -- the items
    have hits1 := hits
    simp only [List.append_assoc, List.singleton_append, List.cons_append, List.nil_append, labelItem,
      hp.jump, setJump_jump] at hits1
    have hits0 : T.S.its = pre ++ .lbl none (lblName "while_cond" (c.blockid + 1)) [] ::
        (oe.items ++ (oj.items ++ .lbl (some (.jnz oj.val (lblName "while_body" (c.blockid + 2))
          (lblName "while_join" (c.blockid + 3)))) (lblName "while_body" (c.blockid + 2)) [] ::
          (ob.items ++ .lbl (some (ob.ctx.jump.getD (.jmp (lblName "while_cond" (c.blockid + 1)))))
            (lblName "while_join" (c.blockid + 3)) [] :: post))) := hits1
    have hitsb : T.S.its = (pre ++ [.lbl none (lblName "while_cond" (c.blockid + 1)) []]) ++ oe.items ++
        oj.items ++ .lbl (some (.jnz oj.val (lblName "while_body" (c.blockid + 2))
          (lblName "while_join" (c.blockid + 3)))) (lblName "while_body" (c.blockid + 2)) [] ::
          (ob.items ++ .lbl (some (ob.ctx.jump.getD (.jmp (lblName "while_cond" (c.blockid + 1)))))
            (lblName "while_join" (c.blockid + 3)) [] :: post) := by
      rw [hits0]; simp only [List.append_assoc, List.singleton_append, List.cons_append, List.nil_append]
    have hits2 : T.S.its = ((pre ++ [.lbl none (lblName "while_cond" (c.blockid + 1)) []]) ++ oe.items ++
        oj.items ++ [.lbl (some (.jnz oj.val (lblName "while_body" (c.blockid + 2))
          (lblName "while_join" (c.blockid + 3)))) (lblName "while_body" (c.blockid + 2)) []] ++ ob.items) ++
          .lbl (some (ob.ctx.jump.getD (.jmp (lblName "while_cond" (c.blockid + 1)))))
            (lblName "while_join" (c.blockid + 3)) [] :: post := by
      rw [hits0]; simp only [List.append_assoc, List.singleton_append, List.cons_append, List.nil_append]
    have hcc : CanJump T.S (lblName "while_cond" (c.blockid + 1)) := canJump_item T.S hits0
    have hcb' : CanJump T.S (lblName "while_body" (c.blockid + 2)) := canJump_item T.S hitsb
    have hcj : CanJump T.S (lblName "while_join" (c.blockid + 3)) := canJump_item T.S hits2
    have l1 := ge.lastid; have l2 := sj.lastid; have b1 := ge.blockid; have b2 := sj.blockid
    unf at l1 l2 b1 b2
    have hpc : Pos T ((c.addBlocks 3).atLabel (lblName "while_cond" (c.blockid + 1))) nd
        (pre ++ [.lbl none (lblName "while_cond" (c.blockid + 1)) []]) := by
      refine ⟨rfl, curOf_lbl _ _ _ _ _, ?_, hp.nslots, hp.le⟩
      unf
      exact curOK_label "while_cond" _ _ _ (by omega)
    have hpb : Pos T (((((c.addBlocks 3).atLabel (lblName "while_cond" (c.blockid + 1))).upd oe.ctx).upd
        oj.ctx).atLabel (lblName "while_body" (c.blockid + 2))) nd
        ((pre ++ [.lbl none (lblName "while_cond" (c.blockid + 1)) []]) ++ oe.items ++ oj.items ++
          [.lbl (some (.jnz oj.val (lblName "while_body" (c.blockid + 2))
            (lblName "while_join" (c.blockid + 3)))) (lblName "while_body" (c.blockid + 2)) []]) := by
      refine ⟨rfl, curOf_lbl _ _ _ _ _, ?_, hp.nslots, ?_⟩
      · unf
        exact curOK_label "while_body" _ _ _ (by omega)
      · intro i hi
        have := hp.le i hi
        unf
        omega
    have hitsbody : T.S.its = ((pre ++ [.lbl none (lblName "while_cond" (c.blockid + 1)) []]) ++ oe.items ++
        oj.items ++ [.lbl (some (.jnz oj.val (lblName "while_body" (c.blockid + 2))
          (lblName "while_join" (c.blockid + 3)))) (lblName "while_body" (c.blockid + 2)) []]) ++ ob.items ++
          (.lbl (some (ob.ctx.jump.getD (.jmp (lblName "while_cond" (c.blockid + 1)))))
            (lblName "while_join" (c.blockid + 3)) [] :: post) := by
      rw [hits2]
    -- iterations, entered at `while_cond`
    have hQ : ∀ k, k ≤ n → ∀ (s : Store) (env : Env) (M : Mem) (out : CSem2.Outcome),
        exec T.S.cs T.P (k + 1) s (.while_ e b) = some out → SInv T.M0 T.S.cs T.cnts T.W T.σ T.vtys s env M →
        Done T lp brk cont (T.at env M (pre ++ [.lbl none (lblName "while_cond" (c.blockid + 1)) []]))
          (((pre ++ [.lbl none (lblName "while_cond" (c.blockid + 1)) []]) ++ oe.items ++
            oj.items ++ [.lbl (some (.jnz oj.val (lblName "while_body" (c.blockid + 2))
            (lblName "while_join" (c.blockid + 3)))) (lblName "while_body" (c.blockid + 2)) []] ++ ob.items) ++
            [.lbl (some (ob.ctx.jump.getD (.jmp (lblName "while_cond" (c.blockid + 1)))))
              (lblName "while_join" (c.blockid + 3)) []]) out := by
      intro k
      induction k with
      | zero =>
        intro _ s env M out hex inv
        simp only [exec, Option.bind_eq_some_iff] at hex
        obtain ⟨v, hev, hex⟩ := hex
        obtain ⟨k1, env1, st, hreach, inv1, hat⟩ := sim_branch T 0 (hc 0 (Nat.zero_le _)) hpc e 0
          (by rw [hoe, addBlocks_zero, hoj]; exact hextc) hwe hfe hev
          (by rw [hoe, addBlocks_zero, hoj]; exact hitsb) hcb' hcj inv
        by_cases hv0 : v = 0
        · rw [if_pos hv0] at hex
          simp only [Option.some.injEq] at hex
          subst hex
          rw [if_neg (by simpa using hv0)] at hat
          have hst := atLabel_item T hits2 hat
          subst hst
          exact ⟨k1, env1, M, hreach, inv1⟩
        · rw [if_neg hv0] at hex
          first | cases hex | (simp only [exec] at hex; cases hex)
      | succ k ihk =>
        intro hk s env M out hex inv
        simp only [exec, Option.bind_eq_some_iff] at hex
        obtain ⟨v, hev, hex⟩ := hex
        obtain ⟨k1, env1, st, hreach, inv1, hat⟩ := sim_branch T (k + 1) (hc (k + 1) hk) hpc e 0
          (by rw [hoe, addBlocks_zero, hoj]; exact hextc) hwe hfe hev
          (by rw [hoe, addBlocks_zero, hoj]; exact hitsb) hcb' hcj inv
        by_cases hv0 : v = 0
        · rw [if_pos hv0] at hex
          simp only [Option.some.injEq] at hex
          subst hex
          rw [if_neg (by simpa using hv0)] at hat
          have hst := atLabel_item T hits2 hat
          subst hst
          exact ⟨k1, env1, M, hreach, inv1⟩
        · rw [if_neg hv0] at hex
          rw [if_pos hv0] at hat
          have hst := atLabel_item T hitsb hat
          subst hst
          cases heb : exec T.S.cs T.P (k + 1) s b with
          | none => rw [heb] at hex; cases hex
          | some ob' =>
            rw [heb] at hex
            have pb := ih (k + 1) hk b s ob' (true, true) (lblName "while_join" (c.blockid + 3))
              (lblName "while_cond" (c.blockid + 1)) _ nd nd' _ _ env1 M heb hfr hwt hpb
              (by rw [hob]; exact hextb) (by rw [hob]; exact hitsbody) ⟨fun _ => hcj, fun _ => hcc⟩ inv1
            rw [hob] at pb
            have cj := pb.closeJmp hits2 ⟨fun _ => hcj, fun _ => hcc⟩ hcc
            cases ob' with
            | normal s' =>
              simp only at hex
              obtain ⟨k2, env', M', st', hr2, hat', inv'⟩ := cj
              have hst := atLabel_item T hits0 hat'
              subst hst
              exact (ihk (by omega) s' env' M' out hex inv').prepend (hreach.trans hr2)
            | cont s' =>
              simp only at hex
              obtain ⟨_, k2, env', M', st', inv', hr2, hat'⟩ := cj
              have hst := atLabel_item T hits0 hat'
              subst hst
              exact (ihk (by omega) s' env' M' out hex inv').prepend (hreach.trans hr2)
            | brk s' =>
              simp only [Option.some.injEq] at hex
              subst hex
              obtain ⟨_, k2, env', M', st', inv', hr2, hat'⟩ := cj
              have hst := atLabel_item T hits2 hat'
              subst hst
              exact ⟨k1 + k2, env', M', hreach.trans hr2, inv'⟩
            | ret w =>
              simp only [Option.some.injEq] at hex
              subst hex
              obtain ⟨hrg, k2, st', r, hr2, hs2, hrr⟩ := cj
              exact ⟨hrg, k1 + k2, st', r, hreach.trans hr2, hs2, hrr⟩
    -- entering the loop
    have hstep := step_fall_item T hits0 env M
    have dn := (hQ n (Nat.le_refl _) s env M out hex inv).prepend (Reach.one hstep)
    have := dn.post (o := ob.ctx.atLabel (lblName "while_join" (c.blockid + 3))) rfl
    simp only [List.append_assoc, List.singleton_append, List.cons_append, List.nil_append, labelItem,
      hp.jump, setJump_jump] at this ⊢
    exact this
  · cases hwt

end

end CprocVerif.LowerMach2

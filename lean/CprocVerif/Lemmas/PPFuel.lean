import CprocVerif.Model.PP

/-! # More fuel never changes a completed result

`Ext f g`: wherever `f` completes (with a state or with a diagnostic other than `fuel`), `g` gives
the same.  Every body is monotone in its recursive entry with respect to `Ext`, hence
`Ext (exec n) (exec (n + k))`. -/

namespace CprocVerif.PP
open CprocVerif.Gen.TokenKinds

def Ext (f g : Call → St → Res) : Prop := ∀ c st, f c st ≠ .error .fuel → g c st = f c st

section
variable {f g : Call → St → Res} (h : Ext f g)
include h

theorem rawnext_mono (st : St) : rawnextBody f st ≠ .error .fuel → rawnextBody g st = rawnextBody f st := by
  unfold rawnextBody Ext at *; grind

theorem ctxnext_mono (st : St) : ctxnextBody f st ≠ .error .fuel → ctxnextBody g st = ctxnextBody f st := by
  unfold ctxnextBody Ext at *; grind

theorem nextinto_mono (st : St) : nextintoBody f st ≠ .error .fuel → nextintoBody g st = nextintoBody f st := by
  unfold nextintoBody Ext at *; grind

theorem argLoop_mono (s : Bool) (st : St) :
    argLoopBody f s st ≠ .error .fuel → argLoopBody g s st = argLoopBody f s st := by
  unfold argLoopBody Ext at *; grind

theorem peekparen_mono (st : St) : peekparenBody f st ≠ .error .fuel → peekparenBody g st = peekparenBody f st := by
  unfold peekparenBody Ext at *; grind

theorem peekLoop_mono (p : List Tok) (st : St) :
    peekLoopBody f p st ≠ .error .fuel → peekLoopBody g p st = peekLoopBody f p st := by
  unfold peekLoopBody Ext at *; grind

theorem call_ext (c : Call) (st : St) (K K' : St → Res)
    (hK : ∀ s, K s ≠ .error .fuel → K' s = K s) :
    (match f c st with | .error e => (Except.error e : Res) | .ok s => K s) ≠ .error .fuel →
    (match g c st with | .error e => (Except.error e : Res) | .ok s => K' s) =
      (match f c st with | .error e => (Except.error e : Res) | .ok s => K s) := by
  intro hne
  have h1 := h c st
  cases hf : f c st with
  | error e =>
    rw [hf] at hne h1
    rw [h1 (by intro hh; cases hh; exact hne rfl)]
  | ok s1 =>
    rw [hf] at hne h1
    rw [h1 (by intro hh; cases hh)]
    exact hK s1 hne

theorem expand_mono (t : Tok) (st : St) :
    expandBody f t st ≠ .error .fuel → expandBody g t st = expandBody f t st := by
  unfold expandBody
  split
  · intro _; rfl
  · split
    · intro _; rfl
    · rename_i m hm
      generalize (if m.hide = true then ({ t with hide := true } : Tok) else t) = t1
      simp only
      by_cases hh : t1.hide = true
      · simp only [hh, ↓reduceIte]; intro _; trivial
      · simp only [hh]
        by_cases hfun : m.func = true
        · simp only [hfun, ↓reduceIte, Bool.false_eq_true]
          apply call_ext h
          intro s1
          split
          · intro _; rfl
          · apply call_ext h
            intro s2 _; rfl
        · simp only [hfun, ↓reduceIte, Bool.false_eq_true]; intro _; trivial

theorem efStart_mono (e : EF) (st : St) : efStart f e st ≠ .error .fuel → efStart g e st = efStart f e st := by
  unfold efStart Ext at *; grind

theorem expandfunc_mono (m : Macro) (st : St) :
    expandfuncBody f m st ≠ .error .fuel → expandfuncBody g m st = expandfuncBody f m st := by
  have hs := @efStart_mono f g h
  unfold expandfuncBody Ext at *; grind

theorem efLoop_mono (e : EF) (st : St) :
    efLoopBody f e st ≠ .error .fuel → efLoopBody g e st = efLoopBody f e st := by
  have hs := @efStart_mono f g h
  unfold efLoopBody Ext at *; grind (splits := 40)

theorem directive_mono (st : St) : directiveBody f st ≠ .error .fuel → directiveBody g st = directiveBody f st := by
  unfold directiveBody Ext at *; grind (splits := 60)

theorem pragmaLoop_mono (st : St) :
    pragmaLoopBody f st ≠ .error .fuel → pragmaLoopBody g st = pragmaLoopBody f st := by
  unfold pragmaLoopBody Ext at *; grind

theorem next_mono (st : St) : nextBody f st ≠ .error .fuel → nextBody g st = nextBody f st := by
  unfold nextBody Ext at *; grind

theorem body_mono : Ext (body f) (body g) := by
  intro c st
  cases c <;> simp only [body]
  · exact next_mono h st
  · exact rawnext_mono h st
  · exact ctxnext_mono h st
  · exact nextinto_mono h st
  · exact directive_mono h st
  · exact pragmaLoop_mono h st
  · exact peekparen_mono h st
  · exact peekLoop_mono h _ st
  · exact expand_mono h _ st
  · exact argLoop_mono h _ st
  · exact expandfunc_mono h _ st
  · exact efLoop_mono h _ st

end

theorem exec_succ_ext : ∀ n, Ext (exec n) (exec (n + 1))
  | 0 => by intro c st hne; exact absurd rfl hne
  | n + 1 => by
    have ih := exec_succ_ext n
    intro c st hne
    show body (exec (n + 1)) c st = body (exec n) c st
    exact body_mono ih c st hne

/-- **Fuel monotonicity**: if `exec` completes with `n` units of fuel — with a state, or with any
diagnostic other than "out of fuel" — it gives the same result with any larger amount. -/
theorem exec_mono (n k : Nat) (c : Call) (st : St) (h : exec n c st ≠ .error .fuel) :
    exec (n + k) c st = exec n c st := by
  induction k with
  | zero => rfl
  | succ k ih =>
    have := exec_succ_ext (n + k) c st (by rw [ih]; exact h)
    rw [← Nat.add_assoc, this, ih]

/-- the same for the whole token stream: a run that ends without "out of fuel" is the run with
any larger amount of fuel -/
theorem run_succ (n : Nat) (st : St) (h : (run n st).2 ≠ some .fuel) : run (n + 1) st = run n st := by
  induction n generalizing st with
  | zero => exact absurd rfl h
  | succ n ih =>
    unfold run at h ⊢
    cases hx : exec n .next st with
    | error e =>
      rw [hx] at h
      have hne : exec n .next st ≠ .error .fuel := by
        rw [hx]; intro hh; cases hh; exact h rfl
      have := exec_succ_ext n .next st hne
      rw [this, hx]
    | ok st1 =>
      rw [hx] at h
      have := exec_succ_ext n .next st (by rw [hx]; intro hh; cases hh)
      rw [this, hx]
      simp only at h ⊢
      split
      · rfl
      · rename_i hk
        simp only [hk, ↓reduceIte] at h
        rw [ih st1 h]

theorem run_mono (n k : Nat) (st : St) (h : (run n st).2 ≠ some .fuel) : run (n + k) st = run n st := by
  induction k with
  | zero => rfl
  | succ k ih => rw [← Nat.add_assoc, run_succ _ _ (by rw [ih]; exact h), ih]

end CprocVerif.PP

import CprocVerif.Model.CharLit

/-!
# Lemmas about the model of cproc's literal handling (`Model/CharLit.lean`)

Part 1: bit-level facts, `utf8decR` in arithmetic form (`dec8`), the rows of the RFC 3629 table.
-/

namespace CprocVerif.CharLit
open CprocVerif.Unicode

/-! ## bit operations as arithmetic -/

theorem lead_eq : ∀ b, b < 256 → lead b =
    if 0xC0 ≤ b ∧ b < 0xE0 then some (b - 0xC0, 2)
    else if 0xE0 ≤ b ∧ b < 0xF0 then some (b - 0xE0, 3)
    else if 0xF0 ≤ b ∧ b < 0xF8 then some (b - 0xF0, 4) else none := by
  decide +kernel

theorem cont_test : ∀ b, b < 256 → ((b &&& 0xc0 ≠ 0x80) ↔ ¬ (0x80 ≤ b ∧ b < 0xC0)) := by decide +kernel
theorem cont_val : ∀ b, b < 256 → (0x80 ≤ b ∧ b < 0xC0) → b &&& 0x3f = b - 0x80 := by decide +kernel

theorem shl6_or (x y : Nat) (h : y < 64) : x <<< 6 ||| y = x * 64 + y := by
  rw [← Nat.shiftLeft_add_eq_or_of_lt (by simpa using h), Nat.shiftLeft_eq]


def isCont (b : Nat) : Prop := 0x80 ≤ b ∧ b < 0xC0
instance : DecidablePred isCont := fun b => by unfold isCont; infer_instance

def dec8 (b0 b1 b2 b3 n : Nat) : Option (Nat × Nat) × Nat :=
  if b0 < 0x80 then (some (b0, 1), 1)
  else if b0 < 0xC0 then (none, 1)
  else if b0 < 0xE0 then
    if n < 2 then (none, 1) else if ¬ isCont b1 then (none, 2) else
      if (b0 - 0xC0) * 64 + (b1 - 0x80) < 0x80 then (none, 2)
      else (some ((b0 - 0xC0) * 64 + (b1 - 0x80), 2), 2)
  else if b0 < 0xF0 then
    if n < 3 then (none, 1) else if ¬ isCont b1 then (none, 2) else if ¬ isCont b2 then (none, 3) else
      if (0xD800 ≤ ((b0 - 0xE0) * 64 + (b1 - 0x80)) * 64 + (b2 - 0x80) ∧
          ((b0 - 0xE0) * 64 + (b1 - 0x80)) * 64 + (b2 - 0x80) < 0xE000) ∨
          ((b0 - 0xE0) * 64 + (b1 - 0x80)) * 64 + (b2 - 0x80) < 0x800 then (none, 3)
      else (some (((b0 - 0xE0) * 64 + (b1 - 0x80)) * 64 + (b2 - 0x80), 3), 3)
  else if b0 < 0xF8 then
    if n < 4 then (none, 1) else if ¬ isCont b1 then (none, 2) else if ¬ isCont b2 then (none, 3)
    else if ¬ isCont b3 then (none, 4) else
      if (((b0 - 0xF0) * 64 + (b1 - 0x80)) * 64 + (b2 - 0x80)) * 64 + (b3 - 0x80) ≥ 0x110000 ∨
          (((b0 - 0xF0) * 64 + (b1 - 0x80)) * 64 + (b2 - 0x80)) * 64 + (b3 - 0x80) < 0x10000 then (none, 4)
      else (some ((((b0 - 0xF0) * 64 + (b1 - 0x80)) * 64 + (b2 - 0x80)) * 64 + (b3 - 0x80), 4), 4)
  else (none, 1)

theorem rd_lt (bs : List Nat) (i : Nat) : rd bs i < 256 := by unfold rd; omega
theorem rd_tail (bs : List Nat) (i : Nat) : rd bs.tail i = rd bs (i + 1) := by
  cases bs <;> simp [rd]

theorem contLoop_succ (k : Nat) (bs : List Nat) (x r : Nat) :
    contLoop (k + 1) bs x r =
      if isCont (rd bs 0) then contLoop k bs.tail ((x * 64 + (rd bs 0 - 0x80)) % 2 ^ 32) (r + 1)
      else (none, r + 1) := by
  have hb := rd_lt bs 0
  rw [contLoop]
  by_cases h : isCont (rd bs 0)
  · have h1 : ¬ (rd bs 0 &&& 0xc0 ≠ 0x80) := fun hne => (cont_test _ hb).1 hne h
    rw [if_neg h1, if_pos h, cont_val _ hb h, shl6_or _ _ (by unfold isCont at h; omega)]
  · have h1 := (cont_test _ hb).2 h
    rw [if_pos h1, if_neg h]

theorem sub32_lt (x a : Nat) (hx : x < 2 ^ 32) (ha : a ≤ 2 ^ 32) (k : Nat) :
    sub32 x a < k ↔ (a ≤ x ∧ x < a + k) ∨ (x < a ∧ x + 2 ^ 32 < a + k) := by
  unfold sub32; omega

theorem final_check (x l m r : Nat) (hx : x < 2 ^ 21) :
    (if (decide (x ≥ 0x110000) || decide (sub32 x 0xd800 < 0x0800)) = true then ((none : Option (Nat × Nat)), r)
      else if x < m then (none, r)
      else (some (x, l), r)) =
    if x ≥ 0x110000 ∨ (0xD800 ≤ x ∧ x < 0xE000) ∨ x < m then (none, r)
    else (some (x, l), r) := by
  have hs := sub32_lt x 0xd800 (by omega) (by omega) 0x800
  simp only [Bool.or_eq_true, decide_eq_true_eq, hs]
  split <;> split <;> (try split) <;> first | rfl | omega

theorem utf8decR_eq (bs : List Nat) (n : Nat) :
    utf8decR bs n = dec8 (rd bs 0) (rd bs 1) (rd bs 2) (rd bs 3) n := by
  have h0 := rd_lt bs 0
  have h1 := rd_lt bs 1
  have h2 := rd_lt bs 2
  have h3 := rd_lt bs 3
  have t1 : rd bs.tail 0 = rd bs 1 := rd_tail bs 0
  have t2 : rd bs.tail.tail 0 = rd bs 2 := by rw [rd_tail, rd_tail]
  have t3 : rd bs.tail.tail.tail 0 = rd bs 3 := by rw [rd_tail, rd_tail, rd_tail]
  unfold utf8decR dec8
  rw [lead_eq _ h0]
  generalize rd bs 0 = b0 at *
  generalize rd bs 1 = b1 at *
  generalize rd bs 2 = b2 at *
  generalize rd bs 3 = b3 at *
  by_cases c1 : b0 < 0x80
  · rw [if_pos c1, if_pos c1]
  rw [if_neg c1, if_neg c1]
  by_cases c2 : b0 < 0xC0
  · rw [if_neg (by omega), if_neg (by omega), if_neg (by omega), if_pos c2]
  rw [if_neg c2]
  by_cases c3 : b0 < 0xE0
  · rw [if_pos (by omega), if_pos c3]
    dsimp only
    by_cases cn : n < 2
    · rw [if_pos cn, if_pos cn]
    rw [if_neg cn, if_neg cn]
    show (match contLoop 1 bs.tail (b0 - 192) 1 with | (none, r) => _ | (some x, r) => _) = _
    rw [contLoop_succ, t1]
    by_cases k1 : isCont b1
    · rw [if_pos k1, if_neg (fun (h : ¬ _) => h k1), contLoop]
      dsimp only
      unfold isCont at k1
      rw [Nat.mod_eq_of_lt (by omega)]
      simp only [if_true]
      rw [final_check _ _ _ _ (by omega)]
      split <;> split <;> first | rfl | omega
    · rw [if_neg k1, if_pos k1]
  rw [if_neg (by omega), if_neg c3]
  by_cases c4 : b0 < 0xF0
  · rw [if_pos (by omega), if_pos c4]
    dsimp only
    by_cases cn : n < 3
    · rw [if_pos cn, if_pos cn]
    rw [if_neg cn, if_neg cn]
    show (match contLoop 2 bs.tail (b0 - 224) 1 with | (none, r) => _ | (some x, r) => _) = _
    rw [contLoop_succ, t1]
    by_cases k1 : isCont b1
    · rw [if_pos k1, if_neg (fun (h : ¬ _) => h k1), contLoop_succ, t2]
      by_cases k2 : isCont b2
      · rw [if_pos k2, if_neg (fun (h : ¬ _) => h k2), contLoop]
        dsimp only
        unfold isCont at k1 k2
        rw [Nat.mod_eq_of_lt (a := (b0 - 224) * 64 + (b1 - 128)) (by omega), Nat.mod_eq_of_lt (by omega)]
        simp only [if_true, show ¬ (3 = 2) by omega, if_false]
        rw [final_check _ _ _ _ (by omega)]
        split <;> split <;> first | rfl | omega
      · rw [if_neg k2, if_pos k2]
    · rw [if_neg k1, if_pos k1]
  rw [if_neg (by omega), if_neg c4]
  by_cases c5 : b0 < 0xF8
  · rw [if_pos (by omega), if_pos c5]
    dsimp only
    by_cases cn : n < 4
    · rw [if_pos cn, if_pos cn]
    rw [if_neg cn, if_neg cn]
    show (match contLoop 3 bs.tail (b0 - 240) 1 with | (none, r) => _ | (some x, r) => _) = _
    rw [contLoop_succ, t1]
    by_cases k1 : isCont b1
    · rw [if_pos k1, if_neg (fun (h : ¬ _) => h k1), contLoop_succ, t2]
      by_cases k2 : isCont b2
      · rw [if_pos k2, if_neg (fun (h : ¬ _) => h k2), contLoop_succ, t3]
        by_cases k3 : isCont b3
        · rw [if_pos k3, if_neg (fun (h : ¬ _) => h k3), contLoop]
          dsimp only
          unfold isCont at k1 k2 k3
          rw [Nat.mod_eq_of_lt (a := (b0 - 240) * 64 + (b1 - 128)) (by omega),
            Nat.mod_eq_of_lt (a := ((b0 - 240) * 64 + (b1 - 128)) * 64 + (b2 - 128)) (by omega),
            Nat.mod_eq_of_lt (by omega)]
          simp only [show ¬ (4 = 2) by omega, show ¬ (4 = 3) by omega, if_false]
          rw [final_check _ _ _ _ (by omega)]
          split <;> split <;> first | rfl | omega
        · rw [if_neg k3, if_pos k3]
      · rw [if_neg k2, if_pos k2]
    · rw [if_neg k1, if_pos k1]
  rw [if_neg (by omega), if_neg c5]


/-! ## encoders -/

theorem and3f (c : Nat) : c &&& 0x3f = c % 64 := Nat.and_two_pow_sub_one_eq_mod c 6
theorem and3ff (c : Nat) : c &&& 0x3ff = c % 1024 := Nat.and_two_pow_sub_one_eq_mod c 10

theorem or_eq_add (h k y : Nat) (hy : y < 2 ^ k) : (h * 2 ^ k) ||| y = h * 2 ^ k + y := by
  rw [← Nat.shiftLeft_eq, Nat.shiftLeft_add_eq_or_of_lt hy]

theorem or80 (y : Nat) (hy : y < 64) : 0x80 ||| y = 0x80 + y := or_eq_add 2 6 y hy
theorem orC0 (y : Nat) (hy : y < 32) : 0xc0 ||| y = 0xc0 + y := or_eq_add 6 5 y hy
theorem orE0 (y : Nat) (hy : y < 16) : 0xe0 ||| y = 0xe0 + y := or_eq_add 14 4 y hy
theorem orF0 (y : Nat) (hy : y < 8) : 0xf0 ||| y = 0xf0 + y := or_eq_add 30 3 y hy
theorem orD800 (y : Nat) (hy : y < 1024) : 0xd800 ||| y = 0xd800 + y := or_eq_add 54 10 y hy
theorem orDC00 (y : Nat) (hy : y < 1024) : 0xdc00 ||| y = 0xdc00 + y := or_eq_add 55 10 y hy

theorem utf8enc_eq (c : Nat) (hc : c < 2 ^ 32) :
    utf8enc c = if isScalar c then some (utf8Encode c) else none := by
  unfold utf8enc
  have s1 := sub32_lt c 0xe000 hc (by omega) 0x2000
  have s2 := sub32_lt c 0x10000 hc (by omega) 0x100000
  simp only [Bool.or_eq_true, decide_eq_true_eq, s1, s2, and3f, Nat.shiftRight_eq_div_pow]
  by_cases h1 : c < 0x80
  · have hsc : isScalar c := by unfold isScalar; omega
    rw [if_pos h1, if_pos hsc]; unfold utf8Encode
    rw [if_pos h1, Nat.mod_eq_of_lt (by omega)]
  rw [if_neg h1]
  by_cases h2 : c < 0x800
  · have hsc : isScalar c := by unfold isScalar; omega
    rw [if_pos h2, if_pos hsc]; unfold utf8Encode
    rw [if_neg h1, if_pos h2, orC0 _ (by omega), or80 _ (by omega),
      Nat.mod_eq_of_lt (by omega), Nat.mod_eq_of_lt (by omega)]
  rw [if_neg h2]
  by_cases h3 : c < 0xd800 ∨ (0xe000 ≤ c ∧ c < 0xe000 + 0x2000) ∨ (c < 0xe000 ∧ c + 2 ^ 32 < 0xe000 + 0x2000)
  · have hsc : isScalar c := by unfold isScalar; omega
    rw [if_pos h3, if_pos hsc]; unfold utf8Encode
    rw [if_neg h1, if_neg h2, if_pos (by omega), orE0 _ (by omega), or80 _ (by omega), or80 _ (by omega),
      Nat.mod_eq_of_lt (a := 0xe0 + _) (by omega), Nat.mod_eq_of_lt (a := 0x80 + c / 2 ^ 6 % 64) (by omega),
      Nat.mod_eq_of_lt (a := 0x80 + c % 64) (by omega)]
  rw [if_neg h3]
  by_cases h4 : (0x10000 ≤ c ∧ c < 0x10000 + 0x100000) ∨ (c < 0x10000 ∧ c + 2 ^ 32 < 0x10000 + 0x100000)
  · have hsc : isScalar c := by unfold isScalar; omega
    rw [if_pos h4, if_pos hsc]; unfold utf8Encode
    rw [if_neg h1, if_neg h2, if_neg (by omega), orF0 _ (by omega), or80 _ (by omega), or80 _ (by omega),
      or80 _ (by omega),
      Nat.mod_eq_of_lt (a := 0xf0 + _) (by omega), Nat.mod_eq_of_lt (a := 0x80 + c / 2 ^ 12 % 64) (by omega),
      Nat.mod_eq_of_lt (a := 0x80 + c / 2 ^ 6 % 64) (by omega),
      Nat.mod_eq_of_lt (a := 0x80 + c % 64) (by omega)]
  have hsc : ¬ isScalar c := by unfold isScalar; omega
  rw [if_neg h4, if_neg hsc]

theorem utf16enc_eq (c : Nat) (hc : c < 2 ^ 32) :
    utf16enc c = if isScalar c then some (utf16Encode c) else none := by
  unfold utf16enc
  have s1 := sub32_lt c 0xe000 hc (by omega) 0x2000
  have s2 := sub32_lt c 0x10000 hc (by omega) 0x100000
  simp only [Bool.or_eq_true, decide_eq_true_eq, s1, s2, and3ff, Nat.shiftRight_eq_div_pow]
  by_cases h1 : c < 0xd800 ∨ (0xe000 ≤ c ∧ c < 0xe000 + 0x2000) ∨ (c < 0xe000 ∧ c + 2 ^ 32 < 0xe000 + 0x2000)
  · have hsc : isScalar c := by unfold isScalar; omega
    rw [if_pos h1, if_pos hsc]; unfold utf16Encode
    rw [if_pos (by omega), Nat.mod_eq_of_lt (by omega)]
  rw [if_neg h1]
  by_cases h4 : (0x10000 ≤ c ∧ c < 0x10000 + 0x100000) ∨ (c < 0x10000 ∧ c + 2 ^ 32 < 0x10000 + 0x100000)
  · have hsc : isScalar c := by unfold isScalar; omega
    have e : sub32 c 0x10000 = c - 0x10000 := by unfold sub32; omega
    rw [if_pos h4, if_pos hsc]; unfold utf16Encode
    rw [if_neg (by omega), e, orD800 _ (by omega), orDC00 _ (by omega),
      Nat.mod_eq_of_lt (a := 0xd800 + _) (by omega), Nat.mod_eq_of_lt (a := 0xdc00 + _) (by omega)]
    have : (c - 0x10000) / 2 ^ 10 % 1024 = (c - 0x10000) / 0x400 := by omega
    rw [this]
  have hsc : ¬ isScalar c := by unfold isScalar; omega
  rw [if_neg h4, if_neg hsc]


/-! ## rows -/
/-- the four rows of the RFC 3629 table as a relation between a scalar value and (up to) four bytes -/
def Row (c l b0 b1 b2 b3 : Nat) : Prop :=
  (l = 1 ∧ c < 0x80 ∧ b0 = c) ∨
  (l = 2 ∧ 0x80 ≤ c ∧ c < 0x800 ∧ b0 = 0xC0 + c / 64 ∧ b1 = 0x80 + c % 64) ∨
  (l = 3 ∧ 0x800 ≤ c ∧ c < 0x10000 ∧ ¬ (0xD800 ≤ c ∧ c < 0xE000) ∧
    b0 = 0xE0 + c / 4096 ∧ b1 = 0x80 + c / 64 % 64 ∧ b2 = 0x80 + c % 64) ∨
  (l = 4 ∧ 0x10000 ≤ c ∧ c < 0x110000 ∧
    b0 = 0xF0 + c / 262144 ∧ b1 = 0x80 + c / 4096 % 64 ∧ b2 = 0x80 + c / 64 % 64 ∧ b3 = 0x80 + c % 64)

set_option maxRecDepth 8192 in
theorem dec8_some {b0 b1 b2 b3 n c l r : Nat}
    (h : dec8 b0 b1 b2 b3 n = (some (c, l), r)) : r = l ∧ (l ≤ n ∨ l = 1) ∧ Row c l b0 b1 b2 b3 := by
  unfold dec8 at h
  unfold isCont at h
  by_cases c1 : b0 < 0x80
  · rw [if_pos c1] at h; cases h; exact ⟨rfl, Or.inr rfl, Or.inl ⟨rfl, c1, rfl⟩⟩
  rw [if_neg c1] at h
  by_cases c2 : b0 < 0xC0
  · rw [if_pos c2] at h; cases h
  rw [if_neg c2] at h
  by_cases c3 : b0 < 0xE0
  · rw [if_pos c3] at h
    by_cases cn : n < 2
    · rw [if_pos cn] at h; cases h
    rw [if_neg cn] at h
    by_cases k1 : ¬ (0x80 ≤ b1 ∧ b1 < 0xC0)
    · rw [if_pos k1] at h; cases h
    rw [if_neg k1] at h
    split at h
    · cases h
    · injection h with h1 h2; injection h1 with h1; injection h1 with hc hl
      subst hl h2
      exact ⟨rfl, Or.inl (by omega), Or.inr (Or.inl ⟨rfl, by omega⟩)⟩
  rw [if_neg c3] at h
  by_cases c4 : b0 < 0xF0
  · rw [if_pos c4] at h
    by_cases cn : n < 3
    · rw [if_pos cn] at h; cases h
    rw [if_neg cn] at h
    by_cases k1 : ¬ (0x80 ≤ b1 ∧ b1 < 0xC0)
    · rw [if_pos k1] at h; cases h
    rw [if_neg k1] at h
    by_cases k2 : ¬ (0x80 ≤ b2 ∧ b2 < 0xC0)
    · rw [if_pos k2] at h; cases h
    rw [if_neg k2] at h
    split at h
    · cases h
    · injection h with h1 h2; injection h1 with h1; injection h1 with hc hl
      subst hl h2
      exact ⟨rfl, Or.inl (by omega), Or.inr (Or.inr (Or.inl ⟨rfl, by omega⟩))⟩
  rw [if_neg c4] at h
  by_cases c5 : b0 < 0xF8
  · rw [if_pos c5] at h
    by_cases cn : n < 4
    · rw [if_pos cn] at h; cases h
    rw [if_neg cn] at h
    by_cases k1 : ¬ (0x80 ≤ b1 ∧ b1 < 0xC0)
    · rw [if_pos k1] at h; cases h
    rw [if_neg k1] at h
    by_cases k2 : ¬ (0x80 ≤ b2 ∧ b2 < 0xC0)
    · rw [if_pos k2] at h; cases h
    rw [if_neg k2] at h
    by_cases k3 : ¬ (0x80 ≤ b3 ∧ b3 < 0xC0)
    · rw [if_pos k3] at h; cases h
    rw [if_neg k3] at h
    split at h
    · cases h
    · injection h with h1 h2; injection h1 with h1; injection h1 with hc hl
      subst hl h2
      exact ⟨rfl, Or.inl (by omega), Or.inr (Or.inr (Or.inr ⟨rfl, by omega⟩))⟩
  rw [if_neg c5] at h; cases h

set_option maxRecDepth 8192 in
theorem dec8_of_row {b0 b1 b2 b3 n c l : Nat} (hr : Row c l b0 b1 b2 b3) (hn : l ≤ n) :
    dec8 b0 b1 b2 b3 n = (some (c, l), l) := by
  unfold Row at hr
  unfold dec8 isCont
  rcases hr with ⟨rfl, h1, e0⟩ | ⟨rfl, h1, h2, e0, e1⟩ | ⟨rfl, h1, h2, h3, e0, e1, e2⟩ | ⟨rfl, h1, h2, e0, e1, e2, e3⟩
  · rw [if_pos (by omega), e0]
  · rw [if_neg (show ¬ b0 < 0x80 by omega), if_neg (show ¬ b0 < 0xC0 by omega), if_pos (show b0 < 0xE0 by omega),
      if_neg (show ¬ n < 2 by omega), if_neg (show ¬ ¬ (0x80 ≤ b1 ∧ b1 < 0xC0) by omega),
      if_neg (show ¬ (b0 - 0xC0) * 64 + (b1 - 0x80) < 0x80 by omega)]
    congr 3; omega
  · rw [if_neg (show ¬ b0 < 0x80 by omega), if_neg (show ¬ b0 < 0xC0 by omega), if_neg (show ¬ b0 < 0xE0 by omega),
      if_pos (show b0 < 0xF0 by omega),
      if_neg (show ¬ n < 3 by omega), if_neg (show ¬ ¬ (0x80 ≤ b1 ∧ b1 < 0xC0) by omega),
      if_neg (show ¬ ¬ (0x80 ≤ b2 ∧ b2 < 0xC0) by omega), if_neg (by omega)]
    congr 3; omega
  · rw [if_neg (show ¬ b0 < 0x80 by omega), if_neg (show ¬ b0 < 0xC0 by omega), if_neg (show ¬ b0 < 0xE0 by omega),
      if_neg (show ¬ b0 < 0xF0 by omega), if_pos (show b0 < 0xF8 by omega),
      if_neg (show ¬ n < 4 by omega), if_neg (show ¬ ¬ (0x80 ≤ b1 ∧ b1 < 0xC0) by omega),
      if_neg (show ¬ ¬ (0x80 ≤ b2 ∧ b2 < 0xC0) by omega), if_neg (show ¬ ¬ (0x80 ≤ b3 ∧ b3 < 0xC0) by omega),
      if_neg (by omega)]
    congr 3; omega


/-! ## list level, reads, well-formedness, digit runs -/

theorem rd_cons_zero (a : Nat) (l : List Nat) : rd (a :: l) 0 = a % 256 := by simp [rd]
theorem rd_cons_succ (a : Nat) (l : List Nat) (i : Nat) : rd (a :: l) (i + 1) = rd l i := by simp [rd]
theorem rd_nil (i : Nat) : rd [] i = 0 := by simp [rd]

/-- Length of the UTF-8 form by range. -/
def len8 (c : Nat) : Nat := if c < 0x80 then 1 else if c < 0x800 then 2 else if c < 0x10000 then 3 else 4

theorem utf8Encode_length (c : Nat) : (utf8Encode c).length = len8 c := by
  unfold utf8Encode len8; repeat' split
  all_goals rfl

theorem row_encode {c : Nat} (hc : isScalar c) (rest : List Nat) :
    Row c (len8 c) (rd (utf8Encode c ++ rest) 0) (rd (utf8Encode c ++ rest) 1)
      (rd (utf8Encode c ++ rest) 2) (rd (utf8Encode c ++ rest) 3) := by
  unfold isScalar at hc
  unfold utf8Encode len8 Row
  by_cases h1 : c < 0x80
  · rw [if_pos h1, if_pos h1]
    exact Or.inl ⟨rfl, h1, by rw [List.cons_append, rd_cons_zero]; omega⟩
  by_cases h2 : c < 0x800
  · rw [if_neg h1, if_pos h2, if_neg h1, if_pos h2]
    refine Or.inr (Or.inl ⟨rfl, by omega, h2, ?_, ?_⟩)
    · rw [List.cons_append, rd_cons_zero]; omega
    · rw [List.cons_append, rd_cons_succ, List.cons_append, rd_cons_zero]; omega
  by_cases h3 : c < 0x10000
  · rw [if_neg h1, if_neg h2, if_pos h3, if_neg h1, if_neg h2, if_pos h3]
    refine Or.inr (Or.inr (Or.inl ⟨rfl, by omega, h3, by omega, ?_, ?_, ?_⟩))
    · rw [List.cons_append, rd_cons_zero]; omega
    · rw [List.cons_append, rd_cons_succ, List.cons_append, rd_cons_zero]; omega
    · rw [List.cons_append, rd_cons_succ, List.cons_append, rd_cons_succ, List.cons_append, rd_cons_zero]; omega
  · rw [if_neg h1, if_neg h2, if_neg h3, if_neg h1, if_neg h2, if_neg h3]
    refine Or.inr (Or.inr (Or.inr ⟨rfl, by omega, by omega, ?_, ?_, ?_, ?_⟩))
    · rw [List.cons_append, rd_cons_zero]; omega
    · rw [List.cons_append, rd_cons_succ, List.cons_append, rd_cons_zero]; omega
    · rw [List.cons_append, rd_cons_succ, List.cons_append, rd_cons_succ, List.cons_append, rd_cons_zero]; omega
    · rw [List.cons_append, rd_cons_succ, List.cons_append, rd_cons_succ, List.cons_append, rd_cons_succ,
        List.cons_append, rd_cons_zero]; omega

theorem utf8dec_encode {c : Nat} (hc : isScalar c) (rest : List Nat) (n : Nat) (hn : len8 c ≤ n) :
    utf8decR (utf8Encode c ++ rest) n = (some (c, len8 c), len8 c) := by
  rw [utf8decR_eq]; exact dec8_of_row (row_encode hc rest) hn

theorem row_scalar {c l b0 b1 b2 b3 : Nat} (h : Row c l b0 b1 b2 b3) : isScalar c ∧ l = len8 c := by
  unfold Row at h; unfold isScalar len8
  rcases h with ⟨rfl, h1, _⟩ | ⟨rfl, h1, h2, _⟩ | ⟨rfl, h1, h2, h3, _⟩ | ⟨rfl, h1, h2, _⟩
  · rw [if_pos h1]; omega
  · rw [if_neg (by omega), if_pos h2]; omega
  · rw [if_neg (by omega), if_neg (by omega), if_pos h2]; omega
  · rw [if_neg (by omega), if_neg (by omega), if_neg (by omega)]; omega

/-- A decoded character is spelled by exactly its canonical encoding. -/
theorem row_take {c l : Nat} {bs : List Nat} (hne : bs ≠ []) (hb : ∀ b ∈ bs, b < 256)
    (h : Row c l (rd bs 0) (rd bs 1) (rd bs 2) (rd bs 3)) : bs.take l = utf8Encode c := by
  unfold Row at h
  unfold utf8Encode
  rcases bs with _ | ⟨a0, t0⟩
  · exact absurd rfl hne
  have ha0 : a0 < 256 := hb a0 (by simp)
  rw [rd_cons_zero, Nat.mod_eq_of_lt ha0] at h
  simp only [rd_cons_succ] at h
  rcases h with ⟨rfl, h1, e0⟩ | ⟨rfl, h1, h2, e0, e1⟩ | ⟨rfl, h1, h2, h3, e0, e1, e2⟩ | ⟨rfl, h1, h2, e0, e1, e2, e3⟩
  · rw [if_pos h1, e0]; rfl
  · rcases t0 with _ | ⟨a1, t1⟩
    · rw [rd_nil] at e1; omega
    have ha1 : a1 < 256 := hb a1 (by simp)
    rw [rd_cons_zero, Nat.mod_eq_of_lt ha1] at e1
    rw [if_neg (by omega), if_pos h2, e0, e1]; rfl
  · rcases t0 with _ | ⟨a1, t1⟩
    · rw [rd_nil] at e1; omega
    have ha1 : a1 < 256 := hb a1 (by simp)
    rw [rd_cons_zero, Nat.mod_eq_of_lt ha1] at e1
    simp only [rd_cons_succ] at e2
    rcases t1 with _ | ⟨a2, t2⟩
    · rw [rd_nil] at e2; omega
    have ha2 : a2 < 256 := hb a2 (by simp)
    rw [rd_cons_zero, Nat.mod_eq_of_lt ha2] at e2
    rw [if_neg (by omega), if_neg (by omega), if_pos h2, e0, e1, e2]; rfl
  · rcases t0 with _ | ⟨a1, t1⟩
    · rw [rd_nil] at e1; omega
    have ha1 : a1 < 256 := hb a1 (by simp)
    rw [rd_cons_zero, Nat.mod_eq_of_lt ha1] at e1
    simp only [rd_cons_succ] at e2 e3
    rcases t1 with _ | ⟨a2, t2⟩
    · rw [rd_nil] at e2; omega
    have ha2 : a2 < 256 := hb a2 (by simp)
    rw [rd_cons_zero, Nat.mod_eq_of_lt ha2] at e2
    simp only [rd_cons_succ] at e3
    rcases t2 with _ | ⟨a3, t3⟩
    · rw [rd_nil] at e3; omega
    have ha3 : a3 < 256 := hb a3 (by simp)
    rw [rd_cons_zero, Nat.mod_eq_of_lt ha3] at e3
    rw [if_neg (by omega), if_neg (by omega), if_neg (by omega), e0, e1, e2, e3]; rfl


/-- number of bytes `utf8dec` examines, as a function of the bytes -/
def reads8 (b0 b1 b2 n : Nat) : Nat :=
  if b0 < 0xC0 then 1
  else if b0 < 0xE0 then (if n < 2 then 1 else 2)
  else if b0 < 0xF0 then (if n < 3 then 1 else if ¬ isCont b1 then 2 else 3)
  else if b0 < 0xF8 then (if n < 4 then 1 else if ¬ isCont b1 then 2 else if ¬ isCont b2 then 3 else 4)
  else 1

theorem dec8_reads (b0 b1 b2 b3 n : Nat) : (dec8 b0 b1 b2 b3 n).2 = reads8 b0 b1 b2 n := by
  unfold dec8 reads8
  repeat' split
  all_goals first | rfl | omega

theorem reads8_bounds (b0 b1 b2 n : Nat) :
    1 ≤ reads8 b0 b1 b2 n ∧ reads8 b0 b1 b2 n ≤ 4 ∧ (reads8 b0 b1 b2 n ≤ n ∨ reads8 b0 b1 b2 n = 1) ∧
    (2 ≤ reads8 b0 b1 b2 n → 0xC0 ≤ b0) ∧ (3 ≤ reads8 b0 b1 b2 n → isCont b1) ∧
    (4 ≤ reads8 b0 b1 b2 n → isCont b2) := by
  unfold reads8
  repeat' split
  all_goals (refine ⟨?_, ?_, ?_, ?_, ?_, ?_⟩ <;> first | omega | (intro h; first | omega | (exact Classical.not_not.1 ‹_›)))

theorem dec8_congr {b0 b1 b2 b3 b1' b2' b3' n : Nat}
    (h1 : 2 ≤ reads8 b0 b1 b2 n → b1' = b1) (h2 : 3 ≤ reads8 b0 b1 b2 n → b2' = b2)
    (h3 : 4 ≤ reads8 b0 b1 b2 n → b3' = b3) : dec8 b0 b1' b2' b3' n = dec8 b0 b1 b2 b3 n := by
  unfold reads8 at h1 h2 h3
  unfold dec8
  by_cases c1 : b0 < 0x80
  · rw [if_pos c1, if_pos c1]
  rw [if_neg c1, if_neg c1]
  by_cases c2 : b0 < 0xC0
  · rw [if_pos c2, if_pos c2]
  rw [if_neg c2, if_neg c2]
  rw [if_neg c2] at h1 h2 h3
  by_cases c3 : b0 < 0xE0
  · rw [if_pos c3, if_pos c3]
    rw [if_pos c3] at h1
    by_cases cn : n < 2
    · rw [if_pos cn, if_pos cn]
    rw [if_neg cn] at h1
    rw [h1 (by omega)]
  rw [if_neg c3, if_neg c3]
  rw [if_neg c3] at h1 h2 h3
  by_cases c4 : b0 < 0xF0
  · rw [if_pos c4, if_pos c4]
    rw [if_pos c4] at h1 h2
    by_cases cn : n < 3
    · rw [if_pos cn, if_pos cn]
    rw [if_neg cn] at h1 h2
    have e1 : b1' = b1 := h1 (by split <;> omega)
    subst e1
    by_cases k1 : ¬ isCont b1'
    · rw [if_neg cn, if_neg cn, if_pos k1, if_pos k1]
    rw [if_neg k1] at h2
    rw [h2 (by omega)]
  rw [if_neg c4, if_neg c4]
  rw [if_neg c4] at h1 h2 h3
  by_cases c5 : b0 < 0xF8
  · rw [if_pos c5, if_pos c5]
    rw [if_pos c5] at h1 h2 h3
    by_cases cn : n < 4
    · rw [if_pos cn, if_pos cn]
    rw [if_neg cn] at h1 h2 h3
    have e1 : b1' = b1 := h1 (by split; omega; split <;> omega)
    subst e1
    by_cases k1 : ¬ isCont b1'
    · rw [if_neg cn, if_neg cn, if_pos k1, if_pos k1]
    rw [if_neg k1] at h2 h3
    have e2 : b2' = b2 := h2 (by split <;> omega)
    subst e2
    by_cases k2 : ¬ isCont b2'
    · rw [if_neg cn, if_neg cn, if_neg k1, if_neg k1, if_pos k2, if_pos k2]
    rw [if_neg k2] at h3
    rw [h3 (by omega)]
  rw [if_neg c5, if_neg c5]


theorem wellFormed_encode {c : Nat} (hc : isScalar c) : WellFormed8 (utf8Encode c) := by
  unfold isScalar at hc
  unfold utf8Encode
  by_cases h1 : c < 0x80
  · rw [if_pos h1]; unfold WellFormed8; omega
  rw [if_neg h1]
  by_cases h2 : c < 0x800
  · rw [if_pos h2]; unfold WellFormed8 isTail; omega
  rw [if_neg h2]
  by_cases h3 : c < 0x10000
  · rw [if_pos h3]; unfold WellFormed8 isTail; omega
  rw [if_neg h3]; unfold WellFormed8 isTail; omega

theorem wellFormed_decode {w : List Nat} (h : WellFormed8 w) : ∃ c, isScalar c ∧ w = utf8Encode c := by
  unfold WellFormed8 at h
  split at h
  · rename_i a
    refine ⟨a, by unfold isScalar; omega, ?_⟩
    unfold utf8Encode; rw [if_pos (by omega)]
  · rename_i a b
    unfold isTail at h
    refine ⟨(a - 0xC0) * 64 + (b - 0x80), by unfold isScalar; omega, ?_⟩
    unfold utf8Encode; rw [if_neg (by omega), if_pos (by omega)]
    simp only [List.cons.injEq, and_true]; omega
  · rename_i a b c
    unfold isTail at h
    refine ⟨((a - 0xE0) * 64 + (b - 0x80)) * 64 + (c - 0x80), by unfold isScalar; omega, ?_⟩
    unfold utf8Encode; rw [if_neg (by omega), if_neg (by omega), if_pos (by omega)]
    simp only [List.cons.injEq, and_true]; omega
  · rename_i a b c d
    unfold isTail at h
    refine ⟨(((a - 0xF0) * 64 + (b - 0x80)) * 64 + (c - 0x80)) * 64 + (d - 0x80), by unfold isScalar; omega, ?_⟩
    unfold utf8Encode; rw [if_neg (by omega), if_neg (by omega), if_neg (by omega)]
    simp only [List.cons.injEq, and_true]; omega
  · exact absurd h id


theorem isxdigit_iff (b : Nat) : isxdigit b = true ↔ isHexDigit b := by
  unfold isxdigit isHexDigit; simp only [Bool.or_eq_true, Bool.and_eq_true, decide_eq_true_eq]; omega
theorem isodigit_iff (b : Nat) : isodigit b = true ↔ isOctDigit b := by
  unfold isodigit isOctDigit; simp only [Bool.and_eq_true, decide_eq_true_eq]

theorem hexval_eq {b : Nat} (h : isHexDigit b) : hexval b = digitVal b := by
  unfold isHexDigit at h; unfold hexval digitVal tolower
  simp only [Bool.and_eq_true, decide_eq_true_eq]
  repeat' split
  all_goals omega

theorem octval_eq {b : Nat} (h : isOctDigit b) : b - 0x30 = digitVal b := by
  unfold isOctDigit at h; unfold digitVal; rw [if_pos (by omega)]

theorem digitVal_lt16 {b : Nat} (h : isHexDigit b) : digitVal b < 16 := by
  unfold isHexDigit at h; unfold digitVal; repeat' split
  all_goals omega

def step (base : Nat) (a d : Nat) : Nat := a * base + digitVal d

theorem digitsValue_eq (base : Nat) (ds : List Nat) : digitsValue base ds = ds.foldl (step base) 0 := rfl

theorem foldl_step16_mod (ds : List Nat) (x : Nat) :
    ds.foldl (step 16) (x % 2 ^ 32) % 2 ^ 32 = ds.foldl (step 16) x % 2 ^ 32 := by
  induction ds generalizing x with
  | nil => simp
  | cons d ds ih =>
    simp only [List.foldl_cons]
    rw [← ih (step 16 (x % 2 ^ 32) d), ← ih (step 16 x d)]
    congr 2
    unfold step; omega

/-- `hexRun` on a maximal run of hexadecimal digits. -/
theorem hexRun_digits (ds rest : List Nat) (c : Nat) (hds : ∀ d ∈ ds, isHexDigit d)
    (hrest : ¬ isHexDigit (rest.headD 0)) (hc : c < 2 ^ 32) :
    hexRun (ds ++ rest) c = (ds.foldl (step 16) c % 2 ^ 32, ds.length) := by
  induction ds generalizing c with
  | nil =>
    rcases rest with _ | ⟨b, r⟩
    · simp [hexRun, Nat.mod_eq_of_lt hc]
    · have : isxdigit b = false := by
        rcases hb : isxdigit b with _ | _
        · rfl
        · exact absurd ((isxdigit_iff b).1 hb) hrest
      simp [hexRun, this, Nat.mod_eq_of_lt hc]
  | cons d ds ih =>
    have hd : isHexDigit d := hds d (by simp)
    have hx : isxdigit d = true := (isxdigit_iff d).2 hd
    rw [List.cons_append, hexRun, if_pos hx, ih _ (fun x hx => hds x (by simp [hx])) (Nat.mod_lt _ (by omega))]
    simp only [List.foldl_cons, List.length_cons]
    rw [foldl_step16_mod, hexval_eq hd]; rfl

/-- `octRun` with `k` digits allowed on a run of at most `k` octal digits that is maximal or full. -/
theorem octRun_digits (k : Nat) (ds rest : List Nat) (c : Nat) (hds : ∀ d ∈ ds, isOctDigit d)
    (hlen : ds.length ≤ k) (hrest : ds.length = k ∨ ¬ isOctDigit (rest.headD 0)) :
    octRun k (ds ++ rest) c = (ds.foldl (step 8) c, ds.length) := by
  induction ds generalizing c k with
  | nil =>
    rcases k with _ | k
    · simp [octRun]
    · have hr : ¬ isOctDigit (rest.headD 0) := by
        rcases hrest with h | h
        · simp at h
        · exact h
      rcases rest with _ | ⟨b, r⟩
      · simp [octRun]
      · have : isodigit b = false := by
          rcases hb : isodigit b with _ | _
          · rfl
          · exact absurd ((isodigit_iff b).1 hb) hr
        simp [octRun, this]
  | cons d ds ih =>
    rcases k with _ | k
    · simp at hlen
    have hd : isOctDigit d := hds d (by simp)
    have hx : isodigit d = true := (isodigit_iff d).2 hd
    rw [List.cons_append, octRun, if_pos hx,
      ih k _ (fun x hx => hds x (by simp [hx])) (by simpa using hlen) (by
        rcases hrest with h | h
        · left; simpa using h
        · right; exact h)]
    simp only [List.foldl_cons, List.length_cons]
    rw [octval_eq hd]; rfl


/-! ## decodechar on the spelling of one item -/

theorem simpleEsc_eq (ch : Nat) : simpleEsc ch = simpleEscape ch := by
  unfold simpleEscape
  split <;> try rfl
  rename_i h1 h2 h3 h4 h5 h6 h7 h8 h9 h10 h11
  have h1 : ch ≠ 0x27 := h1
  have h2 : ch ≠ 0x22 := h2
  have h3 : ch ≠ 0x3F := h3
  have h4 : ch ≠ 0x5C := h4
  have h5 : ch ≠ 0x61 := h5
  have h6 : ch ≠ 0x62 := h6
  have h7 : ch ≠ 0x66 := h7
  have h8 : ch ≠ 0x6E := h8
  have h9 : ch ≠ 0x72 := h9
  have h10 : ch ≠ 0x74 := h10
  have h11 : ch ≠ 0x76 := h11
  unfold simpleEsc
  simp only [Bool.or_eq_true, decide_eq_true_eq]
  rw [if_neg (by omega), if_neg (by omega), if_neg (by omega), if_neg (by omega), if_neg (by omega),
    if_neg (by omega), if_neg (by omega), if_neg (by omega)]

theorem decodechar_simple {ch v : Nat} (rest : List Nat) (h : simpleEscape ch = some v) :
    decodechar (0x5c :: ch :: rest) = .ok (v, false, 2) := by
  unfold decodechar
  simp only [List.headD_cons, List.tail_cons, if_true, simpleEsc_eq, h]

theorem simpleEscape_digit {b : Nat} (h : isHexDigit b) : simpleEscape b = none ∨ b = 0x61 ∨ b = 0x62 ∨ b = 0x66 := by
  unfold isHexDigit at h
  unfold simpleEscape
  split <;> first | omega | (left; rfl)

theorem simpleEscape_oct {b : Nat} (h : isOctDigit b) : simpleEscape b = none := by
  unfold isOctDigit at h
  unfold simpleEscape
  split <;> first | omega | rfl

theorem simpleEscape_x : simpleEscape 0x78 = none := by decide

theorem decodechar_oct {ds : List Nat} (rest : List Nat) (h1 : 1 ≤ ds.length) (h3 : ds.length ≤ 3)
    (hds : ∀ d ∈ ds, isOctDigit d) (hrest : ds.length = 3 ∨ ¬ isOctDigit (rest.headD 0)) :
    decodechar (0x5c :: ds ++ rest) = .ok (digitsValue 8 ds, true, 1 + ds.length) := by
  rcases ds with _ | ⟨d, ds⟩
  · simp at h1
  have hd : isOctDigit d := hds d (by simp)
  have hne : d ≠ 0x78 := by unfold isOctDigit at hd; omega
  unfold decodechar
  simp only [List.cons_append, List.headD_cons, List.tail_cons, if_true, simpleEsc_eq, simpleEscape_oct hd,
    if_neg hne, (isodigit_iff d).2 hd]
  have := octRun_digits 3 (d :: ds) rest 0 hds h3 hrest
  rw [List.cons_append] at this
  rw [this]; rfl

theorem decodechar_hex {ds : List Nat} (rest : List Nat) (h1 : 1 ≤ ds.length)
    (hds : ∀ d ∈ ds, isHexDigit d) (hrest : ¬ isHexDigit (rest.headD 0)) :
    decodechar (0x5c :: 0x78 :: ds ++ rest) = .ok (digitsValue 16 ds % 2 ^ 32, true, 2 + ds.length) := by
  rcases ds with _ | ⟨d, ds⟩
  · simp at h1
  have hd : isHexDigit d := hds d (by simp)
  unfold decodechar
  simp only [List.cons_append, List.headD_cons, List.tail_cons, if_true, simpleEsc_eq, simpleEscape_x,
    (isxdigit_iff d).2 hd]
  have := hexRun_digits (d :: ds) rest 0 hds hrest (by omega)
  rw [List.cons_append] at this
  rw [this]; rfl

theorem head_encode (c : Nat) (rest : List Nat) :
    (utf8Encode c ++ rest).headD 0 = if c < 0x80 then c else if c < 0x800 then 0xC0 + c / 64
      else if c < 0x10000 then 0xE0 + c / 4096 else 0xF0 + c / 262144 := by
  unfold utf8Encode
  repeat' split
  all_goals rfl

theorem len8_bounds (c : Nat) : 1 ≤ len8 c ∧ len8 c ≤ 4 := by
  unfold len8; repeat' split
  all_goals omega

theorem decodechar_chr {c : Nat} (rest : List Nat) (hc : isScalar c) (h5c : c ≠ 0x5c) :
    decodechar (utf8Encode c ++ rest) = .ok (c, false, len8 c) := by
  unfold decodechar
  have hh : (utf8Encode c ++ rest).headD 0 ≠ 0x5c := by
    rw [head_encode]; repeat' split
    all_goals omega
  rw [if_neg hh]
  have := utf8dec_encode hc rest 4 (len8_bounds c).2
  unfold utf8dec
  rw [this]


/-! ## one item through decodechar + encodechar -/

/-- What `decodechar` + `encodechar<size>` produce for one item: the spec encoding for source
characters and simple escapes, the *truncated* value for numeric escapes. -/
def itemModelUnits (size : Nat) : Item → List Nat
  | .chr c => encode size c
  | .simple ch => [(simpleEscape ch).getD 0]
  | .oct ds => [digitsValue 8 ds % 2 ^ (8 * size)]
  | .hex ds => [digitsValue 16 ds % 2 ^ 32 % 2 ^ (8 * size)]

/-- The escape cannot be extended by the byte that follows it. -/
def NoExtend (it : Item) (rest : List Nat) : Prop :=
  match it with
  | .oct ds => ds.length = 3 ∨ ¬ isOctDigit (rest.headD 0)
  | .hex _ => ¬ isHexDigit (rest.headD 0)
  | _ => True

theorem simpleEscape_lt {ch v : Nat} (h : simpleEscape ch = some v) : v < 0x80 ∧ v ≠ 0 := by
  unfold simpleEscape at h
  split at h <;> first | (cases h; omega) | (cases h)

theorem isScalar_lt32 {c : Nat} (h : isScalar c) : c < 2 ^ 32 := by unfold isScalar at h; omega

theorem encode_small (size v : Nat) (h : v < 0x80) : encode size v = [v] := by
  unfold encode utf8Encode utf16Encode utf32Encode
  repeat' split
  all_goals first | rfl | omega

/-- One loop iteration of `stringconcat` on the spelling of a well-formed item. -/
theorem item_step {size : Nat} {enc : Nat → Bool → Except Err (List Nat)} (henc : encoder size = some enc)
    {q : Nat} {it : Item} (hwf : it.wf q) (rest : List Nat) (hne : NoExtend it rest) :
    ∃ chr hexoct, decodechar (it.spell ++ rest) = .ok (chr, hexoct, it.spell.length) ∧
      enc chr hexoct = .ok (itemModelUnits size it) := by
  have hsize : size = 1 ∨ size = 2 ∨ size = 4 := by
    unfold encoder at henc
    repeat' split at henc
    all_goals first | omega | cases henc
  cases it with
  | chr c =>
    obtain ⟨hc, _, h5c, _, _⟩ := hwf
    refine ⟨c, false, ?_, ?_⟩
    · rw [Item.spell, utf8Encode_length]; exact decodechar_chr rest hc h5c
    · have hc32 := isScalar_lt32 hc
      unfold encoder at henc
      rcases hsize with rfl | rfl | rfl
      · cases henc
        simp only [encodechar8, utf8enc_eq c hc32, if_pos hc, itemModelUnits, encode]; rfl
      · cases henc
        simp only [encodechar16, utf16enc_eq c hc32, if_pos hc, itemModelUnits, encode]; rfl
      · cases henc
        simp only [encodechar32, itemModelUnits, encode, utf32Encode, Nat.mod_eq_of_lt hc32]; rfl
  | simple ch =>
    obtain ⟨v, hv⟩ := Option.isSome_iff_exists.1 hwf
    have hlt := (simpleEscape_lt hv).1
    have hsc : isScalar v := by unfold isScalar; omega
    have hv32 : v < 2 ^ 32 := by omega
    refine ⟨v, false, decodechar_simple rest hv, ?_⟩
    have e8 : utf8Encode v = [v] := by unfold utf8Encode; rw [if_pos hlt]
    have e16 : utf16Encode v = [v] := by unfold utf16Encode; rw [if_pos (by omega)]
    unfold encoder at henc
    rcases hsize with rfl | rfl | rfl
    · cases henc
      simp only [encodechar8, utf8enc_eq v hv32, if_pos hsc, itemModelUnits, hv, e8]; rfl
    · cases henc
      simp only [encodechar16, utf16enc_eq v hv32, if_pos hsc, itemModelUnits, hv, e16]; rfl
    · cases henc
      simp only [encodechar32, itemModelUnits, hv, Nat.mod_eq_of_lt hv32]; rfl
  | oct ds =>
    obtain ⟨h1, h3, hds⟩ := hwf
    refine ⟨digitsValue 8 ds, true, ?_, ?_⟩
    · have := decodechar_oct rest h1 h3 hds hne
      rw [Item.spell, List.length_cons, Nat.add_comm]; exact this
    · unfold encoder at henc
      rcases hsize with rfl | rfl | rfl
      · cases henc; rfl
      · cases henc; rfl
      · cases henc; rfl
  | hex ds =>
    obtain ⟨h1, hds⟩ := hwf
    refine ⟨digitsValue 16 ds % 2 ^ 32, true, ?_, ?_⟩
    · have := decodechar_hex rest h1 hds hne
      rw [Item.spell, List.length_cons, List.length_cons, show ds.length + 1 + 1 = 2 + ds.length by omega]; exact this
    · unfold encoder at henc
      rcases hsize with rfl | rfl | rfl
      · cases henc; rfl
      · cases henc; rfl
      · cases henc
        simp only [encodechar32, itemModelUnits]


/-! ## the decode loop on a sequence of items -/

def spellAll (items : List Item) : List Nat := (items.map Item.spell).flatten
def modelUnits (size : Nat) (items : List Item) : List Nat := (items.map (itemModelUnits size)).flatten

theorem spellAll_cons (it : Item) (items : List Item) : spellAll (it :: items) = it.spell ++ spellAll items := by
  simp [spellAll]
theorem modelUnits_cons (size : Nat) (it : Item) (items : List Item) :
    modelUnits size (it :: items) = itemModelUnits size it ++ modelUnits size items := by
  simp [modelUnits]

/-- first byte of the spelling of a well-formed item: nonempty, not the quote, and a digit only
if the item is that digit character itself -/
theorem spell_head {q : Nat} {it : Item} (hq' : q = 0x22 ∨ q = 0x27) (hwf : it.wf q) :
    ∃ b s, it.spell = b :: s ∧ b ≠ q ∧ b ≠ 0 ∧
      (isHexDigit b → it = .chr b) ∧ (isOctDigit b → it = .chr b) := by
  cases it with
  | chr c =>
    obtain ⟨hc, hq, _, _, h0⟩ := hwf
    have hh := head_encode c []
    have hl := utf8Encode_length c
    rcases hs : utf8Encode c with _ | ⟨b, s⟩
    · rw [hs] at hl; have := len8_bounds c; simp at hl; omega
    refine ⟨b, s, hs, ?_⟩
    rw [hs] at hh
    simp only [List.cons_append, List.headD_cons] at hh
    unfold isHexDigit isOctDigit
    rw [hh]
    repeat' split
    all_goals (refine ⟨?_, ?_, ?_, ?_⟩ <;> first | omega | (intro h; first | omega | rfl))
  | simple ch =>
    obtain ⟨v, hv⟩ := Option.isSome_iff_exists.1 hwf
    exact ⟨0x5c, [ch], rfl, by omega, by omega, by unfold isHexDigit; omega, by unfold isOctDigit; omega⟩
  | oct ds => exact ⟨0x5c, ds, rfl, by omega, by omega, by unfold isHexDigit; omega, by unfold isOctDigit; omega⟩
  | hex ds => exact ⟨0x5c, 0x78 :: ds, rfl, by omega, by omega, by unfold isHexDigit; omega, by unfold isOctDigit; omega⟩

theorem itemsWf_cons {q : Nat} {it : Item} {items : List Item} (h : ItemsWf q (it :: items)) :
    it.wf q ∧ ItemsWf q items ∧ (∀ nx rest, items = nx :: rest → munch it nx) := by
  cases items with
  | nil => exact ⟨h, trivial, fun _ _ e => by cases e⟩
  | cons nx rest => exact ⟨h.1, h.2.2, fun _ _ e => by cases e; exact h.2.1⟩

/-- `munch` on items gives `NoExtend` on bytes. -/
theorem noExtend_next {q : Nat} (hq' : q = 0x22 ∨ q = 0x27) {it : Item} {items : List Item}
    (hit : ItemsWf q items) (hm : ∀ nx rest, items = nx :: rest → munch it nx) (tail : List Nat) :
    NoExtend it (spellAll items ++ q :: tail) := by
  cases items with
  | nil =>
    simp only [spellAll, List.map_nil, List.flatten_nil, List.nil_append]
    cases it <;> simp only [NoExtend, List.headD_cons] <;>
      first | trivial | (right; unfold isOctDigit; omega) | (unfold isHexDigit; omega)
  | cons nx rest =>
    have hnx := (itemsWf_cons hit).1
    obtain ⟨b, s, hs, _, _, hhex, hoct⟩ := spell_head hq' hnx
    have hmm := hm nx rest rfl
    rw [spellAll_cons, hs]
    cases it with
    | chr c => trivial
    | simple ch => trivial
    | oct ds =>
      simp only [NoExtend, List.cons_append, List.headD_cons]
      by_cases hb : isOctDigit b
      · have := hoct hb; subst this
        exact hmm
      · exact Or.inr hb
    | hex ds =>
      simp only [NoExtend, List.cons_append, List.headD_cons]
      intro hb
      have := hhex hb; subst this
      exact hmm hb

/-- The decode loop of `stringconcat` on the spelling of a well-formed item sequence followed by
the closing quote: the units of every item in order, for any sufficient fuel. -/
theorem decodeLoop_items {size : Nat} {enc : Nat → Bool → Except Err (List Nat)}
    (henc : encoder size = some enc) (items : List Item) (hwf : ItemsWf 0x22 items)
    (tail : List Nat) (fuel : Nat) (hf : (spellAll items).length < fuel) :
    decodeLoop enc fuel (spellAll items ++ 0x22 :: tail) = .ok (modelUnits size items) := by
  induction items generalizing fuel with
  | nil =>
    rcases fuel with _ | f
    · omega
    · simp [spellAll, modelUnits, decodeLoop]
  | cons it items ih =>
    obtain ⟨hit, hrest, hm⟩ := itemsWf_cons hwf
    obtain ⟨b, s, hs, hbq, _, _, _⟩ := spell_head (Or.inl rfl) hit
    have hne := noExtend_next (Or.inl rfl) hrest hm tail
    obtain ⟨chr, hexoct, hdec, henc'⟩ := item_step henc hit (spellAll items ++ 0x22 :: tail) hne
    rcases fuel with _ | f
    · omega
    rw [spellAll_cons, List.length_append] at hf
    have hlen : 1 ≤ it.spell.length := by rw [hs]; simp
    rw [spellAll_cons, List.append_assoc, modelUnits_cons]
    rw [hs, List.cons_append] at hdec ⊢
    rw [decodeLoop, if_neg hbq]
    simp only [hdec, henc']
    have hdrop : (b :: (s ++ (spellAll items ++ 0x22 :: tail))).drop (b :: s).length = spellAll items ++ 0x22 :: tail := by
      rw [← List.cons_append, List.drop_left]
    rw [hdrop, ih hrest f (by omega)]


/-! ## prefixes, first loop of stringconcat -/

/-- cproc's `kind` character for a prefix -/
def code : Prefix → Nat
  | .none => 0 | .u8 => 0x38 | .u => 0x75 | .U => 0x55 | .L => 0x4c

theorem code_inj {a b : Prefix} (h : code a = code b) : a = b := by
  cases a <;> cases b <;> first | rfl | (simp [code] at h)

theorem code_zero {a : Prefix} : code a = 0 ↔ a = .none := by
  cases a <;> simp [code]

theorem part_spell (p : Part) : p.spell = p.1.spell ++ 0x22 :: (spellAll p.2 ++ [0x22]) := by
  simp [Part.spell, spellAll]

theorem litPrefix_spell (p : Part) :
    litPrefix p.spell = .ok (code p.1, 0x22 :: (spellAll p.2 ++ [0x22])) := by
  rw [part_spell]
  rcases p with ⟨pre, items⟩
  cases pre <;> simp [litPrefix, Prefix.spell, code]

def bodies (parts : List Part) : List (List Nat) := parts.map fun p => spellAll p.2 ++ [0x22]
def lens : List Part → Nat
  | [] => 0
  | p :: ps => lens ps + (strlen (0x22 :: (spellAll p.2 ++ [0x22])) - 2)

def sameOrNone (k : Prefix) (ps : List Prefix) : Except Err Prefix :=
  match (k :: ps).filter (· ≠ .none) with
  | [] => .ok .none
  | p :: qs => if ∀ q ∈ qs, q = p then .ok p else .error .prefixMismatch

theorem ite_forall_cons {α : Type} (p : Prefix) (F : List Prefix) (A B : α) :
    (if ∀ q ∈ p :: F, q = p then A else B) = if ∀ q ∈ F, q = p then A else B := by
  have h : (∀ q ∈ p :: F, q = p) ↔ (∀ q ∈ F, q = p) := by simp
  by_cases c : ∀ q ∈ F, q = p
  · rw [if_pos c, if_pos (h.2 c)]
  · rw [if_neg c, if_neg (fun x => c (h.1 x))]

theorem collect_spelled (k : Prefix) (parts : List Part) :
    collect (parts.map Part.spell) (code k) =
      match sameOrNone k (parts.map (·.1)) with
      | .ok p => .ok (code p, bodies parts, lens parts)
      | .error e => .error e := by
  induction parts generalizing k with
  | nil => cases k <;> simp [collect, sameOrNone, bodies, lens, code]
  | cons p ps ih =>
    rw [List.map_cons, collect, litPrefix_spell]
    simp only
    rcases p with ⟨pre, items⟩
    by_cases hmis : k ≠ pre ∧ k ≠ .none ∧ pre ≠ .none
    · have c1 : (code k ≠ code pre && code k ≠ 0 && code pre ≠ 0) = true := by
        simp only [Bool.and_eq_true, decide_eq_true_eq, ne_eq, code_zero]
        exact ⟨⟨fun h => hmis.1 (code_inj h), hmis.2.1⟩, hmis.2.2⟩
      rw [if_pos c1]
      have : sameOrNone k ((⟨pre, items⟩ :: ps : List Part).map (·.1)) = .error .prefixMismatch := by
        obtain ⟨h1, h2, h3⟩ := hmis
        cases k <;> cases pre <;> first | (exact absurd rfl h1) | (exact absurd rfl h2) | (exact absurd rfl h3) |
          simp [sameOrNone]
      rw [this]
    · have c1 : ¬ (code k ≠ code pre && code k ≠ 0 && code pre ≠ 0) = true := by
        simp only [Bool.and_eq_true, decide_eq_true_eq, ne_eq, code_zero]
        intro ⟨⟨h1, h2⟩, h3⟩
        exact hmis ⟨fun h => h1 (by rw [h]), h2, h3⟩
      rw [if_neg c1]
      have hk : (if code pre ≠ 0 then code pre else code k) = code (if pre ≠ .none then pre else k) := by
        by_cases hp : pre = .none
        · subst hp; simp [code]
        · rw [if_pos (by rw [ne_eq, code_zero]; exact hp), if_pos hp]
      rw [hk, ih]
      have : sameOrNone (if pre ≠ .none then pre else k) (ps.map (·.1)) =
          sameOrNone k ((⟨pre, items⟩ :: ps : List Part).map (·.1)) := by
        have hmis' : k = pre ∨ k = .none ∨ pre = .none := by
          by_cases a : k = pre
          · exact Or.inl a
          by_cases b : k = .none
          · exact Or.inr (Or.inl b)
          by_cases c : pre = .none
          · exact Or.inr (Or.inr c)
          exact absurd ⟨a, b, c⟩ hmis
        cases k <;> cases pre <;> simp [sameOrNone] at hmis' ⊢ <;> exact (ite_forall_cons _ _ _ _).symm
      rw [this]
      cases sameOrNone k ((⟨pre, items⟩ :: ps : List Part).map (·.1)) with
      | error e => rfl
      | ok r => simp [bodies, lens]


/-! ## stringconcat on spelled tokens -/

theorem utf8Encode_nonzero {c : Nat} (h0 : c ≠ 0) : ∀ b ∈ utf8Encode c, b ≠ 0 := by
  unfold utf8Encode
  repeat' split
  all_goals (intro b hb; simp only [List.mem_cons, List.not_mem_nil, or_false] at hb; omega)

theorem item_spell_nonzero {q : Nat} {it : Item} (h : it.wf q) : ∀ b ∈ it.spell, b ≠ 0 := by
  cases it with
  | chr c => exact utf8Encode_nonzero h.2.2.2.2
  | simple ch =>
    obtain ⟨v, hv⟩ := Option.isSome_iff_exists.1 h
    intro b hb
    simp only [Item.spell, List.mem_cons, List.not_mem_nil, or_false] at hb
    rcases hb with rfl | rfl
    · omega
    · intro h0; subst h0; simp [simpleEscape] at hv
  | oct ds =>
    intro b hb
    simp only [Item.spell, List.mem_cons] at hb
    rcases hb with rfl | hb
    · omega
    · have := h.2.2 b hb; unfold isOctDigit at this; omega
  | hex ds =>
    intro b hb
    simp only [Item.spell, List.mem_cons] at hb
    rcases hb with rfl | rfl | hb
    · omega
    · omega
    · have := h.2 b hb; unfold isHexDigit at this; omega

theorem spell_nonzero {q : Nat} {items : List Item} (h : ItemsWf q items) :
    ∀ b ∈ spellAll items, b ≠ 0 := by
  induction items with
  | nil => simp [spellAll]
  | cons it items ih =>
    obtain ⟨hit, hrest, _⟩ := itemsWf_cons h
    intro b hb
    rw [spellAll_cons, List.mem_append] at hb
    rcases hb with hb | hb
    · exact item_spell_nonzero hit b hb
    · exact ih hrest b hb

theorem strlen_nonzero (l : List Nat) (h : ∀ b ∈ l, b ≠ 0) : strlen l = l.length := by
  unfold strlen
  induction l with
  | nil => rfl
  | cons a l ih =>
    have ha : a ≠ 0 := h a (by simp)
    rw [List.takeWhile_cons, if_pos (by simpa using ha), List.length_cons, List.length_cons,
      ih (fun b hb => h b (by simp [hb]))]

theorem lens_eq (parts : List Part) (hwf : ∀ p ∈ parts, ItemsWf 0x22 p.2) :
    lens parts = (parts.map fun p => (spellAll p.2).length).sum := by
  induction parts with
  | nil => rfl
  | cons p ps ih =>
    rw [lens, ih (fun x hx => hwf x (by simp [hx])), List.map_cons, List.sum_cons]
    rw [strlen_nonzero]
    · simp; omega
    · intro b hb
      simp only [List.mem_cons, List.mem_append, List.not_mem_nil, or_false] at hb
      rcases hb with rfl | hb | rfl
      · omega
      · exact spell_nonzero (hwf p (by simp)) b hb
      · omega

/-- the second loop of `stringconcat` -/
theorem decodeParts_spelled {size : Nat} {enc : Nat → Bool → Except Err (List Nat)}
    (henc : encoder size = some enc) (parts : List Part) (hwf : ∀ p ∈ parts, ItemsWf 0x22 p.2) :
    decodeParts enc (bodies parts) = .ok (modelUnits size (parts.map (·.2)).flatten) := by
  induction parts with
  | nil => rfl
  | cons p ps ih =>
    have h1 := decodeLoop_items henc p.2 (hwf p (by simp)) [] ((spellAll p.2 ++ [0x22]).length + 1) (by simp; omega)
    simp only [bodies, List.map_cons, decodeParts] at ih ⊢
    rw [h1, ih (fun x hx => hwf x (by simp [hx]))]
    simp [modelUnits]

theorem tsize_cases (ty : CType) : tsize ty = 1 ∨ tsize ty = 2 ∨ tsize ty = 4 := by
  cases ty <;> simp [tsize]

theorem encoder_some (ty : CType) : ∃ enc, encoder (tsize ty) = some enc ∧ enc 0 false = .ok [0] := by
  rcases tsize_cases ty with h | h | h <;> rw [h]
  · exact ⟨encodechar8, rfl, rfl⟩
  · exact ⟨encodechar16, rfl, rfl⟩
  · exact ⟨encodechar32, rfl, rfl⟩

/-- model element type for a prefix (what `switch (kind)` selects) -/
def modelElemType (t : Target) : Prefix → CType
  | .none => .char | .u8 => .uchar | .u => .ushort | .U => .uint | .L => t.wchar

theorem kindType_code (t : Target) (p : Prefix) : kindType t (code p) = .ok (modelElemType t p) := by
  cases p <;> simp [kindType, code, modelElemType]

/-- **What `stringconcat` computes** on the spelling of any sequence of well-formed string literal
tokens (no hypothesis on the values of escapes). -/
theorem stringconcat_spelled (t : Target) (parts : List Part) (hwf : ∀ p ∈ parts, ItemsWf 0x22 p.2) :
    stringconcat t false (parts.map Part.spell) =
      match sameOrNone .none (parts.map (·.1)) with
      | .ok p => .ok ⟨modelElemType t p,
          modelUnits (tsize (modelElemType t p)) (parts.map (·.2)).flatten ++ [0],
          (parts.map fun p => (spellAll p.2).length).sum + 1⟩
      | .error e => .error e := by
  unfold stringconcat
  have hc := collect_spelled .none parts
  rw [show code .none = 0 from rfl] at hc
  rw [hc]
  cases hs : sameOrNone .none (parts.map (·.1)) with
  | error e => rfl
  | ok p =>
    obtain ⟨enc, henc, hz⟩ := encoder_some (modelElemType t p)
    simp only [Bool.false_eq_true, if_false, kindType_code, henc, decodeParts_spelled henc parts hwf, hz,
      lens_eq parts hwf]


/-! ## connection with the spec functions -/

theorem modelElemType_eq (t : Target) (p : Prefix) : modelElemType t p = elemType t p := by
  cases p <;> rfl

theorem tsize_eq (ty : CType) : tsize ty = ty.size := by cases ty <;> rfl

theorem tsigned_eq (t : Target) (ty : CType) : tsigned t ty = ty.signed t := by cases ty <;> rfl

theorem sameOrNone_concat (ps : List Prefix) :
    sameOrNone .none ps = match concatPrefix ps with
      | .ok p => .ok p
      | _ => .error .prefixMismatch := by
  unfold sameOrNone concatPrefix
  have : (Prefix.none :: ps).filter (· ≠ .none) = ps.filter (· ≠ .none) := by simp
  rw [this]
  cases ps.filter (· ≠ .none) with
  | nil => rfl
  | cons p qs =>
    simp only
    by_cases h : ∀ q ∈ qs, q = p
    · rw [if_pos h, if_pos h]
    · rw [if_neg h, if_neg h]
      by_cases hu : Prefix.u8 ∈ p :: qs
      · rw [if_pos hu]
      · rw [if_neg hu]

theorem two_pow_pos' (n : Nat) : 1 ≤ 2 ^ n := Nat.one_le_two_pow

theorem itemModelUnits_eq {q size : Nat} {it : Item} (hs : size = 1 ∨ size = 2 ∨ size = 4) (hwf : it.wf q)
    (hr : InRange size it) : it.units size = some (itemModelUnits size it) := by
  cases it with
  | chr c => rfl
  | simple ch =>
    obtain ⟨v, hv⟩ := Option.isSome_iff_exists.1 hwf
    simp [Item.units, itemModelUnits, hv]
  | oct ds =>
    have hr : digitsValue 8 ds ≤ maxUnit size := hr
    simp only [Item.units, itemModelUnits, if_pos hr]
    unfold maxUnit at hr
    have := two_pow_pos' (8 * size)
    rw [Nat.mod_eq_of_lt (by omega)]
  | hex ds =>
    have hr : digitsValue 16 ds ≤ maxUnit size := hr
    simp only [Item.units, itemModelUnits, if_pos hr]
    unfold maxUnit at hr
    have := two_pow_pos' (8 * size)
    have h32 : 2 ^ (8 * size) ≤ 2 ^ 32 := Nat.pow_le_pow_right (by omega) (by omega)
    rw [Nat.mod_eq_of_lt (a := digitsValue 16 ds) (by omega), Nat.mod_eq_of_lt (by omega)]

theorem item_units_none {size : Nat} {q : Nat} {it : Item} (hwf : it.wf q) :
    it.units size = none ↔ ¬ InRange size it := by
  cases it with
  | chr c => simp [Item.units, InRange]
  | simple ch =>
    obtain ⟨v, hv⟩ := Option.isSome_iff_exists.1 hwf
    simp [Item.units, InRange, hv]
  | oct ds => simp only [Item.units, InRange]; split <;> simp [*]
  | hex ds => simp only [Item.units, InRange]; split <;> simp [*]

theorem itemsWf_all {q : Nat} {items : List Item} (h : ItemsWf q items) : ∀ it ∈ items, it.wf q := by
  induction items with
  | nil => simp
  | cons it items ih =>
    obtain ⟨hit, hrest, _⟩ := itemsWf_cons h
    intro x hx
    rcases List.mem_cons.1 hx with rfl | hx
    · exact hit
    · exact ih hrest x hx

theorem itemsUnits_eq {q size : Nat} (hs : size = 1 ∨ size = 2 ∨ size = 4) {items : List Item}
    (hwf : ∀ it ∈ items, it.wf q) (hr : ∀ it ∈ items, InRange size it) :
    itemsUnits size items = some (modelUnits size items) := by
  induction items with
  | nil => rfl
  | cons it items ih =>
    rw [itemsUnits, itemModelUnits_eq hs (hwf it (by simp)) (hr it (by simp)),
      ih (fun x hx => hwf x (by simp [hx])) (fun x hx => hr x (by simp [hx])), modelUnits_cons]

theorem itemsUnits_none {q size : Nat} {items : List Item}
    (hwf : ∀ it ∈ items, it.wf q) (hr : ¬ ∀ it ∈ items, InRange size it) :
    itemsUnits size items = none := by
  induction items with
  | nil => exact absurd (by simp) hr
  | cons it items ih =>
    rw [itemsUnits]
    by_cases h1 : InRange size it
    · have : ¬ ∀ it ∈ items, InRange size it := fun h => hr (by
        intro x hx; rcases List.mem_cons.1 hx with rfl | hx
        · exact h1
        · exact h x hx)
      rw [ih (fun x hx => hwf x (by simp [hx])) this]; split <;> simp_all
    · rw [(item_units_none (hwf it (by simp))).2 h1]


/-! ## buffer bound, UTF-16 -/

/-! buffer -/
theorem encode_length_le {size c : Nat} : (encode size c).length ≤ len8 c := by
  unfold encode
  split
  · rw [utf8Encode_length]; exact Nat.le_refl _
  · split
    · unfold utf16Encode len8
      repeat' split
      all_goals (simp only [List.length_cons, List.length_nil]; omega)
    · have := len8_bounds c; simp [utf32Encode]; omega

theorem itemModelUnits_length_le {q size : Nat} {it : Item} (hwf : it.wf q) :
    (itemModelUnits size it).length ≤ it.spell.length := by
  cases it with
  | chr c => simp only [itemModelUnits, Item.spell, utf8Encode_length]; exact encode_length_le
  | simple ch => simp [itemModelUnits, Item.spell]
  | oct ds => simp [itemModelUnits, Item.spell]
  | hex ds => simp [itemModelUnits, Item.spell]

theorem modelUnits_length_le {q size : Nat} {items : List Item} (hwf : ∀ it ∈ items, it.wf q) :
    (modelUnits size items).length ≤ (spellAll items).length := by
  induction items with
  | nil => simp [modelUnits, spellAll]
  | cons it items ih =>
    rw [modelUnits_cons, spellAll_cons, List.length_append, List.length_append]
    have := itemModelUnits_length_le (size := size) (hwf it (by simp))
    have := ih (fun x hx => hwf x (by simp [hx]))
    omega

theorem spellAll_flatten_length (parts : List Part) :
    (spellAll (parts.map (·.2)).flatten).length = (parts.map fun p => (spellAll p.2).length).sum := by
  induction parts with
  | nil => rfl
  | cons p ps ih =>
    simp only [List.map_cons, List.flatten_cons, List.sum_cons]
    rw [← ih]
    simp [spellAll]

/-! UTF-16 -/
theorem utf16_roundtrip_spec {c : Nat} (hc : isScalar c) (rest : List Nat) :
    utf16Decode (utf16Encode c ++ rest) = some (c, (utf16Encode c).length) ∧
      ((utf16Encode c).length = 1 ∨ (utf16Encode c).length = 2) ∧ ∀ u ∈ utf16Encode c, u < 2 ^ 16 := by
  unfold isScalar at hc
  unfold utf16Encode
  by_cases h : c < 0x10000
  · rw [if_pos h]
    refine ⟨?_, Or.inl rfl, by intro u hu; simp at hu; omega⟩
    simp only [List.cons_append, List.nil_append, utf16Decode, List.length_cons, List.length_nil]
    rw [if_pos (by omega)]
  · rw [if_neg h]
    refine ⟨?_, Or.inr rfl, by intro u hu; simp at hu; omega⟩
    simp only [List.cons_append, List.nil_append, utf16Decode, List.length_cons, List.length_nil]
    rw [if_neg (by omega), if_pos (by omega), if_pos (by omega)]
    simp only [Option.some.injEq, Prod.mk.injEq, and_true]; omega


/-! ## character constants -/

/-- value `decodechar` delivers for an item -/
def itemChr : Item → Nat
  | .chr c => c
  | .simple ch => (simpleEscape ch).getD 0
  | .oct ds => digitsValue 8 ds
  | .hex ds => digitsValue 16 ds % 2 ^ 32

theorem decodechar_item {q : Nat} {it : Item} (hwf : it.wf q) (rest : List Nat) (hne : NoExtend it rest) :
    ∃ hexoct, decodechar (it.spell ++ rest) = .ok (itemChr it, hexoct, it.spell.length) := by
  cases it with
  | chr c =>
    obtain ⟨hc, _, h5c, _, _⟩ := hwf
    exact ⟨false, by rw [Item.spell, utf8Encode_length]; exact decodechar_chr rest hc h5c⟩
  | simple ch =>
    obtain ⟨v, hv⟩ := Option.isSome_iff_exists.1 hwf
    exact ⟨false, by simp only [itemChr, hv, Option.getD_some]; exact decodechar_simple rest hv⟩
  | oct ds =>
    obtain ⟨h1, h3, hds⟩ := hwf
    refine ⟨true, ?_⟩
    have := decodechar_oct rest h1 h3 hds hne
    rw [Item.spell, List.length_cons, Nat.add_comm]; exact this
  | hex ds =>
    obtain ⟨h1, hds⟩ := hwf
    refine ⟨true, ?_⟩
    have := decodechar_hex rest h1 hds hne
    rw [Item.spell, List.length_cons, List.length_cons, show ds.length + 1 + 1 = 2 + ds.length by omega]
    exact this

/-- character type selected by the prefix `switch` of `primaryexpr` -/
def modelCharObj (t : Target) : Prefix → CType
  | .none => .char | .u8 => .uchar | .u => .ushort | .U => .uint | .L => t.wchar
def modelCharType (t : Target) : Prefix → CType
  | .none => .int | .u8 => .uchar | .u => .ushort | .U => .uint | .L => t.wchar

/-- Source spelling of a character constant with one item. -/
def spellChar (p : Prefix) (it : Item) : List Nat := p.spell ++ 0x27 :: (it.spell ++ [0x27])

/-- **What `primaryexpr` computes** for every well-formed single-item character constant. -/
theorem charconst_spelled (t : Target) (p : Prefix) {it : Item} (hwf : it.wf 0x27) :
    charconst t (spellChar p it) = .ok (modelCharType t p, charValue t (modelCharObj t p) (itemChr it)) := by
  have hne : NoExtend it [0x27] := by
    cases it <;> simp only [NoExtend, List.headD_cons] <;>
      first | trivial | (right; unfold isOctDigit; omega) | (unfold isHexDigit; omega)
  obtain ⟨ho, hd⟩ := decodechar_item hwf [0x27] hne
  have body : ∀ ty c, charconstBody t ty c (0x27 :: (it.spell ++ [0x27])) = .ok (ty, charValue t c (itemChr it)) := by
    intro ty c
    unfold charconstBody
    simp only [List.headD_cons, List.tail_cons, if_true, hd, List.drop_left, ne_eq, not_true_eq_false, if_false]
  unfold spellChar charconst
  cases p <;> simp [Prefix.spell, body, modelCharType, modelCharObj]

theorem shr_eq_one (v k : Nat) (hv : v < 2 ^ (k + 1)) : (v >>> k == 1) = decide (2 ^ k ≤ v) := by
  rw [Nat.shiftRight_eq_div_pow]
  have hp : 0 < 2 ^ k := Nat.two_pow_pos k
  have h2 : 2 ^ (k + 1) = 2 * 2 ^ k := by rw [Nat.pow_succ]; omega
  by_cases h : 2 ^ k ≤ v
  · have : v / 2 ^ k = 1 := by
      apply Nat.div_eq_of_lt_le <;> omega
    simp [this, h]
  · have : v / 2 ^ k = 0 := Nat.div_eq_of_lt (by omega)
    simp [this, h]

theorem or_high (v s : Nat) (hs : s = 1 ∨ s = 4) (hlt : v < 2 ^ (8 * s)) :
    v ||| ((2 ^ 64 - 1) <<< (s * 8)) % 2 ^ 64 = v + 2 ^ 64 - 2 ^ (8 * s) := by
  rcases hs with rfl | rfl
  · have : ((2 ^ 64 - 1) <<< (1 * 8)) % 2 ^ 64 = (2 ^ 56 - 1) * 2 ^ 8 := by decide +kernel
    rw [this, Nat.or_comm, or_eq_add _ _ _ (by omega)]; omega
  · have : ((2 ^ 64 - 1) <<< (4 * 8)) % 2 ^ 64 = (2 ^ 32 - 1) * 2 ^ 32 := by decide +kernel
    rw [this, Nat.or_comm, or_eq_add _ _ _ (by omega)]; omega

/-- the sign-extension of `primaryexpr` for a signed character type of `s` bytes -/
theorem signext_eq (v s : Nat) (hs : s = 1 ∨ s = 4) (hlt : v < 2 ^ (8 * s)) :
    (if (v >>> (s * 8 - 1) == 1) = true then v ||| ((2 ^ 64 - 1) <<< (s * 8)) % 2 ^ 64 else v) =
      (((if 2 * (v % 2 ^ (8 * s)) ≥ 2 ^ (8 * s) then ((v % 2 ^ (8 * s) : Nat) : Int) - ((2 ^ (8 * s) : Nat) : Int)
          else ((v % 2 ^ (8 * s) : Nat) : Int))) % (2 ^ 64 : Int)).toNat := by
  rw [or_high v s hs hlt, Nat.mod_eq_of_lt hlt]
  rcases hs with rfl | rfl
  · rw [shr_eq_one v 7 (by omega)]
    by_cases h : 2 ^ 7 ≤ v
    · rw [if_pos (by simpa using h), if_pos (by omega)]; omega
    · rw [if_neg (by simpa using h), if_neg (by omega)]; omega
  · rw [shr_eq_one v 31 (by omega)]
    by_cases h : 2 ^ 31 ≤ v
    · rw [if_pos (by simpa using h), if_pos (by omega)]; omega
    · rw [if_neg (by simpa using h), if_neg (by omega)]; omega

theorem charValue_eq (t : Target) (c : CType) (v : Nat) (hv : v ≤ maxUnit c.size) :
    charValue t c v = repr64 (c.wrap t v) := by
  unfold maxUnit at hv
  unfold charValue CType.wrap repr64
  rw [tsigned_eq, tsize_eq]
  have hs : c.size = 1 ∨ c.size = 2 ∨ c.size = 4 := by cases c <;> simp [CType.size]
  have hp : 1 ≤ 2 ^ (8 * c.size) := Nat.one_le_two_pow
  have hlt : v < 2 ^ (8 * c.size) := by omega
  have h64 : 2 ^ (8 * c.size) ≤ 2 ^ 32 := Nat.pow_le_pow_right (by omega) (by omega)
  by_cases hsg : c.signed t = true
  · have hs' : c.size = 1 ∨ c.size = 4 := by
      cases c <;> simp [CType.size, CType.signed] at hsg ⊢
    have := signext_eq v c.size hs' hlt
    simp only [hsg, Bool.true_and, true_and]
    exact this
  · have hf : c.signed t = false := by cases h : c.signed t <;> simp_all
    simp only [hf, Bool.false_and, Bool.false_eq_true, false_and, if_false]
    rw [Nat.mod_eq_of_lt hlt]
    omega


/-! ## the scanner on spelled items -/

theorem scanSimple_iff (ch : Nat) : scanSimple ch = true ↔ (simpleEscape ch).isSome := by
  have a : scanSimple ch = true ↔ (ch = 0x27 ∨ ch = 0x22 ∨ ch = 0x3f ∨ ch = 0x5c ∨ ch = 0x61 ∨ ch = 0x62 ∨
      ch = 0x66 ∨ ch = 0x6e ∨ ch = 0x72 ∨ ch = 0x74 ∨ ch = 0x76) := by
    simp [scanSimple]
  have b : (simpleEscape ch).isSome ↔ (ch = 0x27 ∨ ch = 0x22 ∨ ch = 0x3f ∨ ch = 0x5c ∨ ch = 0x61 ∨ ch = 0x62 ∨
      ch = 0x66 ∨ ch = 0x6e ∨ ch = 0x72 ∨ ch = 0x74 ∨ ch = 0x76) := by
    unfold simpleEscape
    split <;> simp_all
  rw [a, b]

theorem isodigit_false {b : Nat} (h : ¬ isOctDigit b) : isodigit b = false := by
  rcases hb : isodigit b with _ | _
  · rfl
  · exact absurd ((isodigit_iff b).1 hb) h

theorem isxdigit_false {b : Nat} (h : ¬ isHexDigit b) : isxdigit b = false := by
  rcases hb : isxdigit b with _ | _
  · rfl
  · exact absurd ((isxdigit_iff b).1 hb) h

theorem scanEscape_simple {ch : Nat} (R : List Nat) (h : (simpleEscape ch).isSome) :
    scanEscape (ch :: R) = .ok 1 := by
  obtain ⟨v, hv⟩ := Option.isSome_iff_exists.1 h
  have hx : ch ≠ 0x78 := by intro e; subst e; simp [simpleEscape] at hv
  have ho : ¬ isOctDigit ch := fun ho => by rw [simpleEscape_oct ho] at hv; cases hv
  have h0 : ch ≠ 0 := by intro e; subst e; simp [simpleEscape] at hv
  unfold scanEscape
  simp only [if_neg hx, isodigit_false ho, Bool.false_eq_true, if_false]
  rw [if_pos (by simp [h0, (scanSimple_iff ch).2 h])]

theorem scanEscape_oct {ds : List Nat} (R : List Nat) (h1 : 1 ≤ ds.length) (h3 : ds.length ≤ 3)
    (hds : ∀ d ∈ ds, isOctDigit d) (hne : ds.length = 3 ∨ ¬ isOctDigit (R.headD 0)) :
    scanEscape (ds ++ R) = .ok ds.length := by
  have dig : ∀ d ∈ ds, isodigit d = true ∧ d ≠ 0x78 := fun d hd => by
    have := hds d hd
    exact ⟨(isodigit_iff d).2 this, by unfold isOctDigit at this; omega⟩
  have hR : ds.length ≠ 3 → isodigit (R.headD 0) = false := fun h => by
    rcases hne with h' | h'
    · exact absurd h' h
    · exact isodigit_false h'
  have unf : ∀ a R', isodigit a = true → a ≠ 0x78 → scanEscape (a :: R') =
      if isodigit (R'.headD 0) = true then (if isodigit (R'.tail.headD 0) = true then .ok 3 else .ok 2)
      else .ok 1 := by
    intro a R' ha hx
    unfold scanEscape
    simp only []
    rw [if_neg hx, if_pos ha]
  rcases ds with _ | ⟨a, _ | ⟨b, _ | ⟨c, _ | ⟨d, ds⟩⟩⟩⟩
  · simp at h1
  · have := hR (by simp)
    rw [List.cons_append, List.nil_append, unf a R (dig a (by simp)).1 (dig a (by simp)).2, if_neg (by rw [this]; exact Bool.false_ne_true)]
    rfl
  · have := hR (by simp)
    rw [List.cons_append, List.cons_append, List.nil_append, unf a _ (dig a (by simp)).1 (dig a (by simp)).2]
    show (if isodigit b = true then (if isodigit (R.headD 0) = true then _ else _) else _) = _
    rw [if_pos (dig b (by simp)).1, if_neg (by rw [this]; exact Bool.false_ne_true)]
    rfl
  · rw [List.cons_append, List.cons_append, List.cons_append, List.nil_append,
      unf a _ (dig a (by simp)).1 (dig a (by simp)).2]
    show (if isodigit b = true then (if isodigit c = true then _ else _) else _) = _
    rw [if_pos (dig b (by simp)).1, if_pos (dig c (by simp)).1]
    rfl
  · simp at h3

theorem takeWhile_digits (ds R : List Nat) (hds : ∀ d ∈ ds, isHexDigit d) (hR : ¬ isHexDigit (R.headD 0)) :
    ((ds ++ R).takeWhile isxdigit).length = ds.length := by
  induction ds with
  | nil =>
    rcases R with _ | ⟨b, R⟩
    · rfl
    · have : isxdigit b = false := isxdigit_false hR
      simp [this]
  | cons d ds ih =>
    rw [List.cons_append, List.takeWhile_cons, if_pos ((isxdigit_iff d).2 (hds d (by simp))),
      List.length_cons, List.length_cons, ih (fun x hx => hds x (by simp [hx]))]

theorem scanEscape_hex {ds : List Nat} (R : List Nat) (h1 : 1 ≤ ds.length)
    (hds : ∀ d ∈ ds, isHexDigit d) (hne : ¬ isHexDigit (R.headD 0)) :
    scanEscape (0x78 :: ds ++ R) = .ok (1 + ds.length) := by
  rcases ds with _ | ⟨d, ds⟩
  · simp at h1
  have hd := (isxdigit_iff d).2 (hds d (by simp))
  have := takeWhile_digits (d :: ds) R hds hne
  unfold scanEscape
  simp only [List.cons_append, if_true, List.headD_cons, hd] at this ⊢
  rw [this]

/-- bytes that `charconst()`/`stringlit()` pass over one by one -/
def Plain (q b : Nat) : Prop := b ≠ 0x5c ∧ b ≠ q ∧ b ≠ 0x0a ∧ b ≠ 0

theorem scanBody_plain (q : Nat) (bs R : List Nat) (hb : ∀ b ∈ bs, Plain q b) (m f : Nat)
    (hm : ∀ f', f ≤ f' → scanBody q f' R = .ok m) :
    ∀ f', f + bs.length ≤ f' → scanBody q f' (bs ++ R) = .ok (bs.length + m) := by
  induction bs with
  | nil => intro f' hf; simpa using hm f' (by simpa using hf)
  | cons b bs ih =>
    intro f' hf
    rcases f' with _ | f'
    · simp at hf
    obtain ⟨h1, h2, h3, h4⟩ := hb b (by simp)
    rw [List.cons_append, scanBody, if_neg h1, if_neg h2, if_neg h3, if_neg h4,
      ih (fun x hx => hb x (by simp [hx])) f' (by simp at hf; omega)]
    simp <;> omega

theorem utf8Encode_plain {q c : Nat} (hq : q = 0x22 ∨ q = 0x27) (hc : c ≠ q) (h5c : c ≠ 0x5c) (hnl : c ≠ 0x0a)
    (h0 : c ≠ 0) : ∀ b ∈ utf8Encode c, Plain q b := by
  unfold utf8Encode Plain
  repeat' split
  all_goals (intro b hb; simp only [List.mem_cons, List.not_mem_nil, or_false] at hb; omega)

theorem scan_item {q : Nat} (hq : q = 0x22 ∨ q = 0x27) {it : Item} (hwf : it.wf q) (R : List Nat)
    (hne : NoExtend it R) (m f : Nat) (hm : ∀ f', f ≤ f' → scanBody q f' R = .ok m) :
    ∀ f', f + it.spell.length ≤ f' → scanBody q f' (it.spell ++ R) = .ok (it.spell.length + m) := by
  cases it with
  | chr c =>
    obtain ⟨_, hcq, h5c, hnl, h0⟩ := hwf
    exact scanBody_plain q _ R (utf8Encode_plain hq hcq h5c hnl h0) m f hm
  | simple ch =>
    intro f' hf
    rcases f' with _ | f'
    · simp [Item.spell] at hf
    simp only [Item.spell, List.cons_append, List.nil_append, scanBody, if_true, scanEscape_simple R hwf,
      List.drop_succ_cons, List.drop_zero]
    rw [hm f' (by simp [Item.spell] at hf; omega)]
    simp <;> omega
  | oct ds =>
    obtain ⟨h1, h3, hds⟩ := hwf
    intro f' hf
    rcases f' with _ | f'
    · simp [Item.spell] at hf
    simp only [Item.spell, List.cons_append, scanBody, if_true, scanEscape_oct R h1 h3 hds hne, List.drop_left]
    rw [hm f' (by simp [Item.spell] at hf; omega)]
    simp <;> omega
  | hex ds =>
    obtain ⟨h1, hds⟩ := hwf
    intro f' hf
    rcases f' with _ | f'
    · simp [Item.spell] at hf
    have hd : (0x78 :: (ds ++ R)).drop (1 + ds.length) = R := by
      rw [Nat.add_comm, List.drop_succ_cons, List.drop_left]
    have he := scanEscape_hex R h1 hds hne
    rw [List.cons_append] at he
    simp only [Item.spell, List.cons_append, scanBody, if_true, he, hd]
    rw [hm f' (by simp [Item.spell] at hf; omega)]
    simp <;> omega

/-- The scanner passes over the spelling of a well-formed item sequence and stops at the closing quote. -/
theorem scanBody_items {q : Nat} (hq : q = 0x22 ∨ q = 0x27) (items : List Item) (hwf : ItemsWf q items)
    (tail : List Nat) :
    ∀ f', (spellAll items).length + 1 ≤ f' →
      scanBody q f' (spellAll items ++ q :: tail) = .ok ((spellAll items).length + 1) := by
  induction items with
  | nil =>
    intro f' hf
    rcases f' with _ | f'
    · simp at hf
    have hq5 : q ≠ 0x5c := by omega
    simp [spellAll, scanBody, if_neg hq5]
  | cons it items ih =>
    obtain ⟨hit, hrest, hmm⟩ := itemsWf_cons hwf
    have hne := noExtend_next hq hrest hmm tail
    intro f' hf
    rw [spellAll_cons, List.length_append] at hf
    rw [spellAll_cons, List.append_assoc, List.length_append]
    have := scan_item hq hit _ hne ((spellAll items).length + 1) ((spellAll items).length + 1) (ih hrest) f' (by omega)
    rw [this, Nat.add_assoc]


/-! ## scanner + parser on source text -/

theorem prefixLen_spell (pre : Prefix) (q : Nat) (hq : q = 0x22 ∨ q = 0x27) (X : List Nat) :
    prefixLen (pre.spell ++ q :: X) = pre.spell.length := by
  have h75 : q ≠ 0x75 ∧ q ≠ 0x4c ∧ q ≠ 0x55 ∧ q ≠ 0x38 := by omega
  cases pre <;> simp [prefixLen, Prefix.spell, h75]

theorem scanLiteral_quote (pre : Prefix) (q : Nat) (hq : q = 0x22 ∨ q = 0x27) (items : List Item)
    (hwf : ItemsWf q items) (rest : List Nat) :
    scanLiteral (pre.spell ++ q :: (spellAll items ++ q :: rest)) =
      .ok (q == 0x22, pre.spell ++ q :: (spellAll items ++ [q]), rest) := by
  have hb := scanBody_items hq items hwf rest ((spellAll items ++ q :: rest).length + 1)
    (by rw [List.length_append, List.length_cons]; omega)
  have hq1 : (q = 0x22 || q = 0x27) = true := by rcases hq with rfl | rfl <;> rfl
  unfold scanLiteral
  rw [prefixLen_spell pre q hq]
  unfold scanQuoted
  rw [List.drop_left]
  simp only [hq1, if_true, hb]
  have e : pre.spell ++ q :: (spellAll items ++ q :: rest) = (pre.spell ++ q :: (spellAll items ++ [q])) ++ rest := by
    simp
  have l : pre.spell.length + 1 + ((spellAll items).length + 1) = (pre.spell ++ q :: (spellAll items ++ [q])).length := by
    simp; omega
  rw [l, e, List.take_left, List.drop_left]

theorem scanWhole_part (p : Part) (hwf : ItemsWf 0x22 p.2) : scanWhole p.spell = .ok (true, p.spell) := by
  have := scanLiteral_quote p.1 0x22 (Or.inl rfl) p.2 hwf []
  unfold scanWhole
  rw [part_spell, this]
  rfl

theorem scanWhole_char (pre : Prefix) {it : Item} (hwf : it.wf 0x27) :
    scanWhole (spellChar pre it) = .ok (false, spellChar pre it) := by
  have := scanLiteral_quote pre 0x27 (Or.inr rfl) [it] hwf []
  simp only [spellAll, List.map_cons, List.map_nil, List.flatten_cons, List.flatten_nil, List.append_nil] at this
  unfold scanWhole spellChar
  rw [this]
  rfl

theorem mapM_scanWhole (parts : List Part) (hwf : ∀ p ∈ parts, ItemsWf 0x22 p.2) :
    (parts.map Part.spell).mapM scanWhole = .ok (parts.map fun p => (true, p.spell)) := by
  induction parts with
  | nil => rfl
  | cons p ps ih =>
    rw [List.map_cons, List.mapM_cons, scanWhole_part p (hwf p (by simp)),
      ih (fun x hx => hwf x (by simp [hx]))]
    rfl

/-- scanner + `stringconcat` on the source text of well-formed adjacent string literal tokens -/
theorem stringLiteral_spelled (t : Target) (parts : List Part) (hne : parts ≠ [])
    (hwf : ∀ p ∈ parts, ItemsWf 0x22 p.2) :
    stringLiteral t (parts.map Part.spell) = stringconcat t false (parts.map Part.spell) := by
  unfold stringLiteral
  rw [mapM_scanWhole parts hwf]
  have h1 : ((parts.map fun p => (true, p.spell)).all (·.1) && (parts.map fun p => (true, p.spell)) ≠ []) = true := by
    cases parts with
    | nil => exact absurd rfl hne
    | cons p ps => simp
  simp only [h1, if_true, List.map_map]
  rfl

/-- scanner + `primaryexpr` on the source text of a well-formed character constant -/
theorem charLiteral_spelled (t : Target) (pre : Prefix) {it : Item} (hwf : it.wf 0x27) :
    charLiteral t (spellChar pre it) = charconst t (spellChar pre it) := by
  unfold charLiteral
  rw [scanWhole_char pre hwf]
  rfl


/-! ## safety of utf8dec, rejection of ill-formed input, multi-character constants -/

theorem rd_take (bs : List Nat) (k i : Nat) (h : i < k) : rd (bs.take k) i = rd bs i := by
  unfold rd
  simp [List.getD_eq_getElem?_getD, h]

theorem rd_eq_of_take {bs bs' : List Nat} {k : Nat} (h : bs'.take k = bs.take k) (i : Nat) (hi : i < k) :
    rd bs' i = rd bs i := by
  rw [← rd_take bs' k i hi, h, rd_take bs k i hi]

/-- `utf8dec` reads `s[0] .. s[r-1]` only: at most 4 bytes, within the limit `n` (byte 0 is always
read), no byte after a NUL, and its result is a function of exactly those bytes. -/
theorem utf8decR_safe (bs : List Nat) (n : Nat) :
    1 ≤ (utf8decR bs n).2 ∧ (utf8decR bs n).2 ≤ 4 ∧ ((utf8decR bs n).2 ≤ n ∨ (utf8decR bs n).2 = 1) ∧
    (∀ i, i + 1 < (utf8decR bs n).2 → rd bs i ≠ 0) ∧
    (∀ bs', bs'.take (utf8decR bs n).2 = bs.take (utf8decR bs n).2 → utf8decR bs' n = utf8decR bs n) ∧
    (∀ c l, (utf8decR bs n).1 = some (c, l) → l = (utf8decR bs n).2) := by
  have hr : (utf8decR bs n).2 = reads8 (rd bs 0) (rd bs 1) (rd bs 2) n := by rw [utf8decR_eq, dec8_reads]
  obtain ⟨b1, b4, bn, c0, c1, c2⟩ := reads8_bounds (rd bs 0) (rd bs 1) (rd bs 2) n
  rw [hr]
  refine ⟨b1, b4, bn, ?_, ?_, ?_⟩
  · intro i hi
    unfold isCont at c1 c2
    have : i = 0 ∨ i = 1 ∨ i = 2 := by omega
    rcases this with rfl | rfl | rfl
    · have := c0 (by omega); omega
    · have := c1 (by omega); omega
    · have := c2 (by omega); omega
  · intro bs' ht
    rw [utf8decR_eq, utf8decR_eq]
    have e0 : rd bs' 0 = rd bs 0 := rd_eq_of_take ht 0 (by omega)
    rw [e0]
    exact dec8_congr (fun h => rd_eq_of_take ht 1 (by omega)) (fun h => rd_eq_of_take ht 2 (by omega))
      (fun h => rd_eq_of_take ht 3 (by omega))
  · intro c l h
    have := dec8_some (b0 := rd bs 0) (b1 := rd bs 1) (b2 := rd bs 2) (b3 := rd bs 3) (n := n) (c := c) (l := l)
      (r := (utf8decR bs n).2) (by rw [← utf8decR_eq, ← h])
    rw [← hr]; exact this.1.symm

theorem utf8dec_some_row {bs : List Nat} {n c l : Nat} (h : utf8dec bs n = some (c, l)) :
    Row c l (rd bs 0) (rd bs 1) (rd bs 2) (rd bs 3) ∧ (l ≤ n ∨ l = 1) := by
  unfold utf8dec at h
  have := dec8_some (b0 := rd bs 0) (b1 := rd bs 1) (b2 := rd bs 2) (b3 := rd bs 3) (n := n) (c := c) (l := l)
    (r := (utf8decR bs n).2) (by rw [← utf8decR_eq, ← h])
  exact ⟨this.2.2, this.2.1⟩

theorem utf8dec_canonical' {bs : List Nat} {n c l : Nat} (hne : bs ≠ []) (hb : ∀ b ∈ bs, b < 256)
    (h : utf8dec bs n = some (c, l)) : isScalar c ∧ l = len8 c ∧ bs.take l = utf8Encode c := by
  obtain ⟨hrow, _⟩ := utf8dec_some_row h
  exact ⟨(row_scalar hrow).1, (row_scalar hrow).2, row_take hne hb hrow⟩

theorem decodechar_invalid {bs : List Nat} (hne : bs ≠ []) (hb : ∀ b ∈ bs, b < 256)
    (h5c : bs.headD 0 ≠ 0x5c) (hbad : ∀ l, l ≤ 4 → ¬ WellFormed8 (bs.take l)) :
    decodechar bs = .error .invalidUtf8 := by
  unfold decodechar
  rw [if_neg h5c]
  cases h : utf8dec bs 4 with
  | none => rfl
  | some cn =>
    obtain ⟨c, l⟩ := cn
    obtain ⟨hc, hl, ht⟩ := utf8dec_canonical' hne hb h
    exact absurd (ht ▸ wellFormed_encode hc) (hbad l (hl ▸ (len8_bounds c).2))

/-- A character constant with two items is rejected (`'ab'`: cproc does not support multi-character
constants, whose value is implementation-defined). -/
theorem charconst_two_items (t : Target) (p : Prefix) {a b : Item} (hwf : ItemsWf 0x27 [a, b]) (more : List Nat) :
    charconst t (p.spell ++ 0x27 :: (a.spell ++ (b.spell ++ more))) = .error .multiChar := by
  obtain ⟨ha, hm, hb⟩ := hwf
  have hb : b.wf 0x27 := hb
  obtain ⟨b0, s, hs, hbq, _, hhex, hoct⟩ := spell_head (Or.inr rfl) hb
  have hne : NoExtend a (b.spell ++ more) := by
    rw [hs]
    cases a with
    | chr c => trivial
    | simple ch => trivial
    | oct ds =>
      simp only [NoExtend, List.cons_append, List.headD_cons]
      by_cases hb0 : isOctDigit b0
      · have := hoct hb0; subst this; exact hm
      · exact Or.inr hb0
    | hex ds =>
      simp only [NoExtend, List.cons_append, List.headD_cons]
      intro hb0
      have := hhex hb0; subst this; exact hm hb0
  obtain ⟨ho, hd⟩ := decodechar_item ha (b.spell ++ more) hne
  have body : ∀ ty c, charconstBody t ty c (0x27 :: (a.spell ++ (b.spell ++ more))) = .error .multiChar := by
    intro ty c
    unfold charconstBody
    simp only [List.headD_cons, List.tail_cons, if_true, hd, List.drop_left]
    rw [hs]
    simp only [List.cons_append, List.headD_cons, ne_eq, hbq, not_false_eq_true, if_true]
  unfold charconst
  cases p <;> simp [Prefix.spell, body]


/-! ## names used by the property file and its examples -/

/-- Name of the `struct type` object a model type stands for. -/
def ctypeName : CType → String
  | .char => "typechar" | .uchar => "typeuchar" | .ushort => "typeushort" | .int => "typeint" | .uint => "typeuint"

def x86 : Target := ⟨"x86_64-sysv", true, .int⟩
def a64 : Target := ⟨"aarch64", false, .uint⟩
def rv64 : Target := ⟨"riscv64", false, .int⟩

/-- `"a\x41€" u"\101😀\n"` (two tokens, second with prefix `u`): source characters of 1, 3 and 4
UTF-8 bytes, a hexadecimal, an octal and a simple escape. -/
def exParts : List Part :=
  [(.none, [.chr 0x61, .hex [0x34, 0x31], .chr 0x20AC]), (.u, [.oct [0x31, 0x30, 0x31], .chr 0x1F600, .simple 0x6E])]


end CprocVerif.CharLit

import CprocVerif.Lemmas.InitEmit1

/-!
# Lemmas about `emitdata`, part 2: the outer loop (`emitGap`, `emitVal`, `emitFlat`)

Invariant `EInv`: `pre` are the cells emitted so far (`offset` of them), `old j` is cell `j` of the
image of the initialisers processed so far: `pre` below `offset`, the partial byte `bits` at
`offset`, zero above; `top` is the bit where the last initialiser ended.
-/

namespace CprocVerif.Image
open CprocVerif.Init

structure EInv (size : Nat) (pre : List Cell) (st : EmitSt) (top : Nat) (old : Nat → Cell) : Prop where
  len : pre.length = st.offset
  pre_eq : ∀ j, j < st.offset → pre[j]? = some (old j)
  cur : old st.offset = .byte st.bits
  rest : ∀ j, st.offset < j → old j = .byte 0
  top_lo : 8 * st.offset ≤ top
  top_hi : top < 8 * st.offset + 8
  bits_lt : st.bits < 2 ^ (top - 8 * st.offset)
  top_size : top ≤ 8 * size

theorem einv_init (size : Nat) : EInv size [] {} 0 (fun _ => .byte 0) :=
  ⟨rfl, fun j h => by simp at h, rfl, fun _ _ => rfl, by simp, by simp, by simp, by simp⟩

/-- appending cells described pointwise -/
theorem append_fn {pre cells : List Cell} {o n : Nat} {f : Nat → Cell}
    (hl : pre.length = o) (hp : ∀ j, j < o → pre[j]? = some (f j))
    (hcl : cells.length = n) (hc : ∀ k, k < n → cells[k]? = some (f (o + k))) :
    (pre ++ cells).length = o + n ∧ ∀ j, j < o + n → (pre ++ cells)[j]? = some (f j) := by
  refine ⟨by simp [hl, hcl], ?_⟩
  intro j hj
  by_cases h : j < o
  · rw [List.getElem?_append_left (by omega)]; exact hp j h
  · rw [List.getElem?_append_right (by omega), hl, hc (j - o) (by omega)]
    congr 2; omega

/-! ## items to cells -/

theorem bytes_nil : bytes [] = [] := rfl
theorem bytes_cons (i : Item) (l : List Item) : bytes (i :: l) = i.cells ++ bytes l := by
  simp [bytes]
theorem bytes_append (l m : List Item) : bytes (l ++ m) = bytes l ++ bytes m := by
  simp [bytes]
theorem bytes_single (i : Item) : bytes [i] = i.cells := by simp [bytes]

theorem bitBytes_snd (b n : Nat) : (bitBytes b n).2 = b / 2 ^ (8 * n) := by
  induction n generalizing b with
  | zero => simp [bitBytes]
  | succ n ih =>
    rw [bitBytes, ih, Nat.div_div_eq_div_mul, show 8 * (n + 1) = 8 + 8 * n by omega, Nat.pow_add]

theorem bytes_bitBytes (b n : Nat) : (bytes (bitBytes b n).1).length = n ∧
    ∀ k, k < n → (bytes (bitBytes b n).1)[k]? = some (.byte (b / 2 ^ (8 * k) % 256)) := by
  induction n generalizing b with
  | zero => exact ⟨rfl, fun k h => by omega⟩
  | succ n ih =>
    rw [bitBytes, bytes_cons]
    have hc : (Item.num 1 (b % 256)).cells = [.byte (b % 256)] := by
      simp [Item.cells, leBytes, Nat.mod_mod]
    rw [hc]
    refine ⟨by simp [(ih (b / 256)).1], ?_⟩
    intro k hk
    cases k with
    | zero => simp
    | succ k =>
      rw [List.singleton_append, List.getElem?_cons_succ, (ih (b / 256)).2 k (by omega)]
      congr 2
      rw [Nat.div_div_eq_div_mul, show 8 * (k + 1) = 8 + 8 * k by omega, Nat.pow_add]

/-! ## the gap -/

theorem pow_le_pow_two {a b : Nat} (h : a ≤ b) : 2 ^ a ≤ 2 ^ b := Nat.pow_le_pow_right (by omega) h

theorem gap_spec {size : Nat} {pre : List Cell} {st : EmitSt} {top : Nat} {old : Nat → Cell}
    (inv : EInv size pre st top old) {lo s : Nat} (h1 : top ≤ lo) (h2 : lo ≤ 8 * size)
    (hs : 8 * s ≤ lo ∧ lo < 8 * s + 8) :
    EInv size (pre ++ bytes (emitGap st s).1) ⟨s, (emitGap st s).2⟩ lo old := by
  obtain ⟨len, pre_eq, cur, rest, top_lo, top_hi, bits_lt, top_size⟩ := inv
  have hos : st.offset ≤ s := by omega
  have hb128 : st.bits < 128 := by
    have : 2 ^ (top - 8 * st.offset) ≤ 2 ^ 7 := pow_le_pow_two (by omega)
    omega
  rcases Nat.lt_or_eq_of_le hos with hlt | heq
  · -- a real gap
    by_cases hb : st.bits = 0
    · have hg : emitGap st s = ([Item.z (s - st.offset)], 0) := by
        unfold emitGap; simp [hlt, hb]
      rw [hg]
      have := append_fn (f := old) len pre_eq (cells := bytes [Item.z (s - st.offset)]) (n := s - st.offset)
        (by simp [bytes_single, Item.cells])
        (by
          intro k hk
          rw [bytes_single]; simp only [Item.cells]
          rw [List.getElem?_replicate_of_lt hk]
          cases k with
          | zero => rw [Nat.add_zero, cur, hb]
          | succ k => rw [rest _ (by omega)])
      refine ⟨by rw [this.1]; simp; omega, fun j hj => this.2 j (by simp at hj ⊢; omega), ?_, ?_, hs.1, hs.2, ?_, h2⟩
      · exact rest s hlt
      · intro j hj; exact rest j (by simp at hj; omega)
      · exact Nat.two_pow_pos _
    · have hg : emitGap st s = ([Item.num 1 (st.bits % 2 ^ 32)] ++
          (if st.offset + 1 < s then [Item.z (s - (st.offset + 1))] else []), 0) := by
        unfold emitGap; simp [hlt, hb]
      rw [hg]
      have hcells : bytes ([Item.num 1 (st.bits % 2 ^ 32)] ++
          (if st.offset + 1 < s then [Item.z (s - (st.offset + 1))] else [])) =
          Cell.byte st.bits :: List.replicate (s - (st.offset + 1)) (.byte 0) := by
        rw [bytes_append, bytes_single]
        have e1 : (Item.num 1 (st.bits % 2 ^ 32)).cells = [.byte st.bits] := by
          simp only [Item.cells, leBytes]
          rw [Nat.mod_eq_of_lt (a := st.bits) (by omega), Nat.mod_eq_of_lt (by omega)]
        rw [e1]
        split
        · rw [bytes_single]; rfl
        · rename_i h; rw [show s - (st.offset + 1) = 0 by omega]; rfl
      rw [hcells]
      have := append_fn (f := old) len pre_eq
        (cells := Cell.byte st.bits :: List.replicate (s - (st.offset + 1)) (.byte 0)) (n := s - st.offset)
        (by simp; omega)
        (by
          intro k hk
          cases k with
          | zero => simp [cur]
          | succ k =>
            rw [List.getElem?_cons_succ, List.getElem?_replicate_of_lt (by omega), rest _ (by omega)])
      refine ⟨by rw [this.1]; simp; omega, fun j hj => this.2 j (by simp at hj ⊢; omega), ?_, ?_, hs.1, hs.2, ?_, h2⟩
      · exact rest s hlt
      · intro j hj; exact rest j (by simp at hj; omega)
      · exact Nat.two_pow_pos _
  · -- no gap
    have hg : emitGap st s = ([], st.bits) := by
      unfold emitGap; simp [heq]
    rw [hg, bytes_nil, List.append_nil]
    refine ⟨by simpa [heq] using len, fun j hj => pre_eq j (by simp at hj; omega), by simpa [← heq] using cur,
      fun j hj => rest j (by simp at hj; omega), hs.1, hs.2, ?_, h2⟩
    simp only []
    exact Nat.lt_of_lt_of_le bits_lt (pow_le_pow_two (by omega))

/-! ## values that occupy whole bytes -/

/-- cells of the item that `dataitem` prints for a byte-aligned value -/
theorem dataitem_cells {size : Nat} {cur : Init} (hw : Wf size cur) (hb : cur.before = 0 ∧ cur.after = 0) :
    ∃ it, dataitem cur.val (cur.stop - cur.start) = some it ∧ it.cells.length = cur.stop - cur.start ∧
      ∀ k, k < cur.stop - cur.start → ∀ c, it.cells[k]? = some (writeCell cur (cur.start + k) c) := by
  have hne := hw.ne
  have hsh := hw.shape
  have hlo : cur.lo = 8 * cur.start := by unfold Init.lo; omega
  have hhi : cur.hi = 8 * cur.stop := by unfold Init.hi; omega
  have htouch : ∀ k, k < cur.stop - cur.start → touches cur (cur.start + k) := by
    intro k hk; unfold touches; omega
  cases hv : cur.val with
  | int w u =>
    rw [hv] at hsh
    have hw' : w = cur.stop - cur.start := hsh.1 hb
    refine ⟨.num w u, rfl, by simp [Item.cells, length_leBytes, hw'], ?_⟩
    intro k hk c
    simp only [Item.cells]
    rw [getElem?_leBytes (by omega), writeCell_int hv (htouch k hk)]
    unfold intCell
    congr 2
    rw [← ofBits_shift]
    apply ofBits_congr
    intro m hm
    rw [if_pos (by omega)]
    congr 1
    omega
  | flt w b =>
    rw [hv] at hsh
    refine ⟨.flt w b, rfl, by simp [Item.cells, length_leBytes, hsh.2.2], ?_⟩
    intro k hk c
    simp only [Item.cells]
    rw [getElem?_leBytes (by omega), writeCell_byteval (by intro a b; rw [hv]; simp) (htouch k hk), hv]
    simp [valCell]
  | addr s o =>
    rw [hv] at hsh
    refine ⟨.addr s o, rfl, by simp [Item.cells, length_relCells, hsh.2.2], ?_⟩
    intro k hk c
    simp only [Item.cells]
    rw [getElem?_relCells (by omega), writeCell_byteval (by intro a b; rw [hv]; simp) (htouch k hk), hv]
    simp [valCell]
  | str w cs =>
    rw [hv] at hsh
    obtain ⟨_, _, hw3, hmod⟩ := hsh
    have hwpos : 0 < w := by omega
    -- the array holds `n` elements
    have hdiv : (cur.stop - cur.start + w - 1) / w = (cur.stop - cur.start) / w := by
      have e := Nat.div_add_mod (cur.stop - cur.start) w
      rw [hmod] at e
      have : cur.stop - cur.start + w - 1 = (w - 1) + w * ((cur.stop - cur.start) / w) := by omega
      rw [this, Nat.add_mul_div_left _ _ hwpos, Nat.div_eq_of_lt (by omega)]; omega
    have hsz : (cur.stop - cur.start) / w * w = cur.stop - cur.start := by
      have e := Nat.div_add_mod (cur.stop - cur.start) w
      rw [hmod, Nat.mul_comm] at e; omega
    refine ⟨.str w (cs.take (min cs.length ((cur.stop - cur.start + w - 1) / w)))
      (cur.stop - cur.start - min cs.length ((cur.stop - cur.start + w - 1) / w) * w), rfl, ?_, ?_⟩
    · simp only [Item.cells, List.length_append, length_flatMap_leBytes, List.length_take, List.length_replicate]
      rw [hdiv]
      have : min (min cs.length ((cur.stop - cur.start) / w)) cs.length * w ≤ cur.stop - cur.start := by
        have : min (min cs.length ((cur.stop - cur.start) / w)) cs.length ≤ (cur.stop - cur.start) / w := by omega
        calc _ ≤ (cur.stop - cur.start) / w * w := Nat.mul_le_mul_right _ this
          _ = _ := hsz
      have e : min (min cs.length ((cur.stop - cur.start) / w)) cs.length = min cs.length ((cur.stop - cur.start) / w) := by omega
      rw [e] at this ⊢
      omega
    · intro k hk c
      rw [writeCell_byteval (by intro a b; rw [hv]; simp) (htouch k hk), hv]
      simp only [Item.cells, valCell, Nat.add_sub_cancel_left]
      rw [hdiv]
      have hkw : k / w < (cur.stop - cur.start) / w := by
        rw [Nat.div_lt_iff_lt_mul hwpos, hsz]; exact hk
      by_cases hin : k / w < cs.length
      · -- inside the literal
        have hlen : k < (cs.take (min cs.length ((cur.stop - cur.start) / w))).length * w := by
          rw [List.length_take]
          have : k / w < min (min cs.length ((cur.stop - cur.start) / w)) cs.length := by omega
          calc k < (k / w + 1) * w := by
                have := Nat.div_add_mod k w; have := Nat.mod_lt k hwpos
                rw [Nat.add_mul, Nat.mul_comm]; omega
            _ ≤ _ := Nat.mul_le_mul_right _ this
        rw [List.getElem?_append_left (by rw [length_flatMap_leBytes]; exact hlen),
          getElem?_flatMap_leBytes hwpos hlen]
        congr 3
        rw [List.getD_eq_getElem?_getD, List.getD_eq_getElem?_getD, List.getElem?_take]
        rw [if_pos (by omega)]
      · -- past the literal: zero fill
        have hlen : (cs.take (min cs.length ((cur.stop - cur.start) / w))).length = cs.length := by
          rw [List.length_take]; omega
        have hge : cs.length * w ≤ k := by
          have := Nat.div_mul_le_self k w
          calc cs.length * w ≤ k / w * w := Nat.mul_le_mul_right _ (by omega)
            _ ≤ k := this
        rw [List.getElem?_append_right (by rw [length_flatMap_leBytes, hlen]; exact hge),
          length_flatMap_leBytes, hlen, List.getElem?_replicate_of_lt]
        · rw [List.getD_eq_getElem?_getD, List.getElem?_eq_none (by omega)]
          simp
        · have e : min cs.length ((cur.stop - cur.start) / w) = cs.length := by omega
          rw [e]; omega
  | other => rw [hv] at hsh; exact absurd hsh (by simp)

end CprocVerif.Image

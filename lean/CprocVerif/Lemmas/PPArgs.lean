import CprocVerif.Lemmas.PPObjSim

/-! # Argument collection: the parenthesis/comma logic of `expandfunc` splits at top-level commas

`collect` is the pair of nested loops of `expandfunc` run on a plain token list: every token is
at invocation level (`macrodepth <= depth`) and `expand` declines it, `argnext` delivers the next
token of the list.  It is shown to return exactly what the reference computes in two passes:
`matchParen` (find the `)` that matches) and `splitTop` (cut at the commas outside parentheses,
at most as many times as there are named parameters when the macro is variadic). -/

namespace CprocVerif.PP
open CprocVerif.Gen.TokenKinds
open CprocVerif.Spec.MacroRef (HTok Item matchParen splitTop)
open CprocVerif.Spec

/-- the argument loops of `expandfunc` on a plain token list: `i` = parameter index, `paren` =
open parentheses, `cur` = tokens of the argument so far (last first), `done` = finished arguments
(last first).  Result: all arguments in order, and the tokens after the closing parenthesis. -/
def collect (ps : List Param) : Nat → Nat → List Tok → List (List Tok) → List Tok →
    Except Err (List (List Tok) × List Tok)
  | _, _, _, _, [] => .error .eofInArgs
  | i, paren, cur, done, t :: r =>
    if paren = 0 ∧ (t.kind = .TRPAREN ∨ (t.kind = .TCOMMA ∧ (ps.getD i default).fvar = false)) then
      if t.kind = .TRPAREN ∨ i + 1 = ps.length then
        if i + 1 < ps.length then .error .notEnoughArgs
        else if t.kind ≠ .TRPAREN then .error .tooManyArgs
        else .ok ((cur.reverse :: done).reverse, r)
      else collect ps (i + 1) 0 [] (cur.reverse :: done) r
    else
      collect ps i
        (if t.kind = .TLPAREN then paren + 1 else if t.kind = .TRPAREN then paren - 1 else paren)
        (t :: cur) done r

def hT (t : Tok) : HTok := mkH [] t
def iT (t : Tok) : Item := .tok (hT t)

/-- only the last parameter can be `...` (what `define` builds) -/
def VarLast (ps : List Param) : Prop := ∀ j, j + 1 < ps.length → (ps.getD j default).fvar = false

theorem matchParen_acc : ∀ (l : List Item) (d : Nat) (acc : List HTok),
    matchParen l d acc = (matchParen l d []).map fun x => (acc.reverse ++ x.1, x.2.1, x.2.2.1, x.2.2.2) := by
  intro l
  induction l with
  | nil => intro d acc; rfl
  | cons i r ih =>
    intro d acc
    cases i with
    | dir dd =>
      simp only [matchParen]
      rw [ih d acc]
      cases matchParen r d [] with
      | none => rfl
      | some x => rfl
    | tok t =>
      simp only [matchParen]
      split
      · split
        · simp
        · rw [ih (d - 1) (t :: acc), ih (d - 1) [t]]
          cases matchParen r (d - 1) [] with
          | none => rfl
          | some x => simp
      · split
        · rw [ih (d + 1) (t :: acc), ih (d + 1) [t]]
          cases matchParen r (d + 1) [] with
          | none => rfl
          | some x => simp
        · rw [ih d (t :: acc), ih d [t]]
          cases matchParen r d [] with
          | none => rfl
          | some x => simp

theorem splitTop_big : ∀ (l : List HTok) (n m d : Nat) (cur : List HTok), l.length < n → l.length < m →
    splitTop n d l cur = splitTop m d l cur := by
  intro l
  induction l with
  | nil => intro n m d cur _ _; rfl
  | cons t r ih =>
    intro n m d cur hn hm
    simp only [List.length_cons] at hn hm
    unfold splitTop
    have h1 : n ≠ 0 := by omega
    have h2 : m ≠ 0 := by omega
    simp only [h1, h2, ne_eq, not_false_eq_true, and_true]
    split
    · rw [ih (n - 1) (m - 1) d [] (by omega) (by omega)]
    · split
      · exact ih n m (d + 1) _ (by omega) (by omega)
      · split
        · exact ih n m (d - 1) _ (by omega) (by omega)
        · exact ih n m d _ (by omega) (by omega)


theorem splitTop_comma (n d : Nat) (t : HTok) (r cur : List HTok) (hk : t.tok.kind = .TCOMMA) (hd : d = 0)
    (hn : n ≠ 0) : splitTop n d (t :: r) cur = cur.reverse :: splitTop (n - 1) d r [] := by
  rw [splitTop]; simp [hk, hd, hn]

theorem splitTop_other (n d : Nat) (t : HTok) (r cur : List HTok)
    (h : ¬ (t.tok.kind = .TCOMMA ∧ d = 0 ∧ n ≠ 0)) :
    splitTop n d (t :: r) cur =
      splitTop n (if t.tok.kind = .TLPAREN then d + 1 else if t.tok.kind = .TRPAREN then d - 1 else d) r (t :: cur) := by
  rw [splitTop]
  simp only [h, ↓reduceIte]
  split
  · rfl
  · split <;> rfl

/-- how many more top-level commas may split: the named parameters still to come when the macro is
variadic, else any number larger than the length of the rest -/
def splitsLeft (ps : List Param) (i : Nat) (seg : List Tok) : Nat :=
  if (ps.getD (ps.length - 1) default).fvar then ps.length - 1 - i else seg.length + 1

/-- `collect` = find the matching `)` + split at top-level commas; the `)` found does not depend on
what follows it -/
theorem collect_specX (ps : List Param) (hv : VarLast ps) : ∀ (ts : List Tok) (i paren : Nat) (cur : List Tok)
    (done args : List (List Tok)) (rest : List Tok), i < ps.length →
    collect ps i paren cur done ts = .ok (args, rest) →
    ∃ seg rp, ts = seg ++ rp :: rest ∧ rp.kind = .TRPAREN ∧
      (∀ X : List Item, matchParen (seg.map iT ++ iT rp :: X) paren [] = some (seg.map hT, hT rp, X, false)) ∧
      args.map (·.map hT) = (done.reverse).map (·.map hT) ++
        splitTop (splitsLeft ps i seg) paren (seg.map hT) (cur.map hT) := by
  intro ts
  induction ts with
  | nil => intro i paren cur done args rest _ h; simp [collect] at h
  | cons t r ih =>
    intro i paren cur done args rest hi h
    unfold collect at h
    split at h
    · rename_i hc
      obtain ⟨hp0, hk⟩ := hc
      split at h
      · rename_i hfin
        split at h
        · cases h
        · split at h
          · cases h
          · rename_i hnotlt hrp
            have hrp' : t.kind = .TRPAREN := by simpa using hrp
            cases h
            refine ⟨[], t, rfl, hrp', ?_, ?_⟩
            · intro X; simp [matchParen, iT, hT, mkH, toP, hrp', hp0]
            · simp [splitTop, List.map_reverse]
      · rename_i hfin
        have hnr : t.kind ≠ .TRPAREN := fun hh => hfin (.inl hh)
        have hlast : i + 1 ≠ ps.length := fun hh => hfin (.inr hh)
        have hcomma : t.kind = .TCOMMA ∧ (ps.getD i default).fvar = false := by
          rcases hk with hk | hk
          · exact absurd hk hnr
          · exact hk
        obtain ⟨seg, rp, hts, hrp, hm, ha⟩ := ih (i + 1) 0 [] (cur.reverse :: done) args rest (by omega) h
        refine ⟨t :: seg, rp, by rw [hts]; rfl, hrp, ?_, ?_⟩
        · intro X
          simp only [List.map_cons, List.cons_append, matchParen, iT]
          have h1 : (hT t).tok.kind ≠ .TRPAREN := hnr
          have h2 : (hT t).tok.kind ≠ .TLPAREN := by
            show t.kind ≠ _; rw [hcomma.1]; decide
          simp only [h1, h2, ↓reduceIte, hp0]
          have := hm X
          simp only [iT] at this
          rw [matchParen_acc, this]
          simp
        · rw [ha]
          have hk1 : (hT t).tok.kind = .TCOMMA := hcomma.1
          simp only [List.reverse_cons, List.map_append, List.map_cons, List.map_nil, List.append_assoc,
            List.cons_append, List.nil_append, List.map_reverse]
          congr 1
          by_cases hva : (ps.getD (ps.length - 1) default).fvar = true
          · have hn : splitsLeft ps i (t :: seg) ≠ 0 := by
              unfold splitsLeft; simp only [hva, ↓reduceIte]; omega
            have hn' : splitsLeft ps i (t :: seg) - 1 = splitsLeft ps (i + 1) seg := by
              unfold splitsLeft; simp only [hva, ↓reduceIte]; omega
            subst hp0
            rw [splitTop_comma _ _ _ _ _ hk1 rfl hn, hn']
          · have hn : splitsLeft ps i (t :: seg) ≠ 0 := by
              unfold splitsLeft; simp only [hva, Bool.false_eq_true, ↓reduceIte]; omega
            subst hp0
            rw [splitTop_comma _ _ _ _ _ hk1 rfl hn]
            congr 1
            apply splitTop_big
            · unfold splitsLeft; simp only [hva, Bool.false_eq_true, ↓reduceIte, List.length_map]; omega
            · unfold splitsLeft; simp only [hva, Bool.false_eq_true, ↓reduceIte, List.length_map, List.length_cons]; omega
    · rename_i hc
      obtain ⟨seg, rp, hts, hrp, hm, ha⟩ := ih i _ (t :: cur) done args rest hi h
      refine ⟨t :: seg, rp, by rw [hts]; rfl, hrp, ?_, ?_⟩
      · -- the token is not the matching parenthesis
        intro X
        have hmX := hm X
        simp only [iT] at hmX
        simp only [List.map_cons, List.cons_append, matchParen, iT]
        by_cases hr : t.kind = .TRPAREN
        · have h1 : (hT t).tok.kind = .TRPAREN := hr
          have hp : paren ≠ 0 := fun hp0 => hc ⟨hp0, .inl hr⟩
          have hd' : (if t.kind = Kind.TLPAREN then paren + 1 else if t.kind = Kind.TRPAREN then paren - 1 else paren)
              = paren - 1 := by simp [hr]
          rw [hd'] at hmX
          simp only [h1, ↓reduceIte, hp]
          rw [matchParen_acc, hmX]
          simp
        · have h1 : (hT t).tok.kind ≠ .TRPAREN := hr
          simp only [h1, ↓reduceIte]
          by_cases hl : t.kind = .TLPAREN
          · have h2 : (hT t).tok.kind = .TLPAREN := hl
            simp only [hl, ↓reduceIte] at hmX
            simp only [h2, ↓reduceIte]
            rw [matchParen_acc, hmX]
            simp
          · have h2 : (hT t).tok.kind ≠ .TLPAREN := hl
            simp only [hl, hr, ↓reduceIte] at hmX
            simp only [h2, ↓reduceIte]
            rw [matchParen_acc, hmX]
            simp
      · rw [ha]
        congr 1
        simp only [List.map_cons]
        have hnc : ¬ ((hT t).tok.kind = .TCOMMA ∧ paren = 0 ∧ splitsLeft ps i (t :: seg) ≠ 0) := by
          rintro ⟨hk, hp0, hn⟩
          have hk' : t.kind = .TCOMMA := hk
          -- a top-level comma that does not end the argument: the parameter is `...`
          have hvar : (ps.getD i default).fvar = true := by
            cases hf : (ps.getD i default).fvar with
            | true => rfl
            | false => exact absurd ⟨hp0, .inr ⟨hk', hf⟩⟩ hc
          have hil : i + 1 = ps.length := by
            by_cases hlt : i + 1 < ps.length
            · rw [hv i hlt] at hvar; cases hvar
            · omega
          have hlast : (ps.getD (ps.length - 1) default).fvar = true := by
            rw [show ps.length - 1 = i by omega]; exact hvar
          unfold splitsLeft at hn
          simp only [hlast, ↓reduceIte] at hn
          omega
        rw [splitTop_other _ _ _ _ _ hnc]
        have hsl : splitsLeft ps i (t :: seg) = splitsLeft ps i seg ∨
            ((ps.getD (ps.length - 1) default).fvar = false) := by
          by_cases hva : (ps.getD (ps.length - 1) default).fvar = true
          · left; unfold splitsLeft; rw [if_pos hva, if_pos hva]
          · right; simpa using hva
        have hd : (if (hT t).tok.kind = Kind.TLPAREN then paren + 1 else if (hT t).tok.kind = Kind.TRPAREN then paren - 1 else paren)
            = (if t.kind = Kind.TLPAREN then paren + 1 else if t.kind = Kind.TRPAREN then paren - 1 else paren) := rfl
        rw [hd]
        rcases hsl with hsl | hsl
        · rw [hsl]
        · show splitTop _ _ _ _ = splitTop _ _ _ (List.map hT (t :: cur))
          apply splitTop_big
          · unfold splitsLeft; simp only [hsl, Bool.false_eq_true, ↓reduceIte, List.length_map, List.length_cons]; omega
          · unfold splitsLeft; simp only [hsl, Bool.false_eq_true, ↓reduceIte, List.length_map, List.length_cons]; omega

/-- **`collect` = find the matching `)` + split at top-level commas.** -/
theorem collect_spec (ps : List Param) (hv : VarLast ps) (ts : List Tok) (i paren : Nat) (cur : List Tok)
    (done args : List (List Tok)) (rest : List Tok) (hi : i < ps.length)
    (h : collect ps i paren cur done ts = .ok (args, rest)) :
    ∃ seg rp, ts = seg ++ rp :: rest ∧ rp.kind = .TRPAREN ∧
      matchParen (ts.map iT) paren [] = some (seg.map hT, hT rp, rest.map iT, false) ∧
      args.map (·.map hT) = (done.reverse).map (·.map hT) ++
        splitTop (splitsLeft ps i seg) paren (seg.map hT) (cur.map hT) := by
  obtain ⟨seg, rp, h1, h2, h3, h4⟩ := collect_specX ps hv ts i paren cur done args rest hi h
  refine ⟨seg, rp, h1, h2, ?_, h4⟩
  rw [h1]
  simpa using h3 (rest.map iT)


/-- on success there is exactly one argument per parameter -/
theorem collect_length (ps : List Param) : ∀ (ts : List Tok) (i paren : Nat) (cur : List Tok)
    (done args : List (List Tok)) (rest : List Tok), done.length = i → i < ps.length →
    collect ps i paren cur done ts = .ok (args, rest) → args.length = ps.length := by
  intro ts
  induction ts with
  | nil => intro i paren cur done args rest _ _ h; simp [collect] at h
  | cons t r ih =>
    intro i paren cur done args rest hd hi h
    unfold collect at h
    split at h
    · split at h
      · split at h
        · cases h
        · split at h
          · cases h
          · cases h
            simp only [List.length_reverse, List.length_cons, hd]
            omega
      · rename_i hfin
        have : i + 1 ≠ ps.length := fun hh => hfin (.inr hh)
        exact ih (i + 1) 0 [] _ args rest (by simp [hd]) (by omega) h
    · exact ih i _ _ done args rest hd hi h

/-- the tokens of the arguments are tokens of the list -/
theorem collect_mem (ps : List Param) : ∀ (ts : List Tok) (i paren : Nat) (cur : List Tok)
    (done args : List (List Tok)) (rest : List Tok),
    collect ps i paren cur done ts = .ok (args, rest) →
    ∀ a ∈ args, ∀ x ∈ a, x ∈ ts ∨ x ∈ cur ∨ ∃ d ∈ done, x ∈ d := by
  intro ts
  induction ts with
  | nil => intro i paren cur done args rest h; simp [collect] at h
  | cons t r ih =>
    intro i paren cur done args rest h a ha x hx
    unfold collect at h
    split at h
    · split at h
      · split at h
        · cases h
        · split at h
          · cases h
          · cases h
            simp only [List.mem_reverse, List.mem_cons] at ha
            rcases ha with rfl | ha
            · right; left; simpa using hx
            · right; right; exact ⟨a, ha, hx⟩
      · rcases ih _ _ _ _ args rest h a ha x hx with h1 | h1 | ⟨d, hd, hxd⟩
        · left; exact List.mem_cons_of_mem _ h1
        · cases h1
        · rcases List.mem_cons.mp hd with rfl | hd
          · right; left; simpa using hxd
          · right; right; exact ⟨d, hd, hxd⟩
    · rcases ih _ _ _ _ args rest h a ha x hx with h1 | h1 | h1
      · left; exact List.mem_cons_of_mem _ h1
      · rcases List.mem_cons.mp h1 with rfl | h1
        · left; exact List.mem_cons_self ..
        · right; left; exact h1
      · right; right; exact h1

end CprocVerif.PP

import CprocVerif.Lemmas.PPFunExact
import CprocVerif.Lemmas.PPObjMain

/-! # Whole-stream simulation for tables with simple function-like macros: definitions

The class: `TblOK` (static table) and `TextOK` (source text); the invariant `GoodF`; the
abstraction `absF`; and `Link`, the composable form of "the reference, given enough fuel, first
delivers these tokens and then continues from there". -/

namespace CprocVerif.PP
open CprocVerif.Gen.TokenKinds
open CprocVerif.Spec.MacroRef (HTok Item PTok MacroDef RErr Flag expandH lookup)
open CprocVerif.Spec

/-- the parts of a macro that never change after its definition -/
def stat (m : Macro) : Name × Bool × List Param × List Tok := (m.name, m.func, m.params, m.body)

theorem stat_of_strip {ms ms' : List Macro} (h : ms.map strip = ms'.map strip) : ms.map stat = ms'.map stat := by
  have : ∀ l : List Macro, l.map stat = (l.map strip).map (fun x => (x.1, x.2.1, x.2.2.1, x.2.2.2.2)) := by
    intro l; simp [List.map_map, Function.comp_def, stat, strip]
  rw [this, this, h]

theorem stat_setHide (ms : List Macro) (n : Name) (b : Bool) : (setHide ms n b).map stat = ms.map stat :=
  stat_of_strip (strip_setHide ms n b)

theorem stat_setArgs (ms : List Macro) (n : Name) (a : List Arg) : (setArgs ms n a).map stat = ms.map stat := by
  unfold setArgs
  rw [List.map_map]
  apply List.map_congr_left
  intro m _
  simp only [Function.comp]
  split <;> rfl

theorem macroget_stat : ∀ {ms ms' : List Macro}, ms.map stat = ms'.map stat → ∀ n,
    (macroget ms n).map stat = (macroget ms' n).map stat
  | [], [], _, _ => rfl
  | [], _ :: _, h, _ => by simp at h
  | _ :: _, [], h, _ => by simp at h
  | a :: r, b :: r', h, n => by
    simp only [List.map_cons, List.cons.injEq] at h
    have ih := macroget_stat h.2 n
    have hn : a.name = b.name := congrArg (·.1) h.1
    unfold macroget at *
    simp only [List.find?_cons, hn]
    by_cases hb : b.name = n
    · simp [hb, h.1]
    · simp [hb, ih]

theorem macroget_stat_some {ms ms' : List Macro} (h : ms.map stat = ms'.map stat) {n : Name} {m : Macro}
    (hm : macroget ms n = some m) : ∃ m', macroget ms' n = some m' ∧ stat m' = stat m := by
  have := macroget_stat h n
  rw [hm] at this
  cases h' : macroget ms' n with
  | none => rw [h'] at this; cases this
  | some m' => rw [h'] at this; exact ⟨m', rfl, by simpa using this.symm⟩

theorem macroget_stat_none {ms ms' : List Macro} (h : ms.map stat = ms'.map stat) {n : Name}
    (hm : macroget ms n = none) : macroget ms' n = none := by
  have := macroget_stat h n
  rw [hm] at this
  cases h' : macroget ms' n with
  | none => rfl
  | some m' => rw [h'] at this; cases this

theorem tblF_stat {ms ms' : List Macro} (h : ms.map stat = ms'.map stat) : tblF ms = tblF ms' := by
  have : ∀ l : List Macro, tblF l = (l.map stat).map
      (fun x => ({ name := x.1, func := x.2.1, params := x.2.2.1.map (·.name), variadic := false,
                   body := x.2.2.2.map toP } : MacroDef)) := by
    intro l; simp [tblF, toDefF, List.map_map, Function.comp_def, stat]
  rw [this, this, h]

/-- the identifier names a function-like macro of the table -/
def IsFunName (ms0 : List Macro) (t : Tok) : Prop :=
  t.kind = .TIDENT ∧ ∃ F, macroget ms0 (t.lit.getD []) = some F ∧ F.func = true

/-- the static class of macro tables: distinct names; no empty replacement list; replacement lists
made of unpainted tokens other than new-line and end of file, none of them the name of a
function-like macro; every function-like macro simple (`SimpleFun`) -/
structure TblOK (ms0 : List Macro) : Prop where
  names : (ms0.map (·.name)).Nodup
  bodyNe : ∀ m ∈ ms0, m.body ≠ []
  bodyOk : ∀ m ∈ ms0, ∀ t ∈ m.body, okKind t ∧ ¬ IsFunName ms0 t
  func : ∀ m ∈ ms0, m.func = true → SimpleFun m

/-- the class of source texts: no directive; a function-like macro name is followed by `(`, by
arguments without macro names, new-lines or `#` (as far as `collect` reads), none of them empty,
in the right number (`collect` accepts); the scanner's list may end with the end-of-file token -/
inductive TextOK (ms0 : List Macro) : List Tok → Prop where
  | nil : TextOK ms0 []
  | plain (t : Tok) (r : List Tok) (h1 : ¬ IsFunName ms0 t) (h2 : t.kind ≠ .THASH) (h3 : t.kind ≠ .TNONE)
      (h4 : t.kind ≠ .TEOF) (h5 : t.hide = false) (h6 : TextOK ms0 r) : TextOK ms0 (t :: r)
  | call (T lp : Tok) (r' : List Tok) (F : Macro) (args : List (List Tok)) (rest : List Tok)
      (h1 : T.kind = .TIDENT) (h2 : T.hide = false) (h3 : macroget ms0 (T.lit.getD []) = some F)
      (h4 : F.func = true) (h5 : lp.kind = .TLPAREN)
      (h6 : collect F.params 0 0 [] [] r' = .ok (args, rest))
      (h7 : PlainFor ms0 r' (collect F.params 0 0 [] [] r')) (h8 : ∀ a ∈ args, a ≠ [])
      (h9 : TextOK ms0 rest) : TextOK ms0 (T :: lp :: r')
  | eof (t : Tok) (h : t.kind = .TEOF) : TextOK ms0 [t]

/-- what may sit on the context stack -/
def FlatOK (ms0 : List Macro) (t : Tok) : Prop :=
  t.kind ≠ .TNEWLINE ∧ t.kind ≠ .TEOF ∧ ¬ IsFunName ms0 t ∧
  (t.hide = true → t.kind = .TIDENT → macroget ms0 (t.lit.getD []) = none)

/-- the invariant (the text is kept apart: `TextOK ms0 st.raw`) -/
structure GoodF (ms0 : List Macro) (st : St) : Prop where
  stat : st.macros.map stat = ms0.map stat
  inv : InvC st.ctx st.macros st.depth
  wf : CtxWF st.macros st.ctx
  flatOk : ∀ t ∈ flat st.macros st.ctx, FlatOK ms0 t
  prag : st.prag = false
  ppnl : st.ppnl = false

/-- the annotation of a stack token: a reference token whose hide set is the macros with a live
frame at or below it, oldest first -/
def annH (L : List Name) (t : Tok) : HTok := mkH L.reverse t

/-- the text as the reference sees it: up to the end-of-file token (if the scanner's list has one),
new-lines dropped -/
def absRawF (raw : List Tok) : List HTok := absRaw (raw.takeWhile (fun t => t.kind ≠ .TEOF))

theorem absRawF_nil : absRawF [] = [] := rfl

theorem absRawF_eof (t : Tok) (r : List Tok) (h : t.kind = .TEOF) : absRawF (t :: r) = [] := by
  simp [absRawF, List.takeWhile, h, absRaw]

theorem absRawF_cons_visible (t : Tok) (r : List Tok) (h : t.kind ≠ .TNEWLINE) (h2 : t.kind ≠ .TEOF) :
    absRawF (t :: r) = mkH [] t :: absRawF r := by
  simp [absRawF, List.takeWhile, h2, absRaw, visible, h]

theorem absRawF_cons_nl (t : Tok) (r : List Tok) (h : t.kind = .TNEWLINE) : absRawF (t :: r) = absRawF r := by
  have h2 : t.kind ≠ .TEOF := by rw [h]; decide
  simp [absRawF, List.takeWhile, h2, absRaw, visible, h]

theorem absRawF_plain : ∀ (l r : List Tok), (∀ x ∈ l, x.kind ≠ .TNEWLINE ∧ x.kind ≠ .TEOF) →
    absRawF (l ++ r) = l.map (mkH []) ++ absRawF r
  | [], r, _ => rfl
  | t :: l, r, h => by
    have ht := h t (List.mem_cons_self ..)
    rw [List.cons_append, absRawF_cons_visible _ _ ht.1 ht.2, absRawF_plain l r (fun x hx => h x (List.mem_cons_of_mem _ hx))]
    rfl

def absF (st : St) : List Item := (flatG annH st.macros st.ctx ++ absRawF st.raw).map Item.tok

theorem flatG_id (ms : List Macro) : ∀ ctx : List Frame, flatG (fun _ t => t) ms ctx = flat ms ctx
  | [] => rfl
  | f :: rest => by simp [flatG, flat, flatG_id ms rest]

/-! ## `Link` -/

/-- with `J` more units of fuel than it needs for `b` (and at least `c` for `b`), the reference on
`a` first delivers the tokens `out` and then does what it does on `b` -/
def Link (tbl : List MacroDef) (a : List Item) (out : List (Kind × Option Name)) (b : List Item) : Prop :=
  ∃ J c, ∀ K, c ≤ K →
    outKeys (expandH false (K + J) tbl a) =
      (out ++ (outKeys (expandH false K tbl b)).1, (outKeys (expandH false K tbl b)).2)

theorem Link.refl (tbl : List MacroDef) (a : List Item) : Link tbl a [] a :=
  ⟨0, 0, fun K _ => rfl⟩

theorem Link.trans {tbl : List MacroDef} {a b c : List Item} {o1 o2 : List (Kind × Option Name)}
    (h1 : Link tbl a o1 b) (h2 : Link tbl b o2 c) : Link tbl a (o1 ++ o2) c := by
  obtain ⟨J1, c1, H1⟩ := h1
  obtain ⟨J2, c2, H2⟩ := h2
  refine ⟨J2 + J1, max c1 c2, ?_⟩
  intro K hK
  rw [← Nat.add_assoc, H1 (K + J2) (by have := Nat.le_max_left c1 c2; omega), H2 K (by have := Nat.le_max_right c1 c2; omega)]
  simp [List.append_assoc]

theorem Link.of_eq {tbl : List MacroDef} {a b : List Item} (c : Nat)
    (h : ∀ K, c ≤ K → outKeys (expandH false (K + 1) tbl a) = outKeys (expandH false K tbl b)) : Link tbl a [] b :=
  ⟨1, c, fun K hK => by rw [h K hK]; rfl⟩

theorem Link.of_out {tbl : List MacroDef} {a b : List Item} (k : Kind × Option Name)
    (h : ∀ K, outKeys (expandH false (K + 1) tbl a) = consKey k (outKeys (expandH false K tbl b))) : Link tbl a [k] b :=
  ⟨1, 0, fun K _ => by rw [h K]; rfl⟩

end CprocVerif.PP

import CprocVerif.Lemmas.InitRefSim2

/-!
# Simulation, part 1: one initialiser (`initOne` against `parseItem` after `preStep`)
-/

namespace CprocVerif.InitSim
open CprocVerif.Init CprocVerif.Image CprocVerif.InitRef

theorem pInit_step (f : Nat) (ih : ∀ f', f' < f → PAll f') : PInit f := by
  intro pl ini rest rst rest' rst' hr hn hw st st1 stf pf c hcur hcs hco hic hsp hle hb hrun
  have hp : Flat st st.sub := flat_pos st (by omega)
  cases f with
  | zero => rw [initOne.eq_1] at hr; cases hr
  | succ f =>
  cases ini with
  | list its =>
    rw [initOne.eq_2] at hr
    cases hbr : braced f pl its rst with
    | error er => rw [hbr] at hr; cases hr
    | ok rb =>
    rw [hbr] at hr
    cases hr
    obtain ⟨hbs, hbc, hbo, hbt, hbi⟩ := braceClear_fields st
    have hbp : Flat (braceClear st) (braceClear st).sub := flat_pos _ (by rw [hbs]; omega)
    have hlb := braceClear_logEq hcur hp hw hsp.ty hsp.off hle
    have hfr : Frame st.sub st (braceClear st) := ⟨hbc, hbt, hbi, fun j _ => by rw [hbo]⟩
    cases its with
    | nil =>
      have hb' : (match enteredE (braceClear st) with
          | .error er => (.error er : Except Err St)
          | .ok st2 =>
            if st2.tinc st2.sub then .error (.diag "array of unknown size has empty initializer") else .ok st2)
          = .ok st1 := hb
      have hent : enteredE (braceClear st) = .ok (braceClear st) := by
        unfold enteredE
        rw [hbc, hbs, hcur, if_neg (by intro h; cases h; omega)]
      rw [hent] at hb'
      simp only [] at hb'
      rw [hbp.tinc] at hb'
      cases hb'
      refine ⟨_, hrun, ⟨hfr, by rw [hbs]; exact Nat.le_refl _, ?_, by rw [hbo], by rw [hbo], ?_⟩, ?_⟩
      · exact curOK_frame hco hfr rfl hbs (fun c' hc' => by rw [hcur] at hc'; cases hc'; exact hcs)
      · intro _ j h1 h2; rw [hbs] at h2; omega
      · unfold LogEq
        rw [braced_nil hbr]
        split
        · rename_i hs; rw [hs] at hlb; exact hlb
        · rename_i hs
          have hs' : isScalarTy pl.ty = false := by simpa using hs
          rw [hs'] at hlb; exact hlb
    | cons ds1 i1 r1 =>
      have hb' : (match entered (braceClear st) with
          | .error er => (.error er : Except Err St)
          | .ok st2 => listBody st2 (.cons ds1 i1 r1)) = .ok st1 := hb
      have hent : entered (braceClear st) = .ok (braceClear st) := by
        unfold entered
        rw [hbc, hbs, hcur, if_neg (by intro h; cases h; omega)]
      rw [hent] at hb'
      simp only [] at hb'
      have hsp' : SP (braceClear st) (braceClear st).sub pl := by
        rw [hbs]
        refine ⟨by rw [hbo]; exact hsp.ty, by rw [hbo]; exact hsp.off, ?_⟩
        have := hsp.bits
        rw [← this]
        exact curBits_congr rfl (fun _ => by show (braceClear st).obj _ = st.obj _; rw [hbo])
      obtain ⟨r1', r2, r3, r5, r6⟩ := (ih f (Nat.lt_succ_self f)).2.2.1 pl _ rst rst' hbr hn hw
        (by intro h; cases h) (braceClear st) st1
        (fun c' hc' => by rw [hbc, hcur] at hc'; cases hc'; rw [hbs]; exact hcs) hbp
        (curOK_frame hco hfr rfl hbs (fun c' hc' => by rw [hcur] at hc'; cases hc'; exact hcs))
        (by rw [hbs, hbo]; exact hic) hsp' hlb hb'
      rw [hbs] at r2 r3 r5 r6
      have hfr' : Frame st.sub st st1 := hfr.trans r2 (Nat.le_refl _)
      refine ⟨_, hrun, ⟨hfr', by rw [r3]; exact Nat.le_refl _, ?_, by rw [r5, hbo], by rw [r6, hbo], ?_⟩, r1'⟩
      · exact curOK_frame hco hfr' rfl r3 (fun c' hc' => by rw [hcur] at hc'; cases hc'; exact hcs)
      · intro _ j h1 h2; rw [r3] at h2; omega
  | expr e =>
    have hb' : exprBody pf st e = .ok st1 := hb
    rcases expr_cases pl.ty e with ⟨size, k, hty⟩ | ⟨n, es, cls, sg, w, scls, cs, hty, rfl⟩ |
        ⟨isU, tag, size, ms, hty, rfl⟩ | he
    · -- scalar
      rw [initOne.eq_3 _ _ _ _ _ _ _ hty] at hr
      cases hcv : convScalar size k e with
      | none => rw [hcv] at hr; cases hr
      | some v =>
        rw [hcv] at hr; cases hr
        have hty' : (st.obj st.sub).ty = .scalar size k := hsp.ty.trans hty
        have hh : hit st e = .ok (.add v, st) := by rw [hit_scalar hty', hcv]
        obtain ⟨h1, h2⟩ := leaf_add (rest := rest) (sz := size) hh hsp hp hco (by rw [hty']; first | rfl | skip) hle hb'
        exact ⟨_, hrun, h1, h2⟩
    · -- string for a character array
      rw [initOne.eq_4 _ _ _ _ _ _ _ _ _ _ _ hty] at hr
      have hty' : (st.obj st.sub).ty = .array n (.scalar es (.int cls sg)) := hsp.ty.trans hty
      split at hr
      · cases hr
      · rename_i hbad
        simp only [hw.unb, Bool.false_eq_true, if_false] at hr
        cases hr
        have hh : hit st (.str w scls cs) = .ok (.add (.str w cs), st) := by
          rw [hit_str hty' hp.tinc, if_neg hbad]
        obtain ⟨h1, h2⟩ := leaf_add (rest := rest) (sz := n * es) hh hsp hp hco (by rw [hty']; first | rfl | skip) hle hb'
        have hbits := hw.bits (by rw [hty]; rfl)
        rw [hbits.1, hbits.2] at h2
        exact ⟨_, hrun, h1, h2⟩
    · -- expression of the struct/union type itself
      rw [initOne.eq_5 _ _ _ _ _ _ _ _ _ hty, if_pos rfl] at hr
      cases hr
      have hty' : (st.obj st.sub).ty = .agg isU tag size ms := hsp.ty.trans hty
      obtain ⟨h1, h2⟩ := leaf_add (rest := rest) (sz := size) (hit_aggeq hty') hsp hp hco (by rw [hty']; first | rfl | skip) hle hb'
      have hbits := hw.bits (by rw [hty]; rfl)
      rw [hbits.1, hbits.2] at h2
      exact ⟨_, hrun, h1, h2⟩
    · -- brace elision: descend
      rw [initOne_elide he] at hr
      cases f with
      | zero => rw [contAgg.eq_1] at hr; cases hr
      | succ f' =>
      rw [contAgg.eq_4] at hr
      have hns : isScalarTy pl.ty = false := elides_nonscalar he
      obtain ⟨ch, hch⟩ := childAt_zero hw hns
      rw [hch] at hr
      simp only [] at hr
      cases hi : initOne f' ch (.expr e) rest (grow (enter rst pl 0) pl 0) with
      | error er => rw [hi] at hr; cases hr
      | ok x =>
      obtain ⟨rest1, rst1⟩ := x
      rw [hi] at hr
      simp only [] at hr
      -- nswitch is constant along the way
      have n1 := enter_nswitch_le rst pl 0
      have n2 := (nsw_all f').1 _ _ _ _ _ hi
      have n3 := (nsw_all f').2.1 _ _ _ _ _ hr
      rw [grow_nswitch] at n2
      simp only [] at n2 n3
      have e1 : (enter rst pl 0).nswitch = rst.nswitch := by omega
      have e2 : rst1.nswitch = (grow (enter rst pl 0) pl 0).nswitch := by rw [grow_nswitch]; omega
      have e3 : rst'.nswitch = rst1.nswitch := by omega
      -- the machine: `focus`, then the same expression one level down
      cases pf with
      | zero => exact absurd hb' (exprBody_zero _ _ _)
      | succ pf' =>
      rw [exprBody_down pf' (hit_elide (by rw [hsp.ty]; exact he))] at hb'
      cases hfo : focus st with
      | error er => rw [hfo] at hb'; cases hb'
      | ok st2 =>
      rw [hfo] at hb'
      simp only [] at hb'
      obtain ⟨ch2, hch2, hs2, hl2, hsp2, hf2, hlog2, hic2, hic2'⟩ := focus_step hp hw hsp.ty hsp.off hfo
      rw [hch] at hch2
      cases hch2
      have hwc : PlWf ch := childAt_wf hw hch
      have hco2 : CurOK st2 := curOK_step hco hcur (Nat.le_of_lt hcs) (Nat.le_refl _) hf2 hic2 hs2 (fun _ => hic)
      obtain ⟨st3, hrun3, haf3, hle3⟩ := (ih f' (by omega)).1 ch (.expr e) rest _ rest1 rst1 hi e2 hwc
        st2 st1 stf pf' c (by rw [hf2.cur]; exact hcur) (by rw [hs2]; omega) hco2 (by rw [hs2]; exact hic2')
        (by rw [hs2]; exact hsp2) (by unfold LogEq; rw [hlog2, grow_log, enter_log e1]; exact hle) hb' hrun
      rw [hs2] at haf3
      have hl3 : Lvl st3 st.sub pl 0 ch := hl2.frame haf3.frame (Nat.lt_succ_self _)
      obtain ⟨st', hrun', haf', hlt', hle'⟩ := (ih f' (by omega)).2.1 pl 0 rest1 rst1 rest' rst' hr e3 hw
        st3 stf st.sub c ch (by rw [haf3.frame.cur, hf2.cur]; exact hcur) hcs (by have := haf3.le; omega)
        haf3.curok hl3 (fun hh j h1 h2 => haf3.exh hh j (by omega) h2) hle3 hrun3
      refine ⟨st', hrun', ⟨?_, haf'.le, haf'.curok, ?_, ?_, haf'.exh⟩, hle'⟩
      · exact (hf2.trans (haf3.frame.mono (Nat.le_succ _)) (Nat.le_refl _)).trans haf'.frame (Nat.le_refl _)
      · rw [haf'.ty, hl3.ty, hsp.ty]
      · rw [haf'.off, hl3.off, hsp.off]

end CprocVerif.InitSim

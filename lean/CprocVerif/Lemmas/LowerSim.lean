/-
  C01 — simulation: executing the items `funcexpr` emits for an expression with a defined C value
  reaches the end of those items with the result holding a representation of that value.
-/
import CprocVerif.Lemmas.LowerStruct
import CprocVerif.Lemmas.LowerRep3

set_option linter.unusedSimpArgs false

namespace CprocVerif.LowerMach
open CprocVerif.Qbe CprocVerif.Lower CprocVerif.CSem CprocVerif.CInt CprocVerif.LowerArith

/-- The static situation while the body of the emitted function runs. -/
structure Sit where
  cs : Bool
  p : Prog
  ext : Ext
  x : Fix
  M : Mem
  ft : Jump
  o0 : Open
  its : List Item
  ptys : List CSem.Ty
  ρ : List Int
  hblocks : x.fi.f.blocks = (assemble ft o0 its).toArray
  hlidx : ∀ (j : Nat) (b : Block), x.fi.f.blocks[j]? = some b → x.fi.labelIdx[b.label]? = some j
  henv : EnvOK cs ptys ρ

/-- The two environments agree on the temporaries numbered up to `n`. -/
def Agree (n : Nat) (env env' : Env) : Prop := ∀ j, j ≤ n → env'[tmpName j]? = env[tmpName j]?

theorem Agree.refl (n : Nat) (env : Env) : Agree n env env := fun _ _ => rfl

theorem Agree.trans {n m : Nat} {a b c : Env} (h1 : Agree n a b) (h2 : Agree m b c) (hnm : n ≤ m) :
    Agree n a c := fun j hj => (h2 j (by omega)).trans (h1 j hj)

theorem Agree.mono {n m : Nat} {a b : Env} (h : Agree m a b) (hnm : n ≤ m) : Agree n a b :=
  fun j hj => h j (by omega)

theorem Agree.insert {n k : Nat} (env : Env) (v : RVal) (hk : n < k) :
    Agree n env (env.insert (tmpName k) v) := by
  intro j hj
  rw [Std.HashMap.getElem?_insert]
  have : (tmpName k == tmpName j) = false := by
    rw [beq_eq_false_iff_ne]; exact tmpName_ne (by omega)
  simp [this]

theorem readVal_agree {p : Prog} {n : Nat} {env env' : Env} {v : Val} (hv : ValOK n v)
    (h : Agree n env env') : readVal p env' v = readVal p env v := by
  rcases hv with ⟨k, rfl⟩ | ⟨j, hj, rfl⟩
  · rfl
  · simp only [readVal, h j hj]

theorem readVal_insert_self (p : Prog) (env : Env) (k : Nat) (v : RVal) :
    readVal p (env.insert (tmpName k) v) (.tmp (tmpName k)) = .ok v := by
  simp [readVal]

/-- The parameters sit in their stack slots. -/
def ParamsIn (S : Sit) (env : Env) : Prop :=
  ∀ (i : Nat) (t : CSem.Ty) (v : Int), S.ptys[i]? = some t → S.ρ[i]? = some v →
    ∃ a r, env[tmpName (2 * i + 2)]? = some a ∧
      execOp (.load (loadOf S.cs t)) (some (cls t)) [a] S.M none = .ok (r, S.M) ∧ Rep t v r

theorem ParamsIn.agree {S : Sit} {n : Nat} {env env' : Env} (h : ParamsIn S env)
    (ha : Agree n env env') (hn : 2 * S.ptys.length ≤ n) : ParamsIn S env' := by
  intro i t v ht hv
  obtain ⟨a, r, h1, h2, h3⟩ := h i t v ht hv
  have hi : i < S.ptys.length := by
    rcases Nat.lt_or_ge i S.ptys.length with h | h
    · exact h
    · rw [List.getElem?_eq_none h] at ht; cases ht
  exact ⟨a, r, by rw [ha _ (by omega)]; exact h1, h2, h3⟩

/-- machine state at the position reached after the items `pre` -/
def Sit.at (S : Sit) (env : Env) (pre : List Item) : State :=
  mkSt S.x env S.M (posOf S.o0 pre).1 (posOf S.o0 pre).2

theorem Sit.block_get (S : Sit) (j : Nat) :
    S.x.fi.f.blocks[j]? = (assemble S.ft S.o0 S.its)[j]? := by
  rw [S.hblocks]; simp

/-- executing one instruction with a result -/
theorem Sit.run_ins (S : Sit) {pre post : List Item} {k : Nat} {cl : Cls} {o : Op}
    {args : List Val} {env : Env} {vs : List RVal} {v : RVal}
    (hits : S.its = pre ++ .ins (.op (some (tmpName k, cl)) o args) :: post)
    (hr : readVals S.p env args = .ok vs) (hx : execOp o (some cl) vs S.M none = .ok (v, S.M)) :
    Reach S.p S.ext 1 (S.at env pre)
      (S.at (env.insert (tmpName k) v) (pre ++ [.ins (.op (some (tmpName k, cl)) o args)])) := by
  obtain ⟨b, hb, hi⟩ := ins_at S.ft S.o0 pre post (.op (some (tmpName k, cl)) o args)
  rw [← hits, ← S.block_get] at hb
  apply Reach.one
  unfold Sit.at
  rw [posOf_ins]
  exact step_op_res S.x hb hi hr hx

/-- at a `lbl` item the current block ends with the recorded jump -/
theorem Sit.term_at (S : Sit) {pre post : List Item} {t : Option Jump} {l : String} {ph : List Phi}
    (hits : S.its = pre ++ .lbl t l ph :: post) :
    ∃ b, S.x.fi.f.blocks[(posOf S.o0 pre).1]? = some b ∧ b.ins.size = (posOf S.o0 pre).2 ∧
      b.term = t ∧ b.label = curOf S.o0 pre := by
  obtain ⟨b, b', h1, h2, h3, h4, _⟩ := lbl_at S.ft S.o0 pre post t l ph
  rw [← hits, ← S.block_get] at h1
  exact ⟨b, h1, h2, h3, h4⟩

/-- the block a `lbl` item opens, and where its label leads -/
theorem Sit.target (S : Sit) {pre post : List Item} {t : Option Jump} {l : String} {ph : List Phi}
    (hits : S.its = pre ++ .lbl t l ph :: post) :
    ∃ b', S.x.fi.f.blocks[(posOf S.o0 pre).1 + 1]? = some b' ∧ b'.label = l ∧ b'.phis = ph ∧
      S.x.fi.labelIdx[l]? = some ((posOf S.o0 pre).1 + 1) := by
  obtain ⟨b, b', _, _, _, _, h5, h6, h7⟩ := lbl_at S.ft S.o0 pre post t l ph
  rw [← hits, ← S.block_get] at h5
  exact ⟨b', h5, h6, h7, h6 ▸ S.hlidx _ _ h5⟩

theorem Sit.at_lbl (S : Sit) (env : Env) (pre : List Item) (t : Option Jump) (l : String)
    (ph : List Phi) :
    S.at env (pre ++ [.lbl t l ph]) = mkSt S.x env S.M ((posOf S.o0 pre).1 + 1) 0 := by
  unfold Sit.at
  rw [posOf_lbl]

/-- after the last item the block ends with the final jump -/
theorem Sit.end_at (S : Sit) {pre : List Item} (hits : S.its = pre) :
    ∃ b, S.x.fi.f.blocks[(posOf S.o0 pre).1]? = some b ∧ b.ins.size = (posOf S.o0 pre).2 ∧
      b.term = some S.ft := by
  subst hits
  obtain ⟨b, h1, h2, h3, _⟩ := CprocVerif.LowerMach.end_at S.ft S.o0 S.its
  rw [← S.block_get] at h1
  exact ⟨b, h1, h2, h3⟩

/-- the final `ret` of the outermost activation -/
theorem Sit.step_ret (S : Sit) {pre : List Item} (hits : S.its = pre) {env : Env} {val : Val}
    (hft : S.ft = .ret (some val)) (hrest : S.x.rest = []) {r r' : RVal} {k : Cls}
    (hval : readVal S.p env val = .ok r) (hret : S.x.fi.f.ret = some (.base k))
    (hco : r.coerce k = .ok r') :
    step S.p S.ext (S.at env pre) = .done (.ret (.scalar r')) S.x.tr := by
  obtain ⟨b, hb, hsz, hterm⟩ := S.end_at hits
  unfold Sit.at
  simp only [step, mkSt, mkFr, hb, ins_none_of_size hsz, stepTerm, hterm, hft, hval, hrest, stepRet,
    retValue, hret, Ty.cls, hco, bind, Except.bind, pure, Except.pure]

theorem WRep.narrow {n m : Nat} {v : Int} {r : RVal} (h : WRep n v r) (hm : m ≤ n) :
    WRep m v r := by
  obtain ⟨x, hx, hxv⟩ := h
  refine ⟨x, hx, ?_⟩
  obtain ⟨d, rfl⟩ : ∃ d, n = m + d := ⟨n - m, by omega⟩
  have hdvd : (2 : Int) ^ m ∣ 2 ^ (m + d) := ⟨2 ^ d, by rw [Int.pow_add]⟩
  rw [← Int.emod_emod_of_dvd _ hdvd, hxv, Int.emod_emod_of_dvd _ hdvd]

/-- Running the items `items` placed after `pre` ends after them, keeps the temporaries up to `n0`,
    and `val` then reads as a value satisfying `P`. -/
def RunsTo (S : Sit) (n0 : Nat) (env : Env) (pre items : List Item) (val : Val)
    (P : RVal → Prop) : Prop :=
  ∃ n env', Reach S.p S.ext n (S.at env pre) (S.at env' (pre ++ items)) ∧ Agree n0 env env' ∧
    ∃ r, readVal S.p env' val = .ok r ∧ P r

theorem RunsTo.weaken {S : Sit} {n0 : Nat} {env : Env} {pre items : List Item} {val : Val}
    {P Q : RVal → Prop} (h : RunsTo S n0 env pre items val P) (hpq : ∀ r, P r → Q r) :
    RunsTo S n0 env pre items val Q := by
  obtain ⟨n, env', h1, h2, r, h3, h4⟩ := h
  exact ⟨n, env', h1, h2, r, h3, hpq r h4⟩

/-- one `funcinst` -/
theorem Sit.run_funcinst (S : Sit) (c : Ctx) (o : Op) (k : Cls) (args : List Val)
    {pre post : List Item} {env : Env} {vs : List RVal} {v : RVal} {P : RVal → Prop}
    (hits : S.its = pre ++ (funcinst c o k args).items ++ post)
    (hr : readVals S.p env args = .ok vs) (hx : execOp o (some k) vs S.M none = .ok (v, S.M))
    (hP : P v) :
    RunsTo S c.lastid env pre (funcinst c o k args).items (funcinst c o k args).val P := by
  refine ⟨1, env.insert (tmpName (c.lastid + 1)) v, ?_, Agree.insert env v (Nat.lt_succ_self _),
    v, readVal_insert_self _ _ _ _, hP⟩
  simp only [funcinst, List.append_assoc, List.singleton_append] at hits
  exact S.run_ins hits hr hx

/-- two steps in a row -/
theorem RunsTo.seq {S : Sit} {n0 n1 : Nat} {env : Env} {pre i1 i2 : List Item} {v1 v2 : Val}
    {P : RVal → Prop} {Q : RVal → Prop}
    (h1 : RunsTo S n0 env pre i1 v1 P) (hn : n0 ≤ n1)
    (h2 : ∀ env1 r1, Agree n0 env env1 → readVal S.p env1 v1 = .ok r1 → P r1 →
      RunsTo S n1 env1 (pre ++ i1) i2 v2 Q) :
    RunsTo S n0 env pre (i1 ++ i2) v2 Q := by
  obtain ⟨n, env1, hr1, ha1, r1, hv1, hp1⟩ := h1
  obtain ⟨m, env2, hr2, ha2, r2, hv2, hq⟩ := h2 env1 r1 ha1 hv1 hp1
  refine ⟨n + m, env2, ?_, ha1.trans ha2 hn, r2, hv2, hq⟩
  rw [← List.append_assoc]
  exact hr1.trans hr2

theorem b2i_decide_wrap_bool (sg : Bool) (v : Int) :
    wrap ⟨1, sg⟩ v = b2i (decide (v ≠ 0)) := by
  simp only [wrap, if_true, b2i]
  by_cases h : v = 0 <;> simp [h]

theorem bool_intTy (cs : Bool) : Ty.intTy cs .bool = ⟨1, false⟩ := rfl

theorem boolres_rep (cs : Bool) {v : Int} {r : RVal} (h : BoolRes (decide (v ≠ 0)) r) :
    Rep .bool (wrap (Ty.intTy cs .bool) v) r := by
  rw [bool_intTy, b2i_decide_wrap_bool]
  simp only [Rep, Ty.size, Nat.reduceEqDiff, if_false, Nat.reduceMul]
  exact WRep.narrow h.wrep (by omega)

theorem sim_convert (S : Sit) (c : Ctx) (dst src : CSem.Ty) (l : Val) (pre post : List Item)
    (env : Env) (v : Int) (r0 : RVal)
    (hits : S.its = pre ++ (convert S.cs c dst src l).items ++ post)
    (hl : readVal S.p env l = .ok r0) (hrep : Rep src v r0)
    (hrange : InRange (src.intTy S.cs) v) :
    RunsTo S c.lastid env pre (convert S.cs c dst src l).items (convert S.cs c dst src l).val
      (fun r => Rep dst (wrap (dst.intTy S.cs) v) r ∧ (dst = .bool → BoolRes (decide (v ≠ 0)) r)) := by
  have hrg := range_ty S.cs src hrange
  by_cases hdb : dst = .bool
  · subst hdb
    rcases size_cases src with hs | hs | hs | hs
    · -- extub; cnew
      simp only [convert, if_true, hs] at hits ⊢
      simp only [Rep, hs, Nat.reduceEqDiff, if_false, Nat.reduceMul] at hrep
      obtain ⟨r1, hx1, hr1⟩ := zext8_w S.M none hrep
      simp only [Out.seq] at hits ⊢
      rw [← List.append_assoc] at hits
      refine RunsTo.seq (v1 := (funcinst c .extub .w [l]).val)
        (P := fun r => WRep 32 (v % 2 ^ 8) r) (n1 := c.lastid + 1) ?_
        (Nat.le_succ _) ?_
      · have hits' := hits
        rw [List.append_assoc] at hits'
        exact S.run_funcinst c .extub .w [l] hits' (readVals_one hl) hx1 hr1
      · intro env1 r1' _ hv1 hp1
        obtain ⟨r2, hx2, hr2⟩ := tobool_w S.M none hp1 (by omega)
        refine S.run_funcinst _ (.cmpw .ne) .w _ (post := post) hits
          (readVals_two hv1 (readVal_int _ _ _)) hx2 ?_
        have hb : decide (v % 2 ^ 8 ≠ 0) = decide (v ≠ 0) := by
          apply decide_eq_decide.2
          have h2 := hrg.2
          simp only [hs, Nat.reduceMul, Nat.reduceSub] at h2
          split at h2 <;> omega
        rw [hb] at hr2
        exact ⟨boolres_rep S.cs hr2, fun _ => hr2⟩
    · -- extuh; cnew
      simp only [convert, if_true, hs] at hits ⊢
      simp only [Rep, hs, Nat.reduceEqDiff, if_false, Nat.reduceMul] at hrep
      obtain ⟨r1, hx1, hr1⟩ := zext16_w S.M none hrep
      simp only [Out.seq] at hits ⊢
      rw [← List.append_assoc] at hits
      refine RunsTo.seq (v1 := (funcinst c .extuh .w [l]).val)
        (P := fun r => WRep 32 (v % 2 ^ 16) r) (n1 := c.lastid + 1) ?_
        (Nat.le_succ _) ?_
      · have hits' := hits
        rw [List.append_assoc] at hits'
        exact S.run_funcinst c .extuh .w [l] hits' (readVals_one hl) hx1 hr1
      · intro env1 r1' _ hv1 hp1
        obtain ⟨r2, hx2, hr2⟩ := tobool_w S.M none hp1 (by omega)
        refine S.run_funcinst _ (.cmpw .ne) .w _ (post := post) hits
          (readVals_two hv1 (readVal_int _ _ _)) hx2 ?_
        have hb : decide (v % 2 ^ 16 ≠ 0) = decide (v ≠ 0) := by
          apply decide_eq_decide.2
          have h2 := hrg.2
          simp only [hs, Nat.reduceMul, Nat.reduceSub] at h2
          split at h2 <;> omega
        rw [hb] at hr2
        exact ⟨boolres_rep S.cs hr2, fun _ => hr2⟩
    · -- cnew
      simp only [convert, if_true, hs] at hits ⊢
      simp only [Rep, hs, Nat.reduceEqDiff, if_false, Nat.reduceMul] at hrep
      have h2 := hrg.2
      simp only [hs, Nat.reduceMul, Nat.reduceSub] at h2
      obtain ⟨r2, hx2, hr2⟩ := tobool_w S.M none hrep (by split at h2 <;> omega)
      exact S.run_funcinst _ (.cmpw .ne) .w _ hits (readVals_two hl (readVal_int _ _ _)) hx2
        ⟨boolres_rep S.cs hr2, fun _ => hr2⟩
    · -- cnel
      simp only [convert, if_true, hs] at hits ⊢
      simp only [Rep, hs, if_true] at hrep
      have h2 := hrg.2
      simp only [hs, Nat.reduceMul, Nat.reduceSub] at h2
      obtain ⟨r2, hx2, hr2⟩ := tobool_l S.M none hrep (by split at h2 <;> omega)
      exact S.run_funcinst _ (.cmpl .ne) .w _ hits (readVals_two hl (readVal_int _ _ _)) hx2
        ⟨boolres_rep S.cs hr2, fun _ => hr2⟩
  · by_cases hle : dst.size ≤ src.size
    · -- nothing is emitted
      have hc : convert S.cs c dst src l = ⟨[], l, c⟩ := by simp [convert, hdb, hle]
      rw [hc]
      unfold RunsTo
      simp only [List.append_nil]
      exact ⟨0, env, rfl, Agree.refl _ _, r0, hl, rep_narrow S.cs hdb hle hrep,
        fun h => absurd h hdb⟩
    · have h2 := hrg.2
      have hbool := hrg.1
      rcases size_cases src with hs | hs | hs | hs
      · -- extsb / extub
        rw [hs] at hle
        have hc : convert S.cs c dst src l =
            funcinst c (if src.signed S.cs then .extsb else .extub) (cls dst) [l] := by
          simp [convert, hdb, hle, hs]
        rw [hc] at hits ⊢
        simp only [Rep, hs, Nat.reduceEqDiff, if_false, Nat.reduceMul] at hrep
        simp only [hs, Nat.reduceMul, Nat.reduceSub] at h2
        have hk : cls dst = .w ∨ cls dst = .l := by unfold cls; split <;> simp
        obtain ⟨r2, hx2, hr2⟩ := ext8 (src.signed S.cs) (cls dst) hk S.M none hrep h2
        exact S.run_funcinst _ _ _ _ hits (readVals_one hl) hx2
          ⟨rep_of_ext S.cs hdb hr2, fun h => absurd h hdb⟩
      · rw [hs] at hle
        have hc : convert S.cs c dst src l =
            funcinst c (if src.signed S.cs then .extsh else .extuh) (cls dst) [l] := by
          simp [convert, hdb, hle, hs]
        rw [hc] at hits ⊢
        simp only [Rep, hs, Nat.reduceEqDiff, if_false, Nat.reduceMul] at hrep
        simp only [hs, Nat.reduceMul, Nat.reduceSub] at h2
        have hk : cls dst = .w ∨ cls dst = .l := by unfold cls; split <;> simp
        obtain ⟨r2, hx2, hr2⟩ := ext16 (src.signed S.cs) (cls dst) hk S.M none hrep h2
        exact S.run_funcinst _ _ _ _ hits (readVals_one hl) hx2
          ⟨rep_of_ext S.cs hdb hr2, fun h => absurd h hdb⟩
      · rw [hs] at hle
        have hc : convert S.cs c dst src l =
            funcinst c (if src.signed S.cs then .extsw else .extuw) (cls dst) [l] := by
          simp [convert, hdb, hle, hs]
        rw [hc] at hits ⊢
        simp only [Rep, hs, Nat.reduceEqDiff, if_false, Nat.reduceMul] at hrep
        simp only [hs, Nat.reduceMul, Nat.reduceSub] at h2
        have hd8 : dst.size = 8 := by
          rcases size_cases dst with h | h | h | h <;> omega
        have hcl : cls dst = .l := by simp [cls, hd8]
        obtain ⟨r2, hx2, hr2⟩ := ext32 (src.signed S.cs) S.M none hrep h2
        rw [hcl] at hits ⊢
        refine S.run_funcinst _ _ _ _ hits (readVals_one hl) hx2
          ⟨rep_of_ext S.cs hdb ?_, fun h => absurd h hdb⟩
        rw [hcl]
        exact ⟨fun _ => hr2, fun h => by cases h⟩
      · exfalso
        rcases size_cases dst with h | h | h | h <;> omega

end CprocVerif.LowerMach

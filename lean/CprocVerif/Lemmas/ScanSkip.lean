import CprocVerif.Lemmas.ScanKind

/-! White space, comments, new-line, EOF and stray characters in `scankind`. -/

namespace CprocVerif.Scan
open CprocVerif.Gen.TokenKinds
open CprocVerif.Spec.Lex

/-- the logical content of a scanner state: what it will see, and the token being built -/
structure View where
  stream : List UInt8
  buf : List UInt8
  usebuf : Bool
  sawspace : Bool
  deriving DecidableEq, Repr

def S.view (s : S) : View := ⟨s.stream, s.buf, s.usebuf, s.sawspace⟩

theorem view_nextchar_nouse (s : S) (hu : s.usebuf = false) :
    s.nextchar.view = ⟨s.stream.tail, s.buf, false, s.sawspace⟩ := by
  simp [S.view, buf_nextchar, hu]

theorem stream_pushbackDot_view (s : S) (l : Loc) :
    (pushbackDot s l).stream = c! '.' :: s.stream ∧ (pushbackDot s l).buf = s.buf ∧
    (pushbackDot s l).usebuf = s.usebuf ∧ (pushbackDot s l).sawspace = s.sawspace := by
  unfold pushbackDot
  split <;> simp_all [S.stream]

/-! ## blanks -/

theorem scankind_blank (f : Nat) (s : S) (c : UInt8) (hc : s.chr = some c)
    (hb : isBlank c = true) :
    scankind (f + 1) s = scankind f { s with sawspace := true }.nextchar := by
  have key : ∀ c : UInt8, isBlank c = true → c = c! ' ' ∨ c = c! '\t' ∨ c = 0x0c ∨ c = 0x0b := by
    apply forall_uint8; decide +kernel
  have := key c hb
  rw [scankind]
  simp only [hc]
  simp [this]

/-! ## `//` comments -/

theorem lineLoop_spec : ∀ (n : Nat) (s : S) (c0 : UInt8) (t : List UInt8),
    s.stream = c0 :: t → s.inp.length ≤ n → s.usebuf = false →
    (lineLoop n s).view = ⟨t.dropWhile (· ≠ NL), s.buf, false, s.sawspace⟩ := by
  intro n
  induction n with
  | zero =>
    intro s c0 t hs hn _
    have := length_stream s
    rw [hs] at this; simp at this; omega
  | succ n ih =>
    intro s c0 t hs hn hu
    obtain ⟨h1, h2, h3, h4⟩ := nextchar_nouse s c0 t hs hu
    unfold lineLoop
    simp only [chr_eq, h1]
    cases t with
    | nil => simp [S.view, h1, h2, h3, h4, hu]
    | cons a t' =>
      simp only [List.head?_cons, ne_eq, Option.some.injEq, reduceCtorEq, not_false_eq_true,
        and_true, List.dropWhile_cons]
      by_cases ha : a = 10
      · simp [S.view, h1, h2, h3, h4, ha, hu]
      · have := ih s.nextchar a t' h1 (by rw [length_nextchar]; omega) h3
        simp only [ha, not_false_eq_true, if_true, this, h2, h4]
        simp [ha]

/-! ## `/* */` comments -/

theorem blockLoop_spec : ∀ (n : Nat) (s : S) (t : List UInt8),
    s.stream = t → t.length < n → s.usebuf = false →
    match findCommentEnd t with
    | none => ∃ e, blockLoop n s = .error e ∧ e.kind = .eofComment
    | some k => ∃ s', blockLoop n s = .ok s' ∧
        s'.view = ⟨t.drop (k - 1), s.buf, false, s.sawspace⟩ ∧ 2 ≤ k := by
  intro n
  induction n with
  | zero => intro s t _ h _; omega
  | succ n ih =>
    intro s t hs hn hu
    unfold blockLoop
    simp only [chr_eq, stream_nextchar, hs]
    match t, hs, hn with
    | [], hs, hn => simp [findCommentEnd]
    | [a], hs, hn => simp [findCommentEnd]
    | a :: b :: r, hs, hn =>
      simp only [List.tail_cons, List.head?_cons, reduceCtorEq, if_false, Option.some.injEq]
      unfold findCommentEnd
      by_cases hab : a = c! '*' ∧ b = c! '/'
      · obtain ⟨ha, hb⟩ := hab
        subst ha hb
        simp only [and_self, if_true, ne_eq, not_true_eq_false, or_self, if_false]
        refine ⟨_, rfl, ?_, by omega⟩
        simp [S.view, buf_nextchar, hu, hs]
      · have hab' : ¬ a = c! '*' ∨ ¬ b = c! '/' := by
          by_cases h : a = c! '*'
          · right; intro h'; exact hab ⟨h, h'⟩
          · left; exact h
        have hcond : (¬ some a = some (c! '*') ∨ ¬ some b = some (c! '/')) := by simpa using hab'
        simp only [hab, if_false, ne_eq, hcond, if_true]
        have h1 : s.nextchar.stream = b :: r := by simp [hs]
        have := ih s.nextchar (b :: r) h1 (by simp at hn ⊢; omega) (by simp [hu])
        cases hf : findCommentEnd (b :: r) with
        | none =>
          rw [hf] at this
          simpa using this
        | some k =>
          rw [hf] at this
          obtain ⟨s', h1', h2', h3'⟩ := this
          refine ⟨s', h1', ?_, by simp; omega⟩
          rw [h2']
          simp only [Option.map_some, buf_nextchar, hu, sawspace_nextchar]
          congr 1
          show List.drop (k - 1) (b :: r) = List.drop (k + 1 - 1) (a :: b :: r)
          have : k + 1 - 1 = (k - 1) + 1 := by omega
          rw [this, List.drop_succ_cons]

end CprocVerif.Scan

namespace CprocVerif.Scan
open CprocVerif.Gen.TokenKinds
open CprocVerif.Spec.Lex

/-- the `'/'` case of `scankind`, unfolded -/
theorem scankind_slash (f : Nat) (s : S) (hc : s.chr = some (c! '/')) :
    scankind (f + 1) s =
      (let r := op2 s .TDIV .TDIVASSIGN
       if r.1 = .TDIV then
         match comment r.2 with
         | .error e => .error e
         | .ok (some s') => scankind f s'
         | .ok none => ret s r
       else ret s r) := by
  rw [scankind]
  simp only [hc]
  simp [ret]
  rfl

/-- a `//` comment is skipped up to (not including) the new-line; the scanner goes on from
there with the space flag set and nothing else changed -/
theorem scankind_linecomment (f : Nat) (s : S) (t : List UInt8)
    (hs : s.stream = c! '/' :: c! '/' :: t) (hu : s.usebuf = false) :
    ∃ s', scankind (f + 1) s = scankind f s' ∧
      s'.view = ⟨t.dropWhile (· ≠ NL), s.buf, false, true⟩ := by
  have hc : s.chr = some (c! '/') := by rw [chr_eq, hs]; rfl
  obtain ⟨h1, h2, h3, h4⟩ := nextchar_nouse s _ _ hs hu
  have hc1 : s.nextchar.chr = some (c! '/') := by rw [chr_eq, h1]; rfl
  rw [scankind_slash f s hc]
  simp only [op2, hc1, ne_eq, Option.some.injEq, show ¬ ((47 : UInt8) = 61) by decide,
    not_false_eq_true, if_true, comment]
  refine ⟨_, rfl, ?_⟩
  have := lineLoop_spec s.nextchar.inp.length s.nextchar _ t h1 (Nat.le_refl _) h3
  simp only [S.view] at this ⊢
  simp only [View.mk.injEq] at this ⊢
  obtain ⟨a, b, c, _⟩ := this
  exact ⟨a, by rw [b, h2], c, trivial⟩

/-- a `/* */` comment is skipped through its first `*/`; unterminated = diagnostic -/
theorem scankind_blockcomment (f : Nat) (s : S) (t : List UInt8)
    (hs : s.stream = c! '/' :: c! '*' :: t) (hu : s.usebuf = false) :
    match findCommentEnd t with
    | none => ∃ e, scankind (f + 1) s = .error e ∧ e.kind = .eofComment
    | some k => ∃ s', scankind (f + 1) s = scankind f s' ∧
        s'.view = ⟨t.drop k, s.buf, false, true⟩ := by
  have hc : s.chr = some (c! '/') := by rw [chr_eq, hs]; rfl
  obtain ⟨h1, h2, h3, h4⟩ := nextchar_nouse s _ _ hs hu
  have hc1 : s.nextchar.chr = some (c! '*') := by rw [chr_eq, h1]; rfl
  obtain ⟨g1, g2, g3, g4⟩ := nextchar_nouse s.nextchar _ _ h1 h3
  rw [scankind_slash f s hc]
  simp only [op2, hc1, ne_eq, Option.some.injEq, show ¬ ((42 : UInt8) = 61) by decide,
    show ¬ ((42 : UInt8) = 47) by decide, not_false_eq_true, if_true, comment, if_false]
  have := blockLoop_spec (s.nextchar.nextchar.inp.length + 1) s.nextchar.nextchar t g1
    (by rw [← g1]; simp) g3
  cases hf : findCommentEnd t with
  | none =>
    rw [hf] at this
    obtain ⟨e, he, hk⟩ := this
    exact ⟨e, by simp only [he], hk⟩
  | some k =>
    rw [hf] at this
    obtain ⟨s', he, hv, hk⟩ := this
    simp only [he]
    refine ⟨_, rfl, ?_⟩
    simp only [S.view, View.mk.injEq] at hv ⊢
    obtain ⟨a, b, c, d⟩ := hv
    refine ⟨?_, ?_, ?_, trivial⟩
    · show s'.nextchar.stream = _
      rw [stream_nextchar, a]
      have : k = (k - 1) + 1 := by omega
      rw [this, List.tail_drop]
      simp
    · show s'.nextchar.buf = _
      rw [buf_nextchar, c, b, g2, h2]; rfl
    · show s'.nextchar.usebuf = _
      simp [c]

/-- new-line is a token of its own -/
theorem scankind_newline (f : Nat) (s : S) (hc : s.chr = some (c! '\n')) :
    scankind (f + 1) s = .ok (.TNEWLINE, s.loc, s.pos, s.nextchar) := by
  rw [scankind]
  simp only [hc]
  simp

theorem scankind_eof (f : Nat) (s : S) (hc : s.chr = none) :
    scankind (f + 1) s = .ok (.TEOF, s.loc, s.pos, s) := by
  rw [scankind]
  simp only [hc]

/-- a character that starts no token of 6.4 and is no white space -/
def isStray (c : UInt8) : Bool :=
  !(isSpecial c || isNondigit c || isDigit c)

theorem scankind_other (f : Nat) (s : S) (c : UInt8) (hc : s.chr = some c)
    (ho : isStray c = true) :
    scankind (f + 1) s = .ok (.TOTHER, s.loc, s.pos, { s with usebuf := true }.nextchar) := by
  have key : ∀ c : UInt8, isStray c = true → isSpecial c = false ∧
      ¬ (c = c! 'L' ∨ c = c! 'U' ∨ c = c! 'u') ∧ isdigit c = false ∧
      ¬ (isalpha c = true ∨ c = c! '_') := by
    apply forall_uint8; decide +kernel
  obtain ⟨k1, k2, k3, k4⟩ := key c ho
  rw [scankind_tail f s c hc k1, scanTail]
  simp only [k2, if_false, k3, Bool.false_eq_true, k4, ret]

end CprocVerif.Scan

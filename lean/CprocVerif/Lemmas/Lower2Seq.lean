/-
  C01, fragment 𝔽₂ — sequencing of statements.
-/
import CprocVerif.Lemmas.Lower2Leaf

set_option linter.unusedSimpArgs false

namespace CprocVerif.LowerMach2
open CprocVerif.Qbe CprocVerif.Lower CprocVerif.Lower2 CprocVerif.CSem CprocVerif.CSem2 CprocVerif.CInt
open CprocVerif.LowerArith CprocVerif.LowerMach CprocVerif.LowerMem

/-- an outcome other than `normal` reached without a pending jump does not depend on where the
    statement ends -/
theorem Post.abnormal {T : Stat} {lp : Bool × Bool} {brk cont : String} {st0 : State} {pos pos' : List Item}
    {o o' : SCtx} {out : CSem2.Outcome} (h : Post T lp brk cont st0 pos o out) (hj : o.jump = none)
    (hn : ∀ s', out ≠ .normal s') : Post T lp brk cont st0 pos' o' out := by
  cases out with
  | normal s' => exact absurd rfl (hn s')
  | brk s' =>
    obtain ⟨h0, n, env', M', h1, h2⟩ := h
    rcases h2 with ⟨hj', _⟩ | h2
    · rw [hj] at hj'; cases hj'
    · exact ⟨h0, n, env', M', h1, Or.inr h2⟩
  | cont s' =>
    obtain ⟨h0, n, env', M', h1, h2⟩ := h
    rcases h2 with ⟨hj', _⟩ | h2
    · rw [hj] at hj'; cases hj'
    · exact ⟨h0, n, env', M', h1, Or.inr h2⟩
  | ret v =>
    obtain ⟨hrg, n, h2⟩ := h
    rcases h2 with ⟨env', M', val, r0, hj', _⟩ | h2
    · rw [hj] at hj'; cases hj'
    · exact ⟨hrg, n, Or.inr h2⟩

/-- the position after a statement -/
theorem Pos.after {T : Stat} {c : SCtx} {nd nd' : Nat} {pre : List Item} (hp : Pos T c nd pre)
    {st : Stmt} {o : SOut} (g : SGood st c o) (hj : o.ctx.jump = none)
    (hnd : nd' = nd + (declTys st).length) : Pos T o.ctx nd' (pre ++ o.items) := by
  obtain ⟨new, h1, h2, h3, _⟩ := g.slots
  refine ⟨hj, g.cur _ _ hp.cur, g.curOK hp.curOK, by rw [h1, List.length_append, hp.nslots, h2, hnd], ?_⟩
  intro i hi
  rw [h1]
  by_cases hin : i < nd
  · rw [getD_append_left _ _ (by rw [hp.nslots]; exact hin)]
    have := hp.le i hin; have := g.lastid; omega
  · rw [getD_append_right _ _ (by rw [hp.nslots]; omega)]
    have hm : new.getD (i - c.slots.length) 0 ∈ new := getD_mem (by rw [hp.nslots, h2]; omega)
    exact (h3 _ hm).2

/-- `Ext` for the first of two consecutive statements -/
theorem Ext.first {T : Stat} {c1 : SCtx} {st : Stmt} {o : SOut} (h : Ext T o.ctx) (g : SGood st c1 o) :
    Ext T c1 := by
  obtain ⟨new, h1, _, h3, _⟩ := g.slots
  exact h.before h1 (fun sl hsl => (h3 sl hsl).1) g.lastid

/-- an outcome other than `normal` that has left the statement, whatever the lowering context -/
theorem Done.post_abnormal {T : Stat} {lp : Bool × Bool} {brk cont : String} {st0 : State}
    {pos pos' : List Item} {o : SCtx} {out : CSem2.Outcome} (h : Done T lp brk cont st0 pos out)
    (hn : ∀ s', out ≠ .normal s') : Post T lp brk cont st0 pos' o out := by
  cases out with
  | normal s' => exact absurd rfl (hn s')
  | brk s' =>
    obtain ⟨h0, n, env', M', st, h1, h2, h3⟩ := h
    exact ⟨h0, n, env', M', h1, Or.inr ⟨st, h2, h3⟩⟩
  | cont s' =>
    obtain ⟨h0, n, env', M', st, h1, h2, h3⟩ := h
    exact ⟨h0, n, env', M', h1, Or.inr ⟨st, h2, h3⟩⟩
  | ret v =>
    obtain ⟨hrg, n, st, r, h1, h2, h3⟩ := h
    exact ⟨hrg, n, Or.inr ⟨st, r, h1, h2, h3⟩⟩

/-- a statement ending in `return`/`break`/`continue` does not complete normally -/
theorem endsJump_abnormal (cs : Bool) (P : List CSem2.Func) : ∀ (n : Nat) (a : Stmt) (s : Store) (o : CSem2.Outcome),
    a.endsJump = true → exec cs P n s a = some o → ∀ s', o ≠ .normal s' := by
  intro n
  induction n with
  | zero => intro a s o _ h; simp only [exec] at h; cases h
  | succ n ih =>
    intro a s o he h s' hs'
    subst hs'
    cases a <;> simp only [Stmt.endsJump, Bool.false_eq_true] at he
    · simp only [exec, Option.map_eq_some_iff] at h
      obtain ⟨v, _, h2⟩ := h; cases h2
    · rename_i x y
      simp only [exec] at h
      cases hx : exec cs P n s x with
      | none => rw [hx] at h; cases h
      | some ox =>
        rw [hx] at h
        cases ox with
        | normal s'' => exact ih y s'' _ he h s' rfl
        | brk _ => cases h
        | cont _ => cases h
        | ret _ => cases h
    · simp only [exec] at h; cases h
    · simp only [exec] at h; cases h

/-- a statement that begins with a label emits that label first -/
theorem startsLabel_items (cs : Bool) (st : Stmt) : ∀ (brk cont : String) (c : SCtx),
    st.startsLabel = true → ∃ l rest, (funcstmt cs brk cont st c).items = labelItem c l :: rest := by
  induction st with
  | seq a b iha _ =>
    intro brk cont c h
    obtain ⟨l, rest, h1⟩ := iha brk cont c (by simpa [Stmt.startsLabel] using h)
    exact ⟨l, rest ++ (funcstmt cs brk cont b (funcstmt cs brk cont a c).ctx).items, by
      simp only [funcstmt, h1, List.cons_append]⟩
  | case_ u => intro brk cont c _; exact ⟨_, [], rfl⟩
  | default_ => intro brk cont c _; exact ⟨_, [], rfl⟩
  | _ => intro brk cont c h; simp [Stmt.startsLabel] at h

/-- `Pos` without the requirement that no jump is pending (a statement that begins with a label may
    start in a block already closed by a jump). -/
structure PosS (T : Stat) (c : SCtx) (nd : Nat) (pre : List Item) : Prop where
  cur : curOf T.S.o0 pre = c.cur
  curOK : CurOK c.ctx
  nslots : c.slots.length = nd
  le : ∀ i, i < nd → c.slots.getD i 0 ≤ c.lastid

theorem Pos.toS {T : Stat} {c : SCtx} {nd : Nat} {pre : List Item} (h : Pos T c nd pre) : PosS T c nd pre :=
  ⟨h.cur, h.curOK, h.nslots, h.le⟩

theorem PosS.toPos {T : Stat} {c : SCtx} {nd : Nat} {pre : List Item} (h : PosS T c nd pre)
    (hj : c.jump = none) : Pos T c nd pre := ⟨hj, h.cur, h.curOK, h.nslots, h.le⟩

/-- the position after a statement -/
theorem PosS.after {T : Stat} {c : SCtx} {nd nd' : Nat} {pre : List Item} (hp : PosS T c nd pre)
    {st : Stmt} {o : SOut} (g : SGood st c o)
    (hnd : nd' = nd + (declTys st).length) : PosS T o.ctx nd' (pre ++ o.items) := by
  obtain ⟨new, h1, h2, h3, _⟩ := g.slots
  refine ⟨g.cur _ _ hp.cur, g.curOK hp.curOK, by rw [h1, List.length_append, hp.nslots, h2, hnd], ?_⟩
  intro i hi
  rw [h1]
  by_cases hin : i < nd
  · rw [getD_append_left _ _ (by rw [hp.nslots]; exact hin)]
    have := hp.le i hin; have := g.lastid; omega
  · rw [getD_append_right _ _ (by rw [hp.nslots]; omega)]
    have hm : new.getD (i - c.slots.length) 0 ∈ new := getD_mem (by rw [hp.nslots, h2]; omega)
    exact (h3 _ hm).2

/-- how `exec` continues a sequence after the outcome of its first statement -/
def seqRes (cs : Bool) (P : List CSem2.Func) (n : Nat) (b : Stmt) : CSem2.Outcome → Option CSem2.Outcome
  | .normal s' => exec cs P n s' b
  | o => some o

section
variable (T : Stat)

/-- The second statement of a sequence, given what the first one achieved (`pa`). -/
theorem seq_cont (n : Nat) (ih : SimStmt T n) (a b : Stmt) {out oa : CSem2.Outcome}
    {lp : Bool × Bool} {brk cont : String} {c : SCtx} {nd nd' : Nat} {pre post : List Item} {st0 : State}
    (hfrb : frag T.P T.cnts T.W b = true)
    (hwt : Stmt.wt T.vtys T.ret lp.1 lp.2 nd (.seq a b) = some nd') (hp : PosS T c nd pre)
    (hjs : c.jump = none ∨ a.startsLabel = true)
    (hext : Ext T (funcstmt T.S.cs brk cont (.seq a b) c).ctx)
    (hits : T.S.its = pre ++ (funcstmt T.S.cs brk cont (.seq a b) c).items ++ post)
    (hlp : (lp.1 = true → CanJump T.S brk) ∧ (lp.2 = true → CanJump T.S cont))
    (pa : Post T lp brk cont st0 (pre ++ (funcstmt T.S.cs brk cont a c).items)
      (funcstmt T.S.cs brk cont a c).ctx oa)
    (habn : a.endsJump = true → ∀ s', oa ≠ .normal s')
    (hres : seqRes T.S.cs T.P n b oa = some out) :
    Post T lp brk cont st0 (pre ++ (funcstmt T.S.cs brk cont (.seq a b) c).items)
      (funcstmt T.S.cs brk cont (.seq a b) c).ctx out := by
  simp only [Stmt.wt] at hwt
  split at hwt
  · cases hwt
  · rename_i hej
    simp only [Option.bind_eq_some_iff] at hwt
    obtain ⟨n1, hwa, hwb⟩ := hwt
    obtain ⟨hna, hca⟩ := wt_noDead _ _ a _ _ _ _ hwa
    obtain ⟨hnb, hcb⟩ := wt_noDead _ _ b _ _ _ _ hwb
    have ga := funcstmt_good' T.S.cs a brk cont c hjs hna
    have hdis : a.endsJump = false ∨ b.startsLabel = true := by
      cases ha : a.endsJump <;> cases hb : b.startsLabel <;> simp [ha, hb] at hej ⊢
    simp only [funcstmt] at hext hits ⊢
    have hitsa : T.S.its = pre ++ (funcstmt T.S.cs brk cont a c).items ++
        ((funcstmt T.S.cs brk cont b (funcstmt T.S.cs brk cont a c).ctx).items ++ post) := by
      rw [hits]; simp only [List.append_assoc]
    by_cases hej' : a.endsJump = true
    · -- `a` ends in a jump statement: `b` begins with the label that closes the block
      have hsl : b.startsLabel = true := by
        rcases hdis with h | h
        · rw [hej'] at h; cases h
        · exact h
      have hab := habn hej'
      have hout : out = oa := by
        cases oa with
        | normal s' => exact absurd rfl (hab s')
        | brk _ => simpa [seqRes] using hres.symm
        | cont _ => simpa [seqRes] using hres.symm
        | ret _ => simpa [seqRes] using hres.symm
      subst hout
      obtain ⟨l, rest, hl⟩ := startsLabel_items T.S.cs b brk cont (funcstmt T.S.cs brk cont a c).ctx hsl
      have hitsl : T.S.its = (pre ++ (funcstmt T.S.cs brk cont a c).items) ++
          .lbl (funcstmt T.S.cs brk cont a c).ctx.jump l [] :: (rest ++ post) := by
        rw [hitsa, hl]; simp only [labelItem, List.append_assoc, List.cons_append]
      exact (pa.close hitsl hlp).post_abnormal hab
    · have hja := ga.jump (by simpa using hej')
      cases oa with
      | normal s' =>
        simp only [seqRes] at hres
        obtain ⟨_, k, env', M', hreach, inv'⟩ := pa
        have hpb : Pos T (funcstmt T.S.cs brk cont a c).ctx n1 (pre ++ (funcstmt T.S.cs brk cont a c).items) :=
          (hp.after ga hca).toPos hja
        have hitsb : T.S.its = (pre ++ (funcstmt T.S.cs brk cont a c).items) ++
            (funcstmt T.S.cs brk cont b (funcstmt T.S.cs brk cont a c).ctx).items ++ post := by
          rw [hits]; simp only [List.append_assoc]
        have pb := ih b s' out lp brk cont _ n1 nd' _ post env' M' hres hfrb hwb hpb hext hitsb hlp inv'
        rw [← List.append_assoc]
        exact pb.prepend hreach
      | brk s' =>
        simp only [seqRes, Option.some.injEq] at hres
        subst hres
        exact pa.abnormal hja (by intro s'' h; cases h)
      | cont s' =>
        simp only [seqRes, Option.some.injEq] at hres
        subst hres
        exact pa.abnormal hja (by intro s'' h; cases h)
      | ret v =>
        simp only [seqRes, Option.some.injEq] at hres
        subst hres
        exact pa.abnormal hja (by intro s'' h; cases h)

theorem sim_seq (n : Nat) (ih : SimStmt T n) (a b : Stmt) {s : Store} {out : CSem2.Outcome}
    {lp : Bool × Bool} {brk cont : String} {c : SCtx} {nd nd' : Nat} {pre post : List Item} {env : Env}
    {M : Mem}
    (hex : exec T.S.cs T.P (n + 1) s (.seq a b) = some out) (hfr : frag T.P T.cnts T.W (.seq a b) = true)
    (hwt : Stmt.wt T.vtys T.ret lp.1 lp.2 nd (.seq a b) = some nd') (hp : Pos T c nd pre)
    (hext : Ext T (funcstmt T.S.cs brk cont (.seq a b) c).ctx)
    (hits : T.S.its = pre ++ (funcstmt T.S.cs brk cont (.seq a b) c).items ++ post)
    (hlp : (lp.1 = true → CanJump T.S brk) ∧ (lp.2 = true → CanJump T.S cont))
    (inv : SInv T.M0 T.S.cs T.cnts T.W T.σ T.vtys s env M) :
    Post T lp brk cont (T.at env M pre) (pre ++ (funcstmt T.S.cs brk cont (.seq a b) c).items)
      (funcstmt T.S.cs brk cont (.seq a b) c).ctx out := by
  simp only [frag, Bool.and_eq_true] at hfr
  have hwt' := hwt
  simp only [Stmt.wt] at hwt'
  split at hwt'
  · cases hwt'
  · rename_i hej
    simp only [Option.bind_eq_some_iff] at hwt'
    obtain ⟨n1, hwa, hwb⟩ := hwt'
    obtain ⟨hna, hca⟩ := wt_noDead _ _ a _ _ _ _ hwa
    obtain ⟨hnb, hcb⟩ := wt_noDead _ _ b _ _ _ _ hwb
    have ga := funcstmt_good T.S.cs a brk cont c hp.jump hna
    have hdis : a.endsJump = false ∨ b.startsLabel = true := by
      cases ha : a.endsJump <;> cases hb : b.startsLabel <;> simp [ha, hb] at hej ⊢
    have gb := funcstmt_good' T.S.cs b brk cont (funcstmt T.S.cs brk cont a c).ctx (by
      rcases hdis with h | h
      · exact Or.inl (ga.jump h)
      · exact Or.inr h) hnb
    have hexta : Ext T (funcstmt T.S.cs brk cont a c).ctx := by
      have : Ext T (funcstmt T.S.cs brk cont b (funcstmt T.S.cs brk cont a c).ctx).ctx := hext
      exact this.first gb
    have hitsa : T.S.its = pre ++ (funcstmt T.S.cs brk cont a c).items ++
        ((funcstmt T.S.cs brk cont b (funcstmt T.S.cs brk cont a c).ctx).items ++ post) := by
      rw [hits]; simp only [funcstmt, List.append_assoc]
    simp only [exec] at hex
    cases hea : exec T.S.cs T.P n s a with
    | none => rw [hea] at hex; cases hex
    | some oa =>
      rw [hea] at hex
      have pa := ih a s oa lp brk cont c nd n1 pre _ env M hea hfr.1 hwa hp hexta hitsa hlp inv
      have hres : seqRes T.S.cs T.P n b oa = some out := by
        cases oa <;> simpa [seqRes] using hex
      exact seq_cont T n ih a b hfr.2 hwt hp.toS (Or.inl hp.jump) hext hits hlp pa
        (fun he => endsJump_abnormal T.S.cs T.P n a s oa he hea) hres

end

end CprocVerif.LowerMach2

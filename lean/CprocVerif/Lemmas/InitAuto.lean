import CprocVerif.Model.InitAuto
import CprocVerif.Lemmas.InitEmit1

/-!
# `funcinit` on a sorted list of pairwise disjoint initialisers leaves the static image in memory
-/

namespace CprocVerif.InitAuto
open CprocVerif.Init CprocVerif.Image

theorem bitsToNat_eq : ∀ (n : Nat) (f : Nat → Bool), bitsToNat n f = ofBits n f := by
  intro n
  induction n with
  | zero => intro f; rfl
  | succ n ih => intro f; simp only [bitsToNat, ofBits, ih]

theorem cval_eq (c : Cell) : cval c = Cell.toNat c := by cases c <;> rfl

theorem valByte_eq (v : Val) (k : Nat) : valByte v k = valCell v k := by cases v <;> rfl

theorem getElem?_zero (m : Mem) (a b j : Nat) :
    (zero m a b)[j]? = (m[j]?).map (fun c => if a ≤ j ∧ j < b then Cell.byte 0 else c) := by
  unfold zero
  rw [List.getElem?_mapIdx]

theorem length_zero (m : Mem) (a b : Nat) : (zero m a b).length = m.length := by
  unfold zero; simp

theorem lo_ge (i : Init) : 8 * i.start ≤ i.lo := by unfold Init.lo; omega
theorem hi_le (i : Init) : i.hi ≤ 8 * i.stop := by unfold Init.hi; omega

/-- `funcstore` is the write of the image semantics -/
theorem store_eq_write {m : Mem} {i : Init} (hb : ByteVal i) : store m i = Image.write m i := by
  unfold store Image.write
  cases hv : i.val with
  | int w u =>
    simp only []
    apply List.ext_getElem?
    intro j
    rw [List.getElem?_mapIdx, List.getElem?_mapIdx]
    cases m[j]? with
    | none => rfl
    | some c =>
      simp only [Option.map_some]
      congr 1
      by_cases ht : touches i j
      · have hin : i.start ≤ j ∧ j < i.stop := by
          unfold touches at ht; have := lo_ge i; have := hi_le i; omega
        rw [if_pos hin, writeCell_int hv ht]
        unfold rmwCell intCell
        rw [bitsToNat_eq, cval_eq]
        have ht' : i.lo < 8 * j + 8 ∧ 8 * j < i.hi := ht
        rw [if_pos ht']
      · rw [writeCell_of_not_touches ht]
        by_cases hin : i.start ≤ j ∧ j < i.stop
        · rw [if_pos hin]
          unfold rmwCell
          have ht' : ¬ (i.lo < 8 * j + 8 ∧ 8 * j < i.hi) := ht
          rw [if_neg ht']
        · rw [if_neg hin]
  | _ =>
    all_goals
      simp only []
      have hbv : i.before = 0 ∧ i.after = 0 := by unfold ByteVal at hb; rw [hv] at hb; exact hb
      apply List.ext_getElem?
      intro j
      rw [List.getElem?_mapIdx, List.getElem?_mapIdx]
      cases m[j]? with
      | none => rfl
      | some c =>
        simp only [Option.map_some]
        congr 1
        by_cases hin : i.start ≤ j ∧ j < i.stop
        · have ht : touches i j := by unfold touches Init.lo Init.hi; omega
          rw [if_pos hin, writeCell_byteval (by intro w u; rw [hv]; simp) ht, hv, valByte_eq]
        · have ht : ¬ touches i j := by unfold touches Init.lo Init.hi; omega
          rw [if_neg hin, writeCell_of_not_touches ht]

/-- a whole store does not depend on what was in memory -/
theorem writeCell_full {i : Init} {j : Nat} (hb : i.before = 0 ∧ i.after = 0) (hin : i.start ≤ j ∧ j < i.stop)
    (c c' : Cell) : writeCell i j c = writeCell i j c' := by
  have ht : touches i j := by unfold touches Init.lo Init.hi; omega
  cases hv : i.val with
  | int w u =>
    rw [writeCell_int hv ht, writeCell_int hv ht]
    unfold intCell
    refine congrArg Cell.byte (ofBits_congr ?_)
    intro k hk
    have : i.lo ≤ 8 * j + k ∧ 8 * j + k < i.hi := by unfold Init.lo Init.hi; omega
    rw [if_pos this, if_pos this]
  | _ =>
    all_goals
      rw [writeCell_byteval (by intro w u; rw [hv]; simp) ht, writeCell_byteval (by intro w u; rw [hv]; simp) ht]

/-- the invariant of the loop of `funcinit` after the initialisers `pre` -/
structure Inv (size : Nat) (pre : List Init) (s : ASt) : Prop where
  len : s.mem.length = size
  mx : s.max ≤ size
  om : s.offset ≤ s.max
  val : ∀ j, j < s.max → s.mem[j]? = some (cellFold pre j (.byte 0))
  zer : ∀ j, s.offset ≤ j → cellFold pre j (.byte 0) = .byte 0

theorem str_zero_tail {w : Nat} {cs : List Nat} {k : Nat} (h : cs.length ≤ k / w) : valCell (.str w cs) k = .byte 0 := by
  unfold valCell
  simp only []
  rw [List.getD_eq_getElem?_getD, List.getElem?_eq_none h]
  simp

theorem div_round {d w : Nat} (hw : 0 < w) (hm : d % w = 0) : (d + w - 1) / w = d / w ∧ d / w * w = d := by
  have hd : d = w * (d / w) := by
    have := Nat.div_add_mod d w; omega
  refine ⟨?_, by rw [Nat.mul_comm]; exact hd.symm⟩
  have h1 : d + w - 1 = w * (d / w) + (w - 1) := by omega
  rw [h1, Nat.mul_add_div hw]
  have : (w - 1) / w = 0 := Nat.div_eq_of_lt (by omega)
  omega

theorem step_nonstr {s : ASt} {i : Init} (h : ∀ w cs, i.val ≠ .str w cs) :
    step s i = ASt.mk (store (if s.offset < i.stop ∧ (i.before ≠ 0 ∨ i.after ≠ 0)
        then zero (zero s.mem s.offset i.start) s.offset i.stop else zero s.mem s.offset i.start) i)
      i.stop (max s.max i.stop) := by
  unfold step
  cases hv : i.val with
  | str w cs => exact absurd hv (h w cs)
  | _ => rfl

theorem step_str {s : ASt} {i : Init} {w : Nat} {cs : List Nat} (hv : i.val = .str w cs) :
    step s i = ASt.mk (storeStr (zero s.mem s.offset i.start) i (min cs.length ((i.stop - i.start + w - 1) / w)) w)
      (i.start + min cs.length ((i.stop - i.start + w - 1) / w) * w)
      (max s.max (i.start + min cs.length ((i.stop - i.start + w - 1) / w) * w)) := by
  unfold step; rw [hv]

section
variable {size : Nat} {pre : List Init} {s : ASt} {i : Init} (h : Inv size pre s)
  (hs : ∀ p ∈ pre, p.hi ≤ i.lo) (hw : Wf size i)
include h hs hw

theorem fold_snoc (j : Nat) : cellFold (pre ++ [i]) j (.byte 0) = writeCell i j (cellFold pre j (.byte 0)) := by
  rw [cellFold_append]; rfl

/-- bytes at or behind the first bit of `i` are untouched by what came before -/
theorem pre_zero (j : Nat) (hj : i.lo ≤ 8 * j) : cellFold pre j (.byte 0) = .byte 0 := by
  apply cellFold_untouched
  intro p hp
  have := hs p hp
  unfold touches; omega

theorem mem_some (j : Nat) (hj : j < size) : ∃ g, s.mem[j]? = some g :=
  ⟨s.mem[j]'(by rw [h.len]; exact hj), List.getElem?_eq_getElem _⟩

theorem step_inv_nonstr (hn : ∀ w cs, i.val ≠ .str w cs) : Inv size (pre ++ [i]) (step s i) := by
  have hne := hw.ne
  have hlo := lo_ge i
  have hhi := hi_le i
  have hsz := hw.inside
  rw [step_nonstr hn, store_eq_write hw.byteVal]
  have hss : i.start < i.stop := by unfold Init.lo Init.hi at hne; omega
  have hm2 : ∀ j g, s.mem[j]? = some g →
      (if s.offset < i.stop ∧ (i.before ≠ 0 ∨ i.after ≠ 0)
        then zero (zero s.mem s.offset i.start) s.offset i.stop else zero s.mem s.offset i.start)[j]? =
      some (if (s.offset ≤ j ∧ j < i.start) ∨ ((s.offset < i.stop ∧ (i.before ≠ 0 ∨ i.after ≠ 0)) ∧ s.offset ≤ j ∧ j < i.stop)
        then Cell.byte 0 else g) := by
    intro j g hg
    by_cases hz : s.offset < i.stop ∧ (i.before ≠ 0 ∨ i.after ≠ 0)
    · rw [if_pos hz, getElem?_zero, getElem?_zero, hg]
      simp only [Option.map_some]
      by_cases h1 : s.offset ≤ j ∧ j < i.start
      · simp [h1]
      · by_cases h2 : s.offset ≤ j ∧ j < i.stop
        · simp [h2, hz]
        · simp [h1, h2]
    · rw [if_neg hz, getElem?_zero, hg]
      simp only [Option.map_some]
      by_cases h1 : s.offset ≤ j ∧ j < i.start
      · simp [h1]
      · simp [h1, hz]
  refine ⟨?_, ?_, ?_, ?_, ?_⟩
  · show (Image.write _ i).length = size
    rw [length_write]
    split <;> simp [length_zero, h.len]
  · show max s.max i.stop ≤ size
    have := h.mx; omega
  · show i.stop ≤ max s.max i.stop
    omega
  · intro j hj
    have hj' : j < s.max ∨ j < i.stop := by
      have : j < max s.max i.stop := hj
      omega
    have hjs : j < size := by have := h.mx; omega
    obtain ⟨g, hg⟩ := mem_some h hs hw j hjs
    show (Image.write _ i)[j]? = _
    unfold Image.write
    rw [List.getElem?_mapIdx, hm2 j g hg, fold_snoc h hs hw]
    simp only [Option.map_some]
    have key : writeCell i j (if (s.offset ≤ j ∧ j < i.start) ∨ ((s.offset < i.stop ∧ (i.before ≠ 0 ∨ i.after ≠ 0)) ∧ s.offset ≤ j ∧ j < i.stop)
        then Cell.byte 0 else g) = writeCell i j (cellFold pre j (.byte 0)) := by
      by_cases hZ : (s.offset ≤ j ∧ j < i.start) ∨ ((s.offset < i.stop ∧ (i.before ≠ 0 ∨ i.after ≠ 0)) ∧ s.offset ≤ j ∧ j < i.stop)
      · rw [if_pos hZ, h.zer j (by omega)]
      · rw [if_neg hZ]
        by_cases hjm : j < s.max
        · have := h.val j hjm
          rw [hg] at this
          cases this
          rfl
        · have hom := h.om
          have hin : i.start ≤ j ∧ j < i.stop := by omega
          have hbz : i.before = 0 ∧ i.after = 0 := by
            by_cases hbb : i.before ≠ 0 ∨ i.after ≠ 0
            · exfalso; apply hZ; right; exact ⟨⟨by omega, hbb⟩, by omega, hin.2⟩
            · omega
          exact writeCell_full hbz hin _ _
    rw [key]
  · intro j hj
    have hj' : i.stop ≤ j := hj
    rw [fold_snoc h hs hw, writeCell_of_not_touches (by unfold touches; omega)]
    exact pre_zero h hs hw j (by omega)

theorem step_inv_str {w : Nat} {cs : List Nat} (hv : i.val = .str w cs) : Inv size (pre ++ [i]) (step s i) := by
  have hne := hw.ne
  have hsz := hw.inside
  have hsh := hw.shape
  rw [hv] at hsh
  simp only [] at hsh
  obtain ⟨hb, ha, hw3, hmod⟩ := hsh
  have hwpos : 0 < w := by omega
  obtain ⟨hr1, hr2⟩ := div_round hwpos hmod
  rw [step_str hv, hr1]
  have hlo' : i.lo = 8 * i.start := by unfold Init.lo; omega
  have hhi' : i.hi = 8 * i.stop := by unfold Init.hi; omega
  have hss : i.start < i.stop := by omega
  have hnw : min cs.length ((i.stop - i.start) / w) * w ≤ i.stop - i.start := by
    calc min cs.length ((i.stop - i.start) / w) * w ≤ (i.stop - i.start) / w * w :=
          Nat.mul_le_mul_right _ (Nat.min_le_right _ _)
      _ = i.stop - i.start := hr2
  have hnlen : ∀ j, i.start + min cs.length ((i.stop - i.start) / w) * w ≤ j → j < i.stop →
      min cs.length ((i.stop - i.start) / w) = cs.length := by
    intro j h1 h2
    rcases Nat.le_total cs.length ((i.stop - i.start) / w) with hle | hle
    · exact Nat.min_eq_left hle
    · exfalso
      rw [Nat.min_eq_right hle, hr2] at h1
      omega
  generalize min cs.length ((i.stop - i.start) / w) = n at hnw hnlen ⊢
  have htail : ∀ j, i.start + n * w ≤ j → j < i.stop → valCell (.str w cs) (j - i.start) = .byte 0 := by
    intro j h1 h2
    apply str_zero_tail
    rw [← hnlen j h1 h2]
    exact (Nat.le_div_iff_mul_le hwpos).2 (by omega)
  have hcell : ∀ j g, s.mem[j]? = some g →
      (storeStr (zero s.mem s.offset i.start) i n w)[j]? =
        some (if i.start ≤ j ∧ j < i.start + n * w then valCell (.str w cs) (j - i.start)
          else if s.offset ≤ j ∧ j < i.start then Cell.byte 0 else g) := by
    intro j g hg
    unfold storeStr
    rw [List.getElem?_mapIdx, getElem?_zero, hg]
    simp only [Option.map_some, hv, valByte_eq]
  have hwc : ∀ j c, writeCell i j c = if i.start ≤ j ∧ j < i.stop then valCell (.str w cs) (j - i.start) else c := by
    intro j c
    by_cases hin : i.start ≤ j ∧ j < i.stop
    · have ht : touches i j := by unfold touches; omega
      rw [if_pos hin, writeCell_byteval (by intro w' u; rw [hv]; simp) ht, hv]
    · have ht : ¬ touches i j := by unfold touches; omega
      rw [if_neg hin, writeCell_of_not_touches ht]
  refine ⟨?_, ?_, ?_, ?_, ?_⟩
  · show (storeStr _ i n w).length = size
    unfold storeStr; simp [length_zero, h.len]
  · show max s.max (i.start + n * w) ≤ size
    have := h.mx; omega
  · show i.start + n * w ≤ max s.max (i.start + n * w)
    omega
  · intro j hj
    have hj' : j < s.max ∨ j < i.start + n * w := by
      have : j < max s.max (i.start + n * w) := hj
      omega
    have hjs : j < size := by have := h.mx; omega
    obtain ⟨g, hg⟩ := mem_some h hs hw j hjs
    show (storeStr _ i n w)[j]? = _
    rw [hcell j g hg, fold_snoc h hs hw, hwc]
    by_cases h1 : i.start ≤ j ∧ j < i.start + n * w
    · rw [if_pos h1, if_pos (by omega)]
    · rw [if_neg h1]
      by_cases h2 : i.start ≤ j ∧ j < i.stop
      · rw [if_pos h2, htail j (by omega) h2.2, if_neg (by omega)]
        have hjm : j < s.max := by omega
        have := h.val j hjm
        rw [hg] at this
        cases this
        rw [pre_zero h hs hw j (by omega)]
      · rw [if_neg h2]
        by_cases h3 : s.offset ≤ j ∧ j < i.start
        · rw [if_pos h3, h.zer j h3.1]
        · rw [if_neg h3]
          have hjm : j < s.max := by have := h.om; omega
          have := h.val j hjm
          rw [hg] at this
          cases this
          rfl
  · intro j hj
    have hj' : i.start + n * w ≤ j := hj
    rw [fold_snoc h hs hw, hwc]
    by_cases h2 : i.start ≤ j ∧ j < i.stop
    · rw [if_pos h2]; exact htail j hj' h2.2
    · rw [if_neg h2]; exact pre_zero h hs hw j (by omega)

theorem step_inv : Inv size (pre ++ [i]) (step s i) := by
  cases hv : i.val with
  | str w cs => exact step_inv_str h hs hw hv
  | _ => exact step_inv_nonstr h hs hw (by intro w cs; rw [hv]; simp)

end

theorem fold_inv {size : Nat} : ∀ (l pre : List Init) (s : ASt), Inv size pre s →
    (pre ++ l).Pairwise (fun a b => a.hi ≤ b.lo) → (∀ i ∈ l, Wf size i) → Inv size (pre ++ l) (l.foldl step s) := by
  intro l
  induction l with
  | nil => intro pre s h _ _; simpa using h
  | cons i l ih =>
    intro pre s h hp hw
    rw [List.foldl_cons]
    have hpi : ∀ p ∈ pre, p.hi ≤ i.lo := by
      intro p hp'
      exact (List.pairwise_append.1 hp).2.2 p hp' i List.mem_cons_self
    have := ih (pre ++ [i]) (step s i) (step_inv h hpi (hw i List.mem_cons_self))
      (by rw [List.append_assoc]; exact hp) (fun x hx => hw x (List.mem_cons_of_mem _ hx))
    rw [List.append_assoc] at this
    exact this

/-- **the loop of `funcinit`**: on a list sorted by bit position without overlap, whatever the
memory held before, it holds the static image afterwards -/
theorem funcinit_image {size : Nat} {l : List Init} {garb : Mem} (hlen : garb.length = size)
    (hs : l.Pairwise (fun a b => a.hi ≤ b.lo)) (hw : ∀ i ∈ l, Wf size i) : funcinit size garb l = image size l := by
  have h0 : Inv size [] { mem := garb } :=
    ⟨hlen, Nat.zero_le _, Nat.le_refl _, fun j hj => (by cases hj), fun j _ => rfl⟩
  have h := fold_inv l [] _ h0 (by simpa using hs) hw
  simp only [List.nil_append] at h
  unfold funcinit
  apply eq_image_of_cells (by rw [length_zero]; exact h.len)
  intro j hj
  have hg : ∃ g, (l.foldl step { mem := garb }).mem[j]? = some g :=
    ⟨_, List.getElem?_eq_getElem (by rw [h.len]; exact hj)⟩
  obtain ⟨g, hg⟩ := hg
  rw [getElem?_zero, hg, cellAt_eq]
  simp only [Option.map_some]
  by_cases hm : j < (l.foldl step { mem := garb }).max
  · rw [if_neg (by omega)]
    have := h.val j hm
    rw [hg] at this
    exact this
  · rw [if_pos ⟨by omega, hj⟩]
    have := h.om
    rw [h.zer j (by omega)]

end CprocVerif.InitAuto

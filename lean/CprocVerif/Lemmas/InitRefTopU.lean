import CprocVerif.Lemmas.InitRefUnb3
import CprocVerif.Lemmas.InitRefTop

/-!
# `parseinit` refines `InitRef.ref` for arrays of unknown size
-/

namespace CprocVerif.InitSim
open CprocVerif.Init CprocVerif.Image CprocVerif.InitRef

/-- the state `parseinit` starts from for `T a[] = …` -/
def st0u (t : Ty) : St := { obj := fun _ => { ty := t }, top := t.size, inc := true }

theorem parseinit_true {n : Nat} {e0 : Ty} {i : Ini} {st : St} (h : parseinit (.array n e0) true i = .ok st) :
    parseItem (st0u (.array n e0)) [] i = .ok st := by
  unfold parseinit at h
  simp only [] at h
  split at h
  · cases h
  · exact h

theorem ref_true {t : Ty} {i : Ini} {r : Result} (h : ref t true i = .ok r) :
    ∃ rst, initOne 1000000 { ty := t, unb := true } i .nil {} = .ok (.nil, rst) ∧ r.size = rst.top ∧
      r.writes = rst.log ∧ r.nswitch = rst.nswitch := by
  unfold ref at h
  split at h
  · cases h
  · cases h
  · rename_i rst hi
    simp only [Bool.true_and] at h
    split at h
    · cases h
    · cases h
      exact ⟨rst, hi, rfl, rfl, rfl⟩

theorem closeBrace_log_top (st : St) : (closeBrace st).log = st.log ∧ (closeBrace st).top = st.top := by
  unfold closeBrace
  dsimp only []
  split <;> exact ⟨rfl, rfl⟩

/-- a string literal for the whole character array of unknown size -/
theorem exprBody_strU {st st' : St} {n es cls : Nat} {sg : Bool} {w scls : Nat} {cs : List Nat} {pf : Nat}
    (hs : st.sub = 0) (hinc : st.inc = true) (hty : (st.obj 0).ty = .array n (.scalar es (.int cls sg)))
    (hoff : (st.obj 0).offset = 0) (e : exprBody pf st (.str w scls cs) = .ok st') :
    (!(isChar cls && isChar scls) && decide (cls ≠ scls)) = false ∧
    st'.log = st.log ++ [.add ⟨0, 0 + w * cs.length, 0, 0, .str w cs⟩] ∧ st'.top = w * cs.length := by
  cases pf with
  | zero => exact absurd e (exprBody_zero _ _ _)
  | succ pf =>
    unfold exprBody at e
    rw [placeExpr] at e
    have hty' : (st.obj st.sub).ty = .array n (.scalar es (.int cls sg)) := by rw [hs]; exact hty
    have hh : hit st (.str w scls cs) =
        if !(isChar cls && isChar scls) && cls ≠ scls then
          .error (.diag "cannot initialize array with string literal of different width")
        else .ok (.add (.str w cs), { st with top := w * cs.length }) := by
      unfold hit
      rw [hty', tinc_zero hs hinc]
      simp
    rw [hh] at e
    cases hbad : (!(isChar cls && isChar scls) && decide (cls ≠ scls)) with
    | true => rw [hbad] at e; simp at e
    | false =>
      rw [hbad] at e
      simp only [Bool.false_eq_true, if_false] at e
      have hcb : curBits ({ st with top := w * cs.length } : St) = .ok (0, 0) := by
        unfold curBits
        simp [hs]
      rw [hcb] at e
      simp only [] at e
      refine ⟨rfl, ?_⟩
      have hts : ({ st with top := w * cs.length } : St).tsize st.sub = w * cs.length := by
        unfold St.tsize; rw [if_pos hs]
      cases e
      simp only [hs] at hts ⊢
      rw [hts, hoff]
      split <;> exact ⟨rfl, rfl⟩

/-- well-formed type of an array of unknown size: `T a[]` with a well-formed element type of
non-zero size -/
theorem refines_core_unb {e0 : Ty} {i : Ini} {st : St} {r : Result}
    (hm : parseinit (.array 0 e0) true i = .ok st) (hr : ref (.array 0 e0) true i = .ok r) (hsw : r.nswitch = 0)
    (hwf : tyWf e0 = true) (hes : 0 < e0.size) (htop : topOK (.array 0 e0) i = true) :
    st.top = r.size ∧ ImgEq (st.log.map evWrite) r.writes := by
  obtain ⟨rst, hi, hsz, hwr, hns⟩ := ref_true hr
  have hm' := parseinit_true hm
  rw [parseItem_eq, preStep_nocur (by rfl)] at hm'
  simp only [] at hm'
  rw [hsz, hwr]
  have hn0 : rst.nswitch = ({} : RSt).nswitch := by rw [← hns, hsw]
  have hU : PlWfU { ty := .array 0 e0, unb := true } 0 e0 := ⟨rfl, hwf, hes, rfl⟩
  have hsz0 : (Ty.array 0 e0).size = 0 := by simp [Ty.size]
  generalize 1000000 = fuel at hi
  cases fuel with
  | zero => rw [initOne.eq_1] at hi; cases hi
  | succ f =>
  cases i with
  | expr e =>
    have hb : exprBody 34 (st0u (.array 0 e0)) e = .ok st := hm'
    have hne : elides (.array 0 e0) e = false := by simpa [topOK] using htop
    rcases expr_cases (.array 0 e0) e with ⟨size, k, hty⟩ | ⟨n, es, cls, sg, w, scls, cs, hty, rfl⟩ |
        ⟨isU, tag, size, ms, hty, rfl⟩ | he
    · cases hty
    · cases hty
      obtain ⟨hbad, hlog, htp⟩ := exprBody_strU (st := st0u _) rfl rfl rfl rfl hb
      rw [initOne.eq_4 _ _ _ _ _ _ _ _ _ _ _ (show ({ ty := .array 0 (.scalar es (.int cls sg)), unb := true } : Place).ty = _ from rfl)] at hi
      rw [hbad] at hi
      simp only [Bool.false_eq_true, if_false, if_true] at hi
      cases hi
      refine ⟨by rw [htp]; show _ = max 0 _; simp, ?_⟩
      rw [hlog]
      exact ImgEq.refl _
    · cases hty
    · rw [he] at hne; cases hne
  | list its =>
    rw [initOne.eq_2] at hi
    cases hbr : braced f { ty := .array 0 e0, unb := true } its {} with
    | error er => rw [hbr] at hi; cases hi
    | ok rb =>
    rw [hbr] at hi
    cases hi
    cases its with
    | nil =>
      have hb : (match enteredE (braceClear (st0u (.array 0 e0))) with
          | .error er => (.error er : Except Err St)
          | .ok st2 =>
            if st2.tinc st2.sub then .error (.diag "array of unknown size has empty initializer") else .ok st2)
          = .ok st := hm'
      rw [braceClear_nocur (by rfl)] at hb
      have hent : enteredE (st0u (.array 0 e0)) = .ok (st0u (.array 0 e0)) := by
        unfold enteredE
        rw [if_neg (by intro h; cases h)]
      rw [hent] at hb
      simp only [] at hb
      rw [tinc_zero (st := st0u (.array 0 e0)) rfl rfl] at hb
      cases hb
    | cons ds1 i1 r1 =>
      have hb : (match entered (braceClear (st0u (.array 0 e0))) with
          | .error er => (.error er : Except Err St)
          | .ok st2 => listBody st2 (.cons ds1 i1 r1)) = .ok st := hm'
      rw [braceClear_nocur (by rfl)] at hb
      have hent : entered (st0u (.array 0 e0)) = .ok (st0u (.array 0 e0)) := by
        unfold entered
        rw [if_neg (by intro h; cases h)]
      rw [hent] at hb
      simp only [] at hb
      rw [listBody_eq] at hb
      cases hpi : parseItems (openSt (st0u (.array 0 e0))) (.cons ds1 i1 r1) with
      | error er => rw [hpi] at hb; cases hb
      | ok st4 =>
      rw [hpi] at hb
      cases hb
      obtain ⟨hcl, hct⟩ := closeBrace_log_top st4
      rw [hcl, hct]
      have hz0 : (zeroed ({} : RSt) { ty := .array 0 e0, unb := true }).log = [] := by
        rw [zeroed_log]
        rfl
      have hzt : (zeroed ({} : RSt) { ty := .array 0 e0, unb := true }).top = 0 := by
        rw [zeroed_top]
      cases f with
      | zero => rw [braced.eq_1] at hbr; cases hbr
      | succ f =>
      have hns' : ∀ size k, ({ ty := .array 0 e0, unb := true } : Place).ty ≠ .scalar size k := by
        intro s k h; cases h
      by_cases hs : isStrInit ({ ty := .array 0 e0, unb := true } : Place).ty (.cons ds1 i1 r1)
      · obtain ⟨n, es, cls, sg, w, scls, cs, hty', hits⟩ := hs
        cases hty'
        cases hits
        rw [braced_str (show ({ ty := .array 0 (.scalar es (.int cls sg)), unb := true } : Place).ty = _ from rfl)] at hbr
        cases hi : initOne f { ty := .array 0 (.scalar es (.int cls sg)), unb := true } (.expr (.str w scls cs)) .nil
            (zeroed {} { ty := .array 0 (.scalar es (.int cls sg)), unb := true }) with
        | error er => rw [hi] at hbr; cases hbr
        | ok x =>
        rw [hi] at hbr
        cases hbr
        cases f with
        | zero => rw [initOne.eq_1] at hi; cases hi
        | succ f0 =>
        obtain ⟨stp, sta, hpre, hbody, hrun2⟩ := run_cons hpi
        rw [preStep_nil_array (c := 0) rfl rfl (by rfl)] at hpre
        cases hpre
        have := run_nil hrun2
        subst this
        have hbody' : exprBody 34 (openSt (st0u _)) (.str w scls cs) = .ok st4 := hbody
        obtain ⟨hbad, hlog, htp⟩ := exprBody_strU (st := openSt (st0u _)) rfl rfl (congrArg Slot.ty (openSt_top (st0u _))) (congrArg Slot.offset (openSt_top (st0u _))) hbody'
        rw [initOne.eq_4 _ _ _ _ _ _ _ _ _ _ _ (show ({ ty := .array 0 (.scalar es (.int cls sg)), unb := true } : Place).ty = _ from rfl)] at hi
        rw [hbad] at hi
        simp only [Bool.false_eq_true, if_false, if_true] at hi
        cases hi
        refine ⟨by rw [htp]; show _ = max _ _; rw [hzt]; simp, ?_⟩
        rw [hlog]
        show ImgEq _ ((zeroed _ _).log ++ [_])
        rw [hz0]
        exact ImgEq.refl _
      · rw [braced_loop hns' hs] at hbr
        obtain ⟨r1', r2⟩ := pLoopU f _ 0 e0 0 _ _ _ hbr (by rw [zeroed_nswitch]; exact hn0) hU
          (openSt (st0u (.array 0 e0))) st4 rfl rfl (openSt_curOK _) (congrArg Slot.ty (openSt_top (st0u _))) (congrArg Slot.offset (openSt_top (st0u _)))
          (by rw [hzt]; exact hsz0)
          (fun _ => ⟨rfl, by rw [hz0]; intro j; rfl, hzt⟩) (fun p hp => by cases hp)
          (by unfold LogEq; rw [hz0]; exact ImgEq.refl _) hpi
        exact ⟨r2, r1'⟩

end CprocVerif.InitSim

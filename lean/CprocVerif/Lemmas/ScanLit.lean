import CprocVerif.Lemmas.ScanKind

/-! Character constants and string literals: what `charconst`/`stringlit`/`escape` accept is a
literal of 6.4.4.4 / 6.4.5, and an encoding prefix binds to the quote that follows it. -/

namespace CprocVerif.Scan
open CprocVerif.Gen.TokenKinds
open CprocVerif.Spec.Lex

/-- progress of a sub-scanner that runs with `usebuf = true`: it moved `u` from the stream to
the token buffer and touched nothing else -/
def Moved (s s' : S) (u : List UInt8) : Prop :=
  s'.buf = s.buf ++ u ∧ s.stream = u ++ s'.stream ∧ s'.usebuf = true ∧ s'.sawspace = s.sawspace

theorem Moved.refl (s : S) (hu : s.usebuf = true) : Moved s s [] := by
  simp [Moved, hu]

theorem Moved.trans {a b c : S} {u v : List UInt8} (h1 : Moved a b u) (h2 : Moved b c v) :
    Moved a c (u ++ v) := by
  obtain ⟨a1, a2, a3, a4⟩ := h1
  obtain ⟨b1, b2, b3, b4⟩ := h2
  refine ⟨?_, ?_, b3, ?_⟩
  · rw [b1, a1, List.append_assoc]
  · rw [a2, b2, List.append_assoc]
  · rw [b4, a4]

theorem moved_nextchar (s : S) (c : UInt8) (hu : s.usebuf = true) (hc : s.chr = some c) :
    Moved s s.nextchar [c] := by
  obtain ⟨r, hr⟩ := (chr_some_iff s c).mp hc
  obtain ⟨h1, h2, h3, h4⟩ := nextchar_use s c r hr hu
  exact ⟨h2, by rw [hr, h1]; rfl, h3, h4⟩

theorem hexLoop_moved : ∀ (n : Nat) (s : S), s.usebuf = true → s.inp.length ≤ n →
    onChr isxdigit s.chr = true →
    ∃ h hs, Moved s (hexLoop n s) (h :: hs) ∧ isHexDigit h = true ∧
      ∀ x ∈ hs, isHexDigit x = true := by
  have hx : ∀ c : UInt8, isxdigit c = isHexDigit c := by apply forall_uint8; decide +kernel
  intro n
  induction n with
  | zero =>
    intro s _ hn hc
    have : s.stream = [] := List.eq_nil_of_length_eq_zero (by rw [length_stream]; omega)
    rw [chr_eq, this] at hc; simp [onChr] at hc
  | succ n ih =>
    intro s hu hn hc
    cases hch : s.chr with
    | none => rw [hch] at hc; simp [onChr] at hc
    | some c =>
      rw [hch] at hc
      simp only [onChr] at hc
      have m1 := moved_nextchar s c hu hch
      unfold hexLoop
      simp only []
      by_cases hnx : onChr isxdigit s.nextchar.chr = true
      · simp only [hnx, if_true]
        obtain ⟨h, hs, m2, hh, hhs⟩ := ih s.nextchar (by simp [hu]) (by rw [length_nextchar]; omega) hnx
        refine ⟨c, h :: hs, by simpa using m1.trans m2, by rw [← hx]; exact hc, ?_⟩
        intro x hxm
        rcases List.mem_cons.mp hxm with e | e
        · rw [e]; exact hh
        · exact hhs x e
      · simp only [hnx, if_false]
        exact ⟨c, [], m1, by rw [← hx]; exact hc, by simp⟩

/-- `escape` (entered with `s->chr == '\\'`): on success it has consumed one escape sequence -/
theorem escape_moved (q : UInt8) (s s' : S) (hu : s.usebuf = true) (hc : s.chr = some (c! '\\'))
    (h : escape s = .ok s') : ∃ u, Moved s s' u ∧ LitItem q u := by
  have ho : ∀ c : UInt8, isodigit c = isOctDigit c := by apply forall_uint8; decide +kernel
  have hse : ∀ c : UInt8, issimpleesc c = isSimpleEscape c := by apply forall_uint8; decide +kernel
  have m0 := moved_nextchar s _ hu hc
  have u0 : s.nextchar.usebuf = true := by simp [hu]
  unfold escape at h
  simp only [] at h
  cases hc1 : s.nextchar.chr with
  | none => simp [hc1, onChr] at h
  | some c1 =>
    have m1 := moved_nextchar s.nextchar c1 u0 hc1
    have u1 : s.nextchar.nextchar.usebuf = true := by simp [hu]
    rw [hc1] at h
    by_cases hx : c1 = c! 'x'
    · subst hx
      simp only [if_true] at h
      by_cases hd : onChr isxdigit s.nextchar.nextchar.chr = true
      · simp only [hd, Bool.not_true, Bool.false_eq_true, if_false, Except.ok.injEq] at h
        obtain ⟨hh, hs, m2, k1, k2⟩ := hexLoop_moved _ s.nextchar.nextchar u1 (Nat.le_refl _) hd
        rw [h] at m2
        exact ⟨_, (m0.trans m1).trans m2, .hex hh hs k1 k2⟩
      · simp [hd] at h
    · have hx' : ¬ (some c1 = some (c! 'x')) := by simpa using hx
      simp only [hx', if_false, onChr] at h
      by_cases hoc : isodigit c1 = true
      · simp only [hoc, if_true] at h
        cases hc2 : s.nextchar.nextchar.chr with
        | none =>
          simp only [hc2, Bool.false_eq_true, if_false, Except.ok.injEq] at h
          subst h
          exact ⟨_, m0.trans m1, .oct1 c1 (by rw [← ho]; exact hoc)⟩
        | some c2 =>
          have m2 := moved_nextchar _ c2 u1 hc2
          have u2 : s.nextchar.nextchar.nextchar.usebuf = true := by simp [hu]
          rw [hc2] at h
          by_cases ho2 : isodigit c2 = true
          · simp only [ho2, if_true] at h
            cases hc3 : s.nextchar.nextchar.nextchar.chr with
            | none =>
              simp only [hc3, Bool.false_eq_true, if_false, Except.ok.injEq] at h
              subst h
              exact ⟨_, (m0.trans m1).trans m2,
                .oct2 c1 c2 (by rw [← ho]; exact hoc) (by rw [← ho]; exact ho2)⟩
            | some c3 =>
              have m3 := moved_nextchar _ c3 u2 hc3
              rw [hc3] at h
              by_cases ho3 : isodigit c3 = true
              · simp only [ho3, if_true, Except.ok.injEq] at h
                subst h
                exact ⟨_, ((m0.trans m1).trans m2).trans m3,
                  .oct3 c1 c2 c3 (by rw [← ho]; exact hoc) (by rw [← ho]; exact ho2)
                    (by rw [← ho]; exact ho3)⟩
              · simp only [ho3, Bool.false_eq_true, if_false, Except.ok.injEq] at h
                subst h
                exact ⟨_, (m0.trans m1).trans m2,
                  .oct2 c1 c2 (by rw [← ho]; exact hoc) (by rw [← ho]; exact ho2)⟩
          · simp only [ho2, Bool.false_eq_true, if_false, Except.ok.injEq] at h
            subst h
            exact ⟨_, m0.trans m1, .oct1 c1 (by rw [← ho]; exact hoc)⟩
      · simp only [hoc, Bool.false_eq_true, if_false] at h
        by_cases hs : issimpleesc c1 = true
        · simp only [hs, if_true, Except.ok.injEq] at h
          subst h
          exact ⟨_, m0.trans m1, .simple c1 (by rw [← hse]; exact hs)⟩
        · simp [hs] at h

/-- the quote a literal loop is looking for -/
def quoteOf (str : Bool) : UInt8 := if str then c! '"' else c! '\''

/-- body of a literal (after the opening quote): what `litLoop` moves to the buffer on success
is a sequence of c-chars / s-chars followed by the closing quote -/
theorem litLoop_moved (str : Bool) : ∀ (n : Nat) (s : S) (k : Kind) (s' : S),
    s.usebuf = true → litLoop str n s = .ok (k, s') →
    ∃ items : List (List UInt8), (∀ u ∈ items, LitItem (quoteOf str) u) ∧
      Moved s s' (items.flatten ++ [quoteOf str]) ∧
      k = (if str then .TSTRINGLIT else .TCHARCONST) := by
  intro n
  induction n with
  | zero => intro s k s' _ h; simp [litLoop] at h
  | succ n ih =>
    intro s k s' hu h
    unfold litLoop at h
    cases hc : s.chr with
    | none => simp [hc] at h
    | some c =>
      simp only [hc] at h
      by_cases hbs : c = c! '\\'
      · simp only [hbs, if_true] at h
        cases he : escape s with
        | error e => simp [he] at h
        | ok s1 =>
          simp only [he] at h
          obtain ⟨u, mu, lu⟩ := escape_moved (quoteOf str) s s1 hu (by rw [hc, hbs]) he
          obtain ⟨items, hi, mi, hk⟩ := ih s1 k s' mu.2.2.1 h
          refine ⟨u :: items, ?_, ?_, hk⟩
          · intro v hv
            rcases List.mem_cons.mp hv with e | e
            · rw [e]; exact lu
            · exact hi v e
          · simpa [List.append_assoc] using mu.trans mi
      · simp only [hbs, if_false] at h
        by_cases hq : c = quoteOf str
        · have hq' : c = (if str = true then (c! '"') else (c! '\'')) := hq
          simp only [hq', if_true, Except.ok.injEq, Prod.mk.injEq] at h
          obtain ⟨h1, h2⟩ := h
          subst h2
          refine ⟨[], by simp, ?_, h1.symm⟩
          have := moved_nextchar s c hu hc
          simpa [hq] using this
        · have hq' : ¬ c = (if str = true then (c! '"') else (c! '\'')) := hq
          simp only [hq', if_false] at h
          by_cases hnl : c = c! '\n'
          · simp [hnl] at h
          · simp only [hnl, if_false] at h
            by_cases h0 : c = 0
            · simp [h0] at h
            · simp only [h0, if_false] at h
              have m1 := moved_nextchar s c hu hc
              obtain ⟨items, hi, mi, hk⟩ := ih s.nextchar k s' m1.2.2.1 h
              refine ⟨[c] :: items, ?_, ?_, hk⟩
              · intro v hv
                rcases List.mem_cons.mp hv with e | e
                · rw [e]; exact .plain c hq hbs hnl h0
                · exact hi v e
              · simpa [List.append_assoc] using m1.trans mi

end CprocVerif.Scan

namespace CprocVerif.Scan
open CprocVerif.Gen.TokenKinds
open CprocVerif.Spec.Lex

/-- `charconst` / `stringlit` entered at the opening quote -/
def quoted (str : Bool) (s : S) : Except Err (Kind × S) := if str then stringlit s else charconst s

theorem quoted_moved (str : Bool) (s : S) (k : Kind) (s' : S)
    (hc : s.chr = some (quoteOf str)) (h : quoted str s = .ok (k, s')) :
    ∃ items : List (List UInt8), (∀ u ∈ items, LitItem (quoteOf str) u) ∧
      s'.buf = s.buf ++ quoteOf str :: (items.flatten ++ [quoteOf str]) ∧
      s.stream = quoteOf str :: (items.flatten ++ [quoteOf str]) ++ s'.stream ∧
      s'.usebuf = true ∧ s'.sawspace = s.sawspace ∧
      k = (if str then .TSTRINGLIT else .TCHARCONST) := by
  have m0 := moved_nextchar { s with usebuf := true } (quoteOf str) rfl hc
  have h' : litLoop str (({ s with usebuf := true } : S).nextchar.inp.length + 1)
      ({ s with usebuf := true } : S).nextchar = .ok (k, s') := by
    cases str <;> simpa [quoted, charconst, stringlit] using h
  obtain ⟨items, hi, mi, hk⟩ := litLoop_moved str _ _ k s' m0.2.2.1 h'
  have m := m0.trans mi
  exact ⟨items, hi, by simpa using m.1, by have h2 : s.stream = _ := m.2.1; simpa using h2, m.2.2.1, m.2.2.2, hk⟩

/-- the `'"'` and `'\''` cases of `scankind` -/
theorem scankind_quote (f : Nat) (s : S) (str : Bool) (hc : s.chr = some (quoteOf str)) :
    scankind (f + 1) s = lift s (quoted str s) := by
  rw [scankind]
  simp only [hc]
  cases str
  · simp only [quoteOf, quoted, lift]
    cases charconst s <;> simp
  · simp only [quoteOf, quoted, lift]
    cases stringlit s <;> simp

/-- length of an encoding prefix at the start of the text: `u8` → 2, `L U u` → 1 -/
def prefixLen (cs : List UInt8) : Nat :=
  match cs with
  | c :: d :: _ => if c = c! 'u' ∧ d = c! '8' then 2 else 1
  | _ => 1

/-- an encoding prefix directly followed by a quote: the scanner enters the literal with the
prefix in the buffer — it never yields an identifier here (the "prefix binds" rule) -/
theorem scankind_prefixquote (f : Nat) (s : S) (p : List UInt8) (str : Bool) (t : List UInt8)
    (hp : p = b!"L" ∨ p = b!"u" ∨ p = b!"U" ∨ p = b!"u8")
    (hs : s.stream = p ++ quoteOf str :: t) (hr : Ready s) :
    ∃ s2, scankind (f + 1) s = lift s (quoted str s2) ∧ s2.buf = p ∧
      s2.stream = quoteOf str :: t ∧ s2.usebuf = true ∧ s2.sawspace = s.sawspace := by
  have hq : quoteOf str = 34 ∨ quoteOf str = 39 := by cases str <;> simp [quoteOf]
  have hq8 : quoteOf str ≠ 56 := by cases str <;> simp [quoteOf]
  obtain ⟨c, r, hcr⟩ : ∃ c r, s.stream = c :: r ∧ (c = c! 'L' ∨ c = c! 'U' ∨ c = c! 'u') ∧
      ((c = c! 'u' ∧ r.head? = some (c! '8') ∧ p = b!"u8" ∧ r = c! '8' :: quoteOf str :: t) ∨
       (¬ (c = c! 'u' ∧ r.head? = some (c! '8')) ∧ p = [c] ∧ r = quoteOf str :: t)) := by
    rcases hp with h | h | h | h <;> subst h
    · exact ⟨_, _, hs, by simp, Or.inr ⟨by simp, rfl, rfl⟩⟩
    · refine ⟨_, _, hs, by simp, Or.inr ⟨?_, rfl, rfl⟩⟩
      simp; exact hq8
    · exact ⟨_, _, hs, by simp, Or.inr ⟨by simp, rfl, rfl⟩⟩
    · exact ⟨_, _, hs, by simp, Or.inl ⟨rfl, rfl, rfl, rfl⟩⟩
  obtain ⟨hs', hL, hcase⟩ := hcr
  have hchr : s.chr = some c := by rw [chr_eq, hs']; rfl
  have hns : isSpecial c = false := by rcases hL with h | h | h <;> subst h <;> decide
  rw [scankind_tail f s c hchr hns, scanTail]
  simp only [hL, if_true]
  obtain ⟨h1s, h1b0, h1u, h1w⟩ := nextchar_use { s with usebuf := true } c r hs' rfl
  generalize ({ s with usebuf := true } : S).nextchar = s1 at *
  have h1w' : s1.sawspace = s.sawspace := h1w
  have h1b : s1.buf = [c] := by
    rw [h1b0]; show s.buf ++ [c] = [c]; rw [hr.1]; rfl
  simp only [h1b, List.head?_cons, Option.some.injEq, chr_eq, h1s]
  rcases hcase with ⟨hcu, hr8, hp8, hrr⟩ | ⟨hn8, hp1, hrr⟩
  · simp only [hcu, hr8, and_self, if_true]
    subst hcu
    obtain ⟨h2s, h2b, h2u, h2w⟩ := nextchar_use s1 _ _ (h1s.trans hrr) h1u
    rw [h2s]
    simp only [List.head?_cons, Option.some.injEq]
    refine ⟨s1.nextchar, ?_, by rw [h2b, h1b, hp8]; rfl, h2s, h2u, by rw [h2w, h1w']⟩
    cases str <;> simp [quoteOf, quoted]
  · simp only [hn8, if_false]
    rw [h1s, hrr]
    simp only [List.head?_cons, Option.some.injEq]
    refine ⟨s1, ?_, by rw [h1b, hp1], by rw [h1s, hrr], h1u, h1w'⟩
    cases str <;> simp [quoteOf, quoted]

end CprocVerif.Scan

import CprocVerif.Lemmas.PPFunSim2
import CprocVerif.Lemmas.PPFunExact

/-! # Whole-stream simulation, part 3: `expand` on a token that does not start an invocation -/

namespace CprocVerif.PP
open CprocVerif.Gen.TokenKinds
open CprocVerif.Spec.MacroRef (HTok Item PTok MacroDef RErr Flag expandH hsadd union pendItems lookup)
open CprocVerif.Spec

/-- `expand` when the macro found (if any) is object-like: as on object-like tables -/
theorem expand_nonfun (n : Nat) (t : Tok) (st : St)
    (h : ∀ m, macroget st.macros (t.lit.getD []) = some m → m.func = false) :
    exec (n + 1) (.expand t) st = .ok (expandObj t st) := by
  show expandBody (exec n) t st = _
  unfold expandBody expandObj
  by_cases hk : t.kind ≠ .TIDENT
  · simp only [hk, ne_eq, not_false_eq_true, ↓reduceIte]
  · simp only [hk, ↓reduceIte]
    cases hm : macroget st.macros (t.lit.getD []) with
    | none => rfl
    | some m =>
      have hf : m.func = false := h m hm
      simp only [hf, Bool.false_eq_true, ↓reduceIte]
      by_cases hh : m.hide = true
      · simp [hh]
      · by_cases hth : t.hide = true
        · have : ({ t with hide := true } : Tok) = t := by cases t; simp_all
          simp [hh, hth, this]
        · simp only [hh, Bool.false_eq_true, ↓reduceIte, hth, or_self]
          unfold pushMacro
          rfl

/-- one step of the reference on a token that names no function-like macro -/
theorem expandH_stepT (tbl : List MacroDef) (K : Nat) (T : HTok) (rest : List Item) (hp : T.painted = false)
    (hobj : ∀ m, lookup tbl (T.tok.lit.getD []) = some m → m.func = false) :
    outKeys (expandH false (K + 1) tbl (.tok T :: rest)) =
      if T.tok.kind ≠ .TIDENT then consKey T.tok.key (outKeys (expandH false K tbl rest))
      else match lookup tbl (T.tok.lit.getD []) with
        | none => consKey T.tok.key (outKeys (expandH false K tbl rest))
        | some m =>
          if T.hs.contains m.name then consKey T.tok.key (outKeys (expandH false K tbl rest))
          else outKeys (expandH false K tbl
            ((MacroRef.respace (hsadd (union T.hs [m.name]) (m.body.map fun t => ⟨t, [], false⟩)) T.tok.space).1.map .tok ++
              pendItems (MacroRef.respace (hsadd (union T.hs [m.name]) (m.body.map fun t => ⟨t, [], false⟩)) T.tok.space).2 rest)) := by
  rw [expandH]
  simp only [hp, Bool.false_eq_true, or_false]
  by_cases hk : T.tok.kind ≠ .TIDENT
  · simp only [hk, ne_eq, not_false_eq_true, ↓reduceIte]; rfl
  · simp only [hk, ↓reduceIte]
    cases hl : lookup tbl (T.tok.lit.getD []) with
    | none => rfl
    | some m =>
      have hf : m.func = false := hobj m hl
      simp only [hf, Bool.false_and, Bool.false_eq_true, ↓reduceIte, not_false_eq_true]
      split
      · rfl
      · exact outKeys_flag _ _ _

theorem flatOK_of_kh {ms0 : List Macro} {t b : Tok} (h : kh t = kh b) (hb : FlatOK ms0 b) : FlatOK ms0 t := by
  simp only [kh, Prod.mk.injEq] at h
  obtain ⟨h1, h2, h3⟩ := h
  unfold FlatOK IsFunName at *
  rw [h1, h2, h3]
  exact hb

theorem mem_respace_kh {l : List Tok} {sp : Bool} {t : Tok} (h : t ∈ respace l sp) : ∃ b ∈ l, kh t = kh b := by
  have : kh t ∈ (respace l sp).map kh := List.mem_map_of_mem h
  rw [kh_respace] at this
  obtain ⟨b, hb, hbe⟩ := List.mem_map.mp this
  exact ⟨b, hb, hbe.symm⟩

theorem ctxWF_push_obj {ms : List Macro} {ctx : List Frame} (m : Macro) (toks : List Tok) (hW : CtxWF ms ctx)
    (hget : macroget ms m.name = some m) (hf : m.func = false) :
    CtxWF (setHide ms m.name true) (⟨toks, some m.name⟩ :: ctx) := by
  intro f hfm m' hb hfun
  rcases List.mem_cons.mp hfm with rfl | hfm
  · simp only [Option.bind_some, macroget_setHide, hget, Option.map_some, ↓reduceIte, Option.some.injEq] at hb
    subst hb
    rw [hf] at hfun; cases hfun
  · exact ctxWF_setHide _ _ hW f hfm m' hb hfun

theorem goodF_setrt {ms0 : List Macro} {st : St} (g : GoodF ms0 st) (b : Bool) (t : Tok) :
    GoodF ms0 { st with rb := b, rt := t } :=
  ⟨g.stat, g.inv, g.wf, g.flatOk, g.prag, g.ppnl⟩

theorem absF_setrt (st : St) (b : Bool) (t : Tok) : absF { st with rb := b, rt := t } = absF st := rfl

theorem stat_eq {m m' : Macro} (h : stat m' = stat m) :
    m'.name = m.name ∧ m'.func = m.func ∧ m'.params = m.params ∧ m'.body = m.body := by
  simp only [stat, Prod.mk.injEq] at h
  exact h

/-- **`expand` on a token that starts no invocation**, against one step of the reference -/
theorem expand_simF (ms0 : List Macro) (hT : TblOK ms0) (n : Nat) (s1 s2 : St) (t : Tok) (g : GoodF ms0 s1)
    (ht : FlatOK ms0 t) (h : exec n (.expand t) s1 = .ok s2) :
    GoodF ms0 s2 ∧ s2.raw = s1.raw ∧
    ((s2.rb = true ∧ ∀ K, outKeys (expandH false (K + 1) (tblF ms0) (.tok (mkH (hsOf s1.ctx) t) :: absF s1))
          = outKeys (expandH false K (tblF ms0) (absF s2))) ∨
     (s2.rb = false ∧ s2.rt.kind = t.kind ∧ s2.rt.lit = t.lit ∧ absF s2 = absF s1 ∧
        ∀ K, outKeys (expandH false (K + 1) (tblF ms0) (.tok (mkH (hsOf s1.ctx) t) :: absF s1))
          = consKey (t.kind, t.lit) (outKeys (expandH false K (tblF ms0) (absF s1))))) := by
  have hnf : ∀ m, macroget s1.macros (t.lit.getD []) = some m → t.kind = .TIDENT → m.func = false := by
    intro m hm hk
    obtain ⟨m0, hm0, hs⟩ := macroget_stat_some g.stat hm
    have hse := stat_eq hs
    cases hf : m.func with
    | false => rfl
    | true =>
      exfalso
      exact ht.2.2.1 ⟨hk, m0, hm0, by rw [hse.2.1, hf]⟩
  have hlkT : ∀ m, lookup (tblF ms0) ((mkH (hsOf s1.ctx) t).tok.lit.getD []) = some m → t.kind = .TIDENT → m.func = false := by
    intro m hm hk
    rw [lookup_tblF] at hm
    have hm' : (macroget ms0 (t.lit.getD [])).map toDefF = some m := hm
    cases h0 : macroget ms0 (t.lit.getD []) with
    | none => rw [h0] at hm'; cases hm'
    | some m0 =>
      rw [h0] at hm'
      simp only [Option.map_some, Option.some.injEq] at hm'
      subst hm'
      cases hf : m0.func with
      | false => exact hf
      | true => exact absurd ⟨hk, m0, h0, hf⟩ ht.2.2.1
  cases n with
  | zero => cases h
  | succ k =>
  by_cases hk : t.kind ≠ .TIDENT
  · -- not an identifier
    have he : exec (k + 1) (.expand t) s1 = .ok { s1 with rb := false, rt := t } := by
      show expandBody (exec k) t s1 = _
      unfold expandBody
      simp only [hk, ne_eq, not_false_eq_true, ↓reduceIte]
    rw [he] at h
    cases h
    refine ⟨goodF_setrt g _ _, rfl, .inr ⟨rfl, rfl, rfl, rfl, ?_⟩⟩
    intro K
    rw [expandH]
    have : (mkH (hsOf s1.ctx) t).tok.kind ≠ .TIDENT := hk
    simp only [this, ne_eq, not_false_eq_true, true_or, ↓reduceIte]
    rfl
  · have hk1 : t.kind = .TIDENT := by simpa using hk
    have hk' : (mkH (hsOf s1.ctx) t).tok.kind = .TIDENT := hk1
    rw [expand_nonfun k t s1 (fun m hm => hnf m hm hk1)] at h
    cases h
    have hstep := fun K => expandH_stepT (tblF ms0) K (mkH (hsOf s1.ctx) t) (absF s1) rfl (fun m hm => hlkT m hm hk1)
    have hlk : lookup (tblF ms0) ((mkH (hsOf s1.ctx) t).tok.lit.getD []) = (macroget ms0 (t.lit.getD [])).map toDefF :=
      lookup_tblF ms0 _
    rw [expandObj_eq]
    simp only [hk, ↓reduceIte]
    cases hm : macroget s1.macros (t.lit.getD []) with
    | none =>
      have hm0 := macroget_stat_none g.stat hm
      refine ⟨goodF_setrt g _ _, (by first | rfl | trivial), .inr ⟨(by first | rfl | trivial), (by first | rfl | trivial), (by first | rfl | trivial), (by first | rfl | trivial), ?_⟩⟩
      intro K
      rw [hstep K, hlk, hm0]
      simp only [hk', ne_eq, not_true_eq_false, ↓reduceIte, Option.map_none]
      rfl
    | some m =>
      obtain ⟨m0, hm0, hs⟩ := macroget_stat_some g.stat hm
      have hse := stat_eq hs
      have hmem := macroget_mem hm
      have hmem0 := macroget_mem hm0
      have hmf : m.func = false := hnf m hm hk1
      have hcontains : (hsOf s1.ctx).contains m.name = m.hide := by
        have := g.inv.hideIff m hmem.1
        cases hh : m.hide with
        | true =>
          have := this.mp hh
          simp [hsOf, this]
        | false =>
          have hn : m.name ∉ liveNames s1.ctx := fun hx => by rw [this.mpr hx] at hh; cases hh
          simp [hsOf, hn]
      have hth : t.hide = false := by
        cases hh : t.hide with
        | false => rfl
        | true => have := ht.2.2.2 hh hk1; rw [this] at hm0; cases hm0
      by_cases hh : m.hide = true
      · simp only [hh, true_or, ↓reduceIte]
        refine ⟨goodF_setrt g _ _, (by first | rfl | trivial), .inr ⟨(by first | rfl | trivial), (by first | rfl | trivial), (by first | rfl | trivial), (by first | rfl | trivial), ?_⟩⟩
        intro K
        rw [hstep K, hlk, hm0]
        simp only [hk', ne_eq, not_true_eq_false, ↓reduceIte, Option.map_some]
        have : (mkH (hsOf s1.ctx) t).hs.contains (toDefF m0).name = true := by
          show (hsOf s1.ctx).contains m0.name = true
          rw [hse.1, hcontains, hh]
        simp only [this, ↓reduceIte]
        rfl
      · have hhf : m.hide = false := by cases h : m.hide <;> simp_all
        simp only [hhf, hth, Bool.false_eq_true, or_self, ↓reduceIte]
        have hc : (hsOf s1.ctx).contains m.name = false := by rw [hcontains, hhf]
        have hgetn : macroget s1.macros m.name = some m := by rw [hmem.2]; exact hm
        have hbody : m.body = m0.body := hse.2.2.2.symm
        have hbne : m.body ≠ [] := by rw [hbody]; exact hT.bodyNe m0 hmem0.1
        have hfr : frameToks (setHide s1.macros m.name true) ⟨respace m.body t.space, some m.name⟩ = respace m.body t.space := by
          rw [frameToks_setHide]
          unfold frameToks
          simp only [Option.bind_some, hgetn, hmf, Bool.false_eq_true, ↓reduceIte]
        refine ⟨?_, rfl, .inl ⟨rfl, ?_⟩⟩
        · -- GoodF (pushed m t s1)
          refine ⟨?_, invC_push _ g.inv hmem.1 hhf, ctxWF_push_obj m _ g.wf hgetn hmf, ?_, g.prag, g.ppnl⟩
          · show (setHide s1.macros m.name true).map stat = _
            rw [stat_setHide]; exact g.stat
          · intro x hx
            have hx' : x ∈ flat (setHide s1.macros m.name true) (⟨respace m.body t.space, some m.name⟩ :: s1.ctx) := hx
            simp only [flat, hfr, flat_setHide, List.mem_append] at hx'
            rcases hx' with hx' | hx'
            · obtain ⟨b, hb, hkb⟩ := mem_respace_kh hx'
              rw [hbody] at hb
              have hbo := hT.bodyOk m0 hmem0.1 b hb
              refine flatOK_of_kh hkb ⟨hbo.1.1, hbo.1.2.1, hbo.2, ?_⟩
              intro hhh; rw [hbo.1.2.2] at hhh; cases hhh
            · exact g.flatOk x hx'
        · intro K
          rw [hstep K, hlk, hm0]
          simp only [hk', ne_eq, not_true_eq_false, ↓reduceIte, Option.map_some]
          have : (mkH (hsOf s1.ctx) t).hs.contains (toDefF m0).name = false := by
            show (hsOf s1.ctx).contains m0.name = false
            rw [hse.1]; exact hc
          simp only [this, Bool.false_eq_true, ↓reduceIte]
          have hu : union (mkH (hsOf s1.ctx) t).hs [(toDefF m0).name] = hsOf s1.ctx ++ [m.name] := by
            show union (hsOf s1.ctx) [m0.name] = _
            rw [hse.1]; exact union_single hc
          rw [hu]
          have hb2 : hsadd (hsOf s1.ctx ++ [m.name]) ((toDefF m0).body.map fun t => (⟨t, [], false⟩ : HTok)) =
              m.body.map (mkH (hsOf s1.ctx ++ [m.name])) := by
            show hsadd _ ((m0.body.map toP).map _) = _
            rw [hsadd_body, hbody]
          rw [hb2]
          have hne2 : m.body.map (mkH (hsOf s1.ctx ++ [m.name])) ≠ [] := by
            intro hh; exact hbne (List.map_eq_nil_iff.mp hh)
          rw [respace_snd_of_ne_nil _ hne2, pendItems_false, ← map_mkH_respace]
          congr 2
          show _ = absF (pushed m t s1)
          have hfr' : frameToks s1.macros ⟨respace m.body t.space, some m.name⟩ = respace m.body t.space := by
            rw [← frameToks_setHide s1.macros m.name true]; exact hfr
          have hann : annH (m.name :: liveNames s1.ctx) = mkH ((liveNames s1.ctx).reverse ++ [m.name]) := by
            funext x; simp [annH]
          have hl : liveNames (⟨respace m.body t.space, some m.name⟩ :: s1.ctx) = m.name :: liveNames s1.ctx :=
            liveNames_cons_some _ _ _ rfl
          simp only [absF, pushed, flatG, flatG_setHide, List.map_append, List.append_assoc, hl, hann, hfr', hsOf]
          rfl

end CprocVerif.PP

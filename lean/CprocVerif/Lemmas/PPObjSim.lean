import CprocVerif.Lemmas.PPObjRef

/-! # Object-like macro sets, part C: the abstraction of a model state and the simulation -/

namespace CprocVerif.PP
open CprocVerif.Gen.TokenKinds
open CprocVerif.Spec.MacroRef (HTok Item PTok MacroDef RErr Flag expandH hsadd union pendItems lookup)
open CprocVerif.Spec

/-! ## the table -/

def toDefObj (m : Macro) : MacroDef :=
  { name := m.name, func := false, params := [], variadic := false, body := m.body.map toP }

def toTbl (ms : List Macro) : List MacroDef := ms.map toDefObj

theorem toTbl_obj (ms : List Macro) : ∀ m ∈ toTbl ms, m.func = false := by
  intro m hm
  obtain ⟨x, _, rfl⟩ := List.mem_map.mp hm
  rfl

theorem lookup_toTbl (ms : List Macro) (n : Name) : lookup (toTbl ms) n = (macroget ms n).map toDefObj := by
  unfold lookup toTbl macroget
  induction ms with
  | nil => rfl
  | cons m r ih =>
    simp only [List.map_cons, List.find?_cons]
    have : (toDefObj m).name = m.name := rfl
    rw [this]
    by_cases h : m.name = n
    · simp [h]
    · simp [h, ih]

theorem toTbl_setHide (ms : List Macro) (n : Name) (b : Bool) : toTbl (setHide ms n b) = toTbl ms := by
  unfold toTbl setHide
  rw [List.map_map]
  apply List.map_congr_left
  intro m _
  simp only [Function.comp]
  split <;> rfl

theorem toTbl_popDone : ∀ (ctx : List Frame) (ms : List Macro) (d : Nat), toTbl (popDone ctx ms d).2.1 = toTbl ms
  | [], ms, d => by unfold popDone; rfl
  | f :: rest, ms, d => by
    unfold popDone
    split
    · split
      · rw [toTbl_popDone, toTbl_setHide]
      · exact toTbl_popDone rest ms d
    · rfl

/-! ## the abstraction -/

/-- the hide set of the tokens of the top frame: the macros with a live frame, oldest first -/
def hsOf (ctx : List Frame) : List Name := (liveNames ctx).reverse

def mkH (hs : List Name) (t : Tok) : HTok := ⟨toP t, hs, false⟩

def absCtx : List Frame → List HTok
  | [] => []
  | f :: rest => f.toks.map (mkH (hsOf (f :: rest))) ++ absCtx rest

def visible (t : Tok) : Bool := t.kind ≠ .TNEWLINE

def absRaw (raw : List Tok) : List HTok := (raw.filter visible).map (mkH [])

/-- the source that is still to be processed, as the reference sees it -/
def absSt (st : St) : List Item := (absCtx st.ctx ++ absRaw st.raw).map Item.tok

theorem absCtx_popDone : ∀ (ctx : List Frame) (ms : List Macro) (d : Nat), absCtx (popDone ctx ms d).1 = absCtx ctx
  | [], ms, d => by unfold popDone; rfl
  | f :: rest, ms, d => by
    unfold popDone
    split
    · rename_i hemp
      have : f.toks = [] := by simpa using hemp
      have h2 : absCtx (f :: rest) = absCtx rest := by simp [absCtx, this]
      split
      · rw [absCtx_popDone, h2]
      · rw [absCtx_popDone, h2]
    · rfl

theorem union_single {a : List Name} {x : Name} (h : a.contains x = false) : union a [x] = a ++ [x] := by
  unfold union
  have : x ∉ a := by
    intro hx
    have : a.contains x = true := by simpa using hx
    rw [h] at this; cases this
  simp [this]

/-! ## good states -/

def okKind (t : Tok) : Prop := t.kind ≠ .TNEWLINE ∧ t.kind ≠ .TEOF ∧ t.hide = false

structure Good (st : St) : Prop where
  inv : InvC st.ctx st.macros st.depth
  obj : ObjOnly st.macros
  plain : Plain st.raw
  rawNoHide : ∀ t ∈ st.raw, t.hide = false
  ctxOk : ∀ f ∈ st.ctx, ∀ t ∈ f.toks, okKind t
  bodyOk : ∀ m ∈ st.macros, ∀ t ∈ m.body, okKind t
  ppnl : st.ppnl = false

theorem invC_of_liveNames {ctx ctx' : List Frame} {ms : List Macro} {d : Nat} (h : InvC ctx ms d)
    (hl : liveNames ctx' = liveNames ctx) : InvC ctx' ms d :=
  ⟨h.names, by rw [hl]; exact h.liveNodup, by intro m hm; rw [hl]; exact h.hideIff m hm, by rw [hl]; exact h.depth⟩

theorem popDone_sub : ∀ (ctx : List Frame) (ms : List Macro) (d : Nat), ∀ f ∈ (popDone ctx ms d).1, f ∈ ctx
  | [], ms, d, f, h => by unfold popDone at h; exact h
  | g :: rest, ms, d, f, h => by
    unfold popDone at h
    split at h
    · split at h
      · exact List.mem_cons_of_mem _ (popDone_sub rest _ _ f h)
      · exact List.mem_cons_of_mem _ (popDone_sub rest _ _ f h)
    · exact h

theorem popDone_bodies : ∀ (ctx : List Frame) (ms : List Macro) (d : Nat) (P : Macro → Prop),
    (∀ m b, P m → P { m with hide := b }) → (∀ m ∈ ms, P m) → ∀ m ∈ (popDone ctx ms d).2.1, P m
  | [], ms, d, P, _, h => by unfold popDone; exact h
  | g :: rest, ms, d, P, hP, h => by
    unfold popDone
    split
    · split
      · apply popDone_bodies rest _ _ P hP
        intro x hx
        obtain ⟨m, hm, rfl⟩ := mem_setHide hx
        split
        · exact hP m false (h m hm)
        · exact h m hm
      · exact popDone_bodies rest ms d P hP h
    · exact h


/-! ## `rawnext` on a good state -/

theorem liveNames_settoks (f : Frame) (more : List Tok) (rest : List Frame) :
    liveNames ({ f with toks := more } :: rest) = liveNames (f :: rest) := by
  simp [liveNames, List.filterMap_cons]

theorem absCtx_cons_tok (f : Frame) (t : Tok) (more : List Tok) (rest : List Frame) (h : f.toks = t :: more) :
    absCtx (f :: rest) = mkH (hsOf ({ f with toks := more } :: rest)) t :: absCtx ({ f with toks := more } :: rest) := by
  simp only [absCtx, h, List.map_cons, hsOf, liveNames_settoks, List.cons_append]

/-- the three ways `rawnext` can go on a good state -/
inductive Raw1 (st s1 : St) : Prop where
  | tok (h1 : okKind s1.rt) (h2 : absSt st = .tok (mkH (hsOf s1.ctx) s1.rt) :: absSt s1)
  | nl (h1 : s1.rt.kind = .TNEWLINE) (h2 : absSt st = absSt s1)
  | eof (h1 : s1.rt = eofTok) (h2 : absSt st = []) (h3 : absSt s1 = [])

theorem rawnext_good (st : St) (g : Good st) :
    Good (rawnextObj st) ∧ toTbl (rawnextObj st).macros = toTbl st.macros ∧ Raw1 st (rawnextObj st) := by
  have hpi := popDone_inv st.ctx st.macros st.depth g.inv
  have hsub := popDone_sub st.ctx st.macros st.depth
  have hobj := popDone_objOnly st.ctx st.macros st.depth g.obj
  have htbl := toTbl_popDone st.ctx st.macros st.depth
  have habs := absCtx_popDone st.ctx st.macros st.depth
  have hbody : ∀ m ∈ (popDone st.ctx st.macros st.depth).2.1, ∀ t ∈ m.body, okKind t :=
    popDone_bodies st.ctx st.macros st.depth (fun m => ∀ t ∈ m.body, okKind t) (fun m b h => h) g.bodyOk
  unfold rawnextObj ctxnextObj
  simp only
  cases hctx : (popDone st.ctx st.macros st.depth).1 with
  | nil =>
    simp only [Bool.false_eq_true, ↓reduceIte]
    have hinv0 : InvC [] (popDone st.ctx st.macros st.depth).2.1 (popDone st.ctx st.macros st.depth).2.2 := by
      rw [← hctx]; exact hpi.1
    have hab0 : absCtx st.ctx = [] := by rw [← habs, hctx]; rfl
    cases hraw : st.raw with
    | nil =>
      refine ⟨⟨hinv0, hobj, by simp [Plain, hraw], by simp [hraw], by simp, hbody, g.ppnl⟩, htbl, ?_⟩
      exact .eof rfl (by simp [absSt, hab0, hraw, absRaw]) (by simp [absSt, absCtx, hraw, absRaw])
    | cons t r =>
      have hpl := g.plain
      rw [hraw] at hpl
      have hnh := g.rawNoHide
      rw [hraw] at hnh
      have ht := hpl t (List.mem_cons_self ..)
      refine ⟨⟨hinv0, hobj, fun x hx => hpl x (List.mem_cons_of_mem _ hx), fun x hx => hnh x (List.mem_cons_of_mem _ hx),
        by simp, hbody, g.ppnl⟩, htbl, ?_⟩
      by_cases hv : t.kind = .TNEWLINE
      · refine .nl hv ?_
        simp [absSt, hab0, absCtx, hraw, absRaw, visible, hv]
      · refine .tok ⟨hv, ht.2.2, hnh t (List.mem_cons_self ..)⟩ ?_
        simp [absSt, hab0, absCtx, hraw, absRaw, visible, hv, hsOf, liveNames]
  | cons f rest =>
    have hne := hpi.2.1 f rest hctx
    simp only
    cases htoks : f.toks with
    | nil => exact absurd htoks hne
    | cons t more =>
      simp only [↓reduceIte]
      have hfmem : f ∈ st.ctx := hsub f (by rw [hctx]; exact List.mem_cons_self ..)
      have hrest : ∀ x ∈ rest, x ∈ st.ctx := fun x hx => hsub x (by rw [hctx]; exact List.mem_cons_of_mem _ hx)
      have hinv1 : InvC ({ f with toks := more } :: rest) (popDone st.ctx st.macros st.depth).2.1
          (popDone st.ctx st.macros st.depth).2.2 := by
        apply invC_of_liveNames (ctx := f :: rest)
        · rw [← hctx]; exact hpi.1
        · exact liveNames_settoks f more rest
      have hft : ∀ x ∈ f.toks, okKind x := g.ctxOk f hfmem
      refine ⟨⟨hinv1, hobj, g.plain, g.rawNoHide, ?_, hbody, g.ppnl⟩, htbl, ?_⟩
      · intro x hx y hy
        rcases List.mem_cons.mp hx with rfl | hx
        · exact hft y (by rw [htoks]; exact List.mem_cons_of_mem _ hy)
        · exact g.ctxOk x (hrest x hx) y hy
      · refine .tok (hft t (by rw [htoks]; exact List.mem_cons_self ..)) ?_
        simp only [absSt]
        rw [← habs, hctx, absCtx_cons_tok f t more rest htoks]
        rfl


/-! ## one step of the reference on a table of object-like macros -/

def consKey (k : Kind × Option Name) (o : List (Kind × Option Name) × Option RErr) :
    List (Kind × Option Name) × Option RErr := (k :: o.1, o.2)

theorem expandH_step (tbl : List MacroDef) (hobj : ∀ m ∈ tbl, m.func = false) (K : Nat) (T : HTok)
    (rest : List Item) (hp : T.painted = false) :
    outKeys (expandH false (K + 1) tbl (.tok T :: rest)) =
      if T.tok.kind ≠ .TIDENT then consKey T.tok.key (outKeys (expandH false K tbl rest))
      else match lookup tbl (T.tok.lit.getD []) with
        | none => consKey T.tok.key (outKeys (expandH false K tbl rest))
        | some m =>
          if T.hs.contains m.name then consKey T.tok.key (outKeys (expandH false K tbl rest))
          else outKeys (expandH false K tbl
            ((MacroRef.respace (hsadd (union T.hs [m.name]) (m.body.map fun t => ⟨t, [], false⟩)) T.tok.space).1.map .tok ++
              pendItems (MacroRef.respace (hsadd (union T.hs [m.name]) (m.body.map fun t => ⟨t, [], false⟩)) T.tok.space).2 rest)) := by
  rw [expandH]
  simp only [hp, Bool.false_eq_true, or_false]
  by_cases hk : T.tok.kind ≠ .TIDENT
  · simp only [hk, ne_eq, not_false_eq_true, ↓reduceIte]; rfl
  · simp only [hk, ↓reduceIte]
    cases hl : lookup tbl (T.tok.lit.getD []) with
    | none => rfl
    | some m =>
      have hf : m.func = false := hobj m (List.mem_of_find?_eq_some hl)
      simp only [hf, Bool.false_and, Bool.false_eq_true, ↓reduceIte, not_false_eq_true]
      split
      · rfl
      · exact outKeys_flag _ _ _

theorem respace_map_erase (l : List Tok) (sp : Bool) (h : List Name) :
    (((respace l sp).map (mkH h)).map Item.tok).map erase = ((l.map (mkH h)).map Item.tok).map erase := by
  cases l with
  | nil => rfl
  | cons t r => simp [respace, erase, eraseT, mkH, toP]

theorem hsadd_body (h : List Name) (body : List Tok) :
    hsadd h ((body.map toP).map fun t => (⟨t, [], false⟩ : HTok)) = body.map (mkH h) := by
  unfold hsadd
  simp only [List.map_map]
  apply List.map_congr_left
  intro t _
  simp [mkH, union]

theorem okKind_respace {l : List Tok} {sp : Bool} (h : ∀ t ∈ l, okKind t) : ∀ t ∈ respace l sp, okKind t := by
  cases l with
  | nil => intro t ht; cases ht
  | cons a r =>
    intro t ht
    simp only [respace, List.mem_cons] at ht
    rcases ht with rfl | ht
    · exact h a (List.mem_cons_self ..)
    · exact h t (List.mem_cons_of_mem _ ht)

theorem hsOf_push (toks : List Tok) (n : Name) (ctx : List Frame) : hsOf (⟨toks, some n⟩ :: ctx) = hsOf ctx ++ [n] := by
  simp [hsOf, liveNames, List.filterMap_cons]


/-! ## `expand` on a good state, against one step of the reference -/

/-- the state `expand` leaves when it pushes the replacement list of `m` -/
def pushed (m : Macro) (t : Tok) (st : St) : St :=
  { st with ctx := ⟨respace m.body t.space, some m.name⟩ :: st.ctx,
            macros := setHide st.macros m.name true, depth := st.depth + 1, rb := true, rt := t,
            events := if m.body.isEmpty ∧ t.space then .emptySpace :: st.events else st.events }

theorem expandObj_eq (t : Tok) (st : St) :
    expandObj t st =
      if t.kind ≠ .TIDENT then { st with rb := false, rt := t }
      else match macroget st.macros (t.lit.getD []) with
        | none => { st with rb := false, rt := { t with hide := true } }
        | some m =>
          if m.hide ∨ t.hide then { st with rb := false, rt := { t with hide := true } }
          else pushed m t st := by
  unfold expandObj pushed
  by_cases hk : t.kind ≠ .TIDENT
  · simp only [hk, ne_eq, not_false_eq_true, ↓reduceIte]
  · simp only [hk, ↓reduceIte]
    cases hm : macroget st.macros (t.lit.getD []) with
    | none => rfl
    | some m =>
      simp only
      by_cases hh : m.hide = true ∨ t.hide = true
      · simp only [hh, ↓reduceIte]
      · simp only [hh, ↓reduceIte, St.ev]
        by_cases he : (m.body.isEmpty = true ∧ t.space = true)
        · simp only [he, and_self, ↓reduceIte]
        · simp only [he, ↓reduceIte]

theorem good_setrt {st : St} (g : Good st) (b : Bool) (t : Tok) : Good { st with rb := b, rt := t } :=
  ⟨g.inv, g.obj, g.plain, g.rawNoHide, g.ctxOk, g.bodyOk, g.ppnl⟩

theorem absSt_setrt (st : St) (b : Bool) (t : Tok) : absSt { st with rb := b, rt := t } = absSt st := rfl

theorem expand_sim (s1 : St) (g : Good s1) (t : Tok) (ht : okKind t) :
    Good (expandObj t s1) ∧ toTbl (expandObj t s1).macros = toTbl s1.macros ∧
    (((expandObj t s1).rb = true ∧ ∀ K, outKeys (expandH false (K + 1) (toTbl s1.macros) (.tok (mkH (hsOf s1.ctx) t) :: absSt s1))
          = outKeys (expandH false K (toTbl s1.macros) (absSt (expandObj t s1)))) ∨
     ((expandObj t s1).rb = false ∧ (expandObj t s1).rt.kind = t.kind ∧ (expandObj t s1).rt.lit = t.lit ∧
        absSt (expandObj t s1) = absSt s1 ∧
        ∀ K, outKeys (expandH false (K + 1) (toTbl s1.macros) (.tok (mkH (hsOf s1.ctx) t) :: absSt s1))
          = consKey (t.kind, t.lit) (outKeys (expandH false K (toTbl s1.macros) (absSt s1))))) := by
  have hstep := fun K => expandH_step (toTbl s1.macros) (toTbl_obj _) K (mkH (hsOf s1.ctx) t) (absSt s1) rfl
  rw [expandObj_eq]
  by_cases hk : t.kind ≠ .TIDENT
  · simp only [hk, ne_eq, not_false_eq_true, ↓reduceIte]
    refine ⟨good_setrt g _ _, (by first | rfl | trivial), .inr ⟨(by first | rfl | trivial), (by first | rfl | trivial), (by first | rfl | trivial), (by first | rfl | trivial), ?_⟩⟩
    intro K
    rw [hstep K]
    have : (mkH (hsOf s1.ctx) t).tok.kind ≠ .TIDENT := hk
    simp only [this, ne_eq, not_false_eq_true, ↓reduceIte]
    rfl
  · have hk' : (mkH (hsOf s1.ctx) t).tok.kind = .TIDENT := by simpa [mkH, toP] using hk
    simp only [hk, ↓reduceIte]
    have hlk : lookup (toTbl s1.macros) ((mkH (hsOf s1.ctx) t).tok.lit.getD []) = (macroget s1.macros (t.lit.getD [])).map toDefObj :=
      lookup_toTbl s1.macros _
    cases hm : macroget s1.macros (t.lit.getD []) with
    | none =>
      refine ⟨good_setrt g _ _, (by first | rfl | trivial), .inr ⟨(by first | rfl | trivial), (by first | rfl | trivial), (by first | rfl | trivial), (by first | rfl | trivial), ?_⟩⟩
      intro K
      rw [hstep K, hlk, hm]
      simp only [hk', ne_eq, not_true_eq_false, ↓reduceIte, Option.map_none]
      rfl
    | some m =>
      have hmem := macroget_mem hm
      have hcontains : (hsOf s1.ctx).contains m.name = m.hide := by
        have := g.inv.hideIff m hmem.1
        cases hh : m.hide with
        | true =>
          have := this.mp hh
          simp [hsOf, this]
        | false =>
          have hn : m.name ∉ liveNames s1.ctx := fun hx => by rw [this.mpr hx] at hh; cases hh
          simp [hsOf, hn]
      by_cases hh : m.hide = true
      · simp only [hh, true_or, ↓reduceIte]
        refine ⟨good_setrt g _ _, (by first | rfl | trivial), .inr ⟨(by first | rfl | trivial), (by first | rfl | trivial), (by first | rfl | trivial), (by first | rfl | trivial), ?_⟩⟩
        intro K
        rw [hstep K, hlk, hm]
        simp only [hk', ne_eq, not_true_eq_false, ↓reduceIte, Option.map_some]
        have : (mkH (hsOf s1.ctx) t).hs.contains (toDefObj m).name = true := by
          show (hsOf s1.ctx).contains m.name = true
          rw [hcontains, hh]
        simp only [this, ↓reduceIte]
        rfl
      · have hhf : m.hide = false := by cases h : m.hide <;> simp_all
        have hth : t.hide = false := ht.2.2
        simp only [hhf, hth, Bool.false_eq_true, or_self, ↓reduceIte]
        have hc : (hsOf s1.ctx).contains m.name = false := by rw [hcontains, hhf]
        refine ⟨?_, ?_, .inl ⟨rfl, ?_⟩⟩
        · -- Good (pushed m t s1)
          refine ⟨invC_push _ g.inv hmem.1 hhf, ?_, g.plain, g.rawNoHide, ?_, ?_, g.ppnl⟩
          · intro x hx
            obtain ⟨m', hm', rfl⟩ := mem_setHide hx
            split <;> exact g.obj m' hm'
          · intro f hf x hx
            rcases List.mem_cons.mp hf with rfl | hf
            · exact okKind_respace (g.bodyOk m hmem.1) x hx
            · exact g.ctxOk f hf x hx
          · intro x hx
            obtain ⟨m', hm', rfl⟩ := mem_setHide hx
            split <;> exact g.bodyOk m' hm'
        · exact toTbl_setHide _ _ _
        · intro K
          rw [hstep K, hlk, hm]
          simp only [hk', ne_eq, not_true_eq_false, ↓reduceIte, Option.map_some]
          have : (mkH (hsOf s1.ctx) t).hs.contains (toDefObj m).name = false := hc
          simp only [this, Bool.false_eq_true, ↓reduceIte]
          apply expandH_erase _ (toTbl_obj _)
          · exact noDir_append (noDir_map_tok _) (noDir_pendItems (noDir_map_tok _))
          · exact noDir_map_tok _
          · simp only [List.map_append, erase_respace, erase_pendItems]
            show _ = List.map erase (absSt (pushed m t s1))
            simp only [absSt, pushed, absCtx, List.map_append, List.append_assoc]
            rw [respace_map_erase, hsOf_push]
            have hu : union (mkH (hsOf s1.ctx) t).hs [(toDefObj m).name] = hsOf s1.ctx ++ [m.name] := union_single hc
            rw [hu]
            show List.map erase (List.map Item.tok (hsadd (hsOf s1.ctx ++ [m.name]) (List.map (fun t => { tok := t }) (m.body.map toP)))) ++ _ = _
            rw [hsadd_body]

end CprocVerif.PP

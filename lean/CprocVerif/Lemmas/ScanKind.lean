import CprocVerif.Lemmas.Scan

/-! `scankind` case by case, in terms of the character stream. -/

namespace CprocVerif.Scan
open CprocVerif.Gen.TokenKinds
open CprocVerif.Spec.Lex (forall_uint8)

/-- the characters `scankind` handles by an explicit `case` before `'L'` -/
def isSpecial (c : UInt8) : Bool :=
  c = c! ' ' || c = c! '\t' || c = 0x0c || c = 0x0b || c = c! '!' || c = c! '"' || c = c! '#' ||
  c = c! '%' || c = c! '&' || c = c! '\'' || c = c! '*' || c = c! '+' || c = c! '-' ||
  c = c! '/' || c = c! '<' || c = c! '=' || c = c! '>' || c = c! '^' || c = c! '|' ||
  c = c! '\n' || c = c! '[' || c = c! ']' || c = c! '(' || c = c! ')' || c = c! '{' ||
  c = c! '}' || c = c! '.' || c = c! '~' || c = c! '?' || c = c! ':' || c = c! ';' || c = c! ','

/-- result of `scankind` packed from a `(kind, state)` pair -/
def ret (s : S) (r : Kind × S) : Except Err (Kind × Loc × Nat × S) := .ok (r.1, s.loc, s.pos, r.2)

def lift (s : S) (r : Except Err (Kind × S)) : Except Err (Kind × Loc × Nat × S) :=
  match r with
  | .error e => .error e
  | .ok r => .ok (r.1, s.loc, s.pos, r.2)

/-- the `case 'L': case 'U': case 'u':` and `default:` arms -/
def scanTail (c : UInt8) (s : S) : Except Err (Kind × Loc × Nat × S) :=
  if c = c! 'L' ∨ c = c! 'U' ∨ c = c! 'u' then
    let s1 := { s with usebuf := true }.nextchar
    let s2 := if s1.buf.head? = some (c! 'u') ∧ s1.chr = some (c! '8') then s1.nextchar else s1
    if s2.chr = some (c! '\'') then lift s (charconst s2)
    else if s2.chr = some (c! '"') then lift s (stringlit s2)
    else ret s (ident s2)
  else if isdigit c then ret s (number s)
  else if isalpha c ∨ c = c! '_' then ret s (ident s)
  else ret s (.TOTHER, { s with usebuf := true }.nextchar)

theorem scankind_tail (f : Nat) (s : S) (c : UInt8) (hc : s.chr = some c)
    (hns : isSpecial c = false) : scankind (f + 1) s = scanTail c s := by
  simp only [isSpecial, Bool.or_eq_false_iff, decide_eq_false_iff_not] at hns
  rw [scankind]
  simp only [hc]
  simp only [hns, false_or, if_false, or_self, scanTail, ret, lift]
  rfl

end CprocVerif.Scan

namespace CprocVerif.Scan
open CprocVerif.Gen.TokenKinds
open CprocVerif.Spec.Lex

/-- between two tokens: `scan` has emptied the buffer -/
def Ready (s : S) : Prop := s.buf = [] ∧ s.usebuf = false

theorem ident_spec (s : S) :
    (ident s).1 = .TIDENT ∧
    (ident s).2.stream = s.stream.dropWhile isIdentCont ∧
    (ident s).2.buf = s.buf ++ s.stream.takeWhile isIdentCont ∧
    (ident s).2.usebuf = true ∧ (ident s).2.sawspace = s.sawspace := by
  have hfun : isidchar = isIdentCont := by
    funext c; revert c; apply forall_uint8; decide +kernel
  have := identLoop_spec s.inp.length { s with usebuf := true } (Nat.le_refl _) rfl
  rw [hfun] at this
  exact ⟨rfl, this⟩

theorem number_spec (s : S) (c0 : UInt8) (r : List UInt8) (hs : s.stream = c0 :: r) :
    (number s).1 = .TNUMBER ∧
    (number s).2.stream = r.drop (ppTailLen r) ∧
    (number s).2.buf = s.buf ++ c0 :: r.take (ppTailLen r) ∧
    (number s).2.usebuf = true ∧ (number s).2.sawspace = s.sawspace := by
  have := numberLoop_spec s.inp.length false { s with usebuf := true } c0 r hs (Nat.le_refl _) rfl
  rw [(numLen_ppTailLen r).1] at this
  exact ⟨rfl, this⟩

/-- does the text start with an encoding prefix immediately followed by a quote? -/
def prefixedQuote (cs : List UInt8) : Bool :=
  [b!"L", b!"u", b!"U", b!"u8"].any fun p =>
    (p ++ [c! '\'']).isPrefixOf cs || (p ++ [c! '"']).isPrefixOf cs

theorem nondigit_not_special : ∀ c : UInt8, isNondigit c = true → isSpecial c = false := by
  apply forall_uint8; decide +kernel

theorem digit_not_special : ∀ c : UInt8, isDigit c = true → isSpecial c = false := by
  apply forall_uint8; decide +kernel

theorem nondigit_facts : ∀ c : UInt8, isNondigit c = true →
    isdigit c = false ∧ (isalpha c = true ∨ c = c! '_') ∧ isIdentCont c = true := by
  apply forall_uint8; decide +kernel

theorem digit_facts : ∀ c : UInt8, isDigit c = true →
    isdigit c = true ∧ c ≠ c! 'L' ∧ c ≠ c! 'U' ∧ c ≠ c! 'u' ∧ isIdentCont c = true := by
  apply forall_uint8; decide +kernel

/-- identifiers: the scanner takes the maximal run of identifier characters -/
theorem scankind_ident (f : Nat) (s : S) (c : UInt8) (r : List UInt8)
    (hs : s.stream = c :: r) (hr : Ready s) (hc : isNondigit c = true)
    (hp : prefixedQuote (c :: r) = false) :
    ∃ s', scankind (f + 1) s = .ok (.TIDENT, s.loc, s.pos, s') ∧
      s'.buf = c :: r.takeWhile isIdentCont ∧ s'.stream = r.dropWhile isIdentCont ∧
      s'.usebuf = true ∧ s'.sawspace = s.sawspace := by
  have hchr : s.chr = some c := by rw [chr_eq, hs]; rfl
  obtain ⟨hd, ha, hic⟩ := nondigit_facts c hc
  rw [scankind_tail f s c hchr (nondigit_not_special c hc), scanTail]
  by_cases hL : c = c! 'L' ∨ c = c! 'U' ∨ c = c! 'u'
  · simp only [hL, if_true]
    -- state after the prefix letter
    obtain ⟨h1s, h1b0, h1u, h1w⟩ := nextchar_use { s with usebuf := true } c r hs rfl
    generalize ({ s with usebuf := true } : S).nextchar = s1 at *
    have h1w' : s1.sawspace = s.sawspace := h1w
    have h1b : s1.buf = [c] := by
      rw [h1b0]; show s.buf ++ [c] = [c]; rw [hr.1]; rfl
    simp only [h1b, List.head?_cons, Option.some.injEq, chr_eq, h1s]
    by_cases h8 : c = c! 'u' ∧ r.head? = some (c! '8')
    · simp only [h8, and_self, if_true]
      obtain ⟨hcu, hr8⟩ := h8
      cases r with
      | nil => simp at hr8
      | cons a r' =>
        simp only [List.head?_cons, Option.some.injEq] at hr8
        subst hr8 hcu
        obtain ⟨h2s, h2b, h2u, h2w⟩ := nextchar_use s1 _ r' h1s h1u
        rw [h1b] at h2b
        have hq : r'.head? ≠ some (c! '\'') ∧ r'.head? ≠ some (c! '"') := by
          cases r' with
          | nil => simp
          | cons b r'' =>
            simp only [List.head?_cons, Option.some.injEq, ne_eq]
            refine ⟨fun h => ?_, fun h => ?_⟩ <;> subst h <;>
              simp [prefixedQuote, List.isPrefixOf] at hp
        rw [h2s]
        simp only [hq.1, hq.2, if_false, ret]
        have := ident_spec s1.nextchar
        refine ⟨_, rfl, ?_, ?_, this.2.2.2.1, ?_⟩
        · rw [this.2.2.1, h2b, h2s]
          simp [List.takeWhile_cons, show isIdentCont 56 = true by decide]
        · rw [this.2.1, h2s]
          simp [List.dropWhile_cons, show isIdentCont 56 = true by decide]
        · rw [this.2.2.2.2, h2w, h1w']
    · simp only [h8, if_false]
      have hq : r.head? ≠ some (c! '\'') ∧ r.head? ≠ some (c! '"') := by
        cases r with
        | nil => simp
        | cons b r'' =>
          simp only [List.head?_cons, Option.some.injEq, ne_eq]
          rcases hL with h | h | h <;> subst h <;>
            (refine ⟨fun h => ?_, fun h => ?_⟩ <;> subst h <;>
              simp [prefixedQuote, List.isPrefixOf] at hp)
      rw [h1s]
      simp only [hq.1, hq.2, if_false, ret]
      have := ident_spec s1
      refine ⟨_, rfl, ?_, ?_, this.2.2.2.1, ?_⟩
      · rw [this.2.2.1, h1b, h1s]; simp
      · rw [this.2.1, h1s]
      · rw [this.2.2.2.2, h1w']
  · simp only [hL, if_false, hd, Bool.false_eq_true, ha, if_true, ret]
    have := ident_spec s
    refine ⟨_, rfl, ?_, ?_, this.2.2.2.1, this.2.2.2.2⟩
    · rw [this.2.2.1]
      simp [hs, hr.1, List.takeWhile_cons, hic]
    · rw [this.2.1]
      simp [hs, List.dropWhile_cons, hic]

end CprocVerif.Scan

namespace CprocVerif.Scan
open CprocVerif.Gen.TokenKinds
open CprocVerif.Spec.Lex

/-- pp-number starting with a digit -/
theorem scankind_number (f : Nat) (s : S) (d : UInt8) (r : List UInt8)
    (hs : s.stream = d :: r) (hr : Ready s) (hd : isDigit d = true) :
    ∃ s', scankind (f + 1) s = .ok (.TNUMBER, s.loc, s.pos, s') ∧
      s'.buf = d :: r.take (ppTailLen r) ∧ s'.stream = r.drop (ppTailLen r) ∧
      s'.usebuf = true ∧ s'.sawspace = s.sawspace := by
  have hchr : s.chr = some d := by rw [chr_eq, hs]; rfl
  obtain ⟨h1, h2, h3, h4, _⟩ := digit_facts d hd
  rw [scankind_tail f s d hchr (digit_not_special d hd), scanTail]
  simp only [h2, h3, h4, or_self, if_false, h1, if_true, ret]
  have := number_spec s d r hs
  refine ⟨_, rfl, ?_, this.2.1, this.2.2.2.1, this.2.2.2.2⟩
  rw [this.2.2.1, hr.1]; rfl

/-- the `'.'` case of `scankind`, unfolded -/
theorem scankind_dot (f : Nat) (s : S) (hc : s.chr = some (c! '.')) :
    scankind (f + 1) s =
      (let s1 := s.nextchar
       if onChr isdigit s1.chr then ret s (number { s1 with buf := s1.buf ++ [c! '.'] })
       else if s1.chr ≠ some (c! '.') then ret s (.TPERIOD, s1)
       else
         let oldloc := s1.loc
         let s2 := s1.nextchar
         if s2.chr ≠ some (c! '.') then ret s (.TPERIOD, pushbackDot s2 oldloc)
         else ret s (.TELLIPSIS, s2.nextchar)) := by
  rw [scankind]
  simp only [hc]
  simp [ret]

/-- pp-number starting with `.` digit -/
theorem scankind_dotnumber (f : Nat) (s : S) (d : UInt8) (r : List UInt8)
    (hs : s.stream = c! '.' :: d :: r) (hr : Ready s) (hd : isDigit d = true) :
    ∃ s', scankind (f + 1) s = .ok (.TNUMBER, s.loc, s.pos, s') ∧
      s'.buf = c! '.' :: d :: r.take (ppTailLen r) ∧ s'.stream = r.drop (ppTailLen r) ∧
      s'.usebuf = true ∧ s'.sawspace = s.sawspace := by
  have hchr : s.chr = some (c! '.') := by rw [chr_eq, hs]; rfl
  obtain ⟨h1, _⟩ := digit_facts d hd
  obtain ⟨h1s, h1b, h1u, h1w⟩ := nextchar_nouse s _ _ hs hr.2
  rw [scankind_dot f s hchr]
  simp only [chr_eq, h1s, List.head?_cons, onChr, h1, if_true, ret]
  have hs' : ({ s.nextchar with buf := s.nextchar.buf ++ [c! '.'] } : S).stream = d :: r := h1s
  have := number_spec _ d r hs'
  refine ⟨_, rfl, ?_, this.2.1, this.2.2.2.1, ?_⟩
  · rw [this.2.2.1]; show (s.nextchar.buf ++ [c! '.']) ++ _ = _; rw [h1b, hr.1]; rfl
  · rw [this.2.2.2.2]; exact h1w

end CprocVerif.Scan

/-
  C01 — arithmetic layer: how a C value sits in a QBE temporary (`Rep`), and, for every
  instruction `funcexpr`/`convert` choose, that executing it on representations of the operands
  yields a representation of the C result (`Spec/CInt`).
-/
import CprocVerif.Spec.Qbe
import CprocVerif.Model.CSem
import CprocVerif.Model.Lower

namespace CprocVerif.LowerArith
open CprocVerif.Qbe CprocVerif.CSem CprocVerif.CInt CprocVerif.Lower

/-! ## Machine words and integers -/

theorem toNat_and_mask32 (b : UInt64) : (b &&& mask32).toNat = b.toNat % 2 ^ 32 := by
  rw [UInt64.toNat_and]
  show b.toNat &&& (2 ^ 32 - 1) = _
  exact Nat.and_two_pow_sub_one_eq_mod _ 32

theorem bmod32 (x : Int) :
    x.bmod (2 ^ 32) = if x % 2 ^ 32 < 2 ^ 31 then x % 2 ^ 32 else x % 2 ^ 32 - 2 ^ 32 := by
  rw [Int.bmod_def]; rfl

theorem bmod64 (x : Int) :
    x.bmod (2 ^ 64) = if x % 2 ^ 64 < 2 ^ 63 then x % 2 ^ 64 else x % 2 ^ 64 - 2 ^ 64 := by
  rw [Int.bmod_def]; rfl

theorem u32_toInt (x : UInt32) : x.toInt32.toInt = (x.toNat : Int).bmod (2 ^ 32) := by
  show x.toInt32.toBitVec.toInt = _
  rw [UInt32.toBitVec_toInt32, BitVec.toInt_eq_toNat_bmod]; rfl

theorem u64_toInt (x : UInt64) : x.toInt64.toInt = (x.toNat : Int).bmod (2 ^ 64) := by
  show x.toInt64.toBitVec.toInt = _
  rw [UInt64.toBitVec_toInt64, BitVec.toInt_eq_toNat_bmod]; rfl

theorem i32_back (i : Int32) : (i.toUInt32.toNat : Int) = i.toInt % 2 ^ 32 := by
  show ((i.toUInt32.toBitVec.toNat : Nat) : Int) = i.toBitVec.toInt % 2 ^ 32
  rw [Int32.toBitVec_toUInt32, BitVec.toInt_eq_toNat_bmod, bmod32]
  have := i.toBitVec.isLt
  split <;> omega

theorem i64_back (i : Int64) : (i.toUInt64.toNat : Int) = i.toInt % 2 ^ 64 := by
  show ((i.toUInt64.toBitVec.toNat : Nat) : Int) = i.toBitVec.toInt % 2 ^ 64
  rw [Int64.toBitVec_toUInt64, BitVec.toInt_eq_toNat_bmod, bmod64]
  have := i.toBitVec.isLt
  split <;> omega

theorem smod32 : ∀ k : Fin 32, ((BitVec.ofNat 32 k.val).smod 32).toNat = k.val := by decide
theorem smod64 : ∀ k : Fin 64, ((BitVec.ofNat 64 k.val).smod 64).toNat = k.val := by decide

theorem i32_sar (a : Int32) (c : UInt32) (hc : c.toNat < 32) :
    (a >>> c.toInt32).toInt = a.toInt / 2 ^ c.toNat := by
  show (a >>> c.toInt32).toBitVec.toInt = _
  rw [Int32.toBitVec_shiftRight, BitVec.toInt_sshiftRight', Int.shiftRight_eq_div_pow]
  have h : (c.toInt32.toBitVec.smod 32).toNat = c.toNat := by
    have h1 : c.toInt32.toBitVec = BitVec.ofNat 32 c.toNat := by
      apply BitVec.eq_of_toNat_eq
      simp
    rw [h1]
    exact smod32 ⟨c.toNat, hc⟩
  rw [h]; simp

theorem i64_sar (a : Int64) (c : UInt64) (hc : c.toNat < 64) :
    (a >>> c.toInt64).toInt = a.toInt / 2 ^ c.toNat := by
  show (a >>> c.toInt64).toBitVec.toInt = _
  rw [Int64.toBitVec_shiftRight, BitVec.toInt_sshiftRight', Int.shiftRight_eq_div_pow]
  have h : (c.toInt64.toBitVec.smod 64).toNat = c.toNat := by
    have h1 : c.toInt64.toBitVec = BitVec.ofNat 64 c.toNat := by
      apply BitVec.eq_of_toNat_eq
      simp
    rw [h1]
    exact smod64 ⟨c.toNat, hc⟩
  rw [h]; simp

/-- Sign extension of the low `8`, `16`, `32` bits. -/
theorem sext8 (v : UInt64) : ((sext 8 v).toNat : Int) =
    (if (v.toNat : Int) % 2 ^ 8 < 2 ^ 7 then (v.toNat : Int) % 2 ^ 8
     else (v.toNat : Int) % 2 ^ 8 - 2 ^ 8) % 2 ^ 64 := by
  have hs : sext 8 v = ((v <<< (56 : UInt64)).toInt64 >>> (56 : UInt64).toInt64).toUInt64 := rfl
  rw [hs]
  rw [i64_back, i64_sar _ _ (by decide), u64_toInt, bmod64, UInt64.toNat_shiftLeft]
  have h56 : (56 : UInt64).toNat = 56 := by decide
  simp only [h56, Nat.shiftLeft_eq, Nat.reduceMod, Nat.reducePow]
  have := v.toNat_lt
  split <;> split <;> omega

theorem sext16 (v : UInt64) : ((sext 16 v).toNat : Int) =
    (if (v.toNat : Int) % 2 ^ 16 < 2 ^ 15 then (v.toNat : Int) % 2 ^ 16
     else (v.toNat : Int) % 2 ^ 16 - 2 ^ 16) % 2 ^ 64 := by
  have hs : sext 16 v = ((v <<< (48 : UInt64)).toInt64 >>> (48 : UInt64).toInt64).toUInt64 := rfl
  rw [hs]
  rw [i64_back, i64_sar _ _ (by decide), u64_toInt, bmod64, UInt64.toNat_shiftLeft]
  have h56 : (48 : UInt64).toNat = 48 := by decide
  simp only [h56, Nat.shiftLeft_eq, Nat.reduceMod, Nat.reducePow]
  have := v.toNat_lt
  split <;> split <;> omega

theorem sext32 (v : UInt64) : ((sext 32 v).toNat : Int) =
    (if (v.toNat : Int) % 2 ^ 32 < 2 ^ 31 then (v.toNat : Int) % 2 ^ 32
     else (v.toNat : Int) % 2 ^ 32 - 2 ^ 32) % 2 ^ 64 := by
  have hs : sext 32 v = ((v <<< (32 : UInt64)).toInt64 >>> (32 : UInt64).toInt64).toUInt64 := rfl
  rw [hs]
  rw [i64_back, i64_sar _ _ (by decide), u64_toInt, bmod64, UInt64.toNat_shiftLeft]
  have h56 : (32 : UInt64).toNat = 32 := by decide
  simp only [h56, Nat.shiftLeft_eq, Nat.reduceMod, Nat.reducePow]
  have := v.toNat_lt
  split <;> split <;> omega

/-! ## Reading operands, executing instructions -/

theorem asW_lt {r : RVal} {x : UInt64} (h : r.asW = .ok x) : x.toNat < 2 ^ 32 := by
  unfold RVal.asW at h
  split at h <;> try cases h
  all_goals (rw [toNat_and_mask32]; omega)

theorem asW_of_asL {r : RVal} {x : UInt64} (h : r.asL = .ok x) : r.asW = .ok (x &&& mask32) := by
  unfold RVal.asL at h
  unfold RVal.asW
  split at h <;> try cases h
  all_goals simp_all

@[simp] theorem asW_mk_w (b : UInt64) : (RVal.mk .w b).asW = .ok (b &&& mask32) := rfl
@[simp] theorem asW_mk_l (b : UInt64) : (RVal.mk .l b).asW = .ok (b &&& mask32) := rfl
@[simp] theorem asW_mk_c (b : UInt64) : (RVal.mk .c b).asW = .ok (b &&& mask32) := rfl
@[simp] theorem asL_mk_l (b : UInt64) : (RVal.mk .l b).asL = .ok b := rfl
@[simp] theorem asL_mk_c (b : UInt64) : (RVal.mk .c b).asL = .ok b := rfl

def IsArith (o : Op) : Prop :=
  o = .add ∨ o = .sub ∨ o = .mul ∨ o = .div ∨ o = .udiv ∨ o = .rem ∨ o = .urem ∨ o = .or ∨
  o = .xor ∨ o = .and

theorem exec_arith {o : Op} (ho : IsArith o) {k : Cls} {ra rb : RVal} {x y z : UInt64} (M : Mem)
    (va : Option ByteArray) (hx : ra.asK k = .ok x) (hy : rb.asK k = .ok y)
    (hz : arith2 o k x y = .ok z) :
    execOp o (some k) [ra, rb] M va = .ok (⟨k.kind, z⟩, M) := by
  rcases ho with rfl | rfl | rfl | rfl | rfl | rfl | rfl | rfl | rfl | rfl <;>
    simp only [execOp, needRes, hx, hy, hz, bind, Except.bind, pure, Except.pure]

def IsShift (o : Op) : Prop := o = .sar ∨ o = .shr ∨ o = .shl

theorem exec_shift {o : Op} (ho : IsShift o) {k : Cls} {ra rb : RVal} {x y z : UInt64} (M : Mem)
    (va : Option ByteArray) (hx : ra.asK k = .ok x) (hy : rb.asW = .ok y)
    (hz : arith2 o k x y = .ok z) :
    execOp o (some k) [ra, rb] M va = .ok (⟨k.kind, z⟩, M) := by
  rcases ho with rfl | rfl | rfl <;>
    simp only [execOp, needRes, hx, hy, hz, bind, Except.bind, pure, Except.pure]

theorem exec_cmpw (c : ICmp) {ra rb : RVal} {x y : UInt64} (M : Mem) (va : Option ByteArray)
    (hx : ra.asW = .ok x) (hy : rb.asW = .ok y) :
    execOp (.cmpw c) (some .w) [ra, rb] M va = .ok (⟨.w, boolBits (icmp32 c x y) &&& mask32⟩, M) := by
  simp only [execOp, needRes, hx, hy, truncTo, bind, Except.bind, pure, Except.pure, Cls.kind]

theorem exec_cmpl (c : ICmp) {ra rb : RVal} {x y : UInt64} (M : Mem) (va : Option ByteArray)
    (hx : ra.asL = .ok x) (hy : rb.asL = .ok y) :
    execOp (.cmpl c) (some .w) [ra, rb] M va = .ok (⟨.w, boolBits (icmp64 c x y) &&& mask32⟩, M) := by
  simp only [execOp, needRes, hx, hy, truncTo, bind, Except.bind, pure, Except.pure, Cls.kind]

theorem exec_neg_w {ra : RVal} {x : UInt64} (M : Mem) (va : Option ByteArray) (hx : ra.asW = .ok x) :
    execOp .neg (some .w) [ra] M va = .ok (⟨.w, (0 - x.toUInt32).toUInt64⟩, M) := by
  simp only [execOp, needRes, RVal.asK, hx, bind, Except.bind, pure, Except.pure]

theorem exec_neg_l {ra : RVal} {x : UInt64} (M : Mem) (va : Option ByteArray) (hx : ra.asL = .ok x) :
    execOp .neg (some .l) [ra] M va = .ok (⟨.l, 0 - x⟩, M) := by
  simp only [execOp, needRes, RVal.asK, hx, bind, Except.bind, pure, Except.pure]

/-- The six extensions: `f` is what is applied to the `w` reading of the operand. -/
def extFun : Op → Option (UInt64 → UInt64)
  | .extsw => some (sext 32)
  | .extuw => some id
  | .extsh => some (sext 16)
  | .extuh => some (· &&& 0xffff)
  | .extsb => some (sext 8)
  | .extub => some (· &&& 0xff)
  | _ => none

theorem exec_ext {o : Op} {f : UInt64 → UInt64} (ho : extFun o = some f) (k : Cls)
    (hk : k = .w ∨ k = .l) {ra : RVal} {x : UInt64} (M : Mem) (va : Option ByteArray)
    (hx : ra.asW = .ok x) :
    execOp o (some k) [ra] M va =
      .ok (⟨k.kind, if k = .w then f x &&& mask32 else f x⟩, M) := by
  cases o <;> simp only [extFun, Option.some.injEq, reduceCtorEq] at ho <;> subst ho <;>
    rcases hk with rfl | rfl <;>
    simp only [execOp, needRes, hx, truncTo, bind, Except.bind, pure, Except.pure, Cls.kind, id,
      if_true, reduceCtorEq, if_false]

end CprocVerif.LowerArith

import CprocVerif.Lemmas.ScanKind

/-! Punctuators: the decision trees of `scankind` (`op2/op3/op4`, `- ->`, `. ...`, `# ##`, `: ::`)
return the longest punctuator of 6.4.6 that is a prefix of the stream. -/

namespace CprocVerif.Scan
open CprocVerif.Gen.TokenKinds
open CprocVerif.Spec.Lex

theorem prefix1 (a : UInt8) (cs : List UInt8) : [a] <+: cs ↔ cs[0]? = some a := by
  cases cs <;> simp [List.cons_prefix_cons, eq_comm]

theorem prefix2 (a b : UInt8) (cs : List UInt8) :
    [a, b] <+: cs ↔ cs[0]? = some a ∧ cs[1]? = some b := by
  match cs with
  | [] => simp
  | [_] => simp [List.cons_prefix_cons]
  | _ :: _ :: _ => simp [List.cons_prefix_cons, eq_comm]

theorem prefix3 (a b c : UInt8) (cs : List UInt8) :
    [a, b, c] <+: cs ↔ cs[0]? = some a ∧ cs[1]? = some b ∧ cs[2]? = some c := by
  match cs with
  | [] => simp
  | [_] => simp [List.cons_prefix_cons]
  | [_, _] => simp [List.cons_prefix_cons]
  | _ :: _ :: _ :: _ => simp [List.cons_prefix_cons, eq_comm]

theorem chr0 (s : S) : s.chr = s.stream[0]? := by rw [chr_eq]; cases s.stream <;> rfl

theorem chr1 (s : S) : s.nextchar.chr = s.stream[1]? := by
  rw [chr_eq, stream_nextchar]; rcases s.stream with _ | ⟨_, _ | _⟩ <;> rfl

theorem chr2 (s : S) : s.nextchar.nextchar.chr = s.stream[2]? := by
  rw [chr_eq, stream_nextchar, stream_nextchar]
  rcases s.stream with _ | ⟨_, _ | ⟨_, _ | _⟩⟩ <;> rfl

theorem drop2 (cs : List UInt8) : cs.drop 2 = cs.tail.tail := by
  rcases cs with _ | ⟨_, _ | _⟩ <;> rfl

theorem drop3 (cs : List UInt8) : cs.drop 3 = cs.tail.tail.tail := by
  rcases cs with _ | ⟨_, _ | ⟨_, _ | _⟩⟩ <;> rfl

theorem isLongest_punct (cs p : List UInt8) (h1 : p <+: cs) (h2 : p ∈ punctuators)
    (h3 : ∀ v ∈ punctuators, v <+: cs → v.length ≤ p.length) :
    IsLongest (· ∈ punctuators) cs p :=
  ⟨h1, h2, fun v hv hm => h3 v hm hv⟩

/-- characters that start a punctuator -/
def isPunctStart (c : UInt8) : Bool :=
  c = c! '!' || c = c! '#' || c = c! '%' || c = c! '&' || c = c! '*' || c = c! '+' ||
  c = c! '-' || c = c! '/' || c = c! '<' || c = c! '=' || c = c! '>' || c = c! '^' ||
  c = c! '|' || c = c! '[' || c = c! ']' || c = c! '(' || c = c! ')' || c = c! '{' ||
  c = c! '}' || c = c! '.' || c = c! '~' || c = c! '?' || c = c! ':' || c = c! ';' || c = c! ','

/-- close one leaf of a decision tree: the returned kind's spelling is a prefix, is a
punctuator, no longer punctuator is a prefix, and the state advanced by its length -/
macro "punct_leaf" : tactic => `(tactic|
  (try simp only [Except.ok.injEq, Prod.mk.injEq, true_and]
   refine ⟨_, _, _, ⟨rfl, rfl⟩, rfl, isLongest_punct _ _ ?_ (by decide) ?_, ?_, ?_, ?_, ?_⟩
   · simp [prefix1, prefix2, prefix3, *]
   · simp [punctuators, prefix1, prefix2, prefix3, *]
   · simp [*, drop2, drop3]
   · simp [buf_nextchar, *]
   · simp [*]
   · simp))

/-- the result of a punctuator scan -/
def PunctResult (f : Nat) (s : S) (cs : List UInt8) : Prop :=
  ∃ k p s', scankind (f + 1) s = .ok (k, s.loc, s.pos, s') ∧ tokstr k = some p ∧
    IsLongest (· ∈ punctuators) cs p ∧ s'.stream = cs.drop p.length ∧ s'.buf = [] ∧
    s'.usebuf = false ∧ s'.sawspace = s.sawspace

macro "punct_case" : tactic => `(tactic|
  (rw [scankind]
   simp only [*]
   simp [op2, op3, op4, comment, *]
   repeat' split
   all_goals punct_leaf))

theorem stream_pushbackDot (s : S) (l : Loc) :
    (pushbackDot s l).stream = c! '.' :: s.stream ∧ (pushbackDot s l).buf = s.buf ∧
    (pushbackDot s l).usebuf = s.usebuf ∧ (pushbackDot s l).sawspace = s.sawspace := by
  unfold pushbackDot
  split <;> simp_all [S.stream]

theorem tail_of_get1 (cs : List UInt8) (a : UInt8) (h : cs[1]? = some a) :
    cs.tail = a :: cs.tail.tail := by
  rcases cs with _ | ⟨_, _ | ⟨_, _⟩⟩ <;> simp_all

section
variable (f : Nat) (s : S) (cs : List UInt8) (hs : s.stream = cs) (hb : s.buf = [])
  (hu : s.usebuf = false)
include hs hb hu

theorem punct_simple (c : UInt8) (h0 : cs[0]? = some c)
    (hc : c = c! '[' ∨ c = c! ']' ∨ c = c! '(' ∨ c = c! ')' ∨ c = c! '{' ∨ c = c! '}' ∨
      c = c! '~' ∨ c = c! '?' ∨ c = c! ';' ∨ c = c! ',') : PunctResult f s cs := by
  have e0 := chr0 s
  rw [hs] at e0
  unfold PunctResult
  rcases hc with h | h | h | h | h | h | h | h | h | h <;> subst h <;> punct_case

theorem punct_op2 (c : UInt8) (h0 : cs[0]? = some c)
    (hc : c = c! '!' ∨ c = c! '%' ∨ c = c! '*' ∨ c = c! '=' ∨ c = c! '^' ∨ c = c! '#' ∨ c = c! ':') :
    PunctResult f s cs := by
  have e0 := chr0 s
  have e1 := chr1 s
  rw [hs] at e0 e1
  unfold PunctResult
  rcases hc with h | h | h | h | h | h | h <;> subst h <;> punct_case

theorem punct_op3 (c : UInt8) (h0 : cs[0]? = some c)
    (hc : c = c! '&' ∨ c = c! '+' ∨ c = c! '|') : PunctResult f s cs := by
  have e0 := chr0 s
  have e1 := chr1 s
  have e2 := chr2 s
  rw [hs] at e0 e1 e2
  unfold PunctResult
  rcases hc with h | h | h <;> subst h <;> punct_case

theorem punct_minus (h0 : cs[0]? = some (c! '-')) : PunctResult f s cs := by
  have e0 := chr0 s
  have e1 := chr1 s
  have e2 := chr2 s
  rw [hs] at e0 e1 e2
  unfold PunctResult
  rw [scankind]
  simp only [*]
  simp [op3, *]
  by_cases a1 : cs[1]? = some 61
  · simp [*]; punct_leaf
  · by_cases a2 : cs[1]? = some 45
    · simp [*]; punct_leaf
    · by_cases a3 : cs[1]? = some 62
      · simp [*]; punct_leaf
      · simp [*]; punct_leaf

theorem punct_op4 (c : UInt8) (h0 : cs[0]? = some c)
    (hc : c = c! '<' ∨ c = c! '>') : PunctResult f s cs := by
  have e0 := chr0 s
  have e1 := chr1 s
  have e2 := chr2 s
  rw [hs] at e0 e1 e2
  unfold PunctResult
  rcases hc with h | h <;> subst h <;> punct_case

theorem punct_div (h0 : cs[0]? = some (c! '/')) (h1 : cs[1]? ≠ some (c! '/'))
    (h2 : cs[1]? ≠ some (c! '*')) : PunctResult f s cs := by
  have e0 := chr0 s
  have e1 := chr1 s
  rw [hs] at e0 e1
  unfold PunctResult
  rw [scankind]
  simp only [*]
  simp [op2, *]
  by_cases a1 : cs[1]? = some 61
  · simp [*]; punct_leaf
  · simp [comment, *]; punct_leaf

theorem punct_dot (h0 : cs[0]? = some (c! '.')) (h1 : onChr isdigit cs[1]? = false) :
    PunctResult f s cs := by
  have e0 := chr0 s
  have e1 := chr1 s
  have e2 := chr2 s
  rw [hs] at e0 e1 e2
  unfold PunctResult
  rw [scankind_dot f s (by rw [e0, h0])]
  simp only [e1, h1, Bool.false_eq_true, if_false, e2, ret]
  by_cases a1 : cs[1]? = some 46
  · simp only [a1, ne_eq, not_true_eq_false, if_false]
    by_cases a2 : cs[2]? = some 46
    · simp only [a2, not_true_eq_false, if_false]; punct_leaf
    · simp only [a2, not_false_eq_true, if_true]
      obtain ⟨p1, p2, p3, p4⟩ := stream_pushbackDot s.nextchar.nextchar s.nextchar.loc
      refine ⟨_, _, _, rfl, rfl, isLongest_punct _ _ ?_ (by decide) ?_, ?_, ?_, ?_, ?_⟩
      · simp [prefix1, *]
      · simp [punctuators, prefix1, prefix2, prefix3, *]
      · rw [p1]; simp only [stream_nextchar, hs]
        show _ = List.drop 1 cs
        rw [List.drop_one]; exact (tail_of_get1 cs _ a1).symm
      · rw [p2]; simp [buf_nextchar, *]
      · rw [p3]; simp [*]
      · rw [p4]; simp
  · simp only [a1, ne_eq, not_false_eq_true, if_true]; punct_leaf

/-- every punctuator start: the scanner returns the longest punctuator that is a prefix -/
theorem scankind_punct (c : UInt8) (h0 : cs[0]? = some c) (hp : isPunctStart c = true)
    (hnc : ¬ (c = c! '/' ∧ (cs[1]? = some (c! '/') ∨ cs[1]? = some (c! '*'))))
    (hnd : ¬ (c = c! '.' ∧ onChr isdigit cs[1]? = true)) : PunctResult f s cs := by
  simp only [isPunctStart, Bool.or_eq_true, decide_eq_true_eq] at hp
  rcases hp with ((((((((((((((((((((((((h | h) | h) | h) | h) | h) | h) | h) | h) | h) | h) | h) | h) | h) | h) | h) | h) | h) | h) | h) | h) | h) | h) | h) | h)
  · exact punct_op2 f s cs hs hb hu c h0 (by simp [h])
  · exact punct_op2 f s cs hs hb hu c h0 (by simp [h])
  · exact punct_op2 f s cs hs hb hu c h0 (by simp [h])
  · exact punct_op3 f s cs hs hb hu c h0 (by simp [h])
  · exact punct_op2 f s cs hs hb hu c h0 (by simp [h])
  · exact punct_op3 f s cs hs hb hu c h0 (by simp [h])
  · subst h; exact punct_minus f s cs hs hb hu h0
  · subst h
    exact punct_div f s cs hs hb hu h0 (fun h => hnc ⟨rfl, Or.inl h⟩) (fun h => hnc ⟨rfl, Or.inr h⟩)
  · exact punct_op4 f s cs hs hb hu c h0 (by simp [h])
  · exact punct_op2 f s cs hs hb hu c h0 (by simp [h])
  · exact punct_op4 f s cs hs hb hu c h0 (by simp [h])
  · exact punct_op2 f s cs hs hb hu c h0 (by simp [h])
  · exact punct_op3 f s cs hs hb hu c h0 (by simp [h])
  · exact punct_simple f s cs hs hb hu c h0 (by simp [h])
  · exact punct_simple f s cs hs hb hu c h0 (by simp [h])
  · exact punct_simple f s cs hs hb hu c h0 (by simp [h])
  · exact punct_simple f s cs hs hb hu c h0 (by simp [h])
  · exact punct_simple f s cs hs hb hu c h0 (by simp [h])
  · exact punct_simple f s cs hs hb hu c h0 (by simp [h])
  · subst h
    refine punct_dot f s cs hs hb hu h0 ?_
    cases hd : onChr isdigit cs[1]?
    · rfl
    · exact absurd ⟨rfl, hd⟩ hnd
  · exact punct_simple f s cs hs hb hu c h0 (by simp [h])
  · exact punct_simple f s cs hs hb hu c h0 (by simp [h])
  · exact punct_op2 f s cs hs hb hu c h0 (by simp [h])
  · exact punct_simple f s cs hs hb hu c h0 (by simp [h])
  · exact punct_simple f s cs hs hb hu c h0 (by simp [h])

end

end CprocVerif.Scan

import CprocVerif.Lemmas.InitRefImg

/-!
# Lemmas about the reference `Spec/InitRef.lean` alone

`nswitch` only grows; `enter`/`grow` do not touch the log unless a union member is switched.
-/

namespace CprocVerif.InitSim
open CprocVerif.Init CprocVerif.Image CprocVerif.InitRef

theorem enter_nswitch_le (st : RSt) (pl : Place) (pos : Nat) : st.nswitch ≤ (enter st pl pos).nswitch := by
  unfold enter
  split
  · split
    · split
      · exact Nat.le_refl _
      · exact Nat.le_succ _
    · exact Nat.le_refl _
  · exact Nat.le_refl _

/-- without a member switch `enter` leaves the log alone -/
theorem enter_log {st : RSt} {pl : Place} {pos : Nat} (h : (enter st pl pos).nswitch = st.nswitch) :
    (enter st pl pos).log = st.log := by
  revert h
  unfold enter
  split
  · split
    · split
      · intro _; rfl
      · intro h; simp at h
    · intro _; rfl
  · intro _; rfl

theorem enter_top (st : RSt) (pl : Place) (pos : Nat) : (enter st pl pos).top = st.top := by
  unfold enter
  split
  · split
    · split <;> rfl
    · rfl
  · rfl

theorem grow_log (st : RSt) (pl : Place) (pos : Nat) : (grow st pl pos).log = st.log := by
  unfold grow
  split
  · split <;> rfl
  · rfl

theorem grow_nswitch (st : RSt) (pl : Place) (pos : Nat) : (grow st pl pos).nswitch = st.nswitch := by
  unfold grow
  split
  · split <;> rfl
  · rfl

theorem wr_nswitch (st : RSt) (i : Init) : (wr st i).nswitch = st.nswitch := rfl
theorem wr_log (st : RSt) (i : Init) : (wr st i).log = st.log ++ [i] := rfl

/-! ## readable unfolding lemmas -/

theorem initOne_elide {f : Nat} {pl : Place} {e : Expr} (h : elides pl.ty e = true) (rest : Items) (st : RSt) :
    initOne (f + 1) pl (.expr e) rest st = contAgg f pl 0 (.cons [] (.expr e) rest) st := by
  cases hty : pl.ty with
  | scalar s k => rw [hty] at h; simp [elides] at h
  | array n el =>
    rw [hty] at h
    rw [initOne.eq_6]
    · intro s k h'; rw [hty] at h'; cases h'
    · intro n' es cls sg w scls cs h' he
      rw [hty] at h'; cases h'; subst he; simp [elides] at h
    · intro u t s m et h'; rw [hty] at h'; cases h'
  | agg u tag size ms =>
    rw [hty] at h
    cases e with
    | agg etag =>
      rw [initOne.eq_5 _ _ _ _ _ _ _ _ _ hty]
      have : tag ≠ etag := by simpa [elides] using h
      rw [if_neg this]
    | _ =>
      rw [initOne.eq_6]
      · intro s k h'; rw [hty] at h'; cases h'
      · intro n' es cls sg w scls cs h' he; rw [hty] at h'; cases h'
      · intro u t s m et h' he; cases he

/-- the four ways `initOne` treats an expression -/
theorem expr_cases (t : Ty) (e : Expr) :
    (∃ size k, t = .scalar size k) ∨
    (∃ n es cls sg w scls cs, t = .array n (.scalar es (.int cls sg)) ∧ e = .str w scls cs) ∨
    (∃ isU tag size ms, t = .agg isU tag size ms ∧ e = .agg tag) ∨
    elides t e = true := by
  cases t with
  | scalar s k => exact .inl ⟨s, k, rfl⟩
  | array n el =>
    cases el with
    | scalar es k =>
      cases k with
      | int cls sg =>
        cases e with
        | str w scls cs => exact .inr (.inl ⟨n, es, cls, sg, w, scls, cs, rfl, rfl⟩)
        | _ => exact .inr (.inr (.inr rfl))
      | _ => exact .inr (.inr (.inr rfl))
    | _ => exact .inr (.inr (.inr rfl))
  | agg u tag size ms =>
    cases e with
    | agg etag =>
      by_cases h : tag = etag
      · subst h; exact .inr (.inr (.inl ⟨u, tag, size, ms, rfl, rfl⟩))
      · exact .inr (.inr (.inr (by simp [elides, h])))
    | _ => exact .inr (.inr (.inr rfl))

/-- what `braced` does first for a non-scalar place -/
def zeroed (st : RSt) (pl : Place) : RSt :=
  zeroIfDirty st pl.off (if pl.unb then 0 else pl.ty.size) pl.depth

theorem braced_scalar_ok {f : Nat} {pl : Place} {size : Nat} {k : SK} (hty : pl.ty = .scalar size k)
    {its : Items} {st r : RSt} (h : braced (f + 1) pl its st = .ok r) :
    (its = .nil ∧ r = st) ∨
    (∃ e v, its = .cons [] (.expr e) .nil ∧ convScalar size k e = some v ∧
      r = wr st ⟨pl.off, pl.off + size, pl.before, pl.after, v⟩) := by
  cases its with
  | nil => rw [braced.eq_2 _ _ _ _ _ hty, hty] at h; cases h; exact .inl ⟨rfl, rfl⟩
  | cons ds i rest =>
    cases ds with
    | cons d ds => rw [braced.eq_5 _ _ _ _ _ _ _ _ _ hty] at h; cases h
    | nil =>
      cases i with
      | list l => rw [braced.eq_4 _ _ _ _ _ _ _ hty] at h; cases h
      | expr e =>
        cases rest with
        | cons ds2 i2 r2 => rw [braced.eq_6 _ _ _ _ _ _ _ _ _ hty] at h; cases h
        | nil =>
          rw [braced.eq_3 _ _ _ _ _ _ hty, hty] at h
          cases hc : convScalar size k e with
          | none => rw [hc] at h; cases h
          | some v => rw [hc] at h; cases h; exact .inr ⟨e, v, rfl, hc, rfl⟩

theorem braced_str {f : Nat} {pl : Place} {n es cls : Nat} {sg : Bool}
    (hty : pl.ty = .array n (.scalar es (.int cls sg))) (w scls : Nat) (cs : List Nat) (st : RSt) :
    braced (f + 1) pl (.cons [] (.expr (.str w scls cs)) .nil) st =
      Except.map (fun x => x.snd) (initOne f pl (.expr (.str w scls cs)) .nil (zeroed st pl)) := by
  rw [braced.eq_7 _ _ _ _ _ _ _ _ _ _ hty]
  unfold zeroed
  simp only [hty]

/-- the items are the optional-braces form of a string for a character array -/
def isStrInit (t : Ty) (its : Items) : Prop :=
  ∃ n es cls sg w scls cs, t = .array n (.scalar es (.int cls sg)) ∧ its = .cons [] (.expr (.str w scls cs)) .nil

theorem braced_loop {f : Nat} {pl : Place} (hty : ∀ size k, pl.ty ≠ .scalar size k) {its : Items}
    (hs : ¬ isStrInit pl.ty its) (st : RSt) :
    braced (f + 1) pl its st = loopB f pl 0 its (zeroed st pl) := by
  rw [braced.eq_8]
  · congr 1
    unfold zeroed
    split
    · rename_i s k h; exact absurd h (hty s k)
    · rfl
  · intro s k h _; exact hty s k h
  · intro s k e h _; exact hty s k h
  · intro s k a b h _; exact hty s k h
  · intro s k a b c d h _; exact hty s k h
  · intro s k a b c d h _; exact hty s k h
  · intro n es cls sg w scls cs h1 h2; exact hs ⟨n, es, cls, sg, w, scls, cs, h1, h2⟩

theorem scalar_or_not (t : Ty) : (∃ size k, t = .scalar size k) ∨ (∀ size k, t ≠ .scalar size k) := by
  cases t with
  | scalar s k => exact .inl ⟨s, k, rfl⟩
  | array n e => exact .inr (fun s k h => by cases h)
  | agg u t s m => exact .inr (fun s k h => by cases h)

/-- `{}` for the object at `pl` -/
theorem braced_nil {f : Nat} {pl : Place} {st r : RSt} (h : braced f pl .nil st = .ok r) :
    r = if isScalarTy pl.ty then st else zeroed st pl := by
  cases f with
  | zero => rw [braced.eq_1] at h; cases h
  | succ f =>
    rcases scalar_or_not pl.ty with ⟨size, k, hty⟩ | hns
    · rcases braced_scalar_ok hty h with ⟨_, rfl⟩ | ⟨e, v, h1, _, _⟩
      · rw [hty]; rfl
      · cases h1
    · rw [braced_loop hns (by intro ⟨_, _, _, _, _, _, _, _, h⟩; cases h)] at h
      cases f with
      | zero => rw [loopB.eq_1] at h; cases h
      | succ f =>
        rw [loopB.eq_2] at h; cases h
        cases hpt : pl.ty with
        | scalar s k => exact absurd hpt (hns s k)
        | array n e => rfl
        | agg u t s m => rfl

theorem zeroed_nswitch (st : RSt) (pl : Place) : (zeroed st pl).nswitch = st.nswitch := zeroIfDirty_nswitch _ _ _ _
theorem zeroed_top (st : RSt) (pl : Place) : (zeroed st pl).top = st.top := zeroIfDirty_top _ _ _ _
theorem zeroed_log (st : RSt) (pl : Place) :
    (zeroed st pl).log = zlog st.log pl.off (if pl.unb then 0 else pl.ty.size) := zeroIfDirty_log _ _ _ _

/-- `nswitch` never decreases -/
theorem nsw_all (fuel : Nat) :
    (∀ pl ini rest st r, initOne fuel pl ini rest st = .ok r → st.nswitch ≤ r.2.nswitch) ∧
    (∀ pl pos its st r, contAgg fuel pl pos its st = .ok r → st.nswitch ≤ r.2.nswitch) ∧
    (∀ pl its st r, braced fuel pl its st = .ok r → st.nswitch ≤ r.nswitch) ∧
    (∀ pl pos its st r, loopB fuel pl pos its st = .ok r → st.nswitch ≤ r.nswitch) ∧
    (∀ pl ps ds i rest st r, desigPath fuel pl ps ds i rest st = .ok r → st.nswitch ≤ r.2.nswitch) := by
  induction fuel with
  | zero =>
    refine ⟨?_, ?_, ?_, ?_, ?_⟩
    · intro pl ini rest st r h; simp [initOne] at h
    · intro pl pos its st r h; simp [contAgg] at h
    · intro pl its st r h; simp [braced] at h
    · intro pl pos its st r h; simp [loopB] at h
    · intro pl ps ds i rest st r h; simp [desigPath] at h
  | succ fuel ih =>
    obtain ⟨ih1, ih2, ih3, ih4, ih5⟩ := ih
    have ge : ∀ (st : RSt) pl pos, st.nswitch ≤ (grow (enter st pl pos) pl pos).nswitch := by
      intro st pl pos; rw [grow_nswitch]; exact enter_nswitch_le _ _ _
    have h1 : ∀ pl ini rest st r, initOne (fuel + 1) pl ini rest st = .ok r → st.nswitch ≤ r.2.nswitch := by
      intro pl ini rest st r h
      cases ini with
      | list its =>
        rw [initOne.eq_2] at h
        split at h
        · rename_i st' hb; cases h; exact ih3 _ _ _ _ hb
        · cases h
      | expr e =>
        rcases expr_cases pl.ty e with ⟨size, k, hty⟩ | ⟨n, es, cls, sg, w, scls, cs, hty, rfl⟩ |
            ⟨isU, tag, size, ms, hty, rfl⟩ | he
        · rw [initOne.eq_3 _ _ _ _ _ _ _ hty] at h
          split at h
          · cases h; exact Nat.le_refl _
          · cases h
        · rw [initOne.eq_4 _ _ _ _ _ _ _ _ _ _ _ hty] at h
          split at h
          · cases h
          · cases h
            dsimp only []
            split <;> exact Nat.le_refl _
        · rw [initOne.eq_5 _ _ _ _ _ _ _ _ _ hty, if_pos rfl] at h
          cases h; exact Nat.le_refl _
        · rw [initOne_elide he] at h
          exact ih2 _ _ _ _ _ h
    refine ⟨h1, ?_, ?_, ?_, ?_⟩
    · intro pl pos its st r h
      cases its with
      | nil => rw [contAgg.eq_2] at h; cases h; exact Nat.le_refl _
      | cons ds i rest =>
        cases ds with
        | cons d ds => rw [contAgg.eq_3] at h; cases h; exact Nat.le_refl _
        | nil =>
          rw [contAgg.eq_4] at h
          split at h
          · cases h; exact Nat.le_refl _
          · split at h
            · rename_i rest' st' h1
              exact Nat.le_trans (Nat.le_trans (ge _ _ _) (ih1 _ _ _ _ _ h1)) (ih2 _ _ _ _ _ h)
            · cases h
    · intro pl its st r h
      rcases scalar_or_not pl.ty with ⟨size, k, hty⟩ | hty
      · rcases braced_scalar_ok hty h with ⟨_, rfl⟩ | ⟨e, v, _, _, rfl⟩ <;> exact Nat.le_refl _
      · by_cases hs : isStrInit pl.ty its
        · obtain ⟨n, es, cls, sg, w, scls, cs, hty', rfl⟩ := hs
          rw [braced_str hty'] at h
          cases hi : initOne fuel pl (.expr (.str w scls cs)) .nil (zeroed st pl) with
          | error e => rw [hi] at h; cases h
          | ok x =>
            rw [hi] at h; cases h
            have := ih1 _ _ _ _ _ hi
            rw [zeroed_nswitch] at this
            exact this
        · rw [braced_loop hty hs] at h
          have := ih4 _ _ _ _ _ h
          rw [zeroed_nswitch] at this
          exact this
    · intro pl pos its st r h
      cases its with
      | nil => rw [loopB.eq_2] at h; cases h; exact Nat.le_refl _
      | cons ds i rest =>
        cases ds with
        | nil =>
          rw [loopB.eq_3] at h
          split at h
          · cases h
          · split at h
            · rename_i rest' st' h1
              exact Nat.le_trans (Nat.le_trans (ge _ _ _) (ih1 _ _ _ _ _ h1)) (ih4 _ _ _ _ _ h)
            · cases h
        | cons d ds =>
          rw [loopB.eq_4] at h
          split at h
          · cases h
          · cases h
          · split at h
            · cases h
            · split at h
              · rename_i rest' st' h1
                exact Nat.le_trans (Nat.le_trans (ge _ _ _) (ih5 _ _ _ _ _ _ _ h1)) (ih4 _ _ _ _ _ h)
              · cases h
    · intro pl ps ds i rest st r h
      cases ps with
      | nil =>
        cases ds with
        | nil => rw [desigPath.eq_2] at h; exact ih1 _ _ _ _ _ h
        | cons d ds =>
          rw [desigPath.eq_3] at h
          split at h
          · cases h
          · split at h
            · cases h
            · exact ih5 _ _ _ _ _ _ _ h
      | cons p ps =>
        rw [desigPath.eq_4] at h
        split at h
        · cases h
        · split at h
          · rename_i rest' st' h1
            exact Nat.le_trans (Nat.le_trans (enter_nswitch_le _ _ _) (ih5 _ _ _ _ _ _ _ h1)) (ih2 _ _ _ _ _ h)
          · cases h

end CprocVerif.InitSim

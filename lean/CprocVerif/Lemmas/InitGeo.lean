import CprocVerif.Lemmas.InitRefMach

/-!
# Geometry of the places of an object

The sub-objects reached by counting (`childAt … true`: a union has only its first member) form a
tree; under a C layout (`layOK`) two of them are bit-disjoint or nested, and nesting is ancestry.
-/

namespace CprocVerif.InitSim
open CprocVerif.Init CprocVerif.Image CprocVerif.InitRef

def plo (q : Place) : Nat := 8 * q.off + q.before
def phi (q : Place) : Nat := 8 * (q.off + q.ty.size) - q.after

theorem csize_pos (c : Nat) : 0 < csize c := by
  unfold csize; split <;> (try split) <;> (try split) <;> omega

theorem csize_le (c : Nat) : csize c ≤ 8 := by
  unfold csize; split <;> (try split) <;> (try split) <;> omega

/-- a place with a C layout (`nu`: and without unions) -/
structure PlGeo (nu : Bool) (q : Place) : Prop where
  wf : PlWf q
  lay : layOK q.ty = true
  bits : bitsOK q.ty q.before q.after = true
  nu : nu = true → noUnion q.ty = true

theorem bitsOK_zero {t : Ty} (h : layOK t = true) : bitsOK t 0 0 = true := by
  cases t with
  | scalar s k =>
    cases k with
    | int c sg =>
      simp only [layOK, beq_iff_eq] at h
      simp only [bitsOK, decide_eq_true_eq]
      have := csize_pos c
      omega
    | flt => rfl
    | ptr => rfl
  | array n e => rfl
  | agg u t s m => rfl

/-- bits of a non-scalar place -/
theorem PlGeo.nonscalar {nu : Bool} {q : Place} (h : PlGeo nu q) (hs : isScalarTy q.ty = false) :
    q.before = 0 ∧ q.after = 0 := h.wf.bits hs

/-! ## members of a struct/union with a C layout -/

theorem bits_le {t : Ty} {b a : Nat} (h : bitsOK t b a = true) : b + a ≤ 8 * t.size := by
  cases t with
  | scalar s k =>
    cases k with
    | int c sg => simp only [bitsOK, decide_eq_true_eq] at h; simp only [Ty.size]; omega
    | flt => simp only [bitsOK, Bool.and_eq_true, beq_iff_eq] at h; omega
    | ptr => simp only [bitsOK, Bool.and_eq_true, beq_iff_eq] at h; omega
  | array n e => simp only [bitsOK, Bool.and_eq_true, beq_iff_eq] at h; omega
  | agg u t s m => simp only [bitsOK, Bool.and_eq_true, beq_iff_eq] at h; omega

theorem msLay_cons {iu : Bool} {size lb : Nat} {n : Option String} {t : Ty} {o b a : Nat} {nx : Members}
    (h : msLay iu size lb (.cons n t o b a nx) = true) :
    o + t.size ≤ size ∧ layOK t = true ∧ bitsOK t b a = true ∧ (iu = false → lb ≤ 8 * o + b) ∧
      msLay iu size (8 * (o + t.size) - a) nx = true := by
  simp only [msLay, Bool.and_eq_true, decide_eq_true_eq, Bool.or_eq_true] at h
  refine ⟨h.1.1.1.1, h.1.1.1.2, h.1.1.2, ?_, h.2⟩
  intro hu
  rcases h.1.2 with h' | h'
  · rw [hu] at h'; cases h'
  · exact h'

/-- every final segment of a laid-out member list is laid out -/
theorem msLay_drop {iu : Bool} {size : Nat} : ∀ (p : Nat) {lb : Nat} {ms : Members}, msLay iu size lb ms = true →
    ∃ lb', msLay iu size lb' (Members.drop ms p) = true := by
  intro p
  induction p with
  | zero => intro lb ms h; exact ⟨lb, by cases ms <;> simpa [Members.drop] using h⟩
  | succ p ih =>
    intro lb ms h
    cases ms with
    | nil => exact ⟨lb, by simp [Members.drop, msLay]⟩
    | cons n t o b a nx =>
      have := (msLay_cons h).2.2.2.2
      obtain ⟨lb', h'⟩ := ih this
      exact ⟨lb', by simpa [Members.drop] using h'⟩

/-- in a struct every later member starts at or behind the bound -/
theorem msLay_lb {size : Nat} : ∀ (p : Nat) {lb : Nat} {ms : Members}, msLay false size lb ms = true →
    ∀ {n t o b a nx}, Members.drop ms p = .cons n t o b a nx → lb ≤ 8 * o + b := by
  intro p
  induction p with
  | zero =>
    intro lb ms h n t o b a nx hd
    have : ms = .cons n t o b a nx := by cases ms <;> simpa [Members.drop] using hd
    subst this
    exact (msLay_cons h).2.2.2.1 rfl
  | succ p ih =>
    intro lb ms h n t o b a nx hd
    cases ms with
    | nil => simp [Members.drop] at hd
    | cons n0 t0 o0 b0 a0 nx0 =>
      obtain ⟨_, _, hb, hl, hr⟩ := msLay_cons h
      have hd' : Members.drop nx0 p = .cons n t o b a nx := by simpa [Members.drop] using hd
      have := ih hr hd'
      have := hl rfl
      have := bits_le hb
      omega

/-! ## children -/

theorem childAt_true_agg {q : Place} {u : Bool} {tag size : Nat} {ms : Members} (hty : q.ty = .agg u tag size ms)
    {p : Nat} {ch : Place} (h : childAt q p true = some ch) :
    (u = true → p = 0) ∧ ∃ n t o b a nx, Members.drop ms p = .cons n t o b a nx ∧
      ch = { ty := t, off := q.off + o, before := b, after := a, depth := q.depth + 1 } := by
  rw [childAt_agg hty] at h
  split at h
  · cases h
  · rename_i hc
    refine ⟨?_, ?_⟩
    · intro hu
      by_cases hp : p = 0
      · exact hp
      · exfalso; apply hc; simp [hu, hp]
    · cases hd : Members.drop ms p with
      | nil => rw [hd] at h; cases h
      | cons n t o b a nx => rw [hd] at h; cases h; exact ⟨n, t, o, b, a, nx, rfl, rfl⟩

/-- a child has a C layout and lies inside its parent -/
theorem child_geo {nu : Bool} {q ch : Place} {p : Nat} (hg : PlGeo nu q) (h : childAt q p true = some ch) :
    PlGeo nu ch ∧ q.off ≤ ch.off ∧ ch.off + ch.ty.size ≤ q.off + q.ty.size := by
  have hwc : PlWf ch := childAt_wf hg.wf h
  cases hty : q.ty with
  | scalar s k => rw [childAt_scalar hty] at h; cases h
  | array n e =>
    rw [childAt_array hty hg.wf.unb] at h
    split at h
    · rename_i hp
      cases h
      have hl : layOK e = true := by have := hg.lay; rw [hty] at this; simpa [layOK] using this
      refine ⟨⟨hwc, hl, bitsOK_zero hl, fun hn => ?_⟩, Nat.le_add_right _ _, ?_⟩
      · have := hg.nu hn; rw [hty] at this; simpa [noUnion] using this
      · simp only [Ty.size]
        have : (p + 1) * e.size ≤ n * e.size := Nat.mul_le_mul_right _ hp
        rw [Nat.add_mul, Nat.one_mul] at this
        omega
    · cases h
  | agg u tag size ms =>
    obtain ⟨_, n, t, o, b, a, nx, hd, rfl⟩ := childAt_true_agg hty h
    have hl : msLay u size 0 ms = true := by have := hg.lay; rw [hty] at this; simpa [layOK] using this
    obtain ⟨lb', hl'⟩ := msLay_drop p hl
    rw [hd] at hl'
    obtain ⟨h1, h2, h3, _, _⟩ := msLay_cons hl'
    refine ⟨⟨hwc, h2, h3, fun hn => ?_⟩, Nat.le_add_right _ _, ?_⟩
    · have := hg.nu hn
      rw [hty] at this
      simp only [noUnion, Bool.and_eq_true] at this
      have hm : ∀ (q : Nat) (ms : Members), noUnionMs ms = true → ∀ {n t o b a nx},
          Members.drop ms q = .cons n t o b a nx → noUnion t = true := by
        intro q
        induction q with
        | zero =>
          intro ms h n t o b a nx hd
          have : ms = .cons n t o b a nx := by cases ms <;> simpa [Members.drop] using hd
          subst this
          simp only [noUnionMs, Bool.and_eq_true] at h
          exact h.1
        | succ q ih =>
          intro ms h n t o b a nx hd
          cases ms with
          | nil => simp [Members.drop] at hd
          | cons n0 t0 o0 b0 a0 nx0 =>
            simp only [noUnionMs, Bool.and_eq_true] at h
            exact ih nx0 h.2 (by simpa [Members.drop] using hd)
      exact hm p ms this.2 hd
    · simp only [Ty.size]; omega

/-- two different children are bit-disjoint, in the order of their positions -/
theorem sibling_disj {nu : Bool} {q c1 c2 : Place} {a b : Nat} (hg : PlGeo nu q) (h1 : childAt q a true = some c1)
    (h2 : childAt q b true = some c2) (hab : a < b) : phi c1 ≤ plo c2 := by
  cases hty : q.ty with
  | scalar s k => rw [childAt_scalar hty] at h1; cases h1
  | array n e =>
    rw [childAt_array hty hg.wf.unb] at h1 h2
    split at h1
    · split at h2
      · cases h1; cases h2
        unfold phi plo
        simp only []
        have : (a + 1) * e.size ≤ b * e.size := Nat.mul_le_mul_right _ hab
        rw [Nat.add_mul, Nat.one_mul] at this
        omega
      · cases h2
    · cases h1
  | agg u tag size ms =>
    obtain ⟨hu1, n1, t1, o1, b1, a1, nx1, hd1, rfl⟩ := childAt_true_agg hty h1
    obtain ⟨hu2, n2, t2, o2, b2, a2, nx2, hd2, rfl⟩ := childAt_true_agg hty h2
    cases u with
    | true => have := hu2 rfl; omega
    | false =>
      have hl : msLay false size 0 ms = true := by have := hg.lay; rw [hty] at this; simpa [layOK] using this
      obtain ⟨lb', hl'⟩ := msLay_drop a hl
      rw [hd1] at hl'
      obtain ⟨_, _, _, _, hr⟩ := msLay_cons hl'
      -- member `b` is member `b - a - 1` of what follows member `a`
      have hdrop : ∀ (a d : Nat) (ms : Members) {n t o bb aa nx}, Members.drop ms a = .cons n t o bb aa nx →
          Members.drop ms (a + 1 + d) = Members.drop nx d := by
        intro a
        induction a with
        | zero =>
          intro d ms n t o bb aa nx hd
          have : ms = .cons n t o bb aa nx := by cases ms <;> simpa [Members.drop] using hd
          subst this
          rw [Nat.zero_add, Nat.add_comm]
          simp [Members.drop]
        | succ a ih =>
          intro d ms n t o bb aa nx hd
          cases ms with
          | nil => simp [Members.drop] at hd
          | cons n0 t0 o0 b0 a0 nx0 =>
            have hd' : Members.drop nx0 a = .cons n t o bb aa nx := by simpa [Members.drop] using hd
            have := ih d nx0 hd'
            rw [show a + 1 + 1 + d = (a + 1 + d) + 1 by omega]
            simpa [Members.drop] using this
      have hb : Members.drop nx1 (b - a - 1) = .cons n2 t2 o2 b2 a2 nx2 := by
        rw [← hdrop a (b - a - 1) ms hd1, show a + 1 + (b - a - 1) = b by omega]
        exact hd2
      have := msLay_lb (b - a - 1) hr hb
      unfold phi plo
      simp only []
      omega

/-! ## the tree -/

/-- the sub-object reached from `q` through the positions `ps` -/
def walk (q : Place) : List Nat → Option Place
  | [] => some q
  | p :: ps =>
    match childAt q p true with
    | some ch => walk ch ps
    | none => none

theorem walk_append {q m : Place} {ps rs : List Nat} (h : walk q ps = some m) : walk q (ps ++ rs) = walk m rs := by
  induction ps generalizing q with
  | nil => cases h; rfl
  | cons p ps ih =>
    simp only [walk, List.cons_append] at h ⊢
    cases hc : childAt q p true with
    | none => rw [hc] at h; cases h
    | some ch => rw [hc] at h; simp only [] at h ⊢; exact ih h

theorem walk_append_some {q d : Place} {ps rs : List Nat} (h : walk q (ps ++ rs) = some d) :
    ∃ m, walk q ps = some m ∧ walk m rs = some d := by
  induction ps generalizing q with
  | nil => exact ⟨q, rfl, h⟩
  | cons p ps ih =>
    simp only [walk, List.cons_append] at h ⊢
    cases hc : childAt q p true with
    | none => rw [hc] at h; cases h
    | some ch => rw [hc] at h; simp only [] at h ⊢; exact ih h

/-- a descendant has a C layout and lies inside its ancestor, bytes and bits -/
theorem walk_geo {nu : Bool} : ∀ (ps : List Nat) {q d : Place}, PlGeo nu q → walk q ps = some d →
    PlGeo nu d ∧ q.off ≤ d.off ∧ d.off + d.ty.size ≤ q.off + q.ty.size ∧ plo q ≤ plo d ∧ phi d ≤ phi q := by
  intro ps
  induction ps with
  | nil => intro q d hg h; cases h; exact ⟨hg, Nat.le_refl _, Nat.le_refl _, Nat.le_refl _, Nat.le_refl _⟩
  | cons p ps ih =>
    intro q d hg h
    simp only [walk] at h
    cases hc : childAt q p true with
    | none => rw [hc] at h; cases h
    | some ch =>
      rw [hc] at h
      simp only [] at h
      obtain ⟨hgc, c1, c2⟩ := child_geo hg hc
      obtain ⟨r1, r2, r3, r4, r5⟩ := ih hgc h
      have hns : isScalarTy q.ty = false := by
        cases hty : q.ty with
        | scalar s k => rw [childAt_scalar hty] at hc; cases hc
        | array n e => rfl
        | agg u t s m => rfl
      obtain ⟨hb, ha⟩ := hg.nonscalar hns
      have hcb := bits_le hgc.bits
      refine ⟨r1, by omega, by omega, ?_, ?_⟩
      · unfold plo at r4 ⊢; rw [hb]; omega
      · unfold phi at r5 ⊢; rw [ha]; omega

/-- paths: one extends the other, or they part at some position -/
theorem path_cases (p1 p2 : List Nat) :
    (∃ r, p2 = p1 ++ r) ∨ (∃ r, p1 = p2 ++ r) ∨
    (∃ pre a b r1 r2, a ≠ b ∧ p1 = pre ++ a :: r1 ∧ p2 = pre ++ b :: r2) := by
  induction p1 generalizing p2 with
  | nil => exact .inl ⟨p2, rfl⟩
  | cons x xs ih =>
    cases p2 with
    | nil => exact .inr (.inl ⟨x :: xs, rfl⟩)
    | cons y ys =>
      by_cases hxy : x = y
      · subst hxy
        rcases ih ys with ⟨r, h⟩ | ⟨r, h⟩ | ⟨pre, a, b, r1, r2, hab, h1, h2⟩
        · exact .inl ⟨r, by rw [h]; rfl⟩
        · exact .inr (.inl ⟨r, by rw [h]; rfl⟩)
        · exact .inr (.inr ⟨x :: pre, a, b, r1, r2, hab, by rw [h1]; rfl, by rw [h2]; rfl⟩)
      · exact .inr (.inr ⟨[], x, y, xs, ys, hxy, rfl, rfl⟩)

/-- places on paths that part are bit-disjoint -/
theorem walk_disj {nu : Bool} {root d1 d2 : Place} {pre r1 r2 : List Nat} {a b : Nat} (hg : PlGeo nu root) (hab : a ≠ b)
    (h1 : walk root (pre ++ a :: r1) = some d1) (h2 : walk root (pre ++ b :: r2) = some d2) :
    phi d1 ≤ plo d2 ∨ phi d2 ≤ plo d1 := by
  obtain ⟨m, hm, hw1⟩ := walk_append_some h1
  obtain ⟨m', hm', hw2⟩ := walk_append_some h2
  rw [hm] at hm'; cases hm'
  obtain ⟨hgm, _⟩ := walk_geo pre hg hm
  simp only [walk] at hw1 hw2
  cases hc1 : childAt m a true with
  | none => rw [hc1] at hw1; cases hw1
  | some c1 =>
  cases hc2 : childAt m b true with
  | none => rw [hc2] at hw2; cases hw2
  | some c2 =>
  rw [hc1] at hw1; rw [hc2] at hw2
  simp only [] at hw1 hw2
  obtain ⟨g1, _⟩ := child_geo hgm hc1
  obtain ⟨g2, _⟩ := child_geo hgm hc2
  obtain ⟨_, _, _, l1, u1⟩ := walk_geo r1 g1 hw1
  obtain ⟨_, _, _, l2, u2⟩ := walk_geo r2 g2 hw2
  rcases Nat.lt_or_gt_of_ne hab with hlt | hgt
  · have := sibling_disj hgm hc1 hc2 hlt; left; omega
  · have := sibling_disj hgm hc2 hc1 hgt; right; omega

end CprocVerif.InitSim

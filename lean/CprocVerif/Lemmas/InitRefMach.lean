import CprocVerif.Lemmas.InitRefR

/-!
# The cursor machine of `parseinit`, step by step, in the vocabulary of the reference

`Lvl st k pl pos ch`: slot `k` of the `obj[]` stack is the object at place `pl`, its `u` cursor
stands at sub-object number `pos`, which is the place `ch`.  The lemmas say what `focus`,
`advance`, `hit`, `placeExpr`, `closeBrace` do to such states.
-/

namespace CprocVerif.InitSim
open CprocVerif.Init CprocVerif.Image CprocVerif.InitRef

/-! ## types and places -/

def Members.drop : Members → Nat → Members
  | ms, 0 => ms
  | .nil, _ + 1 => .nil
  | .cons _ _ _ _ _ r, k + 1 => Members.drop r k

theorem drop_nil (k : Nat) : Members.drop .nil k = .nil := by cases k <;> rfl

theorem drop_succ (ms : Members) (k : Nat) :
    Members.drop ms (k + 1) = match Members.drop ms k with
      | .nil => .nil
      | .cons _ _ _ _ _ r => r := by
  induction k generalizing ms with
  | zero => cases ms <;> simp [Members.drop]
  | succ k ih =>
    cases ms with
    | nil => simp [Members.drop]
    | cons n t o b a r =>
      show Members.drop r (k + 1) = match Members.drop r k with
        | .nil => .nil
        | .cons _ _ _ _ _ r => r
      exact ih r

theorem get?_eq_drop (ms : Members) (k : Nat) :
    Members.get? ms k = match Members.drop ms k with
      | .nil => none
      | .cons n t o b a _ => some (n, t, o, b, a) := by
  induction k generalizing ms with
  | zero => cases ms <;> rfl
  | succ k ih =>
    cases ms with
    | nil => rfl
    | cons n t o b a r => exact ih r

theorem msWf_drop {ms : Members} (h : msWf ms = true) (k : Nat) : msWf (Members.drop ms k) = true := by
  induction k generalizing ms with
  | zero => cases ms <;> exact h
  | succ k ih =>
    cases ms with
    | nil => rfl
    | cons n t o b a r =>
      simp only [msWf, Bool.and_eq_true] at h
      exact ih h.2

/-- a well-formed place of known size -/
structure PlWf (pl : Place) : Prop where
  ty : tyWf pl.ty = true
  unb : pl.unb = false
  bits : isScalarTy pl.ty = false → pl.before = 0 ∧ pl.after = 0

theorem childAt_array {pl : Place} {n : Nat} {e : Ty} (hty : pl.ty = .array n e) (hu : pl.unb = false)
    (pos : Nat) (p : Bool) :
    childAt pl pos p = if pos < n then some { ty := e, off := pl.off + pos * e.size, depth := pl.depth + 1 } else none := by
  unfold childAt
  rw [hty]
  simp [hu]

theorem childAt_agg {pl : Place} {u : Bool} {tag size : Nat} {ms : Members} (hty : pl.ty = .agg u tag size ms)
    (pos : Nat) (p : Bool) :
    childAt pl pos p = if u && p && pos ≠ 0 then none else
      match Members.drop ms pos with
      | .nil => none
      | .cons _ t o b a _ => some { ty := t, off := pl.off + o, before := b, after := a, depth := pl.depth + 1 } := by
  unfold childAt
  rw [hty]
  simp only [get?_eq_drop]
  split
  · rfl
  · cases Members.drop ms pos <;> rfl

theorem childAt_scalar {pl : Place} {s : Nat} {k : SK} (hty : pl.ty = .scalar s k) (pos : Nat) (p : Bool) :
    childAt pl pos p = none := by
  unfold childAt; rw [hty]

/-- a positional child is a child -/
theorem childAt_of_pos {pl : Place} {pos : Nat} {ch : Place} (h : childAt pl pos true = some ch) :
    childAt pl pos false = some ch := by
  cases hty : pl.ty with
  | scalar s k => rw [childAt_scalar hty] at h; cases h
  | array n e =>
    unfold childAt at h ⊢
    rw [hty] at h ⊢
    exact h
  | agg u tag size ms =>
    rw [childAt_agg hty] at h ⊢
    split at h
    · cases h
    · simp only [Bool.and_false, Bool.false_and, Bool.false_eq_true, if_false]
      exact h

theorem childAt_wf {pl : Place} (hw : PlWf pl) {pos : Nat} {p : Bool} {ch : Place}
    (h : childAt pl pos p = some ch) : PlWf ch := by
  cases hty : pl.ty with
  | scalar s k => rw [childAt_scalar hty] at h; cases h
  | array n e =>
    rw [childAt_array hty hw.unb] at h
    split at h
    · cases h
      have := hw.ty
      rw [hty] at this
      simp only [tyWf, Bool.and_eq_true] at this
      exact ⟨this.2, rfl, fun _ => ⟨rfl, rfl⟩⟩
    · cases h
  | agg u tag size ms =>
    rw [childAt_agg hty] at h
    split at h
    · cases h
    · have hm : msWf ms = true := by
        have := hw.ty
        rw [hty] at this
        simp only [tyWf, Bool.and_eq_true] at this
        exact this.2
      have hd := msWf_drop hm pos
      cases hdr : Members.drop ms pos with
      | nil => rw [hdr] at h; cases h
      | cons n t o b a r =>
        rw [hdr] at h hd
        cases h
        simp only [msWf, Bool.and_eq_true, Bool.or_eq_true, beq_iff_eq] at hd
        refine ⟨hd.1.1, rfl, ?_⟩
        intro hs
        rcases hd.1.2 with h' | h'
        · simp only [] at hs; rw [hs] at h'; cases h'
        · exact h'

/-- a non-scalar well-formed place has a first sub-object -/
theorem childAt_zero {pl : Place} (hw : PlWf pl) (hs : isScalarTy pl.ty = false) :
    ∃ ch, childAt pl 0 true = some ch := by
  cases hty : pl.ty with
  | scalar s k => rw [hty] at hs; cases hs
  | array n e =>
    have := hw.ty
    rw [hty] at this
    simp only [tyWf, Bool.and_eq_true, decide_eq_true_eq] at this
    rw [childAt_array hty hw.unb, if_pos (by omega)]
    exact ⟨_, rfl⟩
  | agg u tag size ms =>
    have := hw.ty
    rw [hty] at this
    rw [childAt_agg hty]
    cases ms with
    | nil => simp [tyWf] at this
    | cons n t o b a r => simp [Members.drop]

/-! ## machine states -/

/-- slot `k` is not an array of unknown size that is being completed: `tsize` and `tinc` are the
plain ones (always so for `k > 0`) -/
structure Flat (st : St) (k : Nat) : Prop where
  tinc : st.tinc k = false
  tsize : st.tsize k = (st.obj k).ty.size

theorem flat_pos (st : St) {k : Nat} (hk : 0 < k) : Flat st k := by
  have hk0 : k ≠ 0 := by omega
  refine ⟨?_, ?_⟩
  · unfold St.tinc; simp [hk0]
  · unfold St.tsize; rw [if_neg hk0]

theorem Flat.sub {st : St} {k : Nat} (h : Flat st k) (s : Nat) : Flat { st with sub := s } k := ⟨h.tinc, h.tsize⟩

/-- `cur` is the innermost slot marked `iscur` below `sub` -/
def CurOK (st : St) : Prop :=
  match st.cur with
  | some c => c ≤ st.sub ∧ (st.obj c).iscur = true ∧ ∀ j, c < j → j < st.sub → (st.obj j).iscur = false
  | none => ∀ j, j < st.sub → (st.obj j).iscur = false

theorem prevCur_some (st : St) {c : Nat} (hc : (st.obj c).iscur = true) :
    ∀ s, c < s → (∀ j, c < j → j < s → (st.obj j).iscur = false) → prevCur st s = some c := by
  intro s
  induction s with
  | zero => intro h; omega
  | succ s ih =>
    intro hlt hf
    rw [prevCur]
    by_cases hcs : c = s
    · subst hcs; rw [hc]; rfl
    · rw [hf s (by omega) (by omega)]
      simp only [Bool.false_eq_true, if_false]
      exact ih (by omega) (fun j h1 h2 => hf j h1 (by omega))

theorem prevCur_none (st : St) : ∀ s, (∀ j, j < s → (st.obj j).iscur = false) → prevCur st s = none := by
  intro s
  induction s with
  | zero => intro _; rfl
  | succ s ih =>
    intro hf
    rw [prevCur, hf s (by omega)]
    simp only [Bool.false_eq_true, if_false]
    exact ih (fun j h => hf j (by omega))

theorem prevCur_congr (st st' : St) (s : Nat) (h : ∀ j, j < s → (st'.obj j).iscur = (st.obj j).iscur) :
    prevCur st' s = prevCur st s := by
  induction s with
  | zero => rfl
  | succ s ih =>
    rw [prevCur, prevCur, h s (by omega), ih (fun j hj => h j (by omega))]

/-- `u` of a slot of type `ty` stands at sub-object `pos` -/
def UAt (u : U) (ty : Ty) (pos : Nat) : Prop :=
  match ty with
  | .array _ e => u = .idx (pos * e.size)
  | .agg _ _ _ ms => u = .mem (Members.drop ms pos)
  | .scalar _ _ => False

/-- slot `k` is the object at `pl`, its cursor stands at sub-object `pos`, the place `ch` -/
structure Lvl (st : St) (k : Nat) (pl : Place) (pos : Nat) (ch : Place) : Prop where
  ty : (st.obj k).ty = pl.ty
  off : (st.obj k).offset = pl.off
  child : childAt pl pos false = some ch
  u : UAt (st.obj k).u pl.ty pos

/-- slot `m` is the object at `pl` (with the bits of the member it was reached through) -/
structure SP (st : St) (m : Nat) (pl : Place) : Prop where
  ty : (st.obj m).ty = pl.ty
  off : (st.obj m).offset = pl.off
  bits : curBits { st with sub := m } = .ok (pl.before, pl.after)

/-- what a step leaves alone: the control fields, the log up to …, the slots below `m` -/
structure Frame (m : Nat) (st st' : St) : Prop where
  cur : st'.cur = st.cur
  top : st'.top = st.top
  inc : st'.inc = st.inc
  low : ∀ j, j < m → st'.obj j = st.obj j

theorem Frame.refl (m : Nat) (st : St) : Frame m st st := ⟨rfl, rfl, rfl, fun _ _ => rfl⟩

theorem Frame.trans {m m' : Nat} {a b c : St} (h : Frame m a b) (h' : Frame m' b c) (hm : m ≤ m') :
    Frame m a c :=
  ⟨h'.cur.trans h.cur, h'.top.trans h.top, h'.inc.trans h.inc,
    fun j hj => (h'.low j (by omega)).trans (h.low j hj)⟩

theorem Frame.mono {m m' : Nat} {a b : St} (h : Frame m' a b) (hm : m ≤ m') : Frame m a b :=
  ⟨h.cur, h.top, h.inc, fun j hj => h.low j (by omega)⟩

theorem Flat.frame {m : Nat} {st st' : St} (h : Flat st m) (hf : Frame m st st')
    (hty : (st'.obj m).ty = (st.obj m).ty) : Flat st' m := by
  refine ⟨?_, ?_⟩
  · have := h.tinc
    unfold St.tinc at this ⊢
    rw [hf.inc]; exact this
  · have := h.tsize
    unfold St.tsize at this ⊢
    rw [hf.top, hty]; exact this

theorem Lvl.frame {st st' : St} {k m : Nat} {pl ch : Place} {pos : Nat} (h : Lvl st k pl pos ch)
    (hf : Frame m st st') (hk : k < m) : Lvl st' k pl pos ch := by
  have := hf.low k hk
  exact ⟨by rw [this]; exact h.ty, by rw [this]; exact h.off, h.child, by rw [this]; exact h.u⟩

/-- the sub-object a level points at, once pushed, is that place -/
theorem sp_child {st : St} {k : Nat} {pl ch : Place} {pos : Nat} (hw : PlWf pl) (h : Lvl st k pl pos ch)
    (hty : (st.obj (k + 1)).ty = ch.ty) (hoff : (st.obj (k + 1)).offset = ch.off) : SP st (k + 1) ch := by
  refine ⟨hty, hoff, ?_⟩
  unfold curBits
  simp only [Nat.add_one_ne_zero, if_false, Nat.add_sub_cancel]
  have hc := h.child
  have hu := h.u
  cases hpt : pl.ty with
  | scalar s k' => rw [childAt_scalar hpt] at hc; cases hc
  | array n e =>
    rw [h.ty, hpt]
    rw [childAt_array hpt hw.unb] at hc
    split at hc
    · cases hc; rfl
    · cases hc
  | agg u tag size ms =>
    rw [h.ty, hpt]
    rw [childAt_agg hpt] at hc
    simp only [Bool.and_false, Bool.false_and, Bool.false_eq_true, if_false] at hc
    unfold UAt at hu
    rw [hpt] at hu
    simp only [] at hu
    rw [hu]
    cases hd : Members.drop ms pos with
    | nil => rw [hd] at hc; cases hc
    | cons n t o b a r => rw [hd] at hc; cases hc; rfl

end CprocVerif.InitSim

/-
  C01, fragment 𝔽₂ — structural facts about what `Lower2.funcstmt` emits (in code without statements
  after a jump, where `funcopen` never acts): counters grow, labels are fresh and pairwise different, the
  open block is tracked by `SCtx.cur`, a statement that does not end in `return`/`break`/`continue` leaves
  no jump pending, and the slots it adds are numbered inside its own range of temporaries, with one
  `alloc` each in `allocs`.
-/
import CprocVerif.Lemmas.Lower2Expr3a

set_option linter.unusedSimpArgs false

namespace CprocVerif.LowerMach2
open CprocVerif.Qbe CprocVerif.Lower CprocVerif.Lower2 CprocVerif.CSem CprocVerif.CSem2 CprocVerif.CInt
open CprocVerif.LowerArith CprocVerif.LowerMach

/-- No statement follows a `return`/`break`/`continue` in the same block; the third clause of `for` is
    an expression statement. -/
def noDead : Stmt → Bool
  | .seq a b => (!a.endsJump || b.startsLabel) && noDead a && noDead b
  | .switch_ _ b => b.startsLabel && noDead b
  | .ite _ a => noDead a
  | .itee _ a b => noDead a && noDead b
  | .while_ _ b => noDead b
  | .dowhile b _ => noDead b
  | .for_ _ st b => st.isSimple && noDead b
  | _ => true

/-- Types and element counts of the objects a statement declares, in the order of the `alloc`s. -/
def declTys : Stmt → List (CSem.Ty × Nat)
  | .decl _ t _ => [(t, 1)]
  | .adecl _ t n _ => [(t, n)]
  | .seq a b => declTys a ++ declTys b
  | .ite _ a => declTys a
  | .itee _ a b => declTys a ++ declTys b
  | .while_ _ b => declTys b
  | .dowhile b _ => declTys b
  | .for_ _ st b => declTys b ++ declTys st
  | .switch_ _ b => declTys b
  | _ => []

/-! ## Without a pending jump `funcopen` does nothing -/

theorem funcopen_none {c : SCtx} (h : c.jump = none) : funcopen c = ([], c) := by
  unfold funcopen; rw [h]

/-- `funcexpr` at statement level, directly. -/
def exprOut (cs : Bool) (c : SCtx) (e : Expr) : Out := funcexpr2 cs c.slots e c.ctx

theorem lowerE_eq (cs : Bool) {c : SCtx} (h : c.jump = none) (e : Expr) :
    lowerE cs c e = ⟨(exprOut cs c e).items, (exprOut cs c e).val, c.upd (exprOut cs c e).ctx⟩ := by
  simp only [lowerE, funcopen_none h, List.nil_append, exprOut]

/-- `funcexpr` on an expression with array reads and calls at statement level, directly. -/
def exprOut3 (cs : Bool) (c : SCtx) (e : Expr3) : Out := funcexpr3 cs c.slots e c.ctx

theorem lowerE3_eq (cs : Bool) {c : SCtx} (h : c.jump = none) (e : Expr3) :
    lowerE3 cs c e = ⟨(exprOut3 cs c e).items, (exprOut3 cs c e).val, c.upd (exprOut3 cs c e).ctx⟩ := by
  simp only [lowerE3, funcopen_none h, List.nil_append, exprOut3]

def jnzOut (cs : Bool) (c : SCtx) (t : CSem.Ty) (v : Val) : Out := jnzArg cs c.ctx t v

theorem lowerJnz_eq (cs : Bool) {c : SCtx} (h : c.jump = none) (t : CSem.Ty) (v : Val) :
    lowerJnz cs c t v = ⟨(jnzOut cs c t v).items, (jnzOut cs c t v).val, c.upd (jnzOut cs c t v).ctx⟩ := by
  simp only [lowerJnz, funcopen_none h, List.nil_append, jnzOut]

@[simp] theorem upd_lastid (c : SCtx) (x : Ctx) : (c.upd x).lastid = x.lastid := rfl
@[simp] theorem upd_blockid (c : SCtx) (x : Ctx) : (c.upd x).blockid = x.blockid := rfl
@[simp] theorem upd_cur (c : SCtx) (x : Ctx) : (c.upd x).cur = x.cur := rfl
@[simp] theorem upd_jump (c : SCtx) (x : Ctx) : (c.upd x).jump = c.jump := rfl
@[simp] theorem upd_slots (c : SCtx) (x : Ctx) : (c.upd x).slots = c.slots := rfl
@[simp] theorem upd_ctx (c : SCtx) (x : Ctx) : (c.upd x).ctx = x := rfl
@[simp] theorem ctx_lastid (c : SCtx) : c.ctx.lastid = c.lastid := rfl
@[simp] theorem ctx_blockid (c : SCtx) : c.ctx.blockid = c.blockid := rfl
@[simp] theorem ctx_cur (c : SCtx) : c.ctx.cur = c.cur := rfl
@[simp] theorem atLabel_lastid (c : SCtx) (l : String) : (c.atLabel l).lastid = c.lastid := rfl
@[simp] theorem atLabel_blockid (c : SCtx) (l : String) : (c.atLabel l).blockid = c.blockid := rfl
@[simp] theorem atLabel_cur (c : SCtx) (l : String) : (c.atLabel l).cur = l := rfl
@[simp] theorem atLabel_jump (c : SCtx) (l : String) : (c.atLabel l).jump = none := rfl
@[simp] theorem atLabel_slots (c : SCtx) (l : String) : (c.atLabel l).slots = c.slots := rfl
@[simp] theorem addBlocks_lastid (c : SCtx) (n : Nat) : (c.addBlocks n).lastid = c.lastid := rfl
@[simp] theorem addBlocks_blockid (c : SCtx) (n : Nat) : (c.addBlocks n).blockid = c.blockid + n := rfl
@[simp] theorem addBlocks_cur (c : SCtx) (n : Nat) : (c.addBlocks n).cur = c.cur := rfl
@[simp] theorem addBlocks_jump (c : SCtx) (n : Nat) : (c.addBlocks n).jump = c.jump := rfl
@[simp] theorem addBlocks_slots (c : SCtx) (n : Nat) : (c.addBlocks n).slots = c.slots := rfl
@[simp] theorem setJump_lastid (c : SCtx) (j : Jump) : (c.setJump j).lastid = c.lastid := rfl
@[simp] theorem setJump_blockid (c : SCtx) (j : Jump) : (c.setJump j).blockid = c.blockid := rfl
@[simp] theorem setJump_cur (c : SCtx) (j : Jump) : (c.setJump j).cur = c.cur := rfl
@[simp] theorem setJump_jump (c : SCtx) (j : Jump) : (c.setJump j).jump = some (c.jump.getD j) := rfl
@[simp] theorem setJump_slots (c : SCtx) (j : Jump) : (c.setJump j).slots = c.slots := rfl

/-- unfold the context bookkeeping -/
macro "unf" loc:(Lean.Parser.Tactic.location)? : tactic =>
  `(tactic| try dsimp only [SCtx.atLabel, SCtx.upd, SCtx.addBlocks, SCtx.setJump, SCtx.ctx] $[$loc]?)

/-! ## What is known about the output of `funcstmt` -/

structure SGood (st : Stmt) (c : SCtx) (o : SOut) : Prop where
  lastid : c.lastid ≤ o.ctx.lastid
  blockid : c.blockid ≤ o.ctx.blockid
  labels : LabelsIn (fun j => c.blockid < j ∧ j ≤ o.ctx.blockid) (itemLabels o.items)
  cur : ∀ (ol : Open) (pre : List Item), curOf ol pre = c.cur → curOf ol (pre ++ o.items) = o.ctx.cur
  curOK : CurOK c.ctx → CurOK o.ctx.ctx
  jump : st.endsJump = false → o.ctx.jump = none
  sorted : ∀ new, o.ctx.slots = c.slots ++ new → new.Pairwise (· < ·)
  slots : ∃ new, o.ctx.slots = c.slots ++ new ∧ new.length = (declTys st).length ∧
    (∀ sl ∈ new, c.lastid < sl ∧ sl ≤ o.ctx.lastid) ∧ o.allocs = List.zipWith allocIns (declTys st) new

theorem sorted_of_eq {cs new new' : List Nat} (h : cs ++ new' = cs ++ new)
    (hs : new'.Pairwise (· < ·)) : new.Pairwise (· < ·) := by
  have := List.append_cancel_left h; subst this; exact hs

theorem sorted_append {a b : List Nat} {mid : Nat} (h1 : a.Pairwise (· < ·)) (h2 : b.Pairwise (· < ·))
    (ha : ∀ x ∈ a, x ≤ mid) (hb : ∀ x ∈ b, mid < x) : (a ++ b).Pairwise (· < ·) := by
  rw [List.pairwise_append]
  exact ⟨h1, h2, fun x hx y hy => by have := ha x hx; have := hb y hy; omega⟩

theorem curOK_mono {c : Ctx} {n : Nat} (h : CurOK c) (hn : c.blockid ≤ n) (l : Nat) :
    CurOK ⟨l, n, c.cur⟩ := by
  obtain ⟨name, j, h1, h2⟩ := h
  exact ⟨name, j, h1, by simp only; omega⟩

theorem curOK_label (name : String) (j n l : Nat) (h : j ≤ n) : CurOK ⟨l, n, lblName name j⟩ :=
  ⟨name, j, rfl, h⟩

/-- an expression between statements -/
theorem exprOut_good (cs : Bool) (c : SCtx) (e : Expr) : Good c.ctx (exprOut cs c e) :=
  funcexpr2_good cs c.slots e c.ctx

theorem exprOut3_good (cs : Bool) (c : SCtx) (e : Expr3) : Good c.ctx (exprOut3 cs c e) :=
  funcexpr3_good cs c.slots e c.ctx

theorem itemLabels_single_ins (i : Ins) : itemLabels [Item.ins i] = [] := rfl

theorem curOf_nil_append (ol : Open) (pre : List Item) : curOf ol (pre ++ []) = curOf ol pre := by
  rw [List.append_nil]

theorem initAddr_straight (c : Ctx) (slot : Nat) (t : CSem.Ty) (j : Nat) :
    Straight c (initAddr c slot t j) := by
  unfold initAddr
  split
  · exact Straight.refl _ _
  · exact funcinst_straight _ _ _ _

/-- the arguments of a call, lowered one after the other -/
theorem lowerArgs_good (cs : Bool) (σ : List Nat) (es : List Expr) :
    ∀ c : Ctx, c.lastid ≤ (lowerArgs cs σ es c).2.2.lastid ∧ c.blockid ≤ (lowerArgs cs σ es c).2.2.blockid ∧
      LabelsIn (fun j => c.blockid < j ∧ j ≤ (lowerArgs cs σ es c).2.2.blockid)
        (itemLabels (lowerArgs cs σ es c).1) ∧
      (∀ (ol : Open) (pre : List Item), curOf ol pre = c.cur →
        curOf ol (pre ++ (lowerArgs cs σ es c).1) = (lowerArgs cs σ es c).2.2.cur) ∧
      (CurOK c → CurOK (lowerArgs cs σ es c).2.2) := by
  induction es with
  | nil => intro c; exact ⟨Nat.le_refl _, Nat.le_refl _, LabelsIn.nil _, fun ol pre h => by simpa [lowerArgs] using h, id⟩
  | cons e es ih =>
    intro c
    have g := funcexpr2_good cs σ e c
    obtain ⟨l2, b2, lab2, cur2, ok2⟩ := ih (funcexpr2 cs σ e c).ctx
    simp only [lowerArgs]
    have l1 := g.lastid; have b1 := g.blockid
    refine ⟨by omega, by omega, ?_, ?_, fun h => ok2 (g.curOK h)⟩
    · rw [itemLabels_append]
      exact (g.labels.append lab2 (by intro j h1 h2; omega)).weaken (by intro j h; omega)
    · intro ol pre hp
      rw [← List.append_assoc]
      exact cur2 ol _ (g.cur ol pre hp)

/-- the address of an array element: the offset expression, then one `add` -/
theorem lowerAddr_good (cs : Bool) (σ : List Nat) (c : Ctx) (slot : Nat) (t : CSem.Ty) (idx : Expr) :
    c.lastid ≤ (lowerAddr cs σ c slot t idx).ctx.lastid ∧ c.blockid ≤ (lowerAddr cs σ c slot t idx).ctx.blockid ∧
      LabelsIn (fun j => c.blockid < j ∧ j ≤ (lowerAddr cs σ c slot t idx).ctx.blockid)
        (itemLabels (lowerAddr cs σ c slot t idx).items) ∧
      (∀ (ol : Open) (pre : List Item), curOf ol pre = c.cur →
        curOf ol (pre ++ (lowerAddr cs σ c slot t idx).items) = (lowerAddr cs σ c slot t idx).ctx.cur) ∧
      (CurOK c → CurOK (lowerAddr cs σ c slot t idx).ctx) := by
  have g := funcexpr2_good cs σ (offOf t idx) c
  simp only [lowerAddr, Out.seq, funcinst]
  have l1 := g.lastid; have b1 := g.blockid
  refine ⟨by show c.lastid ≤ _ + 1; omega, b1, ?_, ?_, ?_⟩
  · rw [itemLabels_append]
    simp only [itemLabels, List.append_nil]
    exact g.labels
  · intro ol pre hp
    rw [← List.append_assoc, curOf_ins]
    exact g.cur ol pre hp
  · intro hc
    obtain ⟨name, j, h1, h2⟩ := g.curOK hc
    exact ⟨name, j, h1, h2⟩

/-- counters and labels of the `casesearch` ladder -/
theorem ladder_good (w : Bool) (v : Val) (lab : Nat → String) (dl : String) (t : Tree.T) :
    ∀ c : Ctx, c.lastid ≤ (ladder w v lab dl t c).2.lastid ∧ c.blockid ≤ (ladder w v lab dl t c).2.blockid ∧
      LabelsIn (fun j => c.blockid < j ∧ j ≤ (ladder w v lab dl t c).2.blockid)
        (itemLabels (ladder w v lab dl t c).1) := by
  induction t with
  | nil => intro c; exact ⟨Nat.le_refl _, Nat.le_refl _, LabelsIn.nil _⟩
  | node k h l r ihl ihr =>
    intro c
    simp only [ladder]
    have gl := ihl ⟨c.lastid + 2, c.blockid + 3, lblName "switch_lt" (c.blockid + 2)⟩
    generalize hL : ladder w v lab dl l ⟨c.lastid + 2, c.blockid + 3, lblName "switch_lt" (c.blockid + 2)⟩ = L
      at gl ⊢
    have gr := ihr ⟨L.2.lastid, L.2.blockid, lblName "switch_gt" (c.blockid + 3)⟩
    generalize hR : ladder w v lab dl r ⟨L.2.lastid, L.2.blockid, lblName "switch_gt" (c.blockid + 3)⟩ = R
      at gr ⊢
    obtain ⟨l1, b1, g1⟩ := gl
    obtain ⟨l2, b2, g2⟩ := gr
    dsimp only at l1 b1 g1 l2 b2 g2
    refine ⟨by omega, by omega, ?_⟩
    simp only [List.cons_append, List.nil_append, itemLabels, itemLabels_append]
    have h0 := ((((LabelsIn.single (S := fun j => j = c.blockid + 1) "switch_ne" _ rfl).append
      (LabelsIn.single (S := fun j => j = c.blockid + 2) "switch_lt" _ rfl) ?_).append g1 ?_).append
      (LabelsIn.single (S := fun j => j = c.blockid + 3) "switch_gt" _ rfl) ?_).append g2 ?_
    · refine LabelsIn.weaken (by simpa using h0) ?_
      intro j h; omega
    · intro j h1 h2; omega
    · intro j h1 h2; omega
    · intro j h1 h2; omega
    · intro j h1 h2; omega

/-- the part of `for` after its head (condition and branch, or nothing) -/
theorem for_good (cs : Bool) (e : Option Expr3) (step b : Stmt)
    (ihs : ∀ (brk cont : String) (c : SCtx), c.jump = none → SGood step c (funcstmt cs brk cont step c))
    (ihb : ∀ (brk cont : String) (c : SCtx), c.jump = none → SGood b c (funcstmt cs brk cont b c))
    (brk cont : String) (c : SCtx) (hd : List Item × SCtx)
    (hl : c.lastid ≤ hd.2.lastid) (hbk : c.blockid + 4 ≤ hd.2.blockid)
    (hcur : hd.2.cur = lblName "for_body" (c.blockid + 2)) (hjmp : hd.2.jump = none)
    (hsl : hd.2.slots = c.slots)
    (hlab : ∃ L, itemLabels hd.1 = L ++ [lblName "for_body" (c.blockid + 2)] ∧
      LabelsIn (fun j => c.blockid + 4 < j ∧ j ≤ hd.2.blockid) L) :
    SGood (.for_ e step b) c
      ⟨[labelItem c (lblName "for_cond" (c.blockid + 1))] ++ hd.1 ++
          (funcstmt cs (lblName "for_join" (c.blockid + 4)) (lblName "for_cont" (c.blockid + 3)) b hd.2).items ++
          [labelItem (funcstmt cs (lblName "for_join" (c.blockid + 4)) (lblName "for_cont" (c.blockid + 3)) b
            hd.2).ctx (lblName "for_cont" (c.blockid + 3))] ++
          (funcstmt cs brk cont step ((funcstmt cs (lblName "for_join" (c.blockid + 4))
            (lblName "for_cont" (c.blockid + 3)) b hd.2).ctx.atLabel (lblName "for_cont" (c.blockid + 3)))).items ++
          [labelItem ((funcstmt cs brk cont step ((funcstmt cs (lblName "for_join" (c.blockid + 4))
            (lblName "for_cont" (c.blockid + 3)) b hd.2).ctx.atLabel
            (lblName "for_cont" (c.blockid + 3)))).ctx.setJump (.jmp (lblName "for_cond" (c.blockid + 1))))
            (lblName "for_join" (c.blockid + 4))],
        (funcstmt cs (lblName "for_join" (c.blockid + 4)) (lblName "for_cont" (c.blockid + 3)) b hd.2).allocs ++
          (funcstmt cs brk cont step ((funcstmt cs (lblName "for_join" (c.blockid + 4))
            (lblName "for_cont" (c.blockid + 3)) b hd.2).ctx.atLabel (lblName "for_cont" (c.blockid + 3)))).allocs,
        (funcstmt cs brk cont step ((funcstmt cs (lblName "for_join" (c.blockid + 4))
            (lblName "for_cont" (c.blockid + 3)) b hd.2).ctx.atLabel
            (lblName "for_cont" (c.blockid + 3)))).ctx.atLabel (lblName "for_join" (c.blockid + 4)), [], none⟩ := by
  have gb := ihb (lblName "for_join" (c.blockid + 4)) (lblName "for_cont" (c.blockid + 3)) hd.2 hjmp
  generalize hob : funcstmt cs (lblName "for_join" (c.blockid + 4)) (lblName "for_cont" (c.blockid + 3)) b
    hd.2 = ob at gb ⊢
  have gs := ihs brk cont (ob.ctx.atLabel (lblName "for_cont" (c.blockid + 3))) rfl
  generalize hos : funcstmt cs brk cont step (ob.ctx.atLabel (lblName "for_cont" (c.blockid + 3))) = os
    at gs ⊢
  have l3 := gb.lastid; have l4 := gs.lastid
  have b3 := gb.blockid; have b4 := gs.blockid
  obtain ⟨nb, hb1, hb2, hb3, hb4⟩ := gb.slots
  obtain ⟨ns, hs1, hs2, hs3, hs4⟩ := gs.slots
  obtain ⟨L, hL1, hL2⟩ := hlab
  unf at *
  refine ⟨by unf; omega, by unf; omega, ?_, ?_, ?_,
    fun _ => rfl, ?_, nb ++ ns, ?_, by simp [declTys, hb2, hs2], ?_, ?_⟩
  · simp only [itemLabels_append, itemLabels, labelItem, List.append_nil, List.nil_append, hL1,
      List.singleton_append]
    have h0 := ((((((LabelsIn.single (S := fun j => j = c.blockid + 1) "for_cond" _ rfl).append
      hL2 ?_).append (LabelsIn.single (S := fun j => j = c.blockid + 2) "for_body" _ rfl) ?_).append
      gb.labels ?_).append (LabelsIn.single (S := fun j => j = c.blockid + 3) "for_cont" _ rfl) ?_).append
      gs.labels ?_).append (LabelsIn.single (S := fun j => j = c.blockid + 4) "for_join" _ rfl) ?_
    · refine LabelsIn.weaken (by simpa using h0) ?_
      intro j h
      unf at h ⊢
      omega
    · intro j h1 h2; omega
    · intro j h1 h2; omega
    · intro j h1 h2; omega
    · intro j h1 h2; omega
    · intro j h1 h2; unf at h2; omega
    · intro j h1 h2; unf at h1; omega
  · intro ol pre hp
    simp only [← List.append_assoc, labelItem]
    exact curOf_lbl _ _ _ _ _
  · intro _
    unf
    exact curOK_label "for_join" _ _ _ (by unf; omega)
  · intro new hnew
    have hnew' : os.ctx.slots = c.slots ++ new := hnew
    rw [hs1, hb1, hsl, List.append_assoc] at hnew'
    have := List.append_cancel_left hnew'; subst this
    exact sorted_append (mid := ob.ctx.lastid) (gb.sorted nb hb1) (gs.sorted ns hs1)
      (fun x hx => (hb3 x hx).2) (fun x hx => (hs3 x hx).1)
  · show os.ctx.slots = _
    rw [hs1, hb1, hsl, List.append_assoc]
  · intro sl hsl'
    unf
    rcases List.mem_append.1 hsl' with h | h
    · have := hb3 sl h; omega
    · have := hs3 sl h; omega
  · show ob.allocs ++ os.allocs = _
    rw [hb4, hs4, declTys, List.zipWith_append hb2.symm]

theorem funcstmt_good' (cs : Bool) (st : Stmt) : ∀ (brk cont : String) (c : SCtx),
    (c.jump = none ∨ st.startsLabel = true) →
    noDead st = true → SGood st c (funcstmt cs brk cont st c) := by
  induction st with
  | skip =>
    intro brk cont c hj0 _
    have hj : c.jump = none := by
      rcases hj0 with h | h
      · exact h
      · simp [Stmt.startsLabel] at h
    clear hj0
    exact ⟨Nat.le_refl _, Nat.le_refl _, LabelsIn.nil _, fun ol pre h => by simpa [funcstmt] using h,
      id, fun _ => hj, fun new h => sorted_of_eq (new' := []) (by rw [List.append_nil]; exact h) List.Pairwise.nil, [], by simp [funcstmt], rfl, by simp, rfl⟩
  | decl i t init =>
    intro brk cont c hj0 _
    have hj : c.jump = none := by
      rcases hj0 with h | h
      · exact h
      · simp [Stmt.startsLabel] at h
    clear hj0
    cases init with
    | none =>
      refine ⟨Nat.le_succ _, Nat.le_refl _, LabelsIn.nil _, fun ol pre h => by simpa [funcstmt] using h,
        id, fun _ => hj, fun new h => sorted_of_eq (new' := [c.lastid + 1]) h (List.pairwise_singleton _ _), [c.lastid + 1], rfl, rfl, ?_, rfl⟩
      intro sl hsl
      simp only [List.mem_singleton] at hsl
      subst hsl
      exact ⟨Nat.lt_succ_self _, Nat.le_refl _⟩
    | some e =>
      have hj1 : (⟨c.lastid + 1, c.blockid, c.cur, c.jump, c.slots ++ [c.lastid + 1]⟩ : SCtx).jump = none := hj
      have g := exprOut3_good cs ⟨c.lastid + 1, c.blockid, c.cur, c.jump, c.slots ++ [c.lastid + 1]⟩ e
      simp only [funcstmt, lowerE3_eq cs hj1]
      have gl := g.lastid
      simp only [ctx_lastid] at gl
      refine ⟨by unf; omega, g.blockid, ?_, ?_, ?_, fun _ => hj, fun new h => sorted_of_eq (new' := [c.lastid + 1]) h (List.pairwise_singleton _ _),
        [c.lastid + 1], rfl, rfl, ?_, rfl⟩
      · simp only [itemLabels_append, storeIns, itemLabels_single_ins, List.append_nil]
        exact g.labels
      · intro ol pre hp
        rw [← List.append_assoc, storeIns, curOf_ins]
        exact g.cur ol pre hp
      · intro hc
        exact g.curOK hc
      · intro sl hsl
        simp only [List.mem_singleton] at hsl
        subst hsl
        simp only [upd_lastid]
        omega
  | assign i t e =>
    intro brk cont c hj0 _
    have hj : c.jump = none := by
      rcases hj0 with h | h
      · exact h
      · simp [Stmt.startsLabel] at h
    clear hj0
    have g := exprOut3_good cs c e
    simp only [funcstmt, lowerE3_eq cs hj]
    refine ⟨g.lastid, g.blockid, ?_, ?_, g.curOK, fun _ => hj, fun new h => sorted_of_eq (new' := []) (by rw [List.append_nil]; exact h) List.Pairwise.nil, [], by simp, rfl, by simp, rfl⟩
    · simp only [itemLabels_append, storeIns, itemLabels_single_ins, List.append_nil]
      exact g.labels
    · intro ol pre hp
      rw [← List.append_assoc, storeIns, curOf_ins]
      exact g.cur ol pre hp
  | incdec i t inc =>
    intro brk cont c hj0 _
    have hj : c.jump = none := by
      rcases hj0 with h | h
      · exact h
      · simp [Stmt.startsLabel] at h
    clear hj0
    simp only [funcstmt, funcopen_none hj, List.nil_append]
    have s1 := funcinst_straight c.ctx (.load (loadOf cs t)) (cls t) [.tmp (tmpName (c.slots.getD i 0))]
    have s2 := funcinst_straight (funcinst c.ctx (.load (loadOf cs t)) (cls t)
      [.tmp (tmpName (c.slots.getD i 0))]).ctx (if inc = true then Op.add else Op.sub) (cls t)
      [(funcinst c.ctx (.load (loadOf cs t)) (cls t) [.tmp (tmpName (c.slots.getD i 0))]).val, .int 1]
    generalize hol : funcinst c.ctx (.load (loadOf cs t)) (cls t) [.tmp (tmpName (c.slots.getD i 0))] = ol
      at s1 s2 ⊢
    generalize hoa : funcinst ol.ctx (if inc = true then Op.add else Op.sub) (cls t) [ol.val, .int 1] = oa
      at s2 ⊢
    have s3 : Straight oa.ctx (if t = .bool then convert cs oa.ctx .bool .int oa.val
        else ⟨[], oa.val, oa.ctx⟩) := by
      split
      · exact convert_straight _ _ _ _ _
      · exact Straight.refl _ _
    generalize hov : (if t = .bool then convert cs oa.ctx .bool .int oa.val else ⟨[], oa.val, oa.ctx⟩) = ov
      at s3 ⊢
    have l1 := s1.lastid; have l2 := s2.lastid; have l3 := s3.lastid
    have b1 := s1.blockid; have b2 := s2.blockid; have b3 := s3.blockid
    have c1 := s1.cur; have c2 := s2.cur; have c3 := s3.cur
    simp only [ctx_lastid, ctx_blockid, ctx_cur] at l1 b1 c1
    refine ⟨by unf; omega, by unf; omega, ?_, ?_, ?_, fun _ => hj, fun new h => sorted_of_eq (new' := []) (by rw [List.append_nil]; exact h) List.Pairwise.nil,
      [], by simp, rfl, by simp, rfl⟩
    · simp only [itemLabels_append, storeIns, itemLabels_single_ins, itemLabels_allIns _ s1.allIns,
        itemLabels_allIns _ s2.allIns, itemLabels_allIns _ s3.allIns, List.append_nil]
      exact LabelsIn.nil _
    · intro ol' pre hp
      rw [← List.append_assoc, ← List.append_assoc, ← List.append_assoc, storeIns, curOf_ins,
        curOf_append_allIns _ _ _ s3.allIns, curOf_append_allIns _ _ _ s2.allIns,
        curOf_append_allIns _ _ _ s1.allIns, hp]
      simp only [upd_cur]
      rw [c3, c2, c1]
    · intro hc
      obtain ⟨name, j, h1, h2⟩ := hc
      simp only [ctx_cur, ctx_blockid] at h1 h2
      exact ⟨name, j, by simp only [upd_ctx]; rw [c3, c2, c1, h1], by unf; omega⟩
  | expr e =>
    intro brk cont c hj0 _
    have hj : c.jump = none := by
      rcases hj0 with h | h
      · exact h
      · simp [Stmt.startsLabel] at h
    clear hj0
    have g := exprOut3_good cs c e
    simp only [funcstmt, lowerE3_eq cs hj]
    exact ⟨g.lastid, g.blockid, g.labels, g.cur, g.curOK, fun _ => hj, fun new h => sorted_of_eq (new' := []) (by rw [List.append_nil]; exact h) List.Pairwise.nil, [], by simp, rfl, by simp, rfl⟩
  | ret e =>
    intro brk cont c hj0 _
    have hj : c.jump = none := by
      rcases hj0 with h | h
      · exact h
      · simp [Stmt.startsLabel] at h
    clear hj0
    have g := exprOut3_good cs c e
    simp only [funcstmt, lowerE3_eq cs hj]
    exact ⟨g.lastid, g.blockid, g.labels, g.cur, g.curOK, fun h => by simp [Stmt.endsJump] at h, fun new h => sorted_of_eq (new' := []) (by rw [List.append_nil]; exact h) List.Pairwise.nil,
      [], by simp, rfl, by simp, rfl⟩
  | seq a b iha ihb =>
    intro brk cont c hj hnd
    simp only [noDead, Bool.and_eq_true, Bool.or_eq_true, Bool.not_eq_true'] at hnd
    obtain ⟨⟨hea, hna⟩, hnb⟩ := hnd
    have ga := iha brk cont c (by simpa [Stmt.startsLabel] using hj) hna
    have hjb : (funcstmt cs brk cont a c).ctx.jump = none ∨ b.startsLabel = true := by
      rcases hea with h | h
      · exact Or.inl (ga.jump h)
      · exact Or.inr h
    have gb := ihb brk cont _ hjb hnb
    simp only [funcstmt]
    obtain ⟨na, ha1, ha2, ha3, ha4⟩ := ga.slots
    obtain ⟨nb, hb1, hb2, hb3, hb4⟩ := gb.slots
    have la := ga.lastid; have lb := gb.lastid; have ba := ga.blockid; have bb := gb.blockid
    refine ⟨by dsimp only; omega, by dsimp only; omega, ?_, ?_, fun h => gb.curOK (ga.curOK h), ?_, ?_,
      na ++ nb, ?_, ?_, ?_, ?_⟩
    · rw [itemLabels_append]
      exact (ga.labels.append gb.labels (by intro j h1 h2; omega)).weaken
        (by intro j h; dsimp only at h ⊢; omega)
    · intro ol pre hp
      rw [← List.append_assoc]
      exact gb.cur ol _ (ga.cur ol pre hp)
    · intro h
      exact gb.jump (by simpa [Stmt.endsJump] using h)
    · intro new hnew
      have hnew' : (funcstmt cs brk cont b (funcstmt cs brk cont a c).ctx).ctx.slots = c.slots ++ new := hnew
      rw [hb1, ha1, List.append_assoc] at hnew'
      have := List.append_cancel_left hnew'; subst this
      exact sorted_append (mid := (funcstmt cs brk cont a c).ctx.lastid) (ga.sorted na ha1) (gb.sorted nb hb1)
        (fun x hx => (ha3 x hx).2) (fun x hx => (hb3 x hx).1)
    · rw [hb1, ha1, List.append_assoc]
    · simp [declTys, ha2, hb2]
    · intro sl hsl
      dsimp only
      rcases List.mem_append.1 hsl with h | h
      · have := ha3 sl h; omega
      · have := hb3 sl h; omega
    · rw [ha4, hb4, declTys, List.zipWith_append ha2.symm]
  | ite e a iha =>
    intro brk cont c hj0 hnd
    have hj : c.jump = none := by
      rcases hj0 with h | h
      · exact h
      · simp [Stmt.startsLabel] at h
    clear hj0
    simp only [noDead] at hnd
    have ge := exprOut3_good cs c e
    simp only [funcstmt, lowerE3_eq cs hj]
    have hj2 : ((c.upd (exprOut3 cs c e).ctx).addBlocks 2).jump = none := hj
    simp only [lowerJnz_eq cs hj2]
    have sj := jnzArg_straight cs ((c.upd (exprOut3 cs c e).ctx).addBlocks 2).ctx e.ty (exprOut3 cs c e).val
    have ga := iha brk cont (((c.upd (exprOut3 cs c e).ctx).addBlocks 2).upd
      (jnzOut cs ((c.upd (exprOut3 cs c e).ctx).addBlocks 2) e.ty (exprOut3 cs c e).val).ctx |>.atLabel
        (lblName "if_true" ((c.upd (exprOut3 cs c e).ctx).blockid + 1))) (Or.inl rfl) hnd
    generalize hoe : exprOut3 cs c e = oe at ge sj ga ⊢
    change Straight _ (jnzOut cs ((c.upd oe.ctx).addBlocks 2) e.ty oe.val) at sj
    generalize hoj : jnzOut cs ((c.upd oe.ctx).addBlocks 2) e.ty oe.val = oj at sj ga ⊢
    generalize hoa : funcstmt cs brk cont a ((((c.upd oe.ctx).addBlocks 2).upd oj.ctx).atLabel
      (lblName "if_true" ((c.upd oe.ctx).blockid + 1))) = oa at ga ⊢
    have l1 := ge.lastid; have l2 := sj.lastid; have l3 := ga.lastid
    have b1 := ge.blockid; have b2 := sj.blockid; have b3 := ga.blockid
    obtain ⟨na, ha1, ha2, ha3, ha4⟩ := ga.slots
    unf at *
    refine ⟨by unf; omega, by unf; omega, ?_, ?_, ?_,
      fun _ => rfl, fun new h => ga.sorted new h, na, ha1, by simpa [declTys] using ha2, ?_, by simpa [declTys] using ha4⟩
    · simp only [itemLabels_append, itemLabels, labelItem, itemLabels_allIns _ sj.allIns, List.append_nil,
        upd_blockid, atLabel_blockid]
      refine ((((ge.labels.append (LabelsIn.single "if_true" _ rfl) ?_).append ga.labels ?_).append
        (LabelsIn.single "if_false" _ rfl) ?_)).weaken ?_
      · intro j h1 h2; unf at h1; omega
      · intro j h1 h2
        unf at h1 h2
        omega
      · intro j h1 h2
        unf at h1
        omega
      · intro j h
        unf at h ⊢
        omega
    · intro ol pre hp
      simp only [← List.append_assoc, labelItem]
      exact curOf_lbl _ _ _ _ _
    · intro _
      unf
      exact curOK_label "if_false" _ _ _ (by unf; omega)
    · intro sl hsl
      unf
      have := ha3 sl hsl; omega
  | itee e a b iha ihb =>
    intro brk cont c hj0 hnd
    have hj : c.jump = none := by
      rcases hj0 with h | h
      · exact h
      · simp [Stmt.startsLabel] at h
    clear hj0
    simp only [noDead, Bool.and_eq_true] at hnd
    have ge := exprOut3_good cs c e
    simp only [funcstmt, lowerE3_eq cs hj]
    have hj2 : ((c.upd (exprOut3 cs c e).ctx).addBlocks 2).jump = none := hj
    simp only [lowerJnz_eq cs hj2]
    have sj := jnzArg_straight cs ((c.upd (exprOut3 cs c e).ctx).addBlocks 2).ctx e.ty (exprOut3 cs c e).val
    have ga := iha brk cont (((c.upd (exprOut3 cs c e).ctx).addBlocks 2).upd
      (jnzOut cs ((c.upd (exprOut3 cs c e).ctx).addBlocks 2) e.ty (exprOut3 cs c e).val).ctx |>.atLabel
        (lblName "if_true" ((c.upd (exprOut3 cs c e).ctx).blockid + 1))) (Or.inl rfl) hnd.1
    generalize hoe : exprOut3 cs c e = oe at ge sj ga ⊢
    change Straight _ (jnzOut cs ((c.upd oe.ctx).addBlocks 2) e.ty oe.val) at sj
    generalize hoj : jnzOut cs ((c.upd oe.ctx).addBlocks 2) e.ty oe.val = oj at sj ga ⊢
    generalize hoa : funcstmt cs brk cont a ((((c.upd oe.ctx).addBlocks 2).upd oj.ctx).atLabel
      (lblName "if_true" ((c.upd oe.ctx).blockid + 1))) = oa at ga ⊢
    have gb := ihb brk cont (((oa.ctx.addBlocks 1).setJump (.jmp (lblName "if_join" (oa.ctx.blockid + 1)))).atLabel
      (lblName "if_false" ((c.upd oe.ctx).blockid + 2))) (Or.inl rfl) hnd.2
    generalize hob : funcstmt cs brk cont b (((oa.ctx.addBlocks 1).setJump
      (.jmp (lblName "if_join" (oa.ctx.blockid + 1)))).atLabel
      (lblName "if_false" ((c.upd oe.ctx).blockid + 2))) = ob at gb ⊢
    have l1 := ge.lastid; have l2 := sj.lastid; have l3 := ga.lastid; have l4 := gb.lastid
    have b1 := ge.blockid; have b2 := sj.blockid; have b3 := ga.blockid; have b4 := gb.blockid
    obtain ⟨na, ha1, ha2, ha3, ha4⟩ := ga.slots
    obtain ⟨nb, hb1, hb2, hb3, hb4⟩ := gb.slots
    unf at *
    refine ⟨by unf; omega, by unf; omega, ?_, ?_, ?_,
      fun _ => rfl, ?_, na ++ nb, ?_, by simp [declTys, ha2, hb2], ?_, ?_⟩
    · simp only [itemLabels_append, itemLabels, labelItem, itemLabels_allIns _ sj.allIns, List.append_nil,
        upd_blockid, atLabel_blockid]
      refine ((((((ge.labels.append (LabelsIn.single "if_true" _ rfl) ?_).append ga.labels ?_).append
        (LabelsIn.single "if_false" _ rfl) ?_).append gb.labels ?_).append
        (LabelsIn.single "if_join" _ rfl) ?_)).weaken ?_
      · intro j h1 h2; unf at h1; omega
      · intro j h1 h2
        unf at h1 h2
        omega
      · intro j h1 h2
        unf at h1
        omega
      · intro j h1 h2
        unf at h1 h2
        omega
      · intro j h1 h2
        unf at h1
        omega
      · intro j h
        unf at h ⊢
        omega
    · intro ol pre hp
      simp only [← List.append_assoc, labelItem]
      exact curOf_lbl _ _ _ _ _
    · intro _
      unf
      exact curOK_label "if_join" _ _ _ (by omega)
    · intro new hnew
      have hnew' : ob.ctx.slots = c.slots ++ new := hnew
      rw [hb1, ha1, List.append_assoc] at hnew'
      have := List.append_cancel_left hnew'; subst this
      exact sorted_append (mid := oa.ctx.lastid) (ga.sorted na ha1) (gb.sorted nb hb1)
        (fun x hx => (ha3 x hx).2) (fun x hx => (hb3 x hx).1)
    · rw [hb1, ha1, List.append_assoc]
    · intro sl hsl
      unf
      rcases List.mem_append.1 hsl with h | h
      · have := ha3 sl h; omega
      · have := hb3 sl h; omega
    · rw [ha4, hb4, declTys, List.zipWith_append ha2.symm]
  | while_ e b ihb =>
    intro brk cont c hj0 hnd
    have hj : c.jump = none := by
      rcases hj0 with h | h
      · exact h
      · simp [Stmt.startsLabel] at h
    clear hj0
    simp only [noDead] at hnd
    have hj1 : ((c.addBlocks 3).atLabel (lblName "while_cond" (c.blockid + 1))).jump = none := rfl
    have ge := exprOut3_good cs ((c.addBlocks 3).atLabel (lblName "while_cond" (c.blockid + 1))) e
    simp only [funcstmt, lowerE3_eq cs hj1]
    have hj2 : (((c.addBlocks 3).atLabel (lblName "while_cond" (c.blockid + 1))).upd
      (exprOut3 cs ((c.addBlocks 3).atLabel (lblName "while_cond" (c.blockid + 1))) e).ctx).jump = none := rfl
    simp only [lowerJnz_eq cs hj2]
    generalize hoe : exprOut3 cs ((c.addBlocks 3).atLabel (lblName "while_cond" (c.blockid + 1))) e = oe
      at ge ⊢
    have sj := jnzArg_straight cs (((c.addBlocks 3).atLabel (lblName "while_cond" (c.blockid + 1))).upd
      oe.ctx).ctx e.ty oe.val
    change Straight _ (jnzOut cs (((c.addBlocks 3).atLabel (lblName "while_cond" (c.blockid + 1))).upd
      oe.ctx) e.ty oe.val) at sj
    generalize hoj : jnzOut cs (((c.addBlocks 3).atLabel (lblName "while_cond" (c.blockid + 1))).upd
      oe.ctx) e.ty oe.val = oj at sj ⊢
    have gb := ihb (lblName "while_join" (c.blockid + 3)) (lblName "while_cond" (c.blockid + 1))
      (((((c.addBlocks 3).atLabel (lblName "while_cond" (c.blockid + 1))).upd oe.ctx).upd oj.ctx).atLabel
        (lblName "while_body" (c.blockid + 2))) (Or.inl rfl) hnd
    generalize hob : funcstmt cs (lblName "while_join" (c.blockid + 3)) (lblName "while_cond" (c.blockid + 1))
      b (((((c.addBlocks 3).atLabel (lblName "while_cond" (c.blockid + 1))).upd oe.ctx).upd oj.ctx).atLabel
        (lblName "while_body" (c.blockid + 2))) = ob at gb ⊢
    have l1 := ge.lastid; have l2 := sj.lastid; have l3 := gb.lastid
    have b1 := ge.blockid; have b2 := sj.blockid; have b3 := gb.blockid
    obtain ⟨nb, hb1, hb2, hb3, hb4⟩ := gb.slots
    unf at *
    refine ⟨by unf; omega, by unf; omega, ?_, ?_, ?_,
      fun _ => rfl, fun new h => gb.sorted new h, nb, hb1, by simpa [declTys] using hb2, ?_, by simpa [declTys] using hb4⟩
    · simp only [itemLabels_append, itemLabels, labelItem, itemLabels_allIns _ sj.allIns, List.append_nil,
        List.nil_append, upd_blockid, atLabel_blockid, List.singleton_append]
      have h0 := ((((LabelsIn.single (S := fun j => j = c.blockid + 1) "while_cond" _ rfl).append
        ge.labels ?_).append (LabelsIn.single (S := fun j => j = c.blockid + 2) "while_body" _ rfl) ?_).append
        gb.labels ?_).append (LabelsIn.single (S := fun j => j = c.blockid + 3) "while_join" _ rfl) ?_
      · refine LabelsIn.weaken (by simpa using h0) ?_
        intro j h
        unf at h ⊢
        omega
      · intro j h1 h2; unf at h2; omega
      · intro j h1 h2; unf at h1; omega
      · intro j h1 h2
        unf at h1 h2
        omega
      · intro j h1 h2
        unf at h1
        omega
    · intro ol pre hp
      simp only [← List.append_assoc, labelItem]
      exact curOf_lbl _ _ _ _ _
    · intro _
      unf
      exact curOK_label "while_join" _ _ _ (by omega)
    · intro sl hsl
      unf
      have := hb3 sl hsl; omega
  | dowhile b e ihb =>
    intro brk cont c hj0 hnd
    have hj : c.jump = none := by
      rcases hj0 with h | h
      · exact h
      · simp [Stmt.startsLabel] at h
    clear hj0
    simp only [noDead] at hnd
    have gb := ihb (lblName "do_join" (c.blockid + 3)) (lblName "do_cond" (c.blockid + 2))
      ((c.addBlocks 3).atLabel (lblName "do_body" (c.blockid + 1))) (Or.inl rfl) hnd
    simp only [funcstmt]
    generalize hob : funcstmt cs (lblName "do_join" (c.blockid + 3)) (lblName "do_cond" (c.blockid + 2)) b
      ((c.addBlocks 3).atLabel (lblName "do_body" (c.blockid + 1))) = ob at gb ⊢
    have hj1 : (ob.ctx.atLabel (lblName "do_cond" (c.blockid + 2))).jump = none := rfl
    have ge := exprOut3_good cs (ob.ctx.atLabel (lblName "do_cond" (c.blockid + 2))) e
    simp only [lowerE3_eq cs hj1]
    have hj2 : ((ob.ctx.atLabel (lblName "do_cond" (c.blockid + 2))).upd
      (exprOut3 cs (ob.ctx.atLabel (lblName "do_cond" (c.blockid + 2))) e).ctx).jump = none := rfl
    simp only [lowerJnz_eq cs hj2]
    generalize hoe : exprOut3 cs (ob.ctx.atLabel (lblName "do_cond" (c.blockid + 2))) e = oe at ge ⊢
    have sj := jnzArg_straight cs ((ob.ctx.atLabel (lblName "do_cond" (c.blockid + 2))).upd oe.ctx).ctx
      e.ty oe.val
    change Straight _ (jnzOut cs ((ob.ctx.atLabel (lblName "do_cond" (c.blockid + 2))).upd oe.ctx)
      e.ty oe.val) at sj
    generalize hoj : jnzOut cs ((ob.ctx.atLabel (lblName "do_cond" (c.blockid + 2))).upd oe.ctx)
      e.ty oe.val = oj at sj ⊢
    have l1 := ge.lastid; have l2 := sj.lastid; have l3 := gb.lastid
    have b1 := ge.blockid; have b2 := sj.blockid; have b3 := gb.blockid
    obtain ⟨nb, hb1, hb2, hb3, hb4⟩ := gb.slots
    unf at *
    refine ⟨by unf; omega, by unf; omega,
      ?_, ?_, ?_, fun _ => rfl, fun new h => gb.sorted new (by unf at h ⊢; exact h), nb, by simpa using hb1, by simpa [declTys] using hb2, ?_,
      by simpa [declTys] using hb4⟩
    · simp only [itemLabels_append, itemLabels, labelItem, itemLabels_allIns _ sj.allIns, List.append_nil,
        List.nil_append, upd_blockid, atLabel_blockid, List.singleton_append]
      have h0 := ((((LabelsIn.single (S := fun j => j = c.blockid + 1) "do_body" _ rfl).append
        gb.labels ?_).append (LabelsIn.single (S := fun j => j = c.blockid + 2) "do_cond" _ rfl) ?_).append
        ge.labels ?_).append (LabelsIn.single (S := fun j => j = c.blockid + 3) "do_join" _ rfl) ?_
      · refine LabelsIn.weaken (by simpa using h0) ?_
        intro j h
        unf at h ⊢
        omega
      · intro j h1 h2; unf at h2; omega
      · intro j h1 h2; unf at h1; omega
      · intro j h1 h2
        unf at h1 h2
        omega
      · intro j h1 h2
        unf at h1
        omega
    · intro ol pre hp
      simp only [← List.append_assoc, labelItem]
      exact curOf_lbl _ _ _ _ _
    · intro _
      unf
      exact curOK_label "do_join" _ _ _ (by unf; omega)
    · intro sl hsl
      unf
      have := hb3 sl hsl; omega
  | for_ e step b ihs ihb =>
    intro brk cont c hj0 hnd
    have hj : c.jump = none := by
      rcases hj0 with h | h
      · exact h
      · simp [Stmt.startsLabel] at h
    clear hj0
    simp only [noDead, Bool.and_eq_true] at hnd
    have hsn : noDead step = true := by
      cases step <;> simp [Stmt.isSimple] at hnd <;> rfl
    cases e with
    | none =>
      simp only [funcstmt]
      exact for_good cs none step b (fun br co c' h => ihs br co c' (Or.inl h) hsn) (fun br co c' h => ihb br co c' (Or.inl h) hnd.2)
        brk cont c ([Item.lbl none (lblName "for_body" (c.blockid + 2)) []],
          ((c.addBlocks 4).atLabel (lblName "for_cond" (c.blockid + 1))).atLabel
            (lblName "for_body" (c.blockid + 2)))
        (Nat.le_refl _) (Nat.le_refl _) rfl rfl rfl ⟨[], rfl, LabelsIn.nil _⟩
    | some e =>
      simp only [funcstmt]
      have hj1 : ((c.addBlocks 4).atLabel (lblName "for_cond" (c.blockid + 1))).jump = none := rfl
      have ge := exprOut3_good cs ((c.addBlocks 4).atLabel (lblName "for_cond" (c.blockid + 1))) e
      simp only [lowerE3_eq cs hj1]
      have hj2 : (((c.addBlocks 4).atLabel (lblName "for_cond" (c.blockid + 1))).upd
        (exprOut3 cs ((c.addBlocks 4).atLabel (lblName "for_cond" (c.blockid + 1))) e).ctx).jump = none := rfl
      simp only [lowerJnz_eq cs hj2]
      generalize hoe : exprOut3 cs ((c.addBlocks 4).atLabel (lblName "for_cond" (c.blockid + 1))) e = oe
        at ge ⊢
      have sj := jnzArg_straight cs (((c.addBlocks 4).atLabel (lblName "for_cond" (c.blockid + 1))).upd
        oe.ctx).ctx e.ty oe.val
      change Straight _ (jnzOut cs (((c.addBlocks 4).atLabel (lblName "for_cond" (c.blockid + 1))).upd
        oe.ctx) e.ty oe.val) at sj
      generalize hoj : jnzOut cs (((c.addBlocks 4).atLabel (lblName "for_cond" (c.blockid + 1))).upd
        oe.ctx) e.ty oe.val = oj at sj ⊢
      have l1 := ge.lastid; have l2 := sj.lastid
      have b1 := ge.blockid; have b2 := sj.blockid
      unf at l1 l2 b1 b2
      refine for_good cs (some e) step b (fun br co c' h => ihs br co c' (Or.inl h) hsn)
        (fun br co c' h => ihb br co c' (Or.inl h) hnd.2) brk cont c
        (oe.items ++ oj.items ++ [Item.lbl (some (.jnz oj.val (lblName "for_body" (c.blockid + 2))
          (lblName "for_join" (c.blockid + 4)))) (lblName "for_body" (c.blockid + 2)) []],
         ((((c.addBlocks 4).atLabel (lblName "for_cond" (c.blockid + 1))).upd oe.ctx).upd oj.ctx).atLabel
          (lblName "for_body" (c.blockid + 2))) (by unf; omega) (by unf; omega) rfl rfl rfl
        ⟨itemLabels oe.items, ?_, ?_⟩
      · simp only [itemLabels_append, itemLabels, itemLabels_allIns _ sj.allIns, List.append_nil]
      · refine ge.labels.weaken ?_
        intro j h
        unf at h ⊢
        omega
  | break_ =>
    intro brk cont c hj0 _
    have hj : c.jump = none := by
      rcases hj0 with h | h
      · exact h
      · simp [Stmt.startsLabel] at h
    clear hj0
    exact ⟨Nat.le_refl _, Nat.le_refl _, LabelsIn.nil _, fun ol pre h => by simpa [funcstmt] using h,
      id, fun h => by simp [Stmt.endsJump] at h, fun new h => sorted_of_eq (new' := []) (by rw [List.append_nil]; exact h) List.Pairwise.nil, [], by simp [funcstmt], rfl, by simp, rfl⟩
  | continue_ =>
    intro brk cont c hj0 _
    have hj : c.jump = none := by
      rcases hj0 with h | h
      · exact h
      · simp [Stmt.startsLabel] at h
    clear hj0
    exact ⟨Nat.le_refl _, Nat.le_refl _, LabelsIn.nil _, fun ol pre h => by simpa [funcstmt] using h,
      id, fun h => by simp [Stmt.endsJump] at h, fun new h => sorted_of_eq (new' := []) (by rw [List.append_nil]; exact h) List.Pairwise.nil, [], by simp [funcstmt], rfl, by simp, rfl⟩
  | case_ u =>
    intro brk cont c _ _
    simp only [funcstmt]
    refine ⟨Nat.le_refl _, by unf; omega, ?_, ?_, ?_, fun _ => rfl,
      fun new h => sorted_of_eq (new' := []) (by rw [List.append_nil]; exact h) List.Pairwise.nil,
      [], by unf; simp, rfl, by simp, rfl⟩
    · simp only [itemLabels, labelItem]
      exact (LabelsIn.single "switch_case" _ (by unf; omega))
    · intro ol pre hp
      exact curOf_lbl _ _ _ _ _
    · intro _
      unf
      exact curOK_label "switch_case" _ _ _ (Nat.le_refl _)
  | default_ =>
    intro brk cont c _ _
    simp only [funcstmt]
    refine ⟨Nat.le_refl _, by unf; omega, ?_, ?_, ?_, fun _ => rfl,
      fun new h => sorted_of_eq (new' := []) (by rw [List.append_nil]; exact h) List.Pairwise.nil,
      [], by unf; simp, rfl, by simp, rfl⟩
    · simp only [itemLabels, labelItem]
      exact (LabelsIn.single "switch_default" _ (by unf; omega))
    · intro ol pre hp
      exact curOf_lbl _ _ _ _ _
    · intro _
      unf
      exact curOK_label "switch_default" _ _ _ (Nat.le_refl _)
  | switch_ e b ihb =>
    intro brk cont c hj0 hnd
    have hj : c.jump = none := by
      rcases hj0 with h | h
      · exact h
      · simp [Stmt.startsLabel] at h
    clear hj0
    simp only [noDead, Bool.and_eq_true] at hnd
    have hj1 : (c.addBlocks 2).jump = none := hj
    have ge := exprOut3_good cs (c.addBlocks 2) e
    simp only [funcstmt, lowerE3_eq cs hj1]
    generalize hoe : exprOut3 cs (c.addBlocks 2) e = oe at ge ⊢
    have gb := ihb (lblName "switch_join" (c.blockid + 2)) cont
      (((c.addBlocks 2).upd oe.ctx).setJump (.jmp (lblName "switch_cond" (c.blockid + 1)))) (Or.inr hnd.1) hnd.2
    generalize hob : funcstmt cs (lblName "switch_join" (c.blockid + 2)) cont b
      (((c.addBlocks 2).upd oe.ctx).setJump (.jmp (lblName "switch_cond" (c.blockid + 1)))) = ob at gb ⊢
    have gl := ladder_good (decide (e.ty.size ≤ 4)) oe.val
      (caseLabel e.ty ob.cases (ob.dflt.getD (lblName "switch_join" (c.blockid + 2))))
      (ob.dflt.getD (lblName "switch_join" (c.blockid + 2))) (switchTree e.ty ob.cases)
      (((ob.ctx.setJump (.jmp (lblName "switch_join" (c.blockid + 2)))).atLabel
        (lblName "switch_cond" (c.blockid + 1))).ctx)
    generalize hlad : ladder (decide (e.ty.size ≤ 4)) oe.val
      (caseLabel e.ty ob.cases (ob.dflt.getD (lblName "switch_join" (c.blockid + 2))))
      (ob.dflt.getD (lblName "switch_join" (c.blockid + 2))) (switchTree e.ty ob.cases)
      (((ob.ctx.setJump (.jmp (lblName "switch_join" (c.blockid + 2)))).atLabel
        (lblName "switch_cond" (c.blockid + 1))).ctx) = lad at gl ⊢
    have l1 := ge.lastid; have l3 := gb.lastid; have l4 := gl.1
    have b1 := ge.blockid; have b3 := gb.blockid; have b4 := gl.2.1
    obtain ⟨nb, hb1, hb2, hb3, hb4⟩ := gb.slots
    unf at *
    refine ⟨by unf; omega, by unf; omega, ?_, ?_, ?_, fun _ => rfl, fun new h => gb.sorted new h, nb, hb1,
      by simpa [declTys] using hb2, ?_, by simpa [declTys] using hb4⟩
    · simp only [itemLabels_append, itemLabels, labelItem, List.append_nil]
      refine ((((ge.labels.append gb.labels ?_).append
        (LabelsIn.single (S := fun j => j = c.blockid + 1) "switch_cond" _ rfl) ?_).append gl.2.2 ?_).append
        (LabelsIn.single (S := fun j => j = c.blockid + 2) "switch_join" _ rfl) ?_).weaken ?_
      · intro j h1 h2; unf at h1 h2; omega
      · intro j h1 h2; unf at h1; omega
      · intro j h1 h2; unf at h1 h2; omega
      · intro j h1 h2; unf at h1; omega
      · intro j h; unf at h ⊢; omega
    · intro ol pre hp
      simp only [← List.append_assoc]
      exact curOf_lbl _ _ _ _ _
    · intro _
      unf
      exact curOK_label "switch_join" _ _ _ (by omega)
    · intro sl hsl
      unf
      have := hb3 sl hsl; omega
  | call dst rt fn args =>
    intro brk cont c hj0 _
    have hj : c.jump = none := by
      rcases hj0 with h | h
      · exact h
      · simp [Stmt.startsLabel] at h
    clear hj0
    obtain ⟨l1, b1, lab1, cur1, ok1⟩ := lowerArgs_good cs c.slots args c.ctx
    simp only [funcstmt, funcopen_none hj, List.nil_append]
    generalize hla : lowerArgs cs c.slots args c.ctx = la at l1 b1 lab1 cur1 ok1 ⊢
    unf at l1 b1
    cases dst with
    | none =>
      refine ⟨by unf; omega, by unf; omega, ?_, ?_, ?_, fun _ => hj,
        fun new h => sorted_of_eq (new' := []) (by rw [List.append_nil]; exact h) List.Pairwise.nil,
        [], by simp, rfl, by simp, rfl⟩
      · simp only [itemLabels_append, itemLabels, List.append_nil]
        exact lab1.weaken (by intro j h; unf at h ⊢; omega)
      · intro ol pre hp
        rw [← List.append_assoc, curOf_ins]
        exact cur1 ol pre hp
      · intro hc
        obtain ⟨name, j, h1, h2⟩ := ok1 hc
        exact ⟨name, j, h1, h2⟩
    | some d =>
      obtain ⟨i, t⟩ := d
      have s3 : Straight ⟨la.2.2.lastid + 1, la.2.2.blockid, la.2.2.cur⟩
          (if t = rt then ⟨[], .tmp (tmpName (la.2.2.lastid + 1)), ⟨la.2.2.lastid + 1, la.2.2.blockid, la.2.2.cur⟩⟩
           else convert cs ⟨la.2.2.lastid + 1, la.2.2.blockid, la.2.2.cur⟩ t rt
            (.tmp (tmpName (la.2.2.lastid + 1)))) := by
        split
        · exact Straight.refl _ _
        · exact convert_straight _ _ _ _ _
      dsimp only
      generalize hov : (if t = rt then (⟨[], .tmp (tmpName (la.2.2.lastid + 1)),
          ⟨la.2.2.lastid + 1, la.2.2.blockid, la.2.2.cur⟩⟩ : Out)
          else convert cs ⟨la.2.2.lastid + 1, la.2.2.blockid, la.2.2.cur⟩ t rt
            (.tmp (tmpName (la.2.2.lastid + 1)))) = ov at s3 ⊢
      have l3 := s3.lastid; have b3 := s3.blockid; have c3 := s3.cur
      dsimp only at l3 b3 c3
      refine ⟨by unf; omega, by unf; omega, ?_, ?_, ?_, fun _ => hj,
        fun new h => sorted_of_eq (new' := []) (by rw [List.append_nil]; exact h) List.Pairwise.nil,
        [], by simp, rfl, by simp, rfl⟩
      · simp only [itemLabels_append, itemLabels, storeIns, itemLabels_allIns _ s3.allIns, List.append_nil]
        exact lab1.weaken (by intro j h; unf at h ⊢; omega)
      · intro ol pre hp
        simp only [← List.append_assoc, storeIns]
        rw [curOf_ins, curOf_append_allIns _ _ _ s3.allIns, curOf_ins]
        unf
        rw [c3]
        exact cur1 ol pre hp
      · intro hc
        obtain ⟨name, j, h1, h2⟩ := ok1 hc
        exact ⟨name, j, by unf; rw [c3]; exact h1, by unf; omega⟩

  | callp dst rt fn pargs args =>
    intro brk cont c hj0 _
    have hj : c.jump = none := by
      rcases hj0 with h | h
      · exact h
      · simp [Stmt.startsLabel] at h
    clear hj0
    obtain ⟨l1, b1, lab1, cur1, ok1⟩ := lowerArgs_good cs c.slots args c.ctx
    simp only [funcstmt, funcopen_none hj, List.nil_append]
    generalize hla : lowerArgs cs c.slots args c.ctx = la at l1 b1 lab1 cur1 ok1 ⊢
    unf at l1 b1
    cases dst with
    | none =>
      refine ⟨by unf; omega, by unf; omega, ?_, ?_, ?_, fun _ => hj,
        fun new h => sorted_of_eq (new' := []) (by rw [List.append_nil]; exact h) List.Pairwise.nil,
        [], by simp, rfl, by simp, rfl⟩
      · simp only [itemLabels_append, itemLabels, List.append_nil]
        exact lab1.weaken (by intro j h; unf at h ⊢; omega)
      · intro ol pre hp
        rw [← List.append_assoc, curOf_ins]
        exact cur1 ol pre hp
      · intro hc
        obtain ⟨name, j, h1, h2⟩ := ok1 hc
        exact ⟨name, j, h1, h2⟩
    | some d =>
      obtain ⟨i, t⟩ := d
      have s3 : Straight ⟨la.2.2.lastid + 1, la.2.2.blockid, la.2.2.cur⟩
          (if t = rt then ⟨[], .tmp (tmpName (la.2.2.lastid + 1)), ⟨la.2.2.lastid + 1, la.2.2.blockid, la.2.2.cur⟩⟩
           else convert cs ⟨la.2.2.lastid + 1, la.2.2.blockid, la.2.2.cur⟩ t rt
            (.tmp (tmpName (la.2.2.lastid + 1)))) := by
        split
        · exact Straight.refl _ _
        · exact convert_straight _ _ _ _ _
      dsimp only
      generalize hov : (if t = rt then (⟨[], .tmp (tmpName (la.2.2.lastid + 1)),
          ⟨la.2.2.lastid + 1, la.2.2.blockid, la.2.2.cur⟩⟩ : Out)
          else convert cs ⟨la.2.2.lastid + 1, la.2.2.blockid, la.2.2.cur⟩ t rt
            (.tmp (tmpName (la.2.2.lastid + 1)))) = ov at s3 ⊢
      have l3 := s3.lastid; have b3 := s3.blockid; have c3 := s3.cur
      dsimp only at l3 b3 c3
      refine ⟨by unf; omega, by unf; omega, ?_, ?_, ?_, fun _ => hj,
        fun new h => sorted_of_eq (new' := []) (by rw [List.append_nil]; exact h) List.Pairwise.nil,
        [], by simp, rfl, by simp, rfl⟩
      · simp only [itemLabels_append, itemLabels, storeIns, itemLabels_allIns _ s3.allIns, List.append_nil]
        exact lab1.weaken (by intro j h; unf at h ⊢; omega)
      · intro ol pre hp
        simp only [← List.append_assoc, storeIns]
        rw [curOf_ins, curOf_append_allIns _ _ _ s3.allIns, curOf_ins]
        unf
        rw [c3]
        exact cur1 ol pre hp
      · intro hc
        obtain ⟨name, j, h1, h2⟩ := ok1 hc
        exact ⟨name, j, by unf; rw [c3]; exact h1, by unf; omega⟩

  | pload dst dt k t w c0 idx =>
    intro brk cont c hj0 _
    have hj : c.jump = none := by
      rcases hj0 with h | h
      · exact h
      · simp [Stmt.startsLabel] at h
    clear hj0
    simp only [funcstmt, funcopen_none hj, List.nil_append]
    have s1 := funcinst_straight c.ctx (.load .l) .l [.tmp (tmpName (c.slots.getD k 0))]
    generalize hop : funcinst c.ctx (.load .l) .l [.tmp (tmpName (c.slots.getD k 0))] = op at s1 ⊢
    have g := funcexpr2_good cs c.slots (offOf t idx) op.ctx
    generalize hoo : funcexpr2 cs c.slots (offOf t idx) op.ctx = oo at g ⊢
    have s3 := funcinst_straight oo.ctx .add .l [op.val, oo.val]
    generalize hoa : funcinst oo.ctx .add .l [op.val, oo.val] = oa at s3 ⊢
    have s4 := funcinst_straight oa.ctx (.load (loadOf cs t)) (cls t) [oa.val]
    generalize hol : funcinst oa.ctx (.load (loadOf cs t)) (cls t) [oa.val] = ol at s4 ⊢
    have s5 : Straight ol.ctx (if dt = t then ⟨[], ol.val, ol.ctx⟩ else convert cs ol.ctx dt t ol.val) := by
      split
      · exact Straight.refl _ _
      · exact convert_straight _ _ _ _ _
    generalize hov : (if dt = t then (⟨[], ol.val, ol.ctx⟩ : Out) else convert cs ol.ctx dt t ol.val) = ov
      at s5 ⊢
    have l1 := s1.lastid; have b1 := s1.blockid; have c1 := s1.cur
    have l2 := g.lastid; have b2 := g.blockid
    have l3 := s3.lastid; have b3 := s3.blockid; have c3 := s3.cur
    have l4 := s4.lastid; have b4 := s4.blockid; have c4 := s4.cur
    have l5 := s5.lastid; have b5 := s5.blockid; have c5 := s5.cur
    simp only [ctx_lastid, ctx_blockid, ctx_cur] at l1 b1 c1
    refine ⟨by unf; omega, by unf; omega, ?_, ?_, ?_, fun _ => hj,
      fun new h => sorted_of_eq (new' := []) (by rw [List.append_nil]; exact h) List.Pairwise.nil,
      [], by simp, rfl, by simp, rfl⟩
    · simp only [itemLabels_append, itemLabels, storeIns, itemLabels_allIns _ s1.allIns,
        itemLabels_allIns _ s3.allIns, itemLabels_allIns _ s4.allIns, itemLabels_allIns _ s5.allIns,
        List.append_nil, List.nil_append]
      exact g.labels.weaken (by intro j h; unf at h ⊢; omega)
    · intro ol' pre hp
      simp only [← List.append_assoc, storeIns]
      rw [curOf_ins, curOf_append_allIns _ _ _ s5.allIns, curOf_append_allIns _ _ _ s4.allIns,
        curOf_append_allIns _ _ _ s3.allIns]
      unf
      rw [c5, c4, c3]
      refine g.cur ol' _ ?_
      rw [curOf_append_allIns _ _ _ s1.allIns, hp, c1]
    · intro hc
      have hc1 : CurOK op.ctx := by
        obtain ⟨name, j, h1, h2⟩ := hc
        simp only [ctx_cur, ctx_blockid] at h1 h2
        exact ⟨name, j, by rw [c1]; exact h1, by omega⟩
      obtain ⟨name, j, h1, h2⟩ := g.curOK hc1
      exact ⟨name, j, by unf; rw [c5, c4, c3]; exact h1, by unf; omega⟩
  | ainit arr t n xb j e =>
    intro brk cont c hj0 _
    have hj : c.jump = none := by
      rcases hj0 with h | h
      · exact h
      · simp [Stmt.startsLabel] at h
    clear hj0
    simp only [funcstmt, funcopen_none hj, List.nil_append]
    have s1 := initAddr_straight c.ctx (c.slots.getD arr 0) t j
    generalize hoa : initAddr c.ctx (c.slots.getD arr 0) t j = oa at s1 ⊢
    have g := funcexpr3_good cs c.slots e oa.ctx
    generalize hoe : funcexpr3 cs c.slots e oa.ctx = oe at g ⊢
    have l1 := s1.lastid; have b1 := s1.blockid; have c1 := s1.cur
    have l2 := g.lastid; have b2 := g.blockid
    simp only [ctx_lastid, ctx_blockid, ctx_cur] at l1 b1 c1
    refine ⟨by unf; omega, by unf; omega, ?_, ?_, ?_, fun _ => hj,
      fun new h => sorted_of_eq (new' := []) (by rw [List.append_nil]; exact h) List.Pairwise.nil,
      [], by simp, rfl, by simp, rfl⟩
    · simp only [itemLabels_append, itemLabels, itemLabels_allIns _ s1.allIns, List.append_nil, List.nil_append]
      exact g.labels.weaken (by intro j h; unf at h ⊢; omega)
    · intro ol' pre hp
      simp only [← List.append_assoc]
      rw [curOf_ins]
      unf
      refine g.cur ol' _ ?_
      rw [curOf_append_allIns _ _ _ s1.allIns, hp, c1]
    · intro hc
      have hc1 : CurOK oa.ctx := by
        obtain ⟨name, j, h1, h2⟩ := hc
        simp only [ctx_cur, ctx_blockid] at h1 h2
        exact ⟨name, j, by rw [c1]; exact h1, by omega⟩
      obtain ⟨name, j, h1, h2⟩ := g.curOK hc1
      exact ⟨name, j, by unf; exact h1, by unf; omega⟩
  | adecl i t n xb =>
    intro brk cont c hj0 _
    have hj : c.jump = none := by
      rcases hj0 with h | h
      · exact h
      · simp [Stmt.startsLabel] at h
    clear hj0
    refine ⟨Nat.le_succ _, Nat.le_refl _, LabelsIn.nil _, fun ol pre h => by simpa [funcstmt] using h,
      id, fun _ => hj, fun new h => sorted_of_eq (new' := [c.lastid + 1]) h (List.pairwise_singleton _ _), [c.lastid + 1], rfl, rfl, ?_, rfl⟩
    intro sl hsl
    simp only [List.mem_singleton] at hsl
    subst hsl
    exact ⟨Nat.lt_succ_self _, Nat.le_refl _⟩
  | aload dst dt arr t n xb idx =>
    intro brk cont c hj0 _
    have hj : c.jump = none := by
      rcases hj0 with h | h
      · exact h
      · simp [Stmt.startsLabel] at h
    clear hj0
    obtain ⟨l1, b1, lab1, cur1, ok1⟩ := lowerAddr_good cs c.slots c.ctx (c.slots.getD arr 0) t idx
    simp only [funcstmt, funcopen_none hj, List.nil_append]
    generalize hoa : lowerAddr cs c.slots c.ctx (c.slots.getD arr 0) t idx = oa at l1 b1 lab1 cur1 ok1 ⊢
    unf at l1 b1
    have s2 := funcinst_straight oa.ctx (.load (loadOf cs t)) (cls t) [oa.val]
    generalize hol : funcinst oa.ctx (.load (loadOf cs t)) (cls t) [oa.val] = ol at s2 ⊢
    have s3 : Straight ol.ctx (if dt = t then ⟨[], ol.val, ol.ctx⟩ else convert cs ol.ctx dt t ol.val) := by
      split
      · exact Straight.refl _ _
      · exact convert_straight _ _ _ _ _
    generalize hov : (if dt = t then (⟨[], ol.val, ol.ctx⟩ : Out) else convert cs ol.ctx dt t ol.val) = ov
      at s3 ⊢
    have l2 := s2.lastid; have b2 := s2.blockid; have c2 := s2.cur
    have l3 := s3.lastid; have b3 := s3.blockid; have c3 := s3.cur
    refine ⟨by unf; omega, by unf; omega, ?_, ?_, ?_, fun _ => hj,
      fun new h => sorted_of_eq (new' := []) (by rw [List.append_nil]; exact h) List.Pairwise.nil,
      [], by simp, rfl, by simp, rfl⟩
    · simp only [itemLabels_append, itemLabels, storeIns, itemLabels_allIns _ s2.allIns,
        itemLabels_allIns _ s3.allIns, List.append_nil]
      exact lab1.weaken (by intro j h; unf at h ⊢; omega)
    · intro ol' pre hp
      simp only [← List.append_assoc, storeIns]
      rw [curOf_ins, curOf_append_allIns _ _ _ s3.allIns, curOf_append_allIns _ _ _ s2.allIns]
      unf
      rw [c3, c2]
      exact cur1 ol' pre hp
    · intro hc
      obtain ⟨name, j, h1, h2⟩ := ok1 hc
      exact ⟨name, j, by unf; rw [c3, c2]; exact h1, by unf; omega⟩
  | astore arr t n xb idx e =>
    intro brk cont c hj0 _
    have hj : c.jump = none := by
      rcases hj0 with h | h
      · exact h
      · simp [Stmt.startsLabel] at h
    clear hj0
    have g := exprOut3_good cs c e
    simp only [funcstmt, lowerE3_eq cs hj]
    obtain ⟨l1, b1, lab1, cur1, ok1⟩ := lowerAddr_good cs (c.upd (exprOut3 cs c e).ctx).slots
      (c.upd (exprOut3 cs c e).ctx).ctx (c.slots.getD arr 0) t idx
    generalize hoa : lowerAddr cs (c.upd (exprOut3 cs c e).ctx).slots (c.upd (exprOut3 cs c e).ctx).ctx
      (c.slots.getD arr 0) t idx = oa at l1 b1 lab1 cur1 ok1 ⊢
    have gl := g.lastid; have gb := g.blockid
    unf at l1 b1 gl gb
    refine ⟨by unf; omega, by unf; omega, ?_, ?_, ?_, fun _ => hj,
      fun new h => sorted_of_eq (new' := []) (by rw [List.append_nil]; exact h) List.Pairwise.nil,
      [], by simp, rfl, by simp, rfl⟩
    · simp only [itemLabels_append, itemLabels, List.append_nil]
      exact (g.labels.append lab1 (by intro j h1 h2; unf at h1 h2; omega)).weaken
        (by intro j h; unf at h ⊢; omega)
    · intro ol' pre hp
      rw [← List.append_assoc, ← List.append_assoc, curOf_ins]
      exact cur1 ol' _ (g.cur ol' pre hp)
    · intro hc
      exact ok1 (g.curOK hc)

/-- the statement starts in a block without pending jump -/
theorem funcstmt_good (cs : Bool) (st : Stmt) (brk cont : String) (c : SCtx) (hj : c.jump = none)
    (hnd : noDead st = true) : SGood st c (funcstmt cs brk cont st c) :=
  funcstmt_good' cs st brk cont c (Or.inl hj) hnd

end CprocVerif.LowerMach2

/-
  C01, stage E — local arrays: `T a[n];`, `x = a[i];`, `a[i] = e;`.  The element address is computed as the
  parser built it (`(unsigned long)i * sizeof *a`, added to the slot address of `a`), the load / store goes
  to the bytes of element `i` inside the one allocation of `a`.
-/
import CprocVerif.Lemmas.Lower2Call

set_option linter.unusedSimpArgs false

namespace CprocVerif.LowerMach2
open CprocVerif.Qbe CprocVerif.Lower CprocVerif.Lower2 CprocVerif.CSem CprocVerif.CSem2 CprocVerif.CInt
open CprocVerif.LowerArith CprocVerif.LowerMach CprocVerif.LowerMem

theorem wrap_ulong (cs : Bool) (v : Int) (h0 : 0 ≤ v) (hlt : v < 2 ^ 64) :
    wrap (CSem.Ty.ulong.intTy cs) v = v := by
  have hI : CSem.Ty.ulong.intTy cs = ⟨64, false⟩ := by cases cs <;> rfl
  rw [hI]
  simp only [wrap, Nat.reduceEqDiff, if_false, Bool.false_eq_true]
  exact Int.emod_eq_of_lt h0 hlt

/-- the offset expression is well-typed and its value is index × element size -/
theorem offOf_eval (cs : Bool) (vt : List CSem.Ty) (s : Store) (t : CSem.Ty) (idx : Expr) (iv : Int)
    (hwt : idx.wt vt = true) (hev : evalE cs s idx = some iv) (h0 : 0 ≤ iv)
    (hlt : iv * (t.size : Int) < 2 ^ 64) :
    (offOf t idx).wt vt = true ∧ evalE cs s (offOf t idx) = some (iv * (t.size : Int)) := by
  have hsz : 0 < t.size ∧ t.size ≤ 8 := by rcases size_cases t with h | h | h | h <;> omega
  have hiv : iv < 2 ^ 64 := by
    have : iv * 1 ≤ iv * (t.size : Int) := Int.mul_le_mul_of_nonneg_left (by omega) h0
    omega
  have hw1 := wrap_ulong cs iv h0 hiv
  have hw2 := wrap_ulong cs (t.size : Int) (by omega) (by omega)
  have hw3 := wrap_ulong cs (iv * (t.size : Int)) (Int.mul_nonneg h0 (by omega)) hlt
  have hus : (CSem.Ty.ulong.intTy cs).signed = false := by cases cs <;> rfl
  have hcw : (Expr.const .ulong t.size).wt vt = true := by
    simp only [Expr.wt, Bool.and_eq_true, decide_eq_true_eq, Bool.or_eq_true, bne_iff_ne, ne_eq]
    exact ⟨by omega, Or.inl (by decide)⟩
  unfold offOf
  by_cases hty : idx.ty = .ulong
  · rw [if_pos hty]
    constructor
    · have e : Expr.wt vt (.bin .mul .ulong idx (.const .ulong t.size)) =
          (idx.wt vt && (Expr.const .ulong t.size).wt vt &&
            (idx.ty == .ulong && (Expr.const .ulong t.size).ty == .ulong && CSem.Ty.ulong.promoted)) := rfl
      rw [e, hwt, hcw, hty]; rfl
    · simp only [evalE, hev, Option.bind_some]
      rw [hty]
      simp only [bin, arith, hus, Bool.false_eq_true, if_false, hw2, hw3]
  · rw [if_neg hty]
    constructor
    · have e : Expr.wt vt (.bin .mul .ulong (.cast .ulong idx) (.const .ulong t.size)) =
          (idx.wt vt && (Expr.const .ulong t.size).wt vt &&
            ((Expr.cast .ulong idx).ty == .ulong && (Expr.const .ulong t.size).ty == .ulong &&
              CSem.Ty.ulong.promoted)) := rfl
      rw [e, hwt, hcw]; rfl
    · simp only [evalE, hev, Option.map_some, Option.bind_some, Expr.ty, conv, hw1, bin, arith, hus,
        Bool.false_eq_true, if_false, hw2, hw3]

/-- `lowerAddr`: the register holds the slot address plus index × element size -/
theorem sim_addr (T : Stat) (slots : List Nat) (vt : List CSem.Ty) (s : Store) (M : Mem)
    (hrange : ∀ (i : Nat) (t : CSem.Ty) (v' : Int), vt[i]? = some t → s[i]? = some (some v') →
      InRange (t.intTy T.S.cs) v')
    (k : Ctx) (slot : Nat) (t : CSem.Ty) (idx : Expr) (iv : Int) (a : UInt64) {pre post : List Item}
    {env : Env} (hwt : idx.wt vt = true) (hev : evalE T.S.cs s idx = some iv) (h0 : 0 ≤ iv)
    (hlt : a.toNat + iv.toNat * t.size < 2 ^ 64)
    (hits : T.S.its = pre ++ (lowerAddr T.S.cs slots k slot t idx).items ++ post)
    (hcur : curOf T.S.o0 pre = k.cur) (hcok : CurOK k)
    (hn : ∀ (i : Nat) (t : CSem.Ty), vt[i]? = some t → slots.getD i 0 ≤ k.lastid)
    (hvars : VarsIn (setM T.S M) slots vt s env)
    (hslot : env[tmpName slot]? = some ⟨.l, a⟩) (hsl : slot ≤ k.lastid) :
    ∃ n env' ra, T.Reach n (T.at env M pre) (T.at env' M (pre ++ (lowerAddr T.S.cs slots k slot t idx).items)) ∧
      Frame k.lastid (lowerAddr T.S.cs slots k slot t idx).ctx.lastid env env' ∧
      readVal T.S.p env' (lowerAddr T.S.cs slots k slot t idx).val = .ok ⟨.l, ra⟩ ∧
      ra.toNat = a.toNat + iv.toNat * t.size := by
  have hivn : ((iv.toNat : Nat) : Int) = iv := Int.toNat_of_nonneg h0
  have hlt' : iv * (t.size : Int) < 2 ^ 64 := by
    have : ((iv.toNat * t.size : Nat) : Int) < 2 ^ 64 := by
      have : iv.toNat * t.size < 2 ^ 64 := by omega
      exact_mod_cast this
    rw [Int.natCast_mul, hivn] at this
    exact this
  obtain ⟨hwo, heo⟩ := offOf_eval T.S.cs vt s t idx iv hwt hev h0 hlt'
  have g := funcexpr2_good T.S.cs slots (offOf t idx) k
  simp only [lowerAddr, Out.seq] at hits ⊢
  have hits1 : (setM T.S M).its = pre ++ (funcexpr2 T.S.cs slots (offOf t idx) k).items ++
      ((funcinst (funcexpr2 T.S.cs slots (offOf t idx) k).ctx .add .l
        [.tmp (tmpName slot), (funcexpr2 T.S.cs slots (offOf t idx) k).val]).items ++ post) := by
    rw [setM_its, hits]; simp only [List.append_assoc]
  have h1 := sim_expr2 (setM T.S M) slots vt s hrange (offOf t idx) k pre _ env _ hwo heo hits1 hcur hcok hn
    hvars
  have hl := g.lastid
  have hR : RunsTo2 (setM T.S M) k.lastid
      (funcinst (funcexpr2 T.S.cs slots (offOf t idx) k).ctx .add .l
        [.tmp (tmpName slot), (funcexpr2 T.S.cs slots (offOf t idx) k).val]).ctx.lastid env pre
      ((funcexpr2 T.S.cs slots (offOf t idx) k).items ++
        (funcinst (funcexpr2 T.S.cs slots (offOf t idx) k).ctx .add .l
          [.tmp (tmpName slot), (funcexpr2 T.S.cs slots (offOf t idx) k).val]).items)
      (funcinst (funcexpr2 T.S.cs slots (offOf t idx) k).ctx .add .l
        [.tmp (tmpName slot), (funcexpr2 T.S.cs slots (offOf t idx) k).val]).val
      (fun r => ∃ ra : UInt64, r = ⟨.l, ra⟩ ∧ ra.toNat = a.toNat + iv.toNat * t.size) := by
    refine RunsTo2.seq h1 hl (Nat.le_succ _) ?_
    intro env1 r1 hfr1 hv1 hrep1
    have hrep1' : LRep (iv * (t.size : Int)) r1 := by
      have : (offOf t idx).ty = .ulong := rfl
      rw [this] at hrep1
      simpa [Rep, Ty.size] using hrep1
    obtain ⟨x, hx, hxv⟩ := hrep1'
    have hxn : x.toNat = iv.toNat * t.size := by
      have h2 : (x.toNat : Int) = iv * (t.size : Int) := by
        rw [hxv]; exact Int.emod_eq_of_lt (Int.mul_nonneg h0 (by omega)) hlt'
      have h3 : (x.toNat : Int) = ((iv.toNat * t.size : Nat) : Int) := by
        rw [Int.natCast_mul, hivn]; exact h2
      exact_mod_cast h3
    have hits2 : (setM T.S M).its = (pre ++ (funcexpr2 T.S.cs slots (offOf t idx) k).items) ++
        (funcinst (funcexpr2 T.S.cs slots (offOf t idx) k).ctx .add .l
          [.tmp (tmpName slot), (funcexpr2 T.S.cs slots (offOf t idx) k).val]).items ++ post := by
      rw [setM_its, hits]; simp only [List.append_assoc]
    have hs1 : env1[tmpName slot]? = some ⟨.l, a⟩ := by
      rw [hfr1 slot (Or.inl hsl)]; exact hslot
    refine run_funcinst2 (setM T.S M) _ .add .l _ hits2
      (readVals_two (readVal_tmp hs1) hv1)
      (exec_arith (Or.inl rfl) _ none (x := a) (y := x) (z := a + x) rfl hx rfl) ?_
    refine ⟨a + x, rfl, ?_⟩
    rw [UInt64.toNat_add, hxn]
    exact Nat.mod_eq_of_lt hlt
  obtain ⟨n, env', hreach, hfr, r, hval, ra, hr, hra⟩ := hR
  subst hr
  exact ⟨n, env', ra, hreach, hfr, hval, hra⟩

section
variable (T : Stat) {s : Store} {out : CSem2.Outcome} {lp : Bool × Bool} {brk cont : String} {c : SCtx}
  {nd nd' : Nat} {pre post : List Item} {env : Env} {M : Mem}

/-- `T a[n];`: the `alloc` has been executed in the start block; the elements hold no value -/
theorem sim_adecl (n : Nat) (i : Nat) (t : CSem.Ty) (cnt xb : Nat)
    (hex : exec T.S.cs T.P (n + 1) s (.adecl i t cnt xb) = some out) (hp : Pos T c nd pre)
    (inv : SInv T.M0 T.S.cs T.cnts T.W T.σ T.vtys s env M) :
    Post T lp brk cont (T.at env M pre) (pre ++ (funcstmt T.S.cs brk cont (.adecl i t cnt xb) c).items)
      (funcstmt T.S.cs brk cont (.adecl i t cnt xb) c).ctx out := by
  simp only [exec, Option.some.injEq] at hex
  subst hex
  simp only [funcstmt, List.append_nil]
  exact ⟨hp.jump, 0, env, M, rfl, inv.clear _⟩

/-- `x = a[idx];` -/
theorem sim_aload (n : Nat) (dst : Nat) (dt : CSem.Ty) (arr : Nat) (t : CSem.Ty) (cnt xb : Nat) (idx : Expr)
    (hex : exec T.S.cs T.P (n + 1) s (.aload dst dt arr t cnt xb idx) = some out)
    (hfr : frag T.P T.cnts T.W (.aload dst dt arr t cnt xb idx) = true)
    (hwt : Stmt.wt T.vtys T.ret lp.1 lp.2 nd (.aload dst dt arr t cnt xb idx) = some nd') (hp : Pos T c nd pre)
    (hext : Ext T (funcstmt T.S.cs brk cont (.aload dst dt arr t cnt xb idx) c).ctx)
    (hits : T.S.its = pre ++ (funcstmt T.S.cs brk cont (.aload dst dt arr t cnt xb idx) c).items ++ post)
    (inv : SInv T.M0 T.S.cs T.cnts T.W T.σ T.vtys s env M) :
    Post T lp brk cont (T.at env M pre)
      (pre ++ (funcstmt T.S.cs brk cont (.aload dst dt arr t cnt xb idx) c).items)
      (funcstmt T.S.cs brk cont (.aload dst dt arr t cnt xb idx) c).ctx out := by
  simp only [exec, Option.bind_eq_some_iff] at hex
  obtain ⟨iv, hev, hex⟩ := hex
  split at hex
  · rename_i hiv
    simp only [Option.map_eq_some_iff] at hex
    obtain ⟨v, hv, rfl⟩ := hex
    simp only [frag, arrsOK, Bool.and_eq_true, decide_eq_true_eq] at hfr
    obtain ⟨⟨⟨hc1, hcn⟩, hxb⟩, hWd, _⟩ := hfr
    subst hxb
    simp only [Stmt.wt] at hwt
    split at hwt
    · rename_i hw
      obtain ⟨hdst, hdt, harr, hkt, hwi⟩ := hw
      have hcd : T.cnts.getD arr 1 = cnt := by simp [List.getD, hcn]
      have he : iv.toNat < T.cnts.getD arr 1 := by rw [hcd]; omega
      have hvv : s[ecell arr (xbase T.cnts arr) iv.toNat]? = some (some v) := by
        cases h : s[ecell arr (xbase T.cnts arr) iv.toNat]? with
        | none => rw [h] at hv; cases hv
        | some o =>
          rw [h] at hv
          simp only [Option.join, Option.bind_some, id] at hv
          rw [hv]
      have hrgv : InRange (t.intTy T.S.cs) v := inv.xrange arr iv.toNat t v hkt he hvv
      -- the address of the array and what a load from the element gives
      obtain ⟨a, ha1, habound, hload⟩ := inv.a.loadAt T.S.cs (lt_of_get hkt) hkt he hvv
      simp only [funcstmt, funcopen_none hp.jump, List.nil_append] at hext hits ⊢
      have hl1 := (lowerAddr_good T.S.cs c.slots c.ctx (c.slots.getD arr 0) t idx).1
      have s2 := funcinst_straight (lowerAddr T.S.cs c.slots c.ctx (c.slots.getD arr 0) t idx).ctx
        (.load (loadOf T.S.cs t)) (cls t) [(lowerAddr T.S.cs c.slots c.ctx (c.slots.getD arr 0) t idx).val]
      generalize hoa : lowerAddr T.S.cs c.slots c.ctx (c.slots.getD arr 0) t idx = oa at hext hits hl1 s2 ⊢
      have hcast := fun (env2 : Env) (r' : RVal) (post' : List Item) (pos : List Item) => sim_castOut T
        (funcinst oa.ctx (.load (loadOf T.S.cs t)) (cls t) [oa.val]).ctx dt t
        (funcinst oa.ctx (.load (loadOf T.S.cs t)) (cls t) [oa.val]).val
        (pos := pos) (post := post') (env2 := env2) (M := M) (v := v) (r' := r')
      have hle3 : (funcinst oa.ctx (.load (loadOf T.S.cs t)) (cls t) [oa.val]).ctx.lastid ≤
          (if dt = t then (⟨[], (funcinst oa.ctx (.load (loadOf T.S.cs t)) (cls t) [oa.val]).val,
              (funcinst oa.ctx (.load (loadOf T.S.cs t)) (cls t) [oa.val]).ctx⟩ : Out)
            else convert T.S.cs (funcinst oa.ctx (.load (loadOf T.S.cs t)) (cls t) [oa.val]).ctx dt t
              (funcinst oa.ctx (.load (loadOf T.S.cs t)) (cls t) [oa.val]).val).ctx.lastid := by
        split
        · exact Nat.le_refl _
        · exact (convert_straight _ _ _ _ _).lastid
      generalize hol : funcinst oa.ctx (.load (loadOf T.S.cs t)) (cls t) [oa.val] = ol
        at hext hits s2 hcast hle3 ⊢
      generalize hov : (if dt = t then (⟨[], ol.val, ol.ctx⟩ : Out) else convert T.S.cs ol.ctx dt t ol.val) = ov
        at hext hits hcast hle3 ⊢
      have l2 := s2.lastid
      unf at hl1
      have hpre : ∀ j, j < nd → T.σ.getD j 0 = c.slots.getD j 0 := fun j hj => hext.1 j (by
        show j < c.slots.length; rw [hp.nslots]; exact hj)
      have hfut : ∀ k, nd ≤ k → k < T.vtys.length → ov.ctx.lastid < T.σ.getD k 0 := fun k hk hkv =>
        hext.2 k (by show c.slots.length ≤ k; rw [hp.nslots]; exact hk) hkv
      have hvars : VarsIn (setM T.S M) c.slots (T.vtys.take nd) s env := by
        intro i t' v' ht hv'
        obtain ⟨ht', hi⟩ := take_sub ht
        obtain ⟨a', r, h1, h2, h3⟩ := inv.varsIn i t' v' ht' hv'
        exact ⟨a', r, by rw [← hpre i hi]; exact h1, h2, h3⟩
      have hrange : ∀ (i : Nat) (t' : CSem.Ty) (v' : Int), (T.vtys.take nd)[i]? = some t' →
          s[i]? = some (some v') → InRange (t'.intTy T.S.cs) v' :=
        fun i t' v' ht hv' => inv.range i t' v' (take_sub ht).1 hv'
      -- the address
      have hits1 : T.S.its = pre ++ (lowerAddr T.S.cs c.slots c.ctx (c.slots.getD arr 0) t idx).items ++
          (ol.items ++ ov.items ++ [storeIns dt ov.val (c.slots.getD dst 0)] ++ post) := by
        rw [hoa, hits]; simp only [List.append_assoc]
      have hslot : env[tmpName (c.slots.getD arr 0)]? = some ⟨.l, a⟩ := by rw [← hpre arr harr]; exact ha1
      obtain ⟨n1, env1, ra, hreach1, hfr1, hval1, hra⟩ := sim_addr T c.slots (T.vtys.take nd) s M hrange c.ctx
        (c.slots.getD arr 0) t idx iv a hwi hev hiv.1 habound hits1 hp.cur hp.curOK
        (fun i t' ht => hp.le i (take_sub ht).2) hvars hslot (hp.le arr harr)
      rw [hoa] at hreach1 hfr1 hval1
      -- the load
      obtain ⟨r, hxl, hrep⟩ := hload ra hra
      have hits2 : (setM T.S M).its = (pre ++ oa.items) ++
          (funcinst oa.ctx (.load (loadOf T.S.cs t)) (cls t) [oa.val]).items ++
          (ov.items ++ [storeIns dt ov.val (c.slots.getD dst 0)] ++ post) := by
        rw [setM_its, hits, hol]; simp only [List.append_assoc]
      obtain ⟨n2, env2, hreach2, hfr2, r2, hval2, hrep2⟩ := run_funcinst2 (setM T.S M) oa.ctx
        (.load (loadOf T.S.cs t)) (cls t) [oa.val] (P := fun r => Rep t v r) hits2
        (readVals_one hval1) hxl hrep
      rw [hol] at hreach2 hfr2 hval2
      -- the conversion
      have hits3 : T.S.its = (pre ++ oa.items ++ ol.items) ++ ov.items ++
          (storeIns dt ov.val (c.slots.getD dst 0) :: post) := by
        rw [hits]; simp only [List.append_assoc, List.singleton_append]
      obtain ⟨n3, env3, r3, hreach3, hfr3, hval3, hrep3, _⟩ := hcast env2 r2 _ _ hits3 hval2 hrep2 hrgv
      have hfrall : Frame c.lastid ov.ctx.lastid env env3 :=
        Frame.trans (Frame.trans hfr1 hfr2 (Nat.le_refl _) hl1 (by omega) (Nat.le_refl _)) hfr3
          (Nat.le_refl _) (by omega) hle3 (Nat.le_refl _)
      have inv3 : SInv T.M0 T.S.cs T.cnts T.W T.σ T.vtys s env3 M := inv.env (slots_kept hp hpre hfut hfrall)
      have hvr : InRange (dt.intTy T.S.cs) (conv (t.intTy T.S.cs) (dt.intTy T.S.cs) v) :=
        Eval.wrap_inRange (ty_valid T.S.cs dt) _
      obtain ⟨M', hr4, inv4⟩ := sim_store T dst dt ov.val (c.slots.getD dst 0) hits3 (hpre dst hdst) hdt hWd hval3
        hvr hrep3 inv3
      refine ⟨hp.jump, n1 + n2 + n3 + 1, env3, M', ?_, inv4⟩
      have := ((hreach1.trans hreach2).trans hreach3).trans hr4
      simp only [List.append_assoc, List.singleton_append, List.cons_append, List.nil_append] at this ⊢
      exact this
    · cases hwt
  · cases hex

end

end CprocVerif.LowerMach2

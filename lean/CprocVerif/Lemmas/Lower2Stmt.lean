/-
  C01, fragment 𝔽₂ — simulation of statements: induction on the fuel of the C execution.
-/
import CprocVerif.Lemmas.Lower2For
import CprocVerif.Lemmas.Lower2Switch
import CprocVerif.Lemmas.Lower2IncDec
import CprocVerif.Lemmas.Lower2Func
import CprocVerif.Lemmas.Lower2Call
import CprocVerif.Lemmas.Lower2Arr
import CprocVerif.Lemmas.Lower2Leaf3
import CprocVerif.Lemmas.Lower2CallP
import CprocVerif.Lemmas.Lower2Ptr
import CprocVerif.Lemmas.Lower2Init

set_option linter.unusedSimpArgs false

namespace CprocVerif.LowerMach2
open CprocVerif.Qbe CprocVerif.Lower CprocVerif.Lower2 CprocVerif.CSem CprocVerif.CSem2 CprocVerif.CInt
open CprocVerif.LowerArith CprocVerif.LowerMach CprocVerif.LowerMem

/-- Executions with fuel `fuel` of the statements of every activation are simulated — for a single function
    (`T.P = []`: no call has a meaning) or when there is room for `fuel` nested activations. -/
def AllStmt (fuel : Nat) : Prop := ∀ T : Stat, (T.P = [] ∨ fuel ≤ T.d) → SimStmt T fuel

theorem wt_arrsOK {g : CSem2.Func} (h : CSem2.WT g) : arrsOK g.cnts g.body = true := by
  simp only [CSem2.WT, CSem2.Func.wt, Bool.and_eq_true] at h
  exact h.1.1.1.1.1.1.1.2

theorem wt_ptrsOK {g : CSem2.Func} (h : CSem2.WT g) : ptrsOK g.pwin g.wbase g.body = true := by
  simp only [CSem2.WT, CSem2.Func.wt, Bool.and_eq_true] at h
  exact h.1.1.1.1.2

/-- the activations of the functions of the program, from the simulation of their statements -/
theorem funcSim_of_all (T : Stat) (n : Nat) (hd : 0 < T.d) (hn : n + 1 ≤ T.d) (hall : AllStmt n) :
    FuncSim T n := by
  intro fn g sid ρ ws v M rest tr env0 hlk henv hmem hroom htop hargs hwin hex
  obtain ⟨hwt, hcalls, hK⟩ := T.hP fn g hlk
  have hroom' : Room T.K (T.d - 1 + 1) M := by
    have : T.d - 1 + 1 = T.d := by omega
    rw [this]; exact hroom
  exact sim_func T.S.cs sid g ρ ws v hwt henv T.P T.S.p T.S.ext T.K (T.d - 1) M T.hfuncs T.hP (frag_of_callsOK _ _ _ hcalls (wt_arrsOK hwt) (wt_ptrsOK hwt)) hK hmem
    hroom' htop rest tr env0 hargs hwin n (fun T' _ hd' => hall T' (Or.inr (by omega))) hex

/-- Every execution of a statement is simulated. -/
theorem sim_all : ∀ fuel, AllStmt fuel := by
  intro fuel
  induction fuel using Nat.strongRecOn with
  | ind fuel ihs =>
  intro T hT
  cases fuel with
  | zero =>
    intro st s out lp brk cont c nd nd' pre post env M hex
    simp only [exec] at hex
    cases hex
  | succ n =>
    have hTm : ∀ m, m ≤ n → (T.P = [] ∨ m ≤ T.d) := fun m hm =>
      hT.elim Or.inl (fun h => Or.inr (by omega))
    have ih : SimStmt T n := ihs n (Nat.lt_succ_self n) T (hTm n (Nat.le_refl _))
    have ihle : ∀ m, m ≤ n → SimStmt T m := fun m hm => ihs m (Nat.lt_succ_of_le hm) T (hTm m hm)
    have hcle : ∀ m, m ≤ n → CallOK T m := by
      intro m hm
      rcases hT with hP | hd
      · exact Or.inl hP
      · exact Or.inr ⟨by omega, funcSim_of_all T m (by omega) (by omega) (ihs m (by omega))⟩
    have hc : CallOK T n := hcle n (Nat.le_refl _)
    intro st s out lp brk cont c nd nd' pre post env M hex hfr hwt hp hext hits hlp inv
    cases st with
    | skip => exact sim_skip T n hex hp inv
    | decl i t init =>
      cases init with
      | none => exact sim_decl_none T n i t hex hp inv
      | some e => exact sim_decl_init T n hc i t e hfr hex hwt hp hext hits inv
    | assign i t e => exact sim_assign T n hc i t e hfr hex hwt hp hext hits inv
    | incdec i t inc => exact sim_incdec T n i t inc (by simpa [frag] using hfr) hex hwt hp hext hits inv
    | expr e => exact sim_exprstmt T n hc e hfr hex hwt hp hext hits inv
    | ret e => exact sim_ret T n hc e hfr hex hwt hp hext hits inv
    | seq a b => exact sim_seq T n ih a b hex hfr hwt hp hext hits hlp inv
    | ite e a => exact sim_ite T n hc ih e a hex hfr hwt hp hext hits hlp inv
    | itee e a b => exact sim_itee T n hc ih e a b hex hfr hwt hp hext hits hlp inv
    | while_ e b => exact sim_while T n hcle ihle e b hex hfr hwt hp hext hits inv
    | dowhile b e => exact sim_dowhile T n hcle ihle b e hex hfr hwt hp hext hits inv
    | for_ e step b => exact sim_for T n hcle ihle e step b hex hfr hwt hp hext hits inv
    | break_ => exact sim_break T n hex hwt hp inv
    | continue_ => exact sim_continue T n hex hwt hp inv
    | case_ u => exact sim_label T n (.case_ u) (Or.inl ⟨u, rfl⟩) hex hp hits inv
    | default_ => exact sim_label T n .default_ (Or.inr rfl) hex hp hits inv
    | switch_ e b => exact sim_switch T n hc ihle e b hex hfr hwt hp hext hits hlp inv
    | adecl i t cnt xb => exact sim_adecl T n i t cnt xb hex hp inv
    | aload d dt a t cnt xb x => exact sim_aload T n d dt a t cnt xb x hex hfr hwt hp hext hits inv
    | astore a t cnt xb x v => exact sim_astore T n hc a t cnt xb x v hex hfr hwt hp hext hits inv
    | ainit a t cnt xb j v => exact sim_ainit T n hc a t cnt xb j v hex hfr hwt hp hext hits inv
    | call dst rt fn args =>
      rcases hT with hP | hd
      · simp only [exec, hP, lookup, List.find?_nil] at hex
        cases hex
      · exact sim_call T n (funcSim_of_all T n (by omega) hd (ihs n (Nat.lt_succ_self n))) (by omega)
          dst rt fn args hex hfr hwt hp hext hits inv
    | pload d dt k t w c0 x => exact sim_pload T n d dt k t w c0 x hex hfr hwt hp hext hits inv
    | callp dst rt fn pargs args =>
      rcases hT with hP | hd
      · simp only [exec, hP, lookup, List.find?_nil] at hex
        cases hex
      · exact sim_callp T n (funcSim_of_all T n (by omega) hd (ihs n (Nat.lt_succ_self n))) (by omega)
          dst rt fn pargs args hex hfr hwt hp hext hits inv

theorem sim_stmt (T : Stat) (fuel : Nat) (hT : T.P = [] ∨ fuel ≤ T.d) : SimStmt T fuel := sim_all fuel T hT

end CprocVerif.LowerMach2

/-
  C01, fragment 𝔽₂ — simulation of statements: induction on the fuel of the C execution.
-/
import CprocVerif.Lemmas.Lower2For
import CprocVerif.Lemmas.Lower2Switch
import CprocVerif.Lemmas.Lower2IncDec

set_option linter.unusedSimpArgs false

namespace CprocVerif.LowerMach2
open CprocVerif.Qbe CprocVerif.Lower CprocVerif.Lower2 CprocVerif.CSem CprocVerif.CSem2 CprocVerif.CInt
open CprocVerif.LowerArith CprocVerif.LowerMach CprocVerif.LowerMem

/-- every statement form is covered -/
theorem frag_all (st : Stmt) : frag st = true := by
  induction st with
  | seq a b iha ihb => simp [frag, iha, ihb]
  | ite e a iha => simpa [frag] using iha
  | itee e a b iha ihb => simp [frag, iha, ihb]
  | while_ e b ihb => simpa [frag] using ihb
  | dowhile b e ihb => simpa [frag] using ihb
  | for_ e st b ihs ihb => simp [frag, ihs, ihb]
  | switch_ e b ihb => simpa [frag] using ihb
  | _ => rfl

section
variable (T : Stat)

/-- Every execution of a statement of the fragment is simulated. -/
theorem sim_stmt : ∀ fuel, SimStmt T fuel := by
  intro fuel
  induction fuel using Nat.strongRecOn with
  | ind fuel ihs =>
  cases fuel with
  | zero =>
    intro st s out lp brk cont c nd nd' pre post env M hex
    simp only [exec] at hex
    cases hex
  | succ n =>
    have ih : SimStmt T n := ihs n (Nat.lt_succ_self n)
    have ihle : ∀ m, m ≤ n → SimStmt T m := fun m hm => ihs m (Nat.lt_succ_of_le hm)
    intro st s out lp brk cont c nd nd' pre post env M hex hfr hwt hp hext hits hlp inv
    cases st with
    | skip => exact sim_skip T n hex hp inv
    | decl i t init =>
      cases init with
      | none => exact sim_decl_none T n i t hex hp inv
      | some e => exact sim_decl_init T n i t e hex hwt hp hext hits inv
    | assign i t e => exact sim_assign T n i t e hex hwt hp hext hits inv
    | incdec i t inc => exact sim_incdec T n i t inc hex hwt hp hext hits inv
    | expr e => exact sim_exprstmt T n e hex hwt hp hext hits inv
    | ret e => exact sim_ret T n e hex hwt hp hext hits inv
    | seq a b => exact sim_seq T n ih a b hex hfr hwt hp hext hits hlp inv
    | ite e a => exact sim_ite T n ih e a hex hfr hwt hp hext hits hlp inv
    | itee e a b => exact sim_itee T n ih e a b hex hfr hwt hp hext hits hlp inv
    | while_ e b => exact sim_while T n ihle e b hex hfr hwt hp hext hits inv
    | dowhile b e => exact sim_dowhile T n ihle b e hex hfr hwt hp hext hits inv
    | for_ e step b => exact sim_for T n ihle e step b hex hfr hwt hp hext hits inv
    | break_ => exact sim_break T n hex hwt hp inv
    | continue_ => exact sim_continue T n hex hwt hp inv
    | case_ u => exact sim_label T n (.case_ u) (Or.inl ⟨u, rfl⟩) hex hp hits inv
    | default_ => exact sim_label T n .default_ (Or.inr rfl) hex hp hits inv
    | switch_ e b => exact sim_switch T n ihle e b hex hfr hwt hp hext hits hlp inv
    | call dst rt fn args => simp only [exec] at hex; cases hex

end

end CprocVerif.LowerMach2

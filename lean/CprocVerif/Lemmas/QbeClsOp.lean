/-
  C03, classes — the class-mismatch ends of `Spec/Qbe.lean` and the typing of single operations:
  an operation whose opcode/result class is in the table `Op.sig` and whose operands have kinds
  acceptable for the classes of that table never raises a class error, and its result has the
  kind of the result class.
-/
import CprocVerif.Spec.Qbe
import CprocVerif.Spec.QbeWf

namespace CprocVerif.C03.Cls
open CprocVerif.Qbe

/-! ## Which ends are class mismatches -/

/-- The `OpErr.mismatch` messages of `Spec/Qbe.lean` that denote an operand, result, argument,
    parameter or return value of the wrong class (or count).  NOT in the list, because they are not
    class errors: `"use of undefined call result"` (the callee executed `ret` without a value: the
    IL is well-formed, the source program has undefined behaviour), `"vastart in a non-variadic
    function"`, `"unknown aggregate type :…"`, `"integer argument expected"` (raised only inside
    the built-in externals, whose obligations are `ExtOk`). -/
def classMsgs : List String := [
  -- operand readers (`asW asL asS asD asK coerce`: instructions, jnz, phis, stores, arguments,
  -- parameters, returned values, bound call results)
  "float value used as w", "w value used as l", "float value used as l",
  "value used as s", "value used as d",
  -- opcode / result-class table
  "not a binary integer operation", "not a float operation", "integer result in float class",
  "operation needs a result class", "load result class", "exts result class",
  "truncd result class", "swtof result class", "uwtof result class", "sltof result class",
  "ultof result class", "cast without result", "wrong number of operands",
  -- calls and returns against signatures
  "too few arguments in call", "too many arguments in call",
  "misplaced variadic marker in call", "argument type differs from parameter type",
  "internal: parameter count", "ret with a value in a function without return type",
  "scalar returned to an aggregate call", "aggregate returned to a call of another type"]

/-- An operation error that is a class mismatch. -/
def ClsErr (e : OpErr) : Prop := ∃ w ∈ classMsgs, e = .mismatch w

/-- A run that ended in a class mismatch. -/
def ClassStuck (e : End) : Prop := ∃ w ∈ classMsgs, e = (OpErr.mismatch w).toEnd

instance (e : OpErr) : Decidable (ClsErr e) := by unfold ClsErr; infer_instance
instance (e : End) : Decidable (ClassStuck e) := by unfold ClassStuck; infer_instance

theorem toEnd_mismatch_inj {w w' : String}
    (h : (OpErr.mismatch w).toEnd = (OpErr.mismatch w').toEnd) : w = w' := by
  simp only [OpErr.toEnd, End.stuck.injEq, StuckReason.other.injEq] at h
  exact (String.append_right_inj _).1 h

theorem classStuck_toEnd {e : OpErr} (h : ClassStuck e.toEnd) : ClsErr e := by
  obtain ⟨w, hw, he⟩ := h
  cases e with
  | mismatch w' => exact ⟨w, hw, by rw [toEnd_mismatch_inj he]⟩
  | trap r => simp [OpErr.toEnd] at he
  | oob r => simp [OpErr.toEnd] at he
  | unsupported r => simp [OpErr.toEnd] at he
  | unknownExtern r => simp [OpErr.toEnd] at he
  | exit r => simp [OpErr.toEnd] at he

/-- The error raised when an undefined call result is read. -/
def uErr : OpErr := .mismatch "use of undefined call result"

theorem uErr_not_cls : ¬ ClsErr uErr := by decide

/-! ## Kinds acceptable at a class -/

/-- A value of kind `kd` can be read at class `k` without a class error: the kind of the class, an
    `l` value read as `w`, an integer literal read as `w` or `l`, or an undefined call result (whose
    use is not a class error). -/
def kindOk (k : Cls) : Kind → Bool
  | .w => k == .w
  | .l => k == .l || k == .w
  | .s => k == .s
  | .d => k == .d
  | .c => k == .w || k == .l
  | .u => true

/-- The outcome of a computation is not a class error, and a successful result satisfies `P`. -/
def Safe {α : Type} (P : α → Prop) : Except OpErr α → Prop
  | .ok a => P a
  | .error e => ¬ ClsErr e

theorem Safe.bind {α β : Type} {P : α → Prop} {Q : β → Prop} {x : Except OpErr α}
    {k : α → Except OpErr β} (hx : Safe P x) (hk : ∀ a, P a → Safe Q (k a)) :
    Safe Q (x >>= k) := by
  cases x with
  | error e => exact hx
  | ok a => exact hk a hx

theorem Safe.mono {α : Type} {P Q : α → Prop} {x : Except OpErr α} (hx : Safe P x)
    (h : ∀ a, P a → Q a) : Safe Q x := by
  cases x with
  | error e => exact hx
  | ok a => exact h a hx

theorem Safe.pure {α : Type} {P : α → Prop} {a : α} (h : P a) :
    Safe P (Pure.pure a : Except OpErr α) := h

theorem safe_asK {k : Cls} {v : RVal} (h : kindOk k v.kind = true) :
    Safe (fun _ => True) (v.asK k) := by
  obtain ⟨kd, bits⟩ := v
  cases k <;> cases kd <;> first
    | (simp [kindOk] at h; done)
    | trivial
    | exact uErr_not_cls

theorem safe_asW {v : RVal} (h : kindOk .w v.kind = true) : Safe (fun _ => True) v.asW :=
  safe_asK (k := .w) h
theorem safe_asL {v : RVal} (h : kindOk .l v.kind = true) : Safe (fun _ => True) v.asL :=
  safe_asK (k := .l) h
theorem safe_asS {v : RVal} (h : kindOk .s v.kind = true) : Safe (fun _ => True) v.asS :=
  safe_asK (k := .s) h
theorem safe_asD {v : RVal} (h : kindOk .d v.kind = true) : Safe (fun _ => True) v.asD :=
  safe_asK (k := .d) h

theorem safe_coerce {k : Cls} {v : RVal} (h : kindOk k v.kind = true) :
    Safe (fun r => r.kind = k.kind) (v.coerce k) := by
  have := safe_asK h
  unfold RVal.coerce
  cases hx : v.asK k with
  | error e => rw [hx] at this; exact this
  | ok b => rfl

/-- A successful coercion always yields the kind of the class (whatever the input). -/
theorem coerce_kind {k : Cls} {v r : RVal} (h : v.coerce k = .ok r) : r.kind = k.kind := by
  unfold RVal.coerce at h
  split at h
  · cases h; rfl
  · cases h

/-! ## Operations -/

def kindsOk : List Cls → List RVal → Bool
  | [], [] => true
  | k :: ks, v :: vs => kindOk k v.kind && kindsOk ks vs
  | _, _ => false

theorem not_cls_oob (w : String) : ¬ ClsErr (.oob w) := by
  rintro ⟨_, _, h⟩; cases h
theorem not_cls_trap (w : String) : ¬ ClsErr (.trap w) := by
  rintro ⟨_, _, h⟩; cases h

theorem safe_load (m : Mem) (a n : Nat) : Safe (fun _ => True) (m.load a n) := by
  unfold Mem.load
  repeat' split
  all_goals first | trivial | exact not_cls_oob _

theorem safe_store (m : Mem) (a n : Nat) (v : UInt64) : Safe (fun _ => True) (m.store a n v) := by
  unfold Mem.store
  repeat' split
  all_goals first | trivial | exact not_cls_oob _

theorem safe_alloc (m : Mem) (a n : Nat) (i : Option ByteArray) :
    Safe (fun _ => True) (m.alloc a n i) := by
  unfold Mem.alloc
  split
  · exact not_cls_trap _
  · dsimp only
    split
    · exact not_cls_trap _
    · trivial

theorem safe_truncTo {k : Cls} (h : isInt k = true) (v : UInt64) :
    Safe (fun _ => True) (truncTo k v) := by
  cases k <;> first | trivial | (simp [isInt] at h; done)


def arithOk (o : Op) (k : Cls) : Bool :=
  match o with
  | .add | .sub | .mul | .div => true
  | .udiv | .rem | .urem | .or | .xor | .and | .sar | .shr | .shl => isInt k
  | _ => false

theorem safe_arith2 {o : Op} {k : Cls} (h : arithOk o k = true) (x y : UInt64) :
    Safe (fun _ => True) (arith2 o k x y) := by
  cases o
  case add | sub | mul | div | udiv | rem | urem | or | xor | and | sar | shr | shl =>
    cases k <;> first
      | (simp [arithOk, isInt] at h; done)
      | ((unfold arith2; simp only []; repeat' split) <;> first | trivial | exact not_cls_trap _)
  all_goals (simp [arithOk] at h)

theorem kindsOk_one {k : Cls} {vs : List RVal} (h : kindsOk [k] vs = true) :
    ∃ a, vs = [a] ∧ kindOk k a.kind = true := by
  match vs, h with
  | [a], h => exact ⟨a, rfl, by simpa [kindsOk] using h⟩
  | [], h => simp [kindsOk] at h
  | _ :: _ :: _, h => simp [kindsOk] at h

theorem kindsOk_two {k k' : Cls} {vs : List RVal} (h : kindsOk [k, k'] vs = true) :
    ∃ a b, vs = [a, b] ∧ kindOk k a.kind = true ∧ kindOk k' b.kind = true := by
  match vs, h with
  | [a, b], h => exact ⟨a, b, rfl, by simpa [kindsOk] using h⟩
  | [], h => simp [kindsOk] at h
  | [_], h => simp [kindsOk] at h
  | _ :: _ :: _ :: _, h => simp [kindsOk] at h

theorem needRes_some (k : Cls) : needRes (some k) = .ok k := rfl
theorem ok_bind {α β : Type} (a : α) (f : α → Except OpErr β) : (Except.ok a >>= f) = f a := rfl

theorem not_cls_vastart : ¬ ClsErr (.mismatch "vastart in a non-variadic function") := by decide

macro "safe_tac" : tactic => `(tactic| repeat (first
  | exact Safe.pure (by intro c hc; cases hc; rfl)
  | exact Safe.pure (by intro c hc; cases hc)
  | exact not_cls_vastart
  | refine Safe.bind (safe_asK (by assumption)) (fun _ _ => ?_)
  | refine Safe.bind (safe_asW (by assumption)) (fun _ _ => ?_)
  | refine Safe.bind (safe_asL (by assumption)) (fun _ _ => ?_)
  | refine Safe.bind (safe_asS (by assumption)) (fun _ _ => ?_)
  | refine Safe.bind (safe_asD (by assumption)) (fun _ _ => ?_)
  | refine Safe.bind (safe_coerce (by assumption))
      (fun _ hr => Safe.pure (by intro c hc; cases hc; exact hr))
  | refine Safe.bind (safe_arith2 (by decide) _ _) (fun _ _ => ?_)
  | refine Safe.bind (safe_truncTo (by decide) _) (fun _ _ => ?_)
  | refine Safe.bind (safe_load _ _ _) (fun _ _ => ?_)
  | refine Safe.bind (safe_store _ _ _ _) (fun _ _ => ?_)
  | refine Safe.bind (safe_alloc _ _ _ _) (fun _ _ => ?_)))

set_option hygiene false in
/-- Finish one opcode once the result class is concrete. -/
macro "fin_tac" : tactic => `(tactic| (
  simp [Op.sig, isInt, isFlt, StoreTy.cls] at hsig
  <;> subst hsig
  <;> (first
    | obtain ⟨a, b, rfl, ha, hb⟩ := kindsOk_two hvs
    | obtain ⟨a, rfl, ha⟩ := kindsOk_one hvs)
  <;> simp only [execOp, needRes_some, ok_bind, loadInfo]
  <;> safe_tac))

set_option hygiene false in
macro "op_tac" : tactic => `(tactic| (
  cases k with
  | none => fin_tac
  | some k => cases k <;> fin_tac))

set_option maxRecDepth 2000 in
/-- **Typing of operations.**  An operation that is in the opcode table for its result class, on
    operands of acceptable kinds, raises no class error and produces a value of the result class. -/
theorem safe_execOp {o : Op} {k : Option Cls} {ks : List Cls} {vs : List RVal} {mem : Mem}
    {va : Option ByteArray} (hsig : o.sig k = some ks) (hvs : kindsOk ks vs = true) :
    Safe (fun r => ∀ c, k = some c → r.1.kind = c.kind) (execOp o k vs mem va) := by
  cases o
  case add => op_tac
  case sub => op_tac
  case neg => op_tac
  case div => op_tac
  case mul => op_tac
  case udiv => op_tac
  case rem => op_tac
  case urem => op_tac
  case or => op_tac
  case xor => op_tac
  case and => op_tac
  case sar => op_tac
  case shr => op_tac
  case shl => op_tac
  case extsw => op_tac
  case extuw => op_tac
  case extsh => op_tac
  case extuh => op_tac
  case extsb => op_tac
  case extub => op_tac
  case exts => op_tac
  case truncd => op_tac
  case stosi => op_tac
  case stoui => op_tac
  case dtosi => op_tac
  case dtoui => op_tac
  case swtof => op_tac
  case uwtof => op_tac
  case sltof => op_tac
  case ultof => op_tac
  case cast => op_tac
  case copy => op_tac
  case vastart =>
    cases k with
    | some k => cases k <;> fin_tac
    | none =>
      simp [Op.sig] at hsig
      subst hsig
      obtain ⟨a, rfl, ha⟩ := kindsOk_one hvs
      simp only [execOp]
      refine Safe.bind (safe_asL ha) (fun _ _ => ?_)
      cases va with
      | none => exact not_cls_vastart
      | some area => dsimp only; safe_tac
  case vaarg => op_tac
  case store t => cases t <;> op_tac
  case load t => cases t <;> op_tac
  case alloc n => op_tac
  case cmpw c => op_tac
  case cmpl c => op_tac
  case cmps c => op_tac
  case cmpd c => op_tac

end CprocVerif.C03.Cls

import CprocVerif.Lemmas.InitImage
import CprocVerif.Spec.InitRef
import CprocVerif.Spec.InitClass

/-!
# Image-level lemmas for the refinement `parseinit ⊑ InitRef.ref`

The model logs an `initclear` at every nested `{`; the reference writes zeros only when the
sub-object is "dirty".  Both denote the same image: `ImgEq` (cell by cell, for every cell index)
is the relation the simulation carries.
-/

namespace CprocVerif.InitSim
open CprocVerif.Init CprocVerif.Image CprocVerif.InitRef

/-- two write lists denote the same image, cell by cell -/
def ImgEq (a b : List Init) : Prop := ∀ j, cellFold a j (.byte 0) = cellFold b j (.byte 0)

theorem ImgEq.refl (a : List Init) : ImgEq a a := fun _ => rfl

theorem ImgEq.symm {a b : List Init} (h : ImgEq a b) : ImgEq b a := fun j => (h j).symm

theorem ImgEq.trans {a b c : List Init} (h : ImgEq a b) (h' : ImgEq b c) : ImgEq a c :=
  fun j => (h j).trans (h' j)

theorem ImgEq.snoc {a b : List Init} (h : ImgEq a b) (i : Init) : ImgEq (a ++ [i]) (b ++ [i]) := by
  intro j
  rw [cellFold_append, cellFold_append, h j]

/-- the images of an object of any size agree -/
theorem ImgEq.image {a b : List Init} (h : ImgEq a b) (size : Nat) : image size a = image size b := by
  apply eq_image_of_cells (length_image size a)
  intro j hj
  rw [getElem?_image a hj, cellAt_eq, cellAt_eq, h j]

/-- bytes `[off, off+size)` of the image are zero -/
def ZeroReg (l : List Init) (off size : Nat) : Prop :=
  ∀ j, off ≤ j → j < off + size → cellFold l j (.byte 0) = .byte 0

theorem ZeroReg.sub {l : List Init} {off size off' size' : Nat} (h : ZeroReg l off size)
    (h1 : off ≤ off') (h2 : off' + size' ≤ off + size) : ZeroReg l off' size' :=
  fun j hj1 hj2 => h j (by omega) (by omega)

theorem ZeroReg.congr {a b : List Init} {off size : Nat} (h : ZeroReg a off size) (e : ImgEq a b) :
    ZeroReg b off size := fun j h1 h2 => by rw [← e j]; exact h j h1 h2

theorem ZeroReg.nil (off size : Nat) : ZeroReg [] off size := fun _ _ _ => rfl

/-- the write of zeros the reference uses -/
def zw (off size : Nat) : Init := ⟨off, off + size, 0, 0, .int size 0⟩

theorem zw_eq (off size : Nat) : zw off size = zeroWrite off (off + size) := by
  unfold zw zeroWrite
  rw [Nat.add_sub_cancel_left]

theorem writeCell_zw (off size j : Nat) (c : Cell) :
    writeCell (zw off size) j c = if off ≤ j ∧ j < off + size then .byte 0 else c := by
  rw [zw_eq, writeCell_zeroWrite]

/-- writing zeros over a region that is zero changes nothing -/
theorem imgEq_zw_noop {l : List Init} {off size off' size' : Nat} (h : ZeroReg l off size)
    (h1 : off ≤ off') (h2 : off' + size' ≤ off + size) : ImgEq (l ++ [zw off' size']) l := by
  intro j
  rw [cellFold_append, cellFold_cons, cellFold_nil, writeCell_zw]
  split
  · rename_i hj; exact (h j (by omega) (by omega)).symm
  · rfl

theorem zeroReg_snoc_zw (l : List Init) (off size : Nat) : ZeroReg (l ++ [zw off size]) off size := by
  intro j h1 h2
  rw [cellFold_append, cellFold_cons, cellFold_nil, writeCell_zw, if_pos ⟨h1, h2⟩]

theorem not_touches_of_not_overlap {i : Init} {off size j : Nat} (h : bitOverlap i off size = false)
    (h1 : off ≤ j) (h2 : j < off + size) : ¬ touches i j := by
  unfold bitOverlap at h
  unfold touches
  simp only [Bool.and_eq_false_iff, decide_eq_false_iff_not] at h
  omega

/-- a region no write overlaps is zero -/
theorem zeroReg_of_clean {l : List Init} {off size : Nat} (h : l.any (bitOverlap · off size) = false) :
    ZeroReg l off size := by
  intro j h1 h2
  apply cellFold_untouched
  intro x hx
  have := List.any_eq_false.1 h x hx
  exact not_touches_of_not_overlap (by simpa using this) h1 h2

/-- the log after `zeroIfDirty` -/
def zlog (l : List Init) (off size : Nat) : List Init :=
  if l.any (bitOverlap · off size) then l ++ [zw off size] else l

theorem zeroIfDirty_log (st : RSt) (off size depth : Nat) :
    (zeroIfDirty st off size depth).log = zlog st.log off size := by
  unfold zeroIfDirty zlog
  split <;> rfl

theorem zeroIfDirty_nswitch (st : RSt) (off size depth : Nat) :
    (zeroIfDirty st off size depth).nswitch = st.nswitch := by
  unfold zeroIfDirty
  split <;> rfl

theorem zeroIfDirty_top (st : RSt) (off size depth : Nat) :
    (zeroIfDirty st off size depth).top = st.top := by
  unfold zeroIfDirty
  split <;> rfl

/-- after `zeroIfDirty` the region is zero -/
theorem zeroReg_zlog (l : List Init) (off size : Nat) : ZeroReg (zlog l off size) off size := by
  unfold zlog
  split
  · exact zeroReg_snoc_zw l off size
  · rename_i h; exact zeroReg_of_clean (by simpa using h)

/-- `initclear` in the model against `zeroIfDirty` in the reference -/
theorem imgEq_clear_zlog {m r : List Init} (h : ImgEq m r) (off size : Nat) :
    ImgEq (m ++ [zw off size]) (zlog r off size) := by
  unfold zlog
  split
  · exact h.snoc _
  · rename_i hc
    have hz : ZeroReg r off size := zeroReg_of_clean (by simpa using hc)
    exact (h.snoc _).trans (imgEq_zw_noop hz (Nat.le_refl _) (Nat.le_refl _))

/-- `zeroIfDirty` of a part of a zero region changes nothing -/
theorem imgEq_zlog_noop {l : List Init} {off size off' size' : Nat} (h : ZeroReg l off size)
    (h1 : off ≤ off') (h2 : off' + size' ≤ off + size) : ImgEq (zlog l off' size') l := by
  unfold zlog
  split
  · exact imgEq_zw_noop h h1 h2
  · exact ImgEq.refl _

theorem map_evWrite_append (l : List Ev) (e : Ev) : (l ++ [e]).map evWrite = l.map evWrite ++ [evWrite e] := by
  rw [List.map_append]; rfl

theorem evWrite_clear (off size : Nat) : evWrite (.clear off (off + size)) = zw off size := by
  rw [zw_eq]; rfl

end CprocVerif.InitSim

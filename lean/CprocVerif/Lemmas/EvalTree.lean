import CprocVerif.Lemmas.Eval

/-!
# Lemmas/EvalTree — conversions, the guard of `eval`, the invariant `Canon`, the C-semantics
evaluator `evalC` and the inductions over `eval` (helper lemmas for property C04, continued)
-/

namespace CprocVerif.Eval
open CprocVerif.CInt

section Part2d
variable {F : Type} (ops : FloatOps F)

theorem tyOf_bool : tyOf IntTy.bool = .bool := rfl

theorem tyOf_isInt (t : IntTy) : (tyOf t).isInt = true := by
  simp only [tyOf]; split <;> rfl

theorem tyOf_isFlt (t : IntTy) : (tyOf t).isFlt = false := by
  simp only [tyOf]; split <;> rfl

theorem not_isFlt_of_isInt {t : Ty} (h : t.isInt = true) : t.isFlt = false := by
  cases t <;> simp [Ty.isInt, Ty.isFlt] at *

theorem cast_b2n (c : Bool) : cast ops .bool (b2n c) = b2n c := by
  cases c <;> simp only [cast] <;> decide

theorem castConst_bool (lty : Ty) (l : Nat) :
    castConst ops lty .bool l = .const .bool (b2n (istrue ops lty l)) := by
  simp only [castConst, if_true, cast_b2n]

theorem castConst_int {lty : Ty} (hl : lty.isInt = true) (tsz : Nat) (ts : Bool) (l : Nat) :
    castConst ops lty (.int tsz ts) l = .const (.int tsz ts) (castInt tsz ts l) := by
  have h1 : ¬ (Ty.int tsz ts = Ty.bool) := by simp
  have h2 : ¬ (lty.isInt = true ∧ (Ty.int tsz ts).isFlt = true) := by simp [Ty.isFlt]
  have h3 : ¬ (lty.isFlt = true ∧ (Ty.int tsz ts).isInt = true) := by simp [not_isFlt_of_isInt hl]
  simp only [castConst, if_neg h1, if_neg h2, if_neg h3, cast]

theorem repr64_eq_zero' {t : IntTy} (h : t.Valid) {b : Int} (hb : InRange t b) :
    repr64 t b = 0 ↔ b = 0 := by
  rcases h with h | h
  · subst h; simp [InRange, minVal, maxVal, IntTy.bool] at hb; simp only [repr64]; omega
  · exact repr64_eq_zero h hb

theorem istrue_int {t : IntTy} (h : t.Valid) {a : Int} (ha : InRange t a) :
    istrue ops (tyOf t) (repr64 t a) = decide (a ≠ 0) := by
  simp only [istrue, tyOf_isFlt, Bool.false_eq_true, if_false, ne_eq, repr64_eq_zero' h ha]

theorem b2n_le_one (c : Bool) : b2n c = 0 ∨ b2n c = 1 := by cases c <;> simp [b2n]

theorem repr64_b2i (t : IntTy) (c : Bool) : repr64 t (b2i c) = b2n c := by
  cases c <;> simp only [repr64] <;> decide

/-- Conversion of an integer constant to any integer type, `_Bool` included (6.3.1.2, 6.3.1.3). -/
theorem cast_correct {f t : IntTy} (hf : f.Valid) (ht : t.Valid) {v : Int} (hv : InRange f v) :
    castConst ops (tyOf f) (tyOf t) (repr64 f v) = .const (tyOf t) (repr64 t (wrap t v)) := by
  rcases ht with rfl | ht
  · rw [tyOf_bool, castConst_bool, istrue_int ops hf hv]
    have : wrap IntTy.bool v = b2i (decide (v ≠ 0)) := by
      simp only [wrap, IntTy.bool, if_true, b2i]
      by_cases h : v = 0 <;> simp [h]
    rw [this, repr64_b2i]
  · rw [tyOf_arith ht, castConst_int ops (tyOf_isInt f), ← cast_ofI ht v]; rfl

/-- the guard of `eval` covers every case in which `binary` would execute an undefined host
operation: integer operands are never folded into host UB, for any operands and any sizes. -/
theorem foldBin_no_hostUB (op : BinOp) (hop : op ≠ .lor ∧ op ≠ .land) {lty : Ty}
    (hl : lty.isInt = true) (l r : Nat) (ty : Ty) : foldBin ops op lty l r ty ≠ .hostUB := by
  have key : ∀ sg : Bool, lty.isSigned = sg → (∀ x, lty ≠ .flt x) →
      foldBin ops op lty l r ty ≠ .hostUB := by
    intro sg hsg hnf
    simp only [foldBin]
    split
    · simp
    · rename_i hg
      have hraw : ∀ o, binaryRaw ops o lty l r = binaryRaw ops o (.int 0 sg) l r := by
        intro o
        cases lty with
        | flt x => exact absurd rfl (hnf x)
        | int a b => simp only [Ty.isSigned] at hsg; subst hsg; rfl
        | bool => simp only [Ty.isSigned] at hsg; subst hsg; rfl
        | ptr => simp only [Ty.isSigned] at hsg; subst hsg; rfl
        | other => simp only [Ty.isSigned] at hsg; subst hsg; rfl
      simp only [binary, hraw]
      cases op <;> simp only [binaryRaw, Ty.isSigned, Option.map_some] <;> try simp
      case lor => exact hop.1 rfl
      case land => exact hop.2 rfl
      case div =>
        simp only [divGuard, hl, hsg] at hg
        cases sg <;> simp at hg ⊢
        · rw [if_neg hg]; simp
        · rw [if_neg]
          · simp
          · rintro (h | ⟨h1, h2⟩)
            · exact hg.1 h
            · exact hg.2 h2 h1
      case mod =>
        simp only [divGuard, hl, hsg] at hg
        cases sg <;> simp at hg ⊢
        · rw [if_neg hg]; simp
        · rw [if_neg]
          · simp
          · rintro (h | ⟨h1, h2⟩)
            · exact hg.1 h
            · exact hg.2 h2 h1
      case shr => cases sg <;> simp
  exact key lty.isSigned rfl (by intro x h; rw [h] at hl; cases hl)

theorem foldBin_div_zero (op : BinOp) (hop : op = .div ∨ op = .mod) {lty : Ty} (hl : lty.isInt = true)
    (l : Nat) (ty : Ty) : foldBin ops op lty l 0 ty = .unfolded := by
  simp only [foldBin, divGuard, hl]
  rw [if_pos]; exact ⟨hop, by simp⟩

theorem foldBin_min_neg_one (op : BinOp) (hop : op = .div ∨ op = .mod) (sz : Nat) (ty : Ty) :
    foldBin ops op (.int sz true) (2 ^ 63) (W - 1) ty = .unfolded := by
  simp only [foldBin]
  rw [if_pos]
  refine ⟨hop, ?_⟩
  simp only [divGuard, Ty.isInt, Ty.isSigned]
  decide

theorem foldBin_shift_total (op : BinOp) (hop : op = .shl ∨ op = .shr) (sz : Nat) (sg : Bool)
    (l r : Nat) (ty : Ty) : ∃ u, foldBin ops op (.int sz sg) l r ty = .folded u := by
  rcases hop with rfl | rfl
  · simp [foldBin, binary, binaryRaw]
  · cases sg <;> simp [foldBin, binary, binaryRaw, Ty.isSigned]

theorem castInt_8 (sg : Bool) {x : Nat} (hx : x < W) : castInt 8 sg x = x := by
  have := castInt_nat (t := ⟨64, sg⟩) (by simp [IntTy.Arith]) x
  rw [W_eq] at hx
  cases sg <;> simp [wrap, repr64] at this <;> rw [this] <;> omega

end Part2d

/-! ## Part 3: the invariant and the induction over `eval` -/

def Ty.Wf : Ty → Prop
  | .int sz _ => sz = 1 ∨ sz = 2 ∨ sz = 4 ∨ sz = 8
  | _ => True


/-- the C type behind a model type `(size, signed)`. -/
def ityOf (sz : Nat) (sg : Bool) : IntTy := ⟨sz * 8, sg⟩

/-- the C integer type behind a model type (`none` for non-integer types). -/
def Ty.ity? : Ty → Option IntTy
  | .int sz sg => some (ityOf sz sg)
  | .bool => some IntTy.bool
  | _ => none

/-- "the constant `u` of type `ty` is `repr64 t v` for some `v ∈ range t`".  For `_Bool` the
storage invariant of eval.c is the one of an 8-bit unsigned type (`cast` masks to 8 bits); that
the constants the parser and the conversion TO `_Bool` produce are 0 or 1 is part of
`eval_correct`. -/
def IsCanon : Ty → Nat → Prop
  | .int sz sg, u => ∃ v, InRange (ityOf sz sg) v ∧ u = repr64 (ityOf sz sg) v
  | .bool, u => ∃ v, InRange IntTy.uchar v ∧ u = repr64 IntTy.uchar v
  | _, _ => True

/-- the all-ones constant that `unaryexpr` creates for `~e` (`mkconstexpr(e->type, -1)`). -/
def MaskLeaf (e : Expr) : Prop := ∃ t, e = .const t (W - 1)

/-- Every integer constant node of type `t` carries `repr64 t v` for some `v ∈ range t` (and every
integer type has a real size).  Only exception: the right operand of `^` may be the all-ones
mask of `~`.  `Expr.bad` (internal error / host UB) never satisfies the invariant. -/
def Canon : Expr → Prop
  | .const t u => t.Wf ∧ IsCanon t u
  | .enumc t u => t.Wf ∧ IsCanon t u
  | .obj _ _ | .str _ _ | .compound _ _ _ | .opaque _ _ => True
  | .unary _ t b => t.Wf ∧ Canon b
  | .cast t b => t.Wf ∧ Canon b
  | .binary op t l r => t.Wf ∧ Canon l ∧ (Canon r ∨ (op = .bxor ∧ MaskLeaf r))
  | .cond t c a b => t.Wf ∧ Canon c ∧ Canon a ∧ Canon b
  | .error => True
  | .bad => False

theorem ityOf_arith {sz : Nat} {sg : Bool} (h : (Ty.int sz sg).Wf) : (ityOf sz sg).Arith := by
  simp only [Ty.Wf] at h
  rcases h with h | h | h | h <;> subst h <;> simp [ityOf, IntTy.Arith]

theorem tyOf_ityOf {sz : Nat} {sg : Bool} (h : (Ty.int sz sg).Wf) : tyOf (ityOf sz sg) = .int sz sg := by
  simp only [Ty.Wf] at h
  rcases h with h | h | h | h <;> subst h <;> simp [tyOf, ityOf]

theorem ityOf_bits_div {sz : Nat} {sg : Bool} : (ityOf sz sg).bits / 8 = sz := by
  simp [ityOf]

section
variable {F : Type} (ops : FloatOps F)

theorem cast_isCanon {t : Ty} (h : t.Wf) (x : Nat) : IsCanon t (cast ops t x) := by
  cases t with
  | int sz sg =>
    have ha := ityOf_arith h
    refine ⟨wrap (ityOf sz sg) (x : Int), wrap_inRange (Or.inr ha) _, ?_⟩
    have := castInt_nat ha x
    rw [ityOf_bits_div] at this
    exact this
  | bool =>
    exact ⟨wrap IntTy.uchar (x : Int), wrap_inRange (Or.inr (by decide)) _,
      castInt_nat (t := IntTy.uchar) (by decide) x⟩
  | _ => trivial

theorem isCanon_b2n {t : Ty} (h : t.Wf) (c : Bool) : IsCanon t (b2n c) := by
  cases t with
  | int sz sg =>
    refine ⟨b2i c, ?_, ?_⟩
    · simp only [Ty.Wf] at h
      rcases h with h | h | h | h <;> subst h <;> cases sg <;> cases c <;>
        simp [InRange, minVal, maxVal, ityOf, b2i]
    · cases c <;> simp [b2n, b2i, repr64]
  | bool => exact ⟨b2i c, by cases c <;> decide, by cases c <;> decide⟩
  | _ => trivial

theorem castConst_canon {lty t : Ty} (h : t.Wf) (l : Nat) : Canon (castConst ops lty t l) := by
  unfold castConst
  split
  · exact ⟨h, cast_isCanon ops h _⟩
  · split
    · exact ⟨h, cast_isCanon ops h _⟩
    · split
      · dsimp only
        split
        · split
          · exact ⟨h, cast_isCanon ops h _⟩
          · trivial
        · split
          · exact ⟨h, cast_isCanon ops h _⟩
          · trivial
      · exact ⟨h, cast_isCanon ops h _⟩

theorem binary_isCanon {op : BinOp} {lty ty : Ty} {l r u : Nat} (h : ty.Wf)
    (hb : binary ops op lty l r ty = some u) : IsCanon ty u := by
  simp only [binary] at hb
  cases hr : binaryRaw ops op lty l r with
  | none => rw [hr] at hb; cases hb
  | some x => rw [hr] at hb; cases hb; exact cast_isCanon ops h x

theorem evalAddSub_canon {op : BinOp} {ty : Ty} {l r : Expr}
    (ht : ty.Wf) (hl : Canon l) (hr : Canon r) :
    evalAddSub ops op ty l r = .bad ∨ Canon (evalAddSub ops op ty l r) := by
  unfold evalAddSub
  simp only
  -- the (possibly swapped) operands are canonical
  generalize hl1 : (if op = .add ∧ r.isBinary = true then r else l) = l1
  generalize hr1 : (if op = .add ∧ r.isBinary = true then l else r) = r1
  have hl1c : Canon l1 := by rw [← hl1]; split <;> assumption
  have hr1c : Canon r1 := by rw [← hr1]; split <;> assumption
  have hdef : Canon (.binary op ty l1 r1) := ⟨ht, hl1c, Or.inl hr1c⟩
  split
  · rename_i rty ru
    split
    · rename_i lty lu
      split
      · rename_i u hb; exact Or.inr ⟨ht, binary_isCanon ops ht hb⟩
      · exact Or.inl rfl
    · rename_i ll c1ty c1
      split
      · rename_i u hb
        exact Or.inr ⟨ht, hl1c.2.1, Or.inl ⟨hr1c.1, binary_isCanon ops hr1c.1 hb⟩⟩
      · exact Or.inl rfl
    · exact Or.inr hdef
  · exact Or.inr hdef

theorem foldBin_isCanon {op : BinOp} {lty ty : Ty} {l r u : Nat} (h : ty.Wf)
    (hb : foldBin ops op lty l r ty = .folded u) : IsCanon ty u := by
  simp only [foldBin] at hb
  split at hb
  · cases hb
  · split at hb
    · rename_i u' hbin; cases hb; exact binary_isCanon ops h hbin
    · cases hb

theorem canon_of_isFail {e : Expr} (h : e.isFail = true) : e = .bad ∨ Canon e := by
  cases e <;> simp [Expr.isFail] at h
  · exact Or.inr trivial
  · exact Or.inl rfl

theorem eval_maskLeaf {e : Expr} (h : MaskLeaf e) : eval ops e = e := by
  obtain ⟨t, rfl⟩ := h; simp [eval]

theorem eval_canon (e : Expr) : Canon e → eval ops e = .bad ∨ Canon (eval ops e) := by
  induction e with
  | const t u => intro h; exact Or.inr (by simpa [eval] using h)
  | enumc t u => intro h; exact Or.inr (by simpa [eval, Canon] using h)
  | obj t n => intro _; exact Or.inr (by simp [eval, Canon])
  | str t i => intro _; exact Or.inr (by simp [eval, Canon])
  | compound t st i => intro _; refine Or.inr ?_; simp only [eval]; split <;> trivial
  | «opaque» t i => intro _; exact Or.inr (by simp [eval, Canon])
  | cond t c a b _ _ _ => intro h; exact Or.inr (by simpa [eval] using h)
  | error => intro _; exact Or.inr (by simp [eval, Canon])
  | bad => intro h; exact absurd h (by simp [Canon])
  | unary op t base ih =>
    intro h
    obtain ⟨ht, hb⟩ := h
    have ihb := ih hb
    simp only [eval]
    split
    · rename_i hf; exact canon_of_isFail hf
    · rename_i hf
      rcases ihb with ihb | ihb
      · rw [ihb] at hf; simp [Expr.isFail] at hf
      · cases op
        · -- addr
          dsimp only
          split
          · rename_i b hl; rw [hl] at ihb; exact Or.inr ihb.2
          · exact Or.inr ⟨ht, trivial⟩
          · exact Or.inr ⟨ht, ihb⟩
        · exact Or.inr ⟨ht, ihb⟩
        · dsimp only
          split
          · exact Or.inr ⟨ht, cast_isCanon ops ht _⟩
          · exact Or.inr ⟨ht, ihb⟩
  | cast t base ih =>
    intro h
    obtain ⟨ht, hb⟩ := h
    have ihb := ih hb
    simp only [eval]
    split
    · rename_i hf; exact canon_of_isFail hf
    · rename_i hf
      rcases ihb with ihb | ihb
      · rw [ihb] at hf; simp [Expr.isFail] at hf
      · split
        · exact Or.inr (castConst_canon ops ht _)
        · split
          · exact Or.inr ihb
          · exact Or.inr ⟨ht, ihb⟩
  | binary op t a b iha ihb =>
    intro h
    obtain ⟨ht, ha, hb⟩ := h
    have iha' := iha ha
    -- the evaluated right operand is canonical, or still the mask of `~`
    have ihb' : eval ops b = .bad ∨ Canon (eval ops b) ∨ (op = .bxor ∧ MaskLeaf (eval ops b)) := by
      rcases hb with hb | ⟨ho, hm⟩
      · rcases ihb hb with h | h
        · exact Or.inl h
        · exact Or.inr (Or.inl h)
      · rw [eval_maskLeaf ops hm]; exact Or.inr (Or.inr ⟨ho, hm⟩)
    simp only [eval]
    split
    · rename_i hf; exact canon_of_isFail hf
    · rename_i hfl
      split
      · rename_i hf; exact canon_of_isFail hf
      · rename_i hfr
        rcases iha' with iha' | iha'
        · rw [iha'] at hfl; simp [Expr.isFail] at hfl
        · rcases ihb' with ihb' | ihb'
          · rw [ihb'] at hfr; simp [Expr.isFail] at hfr
          · have hdef : Canon (.binary op t (eval ops a) (eval ops b)) := ⟨ht, iha', ihb'⟩
            split
            · -- add
              rcases ihb' with ihb' | ⟨ho, _⟩
              · exact evalAddSub_canon ops ht iha' ihb'
              · cases ho
            · rcases ihb' with ihb' | ⟨ho, _⟩
              · exact evalAddSub_canon ops ht iha' ihb'
              · cases ho
            · -- lor / land
              split
              · split
                · split
                  · exact Or.inr ⟨ht, isCanon_b2n ht _⟩
                  · exact Or.inr hdef
                · exact Or.inr ⟨ht, isCanon_b2n ht _⟩
              · exact Or.inr hdef
            · split
              · split
                · split
                  · exact Or.inr ⟨ht, isCanon_b2n ht _⟩
                  · exact Or.inr hdef
                · exact Or.inr ⟨ht, isCanon_b2n ht _⟩
              · exact Or.inr hdef
            · split
              · split
                · rename_i u hf; exact Or.inr ⟨ht, foldBin_isCanon ops ht hf⟩
                · exact Or.inr hdef
                · exact Or.inl rfl
              · exact Or.inr hdef

end


/-! ## Part 4: C semantics of the integer fragment and the induction `eval_correct` -/

/-- value denoted by the 64-bit pattern `u` of a constant whose type is signed / unsigned. -/
def valOf (sg : Bool) (u : Nat) : Int := if sg then toI u else (u : Int)

/-- The integer fragment: constants, enum constants, unary minus, casts and binary operators,
every node of integer type (`_Bool` included). -/
def IntFrag : Expr → Prop
  | .const t _ => t.isInt = true
  | .enumc t _ => t.isInt = true
  | .unary op t b => op = .neg ∧ t.isInt = true ∧ IntFrag b
  | .cast t b => t.isInt = true ∧ IntFrag b
  | .binary _ t l r => t.isInt = true ∧ IntFrag l ∧ IntFrag r
  | _ => False

/-- value of a constant leaf: `_Bool` leaves (`true`, `false`) carry 0 or 1. -/
def leafVal (t : Ty) (u : Nat) : Option Int :=
  match t with
  | .int _ sg => some (valOf sg u)
  | .bool => if u ≤ 1 then some (u : Int) else none
  | _ => none

/-- C11 value of an expression of the integer fragment (`none`: undefined behaviour, or not
typed the way `mkbinaryexpr`/`unaryexpr` type their nodes: both operands of an arithmetic or
comparison operator have the common (promoted, hence non-`_Bool`) type, the result of a
comparison or logical operator is `int`, the result of a shift has the type of the promoted left
operand; the operands of `||`/`&&` and of a cast have any integer type). -/
def evalC : Expr → Option Int
  | .const t u => leafVal t u
  | .enumc t u => leafVal t u
  | .unary .neg (.int sz sg) b =>
    if b.ty = .int sz sg then (evalC b).bind (un .neg (ityOf sz sg)) else none
  | .cast t b =>
    match t.ity?, b.ty.ity? with
    | some ti, some _ => (evalC b).map (wrap ti)
    | _, _ => none
  | .binary op (.int sz sg) l r =>
    if op = .lor ∨ op = .land then
      match l.ty.ity?, r.ty.ity? with
      | some _, some _ =>
        (if sz = 4 ∧ sg = true then
          (evalC l).bind fun a => if op = .lor then lorSC a (evalC r) else landSC a (evalC r)
         else none)
      | _, _ => none
    else
      match l.ty, r.ty with
      | .int lsz lsg, .int rsz rsg =>
        if (op.isShift = true ∨ (rsz = lsz ∧ rsg = lsg)) ∧
            Ty.int sz sg = tyOf (binResTy op (ityOf lsz lsg)) then
          (if op = .bxor ∧ r = .const (.int rsz rsg) (W - 1) then
            (evalC l).bind (un .bnot (ityOf lsz lsg))        -- `~l`, as `unaryexpr` builds it
           else (evalC l).bind fun a => (evalC r).bind fun b => bin op (ityOf lsz lsg) a b)
        else none
      | _, _ => none
  | _ => none

theorem valOf_repr64 {sz : Nat} {sg : Bool} (h : (Ty.int sz sg).Wf) {v : Int}
    (hv : InRange (ityOf sz sg) v) : valOf sg (repr64 (ityOf sz sg) v) = v := by
  have ha := ityOf_arith h
  cases sg
  · simp only [valOf, Bool.false_eq_true, if_false]; exact repr64_unsigned ha hv rfl
  · simp only [valOf, if_true]; exact toI_repr64 ha hv rfl

theorem canon_ty_wf {e : Expr} (hc : Canon e) (hi : IntFrag e) : e.ty.Wf := by
  cases e <;> simp only [IntFrag] at hi <;> first | exact hc.1 | exact hi.elim

theorem ity?_isSome_of_isInt {t : Ty} (h : t.isInt = true) : ∃ ti, t.ity? = some ti := by
  cases t <;> simp [Ty.isInt, Ty.ity?] at *

theorem isInt_of_ity? {t : Ty} {ti : IntTy} (h : t.ity? = some ti) : t.isInt = true := by
  cases t <;> simp [Ty.isInt, Ty.ity?] at *

theorem ity?_valid {t : Ty} {ti : IntTy} (hw : t.Wf) (h : t.ity? = some ti) : ti.Valid := by
  cases t with
  | int sz sg => simp only [Ty.ity?, Option.some.injEq] at h; subst h; exact Or.inr (ityOf_arith hw)
  | bool => simp only [Ty.ity?, Option.some.injEq] at h; subst h; exact Or.inl rfl
  | _ => simp [Ty.ity?] at h

theorem tyOf_ity? {t : Ty} {ti : IntTy} (hw : t.Wf) (h : t.ity? = some ti) : tyOf ti = t := by
  cases t with
  | int sz sg => simp only [Ty.ity?, Option.some.injEq] at h; subst h; exact tyOf_ityOf hw
  | bool => simp only [Ty.ity?, Option.some.injEq] at h; subst h; rfl
  | _ => simp [Ty.ity?] at h

section
variable {F : Type} (ops : FloatOps F)

theorem evalAddSub_intFrag {op : BinOp} {ty : Ty} {l r : Expr} (hop : op = .add ∨ op = .sub)
    (ht : ty.isInt = true) (hl : IntFrag l) (hr : IntFrag r) :
    IntFrag (evalAddSub ops op ty l r) ∧ (evalAddSub ops op ty l r).ty = ty := by
  unfold evalAddSub
  simp only
  generalize hl1 : (if op = .add ∧ r.isBinary = true then r else l) = l1
  generalize hr1 : (if op = .add ∧ r.isBinary = true then l else r) = r1
  have hl1c : IntFrag l1 := by rw [← hl1]; split <;> assumption
  have hr1c : IntFrag r1 := by rw [← hr1]; split <;> assumption
  have hdef : IntFrag (.binary op ty l1 r1) ∧ (Expr.binary op ty l1 r1).ty = ty := ⟨⟨ht, hl1c, hr1c⟩, rfl⟩
  split
  · rename_i rty ru
    split
    · rename_i lty lu
      have hlty : lty.isInt = true := hl1c
      have : ∃ u, binary ops op lty lu ru ty = some u := by
        cases lty <;> simp [Ty.isInt] at hlty <;> rcases hop with rfl | rfl <;> simp [binary, binaryRaw]
      obtain ⟨u, hu⟩ := this
      rw [hu]; exact ⟨ht, rfl⟩
    · rename_i ll c1ty c1
      simp [IntFrag, Ty.isInt] at hl1c
    · exact hdef
  · exact hdef

theorem castConst_intFrag {lty t : Ty} (hl : lty.isInt = true) (ht : t.isInt = true) (l : Nat) :
    IntFrag (castConst ops lty t l) ∧ (castConst ops lty t l).ty = t := by
  cases t <;> simp [Ty.isInt] at ht
  · rw [castConst_int ops hl]; exact ⟨rfl, rfl⟩
  · rw [castConst_bool]; exact ⟨rfl, rfl⟩

theorem not_isFail_of_intFrag {e : Expr} (h : IntFrag e) : e.isFail = false := by
  cases e <;> first | rfl | exact h.elim

theorem eval_intFrag (e : Expr) : IntFrag e → IntFrag (eval ops e) ∧ (eval ops e).ty = e.ty := by
  induction e with
  | const t u => intro h; exact ⟨by simpa [eval] using h, by simp [eval, Expr.ty]⟩
  | enumc t u => intro h; exact ⟨by simpa [eval, IntFrag] using h, by simp [eval, Expr.ty]⟩
  | obj t n => intro h; exact h.elim
  | str t i => intro h; exact h.elim
  | compound t st i => intro h; exact h.elim
  | «opaque» t i => intro h; exact h.elim
  | cond t c a b _ _ _ => intro h; exact h.elim
  | error => intro h; exact h.elim
  | bad => intro h; exact h.elim
  | unary op t base ih =>
    rintro ⟨rfl, ht, hb⟩
    obtain ⟨ih1, ih2⟩ := ih hb
    have hnf := not_isFail_of_intFrag ih1
    simp only [eval, hnf, Bool.false_eq_true, if_false]
    split
    · exact ⟨ht, rfl⟩
    · exact ⟨⟨rfl, ht, ih1⟩, rfl⟩
  | cast t base ih =>
    rintro ⟨ht, hb⟩
    obtain ⟨ih1, ih2⟩ := ih hb
    have hnf := not_isFail_of_intFrag ih1
    simp only [eval, hnf, Bool.false_eq_true, if_false]
    split
    · rename_i lty u hl
      rw [hl] at ih1
      exact castConst_intFrag ops ih1 ht u
    · split
      · rename_i hp
        have hty : (eval ops base).ty.isInt = true := by
          cases h : eval ops base <;> rw [h] at ih1 <;> simp only [IntFrag] at ih1 <;>
            first | exact ih1.elim | exact ih1 | exact ih1.1 | exact ih1.2.1
        rw [hp.1] at hty; cases hty
      · exact ⟨⟨ht, ih1⟩, rfl⟩
  | binary op t a b iha ihb =>
    rintro ⟨ht, ha, hb⟩
    obtain ⟨iha1, iha2⟩ := iha ha
    obtain ⟨ihb1, ihb2⟩ := ihb hb
    have hnfa := not_isFail_of_intFrag iha1
    have hnfb := not_isFail_of_intFrag ihb1
    have hdef : IntFrag (.binary op t (eval ops a) (eval ops b)) ∧
        (Expr.binary op t (eval ops a) (eval ops b)).ty = (Expr.binary op t a b).ty :=
      ⟨⟨ht, iha1, ihb1⟩, rfl⟩
    simp only [eval, hnfa, hnfb, Bool.false_eq_true, if_false]
    split
    · exact evalAddSub_intFrag ops (Or.inl rfl) ht iha1 ihb1
    · exact evalAddSub_intFrag ops (Or.inr rfl) ht iha1 ihb1
    · split
      · split
        · split
          · exact ⟨ht, rfl⟩
          · exact hdef
        · exact ⟨ht, rfl⟩
      · exact hdef
    · split
      · split
        · split
          · exact ⟨ht, rfl⟩
          · exact hdef
        · exact ⟨ht, rfl⟩
      · exact hdef
    · rename_i hop1 hop2 hop3 hop4
      split
      · rename_i lty lu rty ru hl hr
        rw [hl] at iha1
        split
        · exact ⟨ht, rfl⟩
        · exact hdef
        · rename_i hf
          exact absurd hf (foldBin_no_hostUB ops op ⟨fun h => hop3 h, fun h => hop4 h⟩ iha1 lu ru t)
      · exact hdef

end

section
variable {F : Type} (ops : FloatOps F)

/-- shape of the conclusion of `eval_correct`. -/
def FoldsTo (e : Expr) (v : Int) : Prop :=
  ∃ t, e.ty.ity? = some t ∧ InRange t v ∧ eval ops e = .const e.ty (repr64 t v)

theorem divGuard_false_of_defined {t : IntTy} (ht : t.Arith) {op : BinOp} (hop : op = .div ∨ op = .mod)
    {a b v : Int} (ha : InRange t a) (hb : InRange t b) (h : bin op t a b = some v) :
    divGuard (tyOf t) (repr64 t a) (repr64 t b) = false := by
  have hb0 : b ≠ 0 := by
    rcases hop with rfl | rfl <;> simp only [bin] at h <;> (intro e; simp [e] at h)
  have hr0 : ¬ repr64 t b = 0 := fun e => hb0 ((repr64_eq_zero ht hb).1 e)
  rw [tyOf_arith ht]
  simp only [divGuard, Ty.isInt, Ty.isSigned, Bool.true_and, decide_eq_false hr0, Bool.false_or]
  cases hs : t.signed
  · simp
  · simp only [Bool.true_and, toI_repr64 ht ha hs, toI_repr64 ht hb hs]
    have hr : InRange t (Int.tdiv a b) := by
      rcases hop with rfl | rfl <;> simp only [bin, if_neg hb0] at h
      · exact (arith_signed hs h).2
      · apply Classical.byContradiction
        intro hn; rw [if_pos ⟨hs, hn⟩] at h; cases h
    have := no_overflow_of_inRange ht hr hs
    by_cases h1 : b = -1 <;> by_cases h2 : a = -(2 ^ 63) <;> simp [h1, h2]
    · exact this ⟨h2, h1⟩
    · omega

theorem foldBin_correct {t tr : IntTy} (ht : t.Arith) (htr : tr.Arith) (op : BinOp)
    (hop : op ≠ .lor ∧ op ≠ .land) (hty : op.isShift = false → tr = t)
    {a b v : Int} (ha : InRange t a) (hb : InRange tr b) (h : bin op t a b = some v) :
    foldBin ops op (tyOf t) (repr64 t a) (repr64 tr b) (tyOf (binResTy op t))
      = .folded (repr64 (binResTy op t) v) := by
  have hbin := binary_correct ops ht htr op hop hty ha hb h
  have hres : (binResTy op t).Valid := by
    simp only [binResTy]; split
    · exact Or.inr int_arith
    · exact Or.inr ht
  have hvr : InRange (binResTy op t) v := by
    refine bin_inRange ht op ha (fun hs => ?_) h
    cases hty hs; exact hb
  rw [wrap_of_inRange hres hvr] at hbin
  simp only [foldBin]
  split
  · rename_i hg
    obtain ⟨ho, hg⟩ := hg
    have hs : op.isShift = false := by rcases ho with rfl | rfl <;> rfl
    cases hty hs
    rw [divGuard_false_of_defined ht ho ha hb h] at hg
    cases hg
  · rw [hbin]

theorem not_isFail_of_const {e : Expr} {t : Ty} {u : Nat} (h : e = .const t u) : e.isFail = false := by
  subst h; rfl

theorem tyOf_binResTy {op : BinOp} {lsz : Nat} {lsg : Bool} (h : (Ty.int lsz lsg).Wf) :
    tyOf (binResTy op (ityOf lsz lsg)) = if op.isCmp then .int 4 true else .int lsz lsg := by
  simp only [binResTy]
  split
  · rfl
  · exact tyOf_ityOf h

theorem ityOf_int : ityOf 4 true = IntTy.int := rfl

theorem ity?_int (sz : Nat) (sg : Bool) : (Ty.int sz sg).ity? = some (ityOf sz sg) := rfl

theorem eval_correct (e : Expr) : IntFrag e → Canon e → ∀ v, evalC e = some v → FoldsTo ops e v := by
  induction e with
  | obj t n => intro h; exact h.elim
  | str t i => intro h; exact h.elim
  | compound t st i => intro h; exact h.elim
  | «opaque» t i => intro h; exact h.elim
  | cond t c a b _ _ _ => intro h; exact h.elim
  | error => intro h; exact h.elim
  | bad => intro h; exact h.elim
  | const t u =>
    intro hi hc v hv
    obtain ⟨hw, hcan⟩ := hc
    cases t with
    | int sz sg =>
      obtain ⟨v', hr, rfl⟩ := hcan
      simp only [evalC, leafVal, valOf_repr64 hw hr, Option.some.injEq] at hv
      subst hv
      exact ⟨_, rfl, hr, by simp [eval, Expr.ty]⟩
    | bool =>
      simp only [evalC, leafVal] at hv
      split at hv
      · rename_i hu
        cases hv
        refine ⟨IntTy.bool, rfl, ?_, ?_⟩
        · simp [InRange, minVal, maxVal, IntTy.bool]; omega
        · have : repr64 IntTy.bool (u : Int) = u := by simp only [repr64]; omega
          simp [eval, Expr.ty, this]
      · cases hv
    | _ => simp [IntFrag, Ty.isInt] at hi
  | enumc t u =>
    intro hi hc v hv
    obtain ⟨hw, hcan⟩ := hc
    cases t with
    | int sz sg =>
      obtain ⟨v', hr, rfl⟩ := hcan
      simp only [evalC, leafVal, valOf_repr64 hw hr, Option.some.injEq] at hv
      subst hv
      exact ⟨_, rfl, hr, by simp [eval, Expr.ty]⟩
    | bool =>
      simp only [evalC, leafVal] at hv
      split at hv
      · rename_i hu
        cases hv
        refine ⟨IntTy.bool, rfl, ?_, ?_⟩
        · simp [InRange, minVal, maxVal, IntTy.bool]; omega
        · have : repr64 IntTy.bool (u : Int) = u := by simp only [repr64]; omega
          simp [eval, Expr.ty, this]
      · cases hv
    | _ => simp [IntFrag, Ty.isInt] at hi
  | unary op t base ih =>
    rintro ⟨rfl, hi, hb⟩ ⟨hw, hcb⟩ v hv
    cases t with
    | int sz sg =>
      simp only [evalC] at hv
      split at hv
      · rename_i hty
        cases hev : evalC base with
        | none => rw [hev] at hv; cases hv
        | some a =>
          rw [hev, Option.bind_some] at hv
          obtain ⟨tb, htb, hra, he⟩ := ih hb hcb a hev
          rw [hty] at htb he
          cases htb
          have har := ityOf_arith hw
          refine ⟨ityOf sz sg, rfl, ?_, ?_⟩
          · simp only [un] at hv; exact arith_inRange (Or.inr har) hv
          · have := unaryNeg_correct ops har hv
            rw [tyOf_ityOf hw] at this
            have hwv : wrap (ityOf sz sg) v = v := by
              simp only [un] at hv
              exact wrap_of_inRange (Or.inr har) (arith_inRange (Or.inr har) hv)
            rw [hwv] at this
            show eval ops (.unary .neg (.int sz sg) base) = .const (.int sz sg) _
            simp only [eval, he, Expr.isFail, Bool.false_eq_true, if_false, this]
      · cases hv
    | _ => simp [evalC] at hv
  | cast t base ih =>
    rintro ⟨hi, hb⟩ ⟨hw, hcb⟩ v hv
    simp only [evalC] at hv
    split at hv
    case h_2 => cases hv
    rename_i ti tb' hti htb'
    cases hev : evalC base with
    | none => rw [hev] at hv; cases hv
    | some a =>
      rw [hev, Option.map_some] at hv; cases hv
      obtain ⟨tb, htb, hra, he⟩ := ih hb hcb a hev
      have hbw : base.ty.Wf := canon_ty_wf hcb hb
      have hvt := ity?_valid hw hti
      have hvb := ity?_valid hbw htb
      refine ⟨ti, hti, wrap_inRange hvt a, ?_⟩
      have hc := cast_correct ops hvb hvt hra
      rw [tyOf_ity? hbw htb, tyOf_ity? hw hti] at hc
      show eval ops (.cast t base) = .const t _
      simp only [eval, he, Expr.isFail, Bool.false_eq_true, if_false, hc]
  | binary op t l r ihl ihr =>
    rintro ⟨hi, hil, hir⟩ ⟨hw, hcl, hcr⟩ v hv
    cases t with
    | int sz sg =>
    simp only [evalC] at hv
    have hnfr : (eval ops r).isFail = false := not_isFail_of_intFrag (eval_intFrag ops r hir).1
    have hlwf : l.ty.Wf := canon_ty_wf hcl hil
    split at hv
    · -- `||`, `&&`
      rename_i hop
      split at hv
      case h_2 => cases hv
      rename_i tl tr htl htr
      split at hv
      case isFalse => cases hv
      rename_i hty
      obtain ⟨rfl, rfl⟩ := hty
      cases hel : evalC l with
      | none => rw [hel] at hv; cases hv
      | some a =>
        rw [hel, Option.bind_some] at hv
        obtain ⟨tl', htl', hra, he⟩ := ihl hil hcl a hel
        rw [htl] at htl'; cases htl'
        have hist : istrue ops l.ty (repr64 tl a) = decide (a ≠ 0) := by
          have := istrue_int ops (ity?_valid hlwf htl) hra
          rwa [tyOf_ity? hlwf htl] at this
        -- the right operand, when it is needed
        have hright : ∀ b, evalC r = some b → ∃ rty ru, eval ops r = .const rty ru ∧
            istrue ops rty ru = decide (b ≠ 0) := by
          intro b hb
          have hcr' : Canon r := by
            rcases hcr with h | ⟨ho, _⟩
            · exact h
            · rcases hop with h | h <;> rw [h] at ho <;> cases ho
          obtain ⟨tr', htr', hrb, her⟩ := ihr hir hcr' b hb
          have hrw : r.ty.Wf := canon_ty_wf hcr' hir
          refine ⟨_, _, her, ?_⟩
          have := istrue_int ops (ity?_valid hrw htr') hrb
          rwa [tyOf_ity? hrw htr'] at this
        refine ⟨IntTy.int, rfl, ?_, ?_⟩
        · split at hv
          · simp only [lorSC] at hv
            split at hv
            · cases hv; decide
            · cases her : evalC r with
              | none => rw [her] at hv; cases hv
              | some b => rw [her] at hv; cases hv; exact b2i_inRange _
          · simp only [landSC] at hv
            split at hv
            · cases hv; decide
            · cases her : evalC r with
              | none => rw [her] at hv; cases hv
              | some b => rw [her] at hv; cases hv; exact b2i_inRange _
        · rcases hop with rfl | rfl
          · simp only [if_true, lorSC] at hv
            show eval ops (.binary .lor (.int 4 true) l r) = .const (.int 4 true) _
            simp only [eval, not_isFail_of_const he, hnfr, Bool.false_eq_true, if_false]
            simp only [he, hist]
            by_cases ha0 : a = 0
            · subst ha0
              simp only [ne_eq, not_true, if_false] at hv
              cases her : evalC r with
              | none => rw [her] at hv; cases hv
              | some b =>
                rw [her] at hv; cases hv
                obtain ⟨rty, ru, her', hist'⟩ := hright b her
                simp [her', hist', repr64_b2i]
            · simp only [ne_eq, ha0, not_false_eq_true, if_true] at hv
              cases hv
              simp [ha0]; decide
          · simp only [landSC] at hv
            show eval ops (.binary .land (.int 4 true) l r) = .const (.int 4 true) _
            simp only [eval, not_isFail_of_const he, hnfr, Bool.false_eq_true, if_false]
            simp only [he, hist]
            by_cases ha0 : a = 0
            · subst ha0
              simp at hv; cases hv
              simp; decide
            · simp only [ha0, if_false] at hv
              cases her : evalC r with
              | none => rw [her] at hv; simp at hv
              | some b =>
                rw [her] at hv; simp at hv; cases hv
                obtain ⟨rty, ru, her', hist'⟩ := hright b her
                simp [ha0, her', hist', repr64_b2i]
    · rename_i hop
      split at hv
      case h_2 => cases hv
      rename_i lsz lsg rsz rsg hlty hrty
      have hlw : (Ty.int lsz lsg).Wf := by rw [← hlty]; exact hlwf
      have hla := ityOf_arith hlw
      revert hv
      intro hv
      have hop' : op ≠ .lor ∧ op ≠ .land := ⟨fun h => hop (Or.inl h), fun h => hop (Or.inr h)⟩
      split at hv
      case isFalse => cases hv
      rename_i htyp
      obtain ⟨hshape, hres⟩ := htyp
      split at hv
      · -- `~l`
        rename_i hmask
        obtain ⟨rfl, rfl⟩ := hmask
        have hres' : Ty.int sz sg = Ty.int lsz lsg := by rw [hres, tyOf_binResTy hlw]; rfl
        cases hres'
        cases hel : evalC l with
        | none => rw [hel] at hv; cases hv
        | some a =>
          rw [hel, Option.bind_some] at hv
          obtain ⟨tl, htl, hra, he⟩ := ihl hil hcl a hel
          rw [hlty] at htl he; cases htl
          have hvr : InRange (ityOf sz sg) v := by
            simp only [un] at hv; cases hv; exact wrap_inRange (Or.inr hla) _
          have := bnot_correct ops hla hv
          rw [tyOf_ityOf hlw, wrap_of_inRange (Or.inr hla) hvr] at this
          refine ⟨ityOf sz sg, rfl, hvr, ?_⟩
          show eval ops (.binary .bxor (.int sz sg) l _) = .const (.int sz sg) _
          simp only [eval, not_isFail_of_const he, Bool.false_eq_true, if_false]
          simp [he, this, Expr.isFail]
      · rename_i hnmask
        have hcr' : Canon r := by
          rcases hcr with h | ⟨ho, t', hr'⟩
          · exact h
          · exfalso; apply hnmask
            subst hr'
            simp only [Expr.ty] at hrty
            subst hrty
            exact ⟨ho, rfl⟩
        have hrw : (Ty.int rsz rsg).Wf := by rw [← hrty]; exact canon_ty_wf hcr' hir
        have hra' := ityOf_arith hrw
        cases hel : evalC l with
        | none => rw [hel] at hv; cases hv
        | some a =>
          rw [hel, Option.bind_some] at hv
          cases her : evalC r with
          | none => rw [her] at hv; cases hv
          | some b =>
            rw [her, Option.bind_some] at hv
            obtain ⟨tl, htl, hra, he⟩ := ihl hil hcl a hel
            rw [hlty] at htl he; cases htl
            obtain ⟨tr, htr, hrb, her'⟩ := ihr hir hcr' b her
            rw [hrty] at htr her'; cases htr
            have hty : op.isShift = false → ityOf rsz rsg = ityOf lsz lsg := by
              intro hs
              rcases hshape with h | ⟨h1, h2⟩
              · rw [hs] at h; cases h
              · rw [h1, h2]
            have hf := foldBin_correct ops hla hra' op hop' hty hra hrb hv
            rw [tyOf_ityOf hlw, ← hres] at hf
            have hvr : InRange (binResTy op (ityOf lsz lsg)) v := by
              refine bin_inRange hla op hra (fun hs => ?_) hv
              rw [← hty hs]; exact hrb
            -- the result type, as an `IntTy`
            have hrt : binResTy op (ityOf lsz lsg) = ityOf sz sg := by
              rw [tyOf_binResTy hlw] at hres
              simp only [binResTy]
              split at hres <;> rename_i hc <;> simp only [hc, if_true, Bool.false_eq_true, if_false] <;>
                cases hres <;> rfl
            rw [hrt] at hf hvr
            refine ⟨ityOf sz sg, rfl, hvr, ?_⟩
            show eval ops (.binary op (.int sz sg) l r) = .const (.int sz sg) _
            have hb2 : binary ops op (.int lsz lsg) (repr64 (ityOf lsz lsg) a) (repr64 (ityOf rsz rsg) b)
                (.int sz sg) = some (repr64 (ityOf sz sg) v) := by
              simp only [foldBin] at hf
              split at hf
              · cases hf
              · split at hf
                · rename_i u hu; cases hf; exact hu
                · cases hf
            simp only [eval, not_isFail_of_const he, not_isFail_of_const her', Bool.false_eq_true, if_false]
            simp only [he, her']
            cases op <;> simp only [hf] <;> first
              | exact absurd rfl hop'.1
              | exact absurd rfl hop'.2
              | simp [evalAddSub, Expr.isBinary, hb2]

    | _ => simp [evalC] at hv

end

end CprocVerif.Eval

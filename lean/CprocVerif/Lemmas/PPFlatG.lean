import CprocVerif.Lemmas.PPSubst

/-! # `ctxnext` against an annotated view of the context stack

`flatG g` is `flat` with every token annotated by a function of the names of the macros that have a
frame at or below the token's frame (`g (liveNames …)`): with `g` = "make a reference token with
this hide set" it is the abstraction of the stack used in the simulation. -/

namespace CprocVerif.PP
open CprocVerif.Gen.TokenKinds

section
variable {β : Type} (g : List Name → Tok → β)

def flatG (ms : List Macro) : List Frame → List β
  | [] => []
  | f :: rest => (frameToks ms f).map (g (liveNames (f :: rest))) ++ flatG ms rest

theorem flatG_setHide (ms : List Macro) (n : Name) (b : Bool) (ctx : List Frame) :
    flatG g (setHide ms n b) ctx = flatG g ms ctx := by
  induction ctx with
  | nil => rfl
  | cons f r ih => simp only [flatG, frameToks_setHide, ih]

theorem popDone_flatG : ∀ (ctx : List Frame) (ms : List Macro) (d : Nat),
    flatG g (popDone ctx ms d).2.1 (popDone ctx ms d).1 = flatG g ms ctx ∧
    ctxSize (popDone ctx ms d).1 = ctxSize ctx ∧
    (CtxWF ms ctx → CtxWF (popDone ctx ms d).2.1 (popDone ctx ms d).1)
  | [], ms, d => by unfold popDone; exact ⟨rfl, rfl, id⟩
  | f :: rest, ms, d => by
    have h3 := popDone_flat (f :: rest) ms d
    refine ⟨?_, h3.2.1, h3.2.2⟩
    unfold popDone
    split
    · rename_i hemp
      have hnil : f.toks = [] := by simpa using hemp
      split
      · rename_i n hn
        rw [(popDone_flatG rest (setHide ms n false) (d - 1)).1, flatG_setHide]
        simp [flatG, frameToks_nil ms f hnil]
      · rw [(popDone_flatG rest ms d).1]
        simp [flatG, frameToks_nil ms f hnil]
    · rfl

/-- what one pass of `ctxnext` does to `flatG g`, and which fields it touches -/
inductive StepSpecG (st : St) : CtxStep → Prop where
  | none (s : St) (h1 : s.rb = false) (h2 : s.ctx = []) (h3 : flatG g st.macros st.ctx = []) (h4 : s.raw = st.raw)
      (h5 : s.macros = (popDone st.ctx st.macros st.depth).2.1 ∧ s.depth = (popDone st.ctx st.macros st.depth).2.2 ∧
        liveNames s.ctx = liveNames (popDone st.ctx st.macros st.depth).1 ∧ s.ppnl = st.ppnl ∧ s.prag = st.prag) :
      StepSpecG st (.done (.ok s))
  | some (s : St) (h1 : s.rb = true)
      (h2 : flatG g st.macros st.ctx = g (liveNames s.ctx) s.rt :: flatG g s.macros s.ctx)
      (h3 : CtxWF s.macros s.ctx) (h4 : s.raw = st.raw)
      (h5 : s.macros = (popDone st.ctx st.macros st.depth).2.1 ∧ s.depth = (popDone st.ctx st.macros st.depth).2.2 ∧
        liveNames s.ctx = liveNames (popDone st.ctx st.macros st.depth).1 ∧ s.ppnl = st.ppnl ∧ s.prag = st.prag) :
      StepSpecG st (.done (.ok s))
  | again (s : St) (h1 : flatG g st.macros st.ctx = flatG g s.macros s.ctx) (h2 : ctxSize s.ctx < ctxSize st.ctx)
      (h3 : CtxWF s.macros s.ctx) (h4 : s.raw = st.raw)
      (h5 : s.macros = (popDone st.ctx st.macros st.depth).2.1 ∧ s.depth = (popDone st.ctx st.macros st.depth).2.2 ∧
        liveNames s.ctx = liveNames (popDone st.ctx st.macros st.depth).1 ∧ s.ppnl = st.ppnl ∧ s.prag = st.prag) :
      StepSpecG st (.again s)

theorem ctxnextStep_specG (st : St) (hW : CtxWF st.macros st.ctx) : StepSpecG g st (ctxnextStep st) := by
  have hpf := popDone_flatG g st.ctx st.macros st.depth
  have hW' := hpf.2.2 hW
  have hne := popDone_top st.ctx st.macros st.depth
  unfold ctxnextStep
  simp only
  cases hctx : (popDone st.ctx st.macros st.depth).1 with
  | nil =>
    refine .none _ rfl rfl ?_ rfl ⟨rfl, rfl, by rw [hctx], rfl, rfl⟩
    rw [← hpf.1, hctx]; rfl
  | cons f rest =>
    have hfne := hne f rest hctx
    rw [hctx] at hW'
    have hflat : flatG g st.macros st.ctx =
        (frameToks (popDone st.ctx st.macros st.depth).2.1 f).map (g (liveNames (f :: rest))) ++
        flatG g (popDone st.ctx st.macros st.depth).2.1 rest := by rw [← hpf.1, hctx]; rfl
    have hlv : ∀ toks', liveNames ({ f with toks := toks' } :: rest) = liveNames (f :: rest) := fun _ => liveNames_settoks f _ rest
    have hlvn : ∀ (as : List Tok) (X : List Frame), liveNames ((⟨as, none⟩ : Frame) :: X) = liveNames X := by
      intro as X; simp [liveNames]
    have hsize : ctxSize st.ctx = f.toks.length + ctxSize rest := by rw [← hpf.2.1, hctx, ctxSize_cons]
    have hWrest : ∀ g ∈ rest, ∀ m, g.mac.bind (macroget (popDone st.ctx st.macros st.depth).2.1) = some m →
        m.func = true → HashFollowed m.params g.toks := fun g hg => hW' g (List.mem_cons_of_mem _ hg)
    simp only
    cases htoks : f.toks with
    | nil => exact absurd htoks hfne
    | cons t more =>
      simp only
      -- the frame after `framenext`
      have hWmore : ∀ (toks' : List Tok), (∀ m, f.mac.bind (macroget (popDone st.ctx st.macros st.depth).2.1) = some m →
          m.func = true → HashFollowed m.params toks') →
          CtxWF (popDone st.ctx st.macros st.depth).2.1 ({ f with toks := toks' } :: rest) := by
        intro toks' h g hg
        rcases List.mem_cons.mp hg with rfl | hg
        · exact h
        · exact hWrest g hg
      cases hm : f.mac.bind (macroget (popDone st.ctx st.macros st.depth).2.1) with
      | none =>
        refine .some _ rfl ?_ (hWmore more (by intro m hh; rw [hm] at hh; cases hh)) rfl ⟨rfl, rfl, by rw [hctx, hlv], rfl, rfl⟩
        rw [hflat]
        simp only [flatG, hlv, frameToks, hm, htoks, List.map_cons, List.cons_append]
      | some m =>
        have hWf := hW' f (List.mem_cons_self ..) m hm
        by_cases hfun : m.func = true
        · have hHF : HashFollowed m.params (t :: more) := by rw [← htoks]; exact hWf hfun
          have hft : frameToks (popDone st.ctx st.macros st.depth).2.1 f = substBody m (t :: more) := by
            simp only [frameToks, hm, hfun, ↓reduceIte, htoks]
          have hft' : ∀ toks', frameToks (popDone st.ctx st.macros st.depth).2.1 { f with toks := toks' } = substBody m toks' := by
            intro toks'; simp only [frameToks, hm, hfun, ↓reduceIte]
          simp only [hfun, not_true_eq_false, ↓reduceIte]
          by_cases hh : t.kind = .THASH
          · simp only [hh, ↓reduceIte]
            cases more with
            | nil => unfold HashFollowed at hHF; exact absurd hh hHF
            | cons t2 more2 =>
              unfold HashFollowed at hHF
              simp only [hh, ↓reduceIte] at hHF
              simp only
              cases hp : macroparam m.params t2 with
              | none => rw [hp] at hHF; cases hHF.1
              | some i =>
                simp only
                refine .some _ rfl ?_ ?_ rfl ⟨rfl, rfl, by rw [hctx, hlvn, hlv], rfl, rfl⟩
                · rw [hflat, hft, substBody_hash m t t2 more2 i hh hp]
                  simp only [flatG, hlvn, hlv, frameToks_none, hft', List.map_nil, List.map_cons, List.nil_append, List.cons_append]
                · intro g hg
                  rcases List.mem_cons.mp hg with rfl | hg
                  · intro m' hm'; cases hm'
                  · exact hWmore more2 (fun m' hm' hf' => by rw [hm] at hm'; cases hm'; exact hHF.2) g hg
          · simp only [hh, ↓reduceIte]
            have hHFm : HashFollowed m.params more := hashFollowed_tail hHF hh
            by_cases hk : t.kind = .TIDENT
            · simp only [hk, ↓reduceIte]
              cases hp : macroparam m.params t with
              | none =>
                simp only
                refine .some _ rfl ?_ (hWmore more (fun m' hm' _ => by rw [hm] at hm'; cases hm'; exact hHFm)) rfl ⟨rfl, rfl, by rw [hctx, hlv], rfl, rfl⟩
                rw [hflat, hft, substBody_plain m t more hh (fun _ => hp)]
                simp only [flatG, hlv, hft', List.map_cons, List.cons_append]
              | some i =>
                simp only
                cases ha : (m.args.getD i default).toks with
                | nil =>
                  simp only
                  have hfl : flatG g st.macros st.ctx = flatG g (popDone st.ctx st.macros st.depth).2.1 ({ f with toks := more } :: rest) := by
                    rw [hflat, hft, substBody_param m t more i hk hp, ha]
                    simp only [respace, List.nil_append, flatG, hlv, hft']
                  have hsz : ctxSize ({ f with toks := more } :: rest) < ctxSize st.ctx := by
                    rw [hsize, ctxSize_cons, htoks]; simp
                  have hwf := hWmore more (fun m' hm' _ => by rw [hm] at hm'; cases hm'; exact hHFm)
                  split
                  · exact .again _ hfl hsz hwf rfl ⟨rfl, rfl, by rw [hctx]; exact hlv more, rfl, rfl⟩
                  · exact .again _ hfl hsz hwf rfl ⟨rfl, rfl, by rw [hctx, hlv], rfl, rfl⟩
                | cons a as =>
                  simp only
                  refine .some _ rfl ?_ ?_ rfl ⟨rfl, rfl, by rw [hctx, hlvn, hlv], rfl, rfl⟩
                  · rw [hflat, hft, substBody_param m t more i hk hp, ha]
                    simp only [respace, flatG, hlvn, hlv, frameToks_none, hft', List.map_cons, List.map_append, List.cons_append, List.append_assoc]
                  · intro g hg
                    rcases List.mem_cons.mp hg with rfl | hg
                    · intro m' hm'; cases hm'
                    · exact hWmore more (fun m' hm' _ => by rw [hm] at hm'; cases hm'; exact hHFm) g hg
            · simp only [hk, ↓reduceIte]
              refine .some _ rfl ?_ (hWmore more (fun m' hm' _ => by rw [hm] at hm'; cases hm'; exact hHFm)) rfl ⟨rfl, rfl, by rw [hctx, hlv], rfl, rfl⟩
              rw [hflat, hft, substBody_plain m t more hh (fun h => absurd h hk)]
              simp only [flatG, hlv, hft', List.map_cons, List.cons_append]
        · have hfun' : m.func = false := by cases h : m.func <;> simp_all
          simp only [hfun', Bool.false_eq_true, not_false_eq_true, ↓reduceIte]
          refine .some _ rfl ?_ (hWmore more (fun m' hm' hf' => by rw [hm] at hm'; cases hm'; rw [hfun'] at hf'; cases hf')) rfl ⟨rfl, rfl, by rw [hctx, hlv], rfl, rfl⟩
          rw [hflat]
          simp only [flatG, hlv, frameToks, hm, hfun', Bool.false_eq_true, ↓reduceIte, htoks, List.map_cons, List.cons_append]



end

/-- everything of a macro but its `hide` flag -/
def strip (m : Macro) : Name × Bool × List Param × List Arg × List Tok := (m.name, m.func, m.params, m.args, m.body)

theorem strip_setHide (ms : List Macro) (n : Name) (b : Bool) : (setHide ms n b).map strip = ms.map strip := by
  unfold setHide
  rw [List.map_map]
  apply List.map_congr_left
  intro m _
  simp only [Function.comp]
  split <;> rfl

theorem popDone_strip : ∀ (ctx : List Frame) (ms : List Macro) (d : Nat), (popDone ctx ms d).2.1.map strip = ms.map strip
  | [], ms, d => by unfold popDone; rfl
  | f :: rest, ms, d => by
    unfold popDone
    split
    · split
      · rw [popDone_strip, strip_setHide]
      · exact popDone_strip rest ms d
    · rfl

theorem exec_det {a b : Nat} {c : Call} {st s s' : St} (h1 : exec a c st = .ok s) (h2 : exec b c st = .ok s') : s = s' := by
  have e1 := exec_mono a b c st (by rw [h1]; intro h; cases h)
  have e2 := exec_mono b a c st (by rw [h2]; intro h; cases h)
  rw [Nat.add_comm b a, e1, h1] at e2
  rw [h2] at e2
  cases e2; rfl

theorem exec_det_err {a b : Nat} {c : Call} {st s : St} {e : Err} (h1 : exec a c st = .ok s)
    (h2 : exec b c st = .error e) (he : e ≠ .fuel) : False := by
  have e1 := exec_mono a b c st (by rw [h1]; intro h; cases h)
  have e2 := exec_mono b a c st (by rw [h2]; intro h; cases h; exact he rfl)
  rw [Nat.add_comm b a, e1, h1, h2] at e2
  cases e2

section
variable {β : Type} (g : List Name → Tok → β)

/-- **`ctxnext` against the annotated stack**, with what it preserves -/
theorem ctxnext_flatG : ∀ (k : Nat) (st : St), ctxSize st.ctx ≤ k → CtxWF st.macros st.ctx →
    ∃ s, exec (k + 1) .ctxnext st = .ok s ∧ s.raw = st.raw ∧ CtxWF s.macros s.ctx ∧ (s.ppnl = st.ppnl ∧ s.prag = st.prag) ∧
      s.macros.map strip = st.macros.map strip ∧
      (InvC st.ctx st.macros st.depth → InvC s.ctx s.macros s.depth) ∧
      ((s.rb = false ∧ s.ctx = [] ∧ flatG g st.macros st.ctx = []) ∨
       (s.rb = true ∧ flatG g st.macros st.ctx = g (liveNames s.ctx) s.rt :: flatG g s.macros s.ctx)) := by
  intro k
  induction k with
  | zero =>
    intro st hk hW
    have hs := ctxnextStep_specG g st hW
    have hps := popDone_strip st.ctx st.macros st.depth
    have hpi := fun h => (popDone_inv st.ctx st.macros st.depth h).1
    show ∃ s, ctxnextBody (exec 0) st = .ok s ∧ _
    unfold ctxnextBody
    generalize ctxnextStep st = cs at hs
    cases hs with
    | none s h1 h2 h3 h4 h5 =>
      exact ⟨s, rfl, h4, (by rw [h2]; intro f hf; cases hf), ⟨h5.2.2.2.1, h5.2.2.2.2⟩, (by rw [h5.1]; exact hps),
        (fun hi => by rw [h5.1, h5.2.1]; exact invC_of_liveNames (hpi hi) h5.2.2.1), .inl ⟨h1, h2, h3⟩⟩
    | some s h1 h2 h3 h4 h5 =>
      exact ⟨s, rfl, h4, h3, ⟨h5.2.2.2.1, h5.2.2.2.2⟩, (by rw [h5.1]; exact hps),
        (fun hi => by rw [h5.1, h5.2.1]; exact invC_of_liveNames (hpi hi) h5.2.2.1), .inr ⟨h1, h2⟩⟩
    | again s h1 h2 h3 h4 h5 => omega
  | succ k ih =>
    intro st hk hW
    have hs := ctxnextStep_specG g st hW
    have hps := popDone_strip st.ctx st.macros st.depth
    have hpi := fun h => (popDone_inv st.ctx st.macros st.depth h).1
    show ∃ s, ctxnextBody (exec (k + 1)) st = .ok s ∧ _
    unfold ctxnextBody
    generalize ctxnextStep st = cs at hs
    cases hs with
    | none s h1 h2 h3 h4 h5 =>
      exact ⟨s, rfl, h4, (by rw [h2]; intro f hf; cases hf), ⟨h5.2.2.2.1, h5.2.2.2.2⟩, (by rw [h5.1]; exact hps),
        (fun hi => by rw [h5.1, h5.2.1]; exact invC_of_liveNames (hpi hi) h5.2.2.1), .inl ⟨h1, h2, h3⟩⟩
    | some s h1 h2 h3 h4 h5 =>
      exact ⟨s, rfl, h4, h3, ⟨h5.2.2.2.1, h5.2.2.2.2⟩, (by rw [h5.1]; exact hps),
        (fun hi => by rw [h5.1, h5.2.1]; exact invC_of_liveNames (hpi hi) h5.2.2.1), .inr ⟨h1, h2⟩⟩
    | again s h1 h2 h3 h4 h5 =>
      obtain ⟨s', he, hr, hw, hp, hst, hinv, hc⟩ := ih s (by omega) h3
      refine ⟨s', he, by rw [hr, h4], hw, ⟨by rw [hp.1, h5.2.2.2.1], by rw [hp.2, h5.2.2.2.2]⟩, by rw [hst, h5.1]; exact hps, ?_, ?_⟩
      · intro hi
        apply hinv
        rw [h5.1, h5.2.1]; exact invC_of_liveNames (hpi hi) h5.2.2.1
      · rw [h1]; exact hc

end

end CprocVerif.PP

import CprocVerif.Model.PP

/-! # `macroequal` decides equality of definitions up to white space -/

namespace CprocVerif.PP
open CprocVerif.Gen.TokenKinds

/-- the observable part of a token: class and spelling -/
def Tok.key (t : Tok) : Kind × Option Name := (t.kind, t.lit)

/-- kinds whose tokens carry a spelling (`t->lit != NULL`) as the scanner delivers them -/
def hasLit (k : Kind) : Bool :=
  k = .TIDENT || k = .TNUMBER || k = .TCHARCONST || k = .TSTRINGLIT || k = .TOTHER

/-- the token is shaped as `scan()` shapes tokens: a spelling exactly for the kinds that have one -/
def Scanned (t : Tok) : Prop := t.lit.isSome = hasLit t.kind

instance (t : Tok) : Decidable (Scanned t) := by unfold Scanned; infer_instance

theorem tokensEqual_iff : ∀ (as bs : List Tok), (∀ a ∈ as, Scanned a) → (∀ b ∈ bs, Scanned b) →
    (tokensEqual as bs = true ↔ as.map Tok.key = bs.map Tok.key)
  | [], [], _, _ => by simp [tokensEqual]
  | [], _ :: _, _, _ => by simp [tokensEqual]
  | _ :: _, [], _, _ => by simp [tokensEqual]
  | a :: as, b :: bs, ha, hb => by
    have ih := tokensEqual_iff as bs (fun x hx => ha x (List.mem_cons_of_mem _ hx))
      (fun x hx => hb x (List.mem_cons_of_mem _ hx))
    have sa : Scanned a := ha a (List.mem_cons_self ..)
    have sb : Scanned b := hb b (List.mem_cons_self ..)
    unfold tokensEqual
    simp only [List.map_cons, List.cons.injEq, Tok.key, Prod.mk.injEq]
    by_cases hk : a.kind = b.kind
    · simp only [hk, ne_eq, not_true_eq_false, ↓reduceIte, true_and]
      by_cases hl : a.lit = b.lit
      · simp [hl, ih, Tok.key]
      · have : a.lit.isSome = true := by
          unfold Scanned at sa sb
          rw [hk] at sa
          cases h1 : a.lit with
          | some _ => rfl
          | none =>
            rw [h1] at sa hl
            cases h2 : b.lit with
            | none => rw [h2] at hl; exact absurd rfl hl
            | some _ => rw [h2] at sb; rw [← sa] at sb; cases sb
        simp [hl, this]
    · simp [hk]

theorem paramsEqual_iff : ∀ (ps qs : List Param), paramsEqual ps qs = true ↔ ps = qs
  | [], [] => by simp [paramsEqual]
  | [], _ :: _ => by simp [paramsEqual]
  | _ :: _, [] => by simp [paramsEqual]
  | p :: ps, q :: qs => by
    have ih := paramsEqual_iff ps qs
    unfold paramsEqual
    by_cases h : p = q
    · subst h
      simp [ih]
    · have hne : ¬ (p.name = q.name ∧ p.ftok = q.ftok ∧ p.fstr = q.fstr ∧ p.fvar = q.fvar) := by
        intro hh
        apply h
        cases p; cases q
        simp only at hh
        simp only [Param.mk.injEq]
        exact hh
      have : (p.name ≠ q.name || p.ftok ≠ q.ftok || p.fstr ≠ q.fstr || p.fvar ≠ q.fvar) = true := by
        simp only [ne_eq, Bool.or_eq_true, decide_eq_true_eq]
        by_cases a : p.name = q.name
        · by_cases b : p.ftok = q.ftok
          · by_cases c : p.fstr = q.fstr
            · by_cases d : p.fvar = q.fvar
              · exact absurd ⟨a, b, c, d⟩ hne
              · exact .inr d
            · exact .inl (.inr c)
          · exact .inl (.inl (.inr b))
        · exact .inl (.inl (.inl a))
      rw [if_pos this]
      simp [h]

theorem bodyEqual_iff (b1 b2 : List Tok) (h1 : ∀ a ∈ b1, Scanned a) (h2 : ∀ b ∈ b2, Scanned b) :
    (if b1.length ≠ b2.length then false else tokensEqual b1 b2) = true ↔ b1.map Tok.key = b2.map Tok.key := by
  split
  · rename_i hl
    constructor
    · intro h; cases h
    · intro h
      have := congrArg List.length h
      simp only [List.length_map] at this
      exact absurd this hl
  · exact tokensEqual_iff _ _ h1 h2

/-- **`macroequal` is equality of kind, parameters (names and flags) and token sequence (class and
spelling)** — nothing about white space. -/
theorem macroequal_iff (m1 m2 : Macro) (h1 : ∀ a ∈ m1.body, Scanned a) (h2 : ∀ b ∈ m2.body, Scanned b) :
    macroequal m1 m2 = true ↔
      (m1.func = m2.func ∧ (m1.func = true → m1.params = m2.params) ∧ m1.body.map Tok.key = m2.body.map Tok.key) := by
  have hb := bodyEqual_iff m1.body m2.body h1 h2
  unfold macroequal
  by_cases hf : m1.func = m2.func
  · cases hfun : m1.func with
    | false =>
      rw [hfun] at hf
      simp only [← hf, ne_eq, not_true_eq_false, ↓reduceIte, Bool.false_and, Bool.false_eq_true,
        false_imp_iff, true_and]
      exact hb
    | true =>
      rw [hfun] at hf
      simp only [← hf, ne_eq, not_true_eq_false, ↓reduceIte, Bool.true_and, forall_const, true_and]
      by_cases hp : m1.params = m2.params
      · have : paramsEqual m1.params m2.params = true := (paramsEqual_iff _ _).mpr hp
        rw [hp] at this
        simp only [hp, this, decide_true, Bool.and_self, Bool.not_true, Bool.false_eq_true, ↓reduceIte, true_and]
        exact hb
      · have : paramsEqual m1.params m2.params = false := by
          cases hq : paramsEqual m1.params m2.params with
          | false => rfl
          | true => exact absurd ((paramsEqual_iff _ _).mp hq) hp
        simp [hp, this]
  · simp [hf]

end CprocVerif.PP

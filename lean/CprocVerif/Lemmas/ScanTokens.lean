import CprocVerif.Lemmas.ScanProgress

/-! `scan` and the token loop: progress and fuel adequacy. -/

namespace CprocVerif.Scan
open CprocVerif.Gen.TokenKinds

theorem scan_cases (s : S) :
    (∃ e, scan s = .error e ∧ e.kind ≠ .fuel) ∨
    (∃ t s', scan s = .ok (t, s') ∧ (s'.len < s.len ∨ (t.kind = .TEOF ∧ s'.len = 0))) := by
  have h := scankind_progress' (s.inp.length + 2) ({ s with sawspace := false } : S)
    (by show s.inp.length < _; omega)
  unfold scan
  cases hk : scankind (s.inp.length + 2) ({ s with sawspace := false } : S) with
  | error e =>
    rw [hk] at h
    exact Or.inl ⟨e, rfl, h⟩
  | ok r =>
    obtain ⟨k, l, p, s1⟩ := r
    rw [hk] at h
    have h' : s1.len < s.len ∨ (k = .TEOF ∧ s1.len = 0) := h
    right
    simp only []
    split
    · exact ⟨_, _, rfl, h'⟩
    · exact ⟨_, _, rfl, h'⟩

theorem scan_progress (s : S) (t : Token) (s' : S) (h : scan s = .ok (t, s'))
    (hk : t.kind ≠ .TEOF) : s'.len < s.len := by
  rcases scan_cases s with ⟨e, he, _⟩ | ⟨t1, s1, h1, hp⟩
  · rw [he] at h; cases h
  · rw [h1] at h
    simp only [Except.ok.injEq, Prod.mk.injEq] at h
    obtain ⟨e1, e2⟩ := h
    subst e1 e2
    rcases hp with hp | hp
    · exact hp
    · exact absurd hp.1 hk

theorem scan_nofuel (s : S) (e : Err) (h : scan s = .error e) : e.kind ≠ .fuel := by
  rcases scan_cases s with ⟨e1, he, hk⟩ | ⟨t1, s1, h1, _⟩
  · rw [he] at h; cases h; exact hk
  · rw [h1] at h; cases h

/-- the token loop never runs out of fuel: it ends with a diagnostic of scan.c or with `TEOF` -/
theorem tokensLoop_end : ∀ (n : Nat) (s : S), s.len < n →
    (∃ e, (tokensLoop n s).2 = some e ∧ e.kind ≠ .fuel) ∨
    ((tokensLoop n s).2 = none ∧
      ∃ ts t, (tokensLoop n s).1 = ts ++ [t] ∧ t.kind = .TEOF ∧ ∀ x ∈ ts, x.kind ≠ .TEOF) := by
  intro n
  induction n with
  | zero => intro s h; omega
  | succ n ih =>
    intro s hn
    rw [tokensLoop]
    cases hs : scan s with
    | error e =>
      simp only []
      exact Or.inl ⟨e, rfl, scan_nofuel s e hs⟩
    | ok r =>
      obtain ⟨t, s'⟩ := r
      simp only []
      by_cases hk : t.kind = .TEOF
      · simp only [hk, if_true]
        exact Or.inr ⟨trivial, [], t, rfl, hk, by simp⟩
      · simp only [hk, if_false]
        have := scan_progress s t s' hs hk
        rcases ih s' (by omega) with ⟨e, he, hek⟩ | ⟨hnone, ts, tl, h1, h2, h3⟩
        · exact Or.inl ⟨e, he, hek⟩
        · refine Or.inr ⟨hnone, t :: ts, tl, by rw [h1]; rfl, h2, ?_⟩
          intro x hx
          rcases List.mem_cons.mp hx with e | e
          · rw [e]; exact hk
          · exact h3 x e

end CprocVerif.Scan

/-
  C01, fragment 𝔽₂ — `switch` (stmt.c `case TSWITCH`, qbe.c `funcswitch`): controlling expression, jump to
  `switch_cond`, the ladder, entry into the body at the selected label, `break` → `switch_join`.
-/
import CprocVerif.Lemmas.Lower2Skip
import CprocVerif.Props.C15

set_option linter.unusedSimpArgs false

namespace CprocVerif.LowerMach2
open CprocVerif.Qbe CprocVerif.Lower CprocVerif.Lower2 CprocVerif.CSem CprocVerif.CSem2 CprocVerif.CInt
open CprocVerif.LowerArith CprocVerif.LowerMach CprocVerif.LowerMem

/-! ## The registered cases are the labels of the spine -/

theorem cases_target (cs : Bool) (brk cont : String) (t : CSem.Ty) (v : Int) (b : Stmt) :
    ∀ c, ((funcstmt cs brk cont b c).cases.find? fun q => wrap (t.intTy cs) (q.1 : Int) == v).map (·.2) =
      targetLabel cs brk cont (isCase cs t v) b c := by
  induction b with
  | seq x y ihx ihy =>
    intro c
    simp only [funcstmt, targetLabel, List.find?_append]
    rw [← ihx c, ← ihy]
    cases (funcstmt cs brk cont x c).cases.find? fun q => wrap (t.intTy cs) (q.1 : Int) == v <;> rfl
  | case_ u =>
    intro c
    simp only [funcstmt, targetLabel, isCase, List.find?_cons, List.find?_nil]
    split <;> simp_all
  | decl i t' init => intro c; cases init <;> simp [funcstmt, targetLabel, isCase]
  | call dst rt fn args => intro c; rcases dst with _ | ⟨i, t'⟩ <;> simp [funcstmt, targetLabel, isCase]
  | callp dst rt fn pargs args => intro c; rcases dst with _ | ⟨i, t'⟩ <;> simp [funcstmt, targetLabel, isCase]
  | _ => intro c; simp [funcstmt, targetLabel, isCase]

theorem dflt_target (cs : Bool) (brk cont : String) (b : Stmt) :
    ∀ c, (funcstmt cs brk cont b c).dflt = targetLabel cs brk cont isDefault b c := by
  induction b with
  | seq x y ihx ihy =>
    intro c
    simp only [funcstmt, targetLabel]
    rw [← ihx c]
    cases (funcstmt cs brk cont x c).dflt with
    | some d => rfl
    | none => exact ihy _
  | default_ => intro c; simp [funcstmt, targetLabel, isDefault]
  | decl i t' init => intro c; cases init <;> simp [funcstmt, targetLabel, isDefault]
  | call dst rt fn args => intro c; rcases dst with _ | ⟨i, t'⟩ <;> simp [funcstmt, targetLabel, isDefault]
  | callp dst rt fn pargs args => intro c; rcases dst with _ | ⟨i, t'⟩ <;> simp [funcstmt, targetLabel, isDefault]
  | _ => intro c; simp [funcstmt, targetLabel, isDefault]

theorem cases_vals (cs : Bool) (brk cont : String) (b : Stmt) :
    ∀ c, (funcstmt cs brk cont b c).cases.map (·.1) = caseVals b := by
  induction b with
  | seq x y ihx ihy => intro c; simp only [funcstmt, caseVals, List.map_append, ihx, ihy]
  | case_ u => intro c; rfl
  | decl i t' init => intro c; cases init <;> simp [funcstmt, caseVals]
  | call dst rt fn args => intro c; rcases dst with _ | ⟨i, t'⟩ <;> simp [funcstmt, caseVals]
  | callp dst rt fn pargs args => intro c; rcases dst with _ | ⟨i, t'⟩ <;> simp [funcstmt, caseVals]
  | _ => intro c; simp [funcstmt, caseVals]

/-- every registered label is the label of an item without phi -/
theorem cases_items (cs : Bool) (brk cont : String) (b : Stmt) :
    ∀ c l, ((∃ u, (u, l) ∈ (funcstmt cs brk cont b c).cases) ∨ (funcstmt cs brk cont b c).dflt = some l) →
      ∃ p t q, (funcstmt cs brk cont b c).items = p ++ .lbl t l [] :: q := by
  induction b with
  | seq x y ihx ihy =>
    intro c l h
    simp only [funcstmt] at h ⊢
    have hx_or : ((∃ u, (u, l) ∈ (funcstmt cs brk cont x c).cases) ∨ (funcstmt cs brk cont x c).dflt = some l) ∨
        ((∃ u, (u, l) ∈ (funcstmt cs brk cont y (funcstmt cs brk cont x c).ctx).cases) ∨
          (funcstmt cs brk cont y (funcstmt cs brk cont x c).ctx).dflt = some l) := by
      rcases h with ⟨u, hu⟩ | hd
      · rcases List.mem_append.1 hu with h1 | h1
        · exact Or.inl (Or.inl ⟨u, h1⟩)
        · exact Or.inr (Or.inl ⟨u, h1⟩)
      · cases hxd : (funcstmt cs brk cont x c).dflt with
        | some d => rw [hxd] at hd; exact Or.inl (Or.inr hd)
        | none => rw [hxd] at hd; exact Or.inr (Or.inr hd)
    rcases hx_or with h1 | h1
    · obtain ⟨p, t, q, e⟩ := ihx c l h1
      exact ⟨p, t, q ++ (funcstmt cs brk cont y (funcstmt cs brk cont x c).ctx).items, by
        rw [e]; simp only [List.append_assoc, List.cons_append]⟩
    · obtain ⟨p, t, q, e⟩ := ihy _ l h1
      exact ⟨(funcstmt cs brk cont x c).items ++ p, t, q, by rw [e]; simp only [List.append_assoc]⟩
  | case_ u =>
    intro c l h
    simp only [funcstmt] at h ⊢
    rcases h with ⟨u', hu⟩ | hd
    · simp only [List.mem_singleton, Prod.mk.injEq] at hu
      exact ⟨[], c.jump, [], by rw [hu.2]; rfl⟩
    · cases hd
  | default_ =>
    intro c l h
    simp only [funcstmt] at h ⊢
    rcases h with ⟨u', hu⟩ | hd
    · simp at hu
    · simp only [Option.some.injEq] at hd
      exact ⟨[], c.jump, [], by rw [← hd]; rfl⟩
  | decl i t' init =>
    intro c l h
    cases init <;>
    · rcases h with ⟨u', hu⟩ | hd
      · simp [funcstmt] at hu
      · simp [funcstmt] at hd
  | call dst rt fn args =>
    intro c l h
    rcases dst with _ | ⟨i, t'⟩ <;>
    · rcases h with ⟨u', hu⟩ | hd
      · simp [funcstmt] at hu
      · simp [funcstmt] at hd
  | callp dst rt fn pargs args =>
    intro c l h
    rcases dst with _ | ⟨i, t'⟩ <;>
    · rcases h with ⟨u', hu⟩ | hd
      · simp [funcstmt] at hu
      · simp [funcstmt] at hd
  | _ =>
    intro c l h
    rcases h with ⟨u', hu⟩ | hd
    · simp [funcstmt] at hu
    · simp [funcstmt] at hd

/-! ## The ladder finds the label the C semantics selects -/

theorem find_getD_eq {α : Type} (l : List (Nat × α)) (p p' : Nat × α → Bool) (d : α)
    (h : ∀ q ∈ l, p q = p' q) :
    ((l.find? p).map (·.2)).getD d = ((l.find? p').map (·.2)).getD d := by
  have : l.find? p = l.find? p' := by
    induction l with
    | nil => rfl
    | cons a l ih =>
      have ha := h a (by simp)
      simp only [List.find?_cons, ← ha]
      cases p a
      · exact ih (fun q hq => h q (by simp [hq]))
      · rfl
  rw [this]

theorem wrap32_iff (sg : Bool) (q v : Int) (hv : InRange ⟨32, sg⟩ v) :
    wrap ⟨32, sg⟩ q = v ↔ q % 2 ^ 32 = v % 2 ^ 32 := by
  have hm := wrap_mod32 sg q
  constructor
  · intro h; rw [← h]; exact hm.symm
  · intro h
    have hr : InRange ⟨32, sg⟩ (wrap ⟨32, sg⟩ q) := Eval.wrap_inRange (Or.inr (by simp [IntTy.Arith])) q
    cases sg
    · rw [inRange32u] at hv hr; omega
    · rw [inRange32s] at hv hr; omega

theorem wrap64_iff (sg : Bool) (q v : Int) (hv : InRange ⟨64, sg⟩ v) :
    wrap ⟨64, sg⟩ q = v ↔ q % 2 ^ 64 = v % 2 ^ 64 := by
  have hm := wrap_mod64 sg q
  constructor
  · intro h; rw [← h]; exact hm.symm
  · intro h
    have hr : InRange ⟨64, sg⟩ (wrap ⟨64, sg⟩ q) := Eval.wrap_inRange (Or.inr (by simp [IntTy.Arith])) q
    cases sg
    · rw [inRange64u] at hv hr; omega
    · rw [inRange64s] at hv hr; omega

theorem ladder_target (cs : Bool) (t : CSem.Ty) (ht : t.promoted = true) (cases : List (Nat × String))
    (dl : String) (v : Int) (x : UInt64) (hv : InRange (t.intTy cs) v)
    (hx : (x.toNat : Int) % 2 ^ (8 * t.size) = v % 2 ^ (8 * t.size)) :
    ladderLabel (decide (t.size ≤ 4)) (switchTree t cases) x.toNat (caseLabel t cases dl) dl =
    ((cases.find? fun q => wrap (t.intTy cs) (q.1 : Int) == v).map (·.2)).getD dl := by
  unfold ladderLabel
  have htree : switchTree t cases =
      ((cases.map (·.1)).map (Tree.caseKey t.size (t.signed true))).foldl Tree.insert .nil := by
    simp only [switchTree, List.map_map]; rfl
  rcases promoted_cases cs ht with ⟨hs, hi⟩ | ⟨hs, hi⟩
  · -- 4 bytes: class `w`
    rw [hi] at hv ⊢
    rw [htree, hs]
    simp only [hs, Nat.reduceMul] at hx
    have hd : decide (4 ≤ 4) = true := rfl
    rw [hd]
    have hpt : ∀ q : Nat × String, (wrap ⟨32, t.signed cs⟩ (q.1 : Int) == v) =
        decide (q.1 % 2 ^ 32 = x.toNat % 2 ^ 32) := by
      intro q
      rw [Bool.eq_iff_iff, beq_iff_eq, decide_eq_true_iff, wrap32_iff _ _ _ hv]
      omega
    cases hsr : Tree.search true (((cases.map (·.1)).map (Tree.caseKey 4 (t.signed true))).foldl
        Tree.insert .nil) x.toNat with
    | none =>
      have hnone := ((C15.switch_w_correct (t.signed true) (cases.map (·.1)) x.toNat 0).2).1 hsr
      have : cases.find? (fun q => wrap ⟨32, t.signed cs⟩ (q.1 : Int) == v) = none := by
        rw [List.find?_eq_none]
        intro q hq
        rw [hpt q]
        simpa using hnone q.1 (List.mem_map_of_mem hq)
      simp [this]
    | some k =>
      have hsome := ((C15.switch_w_correct (t.signed true) (cases.map (·.1)) x.toNat k).1).1 hsr
      obtain ⟨hmem, hlow⟩ := hsome
      obtain ⟨u', _, rfl⟩ := List.mem_map.1 hmem
      simp only [caseLabel, hs]
      apply find_getD_eq
      intro q _
      rw [hpt q, Bool.eq_iff_iff, beq_iff_eq, decide_eq_true_iff, Tree.caseKey_four_eq_iff]
      rw [Tree.caseKey_four_low] at hlow
      omega
  · -- 8 bytes: class `l`
    rw [hi] at hv ⊢
    rw [htree, hs]
    simp only [hs, Nat.reduceMul] at hx
    have hd : decide (8 ≤ 4) = false := rfl
    rw [hd]
    have hxl := x.toNat_lt
    have hpt : ∀ q : Nat × String, (wrap ⟨64, t.signed cs⟩ (q.1 : Int) == v) =
        decide (q.1 % 2 ^ 64 = x.toNat % 2 ^ 64) := by
      intro q
      rw [Bool.eq_iff_iff, beq_iff_eq, decide_eq_true_iff, wrap64_iff _ _ _ hv]
      omega
    cases hsr : Tree.search false (((cases.map (·.1)).map (Tree.caseKey 8 (t.signed true))).foldl
        Tree.insert .nil) x.toNat with
    | none =>
      have hnone := ((C15.switch_l_correct (t.signed true) (cases.map (·.1)) x.toNat 0).2).1 hsr
      have : cases.find? (fun q => wrap ⟨64, t.signed cs⟩ (q.1 : Int) == v) = none := by
        rw [List.find?_eq_none]
        intro q hq
        rw [hpt q]
        simpa using hnone q.1 (List.mem_map_of_mem hq)
      simp [this]
    | some k =>
      have hsome := ((C15.switch_l_correct (t.signed true) (cases.map (·.1)) x.toNat k).1).1 hsr
      obtain ⟨_, hk⟩ := hsome
      simp only [caseLabel, hs]
      apply find_getD_eq
      intro q _
      rw [hpt q, Bool.eq_iff_iff, beq_iff_eq, decide_eq_true_iff, Tree.caseKey_eight, hk]

/-! ## The `switch` statement -/

theorem after_some_target (cs : Bool) (brk cont : String) (p : Stmt → Bool)
    (hpl : ∀ st, p st = true → isLabel st = true) (b : Stmt) :
    ∀ c b', after p b = some b' → ∃ l, targetLabel cs brk cont p b c = some l := by
  induction b with
  | seq x y ihx ihy =>
    intro c b' h
    simp only [after] at h
    cases hx : after p x with
    | some x' =>
      obtain ⟨l, hl⟩ := ihx c x' hx
      exact ⟨l, by simp only [targetLabel, hl]⟩
    | none =>
      rw [hx] at h
      obtain ⟨l, hl⟩ := ihy (funcstmt cs brk cont x c).ctx b' h
      cases htx : targetLabel cs brk cont p x c with
      | some l' => exact ⟨l', by simp only [targetLabel, htx]⟩
      | none => exact ⟨l, by simp only [targetLabel, htx, hl]⟩
  | case_ u =>
    intro c b' h
    simp only [after] at h
    split at h
    · rename_i hq; exact ⟨lblName "switch_case" (c.blockid + 1), by simp only [targetLabel, hq, if_true]⟩
    · cases h
  | default_ =>
    intro c b' h
    simp only [after] at h
    split at h
    · rename_i hq; exact ⟨lblName "switch_default" (c.blockid + 1), by simp only [targetLabel, hq, if_true]⟩
    · cases h
  | _ =>
    intro c b' h
    simp only [after] at h
    split at h
    · rename_i hq
      have := hpl _ hq
      simp [isLabel] at this
    · cases h

theorem isCase_label (cs : Bool) (t : CSem.Ty) (v : Int) : ∀ st, isCase cs t v st = true → isLabel st = true := by
  intro st h; cases st <;> simp [isCase] at h <;> rfl

theorem isDefault_label : ∀ st, isDefault st = true → isLabel st = true := by
  intro st h; cases st <;> simp [isDefault] at h <;> rfl

theorem caseKey_lt (t : CSem.Ty) (ht : t.promoted = true) (u : Nat) :
    Tree.caseKey t.size (t.signed true) u < 2 ^ 64 := by
  rcases promoted_cases true ht with ⟨hs, _⟩ | ⟨hs, _⟩
  · rw [hs]
    cases t.signed true
    · have := C15.caseKey_canonical_unsigned (i := u); omega
    · have := C15.caseKey_canonical_signed (i := u); omega
  · rw [hs, Tree.caseKey_eight]; omega

section
variable (T : Stat) {s : Store} {out : CSem2.Outcome} {lp : Bool × Bool} {brk cont : String} {c : SCtx}
  {nd nd' : Nat} {pre post : List Item} {env : Env} {M : Mem}

theorem sim_switch (n : Nat) (hc : CallOK T n) (ih : ∀ m, m ≤ n → SimStmt T m) (e : Expr3) (b : Stmt)
    (hex : exec T.S.cs T.P (n + 1) s (.switch_ e b) = some out) (hfr : frag T.P T.cnts T.W (.switch_ e b) = true)
    (hwt : Stmt.wt T.vtys T.ret lp.1 lp.2 nd (.switch_ e b) = some nd') (hp : Pos T c nd pre)
    (hext : Ext T (funcstmt T.S.cs brk cont (.switch_ e b) c).ctx)
    (hits : T.S.its = pre ++ (funcstmt T.S.cs brk cont (.switch_ e b) c).items ++ post)
    (hlp : (lp.1 = true → CanJump T.S brk) ∧ (lp.2 = true → CanJump T.S cont))
    (inv : SInv T.M0 T.S.cs T.cnts T.W T.σ T.vtys s env M) :
    Post T lp brk cont (T.at env M pre) (pre ++ (funcstmt T.S.cs brk cont (.switch_ e b) c).items)
      (funcstmt T.S.cs brk cont (.switch_ e b) c).ctx out := by
  simp only [frag, Bool.and_eq_true] at hfr
  have hfe : efrag T e := by simp only [efrag, Bool.and_eq_true]; exact hfr.1
  have hfr := hfr.2
  simp only [Stmt.wt] at hwt
  split at hwt
  · rename_i hcw
    obtain ⟨hwe, hpr, hsl, _, _, _⟩ := hcw
    obtain ⟨hnb, hcb⟩ := wt_noDead _ _ b _ _ _ _ hwt
    simp only [exec, Option.bind_eq_some_iff] at hex
    obtain ⟨v, hev, hex⟩ := hex
    have hj1 : (c.addBlocks 2).jump = none := hp.jump
    simp only [funcstmt, lowerE3_eq T.S.cs hj1] at hext hits ⊢
    have ge := exprOut3_good T.S.cs (c.addBlocks 2) e
    generalize hoe : exprOut3 T.S.cs (c.addBlocks 2) e = oe at *
    have gb := funcstmt_good' T.S.cs b (lblName "switch_join" (c.blockid + 2)) cont
      (((c.addBlocks 2).upd oe.ctx).setJump (.jmp (lblName "switch_cond" (c.blockid + 1)))) (Or.inr hsl) hnb
    have hcs := cases_items T.S.cs (lblName "switch_join" (c.blockid + 2)) cont b
      (((c.addBlocks 2).upd oe.ctx).setJump (.jmp (lblName "switch_cond" (c.blockid + 1))))
    have hct := cases_target T.S.cs (lblName "switch_join" (c.blockid + 2)) cont e.ty v b
      (((c.addBlocks 2).upd oe.ctx).setJump (.jmp (lblName "switch_cond" (c.blockid + 1))))
    have hdt := dflt_target T.S.cs (lblName "switch_join" (c.blockid + 2)) cont b
      (((c.addBlocks 2).upd oe.ctx).setJump (.jmp (lblName "switch_cond" (c.blockid + 1))))
    obtain ⟨l0, rest0, hl0⟩ := startsLabel_items T.S.cs b (lblName "switch_join" (c.blockid + 2)) cont
      (((c.addBlocks 2).upd oe.ctx).setJump (.jmp (lblName "switch_cond" (c.blockid + 1)))) hsl
    generalize hc1 : ((c.addBlocks 2).upd oe.ctx).setJump (.jmp (lblName "switch_cond" (c.blockid + 1))) = c1
      at *
    generalize hob : funcstmt T.S.cs (lblName "switch_join" (c.blockid + 2)) cont b c1 = ob at *
    have gl := ladder_good (decide (e.ty.size ≤ 4)) oe.val
      (caseLabel e.ty ob.cases (ob.dflt.getD (lblName "switch_join" (c.blockid + 2))))
      (ob.dflt.getD (lblName "switch_join" (c.blockid + 2))) (switchTree e.ty ob.cases)
      (((ob.ctx.setJump (.jmp (lblName "switch_join" (c.blockid + 2)))).atLabel
        (lblName "switch_cond" (c.blockid + 1))).ctx)
    generalize hlad : ladder (decide (e.ty.size ≤ 4)) oe.val
      (caseLabel e.ty ob.cases (ob.dflt.getD (lblName "switch_join" (c.blockid + 2))))
      (ob.dflt.getD (lblName "switch_join" (c.blockid + 2))) (switchTree e.ty ob.cases)
      (((ob.ctx.setJump (.jmp (lblName "switch_join" (c.blockid + 2)))).atLabel
        (lblName "switch_cond" (c.blockid + 1))).ctx) = lad at *
    have hc1j : c1.jump = some (.jmp (lblName "switch_cond" (c.blockid + 1))) := by
      rw [← hc1]; simp only [setJump_jump, upd_jump, addBlocks_jump, hp.jump, Option.getD_none]
    have hc1l : c1.lastid = oe.ctx.lastid := by rw [← hc1]; rfl
    have hc1b : c1.blockid = oe.ctx.blockid := by rw [← hc1]; rfl
    have hc1s : c1.slots = c.slots := by rw [← hc1]; rfl
    have hc1c : c1.cur = oe.ctx.cur := by rw [← hc1]; rfl
    have l1 := ge.lastid; have l3 := gb.lastid; have l4 := gl.1
    have b1 := ge.blockid; have b3 := gb.blockid
    unf at l1 l4 b1
    rw [hc1l] at l3
    rw [hc1b] at b3
    -- `Ext`
    have hextb : Ext T ob.ctx := hext.before (new := []) (by unf; simp) (by simp) (by unf; exact l4)
    have hexte : Ext T ((c.addBlocks 2).upd oe.ctx) :=
      Ext.congr (hextb.first gb) (by rw [hc1s]; rfl) (by rw [hc1l]; rfl)
    -- the items
    have hits1 := hits
    simp only [List.append_assoc, List.singleton_append, List.cons_append, List.nil_append, labelItem,
      setJump_jump] at hits1
    have hitsE : T.S.its = pre ++ oe.items ++ (ob.items ++
        .lbl (some (ob.ctx.jump.getD (.jmp (lblName "switch_join" (c.blockid + 2)))))
          (lblName "switch_cond" (c.blockid + 1)) [] :: (lad.1 ++
        .lbl (some (.jmp (ob.dflt.getD (lblName "switch_join" (c.blockid + 2)))))
          (lblName "switch_join" (c.blockid + 2)) [] :: post)) := by
      rw [hits1]; simp only [List.append_assoc]
    have hitsJ0 : T.S.its = (pre ++ oe.items) ++
        .lbl (some (.jmp (lblName "switch_cond" (c.blockid + 1)))) l0 [] :: (rest0 ++
        .lbl (some (ob.ctx.jump.getD (.jmp (lblName "switch_join" (c.blockid + 2)))))
          (lblName "switch_cond" (c.blockid + 1)) [] :: (lad.1 ++
        .lbl (some (.jmp (ob.dflt.getD (lblName "switch_join" (c.blockid + 2)))))
          (lblName "switch_join" (c.blockid + 2)) [] :: post)) := by
      rw [hitsE, hl0, labelItem, hc1j]; simp only [List.append_assoc, List.cons_append]
    have hitsC : T.S.its = (pre ++ oe.items ++ ob.items) ++
        .lbl (some (ob.ctx.jump.getD (.jmp (lblName "switch_join" (c.blockid + 2)))))
          (lblName "switch_cond" (c.blockid + 1)) [] :: (lad.1 ++
        .lbl (some (.jmp (ob.dflt.getD (lblName "switch_join" (c.blockid + 2)))))
          (lblName "switch_join" (c.blockid + 2)) [] :: post) := by
      rw [hitsE]; simp only [List.append_assoc]
    have hitsL : T.S.its = (pre ++ oe.items ++ ob.items ++
        [.lbl (some (ob.ctx.jump.getD (.jmp (lblName "switch_join" (c.blockid + 2)))))
          (lblName "switch_cond" (c.blockid + 1)) []]) ++ lad.1 ++
        .lbl (some (.jmp (ob.dflt.getD (lblName "switch_join" (c.blockid + 2)))))
          (lblName "switch_join" (c.blockid + 2)) [] :: post := by
      rw [hitsE]; simp only [List.append_assoc, List.singleton_append, List.cons_append, List.nil_append]
    have hitsEnd : T.S.its = (pre ++ oe.items ++ ob.items ++
        [.lbl (some (ob.ctx.jump.getD (.jmp (lblName "switch_join" (c.blockid + 2)))))
          (lblName "switch_cond" (c.blockid + 1)) []] ++ lad.1) ++
        .lbl (some (.jmp (ob.dflt.getD (lblName "switch_join" (c.blockid + 2)))))
          (lblName "switch_join" (c.blockid + 2)) [] :: post := by
      rw [hitsL]
    have hitsB : T.S.its = (pre ++ oe.items) ++ ob.items ++
        (.lbl (some (ob.ctx.jump.getD (.jmp (lblName "switch_join" (c.blockid + 2)))))
          (lblName "switch_cond" (c.blockid + 1)) [] :: (lad.1 ++
        .lbl (some (.jmp (ob.dflt.getD (lblName "switch_join" (c.blockid + 2)))))
          (lblName "switch_join" (c.blockid + 2)) [] :: post)) := by
      rw [hitsC]
    have hccond : CanJump T.S (lblName "switch_cond" (c.blockid + 1)) := canJump_item T.S hitsC
    have hcjoin : CanJump T.S (lblName "switch_join" (c.blockid + 2)) := canJump_item T.S hitsEnd
    have hcitem : ∀ l, ((∃ u, (u, l) ∈ ob.cases) ∨ ob.dflt = some l) → CanJump T.S l := by
      intro l hl
      obtain ⟨p, t, q, e'⟩ := hcs l hl
      have : T.S.its = (pre ++ oe.items ++ p) ++ .lbl t l [] :: (q ++
          .lbl (some (ob.ctx.jump.getD (.jmp (lblName "switch_join" (c.blockid + 2)))))
            (lblName "switch_cond" (c.blockid + 1)) [] :: (lad.1 ++
          .lbl (some (.jmp (ob.dflt.getD (lblName "switch_join" (c.blockid + 2)))))
            (lblName "switch_join" (c.blockid + 2)) [] :: post)) := by
        rw [hitsE, e']; simp only [List.append_assoc, List.cons_append]
      exact canJump_item T.S this
    have hcdl : CanJump T.S (ob.dflt.getD (lblName "switch_join" (c.blockid + 2))) := by
      cases hd : ob.dflt with
      | none => exact hcjoin
      | some d => exact hcitem d (Or.inr hd)
    have hclab : ∀ k, CanJump T.S (caseLabel e.ty ob.cases
        (ob.dflt.getD (lblName "switch_join" (c.blockid + 2))) k) := by
      intro k
      unfold caseLabel
      cases hf : ob.cases.find? (fun c' => Tree.caseKey e.ty.size (e.ty.signed true) c'.1 == k) with
      | none => simpa using hcdl
      | some q =>
        have hm := List.mem_of_find?_eq_some hf
        simpa using hcitem q.2 (Or.inl ⟨q.1, hm⟩)
    -- the controlling expression
    have hpE : Pos T (c.addBlocks 2) nd pre := by
      refine ⟨hp.jump, hp.cur, ?_, hp.nslots, hp.le⟩
      obtain ⟨name, j, h1, h2⟩ := hp.curOK
      exact ⟨name, j, h1, by unf; unf at h2; omega⟩
    obtain ⟨k1, env1, r1, hreach1, inv1, _, hval1, hrep1, hrange⟩ := sim_exprOut3 T n hc hpE e
      (by rw [hoe]; exact hexte) hwe hfe hev (by rw [hoe]; exact hitsE) inv
    rw [hoe] at hreach1 hval1
    -- jump to `switch_cond`
    obtain ⟨st2, hs2, hat2⟩ := step_jmp_item T hitsJ0 hccond env1 M
    have hst2 := atLabel_item T hitsC hat2
    subst hst2
    -- the ladder
    obtain ⟨x, hxw, hxv⟩ : ∃ x : UInt64, (if decide (e.ty.size ≤ 4) = true then r1.asW else r1.asL) = .ok x ∧
        (x.toNat : Int) % 2 ^ (8 * e.ty.size) = v % 2 ^ (8 * e.ty.size) := by
      rcases promoted_cases T.S.cs hpr with ⟨hs4, _⟩ | ⟨hs8, _⟩
      · rw [rep_w hs4] at hrep1
        obtain ⟨x, h1, h2⟩ := hrep1
        exact ⟨x, by simp [hs4, h1], by simpa [hs4] using h2⟩
      · rw [rep_l hs8] at hrep1
        obtain ⟨x, h1, h2⟩ := hrep1
        refine ⟨x, by simp [hs8, h1], ?_⟩
        simp only [hs8, Nat.reduceMul]
        omega
    have hkeys : ∀ k ∈ Tree.toList (switchTree e.ty ob.cases), k < 2 ^ 64 ∧
        CanJump T.S (caseLabel e.ty ob.cases (ob.dflt.getD (lblName "switch_join" (c.blockid + 2))) k) := by
      intro k hk
      refine ⟨?_, hclab k⟩
      unfold switchTree at hk
      rw [C15.reachable_mem, List.mem_map] at hk
      obtain ⟨q, _, rfl⟩ := hk
      exact caseKey_lt e.ty hpr q.1
    obtain ⟨k3, env3, st3, hreach3, hfr3, hat3⟩ := sim_ladder T (decide (e.ty.size ≤ 4)) oe.val
      (caseLabel e.ty ob.cases (ob.dflt.getD (lblName "switch_join" (c.blockid + 2))))
      (ob.dflt.getD (lblName "switch_join" (c.blockid + 2))) (switchTree e.ty ob.cases)
      (((ob.ctx.setJump (.jmp (lblName "switch_join" (c.blockid + 2)))).atLabel
        (lblName "switch_cond" (c.blockid + 1))).ctx) _ post (lblName "switch_join" (c.blockid + 2)) [] env1 M
      r1 x (by rw [hlad]; exact hitsL) hkeys hcdl (ge.val.mono (by unf; exact l3)) hval1 hxw
    rw [hlad] at hfr3
    rw [ladder_target T.S.cs e.ty hpr ob.cases _ v x hrange hxv, hct] at hat3
    -- the invariant at the entry of the body
    have hposS1 : PosS T c1 nd (pre ++ oe.items) := by
      refine ⟨?_, ?_, by rw [hc1s]; exact hp.nslots, ?_⟩
      · rw [hc1c]; exact ge.cur _ _ hpE.cur
      · have := ge.curOK hpE.curOK
        obtain ⟨name, j, h1, h2⟩ := this
        exact ⟨name, j, by show c1.cur = _; rw [hc1c]; exact h1, by show j ≤ c1.blockid; rw [hc1b]; exact h2⟩
      · intro i hi
        rw [hc1s, hc1l]
        have := hp.le i hi
        omega
    have hpob : PosS T ob.ctx nd' (pre ++ oe.items ++ ob.items) := hposS1.after gb hcb
    have henv3 : ∀ k, k < T.vtys.length → env3[tmpName (T.σ.getD k 0)]? = env1[tmpName (T.σ.getD k 0)]? := by
      intro k hk
      apply hfr3
      by_cases hkn : k < nd'
      · left
        rw [hextb.1 k (by rw [hpob.nslots]; exact hkn)]
        exact hpob.le k hkn
      · right
        exact hext.2 k (by show ob.ctx.slots.length ≤ k; rw [hpob.nslots]; omega) hk
    have inv3 : SInv T.M0 T.S.cs T.cnts T.W T.σ T.vtys (CSem2.clear s (declIdx b)) env3 M := (inv1.env henv3).clear _
    have hreachL := (hreach1.trans (Reach.one hs2)).trans hreach3
    -- arriving at `switch_join`
    have hjoin : ∀ (s' : Store) (env' : Env) (M' : Mem) (st : State) (k : Nat),
        T.Reach k (T.at env M pre) st → AtLabel T.S (lblName "switch_join" (c.blockid + 2)) env' M' st →
        SInv T.M0 T.S.cs T.cnts T.W T.σ T.vtys s' env' M' →
        Post T lp brk cont (T.at env M pre)
          (pre ++ (oe.items ++ ob.items ++ [.lbl (some (ob.ctx.jump.getD
            (.jmp (lblName "switch_join" (c.blockid + 2))))) (lblName "switch_cond" (c.blockid + 1)) []] ++
            lad.1 ++ [.lbl (some (.jmp (ob.dflt.getD (lblName "switch_join" (c.blockid + 2)))))
              (lblName "switch_join" (c.blockid + 2)) []]))
          ((((ob.ctx.setJump (.jmp (lblName "switch_join" (c.blockid + 2)))).atLabel
            (lblName "switch_cond" (c.blockid + 1))).upd lad.2).atLabel (lblName "switch_join" (c.blockid + 2)))
          (.normal s') := by
      intro s' env' M' st k hr hat inv'
      have hst := atLabel_item T hitsEnd hat
      subst hst
      refine ⟨rfl, k, env', M', ?_, inv'⟩
      simp only [List.append_assoc, List.singleton_append, List.cons_append, List.nil_append] at hr ⊢
      exact hr
    -- entering the body at a label
    have henter : ∀ (p : Stmt → Bool) (hpl : ∀ st, p st = true → isLabel st = true) (b' : Stmt) (l : String),
        after p b = some b' → targetLabel T.S.cs (lblName "switch_join" (c.blockid + 2)) cont p b c1 = some l →
        AtLabel T.S l env3 M st3 →
        (match exec T.S.cs T.P n (CSem2.clear s (declIdx b)) b' with
          | some (.brk s') => some (.normal s')
          | o => o) = some out →
        Post T lp brk cont (T.at env M pre)
          (pre ++ (oe.items ++ ob.items ++ [.lbl (some (ob.ctx.jump.getD
            (.jmp (lblName "switch_join" (c.blockid + 2))))) (lblName "switch_cond" (c.blockid + 1)) []] ++
            lad.1 ++ [.lbl (some (.jmp (ob.dflt.getD (lblName "switch_join" (c.blockid + 2)))))
              (lblName "switch_join" (c.blockid + 2)) []]))
          ((((ob.ctx.setJump (.jmp (lblName "switch_join" (c.blockid + 2)))).atLabel
            (lblName "switch_cond" (c.blockid + 1))).upd lad.2).atLabel (lblName "switch_join" (c.blockid + 2)))
          out := by
      intro p hpl b' l haf htl hat hres
      cases hexb : exec T.S.cs T.P n (CSem2.clear s (declIdx b)) b' with
      | none => rw [hexb] at hres; cases hres
      | some ob' =>
        rw [hexb] at hres
        have pb := sim_enter T n ih p hpl b n (Nat.le_refl _) b' _ ob' (true, lp.2)
          (lblName "switch_join" (c.blockid + 2)) cont c1 nd nd' (pre ++ oe.items) _ env3 M st3 haf hexb hfr hwt
          hposS1 (Or.inr hsl) (by rw [hob]; exact hextb) (by rw [hob]; exact hitsB)
          ⟨fun _ => hcjoin, hlp.2⟩ inv3 (by
            intro l' hl'
            rw [htl] at hl'
            cases hl'
            exact hat)
        rw [hob] at pb
        have cj := pb.closeJmp hitsC ⟨fun _ => hcjoin, hlp.2⟩ hcjoin
        cases ob' with
        | normal s' =>
          simp only [Option.some.injEq] at hres
          subst hres
          obtain ⟨k, env', M', st, hr, hat', inv'⟩ := cj
          exact hjoin s' env' M' st _ (hreachL.trans hr) hat' inv'
        | brk s' =>
          simp only [Option.some.injEq] at hres
          subst hres
          obtain ⟨_, k, env', M', st, inv', hr, hat'⟩ := cj
          exact hjoin s' env' M' st _ (hreachL.trans hr) hat' inv'
        | cont s' =>
          simp only [Option.some.injEq] at hres
          subst hres
          obtain ⟨h0, k, env', M', st, inv', hr, hat'⟩ := cj
          exact ⟨h0, _, env', M', inv', Or.inr ⟨st, hreachL.trans hr, hat'⟩⟩
        | ret w =>
          simp only [Option.some.injEq] at hres
          subst hres
          obtain ⟨hrg, k, st, r, hr, hs, hrr⟩ := cj
          exact ⟨hrg, _, Or.inr ⟨st, r, hreachL.trans hr, hs, hrr⟩⟩
    -- which label?
    unfold pick at hex
    cases hac : after (isCase T.S.cs e.ty v) b with
    | some b' =>
      rw [hac] at hex
      obtain ⟨l, hl⟩ := after_some_target T.S.cs (lblName "switch_join" (c.blockid + 2)) cont _
        (isCase_label T.S.cs e.ty v) b c1 b' hac
      rw [hl] at hat3
      exact henter _ (isCase_label T.S.cs e.ty v) b' l hac hl (by simpa using hat3) hex
    | none =>
      rw [hac] at hex
      rw [after_none_target T.S.cs (lblName "switch_join" (c.blockid + 2)) cont _
        (isCase_label T.S.cs e.ty v) b c1 hac] at hat3
      simp only [Option.map_none, Option.getD_none] at hat3
      cases had : after isDefault b with
      | some b' =>
        rw [had] at hex
        obtain ⟨l, hl⟩ := after_some_target T.S.cs (lblName "switch_join" (c.blockid + 2)) cont _
          isDefault_label b c1 b' had
        rw [hdt, hl] at hat3
        exact henter _ isDefault_label b' l had hl (by simpa using hat3) hex
      | none =>
        rw [had] at hex
        simp only [Option.some.injEq] at hex
        subst hex
        rw [hdt, after_none_target T.S.cs (lblName "switch_join" (c.blockid + 2)) cont _
          isDefault_label b c1 had] at hat3
        exact hjoin _ env3 M st3 _ hreachL (by simpa using hat3) inv3
  · cases hwt

end

end CprocVerif.LowerMach2

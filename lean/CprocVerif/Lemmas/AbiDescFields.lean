import CprocVerif.Lemmas.AbiDescUnion

/-!
# Lemmas for C08, part 5: arrays (`T n`), and the bridge from the field list of a struct/union
definition to the list-level lemmas
-/

namespace CprocVerif.AbiDesc
open CprocVerif.Layout CprocVerif.Abi CprocVerif.QbeLayout

/-- size/alignment of a type under the C06 layout spec -/
abbrev ti (t : AType) : MTy := Abi.tinfo x86_64 (erase t)

/-- number of `stripArr t` elements in `t` -/
def cnt : AType → Nat
  | .array e (some n) => n * cnt e
  | .array _ none => 0
  | _ => 1

structure ArrFacts (t : AType) : Prop where
  size : (ti t).size = cnt t * (ti (stripArr t)).size
  align : (ti t).align = (ti (stripArr t)).align
  flat : ∀ mg, flattenC x86_64 mg t = rep (cnt t) (ti (stripArr t)).size (flattenC x86_64 mg (stripArr t))
  cpos : 0 < cnt t
  complete : (ti t).incomplete = false

theorem emittype_strip : ∀ (t : AType), emittype t = emittype (stripArr t)
  | .array e _ => by rw [emittype, stripArr]; exact emittype_strip e
  | .sc _ => rfl
  | .su .. => rfl
  | .blob .. => rfl

theorem arrFacts : ∀ (t : AType), good t = true → (ti (stripArr t)).incomplete = false → ArrFacts t
  | .array e none, h, _ => by simp [good] at h
  | .array e (some n), h, hc => by
    simp only [good, Bool.and_eq_true, decide_eq_true_eq] at h
    obtain ⟨⟨he, hn⟩, _⟩ := h
    have ih := arrFacts e he hc
    have e1 : ti (.array e (some n)) = { size := (ti e).size * n, align := (ti e).align, isArray := true } := by
      simp only [ti, erase, Abi.tinfo]
    refine ⟨?_, ?_, ?_, ?_, ?_⟩
    · rw [e1]; simp only [stripArr, cnt, ih.size]; ac_rfl
    · rw [e1]; simp only [stripArr]; exact ih.align
    · intro mg
      simp only [flattenC, stripArr, cnt]
      rw [ih.flat mg, ih.size, rep_mul]
    · simp only [cnt]; exact Nat.mul_pos hn ih.cpos
    · rw [e1]
  | .sc s, _, hc => ⟨by simp [cnt, stripArr], rfl, fun mg => by simp [cnt, stripArr, rep_one], by simp [cnt], hc⟩
  | .su u p fs, _, hc => ⟨by simp [cnt, stripArr], rfl, fun mg => by simp [cnt, stripArr, rep_one], by simp [cnt], hc⟩
  | .blob s a d, _, hc => ⟨by simp [cnt, stripArr], rfl, fun mg => by simp [cnt, stripArr, rep_one], by simp [cnt], hc⟩

theorem itCount_eq {it : It} {c s : Nat} (h1 : it.size = c * s) (h2 : it.subSize = s) (hc : 0 < c) (hs : 0 < s) :
    itCount it = c := by
  unfold itCount
  rw [h1, h2]
  by_cases hc1 : c = 1
  · subst hc1; simp
  · have : c * s > s := by
      have : 2 * s ≤ c * s := Nat.mul_le_mul_right s (by omega)
      omega
    rw [if_pos this, Nat.mul_div_cancel _ hs]

/-! ## Field lists -/

/-- what `its` computed for one member-producing field of type `ty` -/
structure FieldOk (ty : AType) (it : It) : Prop where
  size : it.size = (ti ty).size
  subSize : it.subSize = (ti (stripArr ty)).size
  spos : 0 < (ti (stripArr ty)).size
  info : info it.item = ⟨(ti (stripArr ty)).size, (ti (stripArr ty)).align, flattenC x86_64 true (stripArr ty)⟩
  arr : ArrFacts ty
  noflex : (ti ty).flexible = false
  intItem : ∀ s, ty = .sc s → s.isFloat = false → it.item = .base (intBase s.size)

def FOk : AFields → List It → Prop
  | .nil, l => l = []
  | .cons name ty _ w rest, l =>
    if producesMember name w = true then ∃ it l', l = it :: l' ∧ FieldOk ty it ∧ FOk rest l'
    else FOk rest l

/-- the C image of every field: `some` the flattened member type, `none` a bit-field -/
def imgsOf : AFields → List (Option (List Fld))
  | .nil => []
  | .cons _ ty _ w rest =>
    (match w with
     | none => some (flattenC x86_64 true ty)
     | some _ => none) :: imgsOf rest

theorem decls_cons (name : Option String) (ty : AType) (al : Nat) (w : Option Nat) (rest : AFields) :
    Abi.decls x86_64 (eraseF (.cons name ty al w rest)) =
      { ty := ti ty, named := name.isSome, align := al, width := w } :: Abi.decls x86_64 (eraseF rest) := by
  simp only [eraseF, Abi.decls, ti]

theorem isInt_sc : ∀ (ty : AType), (ti ty).isInt = true → ∃ s, ty = .sc s ∧ s.isInt = true
  | .sc s, h => ⟨s, rfl, by simpa [ti, erase, Abi.tinfo] using h⟩
  | .array e none, h => by simp [ti, erase, Abi.tinfo] at h
  | .array e (some n), h => by simp [ti, erase, Abi.tinfo] at h
  | .su u p fs, h => by simp [ti, erase, Abi.tinfo] at h
  | .blob s a d, h => by simp [ti, erase, Abi.tinfo] at h

theorem isInt_not_float {s : Sc} (h : s.isInt = true) : s.isFloat = false := by
  cases s with
  | ptr => rfl
  | arith a =>
    cases a with
    | basic b => simp only [Sc.isInt, Sc.isFloat, Types.ATy.isInt, Types.ATy.isFloat] at *; simp [h]
    | enum i b => rfl

theorem fields_itok : ∀ (fs : AFields) (l : List It) (ms : List Member), FOk fs l →
    All2 DeclMem (Abi.decls x86_64 (eraseF fs)) ms →
    (Abi.decls x86_64 (eraseF fs)).all declOk = true →
    (∀ d ∈ Abi.decls x86_64 (eraseF fs), d.width.isSome → d.ty.isInt = true) →
    All3 ItOk ms l (imgsOf fs)
  | .nil, l, ms, hf, h2, _, _ => by
    simp only [FOk] at hf
    subst hf
    simp only [eraseF, Abi.decls] at h2
    cases h2
    exact All3.nil
  | .cons name ty al w rest, l, ms, hf, h2, hok, hint => by
    rw [decls_cons] at h2 hok hint
    cases h2 with
    | @cons _ m _ ms' dm hrest =>
    simp only [List.all_cons, Bool.and_eq_true] at hok
    have hprod : producesMember name w = true := by
      have := hok.1
      simp only [declOk, Bool.and_eq_true] at this
      exact this.1
    simp only [FOk, hprod, ↓reduceIte] at hf
    obtain ⟨it, l', rfl, fo, frest⟩ := hf
    have ih := fields_itok rest l' ms' frest hrest hok.2 (fun d hd => hint d (List.mem_cons_of_mem _ hd))
    have hts : m.tsize = (ti ty).size := dm.tsize
    have hta : m.talign = (ti ty).align := dm.talign
    have hw : m.width = w := dm.width
    have hcnt : itCount it = cnt ty := itCount_eq (by rw [fo.size, fo.arr.size]) fo.subSize fo.arr.cpos fo.spos
    simp only [imgsOf]
    refine All3.cons ⟨by rw [fo.size, hts], ?_, ?_, ?_, ?_, ?_, ?_⟩ ih
    · rw [hts, fo.arr.size]; exact Nat.mul_pos fo.arr.cpos fo.spos
    · rw [fo.info, hta, fo.arr.align]
    · rw [hcnt, fo.info, hts, fo.arr.size]
    · intro img himg
      cases w with
      | none =>
        simp only [Option.some.injEq] at himg
        subst himg
        refine ⟨hw, ?_⟩
        rw [hcnt, fo.info]; exact (fo.arr.flat true).symm
      | some w' => cases himg
    · intro himg
      cases w with
      | none => cases himg
      | some w' =>
        have hi := hint _ (List.mem_cons_self ..) (by simp)
        obtain ⟨s, rfl, hs⟩ := isInt_sc ty hi
        have hnf := isInt_not_float hs
        have hc1 : cnt (.sc s) = 1 := rfl
        refine ⟨by rw [hw]; rfl, by rw [hcnt, hc1], ?_⟩
        rw [fo.info]
        simp only [stripArr, flattenC, scKind, hnf, Bool.false_eq_true, ↓reduceIte, hts, ti, erase, Abi.tinfo]
    · intro hbf
      rw [hw] at hbf
      cases w with
      | none => cases hbf
      | some w' =>
        have hi := hint _ (List.mem_cons_self ..) (by simp)
        obtain ⟨s, rfl, hs⟩ := isInt_sc ty hi
        have hnf := isInt_not_float hs
        refine ⟨?_, ?_⟩
        · rw [fo.intItem s rfl hnf, hts]; simp only [ti, erase, Abi.tinfo]
        · rw [fo.subSize, hts]; simp only [stripArr]

theorem flattenFields_flatL (here : Bool) : ∀ (fs : AFields) (ms : List Member) (last : Option (Nat × Nat)),
    (Abi.decls x86_64 (eraseF fs)).all declOk = true →
    flattenFields x86_64 true here fs ms last = flatL here (imgsOf fs) ms last
  | .nil, ms, last, _ => by simp [flattenFields, imgsOf, flatL]
  | .cons name ty al w rest, ms, last, hok => by
    rw [decls_cons] at hok
    simp only [List.all_cons, Bool.and_eq_true] at hok
    have hprod : (name.isSome || w.isNone) = true := by
      have := hok.1
      simp only [declOk, Bool.and_eq_true] at this
      exact this.1
    cases ms with
    | nil => simp [flattenFields, hprod, imgsOf, flatL]
    | cons m ms' =>
      cases w with
      | none =>
        simp only [flattenFields, hprod, ↓reduceIte, imgsOf, flatL]
        rw [flattenFields_flatL here rest ms' none hok.2]
      | some w' =>
        simp only [flattenFields, hprod, ↓reduceIte, imgsOf, flatL]
        rw [flattenFields_flatL here rest ms' _ hok.2]

theorem fok_noflex : ∀ (fs : AFields) (l : List It), FOk fs l →
    (Abi.decls x86_64 (eraseF fs)).all declOk = true → aggFlexible (Abi.decls x86_64 (eraseF fs)) = false
  | .nil, _, _, _ => by simp [eraseF, Abi.decls, aggFlexible]
  | .cons name ty al w rest, l, hf, hok => by
    rw [decls_cons] at hok ⊢
    simp only [List.all_cons, Bool.and_eq_true] at hok
    have hprod : producesMember name w = true := by
      have := hok.1
      simp only [declOk, Bool.and_eq_true] at this
      exact this.1
    simp only [FOk, hprod, ↓reduceIte] at hf
    obtain ⟨it, l', rfl, fo, frest⟩ := hf
    simp only [aggFlexible, fo.arr.complete, fo.noflex, fok_noflex rest l' frest hok.2, Bool.or_self]

end CprocVerif.AbiDesc

import CprocVerif.Lemmas.PPLineLoops
import CprocVerif.Lemmas.ScanKind
import CprocVerif.Lemmas.ScanTokens

/-! C11 helper lemmas, part 4: `scankind` / `scan` deliver every token with the location of its
first byte, and leave a correct scanner state behind. -/

namespace CprocVerif.PPLine
open CprocVerif.Scan CprocVerif.Gen.TokenKinds

variable {text : List UInt8} {δ : Int}

/-- neither end of file nor new-line -/
abbrev Plain (k : Kind) : Prop := k ≠ .TEOF ∧ k ≠ .TNEWLINE

theorem op2_plain (s : S) (a b : Kind) (ha : Plain a) (hb : Plain b) : Plain (op2 s a b).1 := by
  unfold op2; simp only []; split <;> assumption

theorem op3_plain (s : S) (a b c : Kind) (ha : Plain a) (hb : Plain b) (hc : Plain c) :
    Plain (op3 s a b c).1 := by
  unfold op3; simp only []; split
  · assumption
  · split <;> assumption

theorem op4_plain (s : S) (a b c d : Kind) (ha : Plain a) (hb : Plain b) (hc : Plain c)
    (hd : Plain d) : Plain (op4 s a b c d).1 := by
  unfold op4; simp only []; split
  · assumption
  · split
    · assumption
    · split <;> assumption

/-- What a result of `scankind`, started in state `s`, says: the token starts at some byte offset
`o` at or behind the current character; the returned location is the location of that byte; the
returned byte count `p` is `Token.start`'s raw material; `TEOF` iff `o` is the end of the text;
`TNEWLINE` iff the byte is a new-line; the new state is correct and, unless at the end, strictly
behind `o`. -/
def TokOK (text : List UInt8) (δ : Int) (s : S) : Except Err (Kind × Loc × Nat × S) → Prop
  | .error e => ErrLine text δ (off s) e
  | .ok (k, l, p, s') =>
    ∃ o, off s ≤ o ∧ p = (if k = .TEOF then o else o + 1) + 2 * s.skipped ∧
      LocRel δ l (locAt text o) ∧
      (k = .TEOF ↔ text[o]? = none) ∧ (k = .TNEWLINE ↔ text[o]? = some (c! '\n')) ∧
      Inv text δ s' ∧ (k ≠ .TEOF → o < off s') ∧ (k = .TEOF → o = off s')

theorem Inv.sk_of_chr {s : S} (h : Inv text δ s) {c : UInt8} (hc : s.chr = some c)
    (hcd : c ≠ c! '.') : s.skipped = 0 := by
  by_cases hs : s.skipped = 0
  · exact hs
  · have := h.dot hs
    rw [hc] at this
    exact absurd (Option.some.inj this) hcd

theorem Inv.head_chr {s : S} (h : Inv text δ s) {c : UInt8} (hc : s.chr = some c) :
    text[off s]? = some c := by
  cases hi : s.inp with
  | nil => simp [S.chr, hi] at hc
  | cons e r =>
    obtain ⟨k, c'⟩ := e
    have := h.head k c' r hi
    have hcc : c' = c := by simpa [S.chr, hi] using hc
    rw [← hcc]; exact this

theorem tokOK_ret {s : S} (h : Inv text δ s) {c : UInt8} (hc : s.chr = some c) {k : Kind} {s' : S}
    (hk : k ≠ .TEOF) (hnl : k = .TNEWLINE ↔ c = c! '\n') (hl : Later text δ (off s) s') :
    TokOK text δ s (.ok (k, s.loc, s.pos, s')) := by
  have hne := inp_ne_of_chr hc
  have hcur := h.cur hne
  have hhead := h.head_chr hc
  refine ⟨off s, Nat.le_refl _, ?_, h.loc, ?_, ?_, hl.inv, fun _ => hl.lt, fun hk' => absurd hk' hk⟩
  · rw [if_neg hk]; unfold off; rw [if_neg hne]; omega
  · rw [hhead]; simp [hk]
  · rw [hhead, hnl]; simp

theorem tokOK_plain {s : S} (h : Inv text δ s) {c : UInt8} (hc : s.chr = some c) (hcn : c ≠ c! '\n')
    {k : Kind} {s' : S} (hk : Plain k) (hl : Later text δ (off s) s') :
    TokOK text δ s (.ok (k, s.loc, s.pos, s')) :=
  tokOK_ret h hc hk.1 ⟨fun e => absurd e hk.2, fun e => absurd e hcn⟩ hl

theorem tokOK_mono {s s1 : S} {r : Except Err (Kind × Loc × Nat × S)} (h1 : TokOK text δ s1 r)
    (hs1 : s1.skipped = 0) (hs : s.skipped = 0) (hle : off s ≤ off s1) : TokOK text δ s r := by
  cases r with
  | error e => exact ErrLine.mono h1 hle
  | ok r =>
    obtain ⟨k, l, p, s'⟩ := r
    obtain ⟨o, a1, a2, a3, a4, a5, a6, a7, a8⟩ := h1
    exact ⟨o, by omega, by rw [hs]; rw [hs1] at a2; exact a2, a3, a4, a5, a6, a7, a8⟩

theorem tokOK_op2 {s : S} (h : Inv text δ s) {c : UInt8} (hc : s.chr = some c) (hcn : c ≠ c! '\n')
    (a b : Kind) (ha : Plain a) (hb : Plain b) :
    TokOK text δ s (.ok ((op2 s a b).fst, s.loc, s.pos, (op2 s a b).snd)) :=
  tokOK_plain h hc hcn (op2_plain s a b ha hb) (op2_after h (inp_ne_of_chr hc) a b).later

theorem tokOK_op3 {s : S} (h : Inv text δ s) {c : UInt8} (hc : s.chr = some c) (hcn : c ≠ c! '\n')
    (a b d : Kind) (ha : Plain a) (hb : Plain b) (hd : Plain d) :
    TokOK text δ s (.ok ((op3 s a b d).fst, s.loc, s.pos, (op3 s a b d).snd)) :=
  tokOK_plain h hc hcn (op3_plain s a b d ha hb hd) (op3_after h (inp_ne_of_chr hc) a b d).later

theorem tokOK_op4 {s : S} (h : Inv text δ s) {c : UInt8} (hc : s.chr = some c) (hcn : c ≠ c! '\n')
    (a b d e : Kind) (ha : Plain a) (hb : Plain b) (hd : Plain d) (he : Plain e) :
    TokOK text δ s (.ok ((op4 s a b d e).fst, s.loc, s.pos, (op4 s a b d e).snd)) :=
  tokOK_plain h hc hcn (op4_plain s a b d e ha hb hd he) (op4_after h (inp_ne_of_chr hc) a b d e).later

theorem tokOK_single {s : S} (h : Inv text δ s) {c : UInt8} (hc : s.chr = some c) (hcn : c ≠ c! '\n')
    (k : Kind) (hk : Plain k) : TokOK text δ s (.ok (k, s.loc, s.pos, s.nextchar)) :=
  tokOK_plain h hc hcn hk (nextchar_after h (inp_ne_of_chr hc)).later

/-- `#`/`##`, `:`/`::` -/
theorem tokOK_double {s : S} (h : Inv text δ s) {c : UInt8} (hc : s.chr = some c) (hcn : c ≠ c! '\n')
    (d : UInt8) (k1 k2 : Kind) (h1 : Plain k1) (h2 : Plain k2) :
    TokOK text δ s (if s.nextchar.chr ≠ some d then .ok (k1, s.loc, s.pos, s.nextchar)
      else .ok (k2, s.loc, s.pos, s.nextchar.nextchar)) := by
  have hn := nextchar_after h (inp_ne_of_chr hc)
  split
  · exact tokOK_plain h hc hcn h1 hn.later
  · rename_i hd
    exact tokOK_plain h hc hcn h2 (hn.next (inp_ne_of_chr (c := d) (by simpa using hd))).later

theorem tokOK_lit {s : S} (h : Inv text δ s) {c : UInt8} (hc : s.chr = some c) (hcn : c ≠ c! '\n')
    {o : Nat} (ho : off s ≤ o) (s2 : S) (str : Bool)
    (h1 : After text δ o ({ s2 with usebuf := true } : S).nextchar) :
    TokOK text δ s (match (if str then stringlit s2 else charconst s2) with
      | .error e => .error e
      | .ok r => .ok (r.fst, s.loc, s.pos, r.snd)) := by
  split
  · rename_i e heq
    refine ErrLine.mono ?_ ho
    cases str
    · exact charconst_err h1 heq
    · exact stringlit_err h1 heq
  · rename_i r heq
    obtain ⟨k, s'⟩ := r
    have : After text δ o s' ∧ (k = .TSTRINGLIT ∨ k = .TCHARCONST) := by
      cases str
      · exact charconst_after h1 heq
      · exact stringlit_after h1 heq
    refine tokOK_plain h hc hcn ?_ (this.1.mono ho).later
    rcases this.2 with e | e <;> subst e <;> exact ⟨by simp, by simp⟩

theorem not_special_facts : ∀ c : UInt8, isSpecial c = false → c ≠ c! '\n' ∧ c ≠ c! '.' := by
  apply Spec.Lex.forall_uint8; decide +kernel

theorem alpha_idchar : ∀ c : UInt8, (isalpha c = true ∨ c = c! '_') → isidchar c = true := by
  apply Spec.Lex.forall_uint8; decide +kernel

/-- **`scankind` delivers the location of the token's first byte** -/
theorem scankind_ok : ∀ (fuel : Nat) (s : S), Inv text δ s → TokOK text δ s (scankind fuel s) := by
  intro fuel
  induction fuel with
  | zero => intro s h; rw [scankind]; exact errLine_of_inv h _ (Nat.le_refl _)
  | succ fuel ih =>
    intro s h
    cases hc : s.chr with
    | none =>
      rw [scankind]
      simp only [hc]
      have hnil : s.inp = [] := by
        cases hi : s.inp with
        | nil => rfl
        | cons e r => simp [S.chr, hi] at hc
      obtain ⟨hp, hs⟩ := h.eof hnil
      have ho : off s = text.length := by simp [off, hnil, hp]
      refine ⟨off s, Nat.le_refl _, ?_, h.loc, ?_, ?_, h, fun hk => absurd rfl hk, fun _ => rfl⟩
      · simp [hs, off, hnil]
      · rw [ho]; simp
      · rw [ho]; simp
    | some c =>
      have hne := inp_ne_of_chr hc
      have hblank : c ≠ c! '.' → c ≠ c! '\n' →
          TokOK text δ s (scankind fuel ({ s with sawspace := true } : S).nextchar) := by
        intro hcd _
        have h1 : After text δ (off s) ({ s with sawspace := true } : S).nextchar :=
          nextchar_after' h hne _ rfl
        exact tokOK_mono (ih _ h1.inv) h1.sk (h.sk_of_chr hc hcd) (Nat.le_of_lt h1.lt)
      by_cases hsp : isSpecial c = true
      · simp only [isSpecial, Bool.or_eq_true, decide_eq_true_eq] at hsp
        repeat' (rcases hsp with hsp | hsp)
        all_goals subst_vars
        all_goals rw [scankind]
        all_goals simp (decide := true) only [hc, if_true, if_false]
        -- blanks
        · exact hblank (by decide) (by decide)
        · exact hblank (by decide) (by decide)
        · exact hblank (by decide) (by decide)
        · exact hblank (by decide) (by decide)
        -- !
        · exact tokOK_op2 h hc (by decide) _ _ (by decide) (by decide)
        -- "
        · exact tokOK_lit h hc (by decide) (Nat.le_refl _) s true (nextchar_after' h hne _ rfl)
        -- #
        · exact tokOK_double h hc (by decide) _ _ _ (by decide) (by decide)
        -- %
        · exact tokOK_op2 h hc (by decide) _ _ (by decide) (by decide)
        -- &
        · exact tokOK_op3 h hc (by decide) _ _ _ (by decide) (by decide) (by decide)
        -- '
        · exact tokOK_lit h hc (by decide) (Nat.le_refl _) s false (nextchar_after' h hne _ rfl)
        -- *
        · exact tokOK_op2 h hc (by decide) _ _ (by decide) (by decide)
        -- +
        · exact tokOK_op3 h hc (by decide) _ _ _ (by decide) (by decide) (by decide)
        -- -
        · have h3 := op3_after h hne .TSUB .TSUBASSIGN .TDEC
          split
          · exact tokOK_op3 h hc (by decide) _ _ _ (by decide) (by decide) (by decide)
          · rename_i hn
            have hgt : (op3 s .TSUB .TSUBASSIGN .TDEC).2.chr = some (c! '>') := by
              have := not_or.mp hn
              simpa using this.2
            exact tokOK_plain h hc (by decide) (by decide) (h3.next (inp_ne_of_chr hgt)).later
        -- /
        · have h2 := op2_after h hne .TDIV .TDIVASSIGN
          split
          · split
            · rename_i e hcm
              exact comment_err h2 hcm
            · rename_i s1 hcm
              have h1 := comment_after h2 hcm
              exact tokOK_mono (ih _ h1.inv) h1.sk (h.sk_of_chr hc (by decide)) (Nat.le_of_lt h1.lt)
            · exact tokOK_op2 h hc (by decide) _ _ (by decide) (by decide)
          · exact tokOK_op2 h hc (by decide) _ _ (by decide) (by decide)
        -- <
        · exact tokOK_op4 h hc (by decide) _ _ _ _ (by decide) (by decide) (by decide) (by decide)
        -- =
        · exact tokOK_op2 h hc (by decide) _ _ (by decide) (by decide)
        -- >
        · exact tokOK_op4 h hc (by decide) _ _ _ _ (by decide) (by decide) (by decide) (by decide)
        -- ^
        · exact tokOK_op2 h hc (by decide) _ _ (by decide) (by decide)
        -- |
        · exact tokOK_op3 h hc (by decide) _ _ _ (by decide) (by decide) (by decide)
        -- new-line
        · exact tokOK_ret h hc (by decide) ⟨fun _ => rfl, fun _ => rfl⟩ (nextchar_after h hne).later
        -- [ ] ( ) { }
        · exact tokOK_single h hc (by decide) _ (by decide)
        · exact tokOK_single h hc (by decide) _ (by decide)
        · exact tokOK_single h hc (by decide) _ (by decide)
        · exact tokOK_single h hc (by decide) _ (by decide)
        · exact tokOK_single h hc (by decide) _ (by decide)
        · exact tokOK_single h hc (by decide) _ (by decide)
        -- .
        · have h1 := nextchar_after h hne
          split
          · rename_i hd
            refine tokOK_plain h hc (by decide) ⟨by simp [number], by simp [number]⟩ ?_
            exact (number_after (h1.of_core (s' := { s.nextchar with buf := s.nextchar.buf ++ [c! '.'] }) rfl)
              (inp_ne_of_onChr hd)).later
          · split
            · exact tokOK_plain h hc (by decide) (by decide) h1.later
            · rename_i hdot
              have hd : s.nextchar.chr = some (c! '.') := by simpa using hdot
              split
              · exact tokOK_plain h hc (by decide) (by decide) (pushbackDot_later h1 hd)
              · rename_i hdot2
                have hd2 : s.nextchar.nextchar.chr = some (c! '.') := by simpa using hdot2
                exact tokOK_plain h hc (by decide) (by decide)
                  ((h1.next (inp_ne_of_chr hd)).next (inp_ne_of_chr hd2)).later
        -- ~ ?
        · exact tokOK_single h hc (by decide) _ (by decide)
        · exact tokOK_single h hc (by decide) _ (by decide)
        -- :
        · exact tokOK_double h hc (by decide) _ _ _ (by decide) (by decide)
        -- ; ,
        · exact tokOK_single h hc (by decide) _ (by decide)
        · exact tokOK_single h hc (by decide) _ (by decide)
      · have hns : isSpecial c = false := by simpa using hsp
        obtain ⟨hcn, _⟩ := not_special_facts c hns
        rw [scankind_tail fuel s c hc hns, scanTail]
        split
        · simp only []
          have h1 : After text δ (off s) ({ s with usebuf := true } : S).nextchar :=
            nextchar_after' h hne _ rfl
          generalize ({ s with usebuf := true } : S).nextchar = s1 at h1 ⊢
          have h2 : After text δ (off s)
              (if s1.buf.head? = some (c! 'u') ∧ s1.chr = some (c! '8') then s1.nextchar else s1) := by
            split
            · rename_i h8; exact h1.next (inp_ne_of_chr h8.2)
            · exact h1
          generalize (if s1.buf.head? = some (c! 'u') ∧ s1.chr = some (c! '8') then s1.nextchar else s1)
            = s2 at h2 ⊢
          split
          · rename_i hq
            exact tokOK_lit h hc hcn (Nat.le_refl _) s2 false (h2.next' (inp_ne_of_chr hq) _ rfl)
          · split
            · rename_i hq
              exact tokOK_lit h hc hcn (Nat.le_refl _) s2 true (h2.next' (inp_ne_of_chr hq) _ rfl)
            · exact tokOK_plain h hc hcn ⟨by simp [ident], by simp [ident]⟩ (ident_after h2).later
        · split
          · exact tokOK_plain h hc hcn ⟨by simp [number], by simp [number]⟩ (number_entry h hne).later
          · split
            · rename_i ha
              have hid : onChr isidchar s.chr = true := by rw [hc]; exact alpha_idchar c ha
              exact tokOK_plain h hc hcn ⟨by simp [ident], by simp [ident]⟩ (ident_entry h hid).later
            · exact tokOK_plain h hc hcn ⟨by simp, by simp⟩
                (nextchar_after' h hne ({ s with usebuf := true } : S) rfl).later

end CprocVerif.PPLine

/-
  C01 — values of well-typed expressions are in the range of their type.
-/
import CprocVerif.Model.CSem
import CprocVerif.Lemmas.Eval

namespace CprocVerif.LowerArith
open CprocVerif.CSem CprocVerif.CInt

theorem ty_valid (cs : Bool) (t : CSem.Ty) : (t.intTy cs).Valid := by
  cases t <;> simp [Ty.intTy, Ty.size, Ty.signed, IntTy.Valid, IntTy.Arith, IntTy.bool]

theorem ty_arith (cs : Bool) {t : CSem.Ty} (h : t.promoted = true) : (t.intTy cs).Arith := by
  cases t <;> simp [Ty.promoted] at h <;> simp [Ty.intTy, Ty.size, IntTy.Arith]

theorem int_intTy (cs : Bool) : Ty.intTy cs .int = IntTy.int := rfl

theorem lorSC_inRange {a : Int} {b : Option Int} {v : Int} (h : lorSC a b = some v) :
    InRange IntTy.int v := by
  unfold lorSC at h
  split at h
  · cases h; decide
  · cases b with
    | none => cases h
    | some b => cases h; exact Eval.b2i_inRange _

theorem landSC_inRange {a : Int} {b : Option Int} {v : Int} (h : landSC a b = some v) :
    InRange IntTy.int v := by
  unfold landSC at h
  split at h
  · cases h; decide
  · cases b with
    | none => cases h
    | some b => cases h; exact Eval.b2i_inRange _

theorem evalC_inRange (cs : Bool) (ptys : List CSem.Ty) (ρ : List Int) (henv : EnvOK cs ptys ρ)
    (e : Expr) : ∀ v, e.wt ptys = true → evalC cs ρ e = some v → InRange (e.ty.intTy cs) v := by
  induction e with
  | const t u =>
    intro v _ h
    simp only [evalC, Option.some.injEq] at h
    subst h
    exact Eval.wrap_inRange (ty_valid cs t) _
  | param t i =>
    intro v hw h
    simp only [Expr.wt, beq_iff_eq] at hw
    exact henv.2 i t v hw h
  | cast t e ih =>
    intro v _ h
    simp only [evalC, Option.map_eq_some_iff] at h
    obtain ⟨a, _, rfl⟩ := h
    exact Eval.wrap_inRange (ty_valid cs t) _
  | neg t e ih =>
    intro v _ h
    simp only [evalC, Option.bind_eq_some_iff] at h
    obtain ⟨a, _, h2⟩ := h
    exact Eval.arith_inRange (ty_valid cs t) h2
  | bin op t l r ihl ihr =>
    intro v hw h
    simp only [Expr.wt, Bool.and_eq_true] at hw
    obtain ⟨⟨hwl, hwr⟩, hty⟩ := hw
    cases op
    case lor =>
      simp only [isLogic, if_true, beq_iff_eq] at hty
      simp only [evalC, Option.bind_eq_some_iff] at h
      obtain ⟨a, _, h2⟩ := h
      subst hty
      exact lorSC_inRange h2
    case land =>
      simp only [isLogic, if_true, beq_iff_eq] at hty
      simp only [evalC, Option.bind_eq_some_iff] at h
      obtain ⟨a, _, h2⟩ := h
      subst hty
      exact landSC_inRange h2
    all_goals
      simp only [evalC, Option.bind_eq_some_iff] at h
      obtain ⟨a, ha, b, hb, h2⟩ := h
      simp only [isLogic, BinOp.isShift, BinOp.isCmp, Bool.false_eq_true, if_false, if_true,
        beq_iff_eq, Bool.and_eq_true] at hty
    -- shifts
    case shl =>
      obtain ⟨⟨h1, h3⟩, _⟩ := hty
      have := Eval.bin_inRange (ty_arith cs (h1 ▸ h3)) .shl (ihl a hwl ha) (by simp [BinOp.isShift]) h2
      show InRange (Ty.intTy cs t) v
      simpa [binResTy, BinOp.isCmp, h1] using this
    case shr =>
      obtain ⟨⟨h1, h3⟩, _⟩ := hty
      have := Eval.bin_inRange (ty_arith cs (h1 ▸ h3)) .shr (ihl a hwl ha) (by simp [BinOp.isShift]) h2
      show InRange (Ty.intTy cs t) v
      simpa [binResTy, BinOp.isCmp, h1] using this
    -- comparisons
    case lt | gt | le | ge | eq | ne =>
      obtain ⟨⟨h1, h3⟩, h4⟩ := hty
      subst h4
      simp only [bin, Option.some.injEq] at h2
      subst h2
      exact Eval.b2i_inRange _
    -- arithmetic
    all_goals
      obtain ⟨⟨h1, h3⟩, h4⟩ := hty
      have hb' := ihr b hwr hb
      rw [h3, ← h1] at hb'
      have := Eval.bin_inRange (ty_arith cs (h1 ▸ h4)) _ (ihl a hwl ha) (fun _ => hb') h2
      show InRange (Ty.intTy cs t) v
      simpa [binResTy, BinOp.isCmp, h1] using this
  | cond t c a b ihc iha ihb =>
    intro v hw h
    simp only [Expr.wt, Bool.and_eq_true, beq_iff_eq] at hw
    obtain ⟨⟨⟨⟨_, hwa⟩, hwb⟩, hta⟩, htb⟩ := hw
    simp only [evalC, Option.bind_eq_some_iff] at h
    obtain ⟨vc, _, h2⟩ := h
    split at h2
    · have := iha v hwa h2; rwa [hta] at this
    · have := ihb v hwb h2; rwa [htb] at this

end CprocVerif.LowerArith

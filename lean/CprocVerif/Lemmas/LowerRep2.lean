/-
  C01 — per-operator lemmas, continued: shifts, comparisons, unary minus, constants.
-/
import CprocVerif.Lemmas.LowerRep

set_option linter.unusedSimpArgs false

namespace CprocVerif.LowerArith
open CprocVerif.Qbe CprocVerif.CSem CprocVerif.CInt CprocVerif.Lower

/-! ## Shifts -/

/-- The right operand of a shift is read at class `w` whatever its type; a defined count is
    below 64, so nothing is lost. -/
def CountRep (b : Int) (r : RVal) : Prop :=
  ∃ y, r.asW = .ok y ∧ (0 ≤ b → b < 64 → (y.toNat : Int) = b)

theorem finish_shift_w {o : Op} (ho : IsShift o) {ra rb : RVal} {x y z : UInt64} {v : Int} (M : Mem)
    (va : Option ByteArray) (hx : ra.asW = .ok x) (hy : rb.asW = .ok y)
    (hz : arith2 o .w x y = .ok z) (hzv : (z.toNat : Int) % 2 ^ 32 = v % 2 ^ 32) :
    ∃ r, execOp o (some .w) [ra, rb] M va = .ok (r, M) ∧ WRep 32 v r :=
  ⟨_, exec_shift ho M va (k := .w) hx hy hz, _, rfl, by
    show ((z &&& mask32).toNat : Int) % 2 ^ 32 = _
    rw [toNat_and_mask32]; omega⟩

theorem finish_shift_l {o : Op} (ho : IsShift o) {ra rb : RVal} {x y z : UInt64} {v : Int} (M : Mem)
    (va : Option ByteArray) (hx : ra.asL = .ok x) (hy : rb.asW = .ok y)
    (hz : arith2 o .l x y = .ok z) (hzv : (z.toNat : Int) = v % 2 ^ 64) :
    ∃ r, execOp o (some .l) [ra, rb] M va = .ok (r, M) ∧ LRep v r :=
  ⟨_, exec_shift ho M va (k := .l) hx hy hz, _, rfl, hzv⟩

theorem shift_w (sg : Bool) (op : BinOp) (hop : op = .shl ∨ op = .shr)
    {a b v : Int} {ra rb : RVal} (M : Mem) (va : Option ByteArray)
    (ha : InRange ⟨32, sg⟩ a) (hra : WRep 32 a ra) (hrb : CountRep b rb)
    (hv : bin op ⟨32, sg⟩ a b = some v) :
    ∃ r, execOp (binOpSel sg true op) (some .w) [ra, rb] M va = .ok (r, M) ∧ WRep 32 v r := by
  obtain ⟨x, hx, hxa⟩ := hra
  obtain ⟨y, hy, hyb⟩ := hrb
  have hxl := asW_lt hx
  have hyl := asW_lt hy
  have h32 : (32 : UInt32).toNat = 32 := by decide
  rcases hop with rfl | rfl
  · -- shl
    simp only [bin] at hv
    split at hv
    · cases hv
    rename_i hb
    have hb' : 0 ≤ b ∧ b < 32 := by omega
    have hyv := hyb hb'.1 (by omega)
    obtain ⟨k, rfl⟩ : ∃ k : Nat, b = k := ⟨b.toNat, by omega⟩
    have hv' : v % 2 ^ 32 = (a * 2 ^ k) % 2 ^ 32 := by
      simp only [Int.toNat_natCast] at hv
      cases sg
      · simp only [Bool.false_eq_true, if_false, Option.some.injEq] at hv
        rw [← hv, wrap_mod32]
      · simp only [if_true] at hv
        split at hv
        · cases hv
        split at hv
        · simp only [Option.some.injEq] at hv; rw [hv]
        · cases hv
    refine finish_shift_w (by simp [IsShift, binOpSel]) M va hx hy rfl ?_
    simp only [UInt32.toNat_toUInt64, UInt32.toNat_shiftLeft, UInt64.toNat_toUInt32,
      UInt32.toNat_mod, h32, Nat.shiftLeft_eq, Nat.mod_eq_of_lt hxl, Nat.mod_eq_of_lt hyl]
    have hk : y.toNat = k := by omega
    have hk32 : k % 32 % 32 = k := by omega
    rw [hk, hk32, hv', ← mul_emod32 x.toNat (2 ^ k) a (2 ^ k) hxa rfl]
    simp only [Int.natCast_emod, Int.natCast_mul, Int.natCast_pow, Int.cast_ofNat_Int]
    omega
  · -- shr
    simp only [bin] at hv
    split at hv
    · cases hv
    rename_i hb
    have hb' : 0 ≤ b ∧ b < 32 := by omega
    have hyv := hyb hb'.1 (by omega)
    obtain ⟨k, rfl⟩ : ∃ k : Nat, b = k := ⟨b.toNat, by omega⟩
    simp only [Int.toNat_natCast, Option.some.injEq] at hv
    rw [Int.fdiv_eq_ediv_of_nonneg _ (Int.le_of_lt (Int.pow_pos (by decide)))] at hv
    have hk : y.toNat = k := by omega
    cases sg
    · have hxv := w_val_u hxl hxa ha
      refine finish_shift_w (o := .shr) (by simp [IsShift, binOpSel]) M va hx hy rfl ?_
      simp only [UInt32.toNat_toUInt64, UInt32.toNat_shiftRight, UInt64.toNat_toUInt32,
        UInt32.toNat_mod, h32, Nat.shiftRight_eq_div_pow, Nat.mod_eq_of_lt hxl,
        Nat.mod_eq_of_lt hyl]
      have hk32 : k % 32 % 32 = k := by omega
      rw [hk, hk32, ← hv, ← hxv, Int.natCast_ediv, Int.natCast_pow]
      rfl
    · have hxv := w_val_s hxa ha
      have hc : (y.toUInt32 % 32).toNat = k := by
        rw [UInt32.toNat_mod, h32, UInt64.toNat_toUInt32, Nat.mod_eq_of_lt hyl]; omega
      refine finish_shift_w (o := .sar) (by simp [IsShift, binOpSel]) M va hx hy
        (z := (x.toUInt32.toInt32 >>> (y.toUInt32 % 32).toInt32).toUInt32.toUInt64) rfl ?_
      rw [UInt32.toNat_toUInt64, i32_back, i32_sar _ _ (by omega), hc, hxv, ← hv]
      omega

theorem shift_l (sg : Bool) (op : BinOp) (hop : op = .shl ∨ op = .shr)
    {a b v : Int} {ra rb : RVal} (M : Mem) (va : Option ByteArray)
    (ha : InRange ⟨64, sg⟩ a) (hra : LRep a ra) (hrb : CountRep b rb)
    (hv : bin op ⟨64, sg⟩ a b = some v) :
    ∃ r, execOp (binOpSel sg false op) (some .l) [ra, rb] M va = .ok (r, M) ∧ LRep v r := by
  obtain ⟨x, hx, hxa⟩ := hra
  obtain ⟨y, hy, hyb⟩ := hrb
  have hxl := x.toNat_lt
  have hyl := asW_lt hy
  have h64 : (64 : UInt64).toNat = 64 := by decide
  rcases hop with rfl | rfl
  · -- shl
    simp only [bin] at hv
    split at hv
    · cases hv
    rename_i hb
    have hb' : 0 ≤ b ∧ b < 64 := by omega
    have hyv := hyb hb'.1 (by omega)
    obtain ⟨k, rfl⟩ : ∃ k : Nat, b = k := ⟨b.toNat, by omega⟩
    have hv' : v % 2 ^ 64 = (a * 2 ^ k) % 2 ^ 64 := by
      simp only [Int.toNat_natCast] at hv
      cases sg
      · simp only [Bool.false_eq_true, if_false, Option.some.injEq] at hv
        rw [← hv, wrap_mod64]
      · simp only [if_true] at hv
        split at hv
        · cases hv
        split at hv
        · simp only [Option.some.injEq] at hv; rw [hv]
        · cases hv
    refine finish_shift_l (by simp [IsShift, binOpSel]) M va hx hy rfl ?_
    simp only [UInt64.toNat_shiftLeft, UInt64.toNat_mod, h64, Nat.shiftLeft_eq]
    have hk : y.toNat = k := by omega
    have hk64 : k % 64 % 64 = k := by omega
    rw [hk, hk64, hv', ← mul_emod64 x.toNat (2 ^ k) a (2 ^ k) (by omega) rfl]
    simp only [Int.natCast_emod, Int.natCast_mul, Int.natCast_pow, Int.cast_ofNat_Int]
  · -- shr
    simp only [bin] at hv
    split at hv
    · cases hv
    rename_i hb
    have hb' : 0 ≤ b ∧ b < 64 := by omega
    have hyv := hyb hb'.1 (by omega)
    obtain ⟨k, rfl⟩ : ∃ k : Nat, b = k := ⟨b.toNat, by omega⟩
    simp only [Int.toNat_natCast, Option.some.injEq] at hv
    rw [Int.fdiv_eq_ediv_of_nonneg _ (Int.le_of_lt (Int.pow_pos (by decide)))] at hv
    have hk : y.toNat = k := by omega
    have hk64 : k % 64 % 64 = k := by omega
    cases sg
    · have hxv := l_val_u hxa ha
      refine finish_shift_l (o := .shr) (by simp [IsShift, binOpSel]) M va hx hy rfl ?_
      simp only [UInt64.toNat_shiftRight, UInt64.toNat_mod, h64, Nat.shiftRight_eq_div_pow]
      have hq : ((x.toNat / 2 ^ k : Nat) : Int) = (x.toNat : Int) / 2 ^ k := by
        rw [Int.natCast_ediv, Int.natCast_pow]; rfl
      rw [hk, hk64, ← hv, ← hxv, ← hq]
      have h2 : x.toNat / 2 ^ k ≤ x.toNat := Nat.div_le_self _ _
      generalize x.toNat / 2 ^ k = q at *
      omega
    · have hxv := l_val_s hxa ha
      have hc : (y % 64).toNat = k := by
        rw [UInt64.toNat_mod, h64]; omega
      refine finish_shift_l (o := .sar) (by simp [IsShift, binOpSel]) M va hx hy
        (z := (x.toInt64 >>> (y % 64).toInt64).toUInt64) rfl ?_
      rw [i64_back, i64_sar _ _ (by omega), hc, hxv, ← hv]

/-! ## Comparisons -/

theorem boolBits_toNat (c : Bool) : ((boolBits c &&& mask32).toNat : Int) = b2i c := by
  cases c <;> decide

/-- A comparison result is exactly 0 or 1 (kind `w`). -/
def BoolRes (c : Bool) (r : RVal) : Prop := r = ⟨.w, boolBits c &&& mask32⟩

theorem BoolRes.wrep {c : Bool} {r : RVal} (h : BoolRes c r) : WRep 32 (b2i c) r := by
  subst h
  refine ⟨_, rfl, ?_⟩
  cases c <;> decide

theorem BoolRes.asW {c : Bool} {r : RVal} (h : BoolRes c r) :
    r.asW = .ok (if c then 1 else 0) := by
  subst h
  cases c <;> rfl

theorem cmp_finish_w (c : ICmp) {ra rb : RVal} {x y : UInt64} (M : Mem) (va : Option ByteArray)
    (hx : ra.asW = .ok x) (hy : rb.asW = .ok y) {res : Bool} (h : icmp32 c x y = res) :
    ∃ r, execOp (.cmpw c) (some .w) [ra, rb] M va = .ok (r, M) ∧ BoolRes res r := by
  subst h
  exact ⟨_, exec_cmpw c M va hx hy, rfl⟩

theorem cmp_finish_l (c : ICmp) {ra rb : RVal} {x y : UInt64} (M : Mem) (va : Option ByteArray)
    (hx : ra.asL = .ok x) (hy : rb.asL = .ok y) {res : Bool} (h : icmp64 c x y = res) :
    ∃ r, execOp (.cmpl c) (some .w) [ra, rb] M va = .ok (r, M) ∧ BoolRes res r := by
  subst h
  exact ⟨_, exec_cmpl c M va hx hy, rfl⟩

def IsCmpOp (op : BinOp) : Prop :=
  op = .lt ∨ op = .gt ∨ op = .le ∨ op = .ge ∨ op = .eq ∨ op = .ne

theorem u32_beq {x y : UInt64} : (x.toUInt32 == y.toUInt32) = decide (x.toNat % 2 ^ 32 = y.toNat % 2 ^ 32) := by
  rw [Bool.eq_iff_iff, beq_iff_eq, decide_eq_true_iff, ← UInt32.toNat_inj,
    UInt64.toNat_toUInt32, UInt64.toNat_toUInt32]

theorem cmp_w (sg : Bool) (op : BinOp) (hop : IsCmpOp op)
    {a b v : Int} {ra rb : RVal} (M : Mem) (va : Option ByteArray)
    (ha : InRange ⟨32, sg⟩ a) (hb : InRange ⟨32, sg⟩ b)
    (hra : WRep 32 a ra) (hrb : WRep 32 b rb) (hv : bin op ⟨32, sg⟩ a b = some v) :
    ∃ r c, execOp (binOpSel sg true op) (some .w) [ra, rb] M va = .ok (r, M) ∧ BoolRes c r ∧
      v = b2i c := by
  obtain ⟨x, hx, hxa⟩ := hra
  obtain ⟨y, hy, hyb⟩ := hrb
  have hxl := asW_lt hx
  have hyl := asW_lt hy
  have heq : (x.toUInt32 == y.toUInt32) = decide (a = b) := by
    rw [u32_beq]
    cases sg
    · rw [inRange32u] at ha hb
      apply decide_eq_decide.2; omega
    · rw [inRange32s] at ha hb
      apply decide_eq_decide.2; omega
  cases sg
  · -- unsigned
    have hxv := w_val_u hxl hxa ha
    have hyv := w_val_u hyl hyb hb
    have hx32 : x.toUInt32.toNat = x.toNat := by
      rw [UInt64.toNat_toUInt32, Nat.mod_eq_of_lt hxl]
    have hy32 : y.toUInt32.toNat = y.toNat := by
      rw [UInt64.toNat_toUInt32, Nat.mod_eq_of_lt hyl]
    rcases hop with rfl | rfl | rfl | rfl | rfl | rfl <;>
      simp only [bin, Option.some.injEq] at hv <;> subst hv
    · obtain ⟨r, h1, h2⟩ := cmp_finish_w .ult M va hx hy (res := decide (a < b)) (by
        simp only [icmp32]; apply decide_eq_decide.2; rw [UInt32.lt_iff_toNat_lt, hx32, hy32]; omega)
      exact ⟨r, _, h1, h2, rfl⟩
    · obtain ⟨r, h1, h2⟩ := cmp_finish_w .ugt M va hx hy (res := decide (a > b)) (by
        simp only [icmp32]; apply decide_eq_decide.2
        show y.toUInt32 < x.toUInt32 ↔ _
        rw [UInt32.lt_iff_toNat_lt, hx32, hy32]; omega)
      exact ⟨r, _, h1, h2, rfl⟩
    · obtain ⟨r, h1, h2⟩ := cmp_finish_w .ule M va hx hy (res := decide (a ≤ b)) (by
        simp only [icmp32]; apply decide_eq_decide.2; rw [UInt32.le_iff_toNat_le, hx32, hy32]; omega)
      exact ⟨r, _, h1, h2, rfl⟩
    · obtain ⟨r, h1, h2⟩ := cmp_finish_w .uge M va hx hy (res := decide (a ≥ b)) (by
        simp only [icmp32]; apply decide_eq_decide.2
        show y.toUInt32 ≤ x.toUInt32 ↔ _
        rw [UInt32.le_iff_toNat_le, hx32, hy32]; omega)
      exact ⟨r, _, h1, h2, rfl⟩
    · obtain ⟨r, h1, h2⟩ := cmp_finish_w .eq M va hx hy (res := decide (a = b)) (by
        simp only [icmp32]; exact heq)
      exact ⟨r, _, h1, h2, rfl⟩
    · obtain ⟨r, h1, h2⟩ := cmp_finish_w .ne M va hx hy (res := decide (a ≠ b)) (by
        simp only [icmp32, bne, heq]; simp)
      exact ⟨r, _, h1, h2, rfl⟩
  · -- signed
    have hxv := w_val_s hxa ha
    have hyv := w_val_s hyb hb
    rcases hop with rfl | rfl | rfl | rfl | rfl | rfl <;>
      simp only [bin, Option.some.injEq] at hv <;> subst hv
    · obtain ⟨r, h1, h2⟩ := cmp_finish_w .slt M va hx hy (res := decide (a < b)) (by
        simp only [icmp32]; apply decide_eq_decide.2; rw [Int32.lt_iff_toInt_lt, hxv, hyv])
      exact ⟨r, _, h1, h2, rfl⟩
    · obtain ⟨r, h1, h2⟩ := cmp_finish_w .sgt M va hx hy (res := decide (a > b)) (by
        simp only [icmp32]; apply decide_eq_decide.2
        show y.toUInt32.toInt32 < x.toUInt32.toInt32 ↔ _
        rw [Int32.lt_iff_toInt_lt, hxv, hyv])
      exact ⟨r, _, h1, h2, rfl⟩
    · obtain ⟨r, h1, h2⟩ := cmp_finish_w .sle M va hx hy (res := decide (a ≤ b)) (by
        simp only [icmp32]; apply decide_eq_decide.2; rw [Int32.le_iff_toInt_le, hxv, hyv])
      exact ⟨r, _, h1, h2, rfl⟩
    · obtain ⟨r, h1, h2⟩ := cmp_finish_w .sge M va hx hy (res := decide (a ≥ b)) (by
        simp only [icmp32]; apply decide_eq_decide.2
        show y.toUInt32.toInt32 ≤ x.toUInt32.toInt32 ↔ _
        rw [Int32.le_iff_toInt_le, hxv, hyv])
      exact ⟨r, _, h1, h2, rfl⟩
    · obtain ⟨r, h1, h2⟩ := cmp_finish_w .eq M va hx hy (res := decide (a = b)) (by
        simp only [icmp32]; exact heq)
      exact ⟨r, _, h1, h2, rfl⟩
    · obtain ⟨r, h1, h2⟩ := cmp_finish_w .ne M va hx hy (res := decide (a ≠ b)) (by
        simp only [icmp32, bne, heq]; simp)
      exact ⟨r, _, h1, h2, rfl⟩

theorem u64_beq {x y : UInt64} : (x == y) = decide (x.toNat = y.toNat) := by
  rw [Bool.eq_iff_iff, beq_iff_eq, decide_eq_true_iff, ← UInt64.toNat_inj]

theorem cmp_l (sg : Bool) (op : BinOp) (hop : IsCmpOp op)
    {a b v : Int} {ra rb : RVal} (M : Mem) (va : Option ByteArray)
    (ha : InRange ⟨64, sg⟩ a) (hb : InRange ⟨64, sg⟩ b)
    (hra : LRep a ra) (hrb : LRep b rb) (hv : bin op ⟨64, sg⟩ a b = some v) :
    ∃ r c, execOp (binOpSel sg false op) (some .w) [ra, rb] M va = .ok (r, M) ∧ BoolRes c r ∧
      v = b2i c := by
  obtain ⟨x, hx, hxa⟩ := hra
  obtain ⟨y, hy, hyb⟩ := hrb
  have hxl := x.toNat_lt
  have hyl := y.toNat_lt
  have heq : (x == y) = decide (a = b) := by
    rw [u64_beq]
    cases sg
    · rw [inRange64u] at ha hb
      apply decide_eq_decide.2; omega
    · rw [inRange64s] at ha hb
      apply decide_eq_decide.2; omega
  cases sg
  · -- unsigned
    have hxv := l_val_u hxa ha
    have hyv := l_val_u hyb hb
    rcases hop with rfl | rfl | rfl | rfl | rfl | rfl <;>
      simp only [bin, Option.some.injEq] at hv <;> subst hv
    · obtain ⟨r, h1, h2⟩ := cmp_finish_l .ult M va hx hy (res := decide (a < b)) (by
        simp only [icmp64]; apply decide_eq_decide.2; rw [UInt64.lt_iff_toNat_lt]; omega)
      exact ⟨r, _, h1, h2, rfl⟩
    · obtain ⟨r, h1, h2⟩ := cmp_finish_l .ugt M va hx hy (res := decide (a > b)) (by
        simp only [icmp64]; apply decide_eq_decide.2
        show y < x ↔ _
        rw [UInt64.lt_iff_toNat_lt]; omega)
      exact ⟨r, _, h1, h2, rfl⟩
    · obtain ⟨r, h1, h2⟩ := cmp_finish_l .ule M va hx hy (res := decide (a ≤ b)) (by
        simp only [icmp64]; apply decide_eq_decide.2; rw [UInt64.le_iff_toNat_le]; omega)
      exact ⟨r, _, h1, h2, rfl⟩
    · obtain ⟨r, h1, h2⟩ := cmp_finish_l .uge M va hx hy (res := decide (a ≥ b)) (by
        simp only [icmp64]; apply decide_eq_decide.2
        show y ≤ x ↔ _
        rw [UInt64.le_iff_toNat_le]; omega)
      exact ⟨r, _, h1, h2, rfl⟩
    · obtain ⟨r, h1, h2⟩ := cmp_finish_l .eq M va hx hy (res := decide (a = b)) (by
        simp only [icmp64]; exact heq)
      exact ⟨r, _, h1, h2, rfl⟩
    · obtain ⟨r, h1, h2⟩ := cmp_finish_l .ne M va hx hy (res := decide (a ≠ b)) (by
        simp only [icmp64, bne, heq]; simp)
      exact ⟨r, _, h1, h2, rfl⟩
  · -- signed
    have hxv := l_val_s hxa ha
    have hyv := l_val_s hyb hb
    rcases hop with rfl | rfl | rfl | rfl | rfl | rfl <;>
      simp only [bin, Option.some.injEq] at hv <;> subst hv
    · obtain ⟨r, h1, h2⟩ := cmp_finish_l .slt M va hx hy (res := decide (a < b)) (by
        simp only [icmp64]; apply decide_eq_decide.2; rw [Int64.lt_iff_toInt_lt, hxv, hyv])
      exact ⟨r, _, h1, h2, rfl⟩
    · obtain ⟨r, h1, h2⟩ := cmp_finish_l .sgt M va hx hy (res := decide (a > b)) (by
        simp only [icmp64]; apply decide_eq_decide.2
        show y.toInt64 < x.toInt64 ↔ _
        rw [Int64.lt_iff_toInt_lt, hxv, hyv])
      exact ⟨r, _, h1, h2, rfl⟩
    · obtain ⟨r, h1, h2⟩ := cmp_finish_l .sle M va hx hy (res := decide (a ≤ b)) (by
        simp only [icmp64]; apply decide_eq_decide.2; rw [Int64.le_iff_toInt_le, hxv, hyv])
      exact ⟨r, _, h1, h2, rfl⟩
    · obtain ⟨r, h1, h2⟩ := cmp_finish_l .sge M va hx hy (res := decide (a ≥ b)) (by
        simp only [icmp64]; apply decide_eq_decide.2
        show y.toInt64 ≤ x.toInt64 ↔ _
        rw [Int64.le_iff_toInt_le, hxv, hyv])
      exact ⟨r, _, h1, h2, rfl⟩
    · obtain ⟨r, h1, h2⟩ := cmp_finish_l .eq M va hx hy (res := decide (a = b)) (by
        simp only [icmp64]; exact heq)
      exact ⟨r, _, h1, h2, rfl⟩
    · obtain ⟨r, h1, h2⟩ := cmp_finish_l .ne M va hx hy (res := decide (a ≠ b)) (by
        simp only [icmp64, bne, heq]; simp)
      exact ⟨r, _, h1, h2, rfl⟩

end CprocVerif.LowerArith

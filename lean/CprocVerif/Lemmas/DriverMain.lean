import CprocVerif.Lemmas.DriverBuild

/-! C17: `plan cfg (argv c) = docPlan asImplemented cfg c` for every well-formed command line. -/

namespace CprocVerif.DriverLemmas
open CprocVerif.Driver CprocVerif.DriverDoc

def toDoc : Outcome → DocOutcome
  | .fatalTarget => .fatalTarget
  | .refused _ => .refused
  | .run p => .run p

theorem archOf_eq (t : Str) : archOf t = docArch t := by
  simp only [archOf, archTable, docArch, List.find?, List.any, Bool.or_false]
  cases isPfx (str "x86_64-") t <;> cases isPfx (str "amd64-") t <;> cases isPfx (str "aarch64-") t <;>
    cases isPfx (str "riscv64-") t <;> rfl

def s0 : PState := {}

theorem baseCmd_eq (cfg : Config) (arch : Str × Str) (items : List Item) (st : Stage) :
    baseCmd cfg arch (docState s0 items) st =
      configured cfg st ++ targetFlag arch st ++ items.flatMap (toolArgsP false (toolOf st)) := by
  cases st <;> simp [baseCmd, docState, configured, targetFlag, toolOf, s0]

/-- the refusals decided after the argument loop -/
def restRefuses (c : Cmd) : Bool :=
  (docInputs c).isEmpty ||
  (match docOutput c with
   | none => false
   | some o =>
     if o = ['-'] then decide ((docMode c).idx ≥ Stage.assemble.idx)
     else decide (docMode c ≠ .link) && decide ((docInputs c).length > 1))

theorem docRefuses_eq (c : Cmd) : docRefuses c = (parseRefuses .none c.items || restRefuses c) := by
  simp only [docRefuses, restRefuses, parseRefuses_eq, unknownLang, docInputs, Bool.or_assoc]
  cases docOutput c <;> rfl

theorem state_last (c : Cmd) : (docState s0 c.items).last = docMode c := rfl
theorem state_output (c : Cmd) : (docState s0 c.items).output = docOutput c := by
  simp [docState, s0, docOutput]
theorem state_inputs (c : Cmd) : (docState s0 c.items).inputs = (docInputs c).map toInput := by
  simp [docState, s0, docInputs]

theorem check_ok (c : Cmd) (h : restRefuses c = false) : check (docState s0 c.items) = .ok () := by
  simp only [restRefuses, Bool.or_eq_false_iff] at h
  obtain ⟨h1, h2⟩ := h
  unfold check
  rw [state_inputs, state_output, state_last]
  have h1' : ((docInputs c).map toInput).isEmpty = false := by simpa using h1
  simp only [h1', Bool.false_eq_true, if_false, List.length_map]
  cases ho : docOutput c with
  | none => rfl
  | some o =>
    simp only [ho] at h2 ⊢
    by_cases hd : o = ['-']
    · simp only [hd, if_true] at h2 ⊢
      simp only [decide_eq_false_iff_not] at h2
      simp [h2]
    · simp only [hd, if_false] at h2 ⊢
      simp only [Bool.and_eq_false_iff, decide_eq_false_iff_not] at h2
      have : ¬(docMode c ≠ Stage.link ∧ (docInputs c).length > 1) := by
        rintro ⟨a, b⟩; rcases h2 with h2 | h2 <;> contradiction
      simp [this]

theorem check_err (c : Cmd) (h : restRefuses c = true) : ∃ w, check (docState s0 c.items) = .error (.usage w) := by
  simp only [restRefuses, Bool.or_eq_true] at h
  unfold check
  rw [state_inputs, state_output, state_last]
  by_cases h1 : (docInputs c).isEmpty = true
  · have h1' : ((docInputs c).map toInput).isEmpty = true := by simpa using h1
    exact ⟨.plain, by simp only [h1', if_true]⟩
  · have h1' : ((docInputs c).map toInput).isEmpty = false := by simpa using h1
    simp only [h1', Bool.false_eq_true, if_false, List.length_map]
    rcases h with h | h
    · exact absurd h h1
    · cases ho : docOutput c with
      | none => simp [ho] at h
      | some o =>
        simp only [ho] at h ⊢
        by_cases hd : o = ['-']
        · simp only [hd, if_true, decide_eq_true_eq] at h ⊢
          exact ⟨.objToStdout, by simp only [h, if_true]⟩
        · simp only [hd, if_false, Bool.and_eq_true, decide_eq_true_eq] at h ⊢
          exact ⟨.oMulti, by simp [h]⟩

theorem build_eq (cfg : Config) (arch : Str × Str) (c : Cmd) :
    build cfg arch (docState s0 c.items) =
      (let base := fun st => configured cfg st ++ targetFlag arch st ++ c.items.flatMap (toolArgsP false (toolOf st))
       let nostdlib := c.items.contains .nostdlib
       { pipelines := docPipelines implOpts base (docMode c) (docOutput c) 0 (docInputs c)
         link :=
           if docMode c = .link then
             some ((base .link).map .lit ++ [.lit (str "-o"), .lit ((docOutput c).getD (str "a.out"))] ++
               (if nostdlib then [] else cfg.startfiles.map .lit) ++
               docLinkWords implOpts (docMode c) 0 (docInputs c) ++
               (if nostdlib then [] else cfg.endfiles.map .lit))
           else none
         unlinks := if docMode c = .link then docUnlinks implOpts 0 (docInputs c) else []
         verbose := c.items.contains .verbose }) := by
  have hb : baseCmd cfg arch (docState s0 c.items) =
      fun st => configured cfg st ++ targetFlag arch st ++ c.items.flatMap (toolArgsP false (toolOf st)) := by
    funext st; exact baseCmd_eq cfg arch c.items st
  unfold build
  simp only [hb, state_inputs, state_output, state_last, buildAll_map, pipelines_eq]
  have hns : (docState s0 c.items).nostdlib = c.items.contains .nostdlib := by simp [docState, s0]
  have hv : (docState s0 c.items).verbose = c.items.contains .verbose := by simp [docState, s0]
  rw [hns, hv]
  by_cases hm : docMode c = .link
  · simp only [hm, if_true]
    have hw := linkWords_eq (fun st => configured cfg st ++ targetFlag arch st ++ c.items.flatMap (toolArgsP false (toolOf st)))
      (docOutput c) (docInputs c) (docInputsFrom_libs c.items .none) 0
    have hu := unlinks_link (fun st => configured cfg st ++ targetFlag arch st ++ c.items.flatMap (toolArgsP false (toolOf st)))
      (docOutput c) (docInputs c) 0
    simp only [linkWordsOf] at hw
    simp only [linkArgv, hw]
    rw [Plan.mk.injEq]
    exact ⟨rfl, rfl, hu, rfl⟩
  · simp only [hm, if_false]
    have hu := unlinks_nolink (fun st => configured cfg st ++ targetFlag arch st ++ c.items.flatMap (toolArgsP false (toolOf st)))
      (docMode c) hm (docOutput c) (docInputs c) 0
    rw [Plan.mk.injEq]
    exact ⟨rfl, rfl, hu, rfl⟩

theorem plan_eq_docPlan (cfg : Config) (c : Cmd) (h : c.WF = true) :
    toDoc (plan cfg c.argv) = docPlan .asImplemented cfg c := by
  unfold plan docPlan
  rw [archOf_eq]
  cases docArch cfg.target with
  | none => rfl
  | some arch =>
    simp only [Opts.asImplemented, Bool.false_eq_true, if_false]
    rw [parse_cmd _ c h, docRefuses_eq]
    by_cases hr : parseRefuses FileType.none c.items = true
    · obtain ⟨w, hw⟩ := updAll_err c.items ({} : PState) hr
      rw [hw]
      simp [hr, toDoc]
    · have hr' : parseRefuses FileType.none c.items = false := by simpa using hr
      rw [updAll_ok c.items ({} : PState) hr']
      simp only [hr', Bool.false_or]
      by_cases hc : restRefuses c = true
      · obtain ⟨w, hw⟩ := check_err c hc
        show toDoc (match check (docState s0 c.items) with | .error r => _ | .ok () => _) = _
        rw [hw]
        simp [hc, toDoc]
      · have hc' : restRefuses c = false := by simpa using hc
        show toDoc (match check (docState s0 c.items) with | .error r => _ | .ok () => _) = _
        rw [check_ok c hc']
        simp only [hc', Bool.false_eq_true, if_false, toDoc]
        have := build_eq cfg arch c
        simp only [implOpts, Opts.asImplemented] at this
        exact congrArg DocOutcome.run this

end CprocVerif.DriverLemmas

/-
  C01, fragment 𝔽₂ — `if` / `if`-`else` (stmt.c `case TIF`): controlling expression, `funcjnz` to
  `if_true`/`if_false`, the branches, `if_join`.
-/
import CprocVerif.Lemmas.Lower2Seq
import CprocVerif.Lemmas.Lower2Expr3

set_option linter.unusedSimpArgs false

namespace CprocVerif.LowerMach2
open CprocVerif.Qbe CprocVerif.Lower CprocVerif.Lower2 CprocVerif.CSem CprocVerif.CSem2 CprocVerif.CInt
open CprocVerif.LowerArith CprocVerif.LowerMach CprocVerif.LowerMem

theorem Ext.congr {T : Stat} {o o' : SCtx} (h : Ext T o) (hs : o'.slots = o.slots)
    (hl : o'.lastid = o.lastid) : Ext T o' := by
  unfold Ext at h ⊢
  rw [hs, hl]; exact h

/-- number and numbering of the slots after a statement -/
theorem slots_after {T : Stat} {c : SCtx} {nd nd' : Nat} {pre : List Item} (hp : Pos T c nd pre)
    {st : Stmt} {o : SOut} (g : SGood st c o) (hnd : nd' = nd + (declTys st).length) :
    o.ctx.slots.length = nd' ∧ ∀ i, i < nd' → o.ctx.slots.getD i 0 ≤ o.ctx.lastid := by
  obtain ⟨new, h1, h2, h3, _⟩ := g.slots
  refine ⟨by rw [h1, List.length_append, hp.nslots, h2, hnd], ?_⟩
  intro i hi
  rw [h1]
  by_cases hin : i < nd
  · rw [getD_append_left _ _ (by rw [hp.nslots]; exact hin)]
    have := hp.le i hin; have := g.lastid; omega
  · rw [getD_append_right _ _ (by rw [hp.nslots]; omega)]
    have hm : new.getD (i - c.slots.length) 0 ∈ new := getD_mem (by rw [hp.nslots, h2]; omega)
    exact (h3 _ hm).2

section
variable (T : Stat) {s : Store} {out : CSem2.Outcome} {lp : Bool × Bool} {brk cont : String} {c : SCtx}
  {nd nd' : Nat} {pre post : List Item} {env : Env} {M : Mem}

/-- controlling expression and branch: control arrives at the label selected by the value -/
theorem sim_branch (n : Nat) (hc : CallOK T n) (hp : Pos T c nd pre) (e : Expr3) (k : Nat)
    (hext : Ext T (((c.upd (exprOut3 T.S.cs c e).ctx).addBlocks k).upd
      (jnzOut T.S.cs ((c.upd (exprOut3 T.S.cs c e).ctx).addBlocks k) e.ty (exprOut3 T.S.cs c e).val).ctx))
    (hwt : e.wt (T.vtys.take nd) = true) (hok : efrag T e) {v : Int}
    (hev : evalE3 T.S.cs (callOf T.P fun s' st' => exec T.S.cs T.P n s' st') s e = some v)
    {l lt lz : String} {ph : List Phi}
    (hits : T.S.its = pre ++ (exprOut3 T.S.cs c e).items ++
      (jnzOut T.S.cs ((c.upd (exprOut3 T.S.cs c e).ctx).addBlocks k) e.ty (exprOut3 T.S.cs c e).val).items ++
      .lbl (some (.jnz (jnzOut T.S.cs ((c.upd (exprOut3 T.S.cs c e).ctx).addBlocks k) e.ty
        (exprOut3 T.S.cs c e).val).val lt lz)) l ph :: post)
    (ht : CanJump T.S lt) (hz : CanJump T.S lz) (inv : SInv T.M0 T.S.cs T.cnts T.W T.σ T.vtys s env M) :
    ∃ n env' st, T.Reach n (T.at env M pre) st ∧ SInv T.M0 T.S.cs T.cnts T.W T.σ T.vtys s env' M ∧
      AtLabel T.S (if v ≠ 0 then lt else lz) env' M st := by
  obtain ⟨n1, env1, r, w, hreach, inv1, hval, hw, hwv⟩ := sim_condOut3 T n hc hp e k hext hwt hok hev hits inv
  obtain ⟨st, hstep, hat⟩ := step_jnz_item T hits ht hz M hval hw
  refine ⟨n1 + 1, env1, st, hreach.trans (Reach.one hstep), inv1, ?_⟩
  by_cases hv0 : v ≠ 0
  · have : (w != 0) = true := by simpa using hwv.2 hv0
    rw [this] at hat
    simpa [hv0] using hat
  · have : (w != 0) = false := by
      have : ¬ w ≠ 0 := fun h => hv0 (hwv.1 h)
      simpa using this
    rw [this] at hat
    simpa [hv0] using hat

theorem sim_ite (n : Nat) (hc : CallOK T n) (ih : SimStmt T n) (e : Expr3) (a : Stmt)
    (hex : exec T.S.cs T.P (n + 1) s (.ite e a) = some out) (hfr : frag T.P T.cnts T.W (.ite e a) = true)
    (hwt : Stmt.wt T.vtys T.ret lp.1 lp.2 nd (.ite e a) = some nd') (hp : Pos T c nd pre)
    (hext : Ext T (funcstmt T.S.cs brk cont (.ite e a) c).ctx)
    (hits : T.S.its = pre ++ (funcstmt T.S.cs brk cont (.ite e a) c).items ++ post)
    (hlp : (lp.1 = true → CanJump T.S brk) ∧ (lp.2 = true → CanJump T.S cont))
    (inv : SInv T.M0 T.S.cs T.cnts T.W T.σ T.vtys s env M) :
    Post T lp brk cont (T.at env M pre) (pre ++ (funcstmt T.S.cs brk cont (.ite e a) c).items)
      (funcstmt T.S.cs brk cont (.ite e a) c).ctx out := by
  simp only [frag, Bool.and_eq_true] at hfr
  have hfe : efrag T e := by simp only [efrag, Bool.and_eq_true]; exact hfr.1
  have hfr := hfr.2
  simp only [Stmt.wt] at hwt
  split at hwt
  · rename_i hwe
    have hwe := hwe.1
    obtain ⟨hna, hca⟩ := wt_noDead _ _ a _ _ _ _ hwt
    simp only [exec, Option.bind_eq_some_iff] at hex
    obtain ⟨v, hev, hex⟩ := hex
    have hj2 : ((c.upd (exprOut3 T.S.cs c e).ctx).addBlocks 2).jump = none := hp.jump
    simp only [funcstmt, lowerE3_eq T.S.cs hp.jump, lowerJnz_eq T.S.cs hj2] at hext hits ⊢
    have ge := exprOut3_good T.S.cs c e
    have sj := jnzArg_straight T.S.cs ((c.upd (exprOut3 T.S.cs c e).ctx).addBlocks 2).ctx e.ty
      (exprOut3 T.S.cs c e).val
    have ga := funcstmt_good T.S.cs a brk cont ((((c.upd (exprOut3 T.S.cs c e).ctx).addBlocks 2).upd
      (jnzOut T.S.cs ((c.upd (exprOut3 T.S.cs c e).ctx).addBlocks 2) e.ty (exprOut3 T.S.cs c e).val).ctx).atLabel
        (lblName "if_true" ((c.upd (exprOut3 T.S.cs c e).ctx).blockid + 1))) rfl hna
    generalize hoe : exprOut3 T.S.cs c e = oe at *
    change Straight _ (jnzOut T.S.cs ((c.upd oe.ctx).addBlocks 2) e.ty oe.val) at sj
    generalize hoj : jnzOut T.S.cs ((c.upd oe.ctx).addBlocks 2) e.ty oe.val = oj at *
    generalize hoa : funcstmt T.S.cs brk cont a ((((c.upd oe.ctx).addBlocks 2).upd oj.ctx).atLabel
      (lblName "if_true" ((c.upd oe.ctx).blockid + 1))) = oa at *
    have hexta : Ext T oa.ctx := hext.congr rfl rfl
    have hextc : Ext T (((c.upd oe.ctx).addBlocks 2).upd oj.ctx) := (hexta.first ga).congr rfl rfl
    -- the pieces
    have hits1 := hits
    simp only [List.append_assoc, List.singleton_append, List.cons_append, List.nil_append] at hits1
    have hitsb : T.S.its = pre ++ oe.items ++ oj.items ++
        .lbl (some (.jnz oj.val (lblName "if_true" ((c.upd oe.ctx).blockid + 1))
          (lblName "if_false" ((c.upd oe.ctx).blockid + 2))))
          (lblName "if_true" ((c.upd oe.ctx).blockid + 1)) [] ::
        (oa.items ++ labelItem oa.ctx (lblName "if_false" ((c.upd oe.ctx).blockid + 2)) :: post) := by
      rw [hits1]; simp only [List.append_assoc]
    have hits2 : T.S.its = (pre ++ oe.items ++ oj.items ++ [.lbl (some (.jnz oj.val
        (lblName "if_true" ((c.upd oe.ctx).blockid + 1)) (lblName "if_false" ((c.upd oe.ctx).blockid + 2))))
        (lblName "if_true" ((c.upd oe.ctx).blockid + 1)) []] ++ oa.items) ++
        .lbl oa.ctx.jump (lblName "if_false" ((c.upd oe.ctx).blockid + 2)) [] :: post := by
      rw [hits1]; simp only [List.append_assoc, List.singleton_append, List.cons_append, List.nil_append,
        labelItem]
    have hct : CanJump T.S (lblName "if_true" ((c.upd oe.ctx).blockid + 1)) := canJump_item T.S hitsb
    have hcf : CanJump T.S (lblName "if_false" ((c.upd oe.ctx).blockid + 2)) := canJump_item T.S hits2
    obtain ⟨n1, env1, st, hreach, inv1, hat⟩ := sim_branch T n hc hp e 2 (by rw [hoe, hoj]; exact hextc) hwe hfe hev
      (by rw [hoe, hoj]; exact hitsb) hct hcf inv
    have l1 := ge.lastid; have l2 := sj.lastid; have b2 := sj.blockid
    unf at l1 l2 b2
    by_cases hv0 : v ≠ 0
    · rw [if_pos hv0] at hat hex
      have hst := atLabel_item T hitsb hat
      subst hst
      have hpa : Pos T ((((c.upd oe.ctx).addBlocks 2).upd oj.ctx).atLabel
          (lblName "if_true" ((c.upd oe.ctx).blockid + 1))) nd (pre ++ oe.items ++ oj.items ++
          [.lbl (some (.jnz oj.val (lblName "if_true" ((c.upd oe.ctx).blockid + 1))
            (lblName "if_false" ((c.upd oe.ctx).blockid + 2))))
            (lblName "if_true" ((c.upd oe.ctx).blockid + 1)) []]) := by
        refine ⟨rfl, curOf_lbl _ _ _ _ _, ?_, hp.nslots, ?_⟩
        · unf
          exact curOK_label "if_true" _ _ _ (by omega)
        · intro i hi
          have := hp.le i hi
          unf
          omega
      have hitsa : T.S.its = (pre ++ oe.items ++ oj.items ++ [.lbl (some (.jnz oj.val
          (lblName "if_true" ((c.upd oe.ctx).blockid + 1)) (lblName "if_false" ((c.upd oe.ctx).blockid + 2))))
          (lblName "if_true" ((c.upd oe.ctx).blockid + 1)) []]) ++ oa.items ++
          (.lbl oa.ctx.jump (lblName "if_false" ((c.upd oe.ctx).blockid + 2)) [] :: post) := by
        rw [hits2]
      have pa := ih a s out lp brk cont _ nd nd' _ _ env1 M hex hfr hwt hpa (by rw [hoa]; exact hexta)
        (by rw [hoa]; exact hitsa) hlp inv1
      rw [hoa] at pa
      have dn := (pa.close hits2 hlp).post (o := oa.ctx.atLabel (lblName "if_false" ((c.upd oe.ctx).blockid + 2))) rfl
      have := dn.prepend hreach
      simp only [List.append_assoc, List.singleton_append, List.cons_append, List.nil_append, labelItem]
        at this ⊢
      exact this
    · rw [if_neg hv0] at hat hex
      simp only [Option.some.injEq] at hex
      subst hex
      have hst := atLabel_item T hits2 hat
      subst hst
      refine ⟨rfl, n1, env1, M, ?_, inv1⟩
      simp only [List.append_assoc, List.singleton_append, List.cons_append, List.nil_append, labelItem]
        at hreach ⊢
      exact hreach
  · cases hwt

theorem sim_itee (n : Nat) (hc : CallOK T n) (ih : SimStmt T n) (e : Expr3) (a b : Stmt)
    (hex : exec T.S.cs T.P (n + 1) s (.itee e a b) = some out) (hfr : frag T.P T.cnts T.W (.itee e a b) = true)
    (hwt : Stmt.wt T.vtys T.ret lp.1 lp.2 nd (.itee e a b) = some nd') (hp : Pos T c nd pre)
    (hext : Ext T (funcstmt T.S.cs brk cont (.itee e a b) c).ctx)
    (hits : T.S.its = pre ++ (funcstmt T.S.cs brk cont (.itee e a b) c).items ++ post)
    (hlp : (lp.1 = true → CanJump T.S brk) ∧ (lp.2 = true → CanJump T.S cont))
    (inv : SInv T.M0 T.S.cs T.cnts T.W T.σ T.vtys s env M) :
    Post T lp brk cont (T.at env M pre) (pre ++ (funcstmt T.S.cs brk cont (.itee e a b) c).items)
      (funcstmt T.S.cs brk cont (.itee e a b) c).ctx out := by
  simp only [frag, Bool.and_eq_true] at hfr
  have hfe : efrag T e := by simp only [efrag, Bool.and_eq_true]; exact hfr.1
  have hfr := hfr.2
  simp only [Stmt.wt] at hwt
  split at hwt
  · rename_i hwe
    have hwe := hwe.1
    simp only [Option.bind_eq_some_iff] at hwt
    obtain ⟨n1, hwa, hwb⟩ := hwt
    obtain ⟨hna, hca⟩ := wt_noDead _ _ a _ _ _ _ hwa
    obtain ⟨hnb, hcb⟩ := wt_noDead _ _ b _ _ _ _ hwb
    simp only [exec, Option.bind_eq_some_iff] at hex
    obtain ⟨v, hev, hex⟩ := hex
    have hj2 : ((c.upd (exprOut3 T.S.cs c e).ctx).addBlocks 2).jump = none := hp.jump
    simp only [funcstmt, lowerE3_eq T.S.cs hp.jump, lowerJnz_eq T.S.cs hj2] at hext hits ⊢
    have ge := exprOut3_good T.S.cs c e
    have sj := jnzArg_straight T.S.cs ((c.upd (exprOut3 T.S.cs c e).ctx).addBlocks 2).ctx e.ty
      (exprOut3 T.S.cs c e).val
    have ga := funcstmt_good T.S.cs a brk cont ((((c.upd (exprOut3 T.S.cs c e).ctx).addBlocks 2).upd
      (jnzOut T.S.cs ((c.upd (exprOut3 T.S.cs c e).ctx).addBlocks 2) e.ty (exprOut3 T.S.cs c e).val).ctx).atLabel
        (lblName "if_true" ((c.upd (exprOut3 T.S.cs c e).ctx).blockid + 1))) rfl hna
    generalize hoe : exprOut3 T.S.cs c e = oe at *
    change Straight _ (jnzOut T.S.cs ((c.upd oe.ctx).addBlocks 2) e.ty oe.val) at sj
    generalize hoj : jnzOut T.S.cs ((c.upd oe.ctx).addBlocks 2) e.ty oe.val = oj at *
    generalize hoa : funcstmt T.S.cs brk cont a ((((c.upd oe.ctx).addBlocks 2).upd oj.ctx).atLabel
      (lblName "if_true" ((c.upd oe.ctx).blockid + 1))) = oa at *
    have gb := funcstmt_good T.S.cs b brk cont (((oa.ctx.addBlocks 1).setJump
      (.jmp (lblName "if_join" (oa.ctx.blockid + 1)))).atLabel
      (lblName "if_false" ((c.upd oe.ctx).blockid + 2))) rfl hnb
    generalize hob : funcstmt T.S.cs brk cont b (((oa.ctx.addBlocks 1).setJump
      (.jmp (lblName "if_join" (oa.ctx.blockid + 1)))).atLabel
      (lblName "if_false" ((c.upd oe.ctx).blockid + 2))) = ob at *
    have hextb : Ext T ob.ctx := hext.congr rfl rfl
    have hexta : Ext T oa.ctx := (hextb.first gb).congr rfl rfl
    have hextc : Ext T (((c.upd oe.ctx).addBlocks 2).upd oj.ctx) := (hexta.first ga).congr rfl rfl
    -- the pieces
    have hits1 := hits
    simp only [List.append_assoc, List.singleton_append, List.cons_append, List.nil_append, labelItem]
      at hits1
    have hitsb : T.S.its = pre ++ oe.items ++ oj.items ++
        .lbl (some (.jnz oj.val (lblName "if_true" ((c.upd oe.ctx).blockid + 1))
          (lblName "if_false" ((c.upd oe.ctx).blockid + 2))))
          (lblName "if_true" ((c.upd oe.ctx).blockid + 1)) [] ::
        (oa.items ++ .lbl (some (oa.ctx.jump.getD (.jmp (lblName "if_join" (oa.ctx.blockid + 1)))))
          (lblName "if_false" ((c.upd oe.ctx).blockid + 2)) [] ::
          (ob.items ++ .lbl ob.ctx.jump (lblName "if_join" (oa.ctx.blockid + 1)) [] :: post)) := by
      rw [hits1]; simp only [List.append_assoc]; rfl
    have hits2 : T.S.its = (pre ++ oe.items ++ oj.items ++ [.lbl (some (.jnz oj.val
        (lblName "if_true" ((c.upd oe.ctx).blockid + 1)) (lblName "if_false" ((c.upd oe.ctx).blockid + 2))))
        (lblName "if_true" ((c.upd oe.ctx).blockid + 1)) []] ++ oa.items) ++
        .lbl (some (oa.ctx.jump.getD (.jmp (lblName "if_join" (oa.ctx.blockid + 1)))))
          (lblName "if_false" ((c.upd oe.ctx).blockid + 2)) [] ::
          (ob.items ++ .lbl ob.ctx.jump (lblName "if_join" (oa.ctx.blockid + 1)) [] :: post) := by
      rw [hitsb]; simp only [List.append_assoc, List.singleton_append, List.cons_append, List.nil_append]
    have hits3 : T.S.its = (pre ++ oe.items ++ oj.items ++ [.lbl (some (.jnz oj.val
        (lblName "if_true" ((c.upd oe.ctx).blockid + 1)) (lblName "if_false" ((c.upd oe.ctx).blockid + 2))))
        (lblName "if_true" ((c.upd oe.ctx).blockid + 1)) []] ++ oa.items ++
        [.lbl (some (oa.ctx.jump.getD (.jmp (lblName "if_join" (oa.ctx.blockid + 1)))))
          (lblName "if_false" ((c.upd oe.ctx).blockid + 2)) []] ++ ob.items) ++
        .lbl ob.ctx.jump (lblName "if_join" (oa.ctx.blockid + 1)) [] :: post := by
      rw [hitsb]; simp only [List.append_assoc, List.singleton_append, List.cons_append, List.nil_append]
    have hct : CanJump T.S (lblName "if_true" ((c.upd oe.ctx).blockid + 1)) := canJump_item T.S hitsb
    have hcf : CanJump T.S (lblName "if_false" ((c.upd oe.ctx).blockid + 2)) := canJump_item T.S hits2
    have hcj : CanJump T.S (lblName "if_join" (oa.ctx.blockid + 1)) := canJump_item T.S hits3
    obtain ⟨k1, env1, st, hreach, inv1, hat⟩ := sim_branch T n hc hp e 2 (by rw [hoe, hoj]; exact hextc) hwe hfe hev
      (by rw [hoe, hoj]; exact hitsb) hct hcf inv
    have l1 := ge.lastid; have l2 := sj.lastid; have b2 := sj.blockid; have b3 := ga.blockid
    unf at l1 l2 b2 b3
    have hpa : Pos T ((((c.upd oe.ctx).addBlocks 2).upd oj.ctx).atLabel
        (lblName "if_true" ((c.upd oe.ctx).blockid + 1))) nd (pre ++ oe.items ++ oj.items ++
        [.lbl (some (.jnz oj.val (lblName "if_true" ((c.upd oe.ctx).blockid + 1))
          (lblName "if_false" ((c.upd oe.ctx).blockid + 2))))
          (lblName "if_true" ((c.upd oe.ctx).blockid + 1)) []]) := by
      refine ⟨rfl, curOf_lbl _ _ _ _ _, ?_, hp.nslots, ?_⟩
      · unf
        exact curOK_label "if_true" _ _ _ (by omega)
      · intro i hi
        have := hp.le i hi
        unf
        omega
    by_cases hv0 : v ≠ 0
    · rw [if_pos hv0] at hat hex
      have hst := atLabel_item T hitsb hat
      subst hst
      have hitsa : T.S.its = (pre ++ oe.items ++ oj.items ++ [.lbl (some (.jnz oj.val
          (lblName "if_true" ((c.upd oe.ctx).blockid + 1)) (lblName "if_false" ((c.upd oe.ctx).blockid + 2))))
          (lblName "if_true" ((c.upd oe.ctx).blockid + 1)) []]) ++ oa.items ++
          (.lbl (some (oa.ctx.jump.getD (.jmp (lblName "if_join" (oa.ctx.blockid + 1)))))
            (lblName "if_false" ((c.upd oe.ctx).blockid + 2)) [] ::
            (ob.items ++ .lbl ob.ctx.jump (lblName "if_join" (oa.ctx.blockid + 1)) [] :: post)) := by
        rw [hits2]
      have pa := ih a s out lp brk cont _ nd n1 _ _ env1 M hex hfr.1 hwa hpa (by rw [hoa]; exact hexta)
        (by rw [hoa]; exact hitsa) hlp inv1
      rw [hoa] at pa
      have cj := pa.closeJmp hits2 hlp hcj
      have hgoal : Post T lp brk cont (T.at env1 M (pre ++ oe.items ++ oj.items ++
          [.lbl (some (.jnz oj.val (lblName "if_true" ((c.upd oe.ctx).blockid + 1))
            (lblName "if_false" ((c.upd oe.ctx).blockid + 2))))
            (lblName "if_true" ((c.upd oe.ctx).blockid + 1)) []]))
          ((pre ++ oe.items ++ oj.items ++ [.lbl (some (.jnz oj.val
            (lblName "if_true" ((c.upd oe.ctx).blockid + 1)) (lblName "if_false" ((c.upd oe.ctx).blockid + 2))))
            (lblName "if_true" ((c.upd oe.ctx).blockid + 1)) []] ++ oa.items ++
            [.lbl (some (oa.ctx.jump.getD (.jmp (lblName "if_join" (oa.ctx.blockid + 1)))))
              (lblName "if_false" ((c.upd oe.ctx).blockid + 2)) []] ++ ob.items) ++
            [.lbl ob.ctx.jump (lblName "if_join" (oa.ctx.blockid + 1)) []])
          (ob.ctx.atLabel (lblName "if_join" (oa.ctx.blockid + 1))) out := by
        cases out with
        | normal s' =>
          obtain ⟨k, env', M', st, hr, hat', inv'⟩ := cj
          have hst := atLabel_item T hits3 hat'
          subst hst
          exact ⟨rfl, k, env', M', hr, inv'⟩
        | brk s' => exact (Done.move cj (by intro s'' h; cases h)).post rfl
        | cont s' => exact (Done.move cj (by intro s'' h; cases h)).post rfl
        | ret w => exact (Done.move cj (by intro s'' h; cases h)).post rfl
      have := hgoal.prepend hreach
      simp only [List.append_assoc, List.singleton_append, List.cons_append, List.nil_append, labelItem]
        at this ⊢
      exact this
    · rw [if_neg hv0] at hat hex
      have hst := atLabel_item T hits2 hat
      subst hst
      obtain ⟨hsl1, hsl2⟩ := slots_after hpa ga hca
      have hpb : Pos T (((oa.ctx.addBlocks 1).setJump (.jmp (lblName "if_join" (oa.ctx.blockid + 1)))).atLabel
          (lblName "if_false" ((c.upd oe.ctx).blockid + 2))) n1
          ((pre ++ oe.items ++ oj.items ++ [.lbl (some (.jnz oj.val
            (lblName "if_true" ((c.upd oe.ctx).blockid + 1)) (lblName "if_false" ((c.upd oe.ctx).blockid + 2))))
            (lblName "if_true" ((c.upd oe.ctx).blockid + 1)) []] ++ oa.items) ++
            [.lbl (some (oa.ctx.jump.getD (.jmp (lblName "if_join" (oa.ctx.blockid + 1)))))
              (lblName "if_false" ((c.upd oe.ctx).blockid + 2)) []]) := by
        refine ⟨rfl, curOf_lbl _ _ _ _ _, ?_, hsl1, hsl2⟩
        unf
        exact curOK_label "if_false" _ _ _ (by omega)
      have hitsb' : T.S.its = ((pre ++ oe.items ++ oj.items ++ [.lbl (some (.jnz oj.val
          (lblName "if_true" ((c.upd oe.ctx).blockid + 1)) (lblName "if_false" ((c.upd oe.ctx).blockid + 2))))
          (lblName "if_true" ((c.upd oe.ctx).blockid + 1)) []] ++ oa.items) ++
          [.lbl (some (oa.ctx.jump.getD (.jmp (lblName "if_join" (oa.ctx.blockid + 1)))))
            (lblName "if_false" ((c.upd oe.ctx).blockid + 2)) []]) ++ ob.items ++
          (.lbl ob.ctx.jump (lblName "if_join" (oa.ctx.blockid + 1)) [] :: post) := by
        rw [hits3]
      have pb := ih b s out lp brk cont _ n1 nd' _ _ env1 M hex hfr.2 hwb hpb (by rw [hob]; exact hextb)
        (by rw [hob]; exact hitsb') hlp inv1
      rw [hob] at pb
      have hits3' : T.S.its = (((pre ++ oe.items ++ oj.items ++ [.lbl (some (.jnz oj.val
          (lblName "if_true" ((c.upd oe.ctx).blockid + 1)) (lblName "if_false" ((c.upd oe.ctx).blockid + 2))))
          (lblName "if_true" ((c.upd oe.ctx).blockid + 1)) []] ++ oa.items) ++
          [.lbl (some (oa.ctx.jump.getD (.jmp (lblName "if_join" (oa.ctx.blockid + 1)))))
            (lblName "if_false" ((c.upd oe.ctx).blockid + 2)) []]) ++ ob.items) ++
          .lbl ob.ctx.jump (lblName "if_join" (oa.ctx.blockid + 1)) [] :: post := by
        rw [hits3]
      have dn := (pb.close hits3' hlp).post (o := ob.ctx.atLabel (lblName "if_join" (oa.ctx.blockid + 1))) rfl
      have := dn.prepend hreach
      simp only [List.append_assoc, List.singleton_append, List.cons_append, List.nil_append, labelItem]
        at this ⊢
      exact this
  · cases hwt

end

end CprocVerif.LowerMach2

import CprocVerif.Lemmas.AbiDescStruct

/-!
# Lemmas for C08, part 3: QBE's natural layout of the collapsed member list of a struct reproduces
the C offsets (list level)
-/

namespace CprocVerif.AbiDesc
open CprocVerif.Layout CprocVerif.Abi CprocVerif.QbeLayout

inductive All3 {α β γ : Type} (R : α → β → γ → Prop) : List α → List β → List γ → Prop
  | nil : All3 R [] [] []
  | cons {a b c as bs cs} : R a b c → All3 R as bs cs → All3 R (a :: as) (b :: bs) (c :: cs)

/-- list-level `flattenFields` (every field has a member): `some img` a non-bit-field member with
flattened type `img`, `none` a bit-field -/
def flatL (mg : Bool) : List (Option (List Fld)) → List Member → Option (Nat × Nat) → List Fld
  | [], _, _ => []
  | _ :: _, [], _ => []
  | im :: ims, m :: ms, last =>
    match im with
    | some img => shift m.offset img ++ flatL mg ims ms none
    | none =>
      (if mg && last == some (m.offset, m.tsize) then [] else [⟨m.offset, m.tsize, .int⟩]) ++
        flatL mg ims ms (some (m.offset, m.tsize))

/-- the data class of an integer type of the given size (`qbetype`) -/
def intBase (n : Nat) : Base := if n = 1 then .b else if n = 2 then .h else if n = 4 then .w else .l

def itCount (it : It) : Nat := if it.size > it.subSize then it.size / it.subSize else 1

/-- the entry `emittype` prints for a member describes the member -/
structure ItOk (m : Member) (it : It) (im : Option (List Fld)) : Prop where
  size : it.size = m.tsize
  pos : 0 < m.tsize
  align : (info it.item).align = m.talign
  total : itCount it * (info it.item).size = m.tsize
  plain : ∀ img, im = some img → m.width = none ∧ rep (itCount it) (info it.item).size (info it.item).flds = img
  bf : im = none → m.width.isSome ∧ itCount it = 1 ∧ (info it.item).flds = [⟨0, m.tsize, .int⟩]
  bfitem : m.width.isSome → it.item = .base (intBase m.tsize) ∧ it.subSize = m.tsize

def lastEnd : Nat → List Member → Nat
  | q, [] => q
  | _, m :: rest => lastEnd (m.offset + m.tsize) rest

def alignOf : List Member → Nat
  | [] => 1
  | m :: rest => max m.talign (alignOf rest)

/-- per-member facts used by the placement lemma -/
structure MemFacts (m : Member) : Prop where
  aligned : m.talign ∣ m.offset
  apos : 0 < m.talign
  bfal : m.width.isSome → m.tsize = m.talign
  fin : m.bitEnd ≤ 8 * (m.offset + m.tsize)

/-- what the collapse state `lo` and the spec's `last` know about the QBE cursor `q` -/
def CursorInv (lo : Option Nat) (last : Option (Nat × Nat)) (q : Nat) (ms : List Member) : Prop :=
  match last with
  | some (o, z) => lo = some o ∧ 0 < z ∧ q = o + z ∧
      ∀ m ∈ ms, (m.width.isSome ∧ m.offset = o ∧ m.tsize = z) ∨ q ≤ m.offset
  | none => ∀ m ∈ ms, q ≤ m.offset ∧ lo ≠ some m.offset

theorem mkDMs_cons (m : Member) (ms : List Member) (i : It) (is : List It) :
    mkDMs (m :: ms) (i :: is) = ⟨m.offset, i.size, i.item, i.subSize⟩ :: mkDMs ms is := rfl

theorem struct_place : ∀ (ms : List Member) (its : List It) (ims : List (Option (List Fld)))
    (lo : Option Nat) (last : Option (Nat × Nat)) (q c : Nat),
    All3 ItOk ms its ims → Tight c ms → (∀ m ∈ ms, MemFacts m) →
    List.Pairwise (fun a b => unitRel a b = true) ms → c ≤ 8 * q → CursorInv lo last q ms →
    (place (collapse lo (mkDMs ms its)) q).flds = flatL true ims ms last ∧
    (place (collapse lo (mkDMs ms its)) q).cur = lastEnd q ms ∧
    (place (collapse lo (mkDMs ms its)) q).align ≤ alignOf ms ∧
    1 ≤ (place (collapse lo (mkDMs ms its)) q).align ∧
    ∀ m ∈ ms, (∃ o z, last = some (o, z) ∧ m.width.isSome ∧ m.offset = o ∧ m.tsize = z) ∨
      m.talign ≤ (place (collapse lo (mkDMs ms its)) q).align
  | [], _, _, lo, last, q, c, h3, _, _, _, _, _ => by
    cases h3
    simp [mkDMs, collapse, place, flatL, lastEnd, alignOf]
  | m :: ms, _, _, lo, last, q, c, h3, ht, hf, hp, hcq, hinv => by
    cases h3 with
    | @cons _ it im _ its ims hit hrest =>
    obtain ⟨t1, t2, t3⟩ := ht
    have mf := hf m (List.mem_cons_self ..)
    have hf' : ∀ x ∈ ms, MemFacts x := fun x hx => hf x (List.mem_cons_of_mem _ hx)
    have hp' := (List.pairwise_cons.1 hp).2
    have hrel := (List.pairwise_cons.1 hp).1
    have hc' : m.bitEnd ≤ 8 * (m.offset + m.tsize) := mf.fin
    rw [mkDMs_cons]
    -- is `m` another bit-field of the unit emitted last?
    by_cases hsame : ∃ o z, last = some (o, z) ∧ m.width.isSome ∧ m.offset = o ∧ m.tsize = z
    · obtain ⟨o, z, hl, hw, ho, hz⟩ := hsame
      subst hl
      obtain ⟨i1, i2, i3, i4⟩ := hinv
      have hlo : lo = some (⟨m.offset, it.size, it.item, it.subSize⟩ : DM).offset := by rw [i1, ho]
      have him : im = none := by
        cases im with
        | none => rfl
        | some img => have := (hit.plain img rfl).1; rw [this] at hw; cases hw
      have hq : m.offset + m.tsize = q := by omega
      have ih := struct_place ms its ims lo (some (o, z)) q m.bitEnd hrest t3 hf' hp' (by omega)
        ⟨i1, i2, i3, fun x hx => i4 x (List.mem_cons_of_mem _ hx)⟩
      obtain ⟨r1, r2, r3, r4, r5⟩ := ih
      have hcol : collapse lo (⟨m.offset, it.size, it.item, it.subSize⟩ :: mkDMs ms its) =
          collapse lo (mkDMs ms its) := by
        conv => lhs; unfold collapse
        rw [if_pos hlo]
      rw [hcol]
      refine ⟨?_, ?_, ?_, r4, ?_⟩
      · rw [r1, him]
        simp only [flatL, ho, hz, beq_self_eq_true, Bool.and_self, ↓reduceIte, List.nil_append]
      · rw [r2]; simp only [lastEnd, hq]
      · simp only [alignOf]; omega
      · intro x hx
        rcases List.mem_cons.1 hx with rfl | hx
        · exact Or.inl ⟨o, z, rfl, hw, ho, hz⟩
        · exact r5 x hx
    · -- a new entry
      have hqm : q ≤ m.offset ∧ lo ≠ some m.offset := by
        cases last with
        | none => exact hinv m (List.mem_cons_self ..)
        | some oz =>
          obtain ⟨o, z⟩ := oz
          obtain ⟨i1, i2, i3, i4⟩ := hinv
          rcases i4 m (List.mem_cons_self ..) with h | h
          · exact absurd ⟨o, z, rfl, h⟩ hsame
          · refine ⟨h, ?_⟩
            rw [i1]; intro he; have := Option.some.inj he; omega
      have hlo : ¬ lo = some (⟨m.offset, it.size, it.item, it.subSize⟩ : DM).offset := hqm.2
      have hcount : (⟨m.offset, it.size, it.item, it.subSize⟩ : DM).count = itCount it := rfl
      have hoff : roundUp q (info it.item).align = m.offset := by
        rw [hit.align]
        apply roundUp_unique mf.apos mf.aligned hqm.1
        omega
      have hcol : collapse lo (⟨m.offset, it.size, it.item, it.subSize⟩ :: mkDMs ms its) =
          .cons it.item (itCount it) (collapse (some m.offset) (mkDMs ms its)) := by
        conv => lhs; unfold collapse
        rw [if_neg hlo, hcount]
      rw [hcol]
      simp only [place, hoff, hit.total]
      cases im with
      | some img =>
        obtain ⟨pw, pimg⟩ := hit.plain img rfl
        have hinv' : CursorInv (some m.offset) none (m.offset + m.tsize) ms := by
          intro x hx
          have := hrel x hx
          simp only [unitRel, sameUnit, pw, Option.isSome_none, Bool.false_and, Bool.false_or,
            decide_eq_true_eq] at this
          refine ⟨this, ?_⟩
          intro he; have := Option.some.inj he; have := hit.pos; omega
        obtain ⟨r1, r2, r3, r4, r5⟩ := struct_place ms its ims (some m.offset) none (m.offset + m.tsize) m.bitEnd
          hrest t3 hf' hp' hc' hinv'
        refine ⟨?_, ?_, ?_, by omega, ?_⟩
        · rw [r1, pimg]; simp only [flatL]
        · rw [r2]; simp only [lastEnd]
        · simp only [alignOf, hit.align]; omega
        · intro x hx
          rcases List.mem_cons.1 hx with rfl | hx
          · right; rw [hit.align]; omega
          · rcases r5 x hx with ⟨o, z, h, _⟩ | h
            · cases h
            · right; omega
      | none =>
        obtain ⟨bw, bc, bfl⟩ := hit.bf rfl
        have hinv' : CursorInv (some m.offset) (some (m.offset, m.tsize)) (m.offset + m.tsize) ms := by
          refine ⟨rfl, hit.pos, rfl, ?_⟩
          intro x hx
          have := hrel x hx
          simp only [unitRel, sameUnit, Bool.or_eq_true, Bool.and_eq_true, beq_iff_eq,
            decide_eq_true_eq] at this
          rcases this with ⟨⟨⟨_, h2⟩, h3⟩, h4⟩ | h
          · exact Or.inl ⟨h2, h3.symm, h4.symm⟩
          · exact Or.inr h
        obtain ⟨r1, r2, r3, r4, r5⟩ := struct_place ms its ims (some m.offset) (some (m.offset, m.tsize))
          (m.offset + m.tsize) m.bitEnd hrest t3 hf' hp' hc' hinv'
        have hne : (last == some (m.offset, m.tsize)) = false := by
          cases last with
          | none => rfl
          | some oz =>
            obtain ⟨o, z⟩ := oz
            apply beq_false_of_ne
            intro he
            have he' := Option.some.inj he
            have e1 : o = m.offset := congrArg Prod.fst he'
            have e2 : z = m.tsize := congrArg Prod.snd he'
            exact hsame ⟨o, z, rfl, bw, e1.symm, e2.symm⟩
        refine ⟨?_, ?_, ?_, by omega, ?_⟩
        · rw [r1, bc, rep_one, bfl]
          simp only [flatL, hne, Bool.and_false, Bool.false_eq_true, ↓reduceIte, shift_cons, shift_nil,
            Nat.zero_add, List.singleton_append]
        · rw [r2]; simp only [lastEnd]
        · simp only [alignOf, hit.align]; omega
        · intro x hx
          rcases List.mem_cons.1 hx with rfl | hx
          · right; rw [hit.align]; omega
          · rcases r5 x hx with ⟨o, z, h, xw, xo, xz⟩ | h
            · right
              have he' := Option.some.inj h
              have e2 : m.tsize = z := congrArg Prod.snd he'
              have := (hf' x hx).bfal xw
              have := mf.bfal bw
              rw [hit.align]; omega
            · right; omega

end CprocVerif.AbiDesc

import CprocVerif.Lemmas.LinkageInd

/-! # C09 — helper lemmas for the corollaries (facts about `annot` and the aggregates) -/
namespace CprocVerif.Linkage
open CprocVerif.Link

/-- Everything known about an accepted history outside the two known classes. -/
theorem accepted_shape (h : List Form) (hok : verdictRev h.reverse = .ok)
    (hI : inlineThenExternRev h.reverse = false) (hT : threadTentativeThenInitRev h.reverse = false) :
    ∃ s file top g, stepsRev h.reverse = .ok s ∧ symbols (finish s) = symbolsRev (annot h.reverse) ∧
      valid file top g = true ∧ aggs (annot h.reverse) = G file top g := by
  obtain ⟨s, hs, inv, io⟩ := full_sim h.reverse hok hT hI
  exact ⟨s, _, _, _, hs, symbols_finish inv io, inv.val, inv.ag⟩

theorem symbolsRev_main (A : List Decl) :
    (symbolsRev A).main = (mainA (aggs A)).toList.map (symOf (nameOf (aggs A))) := mainSyms_eq A

theorem symbolsRev_locals (A : List Decl) : (symbolsRev A).locals = localsRev A := rfl

theorem mem_annot_form {r : List Form} {d : Decl} (hd : d ∈ annot r) : d.form ∈ r := by
  have := List.mem_map_of_mem (f := (·.form)) hd
  rwa [annot_forms] at this

theorem mem_annot_of_form {r : List Form} {f : Form} (hf : f ∈ r) : ∃ d ∈ annot r, d.form = f := by
  rw [← annot_forms r] at hf
  obtain ⟨d, hd, rfl⟩ := List.mem_map.1 hf
  exact ⟨d, hd, rfl⟩

theorem annot_link (r : List Form) : ∀ d ∈ annot r, ∃ p, d.link = c11Link d.form p := by
  induction r with
  | nil => intro d hd; cases hd
  | cons f older ih =>
    intro d hd
    simp only [annot, List.mem_cons] at hd
    rcases hd with rfl | hd
    · exact ⟨_, rfl⟩
    · exact ih d hd

theorem c11Link_file_ne_none (f : Form) (p : Option Link) (hf : f.scope = .file) : c11Link f p ≠ .none := by
  unfold c11Link
  split
  · simp
  · split
    · rcases p with _ | (_ | _ | _) <;> simp
    · simp

theorem c11Link_file_static (f : Form) (p : Option Link) (hf : f.scope = .file) (hs : f.sc = .static) :
    c11Link f p = .intern := by
  simp [c11Link, hf, hs]

/-- the aggregates of the file-scope part, in terms of the history itself -/
theorem aggs_hasDef (r : List Form) :
    (aggs (annot r)).hasDef = r.any (fun f => decide (f.scope = .file) && f.hasDef) := by
  show hasDefinition (annot r) = _
  unfold hasDefinition Decl.atFile
  exact annot_any r (fun f => decide (f.scope = .file) && f.hasDef)

theorem aggs_fTent (r : List Form) :
    (aggs (annot r)).fTent =
      r.any (fun f => decide (f.scope = .file) && decide (f.kind = .obj ∧ ¬ f.hasDef = true ∧ f.sc ≠ .extern)) := by
  show ((annot r).filter Decl.atFile).any _ = _
  rw [List.any_filter]
  exact annot_any r (fun f => decide (f.scope = .file) && decide (f.kind = .obj ∧ ¬ f.hasDef = true ∧ f.sc ≠ .extern))

theorem aggs_fPure (r : List Form) :
    (aggs (annot r)).fPure =
      r.all (fun f => !decide (f.scope = .file) || decide (f.kind = .func → f.flag = true ∧ f.sc ≠ .extern)) := by
  show ((annot r).filter Decl.atFile).all _ = _
  rw [List.all_filter]
  exact annot_all r (fun f => !decide (f.scope = .file) || decide (f.kind = .func → f.flag = true ∧ f.sc ≠ .extern))

theorem valid_ftent {file top : Option Ent} {g : Ghost} (hv : valid file top g = true)
    (ht : g.ftent = true) : ∃ l, g.lent = some (.obj, l) := by
  simp only [valid, Bool.and_eq_true] at hv
  obtain ⟨⟨_, hf⟩, _⟩ := hv
  rcases file with _ | e
  · simp [validFile, ht] at hf
  · rcases e with ⟨k, l, d, t, i, du, a, ⟨⟩⟩
    cases k
    · simp only [validFile, Bool.and_eq_true, decide_eq_true_eq] at hf
      exact ⟨l, hf.1.1.2⟩
    · simp [validFile, ht] at hf

theorem valid_lent_ne_none {file top : Option Ent} {g : Ghost} (hv : valid file top g = true)
    {k : Kind} {l : Link} (hl : g.lent = some (k, l)) : l ≠ .none ∧ (g.lthread = true → k = .obj) := by
  simp only [valid, Bool.and_eq_true] at hv
  obtain ⟨⟨hg, _⟩, _⟩ := hv
  simp only [validGhost, hl, Bool.and_eq_true, decide_eq_true_eq, Bool.or_eq_true,
    Bool.not_eq_true'] at hg
  refine ⟨hg.1.1, fun ht => ?_⟩
  rcases hg.1.2 with h | h
  · rw [ht] at h; cases h
  · exact h

/-- `localsRev` names its symbols `loc 1 … loc k` -/
theorem localsRev_names (A : List Decl) :
    (localsRev A).map (·.name) = (List.range' 1 (countBlockStatics A)).map SymName.loc := by
  induction A with
  | nil => rfl
  | cons d A ih =>
    rw [countBlockStatics_cons]
    by_cases hb : d.blockStatic
    · simp only [localsRev, hb, if_true, List.map_append, ih, List.map_cons, List.map_nil]
      rw [List.range'_concat]
      simp [Nat.add_comm]
    · simp [localsRev, hb, ih]

theorem localsRev_nil (A : List Decl) (h : ∀ d ∈ A, d.blockStatic = false) : localsRev A = [] := by
  induction A with
  | nil => rfl
  | cons d A ih =>
    simp only [localsRev, h d (List.mem_cons_self ..), Bool.false_eq_true, if_false, List.append_nil]
    exact ih (fun x hx => h x (List.mem_cons_of_mem _ hx))

theorem annot_snoc (r : List Form) (f0 : Form) :
    ∃ B, annot (r ++ [f0]) = B ++ [⟨f0, c11Link f0 none⟩] := by
  induction r with
  | nil => exact ⟨[], by simp [annot, visLink]⟩
  | cons f older ih =>
    obtain ⟨B, hB⟩ := ih
    exact ⟨⟨f, c11Link f (visLink f (annot (older ++ [f0])))⟩ :: B, by
      simp only [List.cons_append, annot, hB]⟩

theorem mainA_some {a : Agg} {t : Bool × Bool × Bool × Bool} (h : mainA a = some t) :
    ∃ k l, a.lHead = some (k, l) ∧ t.2.1 = decide (l = .extern) ∧ (k = .obj → t.2.2.1 = a.lThread) ∧
      (k = .func → t.2.2.1 = false) := by
  unfold mainA at h
  rcases hl : a.lHead with _ | ⟨k, l⟩
  · rw [hl] at h; cases h
  · rw [hl] at h
    refine ⟨k, l, rfl, ?_⟩
    cases k
    · simp only at h
      split at h
      · cases h; exact ⟨rfl, ⟨fun _ => rfl, fun hk => by cases hk⟩⟩
      · split at h
        · cases h; exact ⟨rfl, ⟨fun _ => rfl, fun hk => by cases hk⟩⟩
        · cases h
    · simp only at h
      split at h
      · cases h; exact ⟨rfl, ⟨fun hk => (by cases hk), fun _ => rfl⟩⟩
      · cases h

theorem mem_linkedDecls {A : List Decl} {d : Decl} (hd : d ∈ A) (hl : d.link ≠ .none) :
    d ∈ linkedDecls A := List.mem_filter.2 ⟨hd, by simp [Decl.linked, hl]⟩

/-- in a valid abstract state every declaration with linkage has the linkage recorded in the ghost -/
theorem linked_eq_lent {A : List Decl} {file top : Option Ent} {g : Ghost}
    (hv : valid file top g = true) (hag : aggs A = G file top g) {d : Decl} (hd : d ∈ A)
    (hl : d.link ≠ .none) : ∃ k, g.lent = some (k, d.link) := by
  have hmem := mem_linkedDecls hd hl
  have hne : (aggs A).lHead ≠ none := by
    show (linkedDecls A).head?.map _ ≠ none
    cases hL : linkedDecls A with
    | nil => rw [hL] at hmem; cases hmem
    | cons x xs => simp
  rw [hag] at hne
  rcases hg : g.lent with _ | ⟨k, lg⟩
  · exact absurd hg hne
  · obtain ⟨hlg, _⟩ := valid_lent_ne_none hv hg
    refine ⟨k, ?_⟩
    have h1 : (aggs A).linkNeIntern = (match g.lent with | some (_, l) => decide (l ≠ .intern) | none => false) := by
      rw [hag]; rfl
    have h2 : (aggs A).linkNeExtern = (match g.lent with | some (_, l) => decide (l ≠ .extern) | none => false) := by
      rw [hag]; rfl
    rw [hg] at h1 h2
    simp only at h1 h2
    cases hdl : d.link with
    | none => exact absurd hdl hl
    | intern =>
      have : (aggs A).linkNeExtern = true :=
        List.any_eq_true.2 ⟨d, hmem, by simp [hdl]⟩
      rw [h2] at this
      cases lg <;> simp_all
    | extern =>
      have : (aggs A).linkNeIntern = true :=
        List.any_eq_true.2 ⟨d, hmem, by simp [hdl]⟩
      rw [h1] at this
      cases lg <;> simp_all

theorem visLink_mem {f : Form} {A : List Decl} {l : Link} (h : visLink f A = some l) :
    ∃ d ∈ A, d.link = l := by
  unfold visLink at h
  split at h
  · rcases hf : A.find? Decl.atFile with _ | d
    · rw [hf] at h; cases h
    · rw [hf] at h
      simp only [Option.map_some, Option.some.injEq] at h
      exact ⟨d, List.mem_of_find?_eq_some hf, h⟩
  · rcases hh : A.head? with _ | d
    · rw [hh] at h; cases h
    · rw [hh] at h
      simp only [Option.map_some, Option.some.injEq] at h
      exact ⟨d, List.mem_of_mem_head? (by rw [hh]; rfl), h⟩

/-- functions declared without storage-class specifier throughout have external linkage -/
theorem all_extern (r : List Form) (h : ∀ f ∈ r, f.sc = .none ∧ f.kind = .func) :
    ∀ d ∈ annot r, d.link = .extern := by
  induction r with
  | nil => intro d hd; cases hd
  | cons f older ih =>
    have ih' := ih (fun g hg => h g (List.mem_cons_of_mem _ hg))
    intro d hd
    simp only [annot, List.mem_cons] at hd
    rcases hd with rfl | hd
    · obtain ⟨h1, h2⟩ := h f (List.mem_cons_self ..)
      show c11Link f _ = .extern
      unfold c11Link
      simp only [h1, h2, reduceCtorEq, and_false, if_false, and_self, or_true, if_true]
      rcases hv : visLink f (annot older) with _ | l
      · rfl
      · obtain ⟨d', hd', rfl⟩ := visLink_mem hv
        rw [ih' d' hd']
    · exact ih' d hd

theorem localsRev_exported (A : List Decl) : ∀ y ∈ localsRev A, y.exported = false ∧ y.name.isLoc = true := by
  induction A with
  | nil => intro y hy; cases hy
  | cons d A ih =>
    intro y hy
    simp only [localsRev, List.mem_append] at hy
    rcases hy with hy | hy
    · exact ih y hy
    · split at hy
      · simp only [List.mem_singleton] at hy
        subst hy
        exact ⟨rfl, rfl⟩
      · cases hy

/-- the forms that declare a block-scope static object -/
def blockStaticForm (f : Form) : Bool := decide (f.scope ≠ .file) && decide (f.kind = .obj) && decide (f.sc = .static)

theorem countBlockStatics_annot (r : List Form) :
    countBlockStatics (annot r) = (r.filter blockStaticForm).length := by
  induction r with
  | nil => rfl
  | cons f older ih =>
    rw [show annot (f :: older) = ⟨f, c11Link f (visLink f (annot older))⟩ :: annot older from rfl,
      countBlockStatics_cons, ih]
    have : (⟨f, c11Link f (visLink f (annot older))⟩ : Decl).blockStatic = blockStaticForm f := by
      rcases f with ⟨k, sc, fl, s, hd, a⟩
      cases k <;> cases sc <;> cases s <;> simp [Decl.blockStatic, blockStaticForm, c11Link]
    rw [this]
    by_cases hb : blockStaticForm f <;> simp [hb]

end CprocVerif.Linkage

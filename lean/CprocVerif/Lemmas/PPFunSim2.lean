import CprocVerif.Lemmas.PPFunSim1

/-! # Whole-stream simulation, part 2: `rawnext` on a good state -/

namespace CprocVerif.PP
open CprocVerif.Gen.TokenKinds
open CprocVerif.Spec.MacroRef (HTok Item PTok MacroDef RErr Flag expandH lookup)
open CprocVerif.Spec

/-- where `rawnext` took its token from -/
inductive RawF (ms0 : List Macro) (st s1 : St) : Prop where
  | ctx (h1 : absF st = .tok (annH (liveNames s1.ctx) s1.rt) :: absF s1) (h2 : FlatOK ms0 s1.rt)
      (h3 : s1.raw = st.raw)
  | raw (h1 : st.raw = s1.rt :: s1.raw) (h2 : s1.ctx = []) (h3 : flatG annH st.macros st.ctx = [])
  | eof (h1 : s1.rt = eofTok) (h2 : st.raw = []) (h3 : s1.raw = []) (h4 : s1.ctx = [])
      (h5 : flatG annH st.macros st.ctx = [])

theorem textOK_head {ms0 : List Macro} {t : Tok} {r : List Tok} (h : TextOK ms0 (t :: r)) :
    t.kind ≠ .TNONE ∧ t.kind ≠ .THASH := by
  cases h with
  | plain _ _ h1 h2 h3 h4 h5 h6 => exact ⟨h3, h2⟩
  | call _ _ _ _ _ _ h1 => exact ⟨by rw [h1]; decide, by rw [h1]; decide⟩
  | eof _ h => exact ⟨by rw [h]; decide, by rw [h]; decide⟩

theorem rawnextF (ms0 : List Macro) (n : Nat) (st s1 : St) (g : GoodF ms0 st) (ht : TextOK ms0 st.raw)
    (h : exec n .rawnext st = .ok s1) : GoodF ms0 s1 ∧ RawF ms0 st s1 := by
  cases n with
  | zero => cases h
  | succ k =>
    change rawnextBody (exec k) st = .ok s1 at h
    unfold rawnextBody at h
    cases hc : exec k .ctxnext st with
    | error e => rw [hc] at h; cases h
    | ok sc =>
      rw [hc] at h
      simp only at h
      obtain ⟨sA, heA, hrawA, hwfA, hppA, hstripA, hinvA, hcaseA⟩ :=
        ctxnext_flatG annH (ctxSize st.ctx) st (Nat.le_refl _) g.wf
      obtain ⟨sB, heB, _, _, _, _, _, hcaseB⟩ :=
        ctxnext_flatG (fun _ (t : Tok) => t) (ctxSize st.ctx) st (Nat.le_refl _) g.wf
      have e1 : sc = sA := exec_det hc heA
      have e2 : sc = sB := exec_det hc heB
      subst e1
      rw [← e2] at hcaseB
      simp only [flatG_id] at hcaseB
      have gsc : GoodF ms0 sc := by
        refine ⟨(stat_of_strip hstripA).trans g.stat, hinvA g.inv, hwfA, ?_, by rw [hppA.2, g.prag], by rw [hppA.1, g.ppnl]⟩
        rcases hcaseB with ⟨_, hc0, _⟩ | ⟨_, hfl⟩
        · rw [hc0]; intro t ht; cases ht
        · intro t ht
          exact g.flatOk t (by rw [hfl]; exact List.mem_cons_of_mem _ ht)
      by_cases hrb : sc.rb = true
      · simp only [hrb, ↓reduceIte] at h
        cases h
        refine ⟨gsc, ?_⟩
        rcases hcaseA with ⟨hf, _, _⟩ | ⟨_, hfl⟩
        · rw [hf] at hrb; cases hrb
        · rcases hcaseB with ⟨hf, _, _⟩ | ⟨_, hflB⟩
          · rw [hf] at hrb; cases hrb
          · refine .ctx ?_ (g.flatOk _ (by rw [hflB]; exact List.mem_cons_self ..)) hrawA
            simp only [absF, hfl, hrawA, List.cons_append, List.map_cons]
      · simp only [hrb, Bool.false_eq_true, ↓reduceIte] at h
        have hctx0 : sc.ctx = [] ∧ flatG annH st.macros st.ctx = [] := by
          rcases hcaseA with ⟨_, h2, h3⟩ | ⟨hf, _⟩
          · exact ⟨h2, h3⟩
          · exact absurd hf hrb
        cases k with
        | zero => cases h
        | succ k' =>
          change nextintoBody (exec k') sc = .ok s1 at h
          unfold nextintoBody scanTok at h
          cases hr : sc.raw with
          | nil =>
            rw [hr] at h
            simp only [eofTok] at h
            have : ¬ (sc.newline = true ∧ Kind.TEOF = Kind.THASH) := by intro hh; cases hh.2
            simp only [this, ↓reduceIte] at h
            cases h
            refine ⟨⟨gsc.stat, gsc.inv, gsc.wf, gsc.flatOk, gsc.prag, gsc.ppnl⟩, ?_⟩
            exact .eof rfl (by rw [← hrawA, hr]) hr hctx0.1 hctx0.2
          | cons t r =>
            rw [hr] at h
            have htx : TextOK ms0 (t :: r) := by rw [← hr, hrawA]; exact ht
            have hk := textOK_head htx
            simp only [hk.1, ↓reduceIte, hk.2, and_false] at h
            cases h
            refine ⟨⟨gsc.stat, gsc.inv, gsc.wf, gsc.flatOk, gsc.prag, gsc.ppnl⟩, ?_⟩
            exact .raw (by rw [← hrawA, hr]) hctx0.1 hctx0.2

end CprocVerif.PP

/-
  C01, stages D/E inside expressions — simulation of `Lower2.funcexpr3`: `Lemmas/Lower2Expr.lean`'s induction once
  more, over `CSem2.Expr3`.  The array reads and the calls are leaves whose simulation is a hypothesis (it needs
  the memory and the other activations: `Lemmas/Lower2Expr3.lean`); the result carries its range, so that no
  separate type-soundness argument for the values of calls is needed.
-/
import CprocVerif.Lemmas.Lower2Expr
import CprocVerif.Lemmas.Lower2Struct3

set_option linter.unusedSimpArgs false

namespace CprocVerif.LowerMach2
open CprocVerif.Qbe CprocVerif.Lower CprocVerif.Lower2 CprocVerif.CSem CprocVerif.CSem2 CprocVerif.CInt
open CprocVerif.LowerArith CprocVerif.LowerMach

/-- the value of an arithmetic, shift or comparison node is in the range of its type -/
theorem bin_res_inRange (cs : Bool) (op : BinOp) (t lt rt : CSem.Ty) (hop : isLogic op = false)
    (hty : (if op.isShift then lt == t && t.promoted && rt.promoted
      else if op.isCmp then lt == rt && lt.promoted && t == .int
      else lt == t && rt == t && t.promoted) = true)
    {a b v : Int} (ha : InRange (lt.intTy cs) a) (hb : InRange (rt.intTy cs) b)
    (h : bin op (lt.intTy cs) a b = some v) : InRange (t.intTy cs) v := by
  have hs : ∀ (i : Nat) (t' : CSem.Ty) (v' : Int), [lt, rt][i]? = some t' →
      ([some a, some b] : Store)[i]? = some (some v') → InRange (t'.intTy cs) v' := by
    intro i t' v' ht hv
    match i, ht, hv with
    | 0, ht, hv => cases ht; cases hv; exact ha
    | 1, ht, hv => cases ht; cases hv; exact hb
  have hw : (Expr.bin op t (.param lt 0) (.param rt 1)).wt [lt, rt] = true := by
    simp only [Expr.wt, List.getElem?_cons_zero, List.getElem?_cons_succ, beq_self_eq_true, Bool.and_self,
      Bool.true_and, hop, Bool.false_eq_true, if_false, Expr.ty]
    exact hty
  have he : evalE cs [some a, some b] (Expr.bin op t (.param lt 0) (.param rt 1)) = some v := by
    cases op <;> simp only [isLogic, Bool.true_eq_false] at hop <;>
      simpa [evalE, Expr.ty, Option.join] using h
  exact evalE_inRange cs [lt, rt] [some a, some b] hs _ v hw he

theorem logic_res_inRange3 (cs : Bool) (callf : String → List Int → Option Int) (s : Store) (op : BinOp)
    (hop : isLogic op = true) (l r : Expr3) (v : Int)
    (h : evalE3 cs callf s (.bin op .int l r) = some v) : InRange (CSem.Ty.int.intTy cs) v := by
  cases op <;> simp only [isLogic, Bool.false_eq_true] at hop
  · simp only [evalE3, Option.bind_eq_some_iff] at h
    obtain ⟨a, _, h2⟩ := h
    exact lorSC_inRange h2
  · simp only [evalE3, Option.bind_eq_some_iff] at h
    obtain ⟨a, _, h2⟩ := h
    exact landSC_inRange h2

theorem logic_evalE3 (cs : Bool) (callf : String → List Int → Option Int) (s : Store) (op : BinOp) (hop : isLogic op = true) (t : CSem.Ty)
    (l r : Expr3) (v : Int) (h : evalE3 cs callf s (.bin op t l r) = some v) :
    ∃ a, evalE3 cs callf s l = some a ∧
      (if ((op == .lor) == decide (a ≠ 0)) = true then v = (if (op == .lor) = true then 1 else 0)
       else ∃ b, evalE3 cs callf s r = some b ∧ v = b2i (decide (b ≠ 0))) := by
  cases op <;> simp only [isLogic, Bool.false_eq_true] at hop
  · -- lor
    simp only [evalE3, Option.bind_eq_some_iff] at h
    obtain ⟨a, ha, h2⟩ := h
    refine ⟨a, ha, ?_⟩
    unfold lorSC at h2
    by_cases ha0 : a ≠ 0
    · rw [if_pos ha0] at h2
      cases h2
      simp [ha0]
    · rw [if_neg ha0, Option.map_eq_some_iff] at h2
      obtain ⟨b, hb, rfl⟩ := h2
      have hd : decide (a ≠ 0) = false := by simpa using ha0
      rw [hd]
      exact ⟨b, hb, rfl⟩
  · -- land
    simp only [evalE3, Option.bind_eq_some_iff] at h
    obtain ⟨a, ha, h2⟩ := h
    refine ⟨a, ha, ?_⟩
    unfold landSC at h2
    by_cases ha0 : a = 0
    · rw [if_pos ha0] at h2
      cases h2
      simp [ha0]
    · rw [if_neg ha0, Option.map_eq_some_iff] at h2
      obtain ⟨b, hb, rfl⟩ := h2
      have : (BinOp.land == BinOp.lor) = false := rfl
      simp only [this, ne_eq, ha0, not_false_eq_true, decide_true, Bool.false_beq, Bool.not_true,
        Bool.false_eq_true, if_false]
      exact ⟨b, hb, rfl⟩

/-- Typing against fewer variables implies typing against more. -/
theorem wt_mono3 {a b : List CSem.Ty} (hab : ∀ (i : Nat) (t : CSem.Ty), a[i]? = some t → b[i]? = some t)
    (e : Expr3) : e.wt a = true → e.wt b = true := by
  induction e with
  | pure e => exact wt_mono hab e
  | idx t arr n xb i =>
    intro h
    simp only [Expr3.wt, Bool.and_eq_true, beq_iff_eq] at h ⊢
    exact ⟨hab arr t h.1, wt_mono hab i h.2⟩
  | call rt fn args =>
    intro h
    simp only [Expr3.wt, List.all_eq_true] at h ⊢
    exact fun x hx => wt_mono hab x (h x hx)
  | cast t e ih => exact ih
  | neg t e ih =>
    intro h
    simp only [Expr3.wt, Bool.and_eq_true] at h ⊢
    exact ⟨h.1, ih h.2⟩
  | bin op t l r ihl ihr =>
    intro h
    simp only [Expr3.wt, Bool.and_eq_true] at h ⊢
    exact ⟨⟨ihl h.1.1, ihr h.1.2⟩, h.2⟩
  | cond t c x y ihc ihx ihy =>
    intro h
    simp only [Expr3.wt, Bool.and_eq_true] at h ⊢
    exact ⟨⟨⟨⟨⟨ihc h.1.1.1.1.1, ihx h.1.1.1.1.2⟩, ihy h.1.1.1.2⟩, h.1.1.2⟩, h.1.2⟩, h.2⟩
  | comma t x y ihx ihy =>
    intro h
    simp only [Expr3.wt, Bool.and_eq_true] at h ⊢
    exact ⟨⟨ihx h.1.1, ihy h.1.2⟩, h.2⟩

theorem take_mono_wt3 {vtys : List CSem.Ty} {n m : Nat} (h : n ≤ m) (e : Expr3)
    (hw : e.wt (vtys.take n) = true) : e.wt (vtys.take m) = true := by
  refine wt_mono3 ?_ e hw
  intro i t hi
  obtain ⟨h1, h2⟩ := take_get hi
  rw [List.getElem?_take]
  simp [show i < m by omega, h1]

/-- the invariants of the environment are kept when only temporaries above the slots change -/
theorem inv_agree {S : Sit} {σ : List Nat} {vtys : List CSem.Ty} {s : Store} {X : Env → Prop}
    (hX : ∀ (lo : Nat) (env env' : Env), X env → Agree lo env env' →
      (∀ (i : Nat) (t : CSem.Ty), vtys[i]? = some t → σ.getD i 0 ≤ lo) → X env')
    {n : Nat} {env env' : Env} (h : VarsIn S σ vtys s env ∧ X env) (ha : Agree n env env')
    (hn : ∀ (i : Nat) (t : CSem.Ty), vtys[i]? = some t → σ.getD i 0 ≤ n) :
    VarsIn S σ vtys s env' ∧ X env' :=
  ⟨h.1.agree ha hn, hX n env env' h.2 ha hn⟩

/-- `sim_expr2` for expressions with array reads and calls, whose simulation is given (`hI`, `hC`); `X` is what
    these need to know about the environment, `ok` what they need to know about the leaf (a property of
    expressions inherited by the operands). -/
theorem sim_expr3 (S : Sit) (σ : List Nat) (vtys : List CSem.Ty) (s : Store)
    (hs : ∀ (i : Nat) (t : CSem.Ty) (v : Int), vtys[i]? = some t → s[i]? = some (some v) →
      InRange (t.intTy S.cs) v)
    (callf : String → List Int → Option Int) (X : Env → Prop)
    (hX : ∀ (lo : Nat) (env env' : Env), X env → Agree lo env env' →
      (∀ (i : Nat) (t : CSem.Ty), vtys[i]? = some t → σ.getD i 0 ≤ lo) → X env')
    (ok : Expr3 → Prop)
    (okcast : ∀ t e, ok (.cast t e) → ok e) (okneg : ∀ t e, ok (.neg t e) → ok e)
    (okbin : ∀ op t l r, ok (.bin op t l r) → ok l ∧ ok r)
    (okcond : ∀ t c a b, ok (.cond t c a b) → ok c ∧ ok a ∧ ok b)
    (okcomma : ∀ t a b, ok (.comma t a b) → ok a ∧ ok b)
    (hI : ∀ (t : CSem.Ty) (arr n xb : Nat) (i : Expr) (c : Ctx) (pre post : List Item) (env : Env) (v : Int),
      ok (.idx t arr n xb i) → (Expr3.idx t arr n xb i).wt vtys = true →
      evalE3 S.cs callf s (.idx t arr n xb i) = some v →
      S.its = pre ++ (funcexpr3 S.cs σ (.idx t arr n xb i) c).items ++ post →
      curOf S.o0 pre = c.cur → CurOK c →
      (∀ (i : Nat) (t : CSem.Ty), vtys[i]? = some t → σ.getD i 0 ≤ c.lastid) →
      VarsIn S σ vtys s env ∧ X env →
      RunsTo2 S c.lastid (funcexpr3 S.cs σ (.idx t arr n xb i) c).ctx.lastid env pre
        (funcexpr3 S.cs σ (.idx t arr n xb i) c).items (funcexpr3 S.cs σ (.idx t arr n xb i) c).val
        (fun r => Rep t v r ∧ InRange (t.intTy S.cs) v))
    (hC : ∀ (rt : CSem.Ty) (fn : String) (args : List Expr) (c : Ctx) (pre post : List Item) (env : Env)
      (v : Int), ok (.call rt fn args) → (Expr3.call rt fn args).wt vtys = true →
      evalE3 S.cs callf s (.call rt fn args) = some v →
      S.its = pre ++ (funcexpr3 S.cs σ (.call rt fn args) c).items ++ post →
      curOf S.o0 pre = c.cur → CurOK c →
      (∀ (i : Nat) (t : CSem.Ty), vtys[i]? = some t → σ.getD i 0 ≤ c.lastid) →
      VarsIn S σ vtys s env ∧ X env →
      RunsTo2 S c.lastid (funcexpr3 S.cs σ (.call rt fn args) c).ctx.lastid env pre
        (funcexpr3 S.cs σ (.call rt fn args) c).items (funcexpr3 S.cs σ (.call rt fn args) c).val
        (fun r => Rep rt v r ∧ InRange (rt.intTy S.cs) v))
    (e : Expr3) : ∀ (c : Ctx) (pre post : List Item) (env : Env) (v : Int),
    ok e → e.wt vtys = true → evalE3 S.cs callf s e = some v →
    S.its = pre ++ (funcexpr3 S.cs σ e c).items ++ post →
    curOf S.o0 pre = c.cur → CurOK c →
    (∀ (i : Nat) (t : CSem.Ty), vtys[i]? = some t → σ.getD i 0 ≤ c.lastid) →
    VarsIn S σ vtys s env ∧ X env →
    RunsTo2 S c.lastid (funcexpr3 S.cs σ e c).ctx.lastid env pre (funcexpr3 S.cs σ e c).items
      (funcexpr3 S.cs σ e c).val (fun r => Rep e.ty v r ∧ InRange (e.ty.intTy S.cs) v) := by
  induction e with
  | pure e =>
    intro c pre post env v _ hwt hev hits hcur hcok hn hinv
    exact (sim_expr2 S σ vtys s hs e c pre post env v hwt hev hits hcur hcok hn hinv.1).weaken
      (fun r h => ⟨h, evalE_inRange S.cs vtys s hs e v hwt hev⟩)
  | idx t arr n xb i =>
    intro c pre post env v hok hwt hev hits hcur hcok hn hinv
    exact hI t arr n xb i c pre post env v hok hwt hev hits hcur hcok hn hinv
  | call rt fn args =>
    intro c pre post env v hok hwt hev hits hcur hcok hn hinv
    exact hC rt fn args c pre post env v hok hwt hev hits hcur hcok hn hinv
  | cast t e ih =>
    intro c pre post env v hok hwt hev hits hcur hcok hn hinv
    simp only [evalE3, Option.map_eq_some_iff] at hev
    obtain ⟨a, hea, rfl⟩ := hev
    simp only [Expr3.wt] at hwt
    have g := funcexpr3_good S.cs σ e c
    simp only [funcexpr3, Out.seq] at hits ⊢
    rw [← List.append_assoc] at hits
    have hits1 := hits
    rw [List.append_assoc] at hits1
    refine RunsTo2.seq (ih c pre _ env a (okcast _ _ hok) hwt hea hits1 hcur hcok hn hinv) g.lastid
      (convert_straight _ _ _ _ _).lastid ?_
    intro env1 r1 _ hv1 hp1
    exact (sim_convert2 S _ t e.ty _ _ post env1 a r1 hits hv1 hp1.1 hp1.2).weaken
      (fun r h => ⟨h.1, Eval.wrap_inRange (ty_valid S.cs t) _⟩)
  | neg t e ih =>
    intro c pre post env v hok hwt hev hits hcur hcok hn hinv
    simp only [evalE3, Option.bind_eq_some_iff] at hev
    obtain ⟨a, hea, hv⟩ := hev
    simp only [Expr3.wt, Bool.and_eq_true, beq_iff_eq] at hwt
    obtain ⟨⟨hty, hpr⟩, hwe⟩ := hwt
    have g := funcexpr3_good S.cs σ e c
    simp only [funcexpr3, Out.seq] at hits ⊢
    rw [← List.append_assoc] at hits
    have hits1 := hits
    rw [List.append_assoc] at hits1
    refine RunsTo2.seq (ih c pre _ env a (okneg _ _ hok) hwe hea hits1 hcur hcok hn hinv) g.lastid
      (funcinst_straight _ _ _ _).lastid ?_
    intro env1 r1 _ hv1 hp1
    obtain ⟨hp1, _⟩ := hp1
    rw [hty] at hp1
    obtain ⟨r, hx, hr⟩ := neg_exec S.cs hpr S.M none hp1 hv
    exact run_funcinst2 S _ _ _ _ hits (readVals_one hv1) hx ⟨hr, Eval.arith_inRange (ty_valid S.cs t) hv⟩
  | bin op t l r ihl ihr =>
    intro c pre post env v hok hwt hev hits hcur hcok hn hinv
    simp only [Expr3.wt, Bool.and_eq_true] at hwt
    obtain ⟨⟨hwl, hwr⟩, hty⟩ := hwt
    cases hop : isLogic op
    · -- arithmetic, shifts, comparisons
      have hev' : ∃ a b, evalE3 S.cs callf s l = some a ∧ evalE3 S.cs callf s r = some b ∧
          bin op (l.ty.intTy S.cs) a b = some v := by
        cases op <;> simp only [isLogic, Bool.true_eq_false] at hop <;>
          simp only [evalE3, Option.bind_eq_some_iff] at hev <;>
          obtain ⟨a, ha, b, hb, h⟩ := hev <;> exact ⟨a, b, ha, hb, h⟩
      obtain ⟨a, b, hea, heb, hv⟩ := hev'
      have hbt : BinTyped op t l.ty r.ty := by
        unfold BinTyped
        simp only [hop, Bool.false_eq_true, if_false] at hty
        split <;> rename_i h1
        · simpa [h1, and_assoc] using hty
        · split <;> rename_i h2
          · simpa [h1, h2, and_assoc] using hty
          · simpa [h1, h2, and_assoc] using hty
      have gl := funcexpr3_good S.cs σ l c
      have gr := funcexpr3_good S.cs σ r (funcexpr3 S.cs σ l c).ctx
      rw [funcexpr3_arith S.cs σ op hop] at hits ⊢
      simp only [Out.seq] at hits ⊢
      -- left operand
      have hits1 : S.its = pre ++ (funcexpr3 S.cs σ l c).items ++
          ((funcexpr3 S.cs σ r (funcexpr3 S.cs σ l c).ctx).items ++ (funcinst (funcexpr3 S.cs σ r
            (funcexpr3 S.cs σ l c).ctx).ctx (binOpOf S.cs op l.ty) (cls t) [(funcexpr3 S.cs σ l c).val,
            (funcexpr3 S.cs σ r (funcexpr3 S.cs σ l c).ctx).val]).items ++ post) := by
        rw [hits]; simp only [List.append_assoc]
      rw [List.append_assoc]
      refine RunsTo2.seq (ihl c pre _ env a (okbin _ _ _ _ hok).1 hwl hea hits1 hcur hcok hn hinv) gl.lastid
        (by have := gr.lastid; simp only [funcinst]; omega) ?_
      intro env1 r1 hag1 hv1 hp1
      -- right operand
      have hits2 : S.its = (pre ++ (funcexpr3 S.cs σ l c).items) ++
          (funcexpr3 S.cs σ r (funcexpr3 S.cs σ l c).ctx).items ++ ((funcinst (funcexpr3 S.cs σ r
            (funcexpr3 S.cs σ l c).ctx).ctx (binOpOf S.cs op l.ty) (cls t) [(funcexpr3 S.cs σ l c).val,
            (funcexpr3 S.cs σ r (funcexpr3 S.cs σ l c).ctx).val]).items ++ post) := by
        rw [hits]; simp only [List.append_assoc]
      have hn1 : ∀ (i : Nat) (t : CSem.Ty), vtys[i]? = some t →
          σ.getD i 0 ≤ (funcexpr3 S.cs σ l c).ctx.lastid :=
        fun i t h => Nat.le_trans (hn i t h) gl.lastid
      refine RunsTo2.seq (ihr _ _ _ env1 b (okbin _ _ _ _ hok).2 hwr heb hits2 (gl.cur _ _ hcur) (gl.curOK hcok) hn1
        (inv_agree hX hinv hag1.agree hn)) gr.lastid (funcinst_straight _ _ _ _).lastid ?_
      intro env2 r2 hag2 hv2 hp2
      have hv1' : readVal S.p env2 (funcexpr3 S.cs σ l c).val = .ok r1 := by
        rw [readVal_agree gl.val hag2.agree]; exact hv1
      obtain ⟨rr, hx, hr⟩ := binop_exec S.cs op hop hbt S.M none hp1.2 hp2.2 hp1.1 hp2.1 hv
      have hits3 : S.its = (pre ++ (funcexpr3 S.cs σ l c).items ++
          (funcexpr3 S.cs σ r (funcexpr3 S.cs σ l c).ctx).items) ++ (funcinst (funcexpr3 S.cs σ r
            (funcexpr3 S.cs σ l c).ctx).ctx (binOpOf S.cs op l.ty) (cls t) [(funcexpr3 S.cs σ l c).val,
            (funcexpr3 S.cs σ r (funcexpr3 S.cs σ l c).ctx).val]).items ++ post := by
        rw [hits]; simp only [List.append_assoc]
      exact run_funcinst2 S _ _ _ _ hits3 (readVals_two hv1' hv2) hx
        ⟨hr, bin_res_inRange S.cs op t l.ty r.ty hop (by simpa [hop] using hty) hp1.2 hp2.2 hv⟩
    · -- `&&`, `||`
      simp only [hop, if_true, beq_iff_eq] at hty
      subst hty
      have hev0 : evalE3 S.cs callf s (.bin op .int l r) = some v := hev
      obtain ⟨a, hea, hsc⟩ := logic_evalE3 S.cs callf s op hop .int l r v hev0
      have hvint : InRange (CSem.Ty.int.intTy S.cs) v := logic_res_inRange3 S.cs callf s op hop l r v hev0
      obtain ⟨ol, oj, or, ov, hol, hoj, hor, hov, heq⟩ := funcexpr3_logic S.cs σ op hop .int l r c
      rw [heq] at hits ⊢
      simp only at hits ⊢
      have gl : Good c ol := hol ▸ funcexpr3_good S.cs σ l c
      have sj : Straight _ oj := hoj ▸ jnzArg_straight _ _ _ _
      have gr : Good _ or := hor ▸ funcexpr3_good S.cs σ r _
      have sv : Straight _ ov := hov ▸ convert_straight _ _ _ _ _
      have b1 := gl.blockid; have b2 := sj.blockid; have b3 := gr.blockid; have b4 := sv.blockid
      have l1 := gl.lastid; have l2 := sj.lastid; have l3 := gr.lastid; have l4 := sv.lastid
      simp only at b2 b3 l2 l3
      have hitsL1 : S.its = (pre ++ ol.items ++ oj.items) ++
          .lbl (some (if (op == .lor) = true
              then Jump.jnz oj.val (lblName "logic_join" (ol.ctx.blockid + 2))
                (lblName "logic_right" (ol.ctx.blockid + 1))
              else Jump.jnz oj.val (lblName "logic_right" (ol.ctx.blockid + 1))
                (lblName "logic_join" (ol.ctx.blockid + 2))))
            (lblName "logic_right" (ol.ctx.blockid + 1)) [] ::
          (or.items ++ ov.items ++
          [.lbl none (lblName "logic_join" (ol.ctx.blockid + 2))
            [⟨tmpName (ov.ctx.lastid + 1), .w,
              [(oj.ctx.cur, .int (if (op == .lor) = true then 1 else 0)), (ov.ctx.cur, ov.val)]⟩]] ++
          post) := by
        rw [hits]; simp only [List.append_assoc, List.singleton_append, List.cons_append, List.nil_append]
      have hitsL2 : S.its = (pre ++ ol.items ++ oj.items ++
          [.lbl (some (if (op == .lor) = true
              then Jump.jnz oj.val (lblName "logic_join" (ol.ctx.blockid + 2))
                (lblName "logic_right" (ol.ctx.blockid + 1))
              else Jump.jnz oj.val (lblName "logic_right" (ol.ctx.blockid + 1))
                (lblName "logic_join" (ol.ctx.blockid + 2))))
            (lblName "logic_right" (ol.ctx.blockid + 1)) []] ++ or.items ++ ov.items) ++
          .lbl none (lblName "logic_join" (ol.ctx.blockid + 2))
            [⟨tmpName (ov.ctx.lastid + 1), .w,
              [(oj.ctx.cur, .int (if (op == .lor) = true then 1 else 0)), (ov.ctx.cur, ov.val)]⟩] ::
          post := by
        rw [hits]; simp only [List.append_assoc, List.singleton_append, List.cons_append, List.nil_append]
      -- 1. left operand
      obtain ⟨n1, env1, hreach1, hag1, rl, hvl, hrepl, hra⟩ :
          RunsTo2 S c.lastid ol.ctx.lastid env pre ol.items ol.val
            (fun r => Rep l.ty a r ∧ InRange (l.ty.intTy S.cs) a) := by
        obtain ⟨post1, hits1⟩ := exists_post (its := S.its) (pre := pre) (mid := ol.items)
          (by rw [hits]; (try simp only [List.append_assoc]); rfl)
        rw [hol] at hits1 ⊢
        exact ihl c pre post1 env a (okbin _ _ _ _ hok).1 hwl hea hits1 hcur hcok hn hinv
      -- 2. the value branched on
      obtain ⟨n2, env2, hreach2, hag2, rj, hvj, w, hw, hwv⟩ :
          RunsTo2 S ol.ctx.lastid oj.ctx.lastid env1 (pre ++ ol.items) oj.items oj.val
            (fun r => ∃ w, r.asW = .ok w ∧ (w ≠ 0 ↔ a ≠ 0)) := by
        obtain ⟨post2, hits2⟩ := exists_post (its := S.its) (pre := pre ++ ol.items) (mid := oj.items)
          (by rw [hits]; (try simp only [List.append_assoc]); rfl)
        rw [hoj] at hits2 ⊢
        exact sim_jnzArg2 S ⟨ol.ctx.lastid, ol.ctx.blockid + 2, ol.ctx.cur⟩ l.ty ol.val (pre ++ ol.items)
          post2 env1 a rl hits2 hvl hrepl hra
      have hinv2 : VarsIn S σ vtys s env2 ∧ X env2 :=
        inv_agree hX (inv_agree hX hinv hag1.agree hn) hag2.agree (fun i t h => Nat.le_trans (hn i t h) (by omega))
      have hcurl : curOf S.o0 (pre ++ ol.items) = ol.ctx.cur := gl.cur _ _ hcur
      have hcurj : curOf S.o0 (pre ++ ol.items ++ oj.items) = oj.ctx.cur := by
        rw [curOf_append_allIns _ _ _ sj.allIns, hcurl, sj.cur]
      obtain ⟨bj, hbj, hsz, hterm, hlblj⟩ := S.term_at hitsL1
      obtain ⟨bt, hbt, hbtl, hbtp, hidxt⟩ := S.target hitsL1
      obtain ⟨bjn, hbjn, hbjnl, hbjnp, hidxj⟩ := S.target hitsL2
      have hdw : decide (a ≠ 0) = (w != 0) := by
        rw [Bool.eq_iff_iff]; simp only [decide_eq_true_eq, bne_iff_ne]; exact hwv.symm
      rw [hdw] at hsc
      by_cases hsc0 : ((op == .lor) == (w != 0)) = true
      · -- the left operand decides
        rw [if_pos hsc0] at hsc
        obtain ⟨r', hco, hrep'⟩ := const01_rep (op == .lor)
        have hstep : step S.p S.ext (S.at env2 (pre ++ ol.items ++ oj.items)) =
            .next (S.at (env2.insert (tmpName (ov.ctx.lastid + 1)) r')
              (pre ++ ol.items ++ oj.items ++
              [.lbl (some (if (op == .lor) = true
                  then Jump.jnz oj.val (lblName "logic_join" (ol.ctx.blockid + 2))
                    (lblName "logic_right" (ol.ctx.blockid + 1))
                  else Jump.jnz oj.val (lblName "logic_right" (ol.ctx.blockid + 1))
                    (lblName "logic_join" (ol.ctx.blockid + 2))))
                (lblName "logic_right" (ol.ctx.blockid + 1)) []] ++ or.items ++ ov.items ++
              [.lbl none (lblName "logic_join" (ol.ctx.blockid + 2))
                [⟨tmpName (ov.ctx.lastid + 1), .w,
                  [(oj.ctx.cur, .int (if (op == .lor) = true then 1 else 0)),
                   (ov.ctx.cur, ov.val)]⟩]])) := by
          rw [S.at_lbl]
          unfold Sit.at
          rw [step_jnz_logic S.x hbj hsz hterm hvj hw (by rw [if_pos hsc0]; exact hidxj)]
          exact goto_phi S.x (src := (oj.ctx.cur, .int (if (op == .lor) = true then 1 else 0)))
            hbjn hbjnp (by simp [hlblj.trans hcurj]) (readVal_int _ _ _) hco
        refine ⟨n1 + n2 + 1, env2.insert (tmpName (ov.ctx.lastid + 1)) r', ?_, ?_, r',
          readVal_insert_self _ _ _ _, ?_, hvint⟩
        · have hreach := (hreach1.trans hreach2).trans (Reach.one hstep)
          simp only [List.append_assoc] at hreach ⊢
          exact hreach
        · exact ((hag1.mono (Nat.le_refl _) (by omega)).comp (hag2.mono (by omega) (by omega))).comp
            (Frame.insert env2 r' (by omega) (Nat.le_refl _))
        · show Rep .int v r'
          rw [hsc]
          split
          · rename_i h; simpa [h] using hrep'
          · rename_i h; simpa [h] using hrep'
      · -- the right operand is evaluated
        rw [if_neg hsc0] at hsc
        obtain ⟨b, heb, rfl⟩ := hsc
        have hstep : step S.p S.ext (S.at env2 (pre ++ ol.items ++ oj.items)) =
            .next (S.at env2 (pre ++ ol.items ++ oj.items ++
              [.lbl (some (if (op == .lor) = true
                  then Jump.jnz oj.val (lblName "logic_join" (ol.ctx.blockid + 2))
                    (lblName "logic_right" (ol.ctx.blockid + 1))
                  else Jump.jnz oj.val (lblName "logic_right" (ol.ctx.blockid + 1))
                    (lblName "logic_join" (ol.ctx.blockid + 2))))
                (lblName "logic_right" (ol.ctx.blockid + 1)) []])) := by
          rw [S.at_lbl]
          unfold Sit.at
          rw [step_jnz_logic S.x hbj hsz hterm hvj hw (by rw [if_neg hsc0]; exact hidxt)]
          exact goto_nophi S.x hbt hbtp
        have hcokr : CurOK ⟨oj.ctx.lastid, oj.ctx.blockid,
            lblName "logic_right" (ol.ctx.blockid + 1)⟩ := ⟨_, _, rfl, by simp only; omega⟩
        obtain ⟨n3, env3, hreach3, hag3, rr, hvr, hrepr, hrb⟩ :
            RunsTo2 S oj.ctx.lastid or.ctx.lastid env2 (pre ++ ol.items ++ oj.items ++
              [.lbl (some (if (op == .lor) = true
                  then Jump.jnz oj.val (lblName "logic_join" (ol.ctx.blockid + 2))
                    (lblName "logic_right" (ol.ctx.blockid + 1))
                  else Jump.jnz oj.val (lblName "logic_right" (ol.ctx.blockid + 1))
                    (lblName "logic_join" (ol.ctx.blockid + 2))))
                (lblName "logic_right" (ol.ctx.blockid + 1)) []])
              or.items or.val (fun r' => Rep r.ty b r' ∧ InRange (r.ty.intTy S.cs) b) := by
          obtain ⟨post3, hits3⟩ := exists_post (its := S.its) (pre := pre ++ ol.items ++ oj.items ++
              [.lbl (some (if (op == .lor) = true
                  then Jump.jnz oj.val (lblName "logic_join" (ol.ctx.blockid + 2))
                    (lblName "logic_right" (ol.ctx.blockid + 1))
                  else Jump.jnz oj.val (lblName "logic_right" (ol.ctx.blockid + 1))
                    (lblName "logic_join" (ol.ctx.blockid + 2))))
                (lblName "logic_right" (ol.ctx.blockid + 1)) []])
            (mid := or.items) (by rw [hits]; (try simp only [List.append_assoc]); rfl)
          rw [hor] at hits3 ⊢
          exact ihr ⟨oj.ctx.lastid, oj.ctx.blockid, lblName "logic_right" (ol.ctx.blockid + 1)⟩ _
            post3 env2 b (okbin _ _ _ _ hok).2 hwr heb hits3 (curOf_lbl _ _ _ _ _) hcokr (fun i t h => Nat.le_trans (hn i t h) (by simp only; omega)) hinv2
        -- conversion to `_Bool`
        obtain ⟨n4, env4, hreach4, hag4, rv, hvv, hrepv⟩ :
            RunsTo2 S or.ctx.lastid ov.ctx.lastid env3 (pre ++ ol.items ++ oj.items ++
              [.lbl (some (if (op == .lor) = true
                  then Jump.jnz oj.val (lblName "logic_join" (ol.ctx.blockid + 2))
                    (lblName "logic_right" (ol.ctx.blockid + 1))
                  else Jump.jnz oj.val (lblName "logic_right" (ol.ctx.blockid + 1))
                    (lblName "logic_join" (ol.ctx.blockid + 2))))
                (lblName "logic_right" (ol.ctx.blockid + 1)) []] ++ or.items)
              ov.items ov.val (fun r' => BoolRes (decide (b ≠ 0)) r') := by
          obtain ⟨post4, hits4⟩ := exists_post (its := S.its) (pre := pre ++ ol.items ++ oj.items ++
              [.lbl (some (if (op == .lor) = true
                  then Jump.jnz oj.val (lblName "logic_join" (ol.ctx.blockid + 2))
                    (lblName "logic_right" (ol.ctx.blockid + 1))
                  else Jump.jnz oj.val (lblName "logic_right" (ol.ctx.blockid + 1))
                    (lblName "logic_join" (ol.ctx.blockid + 2))))
                (lblName "logic_right" (ol.ctx.blockid + 1)) []] ++ or.items)
            (mid := ov.items) (by rw [hits]; (try simp only [List.append_assoc]); rfl)
          rw [hov] at hits4 ⊢
          exact (sim_convert2 S or.ctx .bool r.ty or.val _ post4 env3 b rr hits4 hvr hrepr hrb).weaken
            (fun r' h => h.2 rfl)
        -- fall through into the join block
        obtain ⟨bb, hbb, hszb, htermb, hlblb⟩ := S.term_at hitsL2
        have hcurv : bb.label = ov.ctx.cur := by
          rw [hlblb, curOf_append_allIns _ _ _ sv.allIns, gr.cur _ _ (curOf_lbl _ _ _ _ _), sv.cur]
        have hne : (oj.ctx.cur == ov.ctx.cur) = false := by
          rw [beq_eq_false_iff_ne]
          obtain ⟨n0, j0, h0, hj0⟩ := gl.curOK hcok
          obtain ⟨n2', j2, h3, h4⟩ := gr.curId "logic_right" (ol.ctx.blockid + 1) rfl
          intro heq'
          rw [sj.cur, sv.cur, h0, h3] at heq'
          have := lblName_inj heq'
          simp only at h4
          omega
        have hrepi : Rep .int (b2i (decide (b ≠ 0))) rv := (rep_w int_size).2 hrepv.wrep
        obtain ⟨r', hco, hrep'⟩ := rep_coerce hrepi
        have hstep2 : step S.p S.ext (S.at env4 (pre ++ ol.items ++ oj.items ++
              [.lbl (some (if (op == .lor) = true
                  then Jump.jnz oj.val (lblName "logic_join" (ol.ctx.blockid + 2))
                    (lblName "logic_right" (ol.ctx.blockid + 1))
                  else Jump.jnz oj.val (lblName "logic_right" (ol.ctx.blockid + 1))
                    (lblName "logic_join" (ol.ctx.blockid + 2))))
                (lblName "logic_right" (ol.ctx.blockid + 1)) []] ++ or.items ++ ov.items)) =
            .next (S.at (env4.insert (tmpName (ov.ctx.lastid + 1)) r')
              (pre ++ ol.items ++ oj.items ++
              [.lbl (some (if (op == .lor) = true
                  then Jump.jnz oj.val (lblName "logic_join" (ol.ctx.blockid + 2))
                    (lblName "logic_right" (ol.ctx.blockid + 1))
                  else Jump.jnz oj.val (lblName "logic_right" (ol.ctx.blockid + 1))
                    (lblName "logic_join" (ol.ctx.blockid + 2))))
                (lblName "logic_right" (ol.ctx.blockid + 1)) []] ++ or.items ++ ov.items ++
              [.lbl none (lblName "logic_join" (ol.ctx.blockid + 2))
                [⟨tmpName (ov.ctx.lastid + 1), .w,
                  [(oj.ctx.cur, .int (if (op == .lor) = true then 1 else 0)),
                   (ov.ctx.cur, ov.val)]⟩]])) := by
          rw [S.at_lbl]
          unfold Sit.at
          rw [step_fall S.x hbb hszb htermb]
          exact goto_phi S.x (src := (ov.ctx.cur, ov.val)) hbjn hbjnp
            (by simp [hcurv, hne]) hvv hco
        refine ⟨n1 + n2 + 1 + n3 + n4 + 1, env4.insert (tmpName (ov.ctx.lastid + 1)) r', ?_, ?_, r',
          readVal_insert_self _ _ _ _, hrep', hvint⟩
        · have hreach := ((((hreach1.trans hreach2).trans (Reach.one hstep)).trans hreach3).trans
            hreach4).trans (Reach.one hstep2)
          simp only [List.append_assoc] at hreach ⊢
          exact hreach
        · exact ((((hag1.mono (Nat.le_refl _) (by omega)).comp (hag2.mono (by omega) (by omega))).comp
            (hag3.mono (by omega) (by omega))).comp (hag4.mono (by omega) (by omega))).comp
            (Frame.insert env4 r' (by omega) (Nat.le_refl _))
  | comma t a b iha ihb =>
    intro c pre post env v hok hwt hev hits hcur hcok hn hinv
    simp only [Expr3.wt, Bool.and_eq_true, beq_iff_eq] at hwt
    obtain ⟨⟨hwa, hwb⟩, hty⟩ := hwt
    subst hty
    simp only [evalE3, Option.bind_eq_some_iff] at hev
    obtain ⟨va, hea, heb⟩ := hev
    have ga := funcexpr3_good S.cs σ a c
    have gb := funcexpr3_good S.cs σ b (funcexpr3 S.cs σ a c).ctx
    simp only [funcexpr3, Out.seq] at hits ⊢
    have hits1 : S.its = pre ++ (funcexpr3 S.cs σ a c).items ++
        ((funcexpr3 S.cs σ b (funcexpr3 S.cs σ a c).ctx).items ++ post) := by
      rw [hits]; simp only [List.append_assoc]
    refine RunsTo2.seq (iha c pre _ env va (okcomma _ _ _ hok).1 hwa hea hits1 hcur hcok hn hinv) ga.lastid
      gb.lastid ?_
    intro env1 r1 hag1 _ _
    have hits2 : S.its = (pre ++ (funcexpr3 S.cs σ a c).items) ++
        (funcexpr3 S.cs σ b (funcexpr3 S.cs σ a c).ctx).items ++ post := by
      rw [hits]; simp only [List.append_assoc]
    have hn1 : ∀ (i : Nat) (t : CSem.Ty), vtys[i]? = some t →
        σ.getD i 0 ≤ (funcexpr3 S.cs σ a c).ctx.lastid :=
      fun i t h => Nat.le_trans (hn i t h) ga.lastid
    exact ihb _ _ _ env1 v (okcomma _ _ _ hok).2 hwb heb hits2 (ga.cur _ _ hcur) (ga.curOK hcok) hn1
      (inv_agree hX hinv hag1.agree hn)
  | cond t e a b ihe iha ihb =>
    intro c pre post env v hok hwt hev hits hcur hcok hn hinv
    simp only [Expr3.wt, Bool.and_eq_true, beq_iff_eq] at hwt
    obtain ⟨⟨⟨⟨⟨hwe, hwa⟩, hwb⟩, hta⟩, htb⟩, _⟩ := hwt
    simp only [evalE3, Option.bind_eq_some_iff] at hev
    obtain ⟨vc, hevc, hev2⟩ := hev
    obtain ⟨oc, oj, oa, ob, hoc, hoj, hoa, hob, heq⟩ := funcexpr3_cond S.cs σ t e a b c
    rw [heq] at hits ⊢
    simp only at hits ⊢
    have ge : Good _ oc := hoc ▸ funcexpr3_good S.cs σ e _
    have sj : Straight _ oj := hoj ▸ jnzArg_straight _ _ _ _
    have ga : Good _ oa := hoa ▸ funcexpr3_good S.cs σ a _
    have gb : Good _ ob := hob ▸ funcexpr3_good S.cs σ b _
    have b1 := ge.blockid; have b2 := sj.blockid; have b3 := ga.blockid; have b4 := gb.blockid
    have l1 := ge.lastid; have l2 := sj.lastid; have l3 := ga.lastid; have l4 := gb.lastid
    simp only at b1 b3 b4 l1 l3 l4
    -- the three label items and what follows them
    have hitsL1 : S.its = (pre ++ oc.items ++ oj.items) ++
        .lbl (some (.jnz oj.val (lblName "cond_true" (c.blockid + 1))
          (lblName "cond_false" (c.blockid + 2)))) (lblName "cond_true" (c.blockid + 1)) [] ::
        (oa.items ++ [.lbl (some (.jmp (lblName "cond_join" (c.blockid + 3))))
          (lblName "cond_false" (c.blockid + 2)) []] ++ ob.items ++
          [.lbl none (lblName "cond_join" (c.blockid + 3))
            [⟨tmpName (ob.ctx.lastid + 1), cls t, [(oa.ctx.cur, oa.val), (ob.ctx.cur, ob.val)]⟩]] ++
          post) := by
      rw [hits]; simp only [List.append_assoc, List.singleton_append, List.cons_append, List.nil_append]
    have hitsL2 : S.its = (pre ++ oc.items ++ oj.items ++
        [.lbl (some (.jnz oj.val (lblName "cond_true" (c.blockid + 1))
          (lblName "cond_false" (c.blockid + 2)))) (lblName "cond_true" (c.blockid + 1)) []] ++
        oa.items) ++
        .lbl (some (.jmp (lblName "cond_join" (c.blockid + 3))))
          (lblName "cond_false" (c.blockid + 2)) [] ::
        (ob.items ++ [.lbl none (lblName "cond_join" (c.blockid + 3))
            [⟨tmpName (ob.ctx.lastid + 1), cls t, [(oa.ctx.cur, oa.val), (ob.ctx.cur, ob.val)]⟩]] ++
          post) := by
      rw [hits]; simp only [List.append_assoc, List.singleton_append, List.cons_append, List.nil_append]
    have hitsL3 : S.its = (pre ++ oc.items ++ oj.items ++
        [.lbl (some (.jnz oj.val (lblName "cond_true" (c.blockid + 1))
          (lblName "cond_false" (c.blockid + 2)))) (lblName "cond_true" (c.blockid + 1)) []] ++
        oa.items ++ [.lbl (some (.jmp (lblName "cond_join" (c.blockid + 3))))
          (lblName "cond_false" (c.blockid + 2)) []] ++ ob.items) ++
        .lbl none (lblName "cond_join" (c.blockid + 3))
            [⟨tmpName (ob.ctx.lastid + 1), cls t, [(oa.ctx.cur, oa.val), (ob.ctx.cur, ob.val)]⟩] ::
          post := by
      rw [hits]; simp only [List.append_assoc, List.singleton_append, List.cons_append, List.nil_append]
    -- 1. the condition
    have hcok0 : CurOK ⟨c.lastid, c.blockid + 3, c.cur⟩ := by
      obtain ⟨n, j, h1, h2⟩ := hcok; exact ⟨n, j, h1, by simp only; omega⟩
    obtain ⟨n1, env1, hreach1, hag1, rc, hvc, hrepc, hrc⟩ :
        RunsTo2 S c.lastid oc.ctx.lastid env pre oc.items oc.val
          (fun r => Rep e.ty vc r ∧ InRange (e.ty.intTy S.cs) vc) := by
      obtain ⟨post1, hits1⟩ := exists_post (its := S.its) (pre := pre) (mid := oc.items)
        (by rw [hits]; (try simp only [List.append_assoc]); rfl)
      rw [hoc] at hits1 ⊢
      exact ihe ⟨c.lastid, c.blockid + 3, c.cur⟩ pre post1 env vc (okcond _ _ _ _ hok).1 hwe hevc hits1 hcur hcok0 hn hinv
    -- 2. the value branched on
    obtain ⟨n2, env2, hreach2, hag2, rj, hvj, w, hw, hwv⟩ :
        RunsTo2 S oc.ctx.lastid oj.ctx.lastid env1 (pre ++ oc.items) oj.items oj.val
          (fun r => ∃ w, r.asW = .ok w ∧ (w ≠ 0 ↔ vc ≠ 0)) := by
      obtain ⟨post2, hits2⟩ := exists_post (its := S.its) (pre := pre ++ oc.items) (mid := oj.items)
        (by rw [hits]; (try simp only [List.append_assoc]); rfl)
      rw [hoj] at hits2 ⊢
      exact sim_jnzArg2 S oc.ctx e.ty oc.val (pre ++ oc.items) post2 env1 vc rc hits2 hvc hrepc hrc
    have hinv2 : VarsIn S σ vtys s env2 ∧ X env2 :=
        inv_agree hX (inv_agree hX hinv hag1.agree hn) hag2.agree (fun i t h => Nat.le_trans (hn i t h) (by omega))
    have hcurc : curOf S.o0 (pre ++ oc.items) = oc.ctx.cur := ge.cur _ _ hcur
    have hcurj : curOf S.o0 (pre ++ oc.items ++ oj.items) = oj.ctx.cur := by
      rw [curOf_append_allIns _ _ _ sj.allIns, hcurc, sj.cur]
    -- 3. the branch
    obtain ⟨bj, hbj, hsz, hterm, _⟩ := S.term_at hitsL1
    obtain ⟨bt, hbt, hbtl, hbtp, hidxt⟩ := S.target hitsL1
    obtain ⟨bf, hbf, hbfl, hbfp, hidxf⟩ := S.target hitsL2
    obtain ⟨bjn, hbjn, hbjnl, hbjnp, hidxj⟩ := S.target hitsL3
    by_cases hvc0 : vc ≠ 0
    · -- true arm
      rw [if_pos hvc0] at hev2
      have hw0 : (w != 0) = true := by simpa using hwv.2 hvc0
      have hstep : step S.p S.ext (S.at env2 (pre ++ oc.items ++ oj.items)) =
          .next (S.at env2 (pre ++ oc.items ++ oj.items ++
            [.lbl (some (.jnz oj.val (lblName "cond_true" (c.blockid + 1))
              (lblName "cond_false" (c.blockid + 2)))) (lblName "cond_true" (c.blockid + 1)) []])) := by
        rw [S.at_lbl]
        unfold Sit.at
        rw [step_jnz S.x hbj hsz hterm hvj hw (by rw [hw0, if_pos rfl]; exact hidxt)]
        exact goto_nophi S.x hbt hbtp
      have hcokt : CurOK ⟨oj.ctx.lastid, oj.ctx.blockid, lblName "cond_true" (c.blockid + 1)⟩ :=
        ⟨_, _, rfl, by simp only; omega⟩
      obtain ⟨n3, env3, hreach3, hag3, ra, hva, hrepa, hrga⟩ :
          RunsTo2 S oj.ctx.lastid oa.ctx.lastid env2 (pre ++ oc.items ++ oj.items ++
            [.lbl (some (.jnz oj.val (lblName "cond_true" (c.blockid + 1))
              (lblName "cond_false" (c.blockid + 2)))) (lblName "cond_true" (c.blockid + 1)) []])
            oa.items oa.val (fun r => Rep a.ty v r ∧ InRange (a.ty.intTy S.cs) v) := by
        obtain ⟨post3, hits3⟩ := exists_post (its := S.its) (pre := pre ++ oc.items ++ oj.items ++
            [.lbl (some (.jnz oj.val (lblName "cond_true" (c.blockid + 1))
              (lblName "cond_false" (c.blockid + 2)))) (lblName "cond_true" (c.blockid + 1)) []])
          (mid := oa.items) (by rw [hits]; (try simp only [List.append_assoc]); rfl)
        rw [hoa] at hits3 ⊢
        exact iha ⟨oj.ctx.lastid, oj.ctx.blockid, lblName "cond_true" (c.blockid + 1)⟩ _ post3 env2 v
          (okcond _ _ _ _ hok).2.1 hwa hev2 hits3 (curOf_lbl _ _ _ _ _) hcokt (fun i t h => Nat.le_trans (hn i t h) (by simp only; omega)) hinv2
      -- jmp to the join block
      obtain ⟨ba, hba, hsza, hterma, hlbla⟩ := S.term_at hitsL2
      have hcura : ba.label = oa.ctx.cur := by
        rw [hlbla]; exact ga.cur _ _ (curOf_lbl _ _ _ _ _)
      rw [hta] at hrepa hrga
      obtain ⟨r', hco, hrep'⟩ := rep_coerce hrepa
      have hstep2 : step S.p S.ext (S.at env3 (pre ++ oc.items ++ oj.items ++
            [.lbl (some (.jnz oj.val (lblName "cond_true" (c.blockid + 1))
              (lblName "cond_false" (c.blockid + 2)))) (lblName "cond_true" (c.blockid + 1)) []] ++
            oa.items)) =
          .next (S.at (env3.insert (tmpName (ob.ctx.lastid + 1)) r')
            (pre ++ oc.items ++ oj.items ++
            [.lbl (some (.jnz oj.val (lblName "cond_true" (c.blockid + 1))
              (lblName "cond_false" (c.blockid + 2)))) (lblName "cond_true" (c.blockid + 1)) []] ++
            oa.items ++ [.lbl (some (.jmp (lblName "cond_join" (c.blockid + 3))))
              (lblName "cond_false" (c.blockid + 2)) []] ++ ob.items ++
            [.lbl none (lblName "cond_join" (c.blockid + 3))
              [⟨tmpName (ob.ctx.lastid + 1), cls t, [(oa.ctx.cur, oa.val), (ob.ctx.cur, ob.val)]⟩]])) := by
        rw [S.at_lbl]
        unfold Sit.at
        rw [step_jmp S.x hba hsza hterma hidxj]
        exact goto_phi S.x (src := (oa.ctx.cur, oa.val)) hbjn hbjnp
          (by simp [hcura]) hva hco
      refine ⟨n1 + n2 + 1 + n3 + 1, env3.insert (tmpName (ob.ctx.lastid + 1)) r', ?_, ?_, r',
        readVal_insert_self _ _ _ _, hrep', hrga⟩
      · have hreach := (((hreach1.trans hreach2).trans (Reach.one hstep)).trans hreach3).trans
          (Reach.one hstep2)
        simp only [List.append_assoc] at hreach ⊢
        exact hreach
      · exact (((hag1.mono (Nat.le_refl _) (by omega)).comp (hag2.mono (by omega) (by omega))).comp
          (hag3.mono (by omega) (by omega))).comp (Frame.insert env3 r' (by omega) (Nat.le_refl _))
    · -- false arm
      rw [if_neg hvc0] at hev2
      have hw0 : (w != 0) = false := by
        have : ¬ w ≠ 0 := fun h => hvc0 (hwv.1 h)
        simpa using this
      have hstep : step S.p S.ext (S.at env2 (pre ++ oc.items ++ oj.items)) =
          .next (S.at env2 (pre ++ oc.items ++ oj.items ++
            [.lbl (some (.jnz oj.val (lblName "cond_true" (c.blockid + 1))
              (lblName "cond_false" (c.blockid + 2)))) (lblName "cond_true" (c.blockid + 1)) []] ++
            oa.items ++ [.lbl (some (.jmp (lblName "cond_join" (c.blockid + 3))))
              (lblName "cond_false" (c.blockid + 2)) []])) := by
        rw [S.at_lbl]
        unfold Sit.at
        rw [step_jnz S.x hbj hsz hterm hvj hw (by rw [hw0]; exact hidxf)]
        exact goto_nophi S.x hbf hbfp
      have hcokf : CurOK ⟨oa.ctx.lastid, oa.ctx.blockid, lblName "cond_false" (c.blockid + 2)⟩ :=
        ⟨_, _, rfl, by simp only; omega⟩
      obtain ⟨n3, env4, hreach3, hag3, rb, hvb, hrepb, hrgb⟩ :
          RunsTo2 S oa.ctx.lastid ob.ctx.lastid env2 (pre ++ oc.items ++ oj.items ++
            [.lbl (some (.jnz oj.val (lblName "cond_true" (c.blockid + 1))
              (lblName "cond_false" (c.blockid + 2)))) (lblName "cond_true" (c.blockid + 1)) []] ++
            oa.items ++ [.lbl (some (.jmp (lblName "cond_join" (c.blockid + 3))))
              (lblName "cond_false" (c.blockid + 2)) []])
            ob.items ob.val (fun r => Rep b.ty v r ∧ InRange (b.ty.intTy S.cs) v) := by
        obtain ⟨post3, hits3⟩ := exists_post (its := S.its) (pre := pre ++ oc.items ++ oj.items ++
            [.lbl (some (.jnz oj.val (lblName "cond_true" (c.blockid + 1))
              (lblName "cond_false" (c.blockid + 2)))) (lblName "cond_true" (c.blockid + 1)) []] ++
            oa.items ++ [.lbl (some (.jmp (lblName "cond_join" (c.blockid + 3))))
              (lblName "cond_false" (c.blockid + 2)) []])
          (mid := ob.items) (by rw [hits]; (try simp only [List.append_assoc]); rfl)
        rw [hob] at hits3 ⊢
        exact ihb ⟨oa.ctx.lastid, oa.ctx.blockid, lblName "cond_false" (c.blockid + 2)⟩ _ post3 env2 v
          (okcond _ _ _ _ hok).2.2 hwb hev2 hits3 (curOf_lbl _ _ _ _ _) hcokf (fun i t h => Nat.le_trans (hn i t h) (by simp only; omega)) hinv2
      -- fall through into the join block
      obtain ⟨bb, hbb, hszb, htermb, hlblb⟩ := S.term_at hitsL3
      have hcurb : bb.label = ob.ctx.cur := by
        rw [hlblb]; exact gb.cur _ _ (curOf_lbl _ _ _ _ _)
      have hne : (oa.ctx.cur == ob.ctx.cur) = false := by
        rw [beq_eq_false_iff_ne]
        obtain ⟨n1', j1, h1, h2⟩ := ga.curId "cond_true" (c.blockid + 1) rfl
        obtain ⟨n2', j2, h3, h4⟩ := gb.curId "cond_false" (c.blockid + 2) rfl
        intro heq'
        rw [h1, h3] at heq'
        have := lblName_inj heq'
        simp only at h2 h4
        omega
      rw [htb] at hrepb hrgb
      obtain ⟨r', hco, hrep'⟩ := rep_coerce hrepb
      have hstep2 : step S.p S.ext (S.at env4 (pre ++ oc.items ++ oj.items ++
            [.lbl (some (.jnz oj.val (lblName "cond_true" (c.blockid + 1))
              (lblName "cond_false" (c.blockid + 2)))) (lblName "cond_true" (c.blockid + 1)) []] ++
            oa.items ++ [.lbl (some (.jmp (lblName "cond_join" (c.blockid + 3))))
              (lblName "cond_false" (c.blockid + 2)) []] ++ ob.items)) =
          .next (S.at (env4.insert (tmpName (ob.ctx.lastid + 1)) r')
            (pre ++ oc.items ++ oj.items ++
            [.lbl (some (.jnz oj.val (lblName "cond_true" (c.blockid + 1))
              (lblName "cond_false" (c.blockid + 2)))) (lblName "cond_true" (c.blockid + 1)) []] ++
            oa.items ++ [.lbl (some (.jmp (lblName "cond_join" (c.blockid + 3))))
              (lblName "cond_false" (c.blockid + 2)) []] ++ ob.items ++
            [.lbl none (lblName "cond_join" (c.blockid + 3))
              [⟨tmpName (ob.ctx.lastid + 1), cls t, [(oa.ctx.cur, oa.val), (ob.ctx.cur, ob.val)]⟩]])) := by
        rw [S.at_lbl]
        unfold Sit.at
        rw [step_fall S.x hbb hszb htermb]
        exact goto_phi S.x (src := (ob.ctx.cur, ob.val)) hbjn hbjnp
          (by simp [hcurb, hne]) hvb hco
      refine ⟨n1 + n2 + 1 + n3 + 1, env4.insert (tmpName (ob.ctx.lastid + 1)) r', ?_, ?_, r',
        readVal_insert_self _ _ _ _, hrep', hrgb⟩
      · have hreach := (((hreach1.trans hreach2).trans (Reach.one hstep)).trans hreach3).trans
          (Reach.one hstep2)
        simp only [List.append_assoc] at hreach ⊢
        exact hreach
      · exact (((hag1.mono (Nat.le_refl _) (by omega)).comp (hag2.mono (by omega) (by omega))).comp
          (hag3.mono (by omega) (by omega))).comp (Frame.insert env4 r' (by omega) (Nat.le_refl _))

end CprocVerif.LowerMach2

import CprocVerif.Model.Map
/-!
# Lemmas about the model of map.c

Part 1: the probe loop returns the first stopping index of the probe sequence (`probe_first`).
Part 2: raw invariant `RInv` (size, NoGap, NoDup) on slot arrays, abstract content `Holds`,
        occupancy `occ`; lookup is correct; filling / overwriting a slot keeps the invariant.
Part 3: rehash (growth) as a fold of insertions of distinct keys.
Part 4: the invariant `Inv` on `Map`, `put`/`get`/`grow`/`putKeep` specifications.
-/
namespace CprocVerif.Map

/-! ## Part 0: `&` vs `%` -/

/-- For a power-of-two capacity the C expression `x & (cap - 1)` is `x % cap`. -/
theorem mask_eq_mod {cap e : Nat} (hc : cap = 2 ^ e) (x : Nat) : x &&& (cap - 1) = x % cap := by
  subst hc; exact Nat.and_two_pow_sub_one_eq_mod x e

theorem keyindexFromMask_eq {cap e : Nat} (hc : cap = 2 ^ e) (slots : Array Slot) (k : Key) :
    ∀ f i, keyindexFromMask slots cap k f i = keyindexFrom slots cap k f i := by
  intro f
  induction f with
  | zero => intro i; rfl
  | succ f ih =>
    intro i
    unfold keyindexFromMask keyindexFrom
    rw [mask_eq_mod hc, ih]

/-- The loop written with `&` (as in map.c) is the loop written with `%` (as in the model). -/
theorem keyindexMask_eq {e : Nat} (m : Map) (hc : m.cap = 2 ^ e) (k : Key) :
    keyindexMask m k = keyindex m k := by
  unfold keyindexMask keyindex keyindexS
  rw [mask_eq_mod hc, keyindexFromMask_eq hc]

/-! ## Part 1: the probe sequence -/

/-- Total slot access (`none` outside the array). -/
def sl (slots : Array Slot) (i : Nat) : Slot := slots.getD i none

/-- The key stored in slot `i`, if any. -/
def keyAt (slots : Array Slot) (i : Nat) : Option Key := (sl slots i).map (·.1)

/-- The loop stops at `p` when looking for `k`: slot empty or holds `k`. -/
def Stops (slots : Array Slot) (k : Key) (p : Nat) : Prop :=
  keyAt slots p = none ∨ keyAt slots p = some k

/-- The loop continues at `p` when looking for `k`: slot holds another key. -/
def Skips (slots : Array Slot) (k : Key) (p : Nat) : Prop :=
  ∃ k', keyAt slots p = some k' ∧ k' ≠ k

theorem not_stops_and_skips {slots : Array Slot} {k p} : Stops slots k p → Skips slots k p → False := by
  intro hs hk
  rcases hk with ⟨k', h, hne⟩
  rcases hs with h0 | h1
  · rw [h0] at h; cases h
  · rw [h1] at h; cases h; exact hne rfl

theorem stops_or_skips (slots : Array Slot) (k p) : Stops slots k p ∨ Skips slots k p := by
  unfold Stops Skips
  cases h : keyAt slots p with
  | none => left; left; rfl
  | some k' =>
    by_cases hk : k' = k
    · left; right; rw [hk]
    · right; exact ⟨k', rfl, hk⟩

theorem sl_eq (slots : Array Slot) (i : Nat) :
    slots[i]? = none ∧ sl slots i = none ∨ slots[i]? = some (sl slots i) := by
  unfold sl
  by_cases h : i < slots.size
  · right; simp [Array.getD, h]
  · left; simp [Array.getD, h]

theorem sl_of_ge (slots : Array Slot) (i : Nat) (h : slots.size ≤ i) : sl slots i = none := by
  unfold sl; simp [Array.getD, Nat.not_lt.mpr h]

theorem sl_of_lt (slots : Array Slot) (i : Nat) (h : i < slots.size) : sl slots i = slots[i] := by
  unfold sl; simp [Array.getD, h]

theorem keyAt_none {slots : Array Slot} {i} : keyAt slots i = none ↔ sl slots i = none := by
  unfold keyAt; cases sl slots i <;> simp

theorem keyAt_some {slots : Array Slot} {i k} : keyAt slots i = some k ↔ ∃ v, sl slots i = some (k, v) := by
  unfold keyAt
  cases h : sl slots i with
  | none => simp
  | some kv =>
    obtain ⟨k', v⟩ := kv
    simp

theorem keyindexFrom_stop (slots : Array Slot) (cap k f i) (h : Stops slots k i) :
    keyindexFrom slots cap k (f+1) i = some i := by
  unfold keyindexFrom
  rcases sl_eq slots i with ⟨h1, _⟩ | h1
  · simp [h1]
  · rw [h1]
    rcases h with h0 | hv
    · rw [keyAt_none] at h0; simp [h0]
    · rw [keyAt_some] at hv; obtain ⟨v, hv⟩ := hv; simp [hv]

theorem keyindexFrom_skip (slots : Array Slot) (cap k f i) (h : Skips slots k i) :
    keyindexFrom slots cap k (f+1) i = keyindexFrom slots cap k f ((i+1) % cap) := by
  rcases h with ⟨k', hs, hne⟩
  rw [keyAt_some] at hs
  obtain ⟨v, hs⟩ := hs
  conv => lhs; unfold keyindexFrom
  rcases sl_eq slots i with ⟨_, h2⟩ | h1
  · simp [h2] at hs
  · rw [h1, hs]; simp [hne]

/-- `j`-th position of the probe sequence of hash `h`. -/
def pos (cap h j : Nat) : Nat := (h + j) % cap

theorem pos_succ (cap h j : Nat) : (pos cap h j + 1) % cap = pos cap h (j+1) := by
  unfold pos; rw [Nat.mod_add_mod]; rfl

theorem pos_zero (cap h : Nat) : pos cap h 0 = h % cap := by simp [pos]

theorem pos_lt (cap h j : Nat) (hc : 0 < cap) : pos cap h j < cap := Nat.mod_lt _ hc

/-- Every index below `cap` occurs among the first `cap` positions of every probe sequence. -/
theorem pos_surj (cap h e : Nat) (he : e < cap) : ∃ j, j < cap ∧ pos cap h j = e := by
  unfold pos
  have hr : h % cap < cap := Nat.mod_lt _ (by omega)
  by_cases hge : h % cap ≤ e
  · refine ⟨e - h % cap, by omega, ?_⟩
    rw [← Nat.mod_add_mod]
    have : h % cap + (e - h % cap) = e := by omega
    rw [this]; exact Nat.mod_eq_of_lt he
  · refine ⟨e + cap - h % cap, by omega, ?_⟩
    rw [← Nat.mod_add_mod]
    have : h % cap + (e + cap - h % cap) = e + cap := by omega
    rw [this, Nat.add_mod_right]; exact Nat.mod_eq_of_lt he

/-- The probe loop returns the first stopping position of the probe sequence. -/
theorem probe_first (slots : Array Slot) (cap : Nat) (k : Key) (h : Nat) :
    ∀ (j0 b f : Nat), j0 < f → Stops slots k (pos cap h (b + j0)) →
      ∃ n, n ≤ j0 ∧ keyindexFrom slots cap k f (pos cap h b) = some (pos cap h (b + n)) ∧
        Stops slots k (pos cap h (b + n)) ∧ ∀ j, j < n → Skips slots k (pos cap h (b + j)) := by
  intro j0
  induction j0 with
  | zero =>
    intro b f hf hs
    obtain ⟨f', rfl⟩ : ∃ f', f = f' + 1 := ⟨f - 1, by omega⟩
    exact ⟨0, Nat.le_refl _, by simpa using keyindexFrom_stop slots cap k f' _ (by simpa using hs),
      by simpa using hs, by intro j hj; omega⟩
  | succ j0 ih =>
    intro b f hf hs
    obtain ⟨f', rfl⟩ : ∃ f', f = f' + 1 := ⟨f - 1, by omega⟩
    rcases stops_or_skips slots k (pos cap h b) with hb | hb
    · exact ⟨0, Nat.zero_le _, by simpa using keyindexFrom_stop slots cap k f' _ hb, by simpa using hb,
        by intro j hj; omega⟩
    · have hs' : Stops slots k (pos cap h (b + 1 + j0)) := by
        have : b + 1 + j0 = b + (j0 + 1) := by omega
        rw [this]; exact hs
      obtain ⟨n, hn, hk, hst, hsk⟩ := ih (b+1) f' (by omega) hs'
      refine ⟨n+1, by omega, ?_, ?_, ?_⟩
      · rw [keyindexFrom_skip slots cap k f' _ hb, pos_succ, hk]
        congr 2; omega
      · have : b + (n + 1) = b + 1 + n := by omega
        rw [this]; exact hst
      · intro j hj
        cases j with
        | zero => simpa using hb
        | succ j =>
          have : b + (j + 1) = b + 1 + j := by omega
          rw [this]; exact hsk j (by omega)

/-! ## Part 2: raw invariant, content, occupancy -/

/-- Every stored key sits on its own probe sequence with no empty slot (and no other copy) before it. -/
def NoGap (slots : Array Slot) (cap : Nat) : Prop :=
  ∀ p k, keyAt slots p = some k →
    ∃ n, n < cap ∧ p = pos cap k.hash n ∧ ∀ j, j < n → Skips slots k (pos cap k.hash j)

/-- No key is stored twice. -/
def NoDup (slots : Array Slot) : Prop :=
  ∀ p q k, keyAt slots p = some k → keyAt slots q = some k → p = q

def HasEmpty (slots : Array Slot) (cap : Nat) : Prop := ∃ e, e < cap ∧ sl slots e = none

structure RInv (slots : Array Slot) (cap : Nat) : Prop where
  size : slots.size = cap
  cpos : 0 < cap
  nogap : NoGap slots cap
  nodup : NoDup slots

/-- Abstract content: the table holds `k ↦ v`. -/
def Holds (slots : Array Slot) (k : Key) (v : Nat) : Prop := ∃ p, sl slots p = some (k, v)

/-- Number of occupied slots. -/
def occ (slots : Array Slot) : Nat := slots.countP (·.isSome)

theorem holds_unique {slots : Array Slot} {cap} (hI : RInv slots cap) {k v w}
    (h1 : Holds slots k v) (h2 : Holds slots k w) : v = w := by
  obtain ⟨p, hp⟩ := h1
  obtain ⟨q, hq⟩ := h2
  have := hI.nodup p q k (keyAt_some.mpr ⟨v, hp⟩) (keyAt_some.mpr ⟨w, hq⟩)
  subst this
  rw [hp] at hq; cases hq; rfl

theorem hasEmpty_of_occ_lt {slots : Array Slot} {cap} (hs : slots.size = cap) (h : occ slots < cap) :
    HasEmpty slots cap := by
  unfold occ at h
  have hne : ¬ (slots.countP (·.isSome) = slots.size) := by omega
  rw [Array.countP_eq_size] at hne
  have : ∃ a, a ∈ slots ∧ ¬ (a.isSome = true) := by
    apply Classical.byContradiction
    intro hcon
    apply hne
    intro a ha
    apply Classical.byContradiction
    intro hna
    exact hcon ⟨a, ha, hna⟩
  obtain ⟨a, ha, hna⟩ := this
  obtain ⟨i, hi, rfl⟩ := Array.mem_iff_getElem.mp ha
  refine ⟨i, by omega, ?_⟩
  rw [sl_of_lt _ _ hi]
  cases h : slots[i] with
  | none => rfl
  | some x => rw [h] at hna; simp at hna

/-- What `keyindex` returns under the raw invariant when an empty slot exists. -/
theorem keyindexS_cases {slots : Array Slot} {cap} (hI : RInv slots cap) (hE : HasEmpty slots cap)
    (k : Key) :
    ∃ i, i < cap ∧ keyindexS slots cap k = some i ∧
      ((sl slots i = none ∧ (∀ w, ¬ Holds slots k w) ∧
          ∃ n, n < cap ∧ i = pos cap k.hash n ∧ ∀ j, j < n → Skips slots k (pos cap k.hash j))
        ∨ ∃ w, sl slots i = some (k, w)) := by
  obtain ⟨e, he, hempty⟩ := hE
  obtain ⟨j0, hj0, hpos⟩ := pos_surj cap k.hash e he
  have hst : Stops slots k (pos cap k.hash (0 + j0)) := by
    left; rw [keyAt_none]; simpa [hpos] using hempty
  obtain ⟨n, hn, hk, hst', hsk⟩ := probe_first slots cap k k.hash j0 0 cap hj0 hst
  simp only [Nat.zero_add] at hk hst' hsk
  refine ⟨pos cap k.hash n, pos_lt _ _ _ hI.cpos, by unfold keyindexS; rw [← pos_zero, hk], ?_⟩
  rcases hst' with h0 | h1
  · left
    refine ⟨keyAt_none.mp h0, ?_, n, by omega, rfl, hsk⟩
    intro w ⟨p, hp⟩
    obtain ⟨n2, hn2, hp2, hsk2⟩ := hI.nogap p k (keyAt_some.mpr ⟨w, hp⟩)
    rcases Nat.lt_trichotomy n n2 with hlt | heq | hgt
    · exact not_stops_and_skips (Or.inl h0) (hsk2 n hlt)
    · subst heq; subst hp2
      rw [keyAt_none] at h0; rw [h0] at hp; cases hp
    · subst hp2
      exact not_stops_and_skips (Or.inr (keyAt_some.mpr ⟨w, hp⟩)) (hsk n2 hgt)
  · right; exact keyAt_some.mp h1

theorem sl_set (slots : Array Slot) (i : Nat) (x : Slot) (j : Nat) (hi : i < slots.size) :
    sl (slots.setIfInBounds i x) j = if i = j then x else sl slots j := by
  unfold sl
  by_cases hij : i = j
  · subst hij; simp [Array.getD, hi]
  · simp only [hij, if_false]
    by_cases hj : j < slots.size
    · simp [Array.getD, hj, hij]
    · simp [Array.getD, hj]

theorem keyAt_set (slots : Array Slot) (i : Nat) (k : Key) (v : Nat) (j : Nat) (hi : i < slots.size) :
    keyAt (slots.setIfInBounds i (some (k, v))) j = if i = j then some k else keyAt slots j := by
  unfold keyAt
  rw [sl_set _ _ _ _ hi]
  by_cases hij : i = j <;> simp [hij]

theorem occ_set (slots : Array Slot) (i : Nat) (kv : Key × Nat) (hi : i < slots.size) :
    occ (slots.setIfInBounds i (some kv)) = if sl slots i = none then occ slots + 1 else occ slots := by
  unfold occ
  rw [Array.setIfInBounds_def]
  simp only [hi, dite_true]
  rw [Array.countP_set hi, sl_of_lt _ _ hi]
  have hle := Array.boole_getElem_le_countP (p := fun (s : Slot) => s.isSome) hi
  cases h : slots[i] with
  | none => simp
  | some x =>
    rw [h] at hle
    simp only [Option.isSome_some, if_true] at hle
    simp
    omega

/-- The raw invariant only depends on which key sits where. -/
theorem RInv_congr {s s' : Array Slot} {cap} (hI : RInv s cap) (hsz : s'.size = s.size)
    (hk : ∀ p, keyAt s' p = keyAt s p) : RInv s' cap := by
  have hskip : ∀ k p, Skips s k p → Skips s' k p := by
    intro k p ⟨k', h, hne⟩; exact ⟨k', by rw [hk]; exact h, hne⟩
  refine ⟨by rw [hsz]; exact hI.size, hI.cpos, ?_, ?_⟩
  · intro p k hp
    rw [hk] at hp
    obtain ⟨n, hn, hpn, hsk⟩ := hI.nogap p k hp
    exact ⟨n, hn, hpn, fun j hj => hskip _ _ (hsk j hj)⟩
  · intro p q k hp hq
    rw [hk] at hp hq
    exact hI.nodup p q k hp hq

/-- Overwriting the value of a stored key. -/
theorem overwrite_spec {slots : Array Slot} {cap} (hI : RInv slots cap) {i k w} (v : Nat)
    (hi : sl slots i = some (k, w)) :
    let s' := slots.setIfInBounds i (some (k, v))
    RInv s' cap ∧ occ s' = occ slots ∧
      ∀ k' v', Holds s' k' v' ↔ (k' = k ∧ v' = v) ∨ (k' ≠ k ∧ Holds slots k' v') := by
  intro s'
  have hlt : i < slots.size := by
    apply Classical.byContradiction; intro hge
    rw [sl_of_ge _ _ (by omega)] at hi; cases hi
  refine ⟨?_, ?_, ?_⟩
  · apply RInv_congr hI (by simp [s'])
    intro p
    rw [keyAt_set _ _ _ _ _ hlt]
    by_cases hip : i = p
    · subst hip; simp only [if_true]; exact (keyAt_some.mpr ⟨w, hi⟩).symm
    · simp [hip]
  · rw [occ_set _ _ _ hlt, hi]; simp
  · intro k' v'
    constructor
    · intro ⟨p, hp⟩
      rw [sl_set _ _ _ _ hlt] at hp
      by_cases hip : i = p
      · rw [if_pos hip] at hp; cases hp; left; exact ⟨rfl, rfl⟩
      · rw [if_neg hip] at hp
        right
        refine ⟨?_, p, hp⟩
        intro hkk; subst hkk
        exact hip (hI.nodup i p k' (keyAt_some.mpr ⟨w, hi⟩) (keyAt_some.mpr ⟨v', hp⟩))
    · intro h
      rcases h with ⟨rfl, rfl⟩ | ⟨hne, p, hp⟩
      · exact ⟨i, by rw [sl_set _ _ _ _ hlt]; simp⟩
      · refine ⟨p, ?_⟩
        rw [sl_set _ _ _ _ hlt]
        by_cases hip : i = p
        · subst hip; rw [hi] at hp; cases hp; exact (hne rfl).elim
        · simp [hip, hp]

/-- Filling the first empty slot of the probe sequence of an absent key. -/
theorem insert_new_spec {slots : Array Slot} {cap} (hI : RInv slots cap) (k : Key) (v : Nat)
    {n : Nat} (hn : n < cap) (hempty : sl slots (pos cap k.hash n) = none)
    (hsk : ∀ j, j < n → Skips slots k (pos cap k.hash j)) (habs : ∀ w, ¬ Holds slots k w) :
    let s' := slots.setIfInBounds (pos cap k.hash n) (some (k, v))
    RInv s' cap ∧ occ s' = occ slots + 1 ∧
      ∀ k' v', Holds s' k' v' ↔ (k' = k ∧ v' = v) ∨ (k' ≠ k ∧ Holds slots k' v') := by
  intro s'
  have hi : pos cap k.hash n < slots.size := by
    rw [hI.size]; exact Nat.mod_lt _ hI.cpos
  have keep : ∀ q k2, keyAt slots q = some k2 → keyAt s' q = some k2 := by
    intro q k2 hq
    show keyAt (slots.setIfInBounds _ _) q = _
    rw [keyAt_set _ _ _ _ _ hi]
    by_cases hpq : pos cap k.hash n = q
    · subst hpq; rw [keyAt_none.mpr hempty] at hq; cases hq
    · simp [hpq, hq]
  have keepSkips : ∀ k2 q, Skips slots k2 q → Skips s' k2 q := by
    intro k2 q ⟨k', hq, hne⟩
    exact ⟨k', keep q _ hq, hne⟩
  refine ⟨⟨by simpa [s'] using hI.size, hI.cpos, ?_, ?_⟩, ?_, ?_⟩
  · intro p k2 hp
    rw [show keyAt s' p = keyAt (slots.setIfInBounds _ _) p from rfl, keyAt_set _ _ _ _ _ hi] at hp
    by_cases hpp : pos cap k.hash n = p
    · simp only [hpp, if_true] at hp
      cases hp
      exact ⟨n, hn, hpp.symm, fun j hj => keepSkips _ _ (hsk j hj)⟩
    · simp only [hpp, if_false] at hp
      obtain ⟨n2, hn2, hp2, hsk2⟩ := hI.nogap p k2 hp
      exact ⟨n2, hn2, hp2, fun j hj => keepSkips _ _ (hsk2 j hj)⟩
  · intro p q k2 hp hq
    rw [show keyAt s' p = keyAt (slots.setIfInBounds _ _) p from rfl, keyAt_set _ _ _ _ _ hi] at hp
    rw [show keyAt s' q = keyAt (slots.setIfInBounds _ _) q from rfl, keyAt_set _ _ _ _ _ hi] at hq
    by_cases hpp : pos cap k.hash n = p <;> by_cases hqq : pos cap k.hash n = q
    · omega
    · rw [if_pos hpp] at hp; rw [if_neg hqq] at hq
      cases hp
      obtain ⟨w, hw⟩ := keyAt_some.mp hq
      exact (habs w ⟨q, hw⟩).elim
    · rw [if_neg hpp] at hp; rw [if_pos hqq] at hq
      cases hq
      obtain ⟨w, hw⟩ := keyAt_some.mp hp
      exact (habs w ⟨p, hw⟩).elim
    · rw [if_neg hpp] at hp; rw [if_neg hqq] at hq
      exact hI.nodup p q k2 hp hq
  · rw [occ_set _ _ _ hi, hempty]; simp
  · intro k' v'
    constructor
    · intro ⟨p, hp⟩
      rw [sl_set _ _ _ _ hi] at hp
      by_cases hip : pos cap k.hash n = p
      · rw [if_pos hip] at hp; cases hp; left; exact ⟨rfl, rfl⟩
      · rw [if_neg hip] at hp
        right
        refine ⟨?_, p, hp⟩
        intro hkk; subst hkk
        exact habs v' ⟨p, hp⟩
    · intro h
      rcases h with ⟨rfl, rfl⟩ | ⟨hne, p, hp⟩
      · exact ⟨pos cap k'.hash n, by rw [sl_set _ _ _ _ hi]; simp⟩
      · refine ⟨p, ?_⟩
        rw [sl_set _ _ _ _ hi]
        by_cases hip : pos cap k.hash n = p
        · subst hip; rw [hempty] at hp; cases hp
        · simp [hip, hp]

/-- `keyindex` followed by storing `(k, v)` in the returned slot, in both cases (new / existing). -/
theorem store_spec {slots : Array Slot} {cap} (hI : RInv slots cap) (hE : HasEmpty slots cap)
    (k : Key) (v : Nat) :
    ∃ i, i < cap ∧ keyindexS slots cap k = some i ∧
      ((sl slots i = none ∧ ∀ w, ¬ Holds slots k w) ∨ ∃ w, sl slots i = some (k, w)) ∧
      let s' := slots.setIfInBounds i (some (k, v))
      RInv s' cap ∧ occ s' = (if sl slots i = none then occ slots + 1 else occ slots) ∧
        ∀ k' v', Holds s' k' v' ↔ (k' = k ∧ v' = v) ∨ (k' ≠ k ∧ Holds slots k' v') := by
  obtain ⟨i, hi, hk, hc⟩ := keyindexS_cases hI hE k
  refine ⟨i, hi, hk, ?_, ?_⟩
  · rcases hc with ⟨h0, habs, _⟩ | h1
    · exact Or.inl ⟨h0, habs⟩
    · exact Or.inr h1
  · rcases hc with ⟨h0, habs, n, hn, rfl, hsk⟩ | ⟨w, hw⟩
    · have := insert_new_spec hI k v hn h0 hsk habs
      simp only [h0, if_true]
      exact this
    · have := overwrite_spec hI v hw
      simp only [hw, if_false, reduceCtorEq]
      exact this

/-! ## Part 3: rehash = a fold of insertions of distinct keys -/

/-- `Upd s s' k v`: the content of `s'` is the content of `s` with `k ↦ v`. -/
def Upd (s s' : Array Slot) (k : Key) (v : Nat) : Prop :=
  ∀ k' v', Holds s' k' v' ↔ (k' = k ∧ v' = v) ∨ (k' ≠ k ∧ Holds s k' v')

theorem Upd.trans {s s' s'' : Array Slot} {k v w} (h1 : Upd s s' k v) (h2 : Upd s' s'' k w) :
    Upd s s'' k w := by
  intro k' v'
  rw [h2 k' v']
  constructor
  · rintro (h | ⟨hne, h⟩)
    · exact Or.inl h
    · rcases (h1 k' v').mp h with ⟨hk, _⟩ | h'
      · exact (hne hk).elim
      · exact Or.inr h'
  · rintro (h | ⟨hne, h⟩)
    · exact Or.inl h
    · exact Or.inr ⟨hne, (h1 k' v').mpr (Or.inr ⟨hne, h⟩)⟩

theorem getElem?_of_lt (slots : Array Slot) (i : Nat) (h : i < slots.size) :
    slots[i]? = some (sl slots i) := by
  rcases sl_eq slots i with ⟨h1, _⟩ | h1
  · simp [h] at h1
  · exact h1

theorem sl_replicate (cap p : Nat) : sl (Array.replicate cap none) p = none := by
  unfold sl
  by_cases h : p < cap <;> simp [Array.getD, h]

theorem RInv_replicate {cap : Nat} (hc : 0 < cap) : RInv (Array.replicate cap none) cap := by
  have hk : ∀ p, keyAt (Array.replicate cap (none : Slot)) p = none := by
    intro p; rw [keyAt_none]; exact sl_replicate cap p
  refine ⟨by simp, hc, ?_, ?_⟩
  · intro p k h; rw [hk] at h; cases h
  · intro p q k h; rw [hk] at h; cases h

theorem occ_replicate (cap : Nat) : occ (Array.replicate cap none) = 0 := by
  unfold occ; simp [Array.countP_replicate]

theorem not_holds_replicate (cap : Nat) (k : Key) (v : Nat) : ¬ Holds (Array.replicate cap none) k v := by
  intro ⟨p, hp⟩; rw [sl_replicate] at hp; cases hp

/-- One iteration of the rehash loop. -/
def rehashStep (cap : Nat) (acc : Array Slot) (s : Slot) : Array Slot :=
  match s with
  | some (k, v) => reinsert acc cap k v
  | none => acc

theorem rehash_eq (old : Array Slot) (cap : Nat) :
    rehash old cap = old.toList.foldl (rehashStep cap) (Array.replicate cap none) := by
  unfold rehash
  rw [← Array.foldl_toList]
  rfl

/-- The entries of a list of slots have pairwise different keys. -/
def DistinctL (l : List Slot) : Prop :=
  l.Pairwise (fun a b => ∀ k v k' v', a = some (k, v) → b = some (k', v') → k ≠ k')

theorem fold_spec (cap : Nat) : ∀ (l : List Slot) (acc : Array Slot), RInv acc cap → DistinctL l →
    (∀ k v, some (k, v) ∈ l → ∀ w, ¬ Holds acc k w) → occ acc + l.countP (·.isSome) < cap →
    RInv (l.foldl (rehashStep cap) acc) cap ∧
    occ (l.foldl (rehashStep cap) acc) = occ acc + l.countP (·.isSome) ∧
    ∀ k v, Holds (l.foldl (rehashStep cap) acc) k v ↔ Holds acc k v ∨ some (k, v) ∈ l := by
  intro l
  induction l with
  | nil => intro acc hI _ _ _; simp [hI]
  | cons s l ih =>
    intro acc hI hD hfresh hocc
    have hDl : DistinctL l := (List.pairwise_cons.mp hD).2
    have hhead := (List.pairwise_cons.mp hD).1
    cases s with
    | none =>
      have := ih acc hI hDl (fun k v hm => hfresh k v (List.mem_cons_of_mem _ hm))
        (by simpa using hocc)
      simpa [rehashStep] using this
    | some kv =>
      obtain ⟨k, v⟩ := kv
      have hocc' : occ acc + (l.countP (·.isSome) + 1) < cap := by simpa using hocc
      have hE : HasEmpty acc cap := hasEmpty_of_occ_lt hI.size (by omega)
      obtain ⟨i, hi, hk, hc, hI', hocc1, hupd⟩ := store_spec hI hE k v
      have habs : ∀ w, ¬ Holds acc k w := hfresh k v (List.mem_cons_self ..)
      have h0 : sl acc i = none := by
        rcases hc with ⟨h0, _⟩ | ⟨w, hw⟩
        · exact h0
        · exact (habs w ⟨i, hw⟩).elim
      have hstep : rehashStep cap acc (some (k, v)) = acc.setIfInBounds i (some (k, v)) := by
        simp [rehashStep, reinsert, hk]
      simp only [h0, if_true] at hocc1
      have hfresh' : ∀ k2 v2, some (k2, v2) ∈ l → ∀ w, ¬ Holds (acc.setIfInBounds i (some (k, v))) k2 w := by
        intro k2 v2 hm w hh
        have hne : k ≠ k2 := hhead _ hm k v k2 v2 rfl rfl
        rcases (hupd k2 w).mp hh with ⟨hk2, _⟩ | ⟨_, hold⟩
        · exact hne hk2.symm
        · exact hfresh k2 v2 (List.mem_cons_of_mem _ hm) w hold
      have := ih (acc.setIfInBounds i (some (k, v))) hI' hDl hfresh' (by omega)
      rw [List.foldl_cons, hstep]
      refine ⟨this.1, ?_, ?_⟩
      · rw [this.2.1, hocc1]; simp; omega
      · intro k2 v2
        rw [this.2.2 k2 v2, hupd k2 v2]
        constructor
        · rintro ((⟨rfl, rfl⟩ | ⟨_, h⟩) | h)
          · exact Or.inr (List.mem_cons_self ..)
          · exact Or.inl h
          · exact Or.inr (List.mem_cons_of_mem _ h)
        · rintro (h | h)
          · by_cases hkk : k2 = k
            · subst hkk; exact (habs _ h).elim
            · exact Or.inl (Or.inr ⟨hkk, h⟩)
          · rcases List.mem_cons.mp h with heq | hm
            · cases heq; exact Or.inl (Or.inl ⟨rfl, rfl⟩)
            · exact Or.inr hm

theorem holds_iff_mem (slots : Array Slot) (k : Key) (v : Nat) :
    Holds slots k v ↔ some (k, v) ∈ slots.toList := by
  rw [Array.mem_toList_iff, Array.mem_iff_getElem]
  constructor
  · intro ⟨p, hp⟩
    have hlt : p < slots.size := by
      apply Classical.byContradiction; intro hge
      rw [sl_of_ge _ _ (by omega)] at hp; cases hp
    exact ⟨p, hlt, by rw [← sl_of_lt _ _ hlt]; exact hp⟩
  · intro ⟨p, hlt, hp⟩
    exact ⟨p, by rw [sl_of_lt _ _ hlt]; exact hp⟩

theorem distinctL_of_nodup {slots : Array Slot} (h : NoDup slots) : DistinctL slots.toList := by
  unfold DistinctL
  rw [List.pairwise_iff_getElem]
  intro i j hi hj hij k v k' v' ha hb hkk
  subst hkk
  simp only [Array.getElem_toList] at ha hb
  simp only [Array.length_toList] at hi hj
  have := h i j k (keyAt_some.mpr ⟨v, by rw [sl_of_lt _ _ hi]; exact ha⟩)
    (keyAt_some.mpr ⟨v', by rw [sl_of_lt _ _ hj]; exact hb⟩)
  omega

/-- Rehashing into a fresh larger array keeps content and occupancy and establishes the invariant. -/
theorem rehash_spec {old : Array Slot} (hnd : NoDup old) {cap : Nat} (hocc : occ old < cap) :
    RInv (rehash old cap) cap ∧ occ (rehash old cap) = occ old ∧
      ∀ k v, Holds (rehash old cap) k v ↔ Holds old k v := by
  have hc : 0 < cap := by omega
  have := fold_spec cap old.toList (Array.replicate cap none) (RInv_replicate hc)
    (distinctL_of_nodup hnd) (fun k v _ w => not_holds_replicate cap k w)
    (by rw [occ_replicate, Array.countP_toList]; unfold occ at hocc; omega)
  rw [← rehash_eq] at this
  refine ⟨this.1, ?_, ?_⟩
  · rw [this.2.1, occ_replicate, Array.countP_toList]; unfold occ; omega
  · intro k v
    rw [this.2.2 k v]
    constructor
    · rintro (h | h)
      · exact (not_holds_replicate _ _ _ h).elim
      · exact (holds_iff_mem _ _ _).mpr h
    · intro h; exact Or.inr ((holds_iff_mem _ _ _).mp h)

/-! ## Part 4: the invariant on `Map` and the specification of the operations -/

/-- The invariant of `struct map` between calls.
    `4 ≤ cap` is forced: `mapinit` accepts 0, 1 and 2 (its assertion only checks `cap & (cap-1)`),
    but with `cap ≤ 2` the table becomes completely full and `keyindex` for an absent key never returns. -/
structure Inv (m : Map) : Prop where
  pow2 : ∃ e, m.cap = 2 ^ e
  cap4 : 4 ≤ m.cap
  size : m.slots.size = m.cap
  len_occ : m.len = occ m.slots
  len_le : m.len ≤ m.cap / 2 + 1
  nogap : NoGap m.slots m.cap
  nodup : NoDup m.slots

theorem Inv.rinv {m : Map} (h : Inv m) : RInv m.slots m.cap :=
  ⟨h.size, by have := h.cap4; omega, h.nogap, h.nodup⟩

theorem Inv.hasEmpty {m : Map} (h : Inv m) : HasEmpty m.slots m.cap := by
  apply hasEmpty_of_occ_lt h.size
  have := h.cap4; have := h.len_le; have := h.len_occ
  omega

theorem Inv.of_rinv {m : Map} (hp : ∃ e, m.cap = 2 ^ e) (h4 : 4 ≤ m.cap) (hI : RInv m.slots m.cap)
    (hocc : m.len = occ m.slots) (hle : m.len ≤ m.cap / 2 + 1) : Inv m :=
  ⟨hp, h4, hI.size, hocc, hle, hI.nogap, hI.nodup⟩

theorem init_inv' {cap e : Nat} (hc : cap = 2 ^ e) (h4 : 4 ≤ cap) : Inv (init cap) := by
  apply Inv.of_rinv ⟨e, hc⟩ h4 (RInv_replicate (by omega))
  · simp [init, occ_replicate]
  · simp [init]

theorem init_empty (cap : Nat) (k : Key) (v : Nat) : ¬ Holds (init cap).slots k v :=
  not_holds_replicate cap k v

/-- `get` under the invariant: either the table holds `k ↦ get m k`, or `k` is absent and `get` is 0. -/
theorem get_cases {m : Map} (hI : Inv m) (k : Key) :
    Holds m.slots k (get m k) ∨ (get m k = 0 ∧ ∀ w, ¬ Holds m.slots k w) := by
  obtain ⟨i, hi, hk, hc⟩ := keyindexS_cases hI.rinv hI.hasEmpty k
  have hlt : i < m.slots.size := by rw [hI.size]; exact hi
  have hget : get m k = valAt m i := by unfold get keyindex; rw [hk]
  rcases hc with ⟨h0, habs, _⟩ | ⟨w, hw⟩
  · right
    refine ⟨?_, habs⟩
    rw [hget]; unfold valAt; rw [getElem?_of_lt _ _ hlt, h0]
  · left
    have : get m k = w := by rw [hget]; unfold valAt; rw [getElem?_of_lt _ _ hlt, hw]
    rw [this]; exact ⟨i, hw⟩

theorem get_of_holds {m : Map} (hI : Inv m) {k v} (h : Holds m.slots k v) : get m k = v := by
  rcases get_cases hI k with h1 | ⟨_, habs⟩
  · exact holds_unique hI.rinv h1 h
  · exact (habs v h).elim

theorem get_of_absent {m : Map} (hI : Inv m) {k} (h : ∀ w, ¬ Holds m.slots k w) : get m k = 0 := by
  rcases get_cases hI k with h1 | ⟨h0, _⟩
  · exact (h _ h1).elim
  · exact h0

theorem keyindex_isSome {m : Map} (hI : Inv m) (k : Key) : (keyindex m k).isSome := by
  obtain ⟨i, _, hk, _⟩ := keyindexS_cases hI.rinv hI.hasEmpty k
  unfold keyindex; rw [hk]; rfl

theorem keyindex_lt {m : Map} (hI : Inv m) (k : Key) {i} (h : keyindex m k = some i) : i < m.cap := by
  obtain ⟨i', hi, hk, _⟩ := keyindexS_cases hI.rinv hI.hasEmpty k
  unfold keyindex at h; rw [hk] at h; cases h; exact hi

/-- Growth keeps the invariant, the content and `len`, and doubles `cap`. -/
theorem grow_spec {m : Map} (hI : Inv m) :
    Inv (grow m) ∧ (grow m).len = m.len ∧ (grow m).cap = m.cap * 2 ∧
      ∀ k v, Holds (grow m).slots k v ↔ Holds m.slots k v := by
  have h4 := hI.cap4
  have hle := hI.len_le
  have hocc : occ m.slots < m.cap * 2 := by rw [← hI.len_occ]; omega
  obtain ⟨hR, ho, hh⟩ := rehash_spec hI.nodup hocc
  refine ⟨?_, rfl, rfl, hh⟩
  obtain ⟨e, he⟩ := hI.pow2
  apply Inv.of_rinv ⟨e + 1, by simp [grow, he, Nat.pow_succ]⟩ (by simp [grow]; omega) hR
  · simp only [grow]; rw [ho]; exact hI.len_occ
  · simp only [grow]; omega

theorem maybeGrow_spec {m : Map} (hI : Inv m) :
    Inv (maybeGrow m) ∧ (maybeGrow m).len = m.len ∧ (maybeGrow m).len ≤ (maybeGrow m).cap / 2 ∧
      ∀ k v, Holds (maybeGrow m).slots k v ↔ Holds m.slots k v := by
  unfold maybeGrow
  by_cases h : m.cap / 2 < m.len
  · rw [if_pos h]
    obtain ⟨hG, hl, hc, hh⟩ := grow_spec hI
    refine ⟨hG, hl, ?_, hh⟩
    rw [hl, hc]
    have := hI.len_le; have := hI.cap4
    omega
  · rw [if_neg h]
    exact ⟨hI, rfl, by omega, fun _ _ => Iff.rfl⟩

/-- The part of `mapput` after the growth branch. -/
theorem mapputTail_spec {m : Map} (hI : Inv m) (hlen : m.len ≤ m.cap / 2) (k : Key) :
    Inv (mapputTail m k).1 ∧ (mapputTail m k).1.cap = m.cap ∧
      keyindex m k = some (mapputTail m k).2 ∧
      sl (mapputTail m k).1.slots (mapputTail m k).2 = some (k, get m k) ∧
      Upd m.slots (mapputTail m k).1.slots k (get m k) ∧
      ((∃ w, Holds m.slots k w) → (mapputTail m k).1.len = m.len) ∧
      ((∀ w, ¬ Holds m.slots k w) → (mapputTail m k).1.len = m.len + 1) := by
  obtain ⟨i, hi, hk, hc⟩ := keyindexS_cases hI.rinv hI.hasEmpty k
  have hlt : i < m.slots.size := by rw [hI.size]; exact hi
  have hk' : keyindex m k = some i := hk
  rcases hc with ⟨h0, habs, n, hn, rfl, hsk⟩ | ⟨w, hw⟩
  · have hT : mapputTail m k =
        ((⟨m.cap, m.len + 1, m.slots.setIfInBounds (pos m.cap k.hash n) (some (k, 0))⟩ : Map),
          pos m.cap k.hash n) := by
      unfold mapputTail; rw [hk']; simp only []; rw [getElem?_of_lt _ _ hlt, h0]
    have hg : get m k = 0 := get_of_absent hI habs
    obtain ⟨hR, ho, hu⟩ := insert_new_spec hI.rinv k 0 hn h0 hsk habs
    rw [hT, hg]
    refine ⟨?_, rfl, hk', ?_, hu, ?_, fun _ => rfl⟩
    · refine ⟨hI.pow2, hI.cap4, hR.size, ?_, ?_, hR.nogap, hR.nodup⟩
      · show m.len + 1 = _
        rw [ho, hI.len_occ]
      · show m.len + 1 ≤ m.cap / 2 + 1
        omega
    · simp only; rw [sl_set _ _ _ _ hlt]; simp
    · intro ⟨w, hw⟩; exact (habs w hw).elim
  · have hT : mapputTail m k = (m, i) := by
      unfold mapputTail; rw [hk']; simp only []; rw [getElem?_of_lt _ _ hlt, hw]
    have hg : get m k = w := get_of_holds hI ⟨i, hw⟩
    rw [hT, hg]
    refine ⟨hI, rfl, hk', hw, ?_, fun _ => rfl, ?_⟩
    · intro k' v'
      constructor
      · intro h
        by_cases hkk : k' = k
        · subst hkk; exact Or.inl ⟨rfl, holds_unique hI.rinv h ⟨i, hw⟩⟩
        · exact Or.inr ⟨hkk, h⟩
      · rintro (⟨rfl, rfl⟩ | ⟨_, h⟩)
        · exact ⟨i, hw⟩
        · exact h
    · intro habs; exact (habs w ⟨i, hw⟩).elim

/-- `mapput`: the table afterwards holds `k ↦ (old value, or NULL if new)`, everything else unchanged. -/
theorem mapput_spec {m : Map} (hI : Inv m) (k : Key) :
    Inv (mapput m k).1 ∧
      keyindex (maybeGrow m) k = some (mapput m k).2 ∧
      sl (mapput m k).1.slots (mapput m k).2 = some (k, get m k) ∧
      Upd m.slots (mapput m k).1.slots k (get m k) ∧
      ((∃ w, Holds m.slots k w) → (mapput m k).1.len = m.len) ∧
      ((∀ w, ¬ Holds m.slots k w) → (mapput m k).1.len = m.len + 1) := by
  obtain ⟨hG, hl, hle, hh⟩ := maybeGrow_spec hI
  have hgg : get (maybeGrow m) k = get m k := by
    rcases get_cases hI k with h | ⟨h0, habs⟩
    · exact get_of_holds hG ((hh _ _).mpr h)
    · rw [h0]; exact get_of_absent hG (fun w hw => habs w ((hh _ _).mp hw))
  obtain ⟨h1, _, h2, h3, h4, h5, h6⟩ := mapputTail_spec hG hle k
  unfold mapput
  rw [hgg] at h3 h4
  refine ⟨h1, h2, h3, ?_, ?_, ?_⟩
  · intro k' v'
    rw [h4 k' v', hh]
  · intro ⟨w, hw⟩; rw [h5 ⟨w, (hh _ _).mpr hw⟩, hl]
  · intro habs; rw [h6 (fun w hw => habs w ((hh _ _).mp hw)), hl]

/-- Writing through the pointer returned by `mapput`. -/
theorem setVal_spec {m : Map} (hI : Inv m) {i k w} (v : Nat) (hi : sl m.slots i = some (k, w)) :
    Inv (setVal m i v) ∧ (setVal m i v).len = m.len ∧ (setVal m i v).cap = m.cap ∧
      sl (setVal m i v).slots i = some (k, v) ∧ Upd m.slots (setVal m i v).slots k v := by
  have hlt : i < m.slots.size := by
    apply Classical.byContradiction; intro hge
    rw [sl_of_ge _ _ (by omega)] at hi; cases hi
  have hS : setVal m i v = { cap := m.cap, len := m.len, slots := m.slots.setIfInBounds i (some (k, v)) } := by
    unfold setVal; rw [getElem?_of_lt _ _ hlt, hi]
  obtain ⟨hR, ho, hu⟩ := overwrite_spec hI.rinv v hi
  rw [hS]
  refine ⟨?_, rfl, rfl, ?_, hu⟩
  · refine ⟨hI.pow2, hI.cap4, hR.size, ?_, hI.len_le, hR.nogap, hR.nodup⟩
    show m.len = _
    rw [ho]; exact hI.len_occ
  · simp only; rw [sl_set _ _ _ _ hlt]; simp

theorem valAt_of_sl {m : Map} {i k w} (hi : sl m.slots i = some (k, w)) : valAt m i = w := by
  have hlt : i < m.slots.size := by
    apply Classical.byContradiction; intro hge
    rw [sl_of_ge _ _ (by omega)] at hi; cases hi
  unfold valAt; rw [getElem?_of_lt _ _ hlt, hi]

/-- `*mapput(h, k) = v`. -/
theorem put_spec {m : Map} (hI : Inv m) (k : Key) (v : Nat) :
    Inv (put m k v) ∧ Upd m.slots (put m k v).slots k v ∧
      ((∃ w, Holds m.slots k w) → (put m k v).len = m.len) ∧
      ((∀ w, ¬ Holds m.slots k w) → (put m k v).len = m.len + 1) := by
  obtain ⟨h1, _, h3, h4, h5, h6⟩ := mapput_spec hI k
  obtain ⟨g1, g2, _, _, g5⟩ := setVal_spec h1 v h3
  unfold put
  refine ⟨g1, h4.trans g5, ?_, ?_⟩
  · intro h; simp only; rw [g2, h5 h]
  · intro h; simp only; rw [g2, h6 h]

theorem get_of_upd_same {m m' : Map} (hI' : Inv m') {k v} (hu : Upd m.slots m'.slots k v) :
    get m' k = v :=
  get_of_holds hI' ((hu k v).mpr (Or.inl ⟨rfl, rfl⟩))

theorem get_of_upd_other {m m' : Map} (hI : Inv m) (hI' : Inv m') {k v k'} (hne : k' ≠ k)
    (hu : Upd m.slots m'.slots k v) : get m' k' = get m k' := by
  rcases get_cases hI k' with h | ⟨h0, habs⟩
  · exact get_of_holds hI' ((hu _ _).mpr (Or.inr ⟨hne, h⟩))
  · rw [h0]
    apply get_of_absent hI'
    intro w hw
    rcases (hu _ _).mp hw with ⟨hk, _⟩ | ⟨_, h⟩
    · exact hne hk
    · exact habs w h

/-- `putKeep`: like `put` with the value `if get m k ≠ 0 then get m k else v`. -/
theorem putKeep_spec {m : Map} (hI : Inv m) (k : Key) (v : Nat) :
    Inv (putKeep m k v).1 ∧ (putKeep m k v).2 = (if get m k ≠ 0 then get m k else v) ∧
      Upd m.slots (putKeep m k v).1.slots k (putKeep m k v).2 := by
  obtain ⟨h1, _, h3, h4, _, _⟩ := mapput_spec hI k
  have hv : valAt (mapput m k).1 (mapput m k).2 = get m k := valAt_of_sl h3
  unfold putKeep
  simp only [hv]
  by_cases hz : get m k ≠ 0
  · simp only [hz, if_true, ne_eq, not_false_eq_true]
    exact ⟨h1, trivial, h4⟩
  · simp only [hz, if_false]
    obtain ⟨g1, _, _, _, g5⟩ := setVal_spec h1 v h3
    exact ⟨g1, trivial, h4.trans g5⟩

theorem len_pos_of_holds {m : Map} (hI : Inv m) {k v} (h : Holds m.slots k v) : 0 < m.len := by
  rw [hI.len_occ]; unfold occ
  rw [Array.countP_pos_iff]
  exact ⟨some (k, v), Array.mem_toList_iff.mp ((holds_iff_mem _ _ _).mp h), rfl⟩

theorem put_len_pos {m : Map} (hI : Inv m) (k : Key) (v : Nat) : 0 < (put m k v).len := by
  obtain ⟨h1, h2, _, _⟩ := put_spec hI k v
  exact len_pos_of_holds h1 ((h2 k v).mpr (Or.inl ⟨rfl, rfl⟩))

/-! ## Part 5: operation histories -/

/-- The table after a history of `put`s, starting from `mapinit(cap)`. -/
def run (cap : Nat) (ops : List (Key × Nat)) : Map :=
  ops.foldl (fun m kv => put m kv.1 kv.2) (init cap)

/-- The plain dictionary: the value of the LAST `put` of `k` in the history, else 0. -/
def dict (ops : List (Key × Nat)) (k : Key) : Nat :=
  ((ops.reverse.find? (fun kv => decide (kv.1 = k))).map (·.2)).getD 0

/-- The distinct keys of a history (in order of first appearance, newest first). -/
def distinctKeys (ops : List (Key × Nat)) : List Key :=
  ops.foldl (fun acc kv => if kv.1 ∈ acc then acc else kv.1 :: acc) []

theorem snoc_induction {α : Type} {P : List α → Prop} (hnil : P [])
    (hsnoc : ∀ l a, P l → P (l ++ [a])) (l : List α) : P l := by
  have : ∀ r : List α, P r.reverse := by
    intro r
    induction r with
    | nil => exact hnil
    | cons a r ih => rw [List.reverse_cons]; exact hsnoc _ _ ih
  simpa using this l.reverse

theorem run_nil (cap : Nat) : run cap [] = init cap := rfl

theorem run_snoc (cap : Nat) (ops : List (Key × Nat)) (kv : Key × Nat) :
    run cap (ops ++ [kv]) = put (run cap ops) kv.1 kv.2 := by
  unfold run; rw [List.foldl_append]; rfl

theorem dict_nil (k : Key) : dict [] k = 0 := rfl

theorem dict_snoc (ops : List (Key × Nat)) (kv : Key × Nat) (k : Key) :
    dict (ops ++ [kv]) k = if kv.1 = k then kv.2 else dict ops k := by
  unfold dict
  rw [List.reverse_append, List.reverse_singleton, List.singleton_append, List.find?_cons]
  by_cases h : kv.1 = k <;> simp [h]

theorem distinctKeys_snoc (ops : List (Key × Nat)) (kv : Key × Nat) :
    distinctKeys (ops ++ [kv]) =
      if kv.1 ∈ distinctKeys ops then distinctKeys ops else kv.1 :: distinctKeys ops := by
  unfold distinctKeys; rw [List.foldl_append]; rfl

theorem mem_distinctKeys' (ops : List (Key × Nat)) (k : Key) :
    k ∈ distinctKeys ops ↔ k ∈ ops.map (·.1) := by
  induction ops using snoc_induction with
  | hnil => simp [distinctKeys]
  | hsnoc l a ih =>
    rw [distinctKeys_snoc]
    by_cases h : a.1 ∈ distinctKeys l
    · rw [if_pos h]
      simp only [List.map_append, List.mem_append, List.map_cons, List.map_nil, List.mem_singleton]
      rw [← ih]
      constructor
      · exact Or.inl
      · rintro (h' | rfl)
        · exact h'
        · exact h
    · rw [if_neg h, List.mem_cons]
      simp only [List.map_append, List.mem_append, List.map_cons, List.map_nil, List.mem_singleton]
      rw [← ih]
      constructor
      · rintro (h' | h')
        · exact Or.inr h'
        · exact Or.inl h'
      · rintro (h' | h')
        · exact Or.inr h'
        · exact Or.inl h'

theorem distinctKeys_nodup' (ops : List (Key × Nat)) : (distinctKeys ops).Nodup := by
  induction ops using snoc_induction with
  | hnil => simp [distinctKeys]
  | hsnoc l a ih =>
    rw [distinctKeys_snoc]
    by_cases h : a.1 ∈ distinctKeys l
    · rw [if_pos h]; exact ih
    · rw [if_neg h]; exact List.nodup_cons.mpr ⟨h, ih⟩

/-- Everything the history-level theorems need, in one induction. -/
theorem run_spec {cap e : Nat} (hc : cap = 2 ^ e) (h4 : 4 ≤ cap) (ops : List (Key × Nat)) :
    Inv (run cap ops) ∧ (∀ k, get (run cap ops) k = dict ops k) ∧
      (run cap ops).len = (distinctKeys ops).length ∧
      ∀ k, (∃ w, Holds (run cap ops).slots k w) ↔ k ∈ distinctKeys ops := by
  induction ops using snoc_induction with
  | hnil =>
    refine ⟨init_inv' hc h4, ?_, rfl, ?_⟩
    · intro k
      rw [dict_nil]
      exact get_of_absent (init_inv' hc h4) (fun w => init_empty cap k w)
    · intro k
      simp only [distinctKeys, List.foldl_nil, List.not_mem_nil, iff_false]
      intro ⟨w, hw⟩; exact init_empty cap k w hw
  | hsnoc l a ih =>
    obtain ⟨hI, hget, hlen, hmem⟩ := ih
    obtain ⟨hI', hu, hl1, hl2⟩ := put_spec hI a.1 a.2
    rw [run_snoc]
    refine ⟨hI', ?_, ?_, ?_⟩
    · intro k
      rw [dict_snoc]
      by_cases h : a.1 = k
      · rw [if_pos h, ← h]; exact get_of_upd_same hI' hu
      · rw [if_neg h, ← hget]; exact get_of_upd_other hI hI' (Ne.symm h) hu
    · rw [distinctKeys_snoc]
      by_cases h : a.1 ∈ distinctKeys l
      · rw [if_pos h, hl1 ((hmem _).mpr h), hlen]
      · rw [if_neg h, hl2 (fun w hw => h ((hmem _).mp ⟨w, hw⟩)), hlen]; rfl
    · intro k
      rw [distinctKeys_snoc]
      have hk : (∃ w, Holds (put (run cap l) a.1 a.2).slots k w) ↔ k = a.1 ∨ k ∈ distinctKeys l := by
        rw [← hmem]
        constructor
        · rintro ⟨w, hw⟩
          rcases (hu k w).mp hw with ⟨hk, _⟩ | ⟨_, h⟩
          · exact Or.inl hk
          · exact Or.inr ⟨w, h⟩
        · rintro (rfl | ⟨w, hw⟩)
          · exact ⟨a.2, (hu _ _).mpr (Or.inl ⟨rfl, rfl⟩)⟩
          · by_cases hk : k = a.1
            · exact ⟨a.2, (hu _ _).mpr (Or.inl ⟨hk, rfl⟩)⟩
            · exact ⟨w, (hu _ _).mpr (Or.inr ⟨hk, hw⟩)⟩
      rw [hk]
      by_cases h : a.1 ∈ distinctKeys l
      · rw [if_pos h]
        constructor
        · rintro (rfl | h') <;> assumption
        · exact Or.inr
      · rw [if_neg h, List.mem_cons]

/-- Replace the hash field by a function of the bytes. -/
def rekey (f : List Nat → Nat) (k : Key) : Key := { hash := f k.bytes, bytes := k.bytes }

/-- Within a set of keys, equal bytes imply equal hash (true for any real hash function). -/
def HashConsistent (ks : List Key) : Prop :=
  ∀ k1, k1 ∈ ks → ∀ k2, k2 ∈ ks → k1.bytes = k2.bytes → k1.hash = k2.hash

theorem rekey_eq_iff {f : List Nat → Nat} {k1 k2 : Key} (h : k1.bytes = k2.bytes → k1.hash = k2.hash) :
    rekey f k1 = rekey f k2 ↔ k1 = k2 := by
  constructor
  · intro he
    have hb : k1.bytes = k2.bytes := by
      have := congrArg Key.bytes he; exact this
    cases k1; cases k2
    simp only [Key.mk.injEq]
    exact ⟨h hb, hb⟩
  · rintro rfl; rfl

theorem dict_rekey (f : List Nat → Nat) (ops : List (Key × Nat)) (k : Key)
    (hcons : HashConsistent (k :: ops.map (·.1))) :
    dict (ops.map (fun kv => (rekey f kv.1, kv.2))) (rekey f k) = dict ops k := by
  induction ops using snoc_induction with
  | hnil => rfl
  | hsnoc l a ih =>
    have hsub : HashConsistent (k :: l.map (·.1)) := by
      intro k1 h1 k2 h2
      apply hcons
      · rcases List.mem_cons.mp h1 with h | h
        · exact h ▸ List.mem_cons_self ..
        · exact List.mem_cons_of_mem _ (by simp [h])
      · rcases List.mem_cons.mp h2 with h | h
        · exact h ▸ List.mem_cons_self ..
        · exact List.mem_cons_of_mem _ (by simp [h])
    rw [List.map_append, List.map_cons, List.map_nil, dict_snoc, dict_snoc, ih hsub]
    have : rekey f a.1 = rekey f k ↔ a.1 = k :=
      rekey_eq_iff (hcons a.1 (List.mem_cons_of_mem _ (by simp)) k (List.mem_cons_self ..))
    by_cases h : a.1 = k
    · rw [if_pos h, if_pos (this.mpr h)]
    · rw [if_neg h, if_neg (fun h' => h (this.mp h'))]

end CprocVerif.Map

/-
  C01, fragment 𝔽₂ — `x = p[i];` where `p` is a read-only array parameter (a pointer into an allocation of a
  caller): the pointer is loaded from its slot, the offset is added, the element is loaded from the caller's
  array, converted and stored.
-/
import CprocVerif.Lemmas.Lower2Arr

set_option linter.unusedSimpArgs false

namespace CprocVerif.LowerMach2
open CprocVerif.Qbe CprocVerif.Lower CprocVerif.Lower2 CprocVerif.CSem CprocVerif.CSem2 CprocVerif.CInt
open CprocVerif.LowerArith CprocVerif.LowerMach CprocVerif.LowerMem

theorem readVal_tmp_inv {p : Prog} {env : Env} {n : String} {v : RVal}
    (h : readVal p env (.tmp n) = .ok v) : env[n]? = some v := by
  simp only [readVal] at h
  split at h
  · rename_i x hx
    simp only [Except.ok.injEq] at h
    rw [hx, h]
  · cases h

/-- reading element `e` behind the array parameter `k`: the slot holds a pointer, the pointer leads into an
    allocation of a caller -/
theorem AInv.loadWin (cs : Bool) {M0 : Mem} {cnts σ : List Nat} {W : List (CSem.Ty × Nat × Nat)}
    {vtys : List CSem.Ty} {s : Store} {i : Nat} {env : Env} {M : Mem} (h : AInv M0 cnts W σ vtys s i env M)
    {k : Nat} {t : CSem.Ty} {w c0 : Nat} (hw : W[k]? = some (t, w, c0)) (hkt : vtys[k]? = some .ulong)
    {e : Nat} {v : Int} (he : e < w) (hv : s[c0 + e]? = some (some v)) :
    ∃ (a pv : UInt64), env[tmpName (σ.getD k 0)]? = some ⟨.l, a⟩ ∧
      execOp (.load .l) (some .l) [⟨.l, a⟩] M none = .ok (⟨.l, pv⟩, M) ∧ pv.toNat + e * t.size < 2 ^ 64 ∧
      ∀ ra : UInt64, ra.toNat = pv.toNat + e * t.size →
        ∃ r, execOp (.load (loadOf cs t)) (some (cls t)) [⟨.l, ra⟩] M none = .ok (r, M) ∧ Rep t v r := by
  obtain ⟨hki, hc0, al, pv, j', al', g1, g2, g3, g4, g5, g6, g7, g8, g9⟩ := h.wins k t w c0 hw
  obtain ⟨a, al2, h1, h2, h3, h4, h5, h5b, h5c, h7⟩ := h.slots k .ulong hki hkt
  have hal2 : al2 = al := by rw [g1] at h2; exact (Option.some.inj h2).symm
  subst hal2
  have hk' : M0.stack.size + k < M.stack.size := by rw [h.ssize]; omega
  have hal : M.stack[M0.stack.size + k] = al2 := by
    rw [Array.getElem?_eq_getElem hk'] at h2; exact Option.some.inj h2
  have hsz8 : CSem.Ty.ulong.size = 8 := rfl
  have hload0 := load_stack_at h.mem hk' (n := 8) (off := 0) (by omega) (by rw [hal, h5, hsz8]; omega)
  rw [hal, h3, g2, Nat.add_zero] at hload0
  have hj'M : j' < M.stack.size := by rw [h.ssize]; omega
  have hal'M : M.stack[j'] = al' := by
    have := h.below j' g3
    rw [g4, Array.getElem?_eq_getElem hj'M] at this
    exact Option.some.inj this
  have hsz : 0 < t.size := by rcases size_cases t with h | h | h | h <;> omega
  have hin : e * t.size + t.size ≤ al'.size := by
    have : (e + 1) * t.size ≤ w * t.size := Nat.mul_le_mul_right _ (by omega)
    rw [Nat.add_mul, Nat.one_mul] at this
    omega
  have hload := load_stack_at h.mem hj'M (n := t.size) (off := e * t.size) hsz (by rw [hal'M]; exact hin)
  rw [hal'M, g5] at hload
  have htop : stackTop = 0x7f0000000000 := stackTop_val
  refine ⟨a, pv, h1, ?_, by omega, ?_⟩
  · simp [execOp, needRes, bind, Except.bind, loadInfo, hload0, pure, Except.pure]
  · intro ra hra
    rw [← hra] at hload
    exact load_rep cs t v M ra _ hload (g9 e v he hv)

section
variable (T : Stat) {s : Store} {out : CSem2.Outcome} {lp : Bool × Bool} {brk cont : String} {c : SCtx}
  {nd nd' : Nat} {pre post : List Item} {env : Env} {M : Mem}

/-- `x = p[idx];` -/
theorem sim_pload (n : Nat) (dst : Nat) (dt : CSem.Ty) (k : Nat) (t : CSem.Ty) (w c0 : Nat) (idx : Expr)
    (hex : exec T.S.cs T.P (n + 1) s (.pload dst dt k t w c0 idx) = some out)
    (hfr : frag T.P T.cnts T.W (.pload dst dt k t w c0 idx) = true)
    (hwt : Stmt.wt T.vtys T.ret lp.1 lp.2 nd (.pload dst dt k t w c0 idx) = some nd') (hp : Pos T c nd pre)
    (hext : Ext T (funcstmt T.S.cs brk cont (.pload dst dt k t w c0 idx) c).ctx)
    (hits : T.S.its = pre ++ (funcstmt T.S.cs brk cont (.pload dst dt k t w c0 idx) c).items ++ post)
    (inv : SInv T.M0 T.S.cs T.cnts T.W T.σ T.vtys s env M) :
    Post T lp brk cont (T.at env M pre)
      (pre ++ (funcstmt T.S.cs brk cont (.pload dst dt k t w c0 idx) c).items)
      (funcstmt T.S.cs brk cont (.pload dst dt k t w c0 idx) c).ctx out := by
  simp only [exec, Option.bind_eq_some_iff] at hex
  obtain ⟨iv, hev, hex⟩ := hex
  split at hex
  · rename_i hiv
    simp only [Option.map_eq_some_iff] at hex
    obtain ⟨v, hv, rfl⟩ := hex
    simp only [frag, Bool.and_eq_true, decide_eq_true_eq] at hfr
    obtain ⟨hWd, hWk⟩ := hfr
    simp only [Stmt.wt] at hwt
    split at hwt
    · rename_i hw
      obtain ⟨hdst, hdt, hknd, hkt, hwi⟩ := hw
      have he : iv.toNat < w := by omega
      have hvv : s[c0 + iv.toNat]? = some (some v) := join_some hv
      have hrgv : InRange (t.intTy T.S.cs) v := inv.wrange k iv.toNat t w c0 v hWk he hvv
      obtain ⟨a, pv, ha1, hxp, habound, hload⟩ := inv.a.loadWin T.S.cs hWk hkt he hvv
      -- the shape of the emitted code
      have hshape : funcstmt T.S.cs brk cont (.pload dst dt k t w c0 idx) c =
          (let op := funcinst c.ctx (.load .l) .l [.tmp (tmpName (c.slots.getD k 0))]
           let oa := lowerAddr T.S.cs c.slots op.ctx (c.ctx.lastid + 1) t idx
           let ol := funcinst oa.ctx (.load (loadOf T.S.cs t)) (cls t) [oa.val]
           let ov : Out := if dt = t then ⟨[], ol.val, ol.ctx⟩ else convert T.S.cs ol.ctx dt t ol.val
           ⟨op.items ++ oa.items ++ ol.items ++ ov.items ++ [storeIns dt ov.val (c.slots.getD dst 0)], [],
             c.upd ov.ctx, [], none⟩) := by
        simp only [funcstmt, funcopen_none hp.jump, List.nil_append, lowerAddr, Out.seq, List.append_assoc]
        rfl
      rw [hshape] at hext hits ⊢
      simp only [] at hext hits ⊢
      generalize hop : funcinst c.ctx (.load .l) .l [.tmp (tmpName (c.slots.getD k 0))] = op at hext hits ⊢
      have hopl : op.ctx.lastid = c.ctx.lastid + 1 := by rw [← hop]; rfl
      have hopv : op.val = .tmp (tmpName (c.ctx.lastid + 1)) := by rw [← hop]; rfl
      have hopcur : op.ctx.cur = c.ctx.cur := by rw [← hop]; rfl
      have hopb : op.ctx.blockid = c.ctx.blockid := by rw [← hop]; rfl
      have hopi : op.items = [.ins (.op (some (tmpName (c.ctx.lastid + 1), .l)) (.load .l)
          [.tmp (tmpName (c.slots.getD k 0))])] := by rw [← hop]; rfl
      have hl1 := (lowerAddr_good T.S.cs c.slots op.ctx (c.ctx.lastid + 1) t idx).1
      have s2 := funcinst_straight (lowerAddr T.S.cs c.slots op.ctx (c.ctx.lastid + 1) t idx).ctx
        (.load (loadOf T.S.cs t)) (cls t) [(lowerAddr T.S.cs c.slots op.ctx (c.ctx.lastid + 1) t idx).val]
      generalize hoa : lowerAddr T.S.cs c.slots op.ctx (c.ctx.lastid + 1) t idx = oa at hext hits hl1 s2 ⊢
      have hcast := fun (env2 : Env) (r' : RVal) (post' : List Item) (pos : List Item) => sim_castOut T
        (funcinst oa.ctx (.load (loadOf T.S.cs t)) (cls t) [oa.val]).ctx dt t
        (funcinst oa.ctx (.load (loadOf T.S.cs t)) (cls t) [oa.val]).val
        (pos := pos) (post := post') (env2 := env2) (M := M) (v := v) (r' := r')
      have hle3 : (funcinst oa.ctx (.load (loadOf T.S.cs t)) (cls t) [oa.val]).ctx.lastid ≤
          (if dt = t then (⟨[], (funcinst oa.ctx (.load (loadOf T.S.cs t)) (cls t) [oa.val]).val,
              (funcinst oa.ctx (.load (loadOf T.S.cs t)) (cls t) [oa.val]).ctx⟩ : Out)
            else convert T.S.cs (funcinst oa.ctx (.load (loadOf T.S.cs t)) (cls t) [oa.val]).ctx dt t
              (funcinst oa.ctx (.load (loadOf T.S.cs t)) (cls t) [oa.val]).val).ctx.lastid := by
        split
        · exact Nat.le_refl _
        · exact (convert_straight _ _ _ _ _).lastid
      generalize hol : funcinst oa.ctx (.load (loadOf T.S.cs t)) (cls t) [oa.val] = ol
        at hext hits s2 hcast hle3 ⊢
      generalize hov : (if dt = t then (⟨[], ol.val, ol.ctx⟩ : Out) else convert T.S.cs ol.ctx dt t ol.val) = ov
        at hext hits hcast hle3 ⊢
      have l2 := s2.lastid
      have hpre : ∀ j, j < nd → T.σ.getD j 0 = c.slots.getD j 0 := fun j hj => hext.1 j (by
        show j < c.slots.length; rw [hp.nslots]; exact hj)
      have hfut : ∀ k, nd ≤ k → k < T.vtys.length → ov.ctx.lastid < T.σ.getD k 0 := fun k hk hkv =>
        hext.2 k (by show c.slots.length ≤ k; rw [hp.nslots]; exact hk) hkv
      have hvars : VarsIn (setM T.S M) c.slots (T.vtys.take nd) s env := by
        intro i t' v' ht hv'
        obtain ⟨ht', hi⟩ := take_sub ht
        obtain ⟨a', r, h1, h2, h3⟩ := inv.varsIn i t' v' ht' hv'
        exact ⟨a', r, by rw [← hpre i hi]; exact h1, h2, h3⟩
      have hrange : ∀ (i : Nat) (t' : CSem.Ty) (v' : Int), (T.vtys.take nd)[i]? = some t' →
          s[i]? = some (some v') → InRange (t'.intTy T.S.cs) v' :=
        fun i t' v' ht hv' => inv.range i t' v' (take_sub ht).1 hv'
      -- the pointer
      have hits0 : (setM T.S M).its = pre ++
          (funcinst c.ctx (.load .l) .l [.tmp (tmpName (c.slots.getD k 0))]).items ++
          (oa.items ++ ol.items ++ ov.items ++ [storeIns dt ov.val (c.slots.getD dst 0)] ++ post) := by
        rw [setM_its, hits, hop]; simp only [List.append_assoc]
      have hslotk : env[tmpName (c.slots.getD k 0)]? = some ⟨.l, a⟩ := by rw [← hpre k hknd]; exact ha1
      obtain ⟨n0, env0, hreach0, hfr0, r0, hval0, hr0⟩ := run_funcinst2 (setM T.S M) c.ctx
        (.load .l) .l [.tmp (tmpName (c.slots.getD k 0))] (P := fun r => r = ⟨.l, pv⟩) hits0
        (readVals_one (readVal_tmp hslotk)) hxp rfl
      rw [hop] at hreach0 hfr0 hval0
      subst hr0
      rw [hopv] at hval0
      have hslotp := readVal_tmp_inv hval0
      have hvars0 : VarsIn (setM T.S M) c.slots (T.vtys.take nd) s env0 := by
        intro i t' v' ht hv'
        obtain ⟨a', r, h1, h2, h3⟩ := hvars i t' v' ht hv'
        refine ⟨a', r, ?_, h2, h3⟩
        rw [hfr0 _ (Or.inl (hp.le i (take_sub ht).2))]; exact h1
      -- the address
      have hits1 : T.S.its = (pre ++ op.items) ++
          (lowerAddr T.S.cs c.slots op.ctx (c.ctx.lastid + 1) t idx).items ++
          (ol.items ++ ov.items ++ [storeIns dt ov.val (c.slots.getD dst 0)] ++ post) := by
        rw [hoa, hits]; simp only [List.append_assoc]
      have hcur1 : curOf T.S.o0 (pre ++ op.items) = op.ctx.cur := by
        rw [hopi, curOf_ins, hopcur]; exact hp.cur
      have hcok1 : CurOK op.ctx := by
        obtain ⟨name, j, h1, h2⟩ := hp.curOK
        exact ⟨name, j, by rw [hopcur]; exact h1, by rw [hopb]; exact h2⟩
      obtain ⟨n1, env1, ra, hreach1, hfr1, hval1, hra⟩ := sim_addr T c.slots (T.vtys.take nd) s M hrange op.ctx
        (c.ctx.lastid + 1) t idx iv pv hwi hev hiv.1 habound hits1 hcur1 hcok1
        (fun i t' ht => by have := hp.le i (take_sub ht).2; rw [hopl]; exact Nat.le_succ_of_le this)
        hvars0 hslotp (by rw [hopl]; exact Nat.le_refl _)
      rw [hoa] at hreach1 hfr1 hval1
      -- the load
      obtain ⟨r, hxl, hrep⟩ := hload ra hra
      have hits2 : (setM T.S M).its = (pre ++ op.items ++ oa.items) ++
          (funcinst oa.ctx (.load (loadOf T.S.cs t)) (cls t) [oa.val]).items ++
          (ov.items ++ [storeIns dt ov.val (c.slots.getD dst 0)] ++ post) := by
        rw [setM_its, hits, hol]; simp only [List.append_assoc]
      obtain ⟨n2, env2, hreach2, hfr2, r2, hval2, hrep2⟩ := run_funcinst2 (setM T.S M) oa.ctx
        (.load (loadOf T.S.cs t)) (cls t) [oa.val] (P := fun r => Rep t v r) hits2
        (readVals_one hval1) hxl hrep
      rw [hol] at hreach2 hfr2 hval2
      -- the conversion
      have hits3 : T.S.its = (pre ++ op.items ++ oa.items ++ ol.items) ++ ov.items ++
          (storeIns dt ov.val (c.slots.getD dst 0) :: post) := by
        rw [hits]; simp only [List.append_assoc, List.singleton_append]
      obtain ⟨n3, env3, r3, hreach3, hfr3, hval3, hrep3, _⟩ := hcast env2 r2 _ _ hits3 hval2 hrep2 hrgv
      have hcl : c.ctx.lastid = c.lastid := rfl
      have hfr01 : Frame c.lastid oa.ctx.lastid env env1 :=
        Frame.trans hfr0 hfr1 (Nat.le_refl _) (by rw [hopl]; exact Nat.le_succ _) hl1 (Nat.le_refl _)
      have hfrall : Frame c.lastid ov.ctx.lastid env env3 :=
        Frame.trans (Frame.trans hfr01 hfr2 (Nat.le_refl _) (by omega) (by omega) (Nat.le_refl _)) hfr3
          (Nat.le_refl _) (by omega) hle3 (Nat.le_refl _)
      have inv3 : SInv T.M0 T.S.cs T.cnts T.W T.σ T.vtys s env3 M := inv.env (slots_kept hp hpre hfut hfrall)
      have hvr : InRange (dt.intTy T.S.cs) (conv (t.intTy T.S.cs) (dt.intTy T.S.cs) v) :=
        Eval.wrap_inRange (ty_valid T.S.cs dt) _
      obtain ⟨M', hr4, inv4⟩ := sim_store T dst dt ov.val (c.slots.getD dst 0) hits3 (hpre dst hdst) hdt hWd hval3
        hvr hrep3 inv3
      refine ⟨hp.jump, n0 + n1 + n2 + n3 + 1, env3, M', ?_, inv4⟩
      have := (((hreach0.trans hreach1).trans hreach2).trans hreach3).trans hr4
      simp only [List.append_assoc, List.singleton_append, List.cons_append, List.nil_append] at this ⊢
      exact this
    · cases hwt
  · cases hex

end

end CprocVerif.LowerMach2

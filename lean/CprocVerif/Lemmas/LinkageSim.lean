import CprocVerif.Lemmas.LinkageSim.S00
import CprocVerif.Lemmas.LinkageSim.S01
import CprocVerif.Lemmas.LinkageSim.S02
import CprocVerif.Lemmas.LinkageSim.S03
import CprocVerif.Lemmas.LinkageSim.S04
import CprocVerif.Lemmas.LinkageSim.S05
import CprocVerif.Lemmas.LinkageSim.S06
import CprocVerif.Lemmas.LinkageSim.S07
import CprocVerif.Lemmas.LinkageSim.S08
import CprocVerif.Lemmas.LinkageSim.S09
import CprocVerif.Lemmas.LinkageSim.S10
import CprocVerif.Lemmas.LinkageSim.S11
import CprocVerif.Lemmas.LinkageSim.S12
import CprocVerif.Lemmas.LinkageSim.S13
import CprocVerif.Lemmas.LinkageSim.S14

/-! C09: the finite checks of `LinkageSim/S*.lean` assembled into statements about every valid
abstract state. -/
namespace CprocVerif.Linkage

theorem sim_all (g : Ghost) (file top : Option Ent) (f : Form) (hv : valid file top g = true)
    (hf : localViol f = false) : stepCheck file top g f = true := by
  rcases g with ⟨fdef, ftent, fpure, linl, lent, lt, la⟩
  rcases lent with _ | ⟨k, l⟩
  · cases lt <;> cases fdef
    · exact simAll_spec sim_none_f_f _ _ _ _ _ _ _ hv hf
    · exact simAll_spec sim_none_f_t _ _ _ _ _ _ _ hv hf
    · exact simAll_spec sim_none_t_f _ _ _ _ _ _ _ hv hf
    · exact simAll_spec sim_none_t_t _ _ _ _ _ _ _ hv hf
  · cases k <;> cases l <;> cases lt <;> cases fdef
    · exact simAll_spec sim_obj_none_f_f _ _ _ _ _ _ _ hv hf
    · exact simAll_spec sim_obj_none_f_t _ _ _ _ _ _ _ hv hf
    · exact simAll_spec sim_obj_none_t_f _ _ _ _ _ _ _ hv hf
    · exact simAll_spec sim_obj_none_t_t _ _ _ _ _ _ _ hv hf
    · exact simAll_spec sim_obj_intern_f_f _ _ _ _ _ _ _ hv hf
    · exact simAll_spec sim_obj_intern_f_t _ _ _ _ _ _ _ hv hf
    · exact simAll_spec sim_obj_intern_t_f _ _ _ _ _ _ _ hv hf
    · exact simAll_spec sim_obj_intern_t_t _ _ _ _ _ _ _ hv hf
    · exact simAll_spec sim_obj_extern_f_f _ _ _ _ _ _ _ hv hf
    · exact simAll_spec sim_obj_extern_f_t _ _ _ _ _ _ _ hv hf
    · exact simAll_spec sim_obj_extern_t_f _ _ _ _ _ _ _ hv hf
    · exact simAll_spec sim_obj_extern_t_t _ _ _ _ _ _ _ hv hf
    · exact simAll_spec sim_func_none_f_f _ _ _ _ _ _ _ hv hf
    · exact simAll_spec sim_func_none_f_t _ _ _ _ _ _ _ hv hf
    · exact simAll_spec sim_func_none_t_f _ _ _ _ _ _ _ hv hf
    · exact simAll_spec sim_func_none_t_t _ _ _ _ _ _ _ hv hf
    · exact simAll_spec sim_func_intern_f_f _ _ _ _ _ _ _ hv hf
    · exact simAll_spec sim_func_intern_f_t _ _ _ _ _ _ _ hv hf
    · exact simAll_spec sim_func_intern_t_f _ _ _ _ _ _ _ hv hf
    · exact simAll_spec sim_func_intern_t_t _ _ _ _ _ _ _ hv hf
    · exact simAll_spec sim_func_extern_f_f _ _ _ _ _ _ _ hv hf
    · exact simAll_spec sim_func_extern_f_t _ _ _ _ _ _ _ hv hf
    · exact simAll_spec sim_func_extern_t_f _ _ _ _ _ _ _ hv hf
    · exact simAll_spec sim_func_extern_t_t _ _ _ _ _ _ _ hv hf

theorem fin_all (g : Ghost) (file top : Option Ent) (hv : valid file top g = true) :
    finishCheck file top g = true := finAll_spec finAll_true g file top hv

end CprocVerif.Linkage

/-
  C01, fragment 𝔽₂ — the run lemmas of `Lemmas/LowerSim.lean` with a TWO-SIDED frame: executing the items
  of a lowering step that starts with `f->lastid = lo` and ends with `f->lastid = hi` changes no temporary
  outside `(lo, hi]`.  (The slots of locals declared later have numbers above `hi`, their `alloc`s sit in
  the start block and have been executed already: they must survive.)
-/
import CprocVerif.Lemmas.LowerSim2
import CprocVerif.Lemmas.Lower2Struct
import CprocVerif.Lemmas.LowerRep4
import CprocVerif.Lemmas.LowerRange

set_option linter.unusedSimpArgs false

namespace CprocVerif.LowerMach2
open CprocVerif.Qbe CprocVerif.Lower CprocVerif.Lower2 CprocVerif.CSem CprocVerif.CInt CprocVerif.LowerArith
open CprocVerif.LowerMach

/-- `env'` differs from `env` at most on the temporaries numbered in `(lo, hi]`. -/
def Frame (lo hi : Nat) (env env' : Env) : Prop :=
  ∀ j, j ≤ lo ∨ hi < j → env'[tmpName j]? = env[tmpName j]?

theorem Frame.refl (lo hi : Nat) (env : Env) : Frame lo hi env env := fun _ _ => rfl

theorem Frame.agree {lo hi : Nat} {env env' : Env} (h : Frame lo hi env env') : Agree lo env env' :=
  fun j hj => h j (Or.inl hj)

theorem Frame.trans {l1 h1 l2 h2 l h : Nat} {a b c : Env} (f1 : Frame l1 h1 a b) (f2 : Frame l2 h2 b c)
    (hl1 : l ≤ l1) (hl2 : l ≤ l2) (hh1 : h1 ≤ h) (hh2 : h2 ≤ h) : Frame l h a c := by
  intro j hj
  rw [f2 j (by omega), f1 j (by omega)]

theorem Frame.mono {l1 h1 l h : Nat} {a b : Env} (f : Frame l1 h1 a b) (hl : l ≤ l1) (hh : h1 ≤ h) :
    Frame l h a b := fun j hj => f j (by omega)

theorem Frame.insert {lo hi k : Nat} (env : Env) (v : RVal) (h1 : lo < k) (h2 : k ≤ hi) :
    Frame lo hi env (env.insert (tmpName k) v) := by
  intro j hj
  rw [Std.HashMap.getElem?_insert]
  have : (tmpName k == tmpName j) = false := by
    rw [beq_eq_false_iff_ne]; exact tmpName_ne (by omega)
  simp [this]

/-- The situation with another memory. -/
def setM (S : Sit) (M : Mem) : Sit := { S with M := M }

@[simp] theorem setM_M (S : Sit) (M : Mem) : (setM S M).M = M := rfl
@[simp] theorem setM_its (S : Sit) (M : Mem) : (setM S M).its = S.its := rfl
@[simp] theorem setM_p (S : Sit) (M : Mem) : (setM S M).p = S.p := rfl
@[simp] theorem setM_ext (S : Sit) (M : Mem) : (setM S M).ext = S.ext := rfl
@[simp] theorem setM_cs (S : Sit) (M : Mem) : (setM S M).cs = S.cs := rfl
@[simp] theorem setM_x (S : Sit) (M : Mem) : (setM S M).x = S.x := rfl
@[simp] theorem setM_o0 (S : Sit) (M : Mem) : (setM S M).o0 = S.o0 := rfl
@[simp] theorem setM_ft (S : Sit) (M : Mem) : (setM S M).ft = S.ft := rfl
@[simp] theorem setM_setM (S : Sit) (M M' : Mem) : setM (setM S M) M' = setM S M' := rfl
theorem setM_self (S : Sit) : setM S S.M = S := rfl

/-- Running the items `items` placed after `pre` ends after them, changes only temporaries numbered in
    `(lo, hi]`, and `val` then reads as a value satisfying `P`. -/
def RunsTo2 (S : Sit) (lo hi : Nat) (env : Env) (pre items : List Item) (val : Val)
    (P : RVal → Prop) : Prop :=
  ∃ n env', Reach S.p S.ext n (S.at env pre) (S.at env' (pre ++ items)) ∧ Frame lo hi env env' ∧
    ∃ r, readVal S.p env' val = .ok r ∧ P r

theorem RunsTo2.weaken {S : Sit} {lo hi : Nat} {env : Env} {pre items : List Item} {val : Val}
    {P Q : RVal → Prop} (h : RunsTo2 S lo hi env pre items val P) (hpq : ∀ r, P r → Q r) :
    RunsTo2 S lo hi env pre items val Q := by
  obtain ⟨n, env', h1, h2, r, h3, h4⟩ := h
  exact ⟨n, env', h1, h2, r, h3, hpq r h4⟩

/-- one `funcinst` -/
theorem run_funcinst2 (S : Sit) (c : Ctx) (o : Op) (k : Cls) (args : List Val)
    {pre post : List Item} {env : Env} {vs : List RVal} {v : RVal} {P : RVal → Prop}
    (hits : S.its = pre ++ (funcinst c o k args).items ++ post)
    (hr : readVals S.p env args = .ok vs) (hx : execOp o (some k) vs S.M none = .ok (v, S.M))
    (hP : P v) :
    RunsTo2 S c.lastid (funcinst c o k args).ctx.lastid env pre (funcinst c o k args).items
      (funcinst c o k args).val P := by
  refine ⟨1, env.insert (tmpName (c.lastid + 1)) v, ?_,
    Frame.insert env v (Nat.lt_succ_self _) (Nat.le_refl _), v, readVal_insert_self _ _ _ _, hP⟩
  simp only [funcinst, List.append_assoc, List.singleton_append] at hits
  exact S.run_ins hits hr hx

/-- two steps in a row -/
theorem RunsTo2.seq {S : Sit} {l m h : Nat} {env : Env} {pre i1 i2 : List Item} {v1 v2 : Val}
    {P : RVal → Prop} {Q : RVal → Prop}
    (h1 : RunsTo2 S l m env pre i1 v1 P) (hlm : l ≤ m) (hmh : m ≤ h)
    (h2 : ∀ env1 r1, Frame l m env env1 → readVal S.p env1 v1 = .ok r1 → P r1 →
      RunsTo2 S m h env1 (pre ++ i1) i2 v2 Q) :
    RunsTo2 S l h env pre (i1 ++ i2) v2 Q := by
  obtain ⟨n, env1, hr1, ha1, r1, hv1, hp1⟩ := h1
  obtain ⟨k, env2, hr2, ha2, r2, hv2, hq⟩ := h2 env1 r1 ha1 hv1 hp1
  refine ⟨n + k, env2, ?_, ha1.trans ha2 (Nat.le_refl _) hlm hmh (Nat.le_refl _), r2, hv2, hq⟩
  rw [← List.append_assoc]
  exact hr1.trans hr2

theorem sim_convert2 (S : Sit) (c : Ctx) (dst src : CSem.Ty) (l : Val) (pre post : List Item)
    (env : Env) (v : Int) (r0 : RVal)
    (hits : S.its = pre ++ (convert S.cs c dst src l).items ++ post)
    (hl : readVal S.p env l = .ok r0) (hrep : Rep src v r0)
    (hrange : InRange (src.intTy S.cs) v) :
    RunsTo2 S c.lastid (convert S.cs c dst src l).ctx.lastid env pre (convert S.cs c dst src l).items (convert S.cs c dst src l).val
      (fun r => Rep dst (wrap (dst.intTy S.cs) v) r ∧ (dst = .bool → BoolRes (decide (v ≠ 0)) r)) := by
  have hrg := range_ty S.cs src hrange
  by_cases hdb : dst = .bool
  · subst hdb
    rcases size_cases src with hs | hs | hs | hs
    · -- extub; cnew
      simp only [convert, if_true, hs] at hits ⊢
      simp only [Rep, hs, Nat.reduceEqDiff, if_false, Nat.reduceMul] at hrep
      obtain ⟨r1, hx1, hr1⟩ := zext8_w S.M none hrep
      simp only [Out.seq] at hits ⊢
      rw [← List.append_assoc] at hits
      refine RunsTo2.seq (v1 := (funcinst c .extub .w [l]).val)
        (P := fun r => WRep 32 (v % 2 ^ 8) r) (m := c.lastid + 1) ?_
        (Nat.le_succ _) (by simp [funcinst]) ?_
      · have hits' := hits
        rw [List.append_assoc] at hits'
        exact run_funcinst2 S c .extub .w [l] hits' (readVals_one hl) hx1 hr1
      · intro env1 r1' _ hv1 hp1
        obtain ⟨r2, hx2, hr2⟩ := tobool_w S.M none hp1 (by omega)
        refine run_funcinst2 S (funcinst c _ .w [l]).ctx (.cmpw .ne) .w _ (post := post) hits
          (readVals_two hv1 (readVal_int _ _ _)) hx2 ?_
        have hb : decide (v % 2 ^ 8 ≠ 0) = decide (v ≠ 0) := by
          apply decide_eq_decide.2
          have h2 := hrg.2
          simp only [hs, Nat.reduceMul, Nat.reduceSub] at h2
          split at h2 <;> omega
        rw [hb] at hr2
        exact ⟨boolres_rep S.cs hr2, fun _ => hr2⟩
    · -- extuh; cnew
      simp only [convert, if_true, hs] at hits ⊢
      simp only [Rep, hs, Nat.reduceEqDiff, if_false, Nat.reduceMul] at hrep
      obtain ⟨r1, hx1, hr1⟩ := zext16_w S.M none hrep
      simp only [Out.seq] at hits ⊢
      rw [← List.append_assoc] at hits
      refine RunsTo2.seq (v1 := (funcinst c .extuh .w [l]).val)
        (P := fun r => WRep 32 (v % 2 ^ 16) r) (m := c.lastid + 1) ?_
        (Nat.le_succ _) (by simp [funcinst]) ?_
      · have hits' := hits
        rw [List.append_assoc] at hits'
        exact run_funcinst2 S c .extuh .w [l] hits' (readVals_one hl) hx1 hr1
      · intro env1 r1' _ hv1 hp1
        obtain ⟨r2, hx2, hr2⟩ := tobool_w S.M none hp1 (by omega)
        refine run_funcinst2 S (funcinst c _ .w [l]).ctx (.cmpw .ne) .w _ (post := post) hits
          (readVals_two hv1 (readVal_int _ _ _)) hx2 ?_
        have hb : decide (v % 2 ^ 16 ≠ 0) = decide (v ≠ 0) := by
          apply decide_eq_decide.2
          have h2 := hrg.2
          simp only [hs, Nat.reduceMul, Nat.reduceSub] at h2
          split at h2 <;> omega
        rw [hb] at hr2
        exact ⟨boolres_rep S.cs hr2, fun _ => hr2⟩
    · -- cnew
      simp only [convert, if_true, hs] at hits ⊢
      simp only [Rep, hs, Nat.reduceEqDiff, if_false, Nat.reduceMul] at hrep
      have h2 := hrg.2
      simp only [hs, Nat.reduceMul, Nat.reduceSub] at h2
      obtain ⟨r2, hx2, hr2⟩ := tobool_w S.M none hrep (by split at h2 <;> omega)
      exact run_funcinst2 S _ (.cmpw .ne) .w _ hits (readVals_two hl (readVal_int _ _ _)) hx2
        ⟨boolres_rep S.cs hr2, fun _ => hr2⟩
    · -- cnel
      simp only [convert, if_true, hs] at hits ⊢
      simp only [Rep, hs, if_true] at hrep
      have h2 := hrg.2
      simp only [hs, Nat.reduceMul, Nat.reduceSub] at h2
      obtain ⟨r2, hx2, hr2⟩ := tobool_l S.M none hrep (by split at h2 <;> omega)
      exact run_funcinst2 S _ (.cmpl .ne) .w _ hits (readVals_two hl (readVal_int _ _ _)) hx2
        ⟨boolres_rep S.cs hr2, fun _ => hr2⟩
  · by_cases hle : dst.size ≤ src.size
    · -- nothing is emitted
      have hc : convert S.cs c dst src l = ⟨[], l, c⟩ := by simp [convert, hdb, hle]
      rw [hc]
      unfold RunsTo2
      simp only [List.append_nil]
      exact ⟨0, env, rfl, Frame.refl _ _ _, r0, hl, rep_narrow S.cs hdb hle hrep,
        fun h => absurd h hdb⟩
    · have h2 := hrg.2
      have hbool := hrg.1
      rcases size_cases src with hs | hs | hs | hs
      · -- extsb / extub
        rw [hs] at hle
        have hc : convert S.cs c dst src l =
            funcinst c (if src.signed S.cs then .extsb else .extub) (cls dst) [l] := by
          simp [convert, hdb, hle, hs]
        rw [hc] at hits ⊢
        simp only [Rep, hs, Nat.reduceEqDiff, if_false, Nat.reduceMul] at hrep
        simp only [hs, Nat.reduceMul, Nat.reduceSub] at h2
        have hk : cls dst = .w ∨ cls dst = .l := by unfold cls; split <;> simp
        obtain ⟨r2, hx2, hr2⟩ := ext8 (src.signed S.cs) (cls dst) hk S.M none hrep h2
        exact run_funcinst2 S _ _ _ _ hits (readVals_one hl) hx2
          ⟨rep_of_ext S.cs hdb hr2, fun h => absurd h hdb⟩
      · rw [hs] at hle
        have hc : convert S.cs c dst src l =
            funcinst c (if src.signed S.cs then .extsh else .extuh) (cls dst) [l] := by
          simp [convert, hdb, hle, hs]
        rw [hc] at hits ⊢
        simp only [Rep, hs, Nat.reduceEqDiff, if_false, Nat.reduceMul] at hrep
        simp only [hs, Nat.reduceMul, Nat.reduceSub] at h2
        have hk : cls dst = .w ∨ cls dst = .l := by unfold cls; split <;> simp
        obtain ⟨r2, hx2, hr2⟩ := ext16 (src.signed S.cs) (cls dst) hk S.M none hrep h2
        exact run_funcinst2 S _ _ _ _ hits (readVals_one hl) hx2
          ⟨rep_of_ext S.cs hdb hr2, fun h => absurd h hdb⟩
      · rw [hs] at hle
        have hc : convert S.cs c dst src l =
            funcinst c (if src.signed S.cs then .extsw else .extuw) (cls dst) [l] := by
          simp [convert, hdb, hle, hs]
        rw [hc] at hits ⊢
        simp only [Rep, hs, Nat.reduceEqDiff, if_false, Nat.reduceMul] at hrep
        simp only [hs, Nat.reduceMul, Nat.reduceSub] at h2
        have hd8 : dst.size = 8 := by
          rcases size_cases dst with h | h | h | h <;> omega
        have hcl : cls dst = .l := by simp [cls, hd8]
        obtain ⟨r2, hx2, hr2⟩ := ext32 (src.signed S.cs) S.M none hrep h2
        rw [hcl] at hits ⊢
        refine run_funcinst2 S _ _ _ _ hits (readVals_one hl) hx2
          ⟨rep_of_ext S.cs hdb ?_, fun h => absurd h hdb⟩
        rw [hcl]
        exact ⟨fun _ => hr2, fun h => by cases h⟩
      · exfalso
        rcases size_cases dst with h | h | h | h <;> omega

theorem sim_jnzArg2 (S : Sit) (c : Ctx) (t : CSem.Ty) (l : Val) (pre post : List Item) (env : Env)
    (v : Int) (r0 : RVal)
    (hits : S.its = pre ++ (jnzArg S.cs c t l).items ++ post)
    (hl : readVal S.p env l = .ok r0) (hrep : Rep t v r0) (hrange : InRange (t.intTy S.cs) v) :
    RunsTo2 S c.lastid (jnzArg S.cs c t l).ctx.lastid env pre (jnzArg S.cs c t l).items (jnzArg S.cs c t l).val
      (fun r => ∃ w, r.asW = .ok w ∧ (w ≠ 0 ↔ v ≠ 0)) := by
  have hrg := (range_ty S.cs t hrange).2
  by_cases h1 : t.size < 4
  · simp only [jnzArg, h1, if_true] at hits ⊢
    refine (sim_convert2 S c .int t l pre post env v r0 hits hl hrep hrange).weaken ?_
    rintro r ⟨hr, _⟩
    rw [rep_w int_size] at hr
    obtain ⟨w, hw, hwv⟩ := hr
    have hwl := asW_lt hw
    refine ⟨w, hw, ?_⟩
    rw [u64_ne_zero_iff]
    have hwm := wrap_mod32 true v
    have : Ty.intTy S.cs .int = ⟨32, true⟩ := rfl
    rw [this] at hwv
    rcases size_cases t with hs | hs | hs | hs <;> simp only [hs, Nat.reduceMul, Nat.reduceSub] at hrg
    · split at hrg <;> omega
    · split at hrg <;> omega
    · omega
    · omega
  · by_cases h2 : t.size > 4
    · simp only [jnzArg, h1, if_false, h2, if_true] at hits ⊢
      refine (sim_convert2 S c .bool t l pre post env v r0 hits hl hrep hrange).weaken ?_
      rintro r ⟨_, hr⟩
      have := (hr rfl).asW
      refine ⟨_, this, ?_⟩
      by_cases hv : v = 0 <;> simp [hv]
    · have hs : t.size = 4 := by rcases size_cases t with hs | hs | hs | hs <;> omega
      simp only [jnzArg, h1, if_false, h2] at hits ⊢
      unfold RunsTo2
      simp only [List.append_nil]
      rw [rep_w hs] at hrep
      obtain ⟨w, hw, hwv⟩ := hrep
      have hwl := asW_lt hw
      refine ⟨0, env, rfl, Frame.refl _ _ _, r0, hl, w, hw, ?_⟩
      rw [u64_ne_zero_iff]
      simp only [hs, Nat.reduceMul, Nat.reduceSub] at hrg
      split at hrg <;> omega

end CprocVerif.LowerMach2

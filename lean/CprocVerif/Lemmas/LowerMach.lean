/-
  C01 — machine layer: multi-step runs of `Spec/Qbe`, names of temporaries and labels, how
  `Lower.assemble` places an item list into blocks, label lookup, single-step lemmas.
-/
import CprocVerif.Spec.Qbe
import CprocVerif.Model.Lower

namespace CprocVerif.LowerMach
open CprocVerif.Qbe CprocVerif.Lower

/-! ## Multi-step runs -/

/-- `n` successful steps lead from `s` to `s'`. -/
def Reach (p : Prog) (ext : Ext) : Nat → State → State → Prop
  | 0, s, s' => s = s'
  | n + 1, s, s' => ∃ s1, step p ext s = .next s1 ∧ Reach p ext n s1 s'

theorem Reach.refl (p : Prog) (ext : Ext) (s : State) : Reach p ext 0 s s := rfl

theorem Reach.one {p : Prog} {ext : Ext} {s s' : State} (h : step p ext s = .next s') :
    Reach p ext 1 s s' := ⟨s', h, rfl⟩

theorem Reach.trans {p : Prog} {ext : Ext} {n m : Nat} {a b c : State}
    (h1 : Reach p ext n a b) (h2 : Reach p ext m b c) : Reach p ext (n + m) a c := by
  induction n generalizing a with
  | zero => cases h1; simpa using h2
  | succ n ih =>
    obtain ⟨s1, hs, hr⟩ := h1
    have : n + 1 + m = (n + m) + 1 := by omega
    rw [this]
    exact ⟨s1, hs, ih hr⟩

theorem run_of_reach {p : Prog} {ext : Ext} {n : Nat} {s s' : State} (h : Reach p ext n s s')
    (m : Nat) : run p ext (n + m) s = run p ext m s' := by
  induction n generalizing s with
  | zero => cases h; simp
  | succ n ih =>
    obtain ⟨s1, hs, hr⟩ := h
    have : n + 1 + m = (n + m) + 1 := by omega
    rw [this]
    simp only [run, hs]
    exact ih hr

/-! ## Names -/

theorem append_cons_unique {α : Type} {a : α} {x x' y y' : List α} (hy : a ∉ y) (hy' : a ∉ y')
    (h : x ++ a :: y = x' ++ a :: y') : y = y' := by
  induction x generalizing x' with
  | nil =>
    cases x' with
    | nil => simpa using h
    | cons b x' =>
      simp only [List.nil_append, List.cons_append, List.cons.injEq] at h
      obtain ⟨rfl, rfl⟩ := h
      exact absurd (by simp) hy
  | cons c x ih =>
    cases x' with
    | nil =>
      simp only [List.nil_append, List.cons_append, List.cons.injEq] at h
      obtain ⟨rfl, rfl⟩ := h
      exact absurd (by simp) hy'
    | cons b x' =>
      simp only [List.cons_append, List.cons.injEq] at h
      exact ih h.2

theorem dot_not_mem_repr (n : Nat) : '.' ∉ (toString n).toList := by
  intro h
  have h' : '.' ∈ (Nat.repr n).toList := h
  rw [Nat.toList_repr] at h'
  have := Nat.isDigit_of_mem_toDigits (b := 10) (by decide) (by decide) h'
  exact absurd this (by decide)

theorem toString_nat_inj {m n : Nat} (h : toString m = toString n) : m = n :=
  Nat.repr_injective h

theorem tmpName_inj {m n : Nat} (h : tmpName m = tmpName n) : m = n := by
  unfold tmpName at h
  have h' := congrArg String.toList h
  simp only [String.toList_append] at h'
  have := List.append_cancel_left h'
  exact toString_nat_inj (String.toList_inj.1 this)

theorem tmpName_ne {m n : Nat} (h : m ≠ n) : tmpName m ≠ tmpName n := fun e => h (tmpName_inj e)

/-- Labels with different ids differ, whatever their names. -/
theorem lblName_inj {a b : String} {m n : Nat} (h : lblName a m = lblName b n) : m = n := by
  unfold lblName at h
  have h' := congrArg String.toList h
  simp only [String.toList_append] at h'
  have hd : (".":String).toList = ['.'] := rfl
  rw [hd] at h'
  simp only [List.append_assoc, List.singleton_append] at h'
  have := append_cons_unique (dot_not_mem_repr m) (dot_not_mem_repr n) h'
  exact toString_nat_inj (String.toList_inj.1 this)

/-! ## Cutting item lists into blocks -/

/-- Process a prefix of the item list: the blocks it closes and the block left open. -/
def adv : Open → List Item → List Block × Open
  | o, [] => ([], o)
  | o, .ins i :: r => adv ⟨o.label, o.phis, o.ins.push i⟩ r
  | o, .lbl t l ph :: r =>
    (⟨o.label, o.phis, o.ins, t⟩ :: (adv ⟨l, ph, #[]⟩ r).1, (adv ⟨l, ph, #[]⟩ r).2)

theorem adv_append (o : Open) (a b : List Item) :
    adv o (a ++ b) = ((adv o a).1 ++ (adv (adv o a).2 b).1, (adv (adv o a).2 b).2) := by
  induction a generalizing o with
  | nil => simp [adv]
  | cons x a ih =>
    cases x with
    | ins i => simp only [List.cons_append, adv]; exact ih _
    | lbl t l ph =>
      simp only [List.cons_append, adv]
      rw [ih]

theorem assemble_append (ft : Jump) (o : Open) (a b : List Item) :
    assemble ft o (a ++ b) = (adv o a).1 ++ assemble ft (adv o a).2 b := by
  induction a generalizing o with
  | nil => simp [adv]
  | cons x a ih =>
    cases x with
    | ins i => simp only [List.cons_append, assemble, adv]; exact ih _
    | lbl t l ph =>
      simp only [List.cons_append, assemble, adv]
      rw [ih]

/-- The first block of an assembly keeps the open block's label, phis and instructions. -/
theorem assemble_head (ft : Jump) (o : Open) (its : List Item) :
    ∃ b rest, assemble ft o its = b :: rest ∧ b.label = o.label ∧ b.phis = o.phis ∧
      (∀ k, k < o.ins.size → b.ins[k]? = o.ins[k]?) := by
  induction its generalizing o with
  | nil => exact ⟨_, [], rfl, rfl, rfl, fun _ _ => rfl⟩
  | cons x its ih =>
    cases x with
    | ins i =>
      obtain ⟨b, rest, h1, h2, h3, h4⟩ := ih ⟨o.label, o.phis, o.ins.push i⟩
      refine ⟨b, rest, h1, h2, h3, fun k hk => ?_⟩
      rw [h4 k (by simp; omega)]
      simp [Array.getElem?_push, Nat.ne_of_lt hk]
    | lbl t l ph => exact ⟨_, _, rfl, rfl, rfl, fun _ _ => rfl⟩

theorem assemble_head_ins (ft : Jump) (o : Open) (i : Ins) (its : List Item) :
    ∃ b rest, assemble ft o (.ins i :: its) = b :: rest ∧ b.ins[o.ins.size]? = some i := by
  obtain ⟨b, rest, h1, _, _, h4⟩ := assemble_head ft ⟨o.label, o.phis, o.ins.push i⟩ its
  refine ⟨b, rest, h1, ?_⟩
  rw [h4 o.ins.size (by simp)]
  simp

/-- Position (block index, instruction index) reached after the items `pre`. -/
def posOf (o : Open) (pre : List Item) : Nat × Nat :=
  ((adv o pre).1.length, (adv o pre).2.ins.size)

/-- Label of the block that is open after the items `pre`. -/
def curOf (o : Open) (pre : List Item) : String := (adv o pre).2.label

section Placement
variable (ft : Jump) (o0 : Open) (pre post : List Item)

/-- an instruction item sits at its position -/
theorem ins_at (i : Ins) :
    ∃ b, (assemble ft o0 (pre ++ .ins i :: post))[(posOf o0 pre).1]? = some b ∧
      b.ins[(posOf o0 pre).2]? = some i := by
  rw [assemble_append]
  obtain ⟨b, rest, h1, h2⟩ := assemble_head_ins ft (adv o0 pre).2 i post
  refine ⟨b, ?_, h2⟩
  rw [h1, posOf, List.getElem?_append_right (Nat.le_refl _)]
  simp

/-- a label item closes the block at its position and opens the next one -/
theorem lbl_at (t : Option Jump) (l : String) (ph : List Phi) :
    ∃ b b', (assemble ft o0 (pre ++ .lbl t l ph :: post))[(posOf o0 pre).1]? = some b ∧
      b.ins.size = (posOf o0 pre).2 ∧ b.term = t ∧ b.label = curOf o0 pre ∧
      (assemble ft o0 (pre ++ .lbl t l ph :: post))[(posOf o0 pre).1 + 1]? = some b' ∧
      b'.label = l ∧ b'.phis = ph := by
  rw [assemble_append]
  obtain ⟨b', rest, h1, h2, h3, _⟩ := assemble_head ft ⟨l, ph, #[]⟩ post
  refine ⟨⟨(adv o0 pre).2.label, (adv o0 pre).2.phis, (adv o0 pre).2.ins, t⟩, b', ?_, rfl, rfl, rfl,
    ?_, h2, h3⟩
  · rw [posOf, List.getElem?_append_right (Nat.le_refl _)]
    simp [assemble]
  · rw [posOf, List.getElem?_append_right (by omega)]
    simp [assemble, h1]

/-- after the last item the block ends with the final jump -/
theorem end_at :
    ∃ b, (assemble ft o0 pre)[(posOf o0 pre).1]? = some b ∧
      b.ins.size = (posOf o0 pre).2 ∧ b.term = some ft ∧ b.label = curOf o0 pre := by
  have := assemble_append ft o0 pre []
  rw [List.append_nil] at this
  rw [this]
  refine ⟨⟨(adv o0 pre).2.label, (adv o0 pre).2.phis, (adv o0 pre).2.ins, some ft⟩, ?_, rfl, rfl, rfl⟩
  rw [posOf, List.getElem?_append_right (Nat.le_refl _)]
  simp [assemble]

end Placement

theorem posOf_ins (o : Open) (pre : List Item) (i : Ins) :
    posOf o (pre ++ [.ins i]) = ((posOf o pre).1, (posOf o pre).2 + 1) := by
  simp [posOf, adv_append, adv]

theorem posOf_lbl (o : Open) (pre : List Item) (t : Option Jump) (l : String) (ph : List Phi) :
    posOf o (pre ++ [.lbl t l ph]) = ((posOf o pre).1 + 1, 0) := by
  simp [posOf, adv_append, adv]

theorem curOf_ins (o : Open) (pre : List Item) (i : Ins) :
    curOf o (pre ++ [.ins i]) = curOf o pre := by
  simp [curOf, adv_append, adv]

theorem curOf_lbl (o : Open) (pre : List Item) (t : Option Jump) (l : String) (ph : List Phi) :
    curOf o (pre ++ [.lbl t l ph]) = l := by
  simp [curOf, adv_append, adv]

/-- Labels of the blocks of an assembly. -/
def itemLabels : List Item → List String
  | [] => []
  | .ins _ :: r => itemLabels r
  | .lbl _ l _ :: r => l :: itemLabels r

theorem itemLabels_append (a b : List Item) : itemLabels (a ++ b) = itemLabels a ++ itemLabels b := by
  induction a with
  | nil => rfl
  | cons x a ih => cases x <;> simp [itemLabels, ih]

theorem assemble_labels (ft : Jump) (o : Open) (its : List Item) :
    (assemble ft o its).map (·.label) = o.label :: itemLabels its := by
  induction its generalizing o with
  | nil => rfl
  | cons x its ih =>
    cases x with
    | ins i => simp only [assemble, itemLabels]; exact ih _
    | lbl t l ph => simp only [assemble, itemLabels, List.map_cons]; rw [ih]

/-! ## Label lookup -/

def idxStep (blocks : Array Block) (h : Std.HashMap String Nat) (i : Nat) : Std.HashMap String Nat :=
  match blocks[i]? with
  | some b => h.insertIfNew b.label i
  | none => h

theorem idxStep_keep (blocks : Array Block) (h : Std.HashMap String Nat) (i : Nat) {l : String}
    {j : Nat} (hl : h[l]? = some j) : (idxStep blocks h i)[l]? = some j := by
  unfold idxStep
  cases hb : blocks[i]? with
  | none => exact hl
  | some b =>
    simp only [Std.HashMap.getElem?_insertIfNew]
    have hm : l ∈ h := by rw [Std.HashMap.mem_iff_isSome_getElem?, hl]; rfl
    rw [if_neg]
    · exact hl
    · rintro ⟨h1, h2⟩
      have : b.label = l := by simpa using h1
      subst this
      exact h2 hm

theorem foldl_keep (blocks : Array Block) (is : List Nat) (h : Std.HashMap String Nat) {l : String}
    {j : Nat} (hl : h[l]? = some j) : (is.foldl (idxStep blocks) h)[l]? = some j := by
  induction is generalizing h with
  | nil => exact hl
  | cons i is ih => exact ih _ (idxStep_keep blocks h i hl)

theorem foldl_first (blocks : Array Block) (pre post : List Nat) (j : Nat) (b : Block)
    (hb : blocks[j]? = some b)
    (hpre : ∀ i ∈ pre, ∀ bi, blocks[i]? = some bi → bi.label ≠ b.label)
    (h : Std.HashMap String Nat) (hl : h[b.label]? = none) :
    ((pre ++ j :: post).foldl (idxStep blocks) h)[b.label]? = some j := by
  induction pre generalizing h with
  | nil =>
    simp only [List.nil_append, List.foldl_cons]
    apply foldl_keep
    unfold idxStep
    rw [hb]
    simp only [Std.HashMap.getElem?_insertIfNew]
    have : ¬ b.label ∈ h := by rw [Std.HashMap.mem_iff_isSome_getElem?, hl]; simp
    simp [this]
  | cons i pre ih =>
    simp only [List.cons_append, List.foldl_cons]
    apply ih (fun k hk => hpre k (by simp [hk]))
    unfold idxStep
    cases hbi : blocks[i]? with
    | none => exact hl
    | some bi =>
      simp only [Std.HashMap.getElem?_insertIfNew]
      have := hpre i (by simp) bi hbi
      have hne : (bi.label == b.label) = false := by simpa using this
      simp [hne, hl]

/-- With pairwise different labels, a label is mapped to the index of its block. -/
theorem labelIdx_of_nodup (f : Qbe.Func) (hnd : (f.blocks.toList.map (·.label)).Nodup) {j : Nat}
    {b : Block} (hb : f.blocks[j]? = some b) : (mkLabelIdx f)[b.label]? = some j := by
  have hj : j < f.blocks.size := by
    rcases Nat.lt_or_ge j f.blocks.size with h | h
    · exact h
    · rw [Array.getElem?_eq_none h] at hb; cases hb
  have hfold : mkLabelIdx f = (List.range f.blocks.size).foldl (idxStep f.blocks) {} := rfl
  have hsplit : List.range f.blocks.size =
      List.range j ++ j :: List.range' (j + 1) (f.blocks.size - (j + 1)) := by
    have : f.blocks.size = j + (1 + (f.blocks.size - (j + 1))) := by omega
    rw [List.range_eq_range', List.range_eq_range']
    conv => lhs; rw [this]
    rw [← List.range'_append_1, ← List.range'_append_1]
    simp
  rw [hfold, hsplit]
  apply foldl_first _ _ _ _ _ hb _ _ (by simp)
  intro i hi bi hbi heq
  have hij : i < j := by simpa using hi
  have hi' : i < f.blocks.size := by omega
  have hnd' := List.pairwise_iff_getElem.1 hnd i j (by simp; omega) (by simp; omega) hij
  apply hnd'
  simp only [List.getElem_map, Array.getElem_toList]
  have e1 : f.blocks[i] = bi := by
    have := Array.getElem?_eq_getElem hi'
    rw [this] at hbi; exact Option.some.inj hbi
  have e2 : f.blocks[j] = b := by
    have := Array.getElem?_eq_getElem hj
    rw [this] at hb; exact Option.some.inj hb
  rw [e1, e2, heq]

/-! ## Single steps -/

/-- The parts of the machine state that do not change while the body of the function runs. -/
structure Fix where
  fi : FuncInfo
  sm : Nat
  spm : Nat
  rest : List Frame
  tr : Array String

def mkFr (x : Fix) (env : Env) (bi ii : Nat) : Frame :=
  { fi := x.fi, env := env, bi := bi, ii := ii, stackMark := x.sm, spMark := x.spm, va := none }

def mkSt (x : Fix) (env : Env) (M : Mem) (bi ii : Nat) : State :=
  ⟨mkFr x env bi ii :: x.rest, M, x.tr⟩

theorem readVals_one {p : Prog} {env : Env} {a : Val} {va : RVal} (ha : readVal p env a = .ok va) :
    readVals p env [a] = .ok [va] := by
  simp [readVals, ha]

theorem readVals_two {p : Prog} {env : Env} {a b : Val} {va vb : RVal}
    (ha : readVal p env a = .ok va) (hb : readVal p env b = .ok vb) :
    readVals p env [a, b] = .ok [va, vb] := by
  simp [readVals, ha, hb]

theorem readVal_int (p : Prog) (env : Env) (n : UInt64) : readVal p env (.int n) = .ok ⟨.c, n⟩ := rfl

theorem readVal_tmp {p : Prog} {env : Env} {n : String} {v : RVal} (h : env[n]? = some v) :
    readVal p env (.tmp n) = .ok v := by
  simp [readVal, h]

theorem step_op_res {p : Prog} {ext : Ext} (x : Fix) {env : Env} {M M' : Mem} {bi ii : Nat}
    {b : Block} {r : String} {k : Cls} {o : Op} {args : List Val} {vs : List RVal} {v : RVal}
    (hb : x.fi.f.blocks[bi]? = some b) (hi : b.ins[ii]? = some (.op (some (r, k)) o args))
    (hr : readVals p env args = .ok vs) (hx : execOp o (some k) vs M none = .ok (v, M')) :
    step p ext (mkSt x env M bi ii) = .next (mkSt x (env.insert r v) M' bi (ii + 1)) := by
  simp only [step, mkSt, mkFr, hb, hi, stepIns, hr, Option.map_some, hx, bindRes]

theorem step_op_nores {p : Prog} {ext : Ext} (x : Fix) {env : Env} {M M' : Mem} {bi ii : Nat}
    {b : Block} {o : Op} {args : List Val} {vs : List RVal} {v : RVal}
    (hb : x.fi.f.blocks[bi]? = some b) (hi : b.ins[ii]? = some (.op none o args))
    (hr : readVals p env args = .ok vs) (hx : execOp o none vs M none = .ok (v, M')) :
    step p ext (mkSt x env M bi ii) = .next (mkSt x env M' bi (ii + 1)) := by
  simp only [step, mkSt, mkFr, hb, hi, stepIns, hr, Option.map_none, hx, bindRes]

theorem ins_none_of_size {b : Block} {ii : Nat} (h : b.ins.size = ii) : b.ins[ii]? = none := by
  subst h; simp

/-- entering a block without phis -/
theorem goto_nophi {p : Prog} (x : Fix) {env : Env} {M : Mem} {bi ii : Nat} {cur tb : Block}
    {j : Nat} (htb : x.fi.f.blocks[j]? = some tb) (hph : tb.phis = []) :
    gotoBlock p (mkFr x env bi ii) x.rest M x.tr cur j = .next (mkSt x env M j 0) := by
  simp only [gotoBlock, mkFr, htb, hph, evalPhis, bindAll, mkSt]

/-- entering a block with one phi -/
theorem goto_phi {p : Prog} (x : Fix) {env : Env} {M : Mem} {bi ii : Nat} {cur tb : Block}
    {j : Nat} {res : String} {k : Cls} {srcs : List (String × Val)} {src : String × Val}
    {v v' : RVal}
    (htb : x.fi.f.blocks[j]? = some tb) (hph : tb.phis = [⟨res, k, srcs⟩])
    (hsrc : srcs.find? (fun s => s.1 == cur.label) = some src)
    (hv : readVal p env src.2 = .ok v) (hc : v.coerce k = .ok v') :
    gotoBlock p (mkFr x env bi ii) x.rest M x.tr cur j = .next (mkSt x (env.insert res v') M j 0) := by
  simp only [gotoBlock, mkFr, htb, hph, evalPhis, hsrc, hv, hc, bindAll, mkSt]

theorem step_fall {p : Prog} {ext : Ext} (x : Fix) {env : Env} {M : Mem} {bi ii : Nat} {b : Block}
    (hb : x.fi.f.blocks[bi]? = some b) (hi : b.ins.size = ii) (ht : b.term = none) :
    step p ext (mkSt x env M bi ii) =
      gotoBlock p (mkFr x env bi ii) x.rest M x.tr b (bi + 1) := by
  simp only [step, mkSt, mkFr, hb, ins_none_of_size hi, stepTerm, ht]

theorem step_jmp {p : Prog} {ext : Ext} (x : Fix) {env : Env} {M : Mem} {bi ii : Nat} {b : Block}
    {l : String} {j : Nat}
    (hb : x.fi.f.blocks[bi]? = some b) (hi : b.ins.size = ii) (ht : b.term = some (.jmp l))
    (hl : x.fi.labelIdx[l]? = some j) :
    step p ext (mkSt x env M bi ii) =
      gotoBlock p (mkFr x env bi ii) x.rest M x.tr b j := by
  simp only [step, mkSt, mkFr, hb, ins_none_of_size hi, stepTerm, ht, hl]

theorem step_jnz {p : Prog} {ext : Ext} (x : Fix) {env : Env} {M : Mem} {bi ii : Nat} {b : Block}
    {v : Val} {a z : String} {j : Nat} {c : RVal} {w : UInt64}
    (hb : x.fi.f.blocks[bi]? = some b) (hi : b.ins.size = ii) (ht : b.term = some (.jnz v a z))
    (hv : readVal p env v = .ok c) (hc : c.asW = .ok w)
    (hl : x.fi.labelIdx[if w != 0 then a else z]? = some j) :
    step p ext (mkSt x env M bi ii) =
      gotoBlock p (mkFr x env bi ii) x.rest M x.tr b j := by
  simp only [step, mkSt, mkFr, hb, ins_none_of_size hi, stepTerm, ht, hv, hc, hl]

end CprocVerif.LowerMach

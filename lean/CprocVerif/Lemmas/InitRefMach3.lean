import CprocVerif.Lemmas.InitRefMach2

/-!
# `hit`, `placeExpr`, `braceClear`, `closeBrace`, repeated `advance`; `parseItem` in pieces
-/

namespace CprocVerif.InitSim
open CprocVerif.Init CprocVerif.Image CprocVerif.InitRef

/-! ## `hit` -/

theorem hit_scalar {st : St} {size : Nat} {k : SK} (hty : (st.obj st.sub).ty = .scalar size k) (e : Expr) :
    hit st e = match convScalar size k e with
      | some v => .ok (.add v, st)
      | none => .error (.diag "exprassign: incompatible initializer") := by
  unfold hit
  rw [hty]
  cases e <;> rfl

theorem hit_str {st : St} {n es cls : Nat} {sg : Bool} (hty : (st.obj st.sub).ty = .array n (.scalar es (.int cls sg)))
    (hi : st.tinc st.sub = false) (w scls : Nat) (cs : List Nat) :
    hit st (.str w scls cs) =
      if !(isChar cls && isChar scls) && cls ≠ scls then
        .error (.diag "cannot initialize array with string literal of different width")
      else .ok (.add (.str w cs), st) := by
  unfold hit
  rw [hty, hi]
  simp

theorem hit_aggeq {st : St} {u : Bool} {tag size : Nat} {ms : Members} (hty : (st.obj st.sub).ty = .agg u tag size ms) :
    hit st (.agg tag) = .ok (.add .other, st) := by
  unfold hit
  rw [hty]
  simp

theorem hit_elide {st : St} {e : Expr} (h : elides (st.obj st.sub).ty e = true) : hit st e = .ok (.down, st) := by
  unfold hit
  cases hty : (st.obj st.sub).ty with
  | scalar s k => rw [hty] at h; simp [elides] at h
  | array n el =>
    rw [hty] at h
    cases el with
    | scalar es k =>
      cases k with
      | int cls sg => cases e <;> first | rfl | simp [elides] at h
      | _ => cases e <;> rfl
    | _ => cases e <;> rfl
  | agg u tag size ms =>
    rw [hty] at h
    cases e with
    | agg etag =>
      have : tag ≠ etag := by simpa [elides] using h
      simp [this]
    | _ => rfl

theorem elides_nonscalar {t : Ty} {e : Expr} (h : elides t e = true) : isScalarTy t = false := by
  cases t with
  | scalar s k => simp [elides] at h
  | _ => rfl

/-! ## `placeExpr` -/

/-- the expression branch of `parseItem` with the fuel of `placeExpr` as a parameter -/
def exprBody (pf : Nat) (st : St) (e : Expr) : Except Err St :=
  match placeExpr pf st e with
  | .error er => .error er
  | .ok st2 => .ok (if st2.tinc st2.sub then { st2 with inc := false } else st2)

theorem exprBody_zero (st : St) (e : Expr) (st' : St) : exprBody 0 st e ≠ .ok st' := by
  unfold exprBody; rw [placeExpr]; intro h; cases h

/-- the state after the `add:` label -/
def addSt (st : St) (b a : Nat) (v : Val) : St :=
  { st with
    il := st.il.add ⟨(st.obj st.sub).offset, (st.obj st.sub).offset + st.tsize st.sub, b, a, v⟩,
    log := st.log ++ [.add ⟨(st.obj st.sub).offset, (st.obj st.sub).offset + st.tsize st.sub, b, a, v⟩] }

theorem exprBody_add {st : St} {e : Expr} {v : Val} {b a : Nat} (pf : Nat) (hh : hit st e = .ok (.add v, st))
    (hb : curBits st = .ok (b, a)) (hp : Flat st st.sub) : exprBody (pf + 1) st e = .ok (addSt st b a v) := by
  unfold exprBody
  rw [placeExpr, hh]
  simp only [hb]
  have : ({ st with
      il := st.il.add ⟨(st.obj st.sub).offset, (st.obj st.sub).offset + st.tsize st.sub, b, a, v⟩,
      log := st.log ++ [.add ⟨(st.obj st.sub).offset, (st.obj st.sub).offset + st.tsize st.sub, b, a, v⟩] } : St).tinc st.sub
      = false := hp.tinc
  simp only [this]
  rfl

theorem exprBody_down {st : St} {e : Expr} (pf : Nat) (hh : hit st e = .ok (.down, st)) :
    exprBody (pf + 1) st e = match focus st with
      | .error er => .error er
      | .ok st2 => exprBody pf st2 e := by
  unfold exprBody
  rw [placeExpr, hh]
  simp only []
  cases focus st <;> rfl

/-! ## `parseItem` in pieces -/

/-- the `if (p.cur == p.sub) { …; focus(&p); }` after an opening brace -/
def entered (st1 : St) : Except Err St :=
  if st1.cur = some st1.sub then
    match (st1.obj st1.sub).ty with
    | .scalar _ _ => .error (.diag "nested braces around scalar initializer")
    | .array _ _ => focus st1
    | .agg _ _ _ _ => .error (.undef "assert(p.cur->type->kind == TYPEARRAY)")
  else .ok st1

/-- the `if (p.cur == p.sub && p.cur->type->kind == TYPEARRAY) focus(&p);` of an empty list -/
def enteredE (st1 : St) : Except Err St :=
  if st1.cur = some st1.sub then
    match (st1.obj st1.sub).ty with
    | .array _ _ => focus st1
    | _ => .ok st1
  else .ok st1

/-- `p.cur = p.sub; p.cur->iscur = true;`, the items of the list, the closing brace -/
def listBody (st2 : St) (its : Items) : Except Err St :=
  match parseItems ({ st2 with cur := some st2.sub }.setSlot st2.sub { st2.obj st2.sub with iscur := true }) its with
  | .error er => .error er
  | .ok st4 => .ok (closeBrace st4)

/-- `parseItem` after `preStep` -/
def itemBody (st1 : St) : Ini → Except Err St
  | .expr e => exprBody 34 st1 e
  | .list .nil =>
    match enteredE (braceClear st1) with
    | .error er => .error er
    | .ok st2 =>
      if st2.tinc st2.sub then .error (.diag "array of unknown size has empty initializer") else .ok st2
  | .list (.cons ds1 i1 rest) =>
    match entered (braceClear st1) with
    | .error er => .error er
    | .ok st2 => listBody st2 (.cons ds1 i1 rest)

theorem parseItem_eq (st : St) (ds : List Desig) (i : Ini) :
    parseItem st ds i = match preStep st ds with
      | .error er => .error er
      | .ok st1 => itemBody st1 i := by
  cases i with
  | expr e =>
    rw [parseItem]
    cases preStep st ds with
    | error er => rfl
    | ok st1 =>
      simp only [itemBody, exprBody]
      cases placeExpr 34 st1 e <;> rfl
  | list its =>
    cases its with
    | nil =>
      rw [parseItem]
      cases preStep st ds with
      | error er => rfl
      | ok st1 => rfl
    | cons ds1 i1 rest =>
      rw [parseItem]
      cases preStep st ds with
      | error er => rfl
      | ok st1 => rfl

def Run (st : St) (its : Items) (stf : St) : Prop := parseItems st its = .ok stf

theorem run_nil {st stf : St} (h : Run st .nil stf) : stf = st := by
  unfold Run at h; rw [parseItems] at h; cases h; rfl

theorem run_cons {st stf : St} {ds : List Desig} {i : Ini} {rest : Items} (h : Run st (.cons ds i rest) stf) :
    ∃ stp sta, preStep st ds = .ok stp ∧ itemBody stp i = .ok sta ∧ Run sta rest stf := by
  unfold Run at h
  rw [parseItems, parseItem_eq] at h
  cases hp : preStep st ds with
  | error er => rw [hp] at h; cases h
  | ok stp =>
    rw [hp] at h
    simp only [] at h
    cases hb : itemBody stp i with
    | error er => rw [hb] at h; cases h
    | ok sta => rw [hb] at h; exact ⟨stp, sta, rfl, hb, h⟩

/-! ## `braceClear`, `closeBrace` -/

theorem braceClear_clear {st : St} {c : Nat} (hc : st.cur = some c) (hp : Flat st st.sub)
    (hs : isScalarTy (st.obj st.sub).ty = false) :
    braceClear st = { st with
      il := st.il.clear (st.obj st.sub).offset ((st.obj st.sub).offset + (st.obj st.sub).ty.size),
      log := st.log ++ [.clear (st.obj st.sub).offset ((st.obj st.sub).offset + (st.obj st.sub).ty.size)] } := by
  unfold braceClear
  simp only [hc, hp.tinc, hp.tsize]
  cases hty : (st.obj st.sub).ty with
  | scalar s k => rw [hty] at hs; cases hs
  | array n e => simp
  | agg u t s m => simp

theorem braceClear_scalar {st : St} (hs : isScalarTy (st.obj st.sub).ty = true) : braceClear st = st := by
  unfold braceClear
  cases hty : (st.obj st.sub).ty with
  | scalar s k => simp [hty]
  | array n e => rw [hty] at hs; cases hs
  | agg u t s m => rw [hty] at hs; cases hs

theorem braceClear_nocur {st : St} (hc : st.cur = none) : braceClear st = st := by
  unfold braceClear
  simp [hc]

theorem closeBrace_eq {st : St} {c : Nat} (hc : st.cur = some c) (hp : st.tinc c = false) :
    closeBrace st = { st with sub := c, cur := prevCur st c } := by
  unfold closeBrace
  simp only [hc, Option.getD_some]
  have : ({ st with sub := c, cur := prevCur st c } : St).tinc c = false := hp
  simp only [this]
  rfl

/-- `cur` read off the `iscur` marks -/
theorem prevCur_curOK {st : St} (h : CurOK st) (hlt : ∀ c, st.cur = some c → c < st.sub) :
    prevCur st st.sub = st.cur := by
  unfold CurOK at h
  cases hc : st.cur with
  | none => rw [hc] at h; exact prevCur_none st _ h
  | some c => rw [hc] at h; exact prevCur_some st h.2.1 _ (hlt c hc) h.2.2

/-! ## levels that are used up -/

/-- slot `j` has no sub-object after the one its cursor stands at -/
def Exh (st : St) (j : Nat) : Prop :=
  ∃ pl pos ch, PlWf pl ∧ Lvl st j pl pos ch ∧ childAt pl (pos + 1) true = none

theorem Exh.frame {st st' : St} {j m : Nat} (h : Exh st j) (hf : Frame m st st') (hj : j < m) : Exh st' j := by
  obtain ⟨pl, pos, ch, hw, hl, hc⟩ := h
  exact ⟨pl, pos, ch, hw, hl.frame hf hj, hc⟩

/-- `advance` pops the slots that are used up -/
theorem advance_pops : ∀ (d : Nat) {st st' : St} {f k : Nat}, st.sub = k + 1 + d →
    (∀ j, k < j → j < st.sub → Exh st j) → advance f st = .ok st' →
    ∃ f1 st1, advance f1 st1 = .ok st' ∧ st1.sub = k + 1 ∧ Frame (k + 1) st st1 ∧ st1.log = st.log := by
  intro d
  induction d with
  | zero => intro st st' f k hs _ e; exact ⟨f, st, e, hs, Frame.refl _ _, rfl⟩
  | succ d ih =>
    intro st st' f k hs hex e
    cases f with
    | zero => rw [advance] at e; cases e
    | succ f =>
      obtain ⟨pl, pos, ch, hw, hl, hc⟩ := hex (k + 1 + d) (by omega) (by omega)
      obtain ⟨_, st1, e1, hs1, hf1, hl1, _, _⟩ := advance_pop (k := k + 1 + d) (by omega) (flat_pos st (by omega)) hw hl hc e
      obtain ⟨f2, st2, e2, hs2, hf2, hl2⟩ := ih (k := k) hs1
        (fun j h1 h2 => (hex j h1 (by omega)).frame hf1 (by omega)) e1
      exact ⟨f2, st2, e2, hs2, (hf1.mono (by omega)).trans hf2 (Nat.le_refl _), by rw [hl2, hl1]⟩

theorem curBits_congr {st st' : St} (hs : st'.sub = st.sub) (h : st.sub ≠ 0 → st'.obj (st.sub - 1) = st.obj (st.sub - 1)) :
    curBits st' = curBits st := by
  unfold curBits
  rw [hs]
  split
  · rfl
  · rename_i h0; rw [h h0]

end CprocVerif.InitSim

import CprocVerif.Lemmas.PPFunSim6

/-! # Arguments with macro names, part 1: the abstraction with paint marks, `LinkE`, and the
steps that start no invocation

With macro names inside arguments, a token that comes back from an argument can be a painted
macro name (`hide = true`): the abstraction must carry it (`mkHp`: `painted` = the token is
hidden and names a macro — identifiers that name no macro are hidden by the model and left
unpainted by the reference, to no effect).  The continuation of the source is arbitrary (`X`):
steps that start no invocation never look at it. -/

namespace CprocVerif.PP
open CprocVerif.Gen.TokenKinds
open CprocVerif.Spec.MacroRef (HTok Item PTok MacroDef RErr Flag expandH hsadd union pendItems lookup)
open CprocVerif.Spec

def isMac (ms0 : List Macro) (t : Tok) : Bool :=
  decide (t.kind = .TIDENT) && (macroget ms0 (t.lit.getD [])).isSome

def mkHp (ms0 : List Macro) (hs : List Name) (t : Tok) : HTok := ⟨toP t, hs, t.hide && isMac ms0 t⟩

def annHp (ms0 : List Macro) (L : List Name) (t : Tok) : HTok := mkHp ms0 L.reverse t

theorem mkHp_nohide (ms0 : List Macro) (hs : List Name) (t : Tok) (h : t.hide = false) : mkHp ms0 hs t = mkH hs t := by
  simp [mkHp, mkH, h]

/-- what the context stack will deliver, annotated, followed by `X` -/
def absX (ms0 : List Macro) (st : St) (X : List Item) : List Item :=
  (flatG (annHp ms0) st.macros st.ctx).map Item.tok ++ X

def eraseHs (t : HTok) : HTok := { t with hs := [] }

theorem eraseHs_mkHp (ms0 : List Macro) (hs : List Name) (t : Tok) : eraseHs (mkHp ms0 hs t) = mkHp ms0 [] t := rfl

/-- what is observable of a result of the reference when it is used as an argument: the tokens
with their paint marks (the hide sets are dropped on substitution), and the diagnostic -/
def outE (o : List HTok × Option RErr × List Flag) : List HTok × Option RErr := (o.1.map eraseHs, o.2.1)

def consE (t : HTok) (o : List HTok × Option RErr) : List HTok × Option RErr := (eraseHs t :: o.1, o.2)

theorem outE_flag (c : Bool) (x : Flag) (o : List HTok × Option RErr × List Flag) :
    outE (if c = true then (o.1, o.2.1, x :: o.2.2) else o) = outE o := by
  split <;> rfl

theorem outKeys_of_outE (o : List HTok × Option RErr × List Flag) :
    outKeys o = ((outE o).1.map (·.tok.key), (outE o).2) := by
  simp [outKeys, outE, List.map_map, Function.comp_def, eraseHs]

def LinkE (tbl : List MacroDef) (a : List Item) (out : List HTok) (b : List Item) : Prop :=
  ∃ J c, ∀ K, c ≤ K →
    outE (expandH false (K + J) tbl a) = (out ++ (outE (expandH false K tbl b)).1, (outE (expandH false K tbl b)).2)

theorem LinkE.refl (tbl : List MacroDef) (a : List Item) : LinkE tbl a [] a :=
  ⟨0, 0, fun K _ => rfl⟩

theorem LinkE.trans {tbl : List MacroDef} {a b c : List Item} {o1 o2 : List HTok}
    (h1 : LinkE tbl a o1 b) (h2 : LinkE tbl b o2 c) : LinkE tbl a (o1 ++ o2) c := by
  obtain ⟨J1, c1, H1⟩ := h1
  obtain ⟨J2, c2, H2⟩ := h2
  refine ⟨J2 + J1, max c1 c2, ?_⟩
  intro K hK
  rw [← Nat.add_assoc, H1 (K + J2) (by have := Nat.le_max_left c1 c2; omega), H2 K (by have := Nat.le_max_right c1 c2; omega)]
  simp [List.append_assoc]

theorem LinkE.of_eq {tbl : List MacroDef} {a b : List Item} (c : Nat)
    (h : ∀ K, c ≤ K → outE (expandH false (K + 1) tbl a) = outE (expandH false K tbl b)) : LinkE tbl a [] b :=
  ⟨1, c, fun K hK => by rw [h K hK]; rfl⟩

theorem LinkE.of_out {tbl : List MacroDef} {a b : List Item} (t : HTok)
    (h : ∀ K, outE (expandH false (K + 1) tbl a) = consE t (outE (expandH false K tbl b))) : LinkE tbl a [eraseHs t] b :=
  ⟨1, 0, fun K _ => by rw [h K]; rfl⟩

theorem LinkE.toLink {tbl : List MacroDef} {a b : List Item} {out : List HTok} (h : LinkE tbl a out b) :
    Link tbl a (out.map (·.tok.key)) b := by
  obtain ⟨J, c, H⟩ := h
  refine ⟨J, c, fun K hK => ?_⟩
  rw [outKeys_of_outE, H K hK, outKeys_of_outE]
  simp

/-- what `LinkE … out []` says outright -/
theorem LinkE.final {tbl : List MacroDef} {a : List Item} {L : List HTok} (h : LinkE tbl a L []) :
    ∃ J, ∀ K, J ≤ K → outE (expandH false K tbl a) = (L, none) := by
  obtain ⟨J, c, H⟩ := h
  refine ⟨c + 1 + J, ?_⟩
  intro K hK
  have := H (K - J) (by omega)
  rw [show K - J + J = K by omega] at this
  rw [this]
  have h1 : K - J = (K - J - 1) + 1 := by omega
  rw [h1, expandH]
  simp [outE]

/-- one step of the reference on a token that names no function-like macro -/
theorem expandH_stepE (tbl : List MacroDef) (K : Nat) (T : HTok) (rest : List Item)
    (hobj : ∀ m, lookup tbl (T.tok.lit.getD []) = some m → m.func = false) :
    outE (expandH false (K + 1) tbl (.tok T :: rest)) =
      if T.tok.kind ≠ .TIDENT ∨ T.painted = true then consE T (outE (expandH false K tbl rest))
      else match lookup tbl (T.tok.lit.getD []) with
        | none => consE T (outE (expandH false K tbl rest))
        | some m =>
          if T.hs.contains m.name then consE { T with painted := true } (outE (expandH false K tbl rest))
          else outE (expandH false K tbl
            ((MacroRef.respace (hsadd (union T.hs [m.name]) (m.body.map fun t => ⟨t, [], false⟩)) T.tok.space).1.map .tok ++
              pendItems (MacroRef.respace (hsadd (union T.hs [m.name]) (m.body.map fun t => ⟨t, [], false⟩)) T.tok.space).2 rest)) := by
  rw [expandH]
  by_cases hk : T.tok.kind ≠ .TIDENT ∨ T.painted = true
  · simp only [hk, ↓reduceIte]; rfl
  · simp only [hk, ↓reduceIte]
    cases hl : lookup tbl (T.tok.lit.getD []) with
    | none => rfl
    | some m =>
      have hf : m.func = false := hobj m hl
      simp only [hf, Bool.false_and, Bool.false_eq_true, ↓reduceIte, not_false_eq_true]
      split
      · rfl
      · exact outE_flag _ _ _

/-- what may sit on the context stack -/
def FlatP (ms0 : List Macro) (t : Tok) : Prop :=
  t.kind ≠ .TNEWLINE ∧ t.kind ≠ .TEOF ∧ ¬ IsFunName ms0 t

structure GoodP (ms0 : List Macro) (st : St) : Prop where
  stat : st.macros.map stat = ms0.map stat
  inv : InvC st.ctx st.macros st.depth
  wf : CtxWF st.macros st.ctx
  flatOk : ∀ t ∈ flat st.macros st.ctx, FlatP ms0 t
  /-- every token the stack will deliver sits in or above the frame of a macro under replacement -/
  live : ∀ L ∈ flatG (fun L _ => L) st.macros st.ctx, L ≠ []
  prag : st.prag = false
  ppnl : st.ppnl = false

theorem goodP_setrt {ms0 : List Macro} {st : St} (g : GoodP ms0 st) (b : Bool) (t : Tok) :
    GoodP ms0 { st with rb := b, rt := t } :=
  ⟨g.stat, g.inv, g.wf, g.flatOk, g.live, g.prag, g.ppnl⟩

theorem flatP_of_kh {ms0 : List Macro} {t b : Tok} (h : kh t = kh b) (hb : FlatP ms0 b) : FlatP ms0 t := by
  simp only [kh, Prod.mk.injEq] at h
  obtain ⟨h1, h2, _⟩ := h
  unfold FlatP IsFunName at *
  rw [h1, h2]
  exact hb

theorem flatP_of_kl {ms0 : List Macro} {t b : Tok} (h1 : t.kind = b.kind) (h2 : t.lit = b.lit) (hb : FlatP ms0 b) :
    FlatP ms0 t := by
  unfold FlatP IsFunName at *
  rw [h1, h2]
  exact hb

theorem isMac_stat {ms ms0 : List Macro} (h : ms.map stat = ms0.map stat) (t : Tok) (hk : t.kind = .TIDENT) :
    isMac ms0 t = (macroget ms (t.lit.getD [])).isSome := by
  unfold isMac
  simp only [hk, decide_true, Bool.true_and]
  cases hm : macroget ms (t.lit.getD []) with
  | none => rw [macroget_stat_none h hm]
  | some m =>
    obtain ⟨m0, hm0, _⟩ := macroget_stat_some h hm
    rw [hm0]; rfl

end CprocVerif.PP

import CprocVerif.Lemmas.PPPre1
import CprocVerif.Lemmas.PPFunExact

/-! # Function-like macros with `#`: the class, and lazy substitution against `subst`, exactly

`SimpleFunS`: as `SimpleFun`, but the replacement list may hold `# parameter` (as `define` accepts
it: `HashFollowed`); no parameter is used both with `#` and outside (the recorded finding
stringize-nested-call lives there). -/

namespace CprocVerif.PP
open CprocVerif.Gen.TokenKinds
open CprocVerif.Spec.MacroRef (HTok Item PTok MacroDef RErr Flag Elem expandH hsadd union pendItems lookup
  subst elems paramIndex)
open CprocVerif.Spec

/-- the occurrences of parameters in a replacement list: (index, behind `#`?) -/
def uses (ps : List Param) : List Tok → List (Nat × Bool)
  | [] => []
  | [t] =>
    if t.kind = .TIDENT then
      match macroparam ps t with
      | some i => [(i, false)]
      | none => []
    else []
  | t :: u :: r =>
    if t.kind = .THASH then
      match macroparam ps u with
      | some i => (i, true) :: uses ps r
      | none => uses ps (u :: r)
    else if t.kind = .TIDENT then
      match macroparam ps t with
      | some i => (i, false) :: uses ps (u :: r)
      | none => uses ps (u :: r)
    else uses ps (u :: r)

structure SimpleFunS (F : Macro) : Prop where
  func : F.func = true
  nonempty : 0 < F.params.length
  novar : ∀ p ∈ F.params, p.fvar = false
  hashF : HashFollowed F.params F.body
  ftok : ∀ i, (i, false) ∈ uses F.params F.body → (F.params.getD i default).ftok = true
  fstr : ∀ i, (i, true) ∈ uses F.params F.body → (F.params.getD i default).fstr = true
  excl : ∀ p ∈ F.params, ¬ (p.ftok = true ∧ p.fstr = true)

theorem simpleFunS_of_stat {m m' : Macro} (h : stat m' = stat m) (hs : SimpleFunS m) : SimpleFunS m' := by
  simp only [stat, Prod.mk.injEq] at h
  obtain ⟨_, h2, h3, h4⟩ := h
  exact ⟨by rw [h2]; exact hs.func, by rw [h3]; exact hs.nonempty, by rw [h3]; exact hs.novar,
    by rw [h3, h4]; exact hs.hashF, by rw [h3, h4]; exact hs.ftok, by rw [h3, h4]; exact hs.fstr,
    by rw [h3]; exact hs.excl⟩

/-- one-step facts about `uses` -/
theorem uses_plain (ps : List Param) (t : Tok) (more : List Tok) (hh : t.kind ≠ .THASH)
    (hp : t.kind = .TIDENT → macroparam ps t = none) : uses ps (t :: more) = uses ps more := by
  cases more with
  | nil =>
    unfold uses
    by_cases hk : t.kind = .TIDENT
    · simp [hk, hp hk, uses]
    · simp [hk, uses]
  | cons u r =>
    rw [uses]
    by_cases hk : t.kind = .TIDENT
    · simp [hh, hk, hp hk]
    · simp [hh, hk]

theorem uses_param (ps : List Param) (t : Tok) (more : List Tok) (i : Nat) (hk : t.kind = .TIDENT)
    (hp : macroparam ps t = some i) : uses ps (t :: more) = (i, false) :: uses ps more := by
  have hh : t.kind ≠ .THASH := by rw [hk]; decide
  cases more with
  | nil => unfold uses; simp [hk, hp, uses]
  | cons u r => rw [uses]; simp [hh, hk, hp]

theorem uses_hash (ps : List Param) (t u : Tok) (r : List Tok) (i : Nat) (hh : t.kind = .THASH)
    (hp : macroparam ps u = some i) : uses ps (t :: u :: r) = (i, true) :: uses ps r := by
  rw [uses]; simp [hh, hp]

/-- the shape of a replacement list that `define` accepts: its head -/
inductive Head (ps : List Param) : List Tok → Prop where
  | plain (t : Tok) (more : List Tok) (hh : t.kind ≠ .THASH) (hp : t.kind = .TIDENT → macroparam ps t = none)
      (ht : HashFollowed ps more) : Head ps (t :: more)
  | param (t : Tok) (more : List Tok) (i : Nat) (hk : t.kind = .TIDENT) (hp : macroparam ps t = some i)
      (ht : HashFollowed ps more) : Head ps (t :: more)
  | hash (t u : Tok) (r : List Tok) (i : Nat) (hh : t.kind = .THASH) (hp : macroparam ps u = some i)
      (ht : HashFollowed ps r) : Head ps (t :: u :: r)

theorem head_of_hashFollowed {ps : List Param} : ∀ {t : Tok} {more : List Tok}, HashFollowed ps (t :: more) →
    Head ps (t :: more) := by
  intro t more h
  by_cases hh : t.kind = .THASH
  · cases more with
    | nil => exact absurd hh h
    | cons u r =>
      unfold HashFollowed at h
      simp only [hh, ↓reduceIte] at h
      cases hp : macroparam ps u with
      | none => rw [hp] at h; simp at h
      | some i => exact .hash t u r i hh hp h.2
  · have htail := hashFollowed_tail h hh
    by_cases hk : t.kind = .TIDENT
    · cases hp : macroparam ps t with
      | none => exact .plain t more hh (fun _ => hp) htail
      | some i => exact .param t more i hk hp htail
    · exact .plain t more hh (fun h' => absurd h' hk) htail


theorem elems_cons_plain (md : MacroDef) (t : PTok) (rest : List PTok) (hh : t.kind ≠ .THASH) :
    elems md (t :: rest) = MacroRef.elemOf md t :: elems md rest := by
  cases rest with
  | nil => simp [elems]
  | cons p r =>
    rw [elems]
    simp only [hh, and_false, ↓reduceIte]

theorem elems_cons_hash (md : MacroDef) (hf : md.func = true) (t u : PTok) (r : List PTok) (i : Nat)
    (hh : t.kind = .THASH) (hp : paramIndex md u = some i) :
    elems md (t :: u :: r) = .str i t.space :: elems md r := by
  rw [elems]
  simp only [hf, hh, and_self, ↓reduceIte, hp]

/-- **lazy substitution against `subst`, exactly**, with `# parameter` and painted argument tokens -/
theorem substBody_exactS (ms0 : List Macro) (m : Macro) (md : MacroDef) (hf : md.func = true)
    (hidx : ∀ t : Tok, paramIndex md (toP t) = macroparam m.params t)
    (raw full : Nat → List HTok) :
    ∀ (n : Nat) (body : List Tok), body.length ≤ n → HashFollowed m.params body → (∀ t ∈ body, t.hide = false) →
      (∀ i, (i, false) ∈ uses m.params body →
        ((m.args.getD i default).toks).map (mkHp ms0 []) = full i ∧ (m.args.getD i default).toks ≠ []) →
      (∀ i, (i, true) ∈ uses m.params body → ∀ sp, mkHp ms0 [] { (m.args.getD i default).str with space := sp } =
        ⟨{ MacroRef.stringizeRef ((raw i).map (·.tok)) with space := sp || false }, [], false⟩) →
      (substBody m body).map (mkHp ms0 []) = subst raw full (elems md (body.map toP)) false := by
  intro n
  induction n with
  | zero =>
    intro body hl _ _ _ _
    have : body = [] := List.length_eq_zero_iff.mp (by omega)
    subst this
    simp [substBody, elems, subst]
  | succ n ih =>
    intro body hl hH hhide hplain hstr
    cases body with
    | nil => simp [substBody, elems, subst]
    | cons t more =>
      have hth : t.hide = false := hhide t (List.mem_cons_self ..)
      have hkey : mkHp ms0 [] t = ⟨{ toP t with space := (toP t).space || false }, [], false⟩ := by
        simp [mkHp, toP, hth]
      cases head_of_hashFollowed hH with
      | plain _ _ hh hp ht =>
        have hr := ih more (by simp at hl; omega) ht (fun x hx => hhide x (List.mem_cons_of_mem _ hx))
          (fun i hi => hplain i (by rw [uses_plain _ _ _ hh hp]; exact hi))
          (fun i hi => hstr i (by rw [uses_plain _ _ _ hh hp]; exact hi))
        rw [substBody_plain m t more hh hp, List.map_cons, List.map_cons, elems_cons_plain md (toP t) _ hh, hr]
        have hel : MacroRef.elemOf md (toP t) = .tok (toP t) := by
          unfold MacroRef.elemOf
          simp only [hf, ↓reduceIte, hidx]
          by_cases hk : t.kind = .TIDENT
          · rw [hp hk]
          · have : macroparam m.params t = none := by unfold macroparam; simp [hk]
            rw [this]
        rw [hel]
        simp only [subst]
        rw [hkey]
      | param _ _ i hk hp ht =>
        have hh : t.kind ≠ .THASH := by rw [hk]; decide
        have hr := ih more (by simp at hl; omega) ht (fun x hx => hhide x (List.mem_cons_of_mem _ hx))
          (fun j hj => hplain j (by rw [uses_param _ _ _ i hk hp]; exact List.mem_cons_of_mem _ hj))
          (fun j hj => hstr j (by rw [uses_param _ _ _ i hk hp]; exact List.mem_cons_of_mem _ hj))
        obtain ⟨h1, h2⟩ := hplain i (by rw [uses_param _ _ _ i hk hp]; exact List.mem_cons_self ..)
        have hne : full i ≠ [] := by
          rw [← h1]; intro hh'; exact h2 (List.map_eq_nil_iff.mp hh')
        rw [substBody_param m t more i hk hp, List.map_append, List.map_cons, elems_cons_plain md (toP t) _ hh, hr]
        have hel : MacroRef.elemOf md (toP t) = .param i (toP t).space := by
          unfold MacroRef.elemOf
          simp only [hf, ↓reduceIte, hidx, hp]
        rw [hel]
        simp only [subst, Bool.or_false]
        have hmr : (respace (m.args.getD i default).toks t.space).map (mkHp ms0 []) =
            (MacroRef.respace (full i) (toP t).space).1 := by
          rw [← h1]
          cases (m.args.getD i default).toks <;> simp [respace, MacroRef.respace, mkHp, toP, isMac]
        rw [hmr, respace_snd_of_ne_nil _ hne]
      | hash _ u r i hh hp ht =>
        have hr := ih r (by simp at hl; omega) ht
          (fun x hx => hhide x (List.mem_cons_of_mem _ (List.mem_cons_of_mem _ hx)))
          (fun j hj => hplain j (by rw [uses_hash _ _ _ _ i hh hp]; exact List.mem_cons_of_mem _ hj))
          (fun j hj => hstr j (by rw [uses_hash _ _ _ _ i hh hp]; exact List.mem_cons_of_mem _ hj))
        have hs := hstr i (by rw [uses_hash _ _ _ _ i hh hp]; exact List.mem_cons_self ..) t.space
        rw [substBody_hash m t u r i hh hp, List.map_cons, List.map_cons, List.map_cons,
          elems_cons_hash md hf (toP t) (toP u) _ i hh (by rw [hidx]; exact hp), hr]
        simp only [subst]
        rw [hs]
        rfl


theorem macroparam_space (ps : List Param) (t : Tok) (sp : Bool) :
    macroparam ps { t with space := sp } = macroparam ps t := rfl

theorem hashFollowed_respace {ps : List Param} {body : List Tok} (sp : Bool) (h : HashFollowed ps body) :
    HashFollowed ps (respace body sp) := by
  cases body with
  | nil => exact h
  | cons t more =>
    cases more with
    | nil => exact h
    | cons u r => unfold respace; unfold HashFollowed at h ⊢; exact h

theorem uses_respace (ps : List Param) (body : List Tok) (sp : Bool) : uses ps (respace body sp) = uses ps body := by
  cases body with
  | nil => rfl
  | cons t more =>
    cases more with
    | nil => unfold respace uses; rfl
    | cons u r => unfold respace; rw [uses, uses]; rfl

theorem substBody_respace_exactS (m : Macro) (body : List Tok) (sp : Bool) (hH : HashFollowed m.params body)
    (hne : ∀ i, (i, false) ∈ uses m.params body → (m.args.getD i default).toks ≠ []) :
    substBody m (respace body sp) = respace (substBody m body) sp := by
  cases body with
  | nil => rfl
  | cons t more =>
    cases head_of_hashFollowed hH with
    | plain _ _ hh hp ht =>
      show substBody m ({ t with space := sp } :: more) = _
      rw [substBody_plain m { t with space := sp } more hh hp, substBody_plain m t more hh hp]
      rfl
    | param _ _ i hk hp ht =>
      show substBody m ({ t with space := sp } :: more) = _
      rw [substBody_param m { t with space := sp } more i hk hp, substBody_param m t more i hk hp]
      have := hne i (by rw [uses_param _ _ _ i hk hp]; exact List.mem_cons_self ..)
      cases ha : (m.args.getD i default).toks with
      | nil => exact absurd ha this
      | cons a as => simp [respace]
    | hash _ u r i hh hp ht =>
      show substBody m ({ t with space := sp } :: u :: r) = _
      rw [substBody_hash m { t with space := sp } u r i hh hp, substBody_hash m t u r i hh hp]
      rfl

theorem substBody_ne_nilS (m : Macro) (body : List Tok) (hb : body ≠ []) (hH : HashFollowed m.params body)
    (hne : ∀ i, (i, false) ∈ uses m.params body → (m.args.getD i default).toks ≠ []) : substBody m body ≠ [] := by
  cases body with
  | nil => exact absurd rfl hb
  | cons t more =>
    cases head_of_hashFollowed hH with
    | plain _ _ hh hp ht => rw [substBody_plain m t more hh hp]; simp
    | param _ _ i hk hp ht =>
      rw [substBody_param m t more i hk hp]
      have := hne i (by rw [uses_param _ _ _ i hk hp]; exact List.mem_cons_self ..)
      cases ha : (m.args.getD i default).toks with
      | nil => exact absurd ha this
      | cons a as => simp [respace]
    | hash _ u r i hh hp ht => rw [substBody_hash m t u r i hh hp]; simp

theorem substBody_memS (m : Macro) : ∀ (n : Nat) (body : List Tok), body.length ≤ n → HashFollowed m.params body →
    ∀ x ∈ substBody m body, (∃ b ∈ body, kh x = kh b) ∨
      (∃ i, (i, false) ∈ uses m.params body ∧ ∃ a ∈ (m.args.getD i default).toks, kh x = kh a) ∨
      (∃ i, (i, true) ∈ uses m.params body ∧ x.kind = (m.args.getD i default).str.kind ∧
        x.lit = (m.args.getD i default).str.lit ∧ x.hide = (m.args.getD i default).str.hide) := by
  intro n
  induction n with
  | zero =>
    intro body hl _ x hx
    have : body = [] := List.length_eq_zero_iff.mp (by omega)
    subst this
    simp [substBody] at hx
  | succ n ih =>
    intro body hl hH x hx
    cases body with
    | nil => simp [substBody] at hx
    | cons t more =>
      cases head_of_hashFollowed hH with
      | plain _ _ hh hp ht =>
        rw [substBody_plain m t more hh hp] at hx
        rcases List.mem_cons.mp hx with rfl | hx
        · exact .inl ⟨x, List.mem_cons_self .., rfl⟩
        · rcases ih more (by simp at hl; omega) ht x hx with ⟨b, hb, hbe⟩ | ⟨i, hi, hr⟩ | ⟨i, hi, hr⟩
          · exact .inl ⟨b, List.mem_cons_of_mem _ hb, hbe⟩
          · exact .inr (.inl ⟨i, by rw [uses_plain _ _ _ hh hp]; exact hi, hr⟩)
          · exact .inr (.inr ⟨i, by rw [uses_plain _ _ _ hh hp]; exact hi, hr⟩)
      | param _ _ i hk hp ht =>
        rw [substBody_param m t more i hk hp] at hx
        rcases List.mem_append.mp hx with hx | hx
        · obtain ⟨a, ha, hae⟩ := mem_respace_kh hx
          exact .inr (.inl ⟨i, by rw [uses_param _ _ _ i hk hp]; exact List.mem_cons_self .., a, ha, hae⟩)
        · rcases ih more (by simp at hl; omega) ht x hx with ⟨b, hb, hbe⟩ | ⟨j, hj, hr⟩ | ⟨j, hj, hr⟩
          · exact .inl ⟨b, List.mem_cons_of_mem _ hb, hbe⟩
          · exact .inr (.inl ⟨j, by rw [uses_param _ _ _ i hk hp]; exact List.mem_cons_of_mem _ hj, hr⟩)
          · exact .inr (.inr ⟨j, by rw [uses_param _ _ _ i hk hp]; exact List.mem_cons_of_mem _ hj, hr⟩)
      | hash _ u r i hh hp ht =>
        rw [substBody_hash m t u r i hh hp] at hx
        rcases List.mem_cons.mp hx with rfl | hx
        · exact .inr (.inr ⟨i, by rw [uses_hash _ _ _ _ i hh hp]; exact List.mem_cons_self .., rfl, rfl, rfl⟩)
        · rcases ih r (by simp at hl; omega) ht x hx with ⟨b, hb, hbe⟩ | ⟨j, hj, hr'⟩ | ⟨j, hj, hr'⟩
          · exact .inl ⟨b, List.mem_cons_of_mem _ (List.mem_cons_of_mem _ hb), hbe⟩
          · exact .inr (.inl ⟨j, by rw [uses_hash _ _ _ _ i hh hp]; exact List.mem_cons_of_mem _ hj, hr'⟩)
          · exact .inr (.inr ⟨j, by rw [uses_hash _ _ _ _ i hh hp]; exact List.mem_cons_of_mem _ hj, hr'⟩)

/-- a parameter element of the reference's replacement list is a plain occurrence -/
theorem elems_param_uses (m : Macro) (md : MacroDef) (hf : md.func = true)
    (hidx : ∀ t : Tok, paramIndex md (toP t) = macroparam m.params t) :
    ∀ (n : Nat) (body : List Tok), body.length ≤ n → HashFollowed m.params body → ∀ (i : Nat) (sp : Bool),
    Elem.param i sp ∈ elems md (body.map toP) → (i, false) ∈ uses m.params body := by
  intro n
  induction n with
  | zero =>
    intro body hl _ i sp h
    have : body = [] := List.length_eq_zero_iff.mp (by omega)
    subst this
    simp [elems] at h
  | succ n ih =>
    intro body hl hH i sp h
    cases body with
    | nil => simp [elems] at h
    | cons t more =>
      cases head_of_hashFollowed hH with
      | plain _ _ hh hp ht =>
        rw [List.map_cons, elems_cons_plain md (toP t) _ hh] at h
        rw [uses_plain _ _ _ hh hp]
        rcases List.mem_cons.mp h with h | h
        · exfalso
          unfold MacroRef.elemOf at h
          simp only [hf, ↓reduceIte, hidx] at h
          by_cases hk : t.kind = .TIDENT
          · rw [hp hk] at h; cases h
          · have : macroparam m.params t = none := by unfold macroparam; simp [hk]
            rw [this] at h; cases h
        · exact ih more (by simp at hl; omega) ht i sp h
      | param _ _ j hk hp ht =>
        have hh : t.kind ≠ .THASH := by rw [hk]; decide
        rw [List.map_cons, elems_cons_plain md (toP t) _ hh] at h
        rw [uses_param _ _ _ j hk hp]
        rcases List.mem_cons.mp h with h | h
        · unfold MacroRef.elemOf at h
          simp only [hf, ↓reduceIte, hidx, hp] at h
          cases h
          exact List.mem_cons_self ..
        · exact List.mem_cons_of_mem _ (ih more (by simp at hl; omega) ht i sp h)
      | hash _ u r j hh hp ht =>
        rw [List.map_cons, List.map_cons, elems_cons_hash md hf (toP t) (toP u) _ j hh (by rw [hidx]; exact hp)] at h
        rw [uses_hash _ _ _ _ j hh hp]
        rcases List.mem_cons.mp h with h | h
        · cases h
        · exact List.mem_cons_of_mem _ (ih r (by simp at hl; omega) ht i sp h)


/-- the static class of macro tables, with `#`: as `TblOK`, function-like macros are `SimpleFunS` -/
structure TblOKS (ms0 : List Macro) : Prop where
  names : (ms0.map (·.name)).Nodup
  bodyNe : ∀ m ∈ ms0, m.body ≠ []
  bodyOk : ∀ m ∈ ms0, ∀ t ∈ m.body, okKind t ∧ ¬ IsFunName ms0 t
  func : ∀ m ∈ ms0, m.func = true → SimpleFunS m

def hashFollowedb (ps : List Param) : List Tok → Bool
  | [] => true
  | [t] => decide (t.kind ≠ .THASH)
  | t :: u :: r =>
    if t.kind = .THASH then (macroparam ps u).isSome && hashFollowedb ps r else hashFollowedb ps (u :: r)

theorem hashFollowed_of_b (ps : List Param) : ∀ l : List Tok, hashFollowedb ps l = true → HashFollowed ps l
  | [], _ => trivial
  | [t], h => by unfold hashFollowedb at h; unfold HashFollowed; simpa using h
  | t :: u :: r, h => by
    unfold hashFollowedb at h
    unfold HashFollowed
    by_cases hh : t.kind = .THASH
    · rw [if_pos hh] at h ⊢
      simp only [Bool.and_eq_true] at h
      exact ⟨h.1, hashFollowed_of_b ps r h.2⟩
    · rw [if_neg hh] at h ⊢
      exact hashFollowed_of_b ps (u :: r) h

def simpleFunSb (F : Macro) : Bool :=
  F.func && decide (0 < F.params.length) && F.params.all (fun p => !p.fvar) && hashFollowedb F.params F.body &&
  (uses F.params F.body).all (fun x => if x.2 then (F.params.getD x.1 default).fstr else (F.params.getD x.1 default).ftok) &&
  F.params.all (fun p => !(p.ftok && p.fstr))

theorem simpleFunS_of_b {F : Macro} (h : simpleFunSb F = true) : SimpleFunS F := by
  unfold simpleFunSb at h
  simp only [Bool.and_eq_true, List.all_eq_true, decide_eq_true_eq, Bool.not_eq_true'] at h
  obtain ⟨⟨⟨⟨⟨h1, h2⟩, h3⟩, h4⟩, h5⟩, h6⟩ := h
  refine ⟨h1, h2, h3, hashFollowed_of_b _ _ h4, ?_, ?_, ?_⟩
  · intro i hi; have := h5 (i, false) hi; simpa using this
  · intro i hi; have := h5 (i, true) hi; simpa using this
  · intro p hp hh
    have := h6 p hp
    rw [hh.1, hh.2] at this
    cases this

def macOKSb (ms0 : List Macro) (m : Macro) : Bool :=
  !m.body.isEmpty && m.body.all (tokOKb ms0) && (!m.func || simpleFunSb m)

/-- executable test for `TblOKS` -/
def tblOKSb (ms0 : List Macro) : Bool := decide (ms0.map (·.name)).Nodup && ms0.all (macOKSb ms0)

theorem tblOKS_of_b {ms0 : List Macro} (h : tblOKSb ms0 = true) : TblOKS ms0 := by
  unfold tblOKSb at h
  simp only [Bool.and_eq_true, decide_eq_true_eq, List.all_eq_true] at h
  obtain ⟨h1, h2⟩ := h
  refine ⟨h1, ?_, ?_, ?_⟩
  · intro m hm
    have := h2 m hm
    unfold macOKSb at this
    simp only [Bool.and_eq_true, Bool.not_eq_true', List.isEmpty_eq_false_iff] at this
    exact this.1.1
  · intro m hm t ht
    have := h2 m hm
    unfold macOKSb at this
    simp only [Bool.and_eq_true, List.all_eq_true] at this
    have h3 := this.1.2 t ht
    unfold tokOKb at h3
    simp only [Bool.and_eq_true, decide_eq_true_eq, Bool.not_eq_true'] at h3
    refine ⟨⟨h3.1.1.1, h3.1.1.2, h3.1.2⟩, ?_⟩
    intro hf
    have := (isFunNameb_iff ms0 t).mpr hf
    rw [h3.2] at this; cases this
  · intro m hm hf
    have := h2 m hm
    unfold macOKSb at this
    simp only [Bool.and_eq_true, Bool.or_eq_true, Bool.not_eq_true', hf] at this
    rcases this.2 with h | h
    · cases h
    · exact simpleFunS_of_b h

end CprocVerif.PP

import CprocVerif.Lemmas.InitImage

/-!
# Lemmas about `emitdata`, part 1: well-formed initialisers, byte lists, `collapse`
-/

namespace CprocVerif.Image
open CprocVerif.Init

/-- What `parseinit` produces for an object of `size` bytes (and `emitdata` relies on):
a non-empty bit range inside the object; a bit-field is an integer in a storage unit of at most 8
bytes; every other value occupies whole bytes and has the size of its range. -/
structure Wf (size : Nat) (i : Init) : Prop where
  ne : i.lo < i.hi
  inside : i.stop ≤ size
  shape : match i.val with
    | .int w _ => (i.before = 0 ∧ i.after = 0 → w = i.stop - i.start) ∧
        (i.before ≠ 0 ∨ i.after ≠ 0 → i.stop - i.start ≤ 8)
    | .flt w _ => i.before = 0 ∧ i.after = 0 ∧ w = i.stop - i.start
    | .addr _ _ => i.before = 0 ∧ i.after = 0 ∧ i.stop - i.start = 8
    | .str w _ => i.before = 0 ∧ i.after = 0 ∧ (w = 1 ∨ w = 2 ∨ w = 4) ∧ (i.stop - i.start) % w = 0
    | .other => False

theorem Wf.nonEmpty {size : Nat} {i : Init} (h : Wf size i) : NonEmpty i := h.ne

theorem Wf.byteVal {size : Nat} {i : Init} (h : Wf size i) : ByteVal i := by
  have := h.shape
  unfold ByteVal
  cases hv : i.val <;> rw [hv] at this <;> simp only [] at this ⊢
  · exact ⟨this.1, this.2.1⟩
  · exact ⟨this.1, this.2.1⟩
  · exact ⟨this.1, this.2.1⟩

/-! ## bytes of numbers -/

theorem testBit_div_mod (u m k : Nat) :
    (u / 2 ^ (8 * m) % 256).testBit k = (decide (k < 8) && u.testBit (8 * m + k)) := by
  rw [show (256 : Nat) = 2 ^ 8 from rfl, Nat.testBit_mod_two_pow, Nat.testBit_div_two_pow, Nat.add_comm]

theorem byte_lt (u m : Nat) : u / 2 ^ (8 * m) % 256 < 256 := Nat.mod_lt _ (by omega)

theorem ofBits_shift (u m : Nat) : ofBits 8 (fun k => u.testBit (8 * m + k)) = u / 2 ^ (8 * m) % 256 := by
  apply Nat.eq_of_testBit_eq
  intro k
  rw [testBit_ofBits, testBit_div_mod]

theorem mod_div_mod {u w m : Nat} (h : m < w) : u % 2 ^ (8 * w) / 2 ^ (8 * m) % 256 = u / 2 ^ (8 * m) % 256 := by
  apply Nat.eq_of_testBit_eq
  intro k
  rw [testBit_div_mod, testBit_div_mod, Nat.testBit_mod_two_pow]
  by_cases hk : k < 8
  · have : 8 * m + k < 8 * w := by omega
    simp [hk, this]
  · simp [hk]

theorem length_leBytes (v n : Nat) : (leBytes v n).length = n := by
  induction n generalizing v with
  | zero => rfl
  | succ n ih => simp [leBytes, ih]

theorem getElem?_leBytes {v n k : Nat} (h : k < n) :
    (leBytes v n)[k]? = some (.byte (v / 2 ^ (8 * k) % 256)) := by
  induction n generalizing v k with
  | zero => omega
  | succ n ih =>
    unfold leBytes
    cases k with
    | zero => simp
    | succ k =>
      rw [List.getElem?_cons_succ, ih (by omega)]
      congr 2
      rw [Nat.div_div_eq_div_mul, show 8 * (k + 1) = 8 + 8 * k by omega, Nat.pow_add]

theorem length_relCells (s : String) (a k n : Nat) : (relCells s a k n).length = n := by
  induction n generalizing k with
  | zero => rfl
  | succ n ih => simp [relCells, ih]

theorem getElem?_relCells {s : String} {a k0 n k : Nat} (h : k < n) :
    (relCells s a k0 n)[k]? = some (.rel s a (k0 + k)) := by
  induction n generalizing k0 k with
  | zero => omega
  | succ n ih =>
    unfold relCells
    cases k with
    | zero => simp
    | succ k => rw [List.getElem?_cons_succ, ih (by omega)]; congr 2; omega

/-- the bytes of a sequence of `w`-byte elements -/
theorem length_flatMap_leBytes (cs : List Nat) (w : Nat) :
    (cs.flatMap (fun c => leBytes c w)).length = cs.length * w := by
  induction cs with
  | nil => simp
  | cons c cs ih => simp [List.flatMap_cons, length_leBytes, ih, Nat.succ_mul]; omega

theorem getElem?_flatMap_leBytes {cs : List Nat} {w k : Nat} (hw : 0 < w) (h : k < cs.length * w) :
    (cs.flatMap (fun c => leBytes c w))[k]? = some (.byte (cs.getD (k / w) 0 / 2 ^ (8 * (k % w)) % 256)) := by
  induction cs generalizing k with
  | nil => simp at h
  | cons c cs ih =>
    rw [List.flatMap_cons]
    by_cases hk : k < w
    · rw [List.getElem?_append_left (by rw [length_leBytes]; exact hk), getElem?_leBytes hk]
      rw [Nat.div_eq_of_lt hk, Nat.mod_eq_of_lt hk]
      rfl
    · rw [List.getElem?_append_right (by rw [length_leBytes]; omega), length_leBytes]
      have hlen : k - w < cs.length * w := by
        simp only [List.length_cons, Nat.succ_mul] at h; omega
      rw [ih hlen]
      have h1 : k / w = (k - w) / w + 1 := by
        rw [← Nat.sub_add_cancel (Nat.le_of_not_lt hk), Nat.add_div_right _ hw]; simp
      have h2 : k % w = (k - w) % w := by
        conv => lhs; rw [← Nat.sub_add_cancel (Nat.le_of_not_lt hk), Nat.add_mod_right]
      rw [h1, h2]
      rfl

/-! ## `patch` -/

theorem getD_set {l : List Nat} {i q v : Nat} (hi : i < l.length) :
    (l.set i v).getD q 0 = if q = i then v else l.getD q 0 := by
  rw [List.getD_eq_getElem?_getD, List.getElem?_set]
  by_cases h : i = q
  · subst h; simp [hi]
  · rw [if_neg h, if_neg (fun e => h e.symm), List.getD_eq_getElem?_getD]

theorem getD_append_zeros (l : List Nat) (n q : Nat) : (l ++ List.replicate n 0).getD q 0 = l.getD q 0 := by
  rw [List.getD_eq_getElem?_getD, List.getD_eq_getElem?_getD]
  by_cases h : q < l.length
  · rw [List.getElem?_append_left h]
  · rw [List.getElem?_append_right (by omega), List.getElem?_eq_none (l := l) (by omega)]
    by_cases h2 : q - l.length < n
    · rw [List.getElem?_replicate_of_lt h2]; rfl
    · rw [List.getElem?_eq_none (by simp; omega)]

theorem patch_fields (c x : Init) : (patch c x).start = c.start ∧ (patch c x).stop = c.stop ∧
    (patch c x).before = c.before ∧ (patch c x).after = c.after ∧ strW (patch c x).val = strW c.val := by
  unfold patch
  split
  · rename_i w cs w' u hc hx
    split <;> simp [strW, hc]
  · simp

theorem patch_lo_hi (c x : Init) : (patch c x).lo = c.lo ∧ (patch c x).hi = c.hi := by
  have := patch_fields c x
  unfold Init.lo Init.hi
  rw [this.1, this.2.1, this.2.2.1, this.2.2.2.1]
  exact ⟨rfl, rfl⟩

theorem patchOK_patch {c x y : Init} (h : PatchOK c y) : PatchOK (patch c x) y := by
  have hf := patch_fields c x
  obtain ⟨w, h1, h2, h3, h4, h5, h6, h7, h8, h9, h10, h11⟩ := h
  exact ⟨w, by rw [hf.2.2.2.2]; exact h1, h2, h3, by rw [hf.2.2.1]; exact h4, by rw [hf.2.2.2.1]; exact h5,
    h6, h7, h8, by rw [hf.1]; exact h9, by rw [hf.2.1]; exact h10, by rw [hf.1]; exact h11⟩

/-- Patching the string is the same as writing the element afterwards. -/
theorem writeCell_patch {c x : Init} (h : PatchOK c x) (j : Nat) (cell : Cell) :
    writeCell x j (writeCell c j cell) = writeCell (patch c x) j cell := by
  obtain ⟨w, h1, hw, ⟨w', u, hxv⟩, hcb, hca, hxb, hxa, hxs, hlo, hhi, hal⟩ := h
  cases hcv : c.val with
  | str w0 cs =>
    rw [hcv] at h1
    simp only [strW, Option.some.injEq] at h1
    subst h1
    -- the patched value
    have hp : patch c x = { c with val := Val.str w0 ((if (x.start - c.start) / w0 ≥ cs.length then cs ++ List.replicate ((c.stop - c.start) / w0 - cs.length) 0 else cs).set ((x.start - c.start) / w0) (u % 2 ^ (8 * w0))) } := by
      unfold patch; rw [hcv, hxv]; simp only []; rw [if_pos hw]
    have hwpos : 0 < w0 := by omega
    by_cases htc : touches c j
    · have hjc : c.start ≤ j ∧ j < c.stop := by
        unfold touches Init.lo Init.hi at htc; omega
      have htp : touches (patch c x) j := by
        unfold touches; rw [(patch_lo_hi c x).1, (patch_lo_hi c x).2]; exact htc
      rw [writeCell_byteval (i := c) (by intro a b; rw [hcv]; simp) htc,
          writeCell_byteval (i := patch c x) (by intro a b; rw [hp]; simp) htp]
      rw [hp]
      simp only [hcv, valCell]
      -- index arithmetic
      have hidx : (x.start - c.start) / w0 * w0 = x.start - c.start := by
        have := Nat.div_add_mod (x.start - c.start) w0
        rw [hal] at this; rw [Nat.mul_comm]; omega
      have hn : ((c.stop - c.start) / w0) * w0 ≤ c.stop - c.start := Nat.div_mul_le_self _ _
      have hi_lt : (x.start - c.start) / w0 < (c.stop - c.start) / w0 := by
        rw [Nat.div_lt_iff_lt_mul hwpos]
        have h3 : (c.stop - c.start) / w0 * w0 + w0 > c.stop - c.start := by
          have := Nat.div_add_mod (c.stop - c.start) w0
          have := Nat.mod_lt (c.stop - c.start) hwpos
          rw [Nat.mul_comm]; omega
        -- x.start - c.start + w0 ≤ c.stop - c.start
        have h4 : (x.start - c.start) / w0 * w0 + w0 ≤ c.stop - c.start := by omega
        have h5 : ((x.start - c.start) / w0 + 1) * w0 ≤ c.stop - c.start := by
          rw [Nat.add_mul]; omega
        have h6 : (x.start - c.start) / w0 + 1 ≤ (c.stop - c.start) / w0 :=
          (Nat.le_div_iff_mul_le hwpos).2 h5
        have : (x.start - c.start) / w0 < (c.stop - c.start) / w0 := by omega
        calc x.start - c.start = (x.start - c.start) / w0 * w0 := hidx.symm
          _ < (c.stop - c.start) / w0 * w0 := Nat.mul_lt_mul_of_pos_right this hwpos
      have hlen : (x.start - c.start) / w0 <
          (if (x.start - c.start) / w0 ≥ cs.length then cs ++ List.replicate ((c.stop - c.start) / w0 - cs.length) 0
            else cs).length := by
        split
        · rw [List.length_append, List.length_replicate]; omega
        · omega
      rw [getD_set hlen]
      have hgd : (if (x.start - c.start) / w0 ≥ cs.length then
          cs ++ List.replicate ((c.stop - c.start) / w0 - cs.length) 0 else cs).getD ((j - c.start) / w0) 0 =
          cs.getD ((j - c.start) / w0) 0 := by
        split
        · exact getD_append_zeros _ _ _
        · rfl
      by_cases htx : touches x j
      · have hjx : x.start ≤ j ∧ j < x.start + w0 := by
          unfold touches Init.lo Init.hi at htx; omega
        rw [writeCell_int hxv htx]
        unfold intCell
        have hq : (j - c.start) / w0 = (x.start - c.start) / w0 ∧ (j - c.start) % w0 = j - x.start := by
          have e : j - c.start = (j - x.start) + (x.start - c.start) / w0 * w0 := by omega
          rw [e, Nat.add_mul_div_right _ _ hwpos, Nat.add_mul_mod_self_right,
            Nat.div_eq_of_lt (by omega), Nat.mod_eq_of_lt (by omega)]
          omega
        rw [hq.1, hq.2, if_pos rfl, mod_div_mod (by omega)]
        refine congrArg Cell.byte ?_
        rw [← ofBits_shift u (j - x.start)]
        apply ofBits_congr
        intro k hk
        have : x.lo ≤ 8 * j + k ∧ 8 * j + k < x.hi := by unfold Init.lo Init.hi; omega
        rw [if_pos this]
        congr 1
        unfold Init.lo; omega
      · rw [writeCell_of_not_touches htx]
        have hjx : ¬ (x.start ≤ j ∧ j < x.start + w0) := by
          unfold touches Init.lo Init.hi at htx; omega
        have hq : (j - c.start) / w0 ≠ (x.start - c.start) / w0 := by
          intro e
          apply hjx
          have e1 := Nat.div_add_mod (j - c.start) w0
          have e2 := Nat.mod_lt (j - c.start) hwpos
          rw [e, Nat.mul_comm] at e1
          omega
        rw [if_neg hq, hgd]
    · have htp : ¬ touches (patch c x) j := by
        unfold touches; rw [(patch_lo_hi c x).1, (patch_lo_hi c x).2]; exact htc
      have htx : ¬ touches x j := by
        unfold touches Init.lo Init.hi at *; omega
      rw [writeCell_of_not_touches htc, writeCell_of_not_touches htx, writeCell_of_not_touches htp]
  | _ => rw [hcv] at h1; simp [strW] at h1

/-! ## `collapse` -/

/-- list order restricted to what `collapse` needs -/
def NestOK (a b : Init) : Prop := a.hi ≤ b.lo ∨ PatchOK a b

theorem nestOK_of_listOrd {a b : Init} (h : ListOrd a b) : NestOK a b := by
  rcases h.2 with h | h
  · exact .inl h
  · exact .inr h.2.2

theorem cellFold_collapse {xs : List Init} : ∀ {c : Init}, (c :: xs).Pairwise NestOK → ∀ (j : Nat) (cell : Cell),
    cellFold (collapse (some c) xs) j cell = cellFold (c :: xs) j cell := by
  induction xs with
  | nil => intro c _ j cell; rfl
  | cons x xs ih =>
    intro c hp j cell
    have hp' := List.pairwise_cons.1 hp
    have hpx := List.pairwise_cons.1 hp'.2
    unfold collapse
    split
    · rename_i hlt
      have hpo : PatchOK c x := by
        rcases hp'.1 x List.mem_cons_self with h | h
        · omega
        · exact h
      have hp2 : (patch c x :: xs).Pairwise NestOK := by
        rw [List.pairwise_cons]
        refine ⟨?_, hpx.2⟩
        intro y hy
        rcases hp'.1 y (List.mem_cons_of_mem _ hy) with h | h
        · left; rw [(patch_lo_hi c x).2]; exact h
        · right; exact patchOK_patch h
      rw [ih hp2, cellFold_cons, cellFold_cons, cellFold_cons, writeCell_patch hpo]
    · rw [cellFold_cons, ih hp'.2, cellFold_cons]
      rfl

theorem collapseOk_true {xs : List Init} : ∀ {c : Init}, (c :: xs).Pairwise NestOK →
    collapseOk (some c) xs = true := by
  induction xs with
  | nil => intro c _; rfl
  | cons x xs ih =>
    intro c hp
    have hp' := List.pairwise_cons.1 hp
    have hpx := List.pairwise_cons.1 hp'.2
    unfold collapseOk
    split
    · rename_i hlt
      have hpo : PatchOK c x := by
        rcases hp'.1 x List.mem_cons_self with h | h
        · omega
        · exact h
      have hp2 : (patch c x :: xs).Pairwise NestOK := by
        rw [List.pairwise_cons]
        refine ⟨?_, hpx.2⟩
        intro y hy
        rcases hp'.1 y (List.mem_cons_of_mem _ hy) with h | h
        · left; rw [(patch_lo_hi c x).2]; exact h
        · right; exact patchOK_patch h
      rw [ih hp2, Bool.and_true]
      obtain ⟨w, h1, _, ⟨w', u, hxv⟩, _⟩ := hpo
      unfold patchOk
      rw [hxv]
      cases hcv : c.val <;> simp [hcv, strW] at h1 ⊢
    · exact ih hp'.2

/-- the entries of the collapsed list follow each other: each starts at or behind the end of the
previous one (`top` = where the previous one ended) -/
def Chain : Nat → List Init → Prop
  | _, [] => True
  | top, t :: ts => top ≤ t.lo ∧ Chain t.hi ts

theorem patch_val (c x : Init) :
    (∃ w cs cs', c.val = .str w cs ∧ patch c x = { c with val := .str w cs' }) ∨ patch c x = c := by
  unfold patch
  split
  · rename_i w cs w' u hc hx
    split
    · exact .inl ⟨w, cs, _, hc, rfl⟩
    · exact .inl ⟨w, cs, _, hc, rfl⟩
  · exact .inr rfl

theorem wf_patch {size : Nat} {c x : Init} (h : Wf size c) : Wf size (patch c x) := by
  rcases patch_val c x with ⟨w, cs, cs', hc, hp⟩ | hp
  · rw [hp]
    refine ⟨h.ne, h.inside, ?_⟩
    have hs := h.shape
    rw [hc] at hs
    exact hs
  · rw [hp]; exact h

theorem collapse_chain {size : Nat} {xs : List Init} : ∀ {c : Init} {top : Nat}, (c :: xs).Pairwise NestOK →
    (∀ t ∈ c :: xs, Wf size t) → top ≤ c.lo →
    Chain top (collapse (some c) xs) ∧ ∀ t ∈ collapse (some c) xs, Wf size t := by
  induction xs with
  | nil =>
    intro c top _ hw ht
    exact ⟨⟨ht, trivial⟩, fun t h => by rw [collapse, List.mem_singleton] at h; rw [h]; exact hw c List.mem_cons_self⟩
  | cons x xs ih =>
    intro c top hp hw ht
    have hp' := List.pairwise_cons.1 hp
    have hpx := List.pairwise_cons.1 hp'.2
    unfold collapse
    split
    · have hp2 : (patch c x :: xs).Pairwise NestOK := by
        rw [List.pairwise_cons]
        refine ⟨?_, hpx.2⟩
        intro y hy
        rcases hp'.1 y (List.mem_cons_of_mem _ hy) with h | h
        · left; rw [(patch_lo_hi c x).2]; exact h
        · right; exact patchOK_patch h
      refine ih hp2 ?_ (by rw [(patch_lo_hi c x).1]; exact ht)
      intro t h
      rcases List.mem_cons.1 h with rfl | h
      · exact wf_patch (hw c List.mem_cons_self)
      · exact hw t (List.mem_cons_of_mem _ (List.mem_cons_of_mem _ h))
    · rename_i hge
      have := ih (top := c.hi) hp'.2 (fun t h => hw t (List.mem_cons_of_mem _ h)) (by omega)
      refine ⟨⟨ht, this.1⟩, ?_⟩
      intro t h
      rcases List.mem_cons.1 h with rfl | h
      · exact hw t List.mem_cons_self
      · exact this.2 t h

end CprocVerif.Image

/-
  C01, stages D/E inside expressions — structural facts about `Lower2.funcexpr3` (expressions with array reads and
  calls), `lowerArgs` and `lowerAddr`: the statements of `Lemmas/Lower2Struct.lean` once more.
-/
import CprocVerif.Lemmas.Lower2Struct
import CprocVerif.Lemmas.LowerSim2

namespace CprocVerif.LowerMach2
open CprocVerif.Qbe CprocVerif.Lower CprocVerif.Lower2 CprocVerif.CSem CprocVerif.CSem2 CprocVerif.CInt
open CprocVerif.LowerMach

/-- `lowerArgs` as an `Out` (the value is irrelevant) -/
def lowerArgsOut (cs : Bool) (σ : List Nat) (es : List Expr) (c : Ctx) : Out :=
  ⟨(lowerArgs cs σ es c).1, .int 0, (lowerArgs cs σ es c).2.2⟩

theorem lowerArgs_isGood (cs : Bool) (σ : List Nat) (es : List Expr) :
    ∀ c : Ctx, Good c (lowerArgsOut cs σ es c) := by
  induction es with
  | nil => intro c; exact (Straight.refl c _).good (Or.inl ⟨_, rfl⟩)
  | cons e es ih =>
    intro c
    have h : lowerArgsOut cs σ (e :: es) c =
        (funcexpr2 cs σ e c).seq (lowerArgsOut cs σ es (funcexpr2 cs σ e c).ctx) := rfl
    rw [h]
    exact (funcexpr2_good cs σ e c).seq (ih _)

theorem lowerAddr_isGood (cs : Bool) (σ : List Nat) (c : Ctx) (slot : Nat) (t : CSem.Ty) (idx : Expr) :
    Good c (lowerAddr cs σ c slot t idx) :=
  (funcexpr2_good cs σ (offOf t idx) c).seq_straight (funcinst_straight _ _ _ _) (funcinst_val _ _ _ _)

/-! ## Equations of `funcexpr3` with named parts -/

theorem funcexpr3_logic (cs : Bool) (σ : List Nat) (op : BinOp) (hop : isLogic op = true) (t : CSem.Ty) (l r : Expr3)
    (c : Ctx) :
    ∃ ol oj or ov : Out,
      ol = funcexpr3 cs σ l c ∧
      oj = jnzArg cs ⟨ol.ctx.lastid, ol.ctx.blockid + 2, ol.ctx.cur⟩ l.ty ol.val ∧
      or = funcexpr3 cs σ r ⟨oj.ctx.lastid, oj.ctx.blockid, lblName "logic_right" (ol.ctx.blockid + 1)⟩ ∧
      ov = convert cs or.ctx .bool r.ty or.val ∧
      funcexpr3 cs σ (.bin op t l r) c =
        ⟨ol.items ++ oj.items ++
          [.lbl (some (if (op == .lor) = true
              then Jump.jnz oj.val (lblName "logic_join" (ol.ctx.blockid + 2))
                (lblName "logic_right" (ol.ctx.blockid + 1))
              else Jump.jnz oj.val (lblName "logic_right" (ol.ctx.blockid + 1))
                (lblName "logic_join" (ol.ctx.blockid + 2))))
            (lblName "logic_right" (ol.ctx.blockid + 1)) []] ++ or.items ++ ov.items ++
          [.lbl none (lblName "logic_join" (ol.ctx.blockid + 2))
            [⟨tmpName (ov.ctx.lastid + 1), .w,
              [(oj.ctx.cur, .int (if (op == .lor) = true then 1 else 0)), (ov.ctx.cur, ov.val)]⟩]],
         .tmp (tmpName (ov.ctx.lastid + 1)),
         ⟨ov.ctx.lastid + 1, ov.ctx.blockid, lblName "logic_join" (ol.ctx.blockid + 2)⟩⟩ := by
  refine ⟨_, _, _, _, rfl, rfl, rfl, rfl, ?_⟩
  simp only [funcexpr3, hop, if_true]

theorem funcexpr3_arith (cs : Bool) (σ : List Nat) (op : BinOp) (hop : isLogic op = false) (t : CSem.Ty) (l r : Expr3)
    (c : Ctx) :
    funcexpr3 cs σ (.bin op t l r) c =
      ((funcexpr3 cs σ l c).seq (funcexpr3 cs σ r (funcexpr3 cs σ l c).ctx)).seq
        (funcinst (funcexpr3 cs σ r (funcexpr3 cs σ l c).ctx).ctx (binOpOf cs op l.ty) (cls t)
          [(funcexpr3 cs σ l c).val, (funcexpr3 cs σ r (funcexpr3 cs σ l c).ctx).val]) := by
  simp only [funcexpr3, hop, Bool.false_eq_true, if_false]

theorem funcexpr3_cond (cs : Bool) (σ : List Nat) (t : CSem.Ty) (e a b : Expr3) (c : Ctx) :
    ∃ oc oj oa ob : Out,
      oc = funcexpr3 cs σ e ⟨c.lastid, c.blockid + 3, c.cur⟩ ∧
      oj = jnzArg cs oc.ctx e.ty oc.val ∧
      oa = funcexpr3 cs σ a ⟨oj.ctx.lastid, oj.ctx.blockid, lblName "cond_true" (c.blockid + 1)⟩ ∧
      ob = funcexpr3 cs σ b ⟨oa.ctx.lastid, oa.ctx.blockid, lblName "cond_false" (c.blockid + 2)⟩ ∧
      funcexpr3 cs σ (.cond t e a b) c =
        ⟨oc.items ++ oj.items ++
          [.lbl (some (.jnz oj.val (lblName "cond_true" (c.blockid + 1))
            (lblName "cond_false" (c.blockid + 2)))) (lblName "cond_true" (c.blockid + 1)) []] ++
          oa.items ++
          [.lbl (some (.jmp (lblName "cond_join" (c.blockid + 3))))
            (lblName "cond_false" (c.blockid + 2)) []] ++ ob.items ++
          [.lbl none (lblName "cond_join" (c.blockid + 3))
            [⟨tmpName (ob.ctx.lastid + 1), cls t, [(oa.ctx.cur, oa.val), (ob.ctx.cur, ob.val)]⟩]],
         .tmp (tmpName (ob.ctx.lastid + 1)),
         ⟨ob.ctx.lastid + 1, ob.ctx.blockid, lblName "cond_join" (c.blockid + 3)⟩⟩ := by
  exact ⟨_, _, _, _, rfl, rfl, rfl, rfl, rfl⟩

theorem funcexpr3_good (cs : Bool) (σ : List Nat) (e : Expr3) : ∀ c : Ctx, Good c (funcexpr3 cs σ e c) := by
  induction e with
  | pure e => intro c; exact funcexpr2_good cs σ e c
  | idx t arr n xb i =>
    intro c
    simp only [funcexpr3]
    exact (lowerAddr_isGood cs σ c (σ.getD arr 0) t i).seq_straight (funcinst_straight _ _ _ _)
      (funcinst_val _ _ _ _)
  | call rt fn args =>
    intro c
    have g := lowerArgs_isGood cs σ args c
    have hs : Straight (lowerArgsOut cs σ args c).ctx
        ⟨[.ins (.call (some (tmpName ((lowerArgs cs σ args c).2.2.lastid + 1), .base (cls rt))) (.glob fn false)
            (lowerArgs cs σ args c).2.1 none)],
          .tmp (tmpName ((lowerArgs cs σ args c).2.2.lastid + 1)),
          ⟨(lowerArgs cs σ args c).2.2.lastid + 1, (lowerArgs cs σ args c).2.2.blockid,
            (lowerArgs cs σ args c).2.2.cur⟩⟩ :=
      ⟨rfl, rfl, Nat.le_succ _, by simp⟩
    exact g.seq_straight hs (Or.inr ⟨_, Nat.le_refl _, rfl⟩)
  | cast t e ih =>
    intro c
    exact (ih c).seq_straight (convert_straight _ _ _ _ _) (convert_val _ _ _ _ _ (ih c).val)
  | neg t e ih =>
    intro c
    exact (ih c).seq_straight (funcinst_straight _ _ _ _) (funcinst_val _ _ _ _)
  | bin op t l r ihl ihr =>
    intro c
    cases hop : isLogic op
    · rw [funcexpr3_arith cs σ op hop]
      exact ((ihl c).seq (ihr _)).seq_straight (funcinst_straight _ _ _ _) (funcinst_val _ _ _ _)
    · -- `&&`, `||`
      obtain ⟨ol, oj, or, ov, hol, hoj, hor, hov, heq⟩ := funcexpr3_logic cs σ op hop t l r c
      rw [heq]
      have gl : Good c ol := hol ▸ ihl c
      have sj : Straight _ oj := hoj ▸ jnzArg_straight _ _ _ _
      have gr : Good _ or := hor ▸ ihr _
      have sv : Straight _ ov := hov ▸ convert_straight _ _ _ _ _
      have b1 := gl.blockid; have b2 := sj.blockid; have b3 := gr.blockid; have b4 := sv.blockid
      have l1 := gl.lastid; have l2 := sj.lastid; have l3 := gr.lastid; have l4 := sv.lastid
      simp only at b2 b3 l2 l3
      refine ⟨by simp only; omega, by simp only; omega, Or.inr ⟨_, Nat.le_refl _, rfl⟩, ?_, ?_, ?_⟩
      · simp only [itemLabels_append, itemLabels, itemLabels_allIns _ sj.allIns,
          itemLabels_allIns _ sv.allIns, List.append_nil]
        refine ((((gl.labels.append (LabelsIn.single "logic_right" _ rfl) ?_).append gr.labels ?_).append
          (LabelsIn.single "logic_join" _ rfl) ?_)).weaken ?_
        · intro j h1 h2; omega
        · intro j h1 h2; simp only at h2; omega
        · intro j h1 h2; simp only at h1; omega
        · intro j h; simp only at h ⊢; omega
      · intro ol' pre hp
        simp only [← List.append_assoc]
        exact curOf_lbl _ _ _ _ _
      · intro name j hj
        exact ⟨"logic_join", _, rfl, Or.inr (by simp only; omega)⟩
  | comma t a b iha ihb =>
    intro c
    exact (iha c).seq (ihb _)
  | cond t e a b ihe iha ihb =>
    intro c
    obtain ⟨oc, oj, oa, ob, hoc, hoj, hoa, hob, heq⟩ := funcexpr3_cond cs σ t e a b c
    rw [heq]
    have ge : Good _ oc := hoc ▸ ihe _
    have sj : Straight _ oj := hoj ▸ jnzArg_straight _ _ _ _
    have ga : Good _ oa := hoa ▸ iha _
    have gb : Good _ ob := hob ▸ ihb _
    have b1 := ge.blockid; have b2 := sj.blockid; have b3 := ga.blockid; have b4 := gb.blockid
    have l1 := ge.lastid; have l2 := sj.lastid; have l3 := ga.lastid; have l4 := gb.lastid
    simp only at b1 b3 b4 l1 l3 l4
    refine ⟨by simp only; omega, by simp only; omega, Or.inr ⟨_, Nat.le_refl _, rfl⟩, ?_, ?_, ?_⟩
    · simp only [itemLabels_append, itemLabels, itemLabels_allIns _ sj.allIns, List.append_nil]
      refine ((((((ge.labels.append (LabelsIn.single "cond_true" _ rfl) ?_).append ga.labels ?_).append
        (LabelsIn.single "cond_false" _ rfl) ?_).append gb.labels ?_).append
        (LabelsIn.single "cond_join" _ rfl) ?_)).weaken ?_
      · intro j h1 h2; simp only at h1; omega
      · intro j h1 h2; simp only at h1 h2; omega
      · intro j h1 h2; simp only at h1; omega
      · intro j h1 h2; simp only at h1 h2; omega
      · intro j h1 h2; simp only at h1; omega
      · intro j h; simp only at h ⊢; omega
    · intro ol' pre hp
      simp only [← List.append_assoc]
      exact curOf_lbl _ _ _ _ _
    · intro name j hj
      exact ⟨"cond_join", _, rfl, Or.inr (by simp only; omega)⟩


end CprocVerif.LowerMach2

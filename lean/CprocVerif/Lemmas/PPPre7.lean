import CprocVerif.Lemmas.PPPre6

/-! # Arguments with macro names, part 7: `next()` and the whole stream -/

namespace CprocVerif.PP
open CprocVerif.Gen.TokenKinds
open CprocVerif.Spec.MacroRef (HTok Item PTok MacroDef RErr Flag expandH)
open CprocVerif.Spec

/-- the class of source texts: as `TextOK`, but the tokens between the parentheses of an
invocation may name object-like macros and hold complete invocations of function-like macros
(`ArgsOK`, recursively; no new-line, no `#`) -/
inductive TextP (ms0 : List Macro) : List Tok → Prop where
  | nil : TextP ms0 []
  | plain (t : Tok) (r : List Tok) (h1 : ¬ IsFunName ms0 t) (h2 : t.kind ≠ .THASH) (h3 : t.kind ≠ .TNONE)
      (h4 : t.kind ≠ .TEOF) (h5 : t.hide = false) (h6 : TextP ms0 r) : TextP ms0 (t :: r)
  | call (T lp : Tok) (r' : List Tok) (F : Macro) (args : List (List Tok)) (rest : List Tok)
      (h1 : T.kind = .TIDENT) (h2 : T.hide = false) (h3 : macroget ms0 (T.lit.getD []) = some F)
      (h4 : F.func = true) (h5 : lp.kind = .TLPAREN) (h5' : lp.hide = false)
      (h6 : collect F.params 0 0 [] [] r' = .ok (args, rest))
      (h7 : ArgsOK ms0 r' rest) (h8 : ∀ a ∈ args, a ≠ [])
      (h9 : TextP ms0 rest) : TextP ms0 (T :: lp :: r')
  | eof (t : Tok) (h : t.kind = .TEOF) : TextP ms0 [t]

theorem textP_head {ms0 : List Macro} {t : Tok} {r : List Tok} (h : TextP ms0 (t :: r)) :
    t.kind ≠ .TNONE ∧ t.kind ≠ .THASH := by
  cases h with
  | plain _ _ h1 h2 h3 h4 h5 h6 => exact ⟨h3, h2⟩
  | call _ _ _ _ _ _ h1 => exact ⟨by rw [h1]; decide, by rw [h1]; decide⟩
  | eof _ h => exact ⟨by rw [h]; decide, by rw [h]; decide⟩

theorem textP_cons_inv {ms0 : List Macro} {t : Tok} {r : List Tok} (h : TextP ms0 (t :: r)) :
    (¬ IsFunName ms0 t ∧ t.kind ≠ .TEOF ∧ t.hide = false ∧ TextP ms0 r) ∨
    (∃ lp r' F args rest, r = lp :: r' ∧ t.kind = .TIDENT ∧ t.hide = false ∧ macroget ms0 (t.lit.getD []) = some F ∧
      F.func = true ∧ lp.kind = .TLPAREN ∧ lp.hide = false ∧ collect F.params 0 0 [] [] r' = .ok (args, rest) ∧
      ArgsOK ms0 r' rest ∧ (∀ a ∈ args, a ≠ []) ∧ TextP ms0 rest) ∨
    (t.kind = .TEOF ∧ r = []) := by
  cases h with
  | plain _ _ h1 h2 h3 h4 h5 h6 => exact .inl ⟨h1, h4, h5, h6⟩
  | call _ lp r' F args rest h1 h2 h3 h4 h5 h5' h6 h7 h8 h9 =>
    exact .inr (.inl ⟨lp, r', F, args, rest, rfl, h1, h2, h3, h4, h5, h5', h6, h7, h8, h9⟩)
  | eof _ h => exact .inr (.inr ⟨h, rfl⟩)

/-- the text as the reference sees it (paint marks kept) -/
def absRawP (ms0 : List Macro) (raw : List Tok) : List HTok :=
  ((raw.takeWhile (fun t => t.kind ≠ .TEOF)).filter visible).map (mkHp ms0 [])

theorem absRawP_nil (ms0 : List Macro) : absRawP ms0 [] = [] := rfl

theorem absRawP_eof (ms0 : List Macro) (t : Tok) (r : List Tok) (h : t.kind = .TEOF) : absRawP ms0 (t :: r) = [] := by
  simp [absRawP, List.takeWhile, h]

theorem absRawP_cons_visible (ms0 : List Macro) (t : Tok) (r : List Tok) (h : t.kind ≠ .TNEWLINE) (h2 : t.kind ≠ .TEOF) :
    absRawP ms0 (t :: r) = mkHp ms0 [] t :: absRawP ms0 r := by
  simp [absRawP, List.takeWhile, h2, visible, h]

theorem absRawP_cons_nl (ms0 : List Macro) (t : Tok) (r : List Tok) (h : t.kind = .TNEWLINE) :
    absRawP ms0 (t :: r) = absRawP ms0 r := by
  have h2 : t.kind ≠ .TEOF := by rw [h]; decide
  simp [absRawP, List.takeWhile, h2, visible, h]

theorem absRawP_plain (ms0 : List Macro) : ∀ (l r : List Tok), (∀ x ∈ l, x.kind ≠ .TNEWLINE ∧ x.kind ≠ .TEOF) →
    absRawP ms0 (l ++ r) = l.map (mkHp ms0 []) ++ absRawP ms0 r
  | [], r, _ => rfl
  | t :: l, r, h => by
    have ht := h t (List.mem_cons_self ..)
    rw [List.cons_append, absRawP_cons_visible _ _ _ ht.1 ht.2, absRawP_plain ms0 l r (fun x hx => h x (List.mem_cons_of_mem _ hx))]
    rfl

/-- the source still to be processed, as the reference sees it -/
def absP (ms0 : List Macro) (st : St) : List Item := absX ms0 st ((absRawP ms0 st.raw).map Item.tok)

/-- one `rawnext(); expand()` round of `next()` on a good state, in terms of the reference -/
inductive StepP (ms0 : List Macro) (st s2 : St) : Prop where
  | again (h1 : s2.rb = true ∨ (s2.rt.kind = .TNEWLINE ∧ s2.ppnl = false))
      (h2 : Link (tblF ms0) (absP ms0 st) [] (absP ms0 s2))
  | out (h1 : s2.rb = false) (h2 : s2.rt.kind ≠ .TNEWLINE) (h3 : s2.rt.kind ≠ .TEOF)
      (h4 : Link (tblF ms0) (absP ms0 st) [(s2.rt.kind, s2.rt.lit)] (absP ms0 s2))
  | eof (h1 : s2.rb = false) (h2 : s2.rt.kind = .TEOF) (h3 : absP ms0 st = [])

theorem stepP (ms0 : List Macro) (hTb : TblOKS ms0) (k : Nat) (st s1 s2 : St) (g : GoodP ms0 st)
    (ht : TextP ms0 st.raw) (hr : exec k .rawnext st = .ok s1) (he : exec k (.expand s1.rt) s1 = .ok s2) :
    GoodP ms0 s2 ∧ TextP ms0 s2.raw ∧ StepP ms0 st s2 := by
  obtain ⟨g1, hR⟩ := rawnextP ms0 k st s1 g (fun t r hh => textP_head (by rw [← hh]; exact ht)) hr
  -- the common part: a token that starts no invocation
  have common : ∀ (habs : absP ms0 st = .tok (mkHp ms0 (hsOf s1.ctx) s1.rt) :: absP ms0 s1) (hf : FlatP ms0 s1.rt)
      (htx : TextP ms0 s1.raw), GoodP ms0 s2 ∧ TextP ms0 s2.raw ∧ StepP ms0 st s2 := by
    intro habs hf htx
    obtain ⟨g2, hraw2, hcase⟩ := expand_simP ms0 hTb k s1 s2 s1.rt ((absRawP ms0 s1.raw).map Item.tok) g1 hf he
    refine ⟨g2, by rw [hraw2]; exact htx, ?_⟩
    have e2 : absP ms0 s2 = absX ms0 s2 ((absRawP ms0 s1.raw).map Item.tok) := by unfold absP; rw [hraw2]
    rcases hcase with ⟨hrb, _, _, hK⟩ | ⟨hrb, hc, hm, _, hkind, hlit, hK⟩
    · refine .again (.inl hrb) (LinkE.toLink (out := []) (LinkE.of_eq 0 (fun K _ => ?_)))
      rw [habs, e2]; exact hK K
    · refine .out hrb (by rw [hkind]; exact hf.1) (by rw [hkind]; exact hf.2.1) ?_
      have e3 : absP ms0 s2 = absP ms0 s1 := by rw [e2]; exact absX_congr ms0 _ hc hm
      have := LinkE.toLink (LinkE.of_out (a := absP ms0 st) (b := absP ms0 s2) (mkHp ms0 [] s2.rt)
        (fun K => by rw [habs, e3]; exact hK K))
      exact this
  cases hR with
  | ctx h1 h2 h3 h4 =>
    refine common ?_ h2 (by rw [h3]; exact ht)
    simp only [absP, absX, h1, h3, List.map_cons, List.cons_append]
    rfl
  | raw h1 h2 h3 =>
    have ht' : TextP ms0 (s1.rt :: s1.raw) := by rw [← h1]; exact ht
    have habsst : absP ms0 st = (absRawP ms0 (s1.rt :: s1.raw)).map Item.tok := by
      simp only [absP, absX, h3, h1, List.map_nil, List.nil_append]
    have habss1 : absP ms0 s1 = (absRawP ms0 s1.raw).map Item.tok := by
      simp only [absP, absX, h2, flatG, List.map_nil, List.nil_append]
    rcases textP_cons_inv ht' with ⟨hnf, heof, hhide, htr⟩ | ⟨lp, r', F, args, rest, hraw, c1, c2, c3, c4, c5, c5', c6, c7, c8, c9⟩ | ⟨hkeof, hrnil⟩
    · by_cases hnl : s1.rt.kind = .TNEWLINE
      · cases k with
        | zero => cases he
        | succ k' =>
          rw [expand_nonident k' _ _ (by rw [hnl]; decide)] at he
          cases he
          have e : Link (tblF ms0) (absP ms0 st) [] (absP ms0 s1) := by
            rw [habsst, habss1, absRawP_cons_nl _ _ _ hnl]; exact Link.refl _ _
          exact ⟨goodP_setrt g1 _ _, htr, .again (.inr ⟨hnl, g1.ppnl⟩) e⟩
      · refine common ?_ ⟨hnl, heof, hnf⟩ htr
        rw [habsst, habss1, absRawP_cons_visible _ _ _ hnl heof, h2]
        rfl
    · obtain ⟨g2, hraw2, hrb, _, c, hK⟩ :=
        callSpec_all ms0 hTb k s1 s2 s1.rt lp r' F args rest g1 h2 hraw c1 c2 c3 c4 c5 c5' c6 c7 c8 he
      refine ⟨g2, by rw [hraw2]; exact c9, .again (.inl hrb) (LinkE.toLink (out := []) (LinkE.of_eq c ?_))⟩
      intro K hKc
      obtain ⟨pre, hpre⟩ := c7.suffix
      have htake : r'.take (r'.length - rest.length) = pre := by rw [hpre]; simp
      have hrawok := c7.raw
      rw [htake] at hrawok
      have hv : ∀ x ∈ lp :: pre, x.kind ≠ .TNEWLINE ∧ x.kind ≠ .TEOF := by
        intro x hx
        rcases List.mem_cons.mp hx with rfl | hx
        · rw [c5]; exact ⟨by decide, by decide⟩
        · exact ⟨(hrawok x hx).1, (hrawok x hx).2.2.2.1⟩
      have hsplit : s1.raw = (lp :: pre) ++ rest := by rw [hraw, hpre]; simp
      have hL : absP ms0 st = iP ms0 s1.rt :: iP ms0 lp ::
          ((r'.take (r'.length - rest.length)).map (iP ms0) ++ (absRawP ms0 rest).map Item.tok) := by
        rw [habsst, absRawP_cons_visible _ _ _ (by rw [c1]; decide) (by rw [c1]; decide), hsplit,
          absRawP_plain ms0 _ _ hv, htake]
        simp [iP]
      have hR2 : absP ms0 s2 = absX ms0 s2 ((absRawP ms0 rest).map Item.tok) := by unfold absP; rw [hraw2]
      rw [hL, hR2]
      exact hK K hKc _
    · cases k with
      | zero => cases he
      | succ k' =>
        rw [expand_nonident k' _ _ (by rw [hkeof]; decide)] at he
        cases he
        refine ⟨goodP_setrt g1 _ _, by show TextP ms0 s1.raw; rw [hrnil]; exact .nil, .eof rfl hkeof ?_⟩
        rw [habsst, absRawP_eof _ _ _ hkeof]; rfl
  | eof h1 h2 h3 h4 h5 =>
    cases k with
    | zero => cases he
    | succ k' =>
      rw [expand_nonident k' _ _ (by rw [h1]; decide)] at he
      cases he
      refine ⟨goodP_setrt g1 _ _, by show TextP ms0 s1.raw; rw [h3]; exact .nil, .eof rfl (by show s1.rt.kind = _; rw [h1]; rfl) ?_⟩
      simp [absP, absX, h5, h2, absRawP_nil]

/-- **One call of `next()`** on a good state -/
theorem next_simP (ms0 : List Macro) (hTb : TblOKS ms0) : ∀ (n : Nat) (st st' : St), GoodP ms0 st → TextP ms0 st.raw →
    exec n .next st = .ok st' →
    GoodP ms0 st' ∧ TextP ms0 st'.raw ∧ st'.tok = toKeyword st'.rt ∧
    ((st'.rt.kind = .TEOF ∧ Link (tblF ms0) (absP ms0 st) [] []) ∨
     (st'.rt.kind ≠ .TEOF ∧ Link (tblF ms0) (absP ms0 st) [(st'.rt.kind, st'.rt.lit)] (absP ms0 st'))) := by
  intro n
  induction n with
  | zero => intro st st' _ _ h; cases h
  | succ k ih =>
    intro st st' g ht h
    change nextBody (exec k) st = .ok st' at h
    unfold nextBody at h
    cases hr : exec k .rawnext st with
    | error e => rw [hr] at h; cases h
    | ok s1 =>
      rw [hr] at h
      simp only at h
      cases he : exec k (.expand s1.rt) s1 with
      | error e => rw [he] at h; cases h
      | ok s2 =>
        rw [he] at h
        simp only at h
        obtain ⟨g2, ht2, hs⟩ := stepP ms0 hTb k st s1 s2 g ht hr he
        cases hs with
        | again h1 h2 =>
          rw [if_pos h1] at h
          obtain ⟨g', ht', htok, hcase⟩ := ih s2 st' g2 ht2 h
          refine ⟨g', ht', htok, ?_⟩
          rcases hcase with ⟨he', hl⟩ | ⟨he', hl⟩
          · exact .inl ⟨he', h2.trans hl⟩
          · exact .inr ⟨he', h2.trans hl⟩
        | out h1 h2 h3 h4 =>
          have hn : ¬ (s2.rb = true ∨ (s2.rt.kind = .TNEWLINE ∧ s2.ppnl = false)) := by
            rw [h1]; intro hh; rcases hh with hh | hh
            · cases hh
            · exact h2 hh.1
          rw [if_neg hn] at h
          cases h
          exact ⟨⟨g2.stat, g2.inv, g2.wf, g2.flatOk, g2.live, g2.prag, g2.ppnl⟩, ht2, rfl, .inr ⟨h3, h4⟩⟩
        | eof h1 h2 h3 =>
          have hn : ¬ (s2.rb = true ∨ (s2.rt.kind = .TNEWLINE ∧ s2.ppnl = false)) := by
            rw [h1, h2]; intro hh; rcases hh with hh | hh
            · cases hh
            · cases hh.1
          rw [if_neg hn] at h
          cases h
          refine ⟨⟨g2.stat, g2.inv, g2.wf, g2.flatOk, g2.live, g2.prag, g2.ppnl⟩, ht2, rfl, .inl ⟨h2, ?_⟩⟩
          rw [h3]; exact Link.refl _ _

/-- **The whole stream** -/
theorem run_simP (ms0 : List Macro) (hTb : TblOKS ms0) : ∀ (n : Nat) (st : St), GoodP ms0 st → TextP ms0 st.raw →
    (run n st).2 = none →
    ∃ L, L.map kwKey = runKeys (run n st).1 ∧ Link (tblF ms0) (absP ms0 st) L [] := by
  intro n
  induction n with
  | zero => intro st _ _ h; cases h
  | succ n ih =>
    intro st g ht h
    unfold run at h ⊢
    cases hx : exec n .next st with
    | error e => rw [hx] at h; cases h
    | ok st1 =>
      rw [hx] at h
      simp only at h ⊢
      obtain ⟨g1, ht1, htok, hcase⟩ := next_simP ms0 hTb n st st1 g ht hx
      by_cases he : st1.tok.kind = .TEOF
      · simp only [he, ↓reduceIte]
        have hrt : st1.rt.kind = .TEOF := by rw [htok] at he; exact (toKeyword_eof _).mp he
        rcases hcase with ⟨_, hl⟩ | ⟨hne, _⟩
        · exact ⟨[], rfl, hl⟩
        · exact absurd hrt hne
      · simp only [he, ↓reduceIte] at h ⊢
        have hrt : st1.rt.kind ≠ .TEOF := by rw [htok] at he; exact fun hh => he ((toKeyword_eof _).mpr hh)
        rcases hcase with ⟨heq, _⟩ | ⟨_, hl⟩
        · exact absurd heq hrt
        · obtain ⟨L, hL, hlink⟩ := ih st1 g1 ht1 h
          refine ⟨(st1.rt.kind, st1.rt.lit) :: L, ?_, hl.trans hlink⟩
          rw [runKeys_cons _ _ (run_ne_nil n st1 h), List.map_cons, hL, htok, toKeyword_key]

theorem goodP_init (ms0 : List Macro) (raw : List Tok) (hTb : TblOKS ms0) (hhide : ∀ m ∈ ms0, m.hide = false) :
    GoodP ms0 { raw := raw, macros := ms0 } :=
  ⟨rfl, ⟨hTb.names, List.nodup_nil, (by intro m hm; simp [liveNames, hhide m hm]), rfl⟩,
   (by intro f hf; cases hf), (by intro t ht; cases ht), (by intro L hL; cases hL), rfl, rfl⟩

end CprocVerif.PP

/-
  C01, fragment 𝔽₂ — calls that pass local arrays to read-only array parameters (`callp`): the array argument
  decays to the address in its slot; the callee sees the elements through the window cells of its store.
-/
import CprocVerif.Lemmas.Lower2Call

set_option linter.unusedSimpArgs false

namespace CprocVerif.LowerMach2
open CprocVerif.Qbe CprocVerif.Lower CprocVerif.Lower2 CprocVerif.CSem CprocVerif.CSem2 CprocVerif.CInt
open CprocVerif.LowerArith CprocVerif.LowerMach CprocVerif.LowerMem

/-! ## Lists -/

/-- window cell `e` of array parameter `j` is element `e` of the `j`-th array argument -/
theorem windows_get (s : Store) : ∀ (pw : List (CSem.Ty × Nat)) (pa : List (Nat × CSem.Ty × Nat × Nat)) (j : Nat)
    (t : CSem.Ty) (w : Nat) (a : Nat × CSem.Ty × Nat × Nat),
    pw[j]? = some (t, w) → pa[j]? = some a → ∀ e, e < w →
    (windows s pw pa)[((pw.take j).map (·.2)).sum + e]? = some ((s[ecell a.1 a.2.2.2 e]?).join) := by
  intro pw
  induction pw with
  | nil => intro pa j t w a h; simp at h
  | cons q pw ih =>
    intro pa j t w a hq ha e he
    obtain ⟨t0, w0⟩ := q
    cases pa with
    | nil => simp at ha
    | cons a0 pa =>
      obtain ⟨arr, t1, n1, xb⟩ := a0
      simp only [windows]
      cases j with
      | zero =>
        simp only [List.getElem?_cons_zero, Option.some.injEq, Prod.mk.injEq] at hq ha
        obtain ⟨rfl, rfl⟩ := hq
        subst ha
        simp only [List.take_zero, List.map_nil, List.sum_nil, Nat.zero_add]
        rw [List.getElem?_append_left (by simpa using he)]
        simp [List.getElem?_range he]
      | succ j =>
        simp only [List.getElem?_cons_succ] at hq ha
        simp only [List.take_succ_cons, List.map_cons, List.sum_cons]
        rw [List.getElem?_append_right (by simp; omega)]
        simp only [List.length_map, List.length_range]
        have : w0 + ((pw.take j).map (·.2)).sum + e - w0 = ((pw.take j).map (·.2)).sum + e := by omega
        rw [this]
        exact ih pa j t w a hq ha e he

theorem readVals_append {p : Prog} {env : Env} : ∀ {as bs : List Val} {ra rb : List RVal},
    readVals p env as = .ok ra → readVals p env bs = .ok rb → readVals p env (as ++ bs) = .ok (ra ++ rb) := by
  intro as
  induction as with
  | nil =>
    intro bs ra rb h1 h2
    simp only [readVals, Except.ok.injEq] at h1
    subst h1
    exact h2
  | cons a as ih =>
    intro bs ra rb h1 h2
    simp only [readVals] at h1
    cases hra : readVal p env a with
    | error e => simp only [hra] at h1; cases h1
    | ok r =>
      cases hrs : readVals p env as with
      | error e => simp only [hra, hrs] at h1; cases h1
      | ok rs =>
        simp only [hra, hrs, Except.ok.injEq] at h1
        subst h1
        show readVals p env (a :: (as ++ bs)) = .ok (r :: (rs ++ rb))
        exact readVals_cons hra (ih hrs h2)

theorem ArgReps.append : ∀ {ts1 : List CSem.Ty} {vs1 : List Int} {rs1 : List RVal} {ts2 : List CSem.Ty}
    {vs2 : List Int} {rs2 : List RVal}, ArgReps ts1 vs1 rs1 → ArgReps ts2 vs2 rs2 →
    ArgReps (ts1 ++ ts2) (vs1 ++ vs2) (rs1 ++ rs2) := by
  intro ts1
  induction ts1 with
  | nil =>
    intro vs1 rs1 ts2 vs2 rs2 h1 h2
    cases vs1 <;> cases rs1 <;> simp [ArgReps] at h1
    exact h2
  | cons t ts ih =>
    intro vs1 rs1 ts2 vs2 rs2 h1 h2
    cases vs1 with
    | nil => cases rs1 <;> simp [ArgReps] at h1
    | cons v vs =>
      cases rs1 with
      | nil => simp [ArgReps] at h1
      | cons r rs =>
        simp only [ArgReps] at h1
        simp only [List.cons_append, ArgReps]
        exact ⟨h1.1, ih h1.2 h2⟩

/-- addresses as arguments of type `unsigned long` -/
theorem argReps_ptrs : ∀ (prs : List UInt64),
    ArgReps (List.replicate prs.length CSem.Ty.ulong) (prs.map fun x => (x.toNat : Int))
      (prs.map fun x => (⟨.l, x⟩ : RVal)) := by
  intro prs
  induction prs with
  | nil => simp [ArgReps]
  | cons x prs ih =>
    simp only [List.length_cons, List.replicate_succ, List.map_cons, ArgReps]
    refine ⟨?_, ih⟩
    show (if CSem.Ty.ulong.size = 8 then LRep _ _ else _)
    rw [if_pos (show CSem.Ty.ulong.size = 8 from rfl)]
    refine ⟨x, by simp [RVal.asL], ?_⟩
    have := x.toNat_lt
    omega

theorem envOK_ptrs (cs : Bool) (m : Nat) {ts : List CSem.Ty} {vs : List Int} (h : EnvOK cs ts vs) :
    EnvOK cs (List.replicate m CSem.Ty.ulong ++ ts) (List.replicate m 0 ++ vs) := by
  refine ⟨by simp [h.1], ?_⟩
  intro i t v ht hv
  by_cases hi : i < m
  · rw [List.getElem?_append_left (by simpa using hi), List.getElem?_replicate] at ht hv
    simp only [hi, if_true, Option.some.injEq] at ht hv
    subst ht; subst hv
    cases cs <;> decide
  · rw [List.getElem?_append_right (by simpa using hi)] at ht hv
    simp only [List.length_replicate] at ht hv
    exact h.2 _ t v ht hv

/-! ## The array arguments -/

/-- the array arguments are read from the slot temporaries: addresses -/
theorem sim_pargs (T : Stat) {s : Store} {env : Env} {M : Mem}
    (inv : SInv T.M0 T.S.cs T.cnts T.W T.σ T.vtys s env M) (slots : List Nat) (nd : Nat)
    (hpre : ∀ i, i < nd → T.σ.getD i 0 = slots.getD i 0) :
    ∀ (pargs : List (Nat × CSem.Ty × Nat × Nat)),
      pargs.all (fun a => decide (a.1 < nd) && (T.vtys[a.1]? == some a.2.1)) = true →
      ∃ prs : List UInt64, prs.length = pargs.length ∧
        readVals T.S.p env (pargs.map fun a => Val.tmp (tmpName (slots.getD a.1 0))) =
          .ok (prs.map fun x => (⟨.l, x⟩ : RVal)) ∧
        ∀ (j : Nat) (a : Nat × CSem.Ty × Nat × Nat), pargs[j]? = some a →
          ∃ x, prs[j]? = some x ∧ env[tmpName (T.σ.getD a.1 0)]? = some ⟨.l, x⟩ := by
  intro pargs
  induction pargs with
  | nil => intro _; exact ⟨[], rfl, rfl, by intro j a h; simp at h⟩
  | cons a pargs ih =>
    intro hall
    simp only [List.all_cons, Bool.and_eq_true, decide_eq_true_eq, beq_iff_eq] at hall
    obtain ⟨⟨hnd, hkt⟩, hrest⟩ := hall
    obtain ⟨prs, hl, hrd, hget⟩ := ih (by simpa [Bool.and_eq_true] using hrest)
    obtain ⟨x, al, h1, _⟩ := inv.a.slots a.1 a.2.1 (lt_of_get hkt) hkt
    refine ⟨x :: prs, by simp [hl], ?_, ?_⟩
    · simp only [List.map_cons]
      exact readVals_cons (readVal_tmp (by rw [← hpre a.1 hnd]; exact h1)) hrd
    · intro j a' hj
      cases j with
      | zero =>
        simp only [List.getElem?_cons_zero, Option.some.injEq] at hj
        subst hj
        exact ⟨x, rfl, h1⟩
      | succ j =>
        simp only [List.getElem?_cons_succ] at hj ⊢
        exact hget j a' hj

section
variable (T : Stat) {s : Store} {lp : Bool × Bool} {brk cont : String} {c : SCtx}
  {nd : Nat} {pre post : List Item} {env : Env} {M : Mem}

/-- array arguments, arguments, `call`, the callee's activation, the return into this frame -/
theorem sim_callcoreP (n : Nat) (hf : FuncSim T n) (hd : 0 < T.d) {rt : CSem.Ty} {fn : String}
    {pargs : List (Nat × CSem.Ty × Nat × Nat)} {args : List Expr} {g : CSem2.Func} {vs : List Int} {v : Int}
    (hlk : lookup T.P fn = some g) (hret : g.ret = rt)
    (hpar : g.params = List.replicate pargs.length CSem.Ty.ulong ++ args.map (·.ty))
    (hpwl : g.pwin.length = pargs.length)
    (hpwz : (List.zipWith (fun (pw : CSem.Ty × Nat) (pa : Nat × CSem.Ty × Nat × Nat) =>
      pw.1 == pa.2.1 && decide (pw.2 ≤ pa.2.2.1)) g.pwin pargs).all id = true)
    (hparr : pargs.all (fun a => decide (1 ≤ a.2.2.1) && decide (T.cnts[a.1]? = some a.2.2.1) &&
      decide (a.2.2.2 = xbase T.cnts a.1)) = true)
    (hpwt : pargs.all (fun a => decide (a.1 < nd) && (T.vtys[a.1]? == some a.2.1)) = true)
    (hvs : evalArgs T.S.cs s args = some vs)
    (hbody : exec T.S.cs T.P n (initStore g (List.replicate g.pwin.length 0 ++ vs) (windows s g.pwin pargs))
      g.body = some (.ret v))
    (hwa : args.all (fun e => e.wt (T.vtys.take nd)) = true) (hp : Pos T c nd pre)
    (hpre : ∀ i, i < nd → T.σ.getD i 0 = c.slots.getD i 0)
    (hfut : ∀ k, nd ≤ k → k < T.vtys.length →
      (lowerArgs T.S.cs c.slots args c.ctx).2.2.lastid + 1 < T.σ.getD k 0)
    (hits : T.S.its = pre ++ (lowerArgs T.S.cs c.slots args c.ctx).1 ++
      .ins (.call (some (tmpName ((lowerArgs T.S.cs c.slots args c.ctx).2.2.lastid + 1), .base (cls rt)))
        (.glob fn false) (pargs.map (fun a => ((Qbe.Ty.base .l, Val.tmp (tmpName (c.slots.getD a.1 0))) : Qbe.Ty × Val)) ++
          (lowerArgs T.S.cs c.slots args c.ctx).2.1) none) :: post)
    (inv : SInv T.M0 T.S.cs T.cnts T.W T.σ T.vtys s env M) :
    ∃ k env2 r', T.Reach k (T.at env M pre) (T.at env2 M (pre ++ (lowerArgs T.S.cs c.slots args c.ctx).1 ++
        [.ins (.call (some (tmpName ((lowerArgs T.S.cs c.slots args c.ctx).2.2.lastid + 1), .base (cls rt)))
          (.glob fn false) (pargs.map (fun a => ((Qbe.Ty.base .l, Val.tmp (tmpName (c.slots.getD a.1 0))) : Qbe.Ty × Val)) ++
            (lowerArgs T.S.cs c.slots args c.ctx).2.1) none)])) ∧
      SInv T.M0 T.S.cs T.cnts T.W T.σ T.vtys s env2 M ∧
      Frame c.lastid ((lowerArgs T.S.cs c.slots args c.ctx).2.2.lastid + 1) env env2 ∧
      readVal T.S.p env2 (.tmp (tmpName ((lowerArgs T.S.cs c.slots args c.ctx).2.2.lastid + 1))) = .ok r' ∧
      Rep rt v r' ∧ InRange (rt.intTy T.S.cs) v := by
  generalize hla : lowerArgs T.S.cs c.slots args c.ctx = la at hfut hits ⊢
  generalize hpa : pargs.map (fun a => ((Qbe.Ty.base .l, Val.tmp (tmpName (c.slots.getD a.1 0))) : Qbe.Ty × Val)) = pa
    at hits ⊢
  have hvars : VarsIn (setM T.S M) c.slots (T.vtys.take nd) s env := by
    intro i t v' ht hv'
    obtain ⟨ht', hi⟩ := take_sub ht
    obtain ⟨a, r, h1, h2, h3⟩ := inv.varsIn i t v' ht' hv'
    exact ⟨a, r, by rw [← hpre i hi]; exact h1, h2, h3⟩
  have hrange : ∀ (i : Nat) (t : CSem.Ty) (v' : Int), (T.vtys.take nd)[i]? = some t →
      s[i]? = some (some v') → InRange (t.intTy T.S.cs) v' :=
    fun i t v' ht hv' => inv.range i t v' (take_sub ht).1 hv'
  have hits1 : T.S.its = pre ++ (lowerArgs T.S.cs c.slots args c.ctx).1 ++
      (.ins (.call (some (tmpName (la.2.2.lastid + 1), .base (cls rt))) (.glob fn false) (pa ++ la.2.1) none) ::
        post) := by rw [hla]; exact hits
  obtain ⟨n1, env1, rs, hreach1, hfr1, hrd1, hreps1, htys1⟩ := sim_args T c.slots (T.vtys.take nd) s M hrange
    args c.ctx pre _ env vs hwa hvs hits1 hp.cur hp.curOK (fun i t ht => hp.le i (take_sub ht).2) hvars
  rw [hla] at hreach1 hfr1 hrd1 htys1
  have hl1 : c.lastid ≤ la.2.2.lastid := by
    have := (lowerArgs_good T.S.cs c.slots args c.ctx).1
    rw [hla] at this; exact this
  have inv1 : SInv T.M0 T.S.cs T.cnts T.W T.σ T.vtys s env1 M :=
    inv.env (slots_kept hp hpre (fun k hk hkv => by have := hfut k hk hkv; omega) hfr1)
  -- the array arguments
  obtain ⟨prs, hprl, hprd, hprget⟩ := sim_pargs T inv1 c.slots nd hpre pargs hpwt
  have hrdall : readVals T.S.p env1 ((pa ++ la.2.1).map (·.2)) =
      .ok ((prs.map fun x => (⟨.l, x⟩ : RVal)) ++ rs) := by
    rw [List.map_append]
    refine readVals_append ?_ hrd1
    rw [← hpa, List.map_map]
    exact hprd
  -- the callee
  obtain ⟨sid, hfi⟩ := T.hfuncs fn g hlk
  have henvA : EnvOK T.S.cs (args.map (·.ty)) vs := evalArgs_envOK T.S.cs _ s hrange args vs hwa hvs
  have henvOK : EnvOK T.S.cs g.params (List.replicate g.pwin.length 0 ++ vs) := by
    rw [hpar, hpwl]; exact envOK_ptrs T.S.cs _ henvA
  have hrepsAll : ArgReps g.params ((prs.map fun x => (x.toNat : Int)) ++ vs)
      ((prs.map fun x => (⟨.l, x⟩ : RVal)) ++ rs) := by
    rw [hpar, ← hprl]
    exact (argReps_ptrs prs).append hreps1
  have htys : (pa ++ la.2.1).map (·.1) = g.params.map (fun t => Qbe.Ty.base (cls t)) := by
    rw [List.map_append, htys1, hpar, List.map_append, List.map_map, ← hpa, List.map_map]
    congr 1
    simp only [List.map_replicate]
    apply List.ext_getElem?
    intro i
    simp only [List.getElem?_map, List.getElem?_replicate, Function.comp]
    by_cases hi : i < pargs.length
    · simp [hi, List.getElem?_eq_getElem hi]; rfl
    · simp [hi, List.getElem?_eq_none (Nat.le_of_not_lt hi)]
  have hroomM := T.room_at inv1
  obtain ⟨env0, henter, hargs0⟩ := enter_rep T.S.p T.S.cs sid g M (pa ++ la.2.1) _ _ htys hrepsAll
    (hroomM.sp_enter hd)
  have hstep1 := step_call_item T hits hrdall hfi henter
  have hsptop : M.sp ≤ stackTop := Nat.le_trans inv1.a.sp_hi inv1.a.top
  have hwinOK : WinOK T.S.cs g (windows s g.pwin pargs) env0 M := by
    intro j t w hq
    have hj : j < pargs.length := by rw [← hpwl]; exact lt_of_get hq
    obtain ⟨a, ha⟩ : ∃ a, pargs[j]? = some a := ⟨pargs[j], List.getElem?_eq_getElem hj⟩
    -- the static facts about this argument
    have hz : (t == a.2.1 && decide (w ≤ a.2.2.1)) = true := by
      have hzj : (List.zipWith (fun (pw : CSem.Ty × Nat) (pa : Nat × CSem.Ty × Nat × Nat) =>
          pw.1 == pa.2.1 && decide (pw.2 ≤ pa.2.2.1)) g.pwin pargs)[j]? =
          some (t == a.2.1 && decide (w ≤ a.2.2.1)) := by
        rw [List.getElem?_zipWith, hq, ha]
      exact List.all_eq_true.1 hpwz _ (List.mem_of_getElem? hzj)
    simp only [Bool.and_eq_true, beq_iff_eq, decide_eq_true_eq] at hz
    obtain ⟨hta, hwn⟩ := hz
    have harr := List.all_eq_true.1 hparr a (List.mem_of_getElem? ha)
    simp only [Bool.and_eq_true, decide_eq_true_eq] at harr
    obtain ⟨⟨hn1, hcn⟩, hxb⟩ := harr
    have hwt := List.all_eq_true.1 hpwt a (List.mem_of_getElem? ha)
    simp only [Bool.and_eq_true, decide_eq_true_eq, beq_iff_eq] at hwt
    obtain ⟨hand, hkt⟩ := hwt
    have hcd : T.cnts.getD a.1 1 = a.2.2.1 := by simp [List.getD, hcn]
    obtain ⟨x, hx, hxe⟩ := hprget j a ha
    obtain ⟨x', al, h1, h2, h3, h4, h5, h5b, h5c, h7⟩ := inv1.a.slots a.1 a.2.1 (lt_of_get hkt) hkt
    have hxx : x' = x := by
      rw [hxe] at h1
      simp only [Option.some.injEq, RVal.mk.injEq, true_and] at h1
      exact h1.symm
    subst hxx
    -- the register of the parameter
    have hpj : g.params[j]? = some CSem.Ty.ulong := by
      rw [hpar, List.getElem?_append_left (by simpa using hj), List.getElem?_replicate]; simp [hj]
    have hρj : ((prs.map fun x => (x.toNat : Int)) ++ vs)[j]? = some (x'.toNat : Int) := by
      rw [List.getElem?_append_left (by simp [hprl]; exact hj), List.getElem?_map, hx]; rfl
    obtain ⟨r, hr, hsv⟩ := hargs0 j _ _ hpj hρj
    refine ⟨r, x', T.M0.stack.size + a.1, al, hr, hsv, ?_, h2, h3, ?_, h5b, ?_, ?_⟩
    · have := inv1.a.ssize; have := lt_of_get hkt; omega
    · rw [h5, hcd, ← hta, Nat.mul_comm]; exact Nat.mul_le_mul_left _ hwn
    · exact Nat.le_trans h5c inv1.a.top
    · intro e v' he hv'
      rw [windows_get s g.pwin pargs j t w a hq ha e he] at hv'
      have hv2 := join_some (Option.some.inj hv')
      rw [hxb] at hv2
      rw [hta]
      exact ⟨h7 e v' (by rw [hcd]; omega) hv2, inv1.xrange a.1 e a.2.1 v' hkt (by rw [hcd]; omega) hv2⟩
  obtain ⟨k, st, r, hreachc, hstepc, hrr, hrg⟩ := hf fn g sid (List.replicate g.pwin.length 0 ++ vs)
    (windows s g.pwin pargs) v M
    (mkFr T.S.x env1 (posOf T.S.o0 (pre ++ la.1)).1 (posOf T.S.o0 (pre ++ la.1)).2 :: T.S.x.rest) T.S.x.tr env0
    hlk henvOK inv1.a.mem hroomM hsptop
    (fun k t v' hk ht hv' => hargs0 k t v' ht (by
      rw [List.getElem?_append_right (by simpa using hk)] at hv'
      rw [List.getElem?_append_right (by simp [hprl, ← hpwl]; exact hk)]
      simpa [hprl, hpwl] using hv'))
    hwinOK hbody
  -- back in the caller
  rw [hret] at hrr hrg
  obtain ⟨r', hco, hrep'⟩ := rep_coerce hrr.1
  have hstep2 := retCont_call_item T (env := env1) (M := M) hits hco
  rw [← hstepc] at hstep2
  refine ⟨n1 + 1 + k + 1, env1.insert (tmpName (la.2.2.lastid + 1)) r', r', ?_, ?_, ?_,
    readVal_insert_self _ _ _ _, hrep', hrg⟩
  · exact ((hreach1.trans (Reach.one hstep1)).trans hreachc).trans (Reach.one hstep2)
  · have hfr2 : Frame c.lastid (la.2.2.lastid + 1) env1 (env1.insert (tmpName (la.2.2.lastid + 1)) r') :=
      Frame.insert env1 r' (by omega) (Nat.le_refl _)
    exact inv1.env (slots_kept hp hpre hfut hfr2)
  · exact Frame.trans hfr1 (Frame.insert env1 r' (Nat.lt_succ_self _) (Nat.le_refl _)) (Nat.le_refl _) hl1
      (Nat.le_succ _) (Nat.le_refl _)

/-- `[x =] f(a₁, …, args);` with array arguments -/
theorem sim_callp (n : Nat) (hf : FuncSim T n) (hd : 0 < T.d) (dst : Option (Nat × CSem.Ty)) (rt : CSem.Ty)
    (fn : String) (pargs : List (Nat × CSem.Ty × Nat × Nat)) (args : List Expr) {out : CSem2.Outcome} {nd' : Nat}
    (hex : exec T.S.cs T.P (n + 1) s (.callp dst rt fn pargs args) = some out)
    (hfr : frag T.P T.cnts T.W (.callp dst rt fn pargs args) = true)
    (hwt : Stmt.wt T.vtys T.ret lp.1 lp.2 nd (.callp dst rt fn pargs args) = some nd') (hp : Pos T c nd pre)
    (hext : Ext T (funcstmt T.S.cs brk cont (.callp dst rt fn pargs args) c).ctx)
    (hits : T.S.its = pre ++ (funcstmt T.S.cs brk cont (.callp dst rt fn pargs args) c).items ++ post)
    (inv : SInv T.M0 T.S.cs T.cnts T.W T.σ T.vtys s env M) :
    Post T lp brk cont (T.at env M pre) (pre ++ (funcstmt T.S.cs brk cont (.callp dst rt fn pargs args) c).items)
      (funcstmt T.S.cs brk cont (.callp dst rt fn pargs args) c).ctx out := by
  simp only [exec] at hex
  cases hlk : lookup T.P fn with
  | none => simp only [hlk] at hex; cases hex
  | some g =>
    simp only [hlk, Option.bind_eq_some_iff] at hex
    obtain ⟨vs, hvs, hex⟩ := hex
    have hne : T.P.isEmpty = false := by
      cases hP : T.P with
      | nil => rw [hP] at hlk; simp [lookup] at hlk
      | cons _ _ => rfl
    simp only [frag, hne, Bool.false_or, callsOK, hlk, arrsOK, Bool.and_eq_true, beq_iff_eq] at hfr
    obtain ⟨⟨⟨⟨⟨hret, hpar⟩, hpwl⟩, hpwz⟩, hparr⟩, hdst, _⟩ := hfr
    simp only [Stmt.wt] at hwt
    split at hwt
    · rename_i hw
      cases hbody : exec T.S.cs T.P n (initStore g (List.replicate g.pwin.length 0 ++ vs) (windows s g.pwin pargs)) g.body with
      | none => simp only [hbody] at hex; cases hex
      | some ob =>
        simp only [hbody] at hex
        cases ob with
        | normal _ => cases hex
        | brk _ => cases hex
        | cont _ => cases hex
        | ret v =>
          simp only [] at hex
          cases dst with
          | none =>
            simp only [Option.some.injEq] at hex
            subst hex
            simp only [funcstmt, funcopen_none hp.jump, List.nil_append] at hext hits ⊢
            have hpre : ∀ i, i < nd → T.σ.getD i 0 = c.slots.getD i 0 := fun i hi => hext.1 i (by
              show i < c.slots.length; rw [hp.nslots]; exact hi)
            have hfut : ∀ k, nd ≤ k → k < T.vtys.length →
                (lowerArgs T.S.cs c.slots args c.ctx).2.2.lastid + 1 < T.σ.getD k 0 := fun k hk hkv =>
              hext.2 k (by show c.slots.length ≤ k; rw [hp.nslots]; exact hk) hkv
            have hits' : T.S.its = pre ++ (lowerArgs T.S.cs c.slots args c.ctx).1 ++
                .ins (.call (some (tmpName ((lowerArgs T.S.cs c.slots args c.ctx).2.2.lastid + 1), .base (cls rt)))
                  (.glob fn false) (pargs.map (fun a => ((Qbe.Ty.base .l, Val.tmp (tmpName (c.slots.getD a.1 0))) : Qbe.Ty × Val)) ++ (lowerArgs T.S.cs c.slots args c.ctx).2.1) none) :: post := by
              rw [hits]; simp only [List.append_assoc, List.singleton_append]
            obtain ⟨k, env2, r', hreach, inv2, _⟩ := sim_callcoreP T n hf hd hlk hret hpar hpwl hpwz hparr hw.2.2 hvs hbody hw.1 hp
              hpre hfut hits' inv
            refine ⟨hp.jump, k, env2, M, ?_, inv2⟩
            rw [← List.append_assoc]
            exact hreach
          | some d =>
            obtain ⟨i, t⟩ := d
            simp only [Option.some.injEq] at hex
            subst hex
            simp only [decide_eq_true_eq] at hdst
            simp only [dstOK, Bool.and_eq_true, decide_eq_true_eq, beq_iff_eq] at hw
            obtain ⟨hwa, ⟨hi, hkt⟩, hwp⟩ := hw
            simp only [funcstmt, funcopen_none hp.jump, List.nil_append] at hext hits ⊢
            have hl1 : c.lastid ≤ (lowerArgs T.S.cs c.slots args c.ctx).2.2.lastid :=
              (lowerArgs_good T.S.cs c.slots args c.ctx).1
            have hits0 : T.S.its = (pre ++ (lowerArgs T.S.cs c.slots args c.ctx).1 ++
                [.ins (.call (some (tmpName ((lowerArgs T.S.cs c.slots args c.ctx).2.2.lastid + 1), .base (cls rt)))
                  (.glob fn false) (pargs.map (fun a => ((Qbe.Ty.base .l, Val.tmp (tmpName (c.slots.getD a.1 0))) : Qbe.Ty × Val)) ++ (lowerArgs T.S.cs c.slots args c.ctx).2.1) none)]) ++
                (if t = rt then (⟨[], .tmp (tmpName ((lowerArgs T.S.cs c.slots args c.ctx).2.2.lastid + 1)),
                    ⟨(lowerArgs T.S.cs c.slots args c.ctx).2.2.lastid + 1,
                      (lowerArgs T.S.cs c.slots args c.ctx).2.2.blockid,
                      (lowerArgs T.S.cs c.slots args c.ctx).2.2.cur⟩⟩ : Out)
                  else convert T.S.cs ⟨(lowerArgs T.S.cs c.slots args c.ctx).2.2.lastid + 1,
                      (lowerArgs T.S.cs c.slots args c.ctx).2.2.blockid,
                      (lowerArgs T.S.cs c.slots args c.ctx).2.2.cur⟩ t rt
                    (.tmp (tmpName ((lowerArgs T.S.cs c.slots args c.ctx).2.2.lastid + 1)))).items ++
                (storeIns t (if t = rt then (⟨[], .tmp (tmpName ((lowerArgs T.S.cs c.slots args c.ctx).2.2.lastid + 1)),
                    ⟨(lowerArgs T.S.cs c.slots args c.ctx).2.2.lastid + 1,
                      (lowerArgs T.S.cs c.slots args c.ctx).2.2.blockid,
                      (lowerArgs T.S.cs c.slots args c.ctx).2.2.cur⟩⟩ : Out)
                  else convert T.S.cs ⟨(lowerArgs T.S.cs c.slots args c.ctx).2.2.lastid + 1,
                      (lowerArgs T.S.cs c.slots args c.ctx).2.2.blockid,
                      (lowerArgs T.S.cs c.slots args c.ctx).2.2.cur⟩ t rt
                    (.tmp (tmpName ((lowerArgs T.S.cs c.slots args c.ctx).2.2.lastid + 1)))).val
                  (c.slots.getD i 0) :: post) := by
              rw [hits]; simp only [List.append_assoc, List.singleton_append, List.cons_append, List.nil_append]
            have hcast := fun (env2 : Env) (r' : RVal) => sim_castOut T
              ⟨(lowerArgs T.S.cs c.slots args c.ctx).2.2.lastid + 1,
                (lowerArgs T.S.cs c.slots args c.ctx).2.2.blockid,
                (lowerArgs T.S.cs c.slots args c.ctx).2.2.cur⟩ t rt
              (.tmp (tmpName ((lowerArgs T.S.cs c.slots args c.ctx).2.2.lastid + 1)))
              (env2 := env2) (M := M) (v := v) (r' := r') hits0
            have hle : (lowerArgs T.S.cs c.slots args c.ctx).2.2.lastid + 1 ≤
                (if t = rt then (⟨[], .tmp (tmpName ((lowerArgs T.S.cs c.slots args c.ctx).2.2.lastid + 1)),
                    ⟨(lowerArgs T.S.cs c.slots args c.ctx).2.2.lastid + 1,
                      (lowerArgs T.S.cs c.slots args c.ctx).2.2.blockid,
                      (lowerArgs T.S.cs c.slots args c.ctx).2.2.cur⟩⟩ : Out)
                  else convert T.S.cs ⟨(lowerArgs T.S.cs c.slots args c.ctx).2.2.lastid + 1,
                      (lowerArgs T.S.cs c.slots args c.ctx).2.2.blockid,
                      (lowerArgs T.S.cs c.slots args c.ctx).2.2.cur⟩ t rt
                    (.tmp (tmpName ((lowerArgs T.S.cs c.slots args c.ctx).2.2.lastid + 1)))).ctx.lastid := by
              split
              · exact Nat.le_refl _
              · exact (convert_straight T.S.cs ⟨(lowerArgs T.S.cs c.slots args c.ctx).2.2.lastid + 1,
                  (lowerArgs T.S.cs c.slots args c.ctx).2.2.blockid,
                  (lowerArgs T.S.cs c.slots args c.ctx).2.2.cur⟩ t rt _).lastid
            generalize hov : (if t = rt then (⟨[], .tmp (tmpName ((lowerArgs T.S.cs c.slots args c.ctx).2.2.lastid + 1)),
                    ⟨(lowerArgs T.S.cs c.slots args c.ctx).2.2.lastid + 1,
                      (lowerArgs T.S.cs c.slots args c.ctx).2.2.blockid,
                      (lowerArgs T.S.cs c.slots args c.ctx).2.2.cur⟩⟩ : Out)
                  else convert T.S.cs ⟨(lowerArgs T.S.cs c.slots args c.ctx).2.2.lastid + 1,
                      (lowerArgs T.S.cs c.slots args c.ctx).2.2.blockid,
                      (lowerArgs T.S.cs c.slots args c.ctx).2.2.cur⟩ t rt
                    (.tmp (tmpName ((lowerArgs T.S.cs c.slots args c.ctx).2.2.lastid + 1)))) = ov
              at hext hits hits0 hcast hle ⊢
            have hpre : ∀ j, j < nd → T.σ.getD j 0 = c.slots.getD j 0 := fun j hj => hext.1 j (by
              show j < c.slots.length; rw [hp.nslots]; exact hj)
            have hfut3 : ∀ k, nd ≤ k → k < T.vtys.length → ov.ctx.lastid < T.σ.getD k 0 := fun k hk hkv =>
              hext.2 k (by show c.slots.length ≤ k; rw [hp.nslots]; exact hk) hkv
            have hits' : T.S.its = pre ++ (lowerArgs T.S.cs c.slots args c.ctx).1 ++
                .ins (.call (some (tmpName ((lowerArgs T.S.cs c.slots args c.ctx).2.2.lastid + 1), .base (cls rt)))
                  (.glob fn false) (pargs.map (fun a => ((Qbe.Ty.base .l, Val.tmp (tmpName (c.slots.getD a.1 0))) : Qbe.Ty × Val)) ++ (lowerArgs T.S.cs c.slots args c.ctx).2.1) none) ::
                (ov.items ++ storeIns t ov.val (c.slots.getD i 0) :: post) := by
              rw [hits0]; simp only [List.append_assoc, List.singleton_append, List.cons_append, List.nil_append]
            obtain ⟨k, env2, r', hreach, inv2, hfr2, hval2, hrep2, hrg⟩ := sim_callcoreP T n hf hd hlk hret hpar hpwl hpwz hparr hwp hvs
              hbody hwa hp hpre (fun k hk hkv => by have := hfut3 k hk hkv; omega) hits' inv
            obtain ⟨n3, env3, r3, hreach3, hfr3, hval3, hrep3, _⟩ := hcast env2 r' hval2 hrep2 hrg
            have inv3 : SInv T.M0 T.S.cs T.cnts T.W T.σ T.vtys s env3 M :=
              inv2.env (slots_kept hp hpre hfut3 (Frame.mono hfr3
                (by show c.lastid ≤ (lowerArgs T.S.cs c.slots args c.ctx).2.2.lastid + 1; omega) (Nat.le_refl _)))
            have hv : InRange (t.intTy T.S.cs) (conv (rt.intTy T.S.cs) (t.intTy T.S.cs) v) :=
              Eval.wrap_inRange (ty_valid T.S.cs t) _
            obtain ⟨M', hr4, inv4⟩ := sim_store T i t ov.val (c.slots.getD i 0) hits0 (hpre i hi) hkt hdst hval3 hv
              hrep3 inv3
            refine ⟨hp.jump, k + n3 + 1, env3, M', ?_, inv4⟩
            have := (hreach.trans hreach3).trans hr4
            simp only [List.append_assoc, List.singleton_append, List.cons_append, List.nil_append] at this ⊢
            exact this
    · cases hwt

end

end CprocVerif.LowerMach2

import CprocVerif.Lemmas.InitAdd
import CprocVerif.Spec.Image

/-!
# Lemmas about `Spec/Image.lean` and its relation to `initadd` / `initclear`

Writes to disjoint bit ranges commute; a write absorbs earlier writes it covers; therefore the
list `initadd` builds has the same image as the sequence of writes it was built from.
-/

namespace CprocVerif.Image
open CprocVerif.Init

/-! ## bits -/

theorem testBit_ofBits (n : Nat) (f : Nat → Bool) (k : Nat) :
    (ofBits n f).testBit k = (decide (k < n) && f k) := by
  induction n generalizing f k with
  | zero => simp [ofBits]
  | succ n ih =>
    unfold ofBits
    cases k with
    | zero =>
      rw [Nat.testBit_zero]
      cases f 0 <;> simp <;> omega
    | succ k =>
      rw [Nat.testBit_succ]
      have : ((if f 0 = true then 1 else 0) + 2 * ofBits n fun k => f (k + 1)) / 2 = ofBits n fun k => f (k + 1) := by
        cases f 0 <;> simp <;> omega
      rw [this, ih]
      simp

theorem ofBits_lt (n : Nat) (f : Nat → Bool) : ofBits n f < 2 ^ n := by
  induction n generalizing f with
  | zero => simp [ofBits]
  | succ n ih =>
    unfold ofBits
    have := ih (fun k => f (k + 1))
    rw [Nat.pow_succ]
    cases f 0 <;> simp <;> omega

theorem ofBits_congr {n : Nat} {f g : Nat → Bool} (h : ∀ k < n, f k = g k) : ofBits n f = ofBits n g := by
  apply Nat.eq_of_testBit_eq
  intro k
  rw [testBit_ofBits, testBit_ofBits]
  by_cases hk : k < n
  · simp [hk, h k hk]
  · simp [hk]

/-- a byte is determined by its 8 bits -/
theorem ofBits_testBit {x : Nat} (hx : x < 256) : ofBits 8 (fun k => x.testBit k) = x := by
  apply Nat.eq_of_testBit_eq
  intro k
  rw [testBit_ofBits]
  by_cases hk : k < 8
  · simp [hk]
  · have : x < 2 ^ k := Nat.lt_of_lt_of_le hx (by
      have : 2 ^ 8 ≤ 2 ^ k := Nat.pow_le_pow_right (by omega) (by omega)
      simpa using this)
    simp [hk, Nat.testBit_lt_two_pow this]

/-! ## one write, one cell -/

/-- values other than integers occupy whole bytes -/
def ByteVal (i : Init) : Prop :=
  match i.val with
  | .int _ _ => True
  | _ => i.before = 0 ∧ i.after = 0

theorem writeCell_of_not_touches {i : Init} {j : Nat} {c : Cell} (h : ¬ touches i j) :
    writeCell i j c = c := by
  unfold writeCell; rw [if_neg h]

theorem touches_of_sub {a b : Init} {j : Nat} (h : Inside a b) (ht : touches a j) : touches b j := by
  unfold Inside at h; unfold touches at *; omega

theorem not_touches_of_disj_full {a b : Init} {j : Nat} (hd : Disj a b)
    (hb : b.lo ≤ 8 * j ∧ 8 * j + 8 ≤ b.hi) : ¬ touches a j := by
  unfold Disj at hd; unfold touches; omega

/-- a byte-valued write that touches cell `j` covers the whole cell -/
theorem full_of_byteVal {i : Init} {j : Nat} (hb : i.before = 0 ∧ i.after = 0) (ht : touches i j) :
    i.lo ≤ 8 * j ∧ 8 * j + 8 ≤ i.hi := by
  unfold touches at ht
  unfold Init.lo Init.hi at *
  omega

/-- the value of cell `j` after an integer write -/
def intCell (i : Init) (u : Nat) (j : Nat) (old : Cell) : Cell :=
  .byte (ofBits 8 fun k =>
    if i.lo ≤ 8 * j + k ∧ 8 * j + k < i.hi then u.testBit (8 * j + k - i.lo) else (Cell.toNat old).testBit k)

theorem writeCell_int {i : Init} {w u j : Nat} {c : Cell} (hv : i.val = .int w u) (ht : touches i j) :
    writeCell i j c = intCell i u j c := by
  unfold writeCell intCell; rw [if_pos ht, hv]

theorem writeCell_byteval {i : Init} {j : Nat} {c : Cell} (hv : ∀ w u, i.val ≠ .int w u) (ht : touches i j) :
    writeCell i j c = valCell i.val (j - i.start) := by
  unfold writeCell; rw [if_pos ht]
  split
  · rename_i w u h; exact absurd h (hv w u)
  · rfl

theorem toNat_intCell_testBit (i : Init) (u j : Nat) (c : Cell) (k : Nat) :
    (Cell.toNat (intCell i u j c)).testBit k =
      (decide (k < 8) && if i.lo ≤ 8 * j + k ∧ 8 * j + k < i.hi then u.testBit (8 * j + k - i.lo)
        else (Cell.toNat c).testBit k) := by
  unfold intCell Cell.toNat
  rw [testBit_ofBits]

/-- writes to disjoint bit ranges commute -/
theorem writeCell_comm {a b : Init} (hd : Disj a b) (ha : ByteVal a) (hb : ByteVal b) (j : Nat) (c : Cell) :
    writeCell a j (writeCell b j c) = writeCell b j (writeCell a j c) := by
  by_cases hta : touches a j
  · by_cases htb : touches b j
    · -- both touch the cell: both are integer writes
      cases hva : a.val with
      | int wa ua =>
        cases hvb : b.val with
        | int wb ub =>
          rw [writeCell_int hva hta, writeCell_int hvb htb, writeCell_int hva hta, writeCell_int hvb htb]
          unfold intCell
          refine congrArg Cell.byte (ofBits_congr ?_)
          intro k hk
          have e1 := toNat_intCell_testBit b ub j c k
          have e2 := toNat_intCell_testBit a ua j c k
          unfold intCell at e1 e2
          rw [e1, e2]
          unfold Disj at hd
          by_cases h1 : a.lo ≤ 8 * j + k ∧ 8 * j + k < a.hi
          · have h2 : ¬ (b.lo ≤ 8 * j + k ∧ 8 * j + k < b.hi) := by omega
            simp [h1, h2, hk]
          · by_cases h2 : b.lo ≤ 8 * j + k ∧ 8 * j + k < b.hi
            · simp [h1, h2, hk]
            · simp [h1, h2, hk]
        | _ =>
          exfalso
          have hb' : b.before = 0 ∧ b.after = 0 := by unfold ByteVal at hb; rw [hvb] at hb; exact hb
          exact not_touches_of_disj_full hd (full_of_byteVal hb' htb) hta
      | _ =>
        exfalso
        have ha' : a.before = 0 ∧ a.after = 0 := by unfold ByteVal at ha; rw [hva] at ha; exact ha
        have hd' : Disj b a := by unfold Disj at *; omega
        exact not_touches_of_disj_full hd' (full_of_byteVal ha' hta) htb
    · rw [writeCell_of_not_touches htb, writeCell_of_not_touches htb]
  · rw [writeCell_of_not_touches hta, writeCell_of_not_touches hta]

/-- a write makes an earlier write that it covers irrelevant -/
theorem writeCell_absorb {r n : Init} (hs : Inside r n) (hr : ByteVal r) (j : Nat) (c : Cell) :
    writeCell n j (writeCell r j c) = writeCell n j c := by
  by_cases htn : touches n j
  · by_cases htr : touches r j
    · cases hvn : n.val with
      | int wn un =>
        rw [writeCell_int hvn htn, writeCell_int hvn htn]
        unfold intCell
        refine congrArg Cell.byte (ofBits_congr ?_)
        intro k hk
        by_cases h1 : n.lo ≤ 8 * j + k ∧ 8 * j + k < n.hi
        · simp [h1]
        · simp only [h1, if_false]
          cases hvr : r.val with
          | int wr ur =>
            rw [writeCell_int hvr htr, toNat_intCell_testBit]
            unfold Inside at hs
            have h2 : ¬ (r.lo ≤ 8 * j + k ∧ 8 * j + k < r.hi) := by omega
            simp [h2, hk]
          | _ =>
            exfalso
            have hr' : r.before = 0 ∧ r.after = 0 := by unfold ByteVal at hr; rw [hvr] at hr; exact hr
            have := full_of_byteVal hr' htr
            unfold Inside at hs
            omega
      | _ =>
        rw [writeCell_byteval (by intro w u; rw [hvn]; simp) htn,
            writeCell_byteval (by intro w u; rw [hvn]; simp) htn]
    · rw [writeCell_of_not_touches htr]
  · have htr : ¬ touches r j := fun h => htn (touches_of_sub hs h)
    rw [writeCell_of_not_touches htn, writeCell_of_not_touches htn, writeCell_of_not_touches htr]

/-! ## folds -/

/-- cell `j` after the writes `l`, starting from `c` -/
def cellFold (l : List Init) (j : Nat) (c : Cell) : Cell := l.foldl (fun c i => writeCell i j c) c

theorem cellAt_eq (l : List Init) (j : Nat) : cellAt l j = cellFold l j (.byte 0) := rfl

@[simp] theorem cellFold_nil (j : Nat) (c : Cell) : cellFold [] j c = c := rfl
@[simp] theorem cellFold_cons (i : Init) (l : List Init) (j : Nat) (c : Cell) :
    cellFold (i :: l) j c = cellFold l j (writeCell i j c) := rfl
theorem cellFold_append (l m : List Init) (j : Nat) (c : Cell) :
    cellFold (l ++ m) j c = cellFold m j (cellFold l j c) := by
  unfold cellFold; rw [List.foldl_append]

theorem cellFold_untouched {l : List Init} {j : Nat} (h : ∀ x ∈ l, ¬ touches x j) (c : Cell) :
    cellFold l j c = c := by
  induction l generalizing c with
  | nil => rfl
  | cons x xs ih =>
    rw [cellFold_cons, writeCell_of_not_touches (h x List.mem_cons_self)]
    exact ih (fun y hy => h y (List.mem_cons_of_mem _ hy)) c

/-- a write commutes to the front of writes it is disjoint from -/
theorem cellFold_comm {m : List Init} {n : Init} (hd : ∀ x ∈ m, Disj x n ∧ ByteVal x) (hn : ByteVal n)
    (j : Nat) (c : Cell) : cellFold (m ++ [n]) j c = cellFold (n :: m) j c := by
  induction m generalizing c with
  | nil => rfl
  | cons x xs ih =>
    rw [List.cons_append, cellFold_cons, ih (fun y hy => hd y (List.mem_cons_of_mem _ hy)),
      cellFold_cons, cellFold_cons, cellFold_cons]
    obtain ⟨h1, h2⟩ := hd x List.mem_cons_self
    rw [writeCell_comm (a := n) (b := x) (by unfold Disj at *; omega) hn h2]

theorem cellFold_absorb {r : List Init} {n : Init} (hs : ∀ x ∈ r, Inside x n ∧ ByteVal x)
    (j : Nat) (c : Cell) : cellFold (r ++ [n]) j c = writeCell n j c := by
  induction r generalizing c with
  | nil => rfl
  | cons x xs ih =>
    rw [List.cons_append, cellFold_cons, ih (fun y hy => hs y (List.mem_cons_of_mem _ hy))]
    exact writeCell_absorb (hs x List.mem_cons_self).1 (hs x List.mem_cons_self).2 j c

/-! ## `image` cell by cell -/

theorem length_write (img : List Cell) (i : Init) : (write img i).length = img.length := by
  unfold write; simp

theorem length_foldl_write (l : List Init) (img : List Cell) : (l.foldl write img).length = img.length := by
  induction l generalizing img with
  | nil => rfl
  | cons i l ih => rw [List.foldl_cons, ih, length_write]

theorem length_image (size : Nat) (l : List Init) : (image size l).length = size := by
  unfold image; rw [length_foldl_write]; simp [zeros]

theorem getElem?_foldl_write (l : List Init) (img : List Cell) (j : Nat) :
    (l.foldl write img)[j]? = (img[j]?).map (cellFold l j) := by
  induction l generalizing img with
  | nil => simp only [List.foldl_nil]; cases img[j]? <;> rfl
  | cons i l ih =>
    rw [List.foldl_cons, ih]
    unfold write
    rw [List.getElem?_mapIdx]
    cases img[j]? <;> simp

theorem getElem?_image {size j : Nat} (l : List Init) (hj : j < size) :
    (image size l)[j]? = some (cellAt l j) := by
  unfold image
  rw [getElem?_foldl_write]
  simp [zeros, hj, cellAt_eq]

/-- extensionality: a list of `size` cells equal to the image cell by cell is the image -/
theorem eq_image_of_cells {size : Nat} {l : List Init} {cells : List Cell} (hlen : cells.length = size)
    (h : ∀ j, j < size → cells[j]? = some (cellAt l j)) : cells = image size l := by
  apply List.ext_getElem?
  intro j
  by_cases hj : j < size
  · rw [h j hj, getElem?_image l hj]
  · rw [List.getElem?_eq_none (by omega), List.getElem?_eq_none (by rw [length_image]; omega)]

/-- a bit that no write covers stays zero -/
theorem cellAt_zero_of_untouched {inits : List Init} (hb : ∀ i ∈ inits, ByteVal i) {j k : Nat} (hk : k < 8)
    (hfree : ∀ i ∈ inits, ¬ (i.lo ≤ 8 * j + k ∧ 8 * j + k < i.hi)) :
    ∃ n, cellAt inits j = .byte n ∧ n.testBit k = false := by
  rw [cellAt_eq]
  suffices h : ∀ c : Cell, (∃ n, c = .byte n ∧ n.testBit k = false) →
      ∃ n, cellFold inits j c = .byte n ∧ n.testBit k = false from h _ ⟨0, rfl, by simp⟩
  induction inits with
  | nil => intro c h; exact h
  | cons i is ih =>
    intro c ⟨n, hc, hn⟩
    rw [cellFold_cons]
    apply ih (fun x hx => hb x (List.mem_cons_of_mem _ hx)) (fun x hx => hfree x (List.mem_cons_of_mem _ hx))
    have hfi := hfree i List.mem_cons_self
    by_cases ht : touches i j
    · cases hv : i.val with
      | int w u =>
        rw [writeCell_int hv ht]
        refine ⟨_, rfl, ?_⟩
        rw [testBit_ofBits, if_neg hfi, hc]
        simp [hk, Cell.toNat, hn]
      | _ =>
        exfalso
        have hb' : i.before = 0 ∧ i.after = 0 := by
          have := hb i List.mem_cons_self
          unfold ByteVal at this; rw [hv] at this; exact this
        have := full_of_byteVal hb' ht
        omega
    · rw [writeCell_of_not_touches ht]; exact ⟨n, hc, hn⟩

/-! ## `initadd` keeps the image -/

theorem mem_takeWhile_pred {α} {p : α → Bool} {l : List α} {x : α} (h : x ∈ l.takeWhile p) : p x = true := by
  induction l with
  | nil => simp at h
  | cons y ys ih =>
    rw [List.takeWhile_cons] at h
    split at h
    · rcases List.mem_cons.1 h with rfl | h
      · assumption
      · exact ih h
    · simp at h

/-- the conditions under which `initadd` is used -/
structure AddOK (l : List Init) (new : Init) : Prop where
  forest : Forest l
  lam : ∀ o ∈ l, Lam o new ∧ NonEmpty o ∧ ByteVal o
  ne : NonEmpty new
  bv : ByteVal new

theorem cellFold_initaddGo {new : Init} {l : List Init} (h : AddOK l new) (j : Nat) (c : Cell) :
    cellFold ((initaddGo new l).1 ++ new :: (initaddGo new l).2) j c = cellFold (l ++ [new]) j c := by
  induction l generalizing c with
  | nil => simp [initaddGo]
  | cons old rest ih =>
    have hf' := List.pairwise_cons.1 h.forest
    have hrest : AddOK rest new :=
      ⟨hf'.2, fun o ho => h.lam o (List.mem_cons_of_mem _ ho), h.ne, h.bv⟩
    obtain ⟨hlam, hne, hbo⟩ := h.lam old List.mem_cons_self
    have hnn := h.ne
    unfold NonEmpty at hne hnn
    unfold initaddGo
    split
    · -- skip `old`
      simp only [List.cons_append, cellFold_cons]
      exact ih hrest _
    · split
      · -- insert before `old`: `new` commutes with everything that follows
        rename_i h1 h2
        simp only [List.nil_append]
        symm
        apply cellFold_comm _ h.bv
        intro x hx
        rcases List.mem_cons.1 hx with rfl | hx
        · exact ⟨.inr h2, hbo⟩
        · have := (hf'.1 x hx).1
          exact ⟨.inr (by omega), (h.lam x (List.mem_cons_of_mem _ hx)).2.2⟩
      · split
        · -- `new` covers `old` and what follows up to its end
          rename_i h1 h2 h3
          simp only [List.nil_append]
          -- split rest into the covered prefix and the tail
          have hsplit : rest = rest.takeWhile (fun o => decide (o.hi ≤ new.hi)) ++
              rest.dropWhile (fun o => decide (o.hi ≤ new.hi)) := (List.takeWhile_append_dropWhile).symm
          have htail : ∀ b ∈ rest.dropWhile (fun o => decide (o.hi ≤ new.hi)), new.hi ≤ b.lo := by
            refine dropWhile_after (hf'.2.imp (fun h => h.1)) ?_ h.ne
            intro x hx
            obtain ⟨hxl, hxn, _⟩ := h.lam x (List.mem_cons_of_mem _ hx)
            have ho := hf'.1 x hx
            unfold ListOrd at ho
            refine ⟨hxl, hxn, by omega, ?_⟩
            unfold NonEmpty at hxn
            rcases ho.2 with h | h <;> omega
          have hcov : ∀ x ∈ old :: rest.takeWhile (fun o => decide (o.hi ≤ new.hi)), Inside x new ∧ ByteVal x := by
            intro x hx
            rcases List.mem_cons.1 hx with rfl | hx
            · exact ⟨⟨h3.1, h3.2⟩, hbo⟩
            · have hxr := (List.takeWhile_sublist _).subset hx
              have hp := mem_takeWhile_pred hx
              simp only [decide_eq_true_eq] at hp
              have := (hf'.1 x hxr).1
              exact ⟨⟨by omega, hp⟩, (h.lam x (List.mem_cons_of_mem _ hxr)).2.2⟩
          have e1 : old :: rest ++ [new] =
              (old :: rest.takeWhile (fun o => decide (o.hi ≤ new.hi))) ++
              (rest.dropWhile (fun o => decide (o.hi ≤ new.hi)) ++ [new]) := by
            simp only [List.cons_append]
            rw [← List.append_assoc, List.takeWhile_append_dropWhile]
          have hcomm := cellFold_comm (m := rest.dropWhile (fun o => decide (o.hi ≤ new.hi))) (n := new)
            (fun x hx => ⟨.inr (htail x hx),
              (h.lam x (List.mem_cons_of_mem _ ((List.dropWhile_sublist _).subset hx))).2.2⟩) h.bv j
          rw [e1, cellFold_append, hcomm, cellFold_cons, cellFold_cons]
          have e2 := cellFold_absorb hcov j c
          rw [cellFold_append] at e2
          rw [show writeCell new j (cellFold (old :: rest.takeWhile (fun o => decide (o.hi ≤ new.hi))) j c)
            = writeCell new j c from e2]
        · -- `old` covers `new`: keep looking
          simp only [List.cons_append, cellFold_cons]
          exact ih hrest _

theorem cellFold_initadd {new : Init} {l : List Init} (h : AddOK l new) (j : Nat) (c : Cell) :
    cellFold (initadd l new) j c = cellFold (l ++ [new]) j c := cellFold_initaddGo h j c

/-! ## `initclear` is a write of zeros -/

/-- the write that `initclear` amounts to -/
def zeroWrite (a b : Nat) : Init := ⟨a, b, 0, 0, .int (b - a) 0⟩

theorem writeCell_zeroWrite (a b j : Nat) (c : Cell) :
    writeCell (zeroWrite a b) j c = if a ≤ j ∧ j < b then .byte 0 else c := by
  by_cases ht : touches (zeroWrite a b) j
  · have hj : a ≤ j ∧ j < b := by
      unfold touches zeroWrite Init.lo Init.hi at ht; simp at ht; omega
    rw [writeCell_int (w := b - a) (u := 0) rfl ht, if_pos hj]
    unfold intCell
    refine congrArg Cell.byte ?_
    apply Nat.eq_of_testBit_eq
    intro k
    rw [testBit_ofBits]
    by_cases hk : k < 8
    · have h1 : (zeroWrite a b).lo ≤ 8 * j + k ∧ 8 * j + k < (zeroWrite a b).hi := by
        unfold zeroWrite Init.lo Init.hi; simp only []; omega
      simp [hk, h1]
    · simp [hk]
  · have hj : ¬ (a ≤ j ∧ j < b) := by
      unfold touches zeroWrite Init.lo Init.hi at ht; simp at ht; omega
    rw [writeCell_of_not_touches ht, if_neg hj]

/-- every cell of the list is inside the cleared byte range or bit-disjoint from it -/
def ClearOK (l : List Init) (a b : Nat) : Prop :=
  ∀ x ∈ l, x.within a b = true ∨ (x.hi ≤ 8 * a ∨ 8 * b ≤ x.lo)

theorem cellFold_filter_untouched {l : List Init} {p : Init → Bool} {j : Nat}
    (h : ∀ x ∈ l, p x = false → ¬ touches x j) (c : Cell) : cellFold (l.filter p) j c = cellFold l j c := by
  induction l generalizing c with
  | nil => rfl
  | cons x xs ih =>
    have ih' := ih (fun y hy => h y (List.mem_cons_of_mem _ hy))
    rw [List.filter_cons]
    cases hp : p x with
    | true => simp only [if_true, cellFold_cons]; exact ih' _
    | false =>
      simp only [Bool.false_eq_true, if_false, cellFold_cons]
      rw [writeCell_of_not_touches (h x List.mem_cons_self hp)]
      exact ih' _

theorem cellFold_initclear {l : List Init} {a b : Nat} (h : ClearOK l a b) (hne : ∀ x ∈ l, NonEmpty x)
    (j : Nat) : cellFold (initclear l a b) j (.byte 0) = cellFold (l ++ [zeroWrite a b]) j (.byte 0) := by
  rw [cellFold_append]
  show cellFold (initclear l a b) j (.byte 0) = writeCell (zeroWrite a b) j (cellFold l j (.byte 0))
  rw [writeCell_zeroWrite]
  by_cases hj : a ≤ j ∧ j < b
  · rw [if_pos hj]
    apply cellFold_untouched
    intro x hx
    unfold initclear at hx
    rw [List.mem_filter] at hx
    rcases h x hx.1 with hw | hd
    · rw [hw] at hx; simp at hx
    · unfold touches; omega
  · rw [if_neg hj]
    unfold initclear
    apply cellFold_filter_untouched
    intro x hx hp
    simp only [Bool.not_eq_false', ] at hp
    have hw : x.within a b = true := by simpa using hp
    unfold Init.within at hw
    simp only [Bool.and_eq_true, decide_eq_true_eq] at hw
    have := hne x hx
    unfold NonEmpty Init.lo Init.hi at this
    unfold touches Init.lo Init.hi
    omega

/-! ## event sequences (`add` / `clear`) -/

/-- the write an event amounts to -/
def evWrite : Ev → Init
  | .add i => i
  | .clear a b => zeroWrite a b

/-- `x` lies inside the cleared bytes `[a, b)` or is bit-disjoint from them -/
def ClearRel (x : Init) (a b : Nat) : Prop := x.within a b = true ∨ (x.hi ≤ 8 * a ∨ 8 * b ≤ x.lo)

/-- the conditions on an event sequence, `prev` being the initialisers added before it and not
cleared since: every earlier/later pair of initialisers is `Lam`, every cleared range is laminar
with what was added before. -/
def EvsOK (prev : List Init) : List Ev → Prop
  | [] => True
  | .add i :: es => (∀ o ∈ prev, Lam o i) ∧ NonEmpty i ∧ ByteVal i ∧ EvsOK (prev ++ [i]) es
  | .clear a b :: es => (∀ o ∈ prev, ClearRel o a b) ∧ EvsOK (prev.filter (fun o => !o.within a b)) es

/-- the initialisers of an event sequence -/
def adds : List Ev → List Init
  | [] => []
  | .add i :: es => i :: adds es
  | .clear _ _ :: es => adds es

theorem mem_initclear {l : List Init} {a b : Nat} {x : Init} (h : x ∈ initclear l a b) : x ∈ l := by
  unfold initclear at h; exact (List.mem_filter.1 h).1

theorem forest_initclear {l : List Init} (h : Forest l) (a b : Nat) : Forest (initclear l a b) := by
  unfold Forest initclear; exact h.filter _

/-- The list built by the events has the image of the writes, is a `Forest`, and consists of
initialisers that were added. -/
theorem foldl_applyEv {evs : List Ev} : ∀ {prev l : List Init}, EvsOK prev evs → Forest l →
    (∀ o ∈ l, o ∈ prev) → (∀ o ∈ prev, NonEmpty o ∧ ByteVal o) →
    Forest (evs.foldl applyEv l) ∧ (∀ o ∈ evs.foldl applyEv l, o ∈ prev ∨ o ∈ adds evs) ∧
    ∀ j, cellFold (evs.foldl applyEv l) j (.byte 0) = cellFold (evs.map evWrite) j (cellFold l j (.byte 0)) := by
  induction evs with
  | nil => intro prev l _ hf hsub _; exact ⟨hf, fun o ho => .inl (hsub o ho), fun j => rfl⟩
  | cons e es ih =>
    intro prev l hok hf hsub hprev
    cases e with
    | add i =>
      obtain ⟨hlam, hne, hbv, hrest⟩ := hok
      have hadd : AddOK l i :=
        ⟨hf, fun o ho => ⟨hlam o (hsub o ho), hprev o (hsub o ho)⟩, hne, hbv⟩
      have hf' : Forest (initadd l i) :=
        forest_initadd hf (fun o ho => ⟨hlam o (hsub o ho), (hprev o (hsub o ho)).1⟩) hne
      have hsub' : ∀ o ∈ initadd l i, o ∈ prev ++ [i] := by
        intro o ho
        rcases mem_initadd ho with rfl | ho
        · simp
        · exact List.mem_append_left _ (hsub o ho)
      have hprev' : ∀ o ∈ prev ++ [i], NonEmpty o ∧ ByteVal o := by
        intro o ho
        rcases List.mem_append.1 ho with ho | ho
        · exact hprev o ho
        · rw [List.mem_singleton.1 ho]; exact ⟨hne, hbv⟩
      obtain ⟨r1, r2, r3⟩ := ih hrest hf' hsub' hprev'
      refine ⟨r1, ?_, ?_⟩
      · intro o ho
        rcases r2 o ho with h | h
        · rcases List.mem_append.1 h with h | h
          · exact .inl h
          · rw [List.mem_singleton.1 h]; exact .inr (by simp [adds])
        · exact .inr (by simp [adds, h])
      · intro j
        rw [List.foldl_cons, List.map_cons, cellFold_cons]
        show cellFold (List.foldl applyEv (initadd l i) es) j (.byte 0) = _
        rw [r3 j, cellFold_initadd hadd, cellFold_append]
        rfl
    | clear a b =>
      obtain ⟨hcl, hrest⟩ := hok
      have hf' : Forest (initclear l a b) := forest_initclear hf a b
      have hsub' : ∀ o ∈ initclear l a b, o ∈ prev.filter (fun o => !o.within a b) := by
        intro o ho
        unfold initclear at ho
        rw [List.mem_filter] at ho ⊢
        exact ⟨hsub o ho.1, ho.2⟩
      have hprev' : ∀ o ∈ prev.filter (fun o => !o.within a b), NonEmpty o ∧ ByteVal o :=
        fun o ho => hprev o (List.mem_filter.1 ho).1
      obtain ⟨r1, r2, r3⟩ := ih hrest hf' hsub' hprev'
      refine ⟨r1, ?_, ?_⟩
      · intro o ho
        rcases r2 o ho with h | h
        · exact .inl (List.mem_filter.1 h).1
        · exact .inr (by simp [adds, h])
      · intro j
        rw [List.foldl_cons, List.map_cons, cellFold_cons]
        show cellFold (List.foldl applyEv (initclear l a b) es) j (.byte 0) = _
        rw [r3 j, cellFold_initclear (fun x hx => hcl x (hsub x hx)) (fun x hx => (hprev x (hsub x hx)).1),
          cellFold_append]
        rfl

end CprocVerif.Image

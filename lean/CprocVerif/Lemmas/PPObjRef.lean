import CprocVerif.Lemmas.PPObj
import CprocVerif.Spec.MacroRef

/-! # Object-like macro sets, part B: the reference does not look at white space, and one step
of the reference on the abstraction of a model state -/

namespace CprocVerif.PP
open CprocVerif.Gen.TokenKinds
open CprocVerif.Spec.MacroRef (HTok Item PTok MacroDef RErr Flag expandH hsadd union pendItems lookup)
open CprocVerif.Spec

/-! ## erasing white space -/

def eraseT (t : HTok) : HTok := { t with tok := { t.tok with space := false } }

def erase : Item → Item
  | .tok t => .tok (eraseT t)
  | .dir d => .dir d

def NoDir (items : List Item) : Prop := ∀ i ∈ items, ∃ t, i = .tok t

/-- what is observable of a result of the reference: the tokens by class and spelling, and the
diagnostic -/
def outKeys (o : List HTok × Option RErr × List Flag) : List (Kind × Option Name) × Option RErr :=
  (o.1.map (·.tok.key), o.2.1)

theorem outKeys_flag (c : Bool) (x : Flag) (o : List HTok × Option RErr × List Flag) :
    outKeys (if c = true then (o.1, o.2.1, x :: o.2.2) else o) = outKeys o := by
  split <;> rfl

theorem erase_respace (l : List HTok) (sp : Bool) :
    ((MacroRef.respace l sp).1.map Item.tok).map erase = (l.map Item.tok).map erase := by
  cases l with
  | nil => rfl
  | cons t r => simp [MacroRef.respace, erase, eraseT]

theorem erase_pendItems (b : Bool) (l : List Item) : (pendItems b l).map erase = l.map erase := by
  unfold pendItems
  split
  · rename_i t r
    simp only [List.map_cons, erase, List.cons.injEq, and_true]
    unfold MacroRef.pend eraseT
    split <;> rfl
  · rfl

theorem noDir_append {a b : List Item} (ha : NoDir a) (hb : NoDir b) : NoDir (a ++ b) := by
  intro i hi
  rcases List.mem_append.mp hi with h | h
  · exact ha i h
  · exact hb i h

theorem noDir_map_tok (l : List HTok) : NoDir (l.map Item.tok) := by
  intro i hi
  obtain ⟨t, _, rfl⟩ := List.mem_map.mp hi
  exact ⟨t, rfl⟩

theorem noDir_pendItems {b : Bool} {l : List Item} (h : NoDir l) : NoDir (pendItems b l) := by
  unfold pendItems
  split
  · rename_i t r
    intro i hi
    rcases List.mem_cons.mp hi with rfl | hi
    · exact ⟨_, rfl⟩
    · exact h i (List.mem_cons_of_mem _ hi)
  · exact h

theorem expandH_erase (tbl : List MacroDef) (hobj : ∀ m ∈ tbl, m.func = false) :
    ∀ (K : Nat) (items items' : List Item), NoDir items → NoDir items' →
      items.map erase = items'.map erase →
      outKeys (expandH false K tbl items) = outKeys (expandH false K tbl items') := by
  intro K
  induction K with
  | zero => intro items items' _ _ _; rfl
  | succ K ih =>
    intro items items' hn hn' he
    cases items with
    | nil =>
      cases items' with
      | nil => rfl
      | cons _ _ => simp at he
    | cons i rest =>
      cases items' with
      | nil => simp at he
      | cons i' rest' =>
        obtain ⟨T, rfl⟩ := hn i (List.mem_cons_self ..)
        obtain ⟨T', rfl⟩ := hn' i' (List.mem_cons_self ..)
        have hnr : NoDir rest := fun x hx => hn x (List.mem_cons_of_mem _ hx)
        have hnr' : NoDir rest' := fun x hx => hn' x (List.mem_cons_of_mem _ hx)
        simp only [List.map_cons, List.cons.injEq, erase, Item.tok.injEq] at he
        obtain ⟨hT, hrest⟩ := he
        have hk : T.tok.kind = T'.tok.kind := by have := congrArg (·.tok.kind) hT; simpa [eraseT] using this
        have hl : T.tok.lit = T'.tok.lit := by have := congrArg (·.tok.lit) hT; simpa [eraseT] using this
        have hh : T.hs = T'.hs := by have := congrArg (·.hs) hT; simpa [eraseT] using this
        have hp : T.painted = T'.painted := by have := congrArg (·.painted) hT; simpa [eraseT] using this
        have hkey : T.tok.key = T'.tok.key := by simp [MacroRef.PTok.key, hk, hl]
        have keep : outKeys (T :: (expandH false K tbl rest).1, (expandH false K tbl rest).2.1, (expandH false K tbl rest).2.2)
            = outKeys (T' :: (expandH false K tbl rest').1, (expandH false K tbl rest').2.1, (expandH false K tbl rest').2.2) := by
          have := ih rest rest' hnr hnr' hrest
          simp only [outKeys, List.map_cons, Prod.mk.injEq, List.cons.injEq] at this ⊢
          exact ⟨⟨hkey, this.1⟩, this.2⟩
        have keepP : outKeys ({ T with painted := true } :: (expandH false K tbl rest).1, (expandH false K tbl rest).2.1, (expandH false K tbl rest).2.2)
            = outKeys ({ T' with painted := true } :: (expandH false K tbl rest').1, (expandH false K tbl rest').2.1, (expandH false K tbl rest').2.2) := by
          have := ih rest rest' hnr hnr' hrest
          simp only [outKeys, List.map_cons, Prod.mk.injEq, List.cons.injEq] at this ⊢
          exact ⟨⟨hkey, this.1⟩, this.2⟩
        unfold expandH
        simp only [← hk, ← hl, ← hh, ← hp]
        split
        · exact keep
        · split
          · exact keep
          · rename_i m hm
            have hf : m.func = false := hobj m (List.mem_of_find?_eq_some hm)
            simp only [hf, Bool.false_and, Bool.false_eq_true, ↓reduceIte, not_false_eq_true]
            split
            · exact keepP
            · rw [outKeys_flag, outKeys_flag]
              apply ih
              · exact noDir_append (noDir_map_tok _) (noDir_pendItems hnr)
              · exact noDir_append (noDir_map_tok _) (noDir_pendItems hnr')
              · simp only [List.map_append, erase_respace, erase_pendItems, hrest]

end CprocVerif.PP

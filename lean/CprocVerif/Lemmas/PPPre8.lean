import CprocVerif.Lemmas.PPPre7

/-! # Arguments with macro names, part 8: the executable test for `TextP`; the abstraction of a
text of the class does not depend on paint marks -/

namespace CprocVerif.PP
open CprocVerif.Gen.TokenKinds
open CprocVerif.Spec.MacroRef (HTok Item)
open CprocVerif.Spec

theorem collect_suffix (ps : List Param) : ∀ (ts : List Tok) (i paren : Nat) (cur : List Tok)
    (done args : List (List Tok)) (rest : List Tok),
    collect ps i paren cur done ts = .ok (args, rest) → ∃ pre, ts = pre ++ rest := by
  intro ts
  induction ts with
  | nil => intro i paren cur done args rest h; simp [collect] at h
  | cons t r ih =>
    intro i paren cur done args rest h
    unfold collect at h
    split at h
    · split at h
      · split at h
        · cases h
        · split at h
          · cases h
          · cases h; exact ⟨[t], rfl⟩
      · obtain ⟨pre, hp⟩ := ih _ _ _ _ _ _ h
        exact ⟨t :: pre, by rw [hp]; rfl⟩
    · obtain ⟨pre, hp⟩ := ih _ _ _ _ _ _ h
      exact ⟨t :: pre, by rw [hp]; rfl⟩

theorem absRawP_eq {ms0 : List Macro} {raw : List Tok} (h : TextP ms0 raw) : absRawP ms0 raw = absRawF raw := by
  induction h with
  | nil => rfl
  | eof t h => rw [absRawP_eof _ _ _ h, absRawF_eof _ _ h]
  | plain t r h1 h2 h3 h4 h5 h6 ih =>
    by_cases hnl : t.kind = .TNEWLINE
    · rw [absRawP_cons_nl _ _ _ hnl, absRawF_cons_nl _ _ hnl, ih]
    · rw [absRawP_cons_visible _ _ _ hnl h4, absRawF_cons_visible _ _ hnl h4, ih, mkHp_nohide _ _ _ h5]
  | call T lp r' F args rest h1 h2 h3 h4 h5 h5' h6 h7ok h8 h9 ih =>
    obtain ⟨pre, hpre⟩ := collect_suffix F.params r' 0 0 [] [] args rest h6
    have htake : r'.take (r'.length - rest.length) = pre := by
      rw [hpre]; simp
    have h7 := h7ok.raw
    rw [htake] at h7
    have hT1 : T.kind ≠ .TNEWLINE := by rw [h1]; decide
    have hT2 : T.kind ≠ .TEOF := by rw [h1]; decide
    have hl1 : lp.kind ≠ .TNEWLINE := by rw [h5]; decide
    have hl2 : lp.kind ≠ .TEOF := by rw [h5]; decide
    have hv : ∀ x ∈ pre, x.kind ≠ .TNEWLINE ∧ x.kind ≠ .TEOF := fun x hx => ⟨(h7 x hx).1, (h7 x hx).2.2.2.1⟩
    rw [absRawP_cons_visible _ _ _ hT1 hT2, absRawF_cons_visible _ _ hT1 hT2,
      absRawP_cons_visible _ _ _ hl1 hl2, absRawF_cons_visible _ _ hl1 hl2, hpre,
      absRawP_plain ms0 _ _ hv, absRawF_plain _ _ hv, ih, mkHp_nohide _ _ _ h2,
      mkHp_nonident _ _ _ (by rw [h5]; decide)]
    congr 3
    apply List.map_congr_left
    intro x hx
    exact mkHp_nohide _ _ _ (h7 x hx).2.2.2.2

def argTokOKb (ms0 : List Macro) (t : Tok) : Bool :=
  decide (t.kind ≠ .TNEWLINE) && decide (t.kind ≠ .THASH) && decide (t.kind ≠ .TNONE) && decide (t.kind ≠ .TEOF) &&
  !isFunNameb ms0 t && !t.hide

theorem argTokOK_of_b {ms0 : List Macro} {t : Tok} (h : argTokOKb ms0 t = true) : ArgTokOK ms0 t := by
  unfold argTokOKb at h
  simp only [Bool.and_eq_true, decide_eq_true_eq, Bool.not_eq_true'] at h
  obtain ⟨⟨⟨⟨⟨h1, h2⟩, h3⟩, h4⟩, h5⟩, h6⟩ := h
  refine ⟨h1, h2, h3, h4, ?_, h6⟩
  intro hf
  have := (isFunNameb_iff ms0 t).mpr hf
  rw [h5] at this; cases this

/-- executable test for `ArgsOK L rest` (`fuel` = at least the length of `L` plus one) -/
def argsOKb (ms0 : List Macro) : Nat → List Tok → List Tok → Bool
  | 0, _, _ => false
  | f + 1, L, rest =>
    if L.length ≤ rest.length then decide (L = rest)
    else match L with
      | [] => false
      | t :: r =>
        if isFunNameb ms0 t then
          match macroget ms0 (t.lit.getD []), r with
          | some FG, lp :: r'' =>
            !t.hide && FG.func && decide (lp.kind = .TLPAREN) && !lp.hide && decide (Spellable t ∧ Spellable lp) &&
            (match collect FG.params 0 0 [] [] r'' with
              | .ok (argsG, rest'') =>
                argsOKb ms0 f r'' rest'' && argsG.all (fun a => !a.isEmpty) && argsOKb ms0 f rest'' rest
              | .error _ => false)
          | _, _ => false
        else argTokOKb ms0 t && decide (Spellable t) && argsOKb ms0 f r rest

theorem argsOK_of_b (ms0 : List Macro) : ∀ (f : Nat) (L rest : List Tok), argsOKb ms0 f L rest = true → ArgsOK ms0 L rest
  | 0, _, _, h => by simp [argsOKb] at h
  | f + 1, L, rest, h => by
    unfold argsOKb at h
    by_cases hl : L.length ≤ rest.length
    · rw [if_pos hl] at h
      have : L = rest := by simpa using h
      subst this
      exact .done _
    · rw [if_neg hl] at h
      cases L with
      | nil => simp at h
      | cons t r =>
        simp only at h
        by_cases hfn : isFunNameb ms0 t = true
        · rw [if_pos hfn] at h
          have hk : t.kind = .TIDENT := ((isFunNameb_iff ms0 t).mp hfn).1
          cases hm : macroget ms0 (t.lit.getD []) with
          | none => rw [hm] at h; simp at h
          | some FG =>
            rw [hm] at h
            cases r with
            | nil => simp at h
            | cons lp r'' =>
              simp only [Bool.and_eq_true, Bool.not_eq_true', decide_eq_true_eq] at h
              obtain ⟨⟨⟨⟨⟨h1, h2⟩, h3⟩, h3'⟩, hsp⟩, h4⟩ := h
              cases hc : collect FG.params 0 0 [] [] r'' with
              | error e => rw [hc] at h4; simp at h4
              | ok v =>
                obtain ⟨argsG, rest''⟩ := v
                rw [hc] at h4
                simp only [Bool.and_eq_true, List.all_eq_true, Bool.not_eq_true', List.isEmpty_eq_false_iff] at h4
                obtain ⟨⟨h5, h6⟩, h7⟩ := h4
                exact .call t lp r'' FG argsG rest'' rest hk h1 hm h2 h3 h3' hc (argsOK_of_b ms0 f _ _ h5) h6 hsp
                  (argsOK_of_b ms0 f _ _ h7)
        · rw [if_neg hfn] at h
          simp only [Bool.and_eq_true, decide_eq_true_eq] at h
          exact .tok t r rest (argTokOK_of_b h.1.1) h.1.2 (argsOK_of_b ms0 f _ _ h.2)

/-- executable test for `TextP` (`fuel` = at least the length of the text plus one) -/
def textPb (ms0 : List Macro) : Nat → List Tok → Bool
  | 0, _ => false
  | _ + 1, [] => true
  | f + 1, t :: r =>
    if isFunNameb ms0 t then
      match macroget ms0 (t.lit.getD []), r with
      | some F, lp :: r' =>
        !t.hide && F.func && decide (lp.kind = .TLPAREN) && !lp.hide &&
        (match collect F.params 0 0 [] [] r' with
          | .ok (args, rest) =>
            argsOKb ms0 (r'.length + 1) r' rest && args.all (fun a => !a.isEmpty) &&
            textPb ms0 f rest
          | .error _ => false)
      | _, _ => false
    else if t.kind = .TEOF then r.isEmpty
    else
      decide (t.kind ≠ .THASH) && decide (t.kind ≠ .TNONE) && decide (t.kind ≠ .TEOF) && !t.hide && textPb ms0 f r

theorem textP_of_b (ms0 : List Macro) : ∀ (f : Nat) (l : List Tok), textPb ms0 f l = true → TextP ms0 l
  | 0, _, h => by simp [textPb] at h
  | _ + 1, [], _ => .nil
  | f + 1, t :: r, h => by
    unfold textPb at h
    by_cases hfn : isFunNameb ms0 t = true
    · rw [if_pos hfn] at h
      have hk : t.kind = .TIDENT := ((isFunNameb_iff ms0 t).mp hfn).1
      cases hm : macroget ms0 (t.lit.getD []) with
      | none => rw [hm] at h; simp at h
      | some F =>
        rw [hm] at h
        cases r with
        | nil => simp at h
        | cons lp r' =>
          simp only [Bool.and_eq_true, Bool.not_eq_true', decide_eq_true_eq] at h
          obtain ⟨⟨⟨⟨h1, h2⟩, h3⟩, h3'⟩, h4⟩ := h
          cases hc : collect F.params 0 0 [] [] r' with
          | error e => rw [hc] at h4; simp at h4
          | ok v =>
            obtain ⟨args, rest⟩ := v
            rw [hc] at h4
            simp only [Bool.and_eq_true, List.all_eq_true, Bool.not_eq_true', List.isEmpty_eq_false_iff] at h4
            obtain ⟨⟨h5, h6⟩, h7⟩ := h4
            exact .call t lp r' F args rest hk h1 hm h2 h3 h3' hc (argsOK_of_b ms0 _ _ _ h5) h6
              (textP_of_b ms0 f rest h7)
    · rw [if_neg hfn] at h
      by_cases hke : t.kind = .TEOF
      · rw [if_pos hke] at h
        have : r = [] := by simpa using h
        subst this
        exact .eof t hke
      rw [if_neg hke] at h
      simp only [Bool.and_eq_true, Bool.not_eq_true', decide_eq_true_eq] at h
      obtain ⟨⟨⟨⟨h1, h2⟩, h3⟩, h4⟩, h5⟩ := h
      exact .plain t r (fun hh => hfn ((isFunNameb_iff ms0 t).mpr hh)) h1 h2 h3 h4 (textP_of_b ms0 f r h5)

end CprocVerif.PP

import CprocVerif.Lemmas.PPFunSim5

/-! # Whole-stream simulation, part 6: executable tests for the class (`TblOK`, `TextOK`) -/

namespace CprocVerif.PP
open CprocVerif.Gen.TokenKinds

def isFunNameb (ms0 : List Macro) (t : Tok) : Bool :=
  decide (t.kind = .TIDENT) && (match macroget ms0 (t.lit.getD []) with | some F => F.func | none => false)

theorem isFunNameb_iff (ms0 : List Macro) (t : Tok) : isFunNameb ms0 t = true ↔ IsFunName ms0 t := by
  unfold isFunNameb IsFunName
  cases hm : macroget ms0 (t.lit.getD []) with
  | none => simp
  | some F => simp

def simpleFunb (F : Macro) : Bool :=
  F.func && decide (0 < F.params.length) && F.params.all (fun p => !p.fvar) &&
  F.body.all (fun t => decide (t.kind ≠ .THASH)) &&
  F.body.all (fun t => match macroparam F.params t with
    | some i => (F.params.getD i default).ftok
    | none => true)

theorem simpleFun_of_b {F : Macro} (h : simpleFunb F = true) : SimpleFun F := by
  unfold simpleFunb at h
  simp only [Bool.and_eq_true, List.all_eq_true, decide_eq_true_eq, Bool.not_eq_true'] at h
  obtain ⟨⟨⟨⟨h1, h2⟩, h3⟩, h4⟩, h5⟩ := h
  refine ⟨h1, h2, h3, h4, ?_⟩
  intro t ht i hi
  have := h5 t ht
  rw [hi] at this
  exact this

def tokOKb (ms0 : List Macro) (t : Tok) : Bool :=
  decide (t.kind ≠ .TNEWLINE) && decide (t.kind ≠ .TEOF) && !t.hide && !isFunNameb ms0 t

def macOKb (ms0 : List Macro) (m : Macro) : Bool :=
  !m.body.isEmpty && m.body.all (tokOKb ms0) && (!m.func || simpleFunb m)

/-- executable test for `TblOK` -/
def tblOKb (ms0 : List Macro) : Bool := decide (ms0.map (·.name)).Nodup && ms0.all (macOKb ms0)

theorem tblOK_of_b {ms0 : List Macro} (h : tblOKb ms0 = true) : TblOK ms0 := by
  unfold tblOKb at h
  simp only [Bool.and_eq_true, decide_eq_true_eq, List.all_eq_true] at h
  obtain ⟨h1, h2⟩ := h
  refine ⟨h1, ?_, ?_, ?_⟩
  · intro m hm
    have := h2 m hm
    unfold macOKb at this
    simp only [Bool.and_eq_true, Bool.not_eq_true', List.isEmpty_eq_false_iff] at this
    exact this.1.1
  · intro m hm t ht
    have := h2 m hm
    unfold macOKb at this
    simp only [Bool.and_eq_true, List.all_eq_true] at this
    have h3 := this.1.2 t ht
    unfold tokOKb at h3
    simp only [Bool.and_eq_true, decide_eq_true_eq, Bool.not_eq_true'] at h3
    refine ⟨⟨h3.1.1.1, h3.1.1.2, h3.1.2⟩, ?_⟩
    intro hf
    have := (isFunNameb_iff ms0 t).mpr hf
    rw [h3.2] at this; cases this
  · intro m hm hf
    have := h2 m hm
    unfold macOKb at this
    simp only [Bool.and_eq_true, Bool.or_eq_true, Bool.not_eq_true', hf] at this
    rcases this.2 with h | h
    · cases h
    · exact simpleFun_of_b h

instance (ms : List Macro) (L : List Tok) (res : Except Err (List (List Tok) × List Tok)) :
    Decidable (PlainFor ms L res) := by
  unfold PlainFor
  split <;> infer_instance

/-- executable test for `TextOK` (`fuel` = at least the length of the text plus one) -/
def textOKb (ms0 : List Macro) : Nat → List Tok → Bool
  | 0, _ => false
  | _ + 1, [] => true
  | f + 1, t :: r =>
    if isFunNameb ms0 t then
      match macroget ms0 (t.lit.getD []), r with
      | some F, lp :: r' =>
        !t.hide && F.func && decide (lp.kind = .TLPAREN) &&
        (match collect F.params 0 0 [] [] r' with
          | .ok (args, rest) =>
            decide (PlainFor ms0 r' (collect F.params 0 0 [] [] r')) && args.all (fun a => !a.isEmpty) &&
            textOKb ms0 f rest
          | .error _ => false)
      | _, _ => false
    else if t.kind = .TEOF then r.isEmpty
    else
      decide (t.kind ≠ .THASH) && decide (t.kind ≠ .TNONE) && decide (t.kind ≠ .TEOF) && !t.hide && textOKb ms0 f r

theorem textOK_of_b (ms0 : List Macro) : ∀ (f : Nat) (l : List Tok), textOKb ms0 f l = true → TextOK ms0 l
  | 0, _, h => by simp [textOKb] at h
  | _ + 1, [], _ => .nil
  | f + 1, t :: r, h => by
    unfold textOKb at h
    by_cases hfn : isFunNameb ms0 t = true
    · rw [if_pos hfn] at h
      have hk : t.kind = .TIDENT := ((isFunNameb_iff ms0 t).mp hfn).1
      cases hm : macroget ms0 (t.lit.getD []) with
      | none => rw [hm] at h; simp at h
      | some F =>
        rw [hm] at h
        cases r with
        | nil => simp at h
        | cons lp r' =>
          simp only [Bool.and_eq_true, Bool.not_eq_true', decide_eq_true_eq] at h
          obtain ⟨⟨⟨h1, h2⟩, h3⟩, h4⟩ := h
          cases hc : collect F.params 0 0 [] [] r' with
          | error e => rw [hc] at h4; simp at h4
          | ok v =>
            obtain ⟨args, rest⟩ := v
            rw [hc] at h4
            simp only [Bool.and_eq_true, decide_eq_true_eq, List.all_eq_true, Bool.not_eq_true',
              List.isEmpty_eq_false_iff] at h4
            obtain ⟨⟨h5, h6⟩, h7⟩ := h4
            exact .call t lp r' F args rest hk h1 hm h2 h3 hc (by rw [hc]; exact h5) h6 (textOK_of_b ms0 f rest h7)
    · rw [if_neg hfn] at h
      by_cases hke : t.kind = .TEOF
      · rw [if_pos hke] at h
        have : r = [] := by simpa using h
        subst this
        exact .eof t hke
      rw [if_neg hke] at h
      simp only [Bool.and_eq_true, Bool.not_eq_true', decide_eq_true_eq] at h
      obtain ⟨⟨⟨⟨h1, h2⟩, h3⟩, h4⟩, h5⟩ := h
      exact .plain t r (fun hh => hfn ((isFunNameb_iff ms0 t).mpr hh)) h1 h2 h3 h4 (textOK_of_b ms0 f r h5)

end CprocVerif.PP

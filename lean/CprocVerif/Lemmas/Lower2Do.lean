/-
  C01, fragment 𝔽₂ — `do`-`while` (stmt.c `case TDO`): `do_body`, the body with `continue` → `do_cond`,
  `break` → `do_join`, the controlling expression, `funcjnz` back to `do_body` or on to `do_join`.
-/
import CprocVerif.Lemmas.Lower2While

set_option linter.unusedSimpArgs false

namespace CprocVerif.LowerMach2
open CprocVerif.Qbe CprocVerif.Lower CprocVerif.Lower2 CprocVerif.CSem CprocVerif.CSem2 CprocVerif.CInt
open CprocVerif.LowerArith CprocVerif.LowerMach CprocVerif.LowerMem

theorem take_mono_wt {vtys : List CSem.Ty} {n m : Nat} (h : n ≤ m) (e : Expr)
    (hw : e.wt (vtys.take n) = true) : e.wt (vtys.take m) = true := by
  refine wt_mono ?_ e hw
  intro i t hi
  obtain ⟨h1, h2⟩ := take_get hi
  rw [List.getElem?_take]
  simp [show i < m by omega, h1]

section
variable (T : Stat) {s : Store} {out : CSem2.Outcome} {lp : Bool × Bool} {brk cont : String} {c : SCtx}
  {nd nd' : Nat} {pre post : List Item} {env : Env} {M : Mem}

theorem sim_dowhile (n : Nat) (hc : ∀ m, m ≤ n → CallOK T m) (ih : ∀ m, m ≤ n → SimStmt T m) (b : Stmt)
    (e : Expr3)
    (hex : exec T.S.cs T.P (n + 1) s (.dowhile b e) = some out) (hfr : frag T.P T.cnts T.W (.dowhile b e) = true)
    (hwt : Stmt.wt T.vtys T.ret lp.1 lp.2 nd (.dowhile b e) = some nd') (hp : Pos T c nd pre)
    (hext : Ext T (funcstmt T.S.cs brk cont (.dowhile b e) c).ctx)
    (hits : T.S.its = pre ++ (funcstmt T.S.cs brk cont (.dowhile b e) c).items ++ post)
    (inv : SInv T.M0 T.S.cs T.cnts T.W T.σ T.vtys s env M) :
    Post T lp brk cont (T.at env M pre) (pre ++ (funcstmt T.S.cs brk cont (.dowhile b e) c).items)
      (funcstmt T.S.cs brk cont (.dowhile b e) c).ctx out := by
  simp only [frag, Bool.and_eq_true] at hfr
  have hfe : efrag T e := by simp only [efrag, Bool.and_eq_true]; exact hfr.1
  have hfr := hfr.2
  have hw' : ∃ n1, Stmt.wt T.vtys T.ret true true nd b = some n1 ∧
      (if e.wt (T.vtys.take nd) = true then some n1 else none) = some nd' := by
    simp only [Stmt.wt] at hwt
    split at hwt
    · simpa [Option.bind_eq_some_iff] using hwt
    · cases hwt
  obtain ⟨n1, hwb, hwt⟩ := hw'
  split at hwt
  · rename_i hwe
    cases hwt
    obtain ⟨hnb, hcb⟩ := wt_noDead _ _ b _ _ _ _ hwb
    have hwe' : e.wt (T.vtys.take nd') = true := take_mono_wt3 (by omega) e hwe
    simp only [funcstmt] at hext hits ⊢
    have gb := funcstmt_good T.S.cs b (lblName "do_join" (c.blockid + 3)) (lblName "do_cond" (c.blockid + 2))
      ((c.addBlocks 3).atLabel (lblName "do_body" (c.blockid + 1))) rfl hnb
    generalize hob : funcstmt T.S.cs (lblName "do_join" (c.blockid + 3)) (lblName "do_cond" (c.blockid + 2)) b
      ((c.addBlocks 3).atLabel (lblName "do_body" (c.blockid + 1))) = ob at *
    have hj1 : (ob.ctx.atLabel (lblName "do_cond" (c.blockid + 2))).jump = none := rfl
    have hj2 : ((ob.ctx.atLabel (lblName "do_cond" (c.blockid + 2))).upd
      (exprOut3 T.S.cs (ob.ctx.atLabel (lblName "do_cond" (c.blockid + 2))) e).ctx).jump = none := rfl
    simp only [lowerE3_eq T.S.cs hj1, lowerJnz_eq T.S.cs hj2] at hext hits ⊢
    have ge := exprOut3_good T.S.cs (ob.ctx.atLabel (lblName "do_cond" (c.blockid + 2))) e
    generalize hoe : exprOut3 T.S.cs (ob.ctx.atLabel (lblName "do_cond" (c.blockid + 2))) e = oe at *
    have sj := jnzArg_straight T.S.cs ((ob.ctx.atLabel (lblName "do_cond" (c.blockid + 2))).upd oe.ctx).ctx
      e.ty oe.val
    change Straight _ (jnzOut T.S.cs ((ob.ctx.atLabel (lblName "do_cond" (c.blockid + 2))).upd oe.ctx)
      e.ty oe.val) at sj
    generalize hoj : jnzOut T.S.cs ((ob.ctx.atLabel (lblName "do_cond" (c.blockid + 2))).upd oe.ctx)
      e.ty oe.val = oj at *
    have l1 := ge.lastid; have l2 := sj.lastid; have b1 := ge.blockid; have b2 := sj.blockid
    have b3 := gb.blockid
    unf at l1 l2 b1 b2 b3
    have hextc : Ext T (((ob.ctx.atLabel (lblName "do_cond" (c.blockid + 2))).upd oe.ctx).upd oj.ctx) :=
      hext.congr rfl rfl
    have hextb : Ext T ob.ctx := hextc.before (new := []) (by simp) (by simp) (by unf; omega)
    -- the items
    have hits1 := hits
    simp only [List.append_assoc, List.singleton_append, List.cons_append, List.nil_append, labelItem,
      hp.jump] at hits1
    have hits0 : T.S.its = pre ++ .lbl none (lblName "do_body" (c.blockid + 1)) [] ::
        (ob.items ++ .lbl ob.ctx.jump (lblName "do_cond" (c.blockid + 2)) [] ::
          (oe.items ++ (oj.items ++ .lbl (some (.jnz oj.val (lblName "do_body" (c.blockid + 1))
            (lblName "do_join" (c.blockid + 3)))) (lblName "do_join" (c.blockid + 3)) [] :: post))) := hits1
    have hitsC : T.S.its = ((pre ++ [.lbl none (lblName "do_body" (c.blockid + 1)) []]) ++ ob.items) ++
        .lbl ob.ctx.jump (lblName "do_cond" (c.blockid + 2)) [] ::
          (oe.items ++ (oj.items ++ .lbl (some (.jnz oj.val (lblName "do_body" (c.blockid + 1))
            (lblName "do_join" (c.blockid + 3)))) (lblName "do_join" (c.blockid + 3)) [] :: post)) := by
      rw [hits0]; simp only [List.append_assoc, List.singleton_append, List.cons_append, List.nil_append]
    have hitsJ : T.S.its = (((pre ++ [.lbl none (lblName "do_body" (c.blockid + 1)) []]) ++ ob.items) ++
        [.lbl ob.ctx.jump (lblName "do_cond" (c.blockid + 2)) []]) ++ oe.items ++ oj.items ++
        .lbl (some (.jnz oj.val (lblName "do_body" (c.blockid + 1))
            (lblName "do_join" (c.blockid + 3)))) (lblName "do_join" (c.blockid + 3)) [] :: post := by
      rw [hits0]; simp only [List.append_assoc, List.singleton_append, List.cons_append, List.nil_append]
    have hcb' : CanJump T.S (lblName "do_body" (c.blockid + 1)) := canJump_item T.S hits0
    have hcc : CanJump T.S (lblName "do_cond" (c.blockid + 2)) := canJump_item T.S hitsC
    have hcj : CanJump T.S (lblName "do_join" (c.blockid + 3)) := canJump_item T.S hitsJ
    have hpb : Pos T ((c.addBlocks 3).atLabel (lblName "do_body" (c.blockid + 1))) nd
        (pre ++ [.lbl none (lblName "do_body" (c.blockid + 1)) []]) := by
      refine ⟨rfl, curOf_lbl _ _ _ _ _, ?_, hp.nslots, hp.le⟩
      unf
      exact curOK_label "do_body" _ _ _ (by omega)
    obtain ⟨hsl1, hsl2⟩ := slots_after hpb gb hcb
    have hpc : Pos T (ob.ctx.atLabel (lblName "do_cond" (c.blockid + 2))) nd'
        (((pre ++ [.lbl none (lblName "do_body" (c.blockid + 1)) []]) ++ ob.items) ++
          [.lbl ob.ctx.jump (lblName "do_cond" (c.blockid + 2)) []]) := by
      refine ⟨rfl, curOf_lbl _ _ _ _ _, ?_, hsl1, hsl2⟩
      unf
      exact curOK_label "do_cond" _ _ _ (by omega)
    have hitsbody : T.S.its = (pre ++ [.lbl none (lblName "do_body" (c.blockid + 1)) []]) ++ ob.items ++
        (.lbl ob.ctx.jump (lblName "do_cond" (c.blockid + 2)) [] ::
          (oe.items ++ (oj.items ++ .lbl (some (.jnz oj.val (lblName "do_body" (c.blockid + 1))
            (lblName "do_join" (c.blockid + 3)))) (lblName "do_join" (c.blockid + 3)) [] :: post))) := by
      rw [hitsC]
    -- iterations, entered at `do_body`
    have hQ : ∀ k, k ≤ n → ∀ (s : Store) (env : Env) (M : Mem) (out : CSem2.Outcome),
        exec T.S.cs T.P (k + 1) s (.dowhile b e) = some out → SInv T.M0 T.S.cs T.cnts T.W T.σ T.vtys s env M →
        Done T lp brk cont (T.at env M (pre ++ [.lbl none (lblName "do_body" (c.blockid + 1)) []]))
          ((((pre ++ [.lbl none (lblName "do_body" (c.blockid + 1)) []]) ++ ob.items) ++
            [.lbl ob.ctx.jump (lblName "do_cond" (c.blockid + 2)) []]) ++ oe.items ++ oj.items ++
            [.lbl (some (.jnz oj.val (lblName "do_body" (c.blockid + 1))
              (lblName "do_join" (c.blockid + 3)))) (lblName "do_join" (c.blockid + 3)) []]) out := by
      intro k
      induction k with
      | zero =>
        intro _ s env M out hex inv
        simp only [exec] at hex
        cases hex
      | succ k ihk =>
        intro hk s env M out hex inv
        -- the controlling expression, entered at `do_cond`
        have hcond : ∀ (s' : Store) (env' : Env) (M' : Mem),
            ((evalE3 T.S.cs (callOf T.P fun s' st' => exec T.S.cs T.P (k + 1) s' st') s' e).bind fun v =>
              if v ≠ 0 then exec T.S.cs T.P (k + 1) s' (.dowhile b e) else some (.normal s')) = some out →
            SInv T.M0 T.S.cs T.cnts T.W T.σ T.vtys s' env' M' →
            Done T lp brk cont (T.at env' M' (((pre ++ [.lbl none (lblName "do_body" (c.blockid + 1)) []]) ++
              ob.items) ++ [.lbl ob.ctx.jump (lblName "do_cond" (c.blockid + 2)) []]))
              ((((pre ++ [.lbl none (lblName "do_body" (c.blockid + 1)) []]) ++ ob.items) ++
                [.lbl ob.ctx.jump (lblName "do_cond" (c.blockid + 2)) []]) ++ oe.items ++ oj.items ++
                [.lbl (some (.jnz oj.val (lblName "do_body" (c.blockid + 1))
                  (lblName "do_join" (c.blockid + 3)))) (lblName "do_join" (c.blockid + 3)) []]) out := by
          intro s' env' M' hcd inv'
          simp only [Option.bind_eq_some_iff] at hcd
          obtain ⟨v, hev, hcd⟩ := hcd
          obtain ⟨k1, env1, st, hreach, inv1, hat⟩ := sim_branch T (k + 1) (hc (k + 1) hk) hpc e 0
            (by rw [hoe, addBlocks_zero, hoj]; exact hextc) hwe' hfe hev
            (by rw [hoe, addBlocks_zero, hoj]; exact hitsJ) hcb' hcj inv'
          by_cases hv0 : v ≠ 0
          · rw [if_pos hv0] at hcd hat
            have hst := atLabel_item T hits0 hat
            subst hst
            exact (ihk (by omega) s' env1 M' out hcd inv1).prepend hreach
          · rw [if_neg hv0] at hcd hat
            simp only [Option.some.injEq] at hcd
            subst hcd
            have hst := atLabel_item T hitsJ hat
            subst hst
            exact ⟨k1, env1, M', hreach, inv1⟩
        simp only [exec] at hex
        cases heb : exec T.S.cs T.P (k + 1) s b with
        | none => rw [heb] at hex; cases hex
        | some ob' =>
          rw [heb] at hex
          have pb := ih (k + 1) hk b s ob' (true, true) (lblName "do_join" (c.blockid + 3))
            (lblName "do_cond" (c.blockid + 2)) _ nd nd' _ _ env M heb hfr hwb hpb
            (by rw [hob]; exact hextb) (by rw [hob]; exact hitsbody) ⟨fun _ => hcj, fun _ => hcc⟩ inv
          rw [hob] at pb
          have dn := pb.close hitsC ⟨fun _ => hcj, fun _ => hcc⟩
          cases ob' with
          | normal s' =>
            simp only at hex
            obtain ⟨k2, env', M', hr2, inv'⟩ := dn
            exact (hcond s' env' M' hex inv').prepend hr2
          | cont s' =>
            simp only at hex
            obtain ⟨_, k2, env', M', st', inv', hr2, hat'⟩ := dn
            have hst := atLabel_item T hitsC hat'
            subst hst
            exact (hcond s' env' M' hex inv').prepend hr2
          | brk s' =>
            simp only [Option.some.injEq] at hex
            subst hex
            obtain ⟨_, k2, env', M', st', inv', hr2, hat'⟩ := dn
            have hst := atLabel_item T hitsJ hat'
            subst hst
            exact ⟨k2, env', M', hr2, inv'⟩
          | ret w =>
            simp only [Option.some.injEq] at hex
            subst hex
            exact dn
    -- entering the loop
    have hstep := step_fall_item T hits0 env M
    have dn := (hQ n (Nat.le_refl _) s env M out hex inv).prepend (Reach.one hstep)
    have := dn.post (o := (((ob.ctx.atLabel (lblName "do_cond" (c.blockid + 2))).upd oe.ctx).upd
      oj.ctx).atLabel (lblName "do_join" (c.blockid + 3))) rfl
    simp only [List.append_assoc, List.singleton_append, List.cons_append, List.nil_append, labelItem,
      hp.jump] at this ⊢
    exact this
  · cases hwt

end

end CprocVerif.LowerMach2

import CprocVerif.Lemmas.InitRefNoSw

/-!
# The classes of (type, initialiser) pairs the refinement theorems are stated for

Decidable (`Bool`-valued) predicates; `Drv/C07.lean` evaluates the same predicates for every
generated object (`class` op), so that the evidence shows which part of the explored inputs is
covered by `parseinit_refines_ref`.
-/

namespace CprocVerif.InitSim
open CprocVerif.Init CprocVerif.Image CprocVerif.InitRef

mutual
  theorem okI_of (i : Ini) (h1 : noDesig i = true) : okI i = true := by
    cases i with
    | expr e => rfl
    | list its =>
      simp only [noDesig] at h1
      simp only [okI]
      exact okIs_of its h1
  theorem okIs_of (its : Items) (h1 : noDesigs its = true) : okIs its = true := by
    cases its with
    | nil => rfl
    | cons ds i rest =>
      simp only [noDesigs, Bool.and_eq_true] at h1
      simp only [okIs, Bool.and_eq_true]
      exact ⟨⟨h1.1.1, okI_of i h1.1.2⟩, okIs_of rest h1.2⟩
end

end CprocVerif.InitSim

import CprocVerif.Lemmas.InitRefTop

/-!
# Without designators the reference never switches a union member

Positional initialisation reaches only the first member of a union, so every recorded active
member is member 0 and `enter` never finds a different one.
-/

namespace CprocVerif.InitSim
open CprocVerif.Init CprocVerif.Image CprocVerif.InitRef

theorem noDesigs_cons {ds : List Desig} {i : Ini} {rest : Items} (h : noDesigs (.cons ds i rest) = true) :
    ds = [] ∧ noDesig i = true ∧ noDesigs rest = true := by
  simp only [noDesigs, Bool.and_eq_true, List.isEmpty_iff] at h
  exact ⟨h.1.1, h.1.2, h.2⟩

/-- every union recorded as active has its first member active -/
def ActZ (st : RSt) : Prop := ∀ e ∈ st.act, e.2.2.1 = 0

theorem actZ_enter {st : RSt} {pl : Place} {pos : Nat} {ch : Place} (hc : childAt pl pos true = some ch)
    (h : ActZ st) : ActZ (enter st pl pos) ∧ (enter st pl pos).nswitch = st.nswitch := by
  unfold enter
  split
  · rename_i tag size ms hty
    have hp0 : pos = 0 := by
      rw [childAt_agg hty] at hc
      by_cases hp : pos = 0
      · exact hp
      · simp [hp] at hc
    split
    · rename_i a b m d hf
      have hm := h _ (List.mem_of_find?_eq_some hf)
      simp only [] at hm
      rw [if_pos (by omega)]
      exact ⟨h, rfl⟩
    · refine ⟨?_, rfl⟩
      intro e he
      simp only [List.mem_cons] at he
      rcases he with rfl | he
      · exact hp0
      · exact h e he
  · exact ⟨h, rfl⟩

theorem actZ_grow {st : RSt} (pl : Place) (pos : Nat) (h : ActZ st) : ActZ (grow st pl pos) := by
  unfold grow
  split
  · split
    · exact h
    · exact h
  · exact h

theorem actZ_zeroIfDirty {st : RSt} (off size depth : Nat) (h : ActZ st) :
    ActZ (zeroIfDirty st off size depth) := by
  intro e he
  unfold zeroIfDirty at he
  split at he
  · exact h e (List.mem_filter.1 he).1
  · exact h e he

theorem actZ_zeroed {st : RSt} (pl : Place) (h : ActZ st) : ActZ (zeroed st pl) :=
  actZ_zeroIfDirty _ _ _ h

theorem nosw_all (fuel : Nat) :
    (∀ pl ini rest st r, initOne fuel pl ini rest st = .ok r → noDesig ini = true → noDesigs rest = true → ActZ st →
      ActZ r.2 ∧ r.2.nswitch = st.nswitch) ∧
    (∀ pl pos its st r, contAgg fuel pl pos its st = .ok r → noDesigs its = true → ActZ st →
      ActZ r.2 ∧ r.2.nswitch = st.nswitch) ∧
    (∀ pl its st r, braced fuel pl its st = .ok r → noDesigs its = true → ActZ st →
      ActZ r ∧ r.nswitch = st.nswitch) ∧
    (∀ pl pos its st r, loopB fuel pl pos its st = .ok r → noDesigs its = true → ActZ st →
      ActZ r ∧ r.nswitch = st.nswitch) := by
  induction fuel with
  | zero =>
    refine ⟨?_, ?_, ?_, ?_⟩
    · intro pl ini rest st r h; simp [initOne] at h
    · intro pl pos its st r h; simp [contAgg] at h
    · intro pl its st r h; simp [braced] at h
    · intro pl pos its st r h; simp [loopB] at h
  | succ fuel ih =>
    obtain ⟨ih1, ih2, ih3, ih4⟩ := ih
    have h1 : ∀ pl ini rest st r, initOne (fuel + 1) pl ini rest st = .ok r → noDesig ini = true → noDesigs rest = true →
        ActZ st → ActZ r.2 ∧ r.2.nswitch = st.nswitch := by
      intro pl ini rest st r h hoi hor ha
      cases ini with
      | list its =>
        rw [initOne.eq_2] at h
        split at h
        · rename_i st' hb; cases h; exact ih3 _ _ _ _ hb (by simpa only [noDesig] using hoi) ha
        · cases h
      | expr e =>
        rcases expr_cases pl.ty e with ⟨size, k, hty⟩ | ⟨n, es, cls, sg, w, scls, cs, hty, rfl⟩ |
            ⟨isU, tag, size, ms, hty, rfl⟩ | he
        · rw [initOne.eq_3 _ _ _ _ _ _ _ hty] at h
          split at h
          · cases h; exact ⟨ha, rfl⟩
          · cases h
        · rw [initOne.eq_4 _ _ _ _ _ _ _ _ _ _ _ hty] at h
          split at h
          · cases h
          · cases h
            dsimp only []
            split <;> exact ⟨ha, rfl⟩
        · rw [initOne.eq_5 _ _ _ _ _ _ _ _ _ hty, if_pos rfl] at h
          cases h; exact ⟨ha, rfl⟩
        · rw [initOne_elide he] at h
          exact ih2 _ _ _ _ _ h (by simp [noDesigs, noDesig, hor]) ha
    refine ⟨h1, ?_, ?_, ?_⟩
    · intro pl pos its st r h hoi ha
      cases its with
      | nil => rw [contAgg.eq_2] at h; cases h; exact ⟨ha, rfl⟩
      | cons ds i rest =>
        obtain ⟨rfl, hoi1, hor⟩ := noDesigs_cons hoi
        rw [contAgg.eq_4] at h
        split at h
        · cases h; exact ⟨ha, rfl⟩
        · rename_i ch hc
          split at h
          · rename_i rest' st' hi
            obtain ⟨a1, a2⟩ := actZ_enter hc ha
            obtain ⟨b1, b2⟩ := ih1 _ _ _ _ _ hi hoi1 hor (actZ_grow _ _ a1)
            have hsuf := (suff_all fuel).1 _ _ _ _ _ hi
            obtain ⟨c1, c2⟩ := ih2 _ _ _ _ _ h (noDesigs_suff hsuf (by simp [noDesigs, hoi1, hor])) b1
            refine ⟨c1, ?_⟩
            rw [c2, b2, grow_nswitch, a2]
          · cases h
    · intro pl its st r h hoi ha
      rcases scalar_or_not pl.ty with ⟨size, k, hty⟩ | hty
      · rcases braced_scalar_ok hty h with ⟨_, rfl⟩ | ⟨e, v, _, _, rfl⟩ <;> exact ⟨ha, rfl⟩
      · by_cases hs : isStrInit pl.ty its
        · obtain ⟨n, es, cls, sg, w, scls, cs, hty', rfl⟩ := hs
          rw [braced_str hty'] at h
          cases hi : initOne fuel pl (.expr (.str w scls cs)) .nil (zeroed st pl) with
          | error e => rw [hi] at h; cases h
          | ok x =>
            rw [hi] at h; cases h
            have := ih1 _ _ _ _ _ hi rfl rfl (actZ_zeroed pl ha)
            rw [zeroed_nswitch] at this
            exact this
        · rw [braced_loop hty hs] at h
          have := ih4 _ _ _ _ _ h hoi (actZ_zeroed pl ha)
          rw [zeroed_nswitch] at this
          exact this
    · intro pl pos its st r h hoi ha
      cases its with
      | nil => rw [loopB.eq_2] at h; cases h; exact ⟨ha, rfl⟩
      | cons ds i rest =>
        obtain ⟨rfl, hoi1, hor⟩ := noDesigs_cons hoi
        rw [loopB.eq_3] at h
        split at h
        · cases h
        · rename_i ch hc
          split at h
          · rename_i rest' st' hi
            obtain ⟨a1, a2⟩ := actZ_enter hc ha
            obtain ⟨b1, b2⟩ := ih1 _ _ _ _ _ hi hoi1 hor (actZ_grow _ _ a1)
            have hsuf := (suff_all fuel).1 _ _ _ _ _ hi
            obtain ⟨c1, c2⟩ := ih4 _ _ _ _ _ h (noDesigs_suff hsuf (by simp [noDesigs, hoi1, hor])) b1
            refine ⟨c1, ?_⟩
            rw [c2, b2, grow_nswitch, a2]
          · cases h

/-- no designator: no union member switch -/
theorem nswitch_zero {t : Ty} {inc : Bool} {i : Ini} {r : Result} (hr : ref t inc i = .ok r) (hok : noDesig i = true) :
    r.nswitch = 0 := by
  unfold ref at hr
  split at hr
  · cases hr
  · cases hr
  · rename_i rst hi
    have := (nosw_all 1000000).1 _ _ _ _ _ hi hok rfl (fun e he => by cases he)
    split at hr
    · cases hr
    · cases hr
      exact this.2

end CprocVerif.InitSim
